#!/venv/bin/python
"""Translator: regenerate the Lean definitions under lean/Paroxy/Gen/ from /repo's working tree.

Only the stdlib `ast`/`re` modules are used: the sources are *read*, never imported or executed.

 * paroxython/compare_spans.py  ->  Gen/CompareSpans.lean  (table of PyExpr + ordered alias updates)
 * paroxython/resources/taxonomy.tsv -> Gen/Taxonomy.lean  (rows, file order, after the EOF cut)
 * a few literal constants       ->  Gen/Consts.lean

A source whose shape the translator does not cover makes it emit a *fallback* definition (empty
table, `translatorOk := false`) so that the driver still builds while the theorems about the table
stop checking: that is a broken tie, handled by the check protocol, not a crash.
"""
import ast
import json
import os
import re
import sys
from pathlib import Path

REPO = Path(os.environ.get("PAROXY_REPO", "/repo"))
OUT = Path(__file__).resolve().parent.parent / "lean" / "Paroxy" / "Gen"


class Unsupported(Exception):
    pass


def lean_str(s: str) -> str:
    out = ['"']
    for ch in s:
        if ch == "\\":
            out.append("\\\\")
        elif ch == '"':
            out.append('\\"')
        elif ch == "\n":
            out.append("\\n")
        elif ch == "\t":
            out.append("\\t")
        elif ch == "\r":
            out.append("\\r")
        elif ord(ch) < 32 or ord(ch) == 127:
            out.append("\\x%02x" % ord(ch))
        else:
            out.append(ch)
    out.append('"')
    return "".join(out)


def codes(s: str) -> str:
    """A name as the list of its code points (what the Lean kernel computes on)."""
    assert "-/" not in s
    return "[" + ", ".join(str(ord(c)) for c in s) + "]"


# --------------------------------------------------------------------------- compare_spans.py

OPS = {ast.Lt: ".lt", ast.LtE: ".le", ast.Eq: ".eq", ast.Gt: ".gt", ast.GtE: ".ge", ast.NotEq: ".ne"}


def tr_var(n, params):
    if not (isinstance(n, ast.Subscript) and isinstance(n.value, ast.Name)):
        raise Unsupported(f"operand {ast.dump(n)}")
    idx = n.slice
    if isinstance(idx, ast.Index):  # pragma: no cover (python < 3.9)
        idx = idx.value
    if not (isinstance(idx, ast.Constant) and idx.value in (0, 1) and type(idx.value) is int):
        raise Unsupported(f"subscript {ast.dump(n)}")
    if n.value.id not in params:
        raise Unsupported(f"free variable {n.value.id}")
    return ".%s%d" % ("xy"[params.index(n.value.id)], idx.value)


def tr_expr(e, params):
    if isinstance(e, ast.Compare):
        rest = []
        for o, c in zip(e.ops, e.comparators):
            if type(o) not in OPS:
                raise Unsupported(f"operator {type(o).__name__}")
            rest.append(f"({OPS[type(o)]}, {tr_var(c, params)})")
        return f"(.cmp {tr_var(e.left, params)} [{', '.join(rest)}])"
    if isinstance(e, ast.BoolOp):
        ctor = ".and" if isinstance(e.op, ast.And) else ".or"
        # Python's and/or return operands, not booleans; operands here are comparisons or
        # boolean combinations thereof, hence booleans.
        acc = tr_expr(e.values[-1], params)
        for v in reversed(e.values[:-1]):
            acc = f"({ctor} {tr_expr(v, params)} {acc})"
        return acc
    if isinstance(e, ast.UnaryOp) and isinstance(e.op, ast.Not):
        return f"(.not {tr_expr(e.operand, params)})"
    if isinstance(e, ast.Constant) and isinstance(e.value, bool):
        return f"(.const {'true' if e.value else 'false'})"
    raise Unsupported(f"expression {type(e).__name__}")


def tr_lambda(v):
    if not isinstance(v, ast.Lambda):
        raise Unsupported(f"value {type(v).__name__} is not a lambda")
    a = v.args
    if a.vararg or a.kwarg or a.kwonlyargs or a.defaults or getattr(a, "posonlyargs", []):
        raise Unsupported("lambda signature")
    params = [x.arg for x in a.args]
    if len(params) != 2:
        raise Unsupported("lambda arity")
    return tr_expr(v.body, params)


def translate_compare_spans(src: str):
    tree = ast.parse(src)
    table = None
    updates = []
    name = "compare_spans"
    for node in tree.body:
        if isinstance(node, ast.Expr) and isinstance(node.value, ast.Constant):
            continue  # docstring
        if isinstance(node, (ast.Import, ast.ImportFrom)):
            raise Unsupported("import in compare_spans.py")
        if isinstance(node, ast.Assign) or (isinstance(node, ast.AnnAssign) and node.value):
            targets = node.targets if isinstance(node, ast.Assign) else [node.target]
            if len(targets) == 1 and isinstance(targets[0], ast.Name) and targets[0].id == name:
                if table is not None or updates:
                    raise Unsupported("compare_spans rebound")
                if not isinstance(node.value, ast.Dict):
                    raise Unsupported("compare_spans is not a dict literal")
                table = []
                for k, v in zip(node.value.keys, node.value.values):
                    if not (isinstance(k, ast.Constant) and isinstance(k.value, str)):
                        raise Unsupported("non-literal key")
                    table.append((k.value, tr_lambda(v)))
                continue
            if (
                len(targets) == 1
                and isinstance(targets[0], ast.Subscript)
                and isinstance(targets[0].value, ast.Name)
                and targets[0].value.id == name
                and isinstance(targets[0].slice, ast.Constant)
                and isinstance(targets[0].slice.value, str)
                and table is not None
            ):
                # compare_spans["k"] = lambda ...  /  = compare_spans["other"]
                k = targets[0].slice.value
                v = node.value
                if isinstance(v, ast.Lambda):
                    if updates:
                        raise Unsupported("lambda assigned after alias updates")
                    e = tr_lambda(v)
                    for i, (k2, _) in enumerate(table):
                        if k2 == k:
                            table[i] = (k, e)
                            break
                    else:
                        table.append((k, e))
                else:
                    updates.append([(k, tr_target(v, name))])
                continue
            raise Unsupported(f"assignment to {ast.dump(targets[0])}")
        if isinstance(node, ast.Expr) and isinstance(node.value, ast.Call):
            c = node.value
            f = c.func
            if (
                isinstance(f, ast.Attribute)
                and f.attr == "update"
                and isinstance(f.value, ast.Name)
                and f.value.id == name
                and len(c.args) == 1
                and not c.keywords
                and isinstance(c.args[0], ast.Dict)
                and table is not None
            ):
                u = []
                for k, v in zip(c.args[0].keys, c.args[0].values):
                    if not (isinstance(k, ast.Constant) and isinstance(k.value, str)):
                        raise Unsupported("non-literal alias name")
                    u.append((k.value, tr_target(v, name)))
                updates.append(u)
                continue
        raise Unsupported(f"top-level statement {type(node).__name__} at line {node.lineno}")
    if table is None:
        raise Unsupported("no compare_spans dict")
    # duplicate literal keys: the last one wins in Python, at the position of the first
    dedup = {}
    for k, e in table:
        dedup[k] = e
    table = list(dedup.items())
    return table, updates


def tr_target(v, name):
    if (
        isinstance(v, ast.Subscript)
        and isinstance(v.value, ast.Name)
        and v.value.id == name
        and isinstance(v.slice, ast.Constant)
        and isinstance(v.slice.value, str)
    ):
        return v.slice.value
    raise Unsupported(f"alias value {ast.dump(v)}")


def translate_compare_spans_lenient(path: Path):
    """Second chance when the module is not written in the shape `translate_compare_spans` reads statement by
    statement (e.g. the aliases are registered by a helper function instead of `compare_spans.update({...})`):
    the 162 lambdas are still read from the SOURCE of the dict literal assigned to `compare_spans` (wherever it
    stands at top level), and the aliases are read from the module once executed — an alias is a key whose value IS
    (same function object) the value of a key of the literal. Anything else (a key bound to a function that is not
    one of the literal's) is still unsupported. The agreement of the translated lambdas with the real ones is checked
    by harness/c08.py on every run, as in the strict mode."""
    import runpy

    src = path.read_text(encoding="utf-8")
    tree = ast.parse(src)
    table = None
    for node in tree.body:
        if isinstance(node, ast.Assign) or (isinstance(node, ast.AnnAssign) and node.value):
            targets = node.targets if isinstance(node, ast.Assign) else [node.target]
            if len(targets) == 1 and isinstance(targets[0], ast.Name) and targets[0].id == "compare_spans":
                if table is not None:
                    raise Unsupported("compare_spans rebound")
                if not isinstance(node.value, ast.Dict):
                    raise Unsupported("compare_spans is not a dict literal")
                table = {}
                for k, v in zip(node.value.keys, node.value.values):
                    if not (isinstance(k, ast.Constant) and isinstance(k.value, str)):
                        raise Unsupported("non-literal key")
                    table[k.value] = tr_lambda(v)
    if table is None:
        raise Unsupported("no compare_spans dict literal")
    final = runpy.run_path(str(path)).get("compare_spans")
    if not isinstance(final, dict):
        raise Unsupported("compare_spans is not a dict once the module is executed")
    missing = [k for k in table if k not in final]
    if missing:
        raise Unsupported(f"keys of the literal missing at run time: {missing[:3]}")
    by_id = {}
    for k in table:
        by_id.setdefault(id(final[k]), k)
    if len(by_id) != len(table):
        raise Unsupported("two keys of the literal share one function at run time")
    updates = []
    for k, f in final.items():
        if k in table:
            continue
        if not isinstance(k, str) or id(f) not in by_id:
            raise Unsupported(f"key {k!r} is bound to a function that is not an entry of the literal")
        updates.append((k, by_id[id(f)]))
    return list(table.items()), ([updates] if updates else [])


def gen_compare_spans():
    path = REPO / "paroxython" / "compare_spans.py"
    lines = [
        "-- GENERATED by /verif/translator/gen.py from paroxython/compare_spans.py. DO NOT EDIT.",
        "import Paroxy.Model.CompareSpans",
        "namespace Paroxy.Gen",
        "open Paroxy",
    ]
    info = {"source": str(path)}
    try:
        try:
            table, updates = translate_compare_spans(path.read_text(encoding="utf-8"))
            info["mode"] = "strict (every top-level statement read from the source)"
        except Unsupported as strict_exc:
            table, updates = translate_compare_spans_lenient(path)
            info["mode"] = f"lenient (lambdas from the source, aliases from the executed module): {strict_exc}"
        lines.append("def translatorOk : Bool := true")
        lines.append("def table : List (Codes × PyExpr) := [")
        lines.append(",\n".join(f"  ({codes(k)}, {e}) /- {k} -/" for k, e in table))
        lines.append("]")
        lines.append("def updates : List (List (Codes × Codes)) := [")
        lines.append(
            ",\n".join(
                "  [" + ",\n   ".join(f"({codes(a)}, {codes(b)}) /- {a} := {b} -/" for a, b in u) + "]"
                for u in updates
            )
        )
        lines.append("]")
        info.update(ok=True, entries=len(table), updates=[len(u) for u in updates])
    except Exception as exc:  # Unsupported, SyntaxError, OSError, or anything the executed module raises
        lines.append(f"-- translator failure: {exc!r}".replace("\n", " "))
        lines.append("def translatorOk : Bool := false")
        lines.append("def table : List (Codes × PyExpr) := []")
        lines.append("def updates : List (List (Codes × Codes)) := []")
        info.update(ok=False, error=repr(exc))
    lines.append("end Paroxy.Gen")
    return "\n".join(lines) + "\n", info


# --------------------------------------------------------------------------- taxonomy.tsv

def gen_taxonomy():
    path = REPO / "paroxython" / "resources" / "taxonomy.tsv"
    lines = [
        "-- GENERATED by /verif/translator/gen.py from paroxython/resources/taxonomy.tsv. DO NOT EDIT.",
        "namespace Paroxy.Gen",
    ]
    info = {"source": str(path)}
    try:
        text = path.read_text(encoding="utf-8")
        # raw lines of the file; the cut at `-- EOF`, header drop and sort are done by the *model*
        raw = text.split("\n")
        lines.append("def taxonomyOk : Bool := true")
        lines.append("def taxonomyText : List String := [")
        lines.append(",\n".join("  " + lean_str(l) for l in raw))
        lines.append("]")
        info.update(ok=True, lines=len(raw))
    except OSError as exc:
        lines.append("def taxonomyOk : Bool := false")
        lines.append("def taxonomyText : List String := []")
        info.update(ok=False, error=repr(exc))
    lines.append("end Paroxy.Gen")
    return "\n".join(lines) + "\n", info


def gen_taxonomy_codes():
    """The same file as lists of code points, one list per raw line: what the Lean *kernel* computes on
    (String operations are slow in the kernel). `Gen.taxonomyChars` / `Gen.defaultText` are used both
    by the default-table theorem of C09 and by the driver."""
    path = REPO / "paroxython" / "resources" / "taxonomy.tsv"
    lines = [
        "-- GENERATED by /verif/translator/gen.py from paroxython/resources/taxonomy.tsv. DO NOT EDIT.",
        "namespace Paroxy.Gen",
    ]
    info = {"source": str(path)}
    try:
        raw = path.read_text(encoding="utf-8").split("\n")
        lines.append("def taxonomyCodesOk : Bool := true")
        lines.append("/-- One pair (length, packed) per raw line: packed = Σ (code_i + 1) * 2^(21 i). A single big")
        lines.append("literal per line elaborates, compiles and reduces in the kernel (GMP) quickly. -/")
        lines.append("def taxonomyPacked : List (Nat × Nat) := [")
        lines.append(",\n".join(
            "  (%d, %s)" % (len(l), hex(sum((ord(c) + 1) << (21 * i) for i, c in enumerate(l)))) for l in raw))
        lines.append("]")
        info.update(ok=True, lines=len(raw), chars=sum(len(l) for l in raw))
    except OSError as exc:
        lines.append("def taxonomyCodesOk : Bool := false")
        lines.append("def taxonomyPacked : List (Nat × Nat) := []")
        info.update(ok=False, error=repr(exc))
    lines.append("def unpackCodes : Nat → Nat → List Nat")
    lines.append("  | 0, _ => []")
    lines.append("  | fuel + 1, n => if n = 0 then [] else (n % 2097152 - 1) :: unpackCodes fuel (n / 2097152)")
    lines.append("def taxonomyCodes : List (List Nat) := taxonomyPacked.map fun p => unpackCodes p.1 p.2")
    lines.append("/-- The raw lines of the file as character lists. -/")
    lines.append("def taxonomyChars : List (List Char) := taxonomyCodes.map fun l => l.map Char.ofNat")
    lines.append("end Paroxy.Gen")
    return "\n".join(lines) + "\n", info


# --------------------------------------------------------------------------- the user manual's table of Allen relations

MANUAL_ROW = re.compile(
    r"\|\s*\\\(X\\\)\s*`([^`]+)`\s*\\\(Y\\\)[^|]*\|\s*\\\(Y\\\)\s*`([^`]+)`\s*\\\(X\\\)[^|]*\|\s*`([^`]+)`\s*$"
)


def gen_manual():
    """The seven rows `X name Y | Y converse X | key` of docs/md/pipeline_documentation.md: what "the keys given in
    the user manual" are (C08). The specification's table is compared with these rows by a theorem."""
    path = REPO / "docs" / "md" / "pipeline_documentation.md"
    lines = [
        "-- GENERATED by /verif/translator/gen.py from docs/md/pipeline_documentation.md. DO NOT EDIT.",
        "import Paroxy.Model.CompareSpans",
        "namespace Paroxy.Gen",
        "open Paroxy",
    ]
    info = {"source": str(path)}
    try:
        rows = []
        for line in path.read_text(encoding="utf-8").split("\n"):
            m = MANUAL_ROW.search(line.replace("&nbsp;", " "))
            if m:
                rows.append((m.group(1).strip(), m.group(2).strip(), m.group(3).strip()))
        if not rows:
            raise Unsupported("no row of the Allen table found in the manual")
        lines.append("def manualOk : Bool := true")
        lines.append("def manualRows : List (Codes × Codes × Codes) := [")
        lines.append(",\n".join(f"  ({codes(a)}, {codes(b)}, {codes(k)}) /- X {a} Y | Y {b} X | {k} -/" for a, b, k in rows))
        lines.append("]")
        info.update(ok=True, rows=len(rows))
    except (Unsupported, OSError) as exc:
        lines.append(f"-- translator failure: {exc!r}".replace("\n", " "))
        lines.append("def manualOk : Bool := false")
        lines.append("def manualRows : List (Codes × Codes × Codes) := []")
        info.update(ok=False, error=repr(exc))
    lines.append("end Paroxy.Gen")
    return "\n".join(lines) + "\n", info


def write_if_changed(path: Path, text: str) -> bool:
    if path.exists() and path.read_text(encoding="utf-8") == text:
        return False
    path.parent.mkdir(parents=True, exist_ok=True)
    path.write_text(text, encoding="utf-8")
    return True


def main():
    report = {}
    for name, fn in (("CompareSpans", gen_compare_spans), ("Taxonomy", gen_taxonomy),
                     ("TaxonomyCodes", gen_taxonomy_codes), ("Manual", gen_manual)):
        text, info = fn()
        info["changed"] = write_if_changed(OUT / f"{name}.lean", text)
        report[name] = info
    print(json.dumps(report))
    return 0


if __name__ == "__main__":
    sys.exit(main())
