#!/bin/bash
# Run once after a fresh restore (offline): regenerate the translated Lean definitions from /repo,
# build the whole Lean library (models, specs, proofs, property theorems) and the model driver.
set -e
cd "$(dirname "$0")"
/venv/bin/python translator/gen.py
cd lean
lake build Paroxy pxdriver
