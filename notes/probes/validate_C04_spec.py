import sys, random, io, contextlib, copy
sys.path.insert(0, "/repo")
import regex
from paroxython.recommend_programs import Recommendations
from paroxython.compare_spans import compare_spans
from paroxython.normalize_predicate import normalize_predicate
rnd = random.Random(21)
TAXA = ["a", "a/b", "a/bc", "a/b/c", "d", "d/e", "d/e_f", "g/h", "meta/x"]
RELS = ["contains", "inside", "equals", "before", "after", "x<x<y<y", "overlaps", "meets", "starts", "is"]
def gen_db():
    n = rnd.randint(1, 6)
    progs = [f"p{i}.py" for i in range(n)]
    rec = {}
    for p in progs:
        t = {}
        for name in rnd.sample(TAXA, rnd.randint(0, 5)):
            t[name] = sorted([sorted((rnd.randint(1, 4), rnd.randint(1, 4))) for _ in range(rnd.randint(1, 3))])
        rec[p] = {"source": "x", "taxa": t, "labels": {}}
    imp = {p: set() for p in progs}
    for i, p in enumerate(progs):
        for q in progs[:i]:
            if rnd.random() < 0.35: imp[p].add(q)
    ch = True
    while ch:
        ch = False
        for p in progs:
            for q in list(imp[p]):
                if not imp[q] <= imp[p]: imp[p] |= imp[q]; ch = True
    taxa = {}
    for p in progs:
        for t in rec[p]["taxa"]: taxa.setdefault(t, []).append(p)
    return {"programs": rec, "taxa": taxa, "labels": {}, "importations": {p: sorted(imp[p]) for p in progs},
            "exportations": {p: sorted(q for q in progs if p in imp[q]) for p in progs}}
def crit(triples=True):
    r = rnd.random()
    if r < 0.25: return rnd.choice(["p1.py", "p", "p[0-2]\\.py", "p3.py", "zz.py"]) if True else None
    if r < 0.7 or not triples: return rnd.choice(TAXA + ["a/b$", "a|d", "zz", "meta"])
    return (rnd.choice(TAXA), rnd.choice(RELS), rnd.choice(TAXA))   # positive triples only here
# ---------------- spec (as in DESIGN §5/C04) ----------------
def directly(db, p, t): return bool(db["programs"][p]["taxa"].get(t))
def imports_plus(db, p, q): return q in db["importations"][p]   # WF: closed
def m_taxon(c, t): return bool(regex.match(c + r"\b", t))
def m_prog(c, p): return bool(regex.match(c, p))
def meets(db, op, c, p):
    if isinstance(c, str):
        if c.endswith(".py"): return m_prog(c, p)
        direct = lambda q: any(m_taxon(c, t) and directly(db, q, t) for t in db["taxa"])
        return direct(p) or (op == "exclude" and any(direct(q) and imports_plus(db, p, q) for q in db["programs"]))
    (p1, r, p2) = c
    R = normalize_predicate(r)[0]
    occ = lambda pat: [(t, i, tuple(s)) for t in db["taxa"] if m_taxon(pat, t) for i, s in enumerate(db["programs"][p]["taxa"].get(t, []))]
    return any(R(s1, s2) for (t1, i1, s1) in occ(p1) for (t2, i2, s2) in occ(p2) if (t1, i1) != (t2, i2))
def prefixes(t):
    e = t.split("/"); return {"/".join(e[:i + 1]) for i in range(len(e))}
def spec_step(db, st, cmd):
    sel, kn, hp, ht = st
    op = cmd["operation"]; quant = "all" if op.count(" all") == 1 else "any"
    op = op.replace(" all", "").replace(" any", ""); cs = cmd["data"]
    if op == "include":
        f = all if quant == "all" else any
        return ({p for p in sel if f(meets(db, op, c, p) for c in cs)}, kn, hp, ht)
    if op == "exclude":
        f = all if quant == "all" else any
        bad = {q for q in db["programs"] if f(meets(db, op, c, q) for c in cs)}
        return ({p for p in sel if not any(q == p or imports_plus(db, p, q) for q in bad)}, kn, hp, ht)
    pats = [str(c) for c in cs]
    mp = {p for p in db["programs"] for c in pats if c.endswith(".py") and m_prog(c, p)}
    if op == "impart":
        learned = {t for c in pats if not c.endswith(".py") for t in db["taxa"] if m_taxon(c, t)}
        learned |= {t for p in mp for t in db["taxa"] if directly(db, p, t)}
        return (sel - mp, kn | {x for t in learned for x in prefixes(t)}, hp, ht)
    if op == "hide":
        return (sel, kn, hp | mp, ht | {t for c in pats if not c.endswith(".py") for t in db["taxa"] if m_taxon(c, t)})
def run_impl(db, cmds):
    with contextlib.redirect_stdout(io.StringIO()), contextlib.redirect_stderr(io.StringIO()):
        r = Recommendations(copy.deepcopy(db)); r.run_pipeline(cmds)
    return (set(r.selected_programs), set(r.imparted_knowledge), set(r.hidden_programs), set(r.hidden_taxa))
bad = 0; n = 0; nontrivial = 0
for it in range(6000):
    db = gen_db()
    cmds = []
    for _ in range(rnd.randint(1, 4)):
        op = rnd.choice(["include", "exclude", "impart", "hide", "include all", "exclude all", "include any"])
        cmds.append({"operation": op, "data": [crit(triples=op.split()[0] in ("include", "exclude")) for _ in range(rnd.randint(1, 3))]})
    st = (set(db["programs"]), set(), set(), set())
    with contextlib.redirect_stderr(io.StringIO()):
        for c in cmds: st = spec_step(db, st, c)
    got = run_impl(db, cmds); n += 1
    if 0 < len(got[0]) < len(db["programs"]): nontrivial += 1
    if got != st:
        bad += 1
        if bad < 4: print("MISMATCH", cmds, "\n impl", got, "\n spec", st, "\n db", {p: r["taxa"] for p, r in db["programs"].items()}, db["importations"])
print("C04 spec vs impl:", n, "pipelines,", nontrivial, "non-trivial, mismatches:", bad)
