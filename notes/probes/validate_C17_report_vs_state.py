import sys, random, io, contextlib, copy, json, re
sys.path.insert(0, "/repo")
from fractions import Fraction
from pathlib import Path
from paroxython.recommend_programs import Recommendations
from paroxython.goodies import cost_bucket
rnd = random.Random(9)
db0 = json.loads(Path("/repo/examples/simple/programs_db.json").read_text())
taxa_all = sorted(db0["taxa"]); progs_all = sorted(db0["programs"])
def rand_cmds():
    cmds = []
    for _ in range(rnd.randint(0, 4)):
        op = rnd.choice(["include", "exclude", "impart", "hide", "include all"])
        data = []
        for _ in range(rnd.randint(1, 3)):
            if rnd.random() < .3: data.append(rnd.choice(progs_all))
            else:
                t = rnd.choice(taxa_all); data.append("/".join(t.split("/")[:rnd.randint(1, t.count("/") + 1)]))
        cmds.append({"operation": op, "data": data})
    return cmds
def parse_md(md):
    buckets = []; cur = None; prog = None; summary = []
    for line in md.split("\n"):
        m = re.match(r"## (\d+) programs? of learning cost (.+)$", line)
        if m: cur = {"count": int(m[1]), "bounds": m[2], "progs": []}; buckets.append(cur); continue
        m = re.match(r"### Program `(.+)` \(learning cost (.+)\)$", line)
        if m: prog = {"name": m[1], "cost": float(m[2]), "rows": []}; cur["progs"].append(prog); continue
        m = re.match(r"\| (\S+) \| `(.+)` \| (.*) \|$", line)
        if m and prog is not None: prog["rows"].append((float(m[1]), m[2], m[3])); continue
        m = re.match(r"\s*<summary>(-?\d+) remaining after operation (\d+) \((\w+)\) has filtered out (\d+) programs?\.</summary>", line)
        if m: summary.append((int(m[1]), int(m[2]), m[3], int(m[4])))
    return buckets, summary
def in_bounds(cost, b):
    if b == "0": return cost == 0
    m = re.match(r"in ([\]\[])(\S+), (\S+)\[", b); lo, hi = float(m[2]), float(m[3])
    return (lo < cost if m[1] == "]" else lo <= cost) and cost < hi
errs = {}; n = 0
def err(k, *a):
    errs.setdefault(k, []).append(a)
for it in range(400):
    cmds = rand_cmds(); strat = rnd.choice(["zeno", "linear"]); sort = rnd.choice(["by_cost_and_sloc", "lexicographic"])
    with contextlib.redirect_stdout(io.StringIO()), contextlib.redirect_stderr(io.StringIO()):
        r = Recommendations(copy.deepcopy(db0), assessment_strategy=strat, title_format="`{path}`"); r.run_pipeline(cmds)
        md = r.get_markdown(sorting_strategy=sort)
    n += 1
    buckets, summary = parse_md(md)
    listed = [p["name"] for b in buckets for p in b["progs"]]
    expected = sorted(set(r.selected_programs) - set(r.hidden_programs))
    if sorted(listed) != expected: err("membership", cmds)
    costs = [p["cost"] for b in buckets for p in b["progs"]]
    if sort == "by_cost_and_sloc" and costs != sorted(costs): err("order", cmds, costs[:6])
    for b in buckets:
        if b["count"] != len(b["progs"]): err("count", cmds)
        for p in b["progs"]:
            if not in_bounds(p["cost"], b["bounds"]): err("bounds", p["cost"], b["bounds"])
            rec = r.db_programs[p["name"]]["taxa"]
            exp_rows = sorted(t for t in rec if t not in r.hidden_taxa)
            if sorted(t for (_, t, _) in p["rows"]) != exp_rows: err("rows", p["name"])
            for (c, t, s) in p["rows"]:
                if Fraction(c) != Fraction(r.assess.taxon_cost(t)): err("rowcost", t)
                if (s == "_imported_") != (rec[t] == []): err("imported", t)
            tot = sum(Fraction(r.assess.taxon_cost(t)) for t in rec)
            if Fraction(p["cost"]) != tot: err("total", p["name"], p["cost"], float(tot))
    # summary
    cur = len(db0["programs"])
    if len(summary) != len([c for c in cmds if c["data"]]): err("summarylen", cmds)
print("reports", n, {k: len(v) for k, v in errs.items()})
for k, v in errs.items(): print(k, v[:2])
print(cost_bucket(0.9999999999999999), cost_bucket(1.0), cost_bucket(1.9999999999999998), cost_bucket(4.0), cost_bucket(2**-30))
