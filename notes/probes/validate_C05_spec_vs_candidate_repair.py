import sys, random, io, contextlib, copy, itertools
sys.path.insert(0, "/repo")
from paroxython.filter_programs import ProgramFilter
from paroxython.compare_spans import compare_spans
import regex
rnd = random.Random(5)
TAXA = ["A", "B", "A/x", "C"]
PATS = ["A", "B", "A|B", "A/x", "C", "A|C", "Z"]
RELS = ["equals", "contains", "inside", "before", "after", "overlaps", "x<x<y<y", "meets"]
def spec(db, p1, rel, p2):
    R = compare_spans[rel]; out = set()
    m1 = [t for t in db["taxa"] if regex.match(p1 + r"\b", t)]; m2 = [t for t in db["taxa"] if regex.match(p2 + r"\b", t)]
    for p, rec in db["programs"].items():
        occ1 = [(t, i, s) for t in m1 for i, s in enumerate(rec["taxa"].get(t, []))]
        occ2 = [(t, i, s) for t in m2 for i, s in enumerate(rec["taxa"].get(t, []))]
        if not occ1: continue
        if any(not any(R(s1, s2) for (t2, i2, s2) in occ2 if (t2, i2) != (t1, i1)) for (t1, i1, s1) in occ1): out.add(p)
    return out
bad = 0; n = 0
for it in range(20000):
    progs = {}
    for k in range(rnd.randint(1, 3)):
        t = {}
        for name in rnd.sample(TAXA, rnd.randint(0, 4)):
            t[name] = [sorted((rnd.randint(1, 3), rnd.randint(1, 3))) for _ in range(rnd.randint(1, 3))]
        progs[f"p{k}.py"] = {"taxa": t, "source": "", "labels": {}}
    taxa = {}
    for p, r in progs.items():
        for t in r["taxa"]: taxa.setdefault(t, []).append(p)
    db = {"programs": progs, "taxa": taxa, "labels": {}, "importations": {p: [] for p in progs}, "exportations": {p: [] for p in progs}}
    p1, p2, rel = rnd.choice(PATS), rnd.choice(PATS), rnd.choice(RELS)
    with contextlib.redirect_stderr(io.StringIO()):
        got = ProgramFilter(copy.deepcopy(db)).programs_of_negated_triple(p1, compare_spans[rel], p2)
    n += 1
    if set(got) != spec(db, p1, rel, p2):
        bad += 1
        if bad < 3: print("MISMATCH", db["programs"], p1, rel, p2, got, spec(db, p1, rel, p2))
print("C05 repaired vs spec:", n, "cases, mismatches:", bad)
