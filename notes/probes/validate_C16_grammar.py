import sys, random, itertools, io, contextlib
sys.path.insert(0, "/repo")
from paroxython.normalize_predicate import normalize_predicate
from paroxython.compare_spans import compare_spans
keys = [k for k in compare_spans if len(k) == 7 and set(k) <= set("xy<≤=")]
assert len(keys) == 162
names = [k for k in compare_spans if k not in keys]
canon = {}
for k in keys: canon.setdefault(id(compare_spans[k]), k)
def run(s):
    with contextlib.redirect_stderr(io.StringIO()):
        try:
            f, neg = normalize_predicate(s)
            return (canon[id(f)], neg)
        except ValueError:
            return "ValueError"
        except Exception as e:
            return "OTHER:" + type(e).__name__
rnd = random.Random(7)
JUNK = " ()12_,"
def junk(): return "".join(rnd.choice(JUNK) for _ in range(rnd.randint(0, 2)))
def render_formula(key):
    out = [junk()]
    for ch in key:
        if ch in "xy":
            out.append(rnd.choice([ch, ch.upper()]) + rnd.choice(["", "1", "2"]))
        elif ch == "≤": out.append(rnd.choice(["≤", "<="]))
        elif ch == "=": out.append(rnd.choice(["=", "=="]))
        else: out.append("<")
        out.append(junk())
    return "".join(out)
def with_neg(s, mode):
    if mode == 0: return s, False
    if mode == 1: return "!" + " " * rnd.randint(0, 2) + s, True
    if mode == 2: return "not " + s, True
    return s + " not", True
bad = []
n = 0
for key in keys:
    for _ in range(60):
        s0 = render_formula(key)
        for mode in range(4):
            s, neg = with_neg(s0, mode)
            n += 1
            r = run(s)
            if r != (key, neg): bad.append((key, s, r))
print("formula spellings:", n, "bad:", len(bad), bad[:8])
bad = []; n = 0
for name in names:
    target = canon[id(compare_spans[name])]
    for _ in range(40):
        s0 = "".join(c.upper() if rnd.random() < .5 else c for c in name)
        isv = rnd.choice([0, 1, 2])
        if isv == 1: s0 = "is " + s0
        if isv == 2: s0 = s0 + " is"
        s0 = " " * rnd.randint(0, 2) + s0 + " " * rnd.randint(0, 2)
        for mode in range(4):
            s, neg = with_neg(s0, mode)
            n += 1
            r = run(s)
            if r != (target, neg): bad.append((name, s, r))
print("name spellings:", n, "bad:", len(bad), bad[:8])
# abbreviations
for s, exp in [("x=y", "x=y≤x=y"), ("y = x", "x=y≤x=y"), ("x<y", "x≤x<y≤y"), ("y≤x≤y", "y≤x≤x≤y"), ("x <= y <= y", "x≤x≤y≤y")]:
    print("abbrev", s, run(s), exp)
# arbitrary strings
alpha = "xyXY<=≤! notis()12abc\t"
res = {}
for _ in range(200000):
    s = "".join(rnd.choice(alpha) for _ in range(rnd.randint(0, 9)))
    r = run(s)
    res[r if isinstance(r, str) else "key"] = res.get(r if isinstance(r, str) else "key", 0) + 1
print(res)
