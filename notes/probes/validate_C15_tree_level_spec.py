import sys, ast, io, contextlib, re
sys.path.insert(0, "/repo")
from pathlib import Path
from paroxython.flatten_ast import flatten_ast
import regex
remove_context = regex.compile(r", ctx=.+?\(\)").sub

class H:
    def __init__(s): s.c = {}; s.i = 0
    def __call__(s, x):
        if x not in s.c: s.i += 1; s.c[x] = f"0x{s.i:04x}"
        return s.c[x]

def const_kind(v):
    if isinstance(v, str): return "Str"
    if isinstance(v, bytes): return "Bytes"
    if v is True or v is False or v is None: return "NameConstant"
    if v is Ellipsis: return "Ellipsis"
    return "Num"

def unq(r):
    # effect of unquote on a scalar line  key=<repr>
    m = regex.compile(r"""=["'](.*)['"]\n""").search("=" + r + "\n")
    if m: return ("=" + r + "\n")[:m.start()] + "=" + m[1] + "\n"
    return "=" + r + "\n"

def dump(node, prefix, path, h, out):
    """tree-level spec: emits final lines directly"""
    if isinstance(node, ast.AST):
        # fold negative literal
        if isinstance(node, ast.UnaryOp) and isinstance(node.op, ast.USub) and isinstance(node.operand, ast.Constant) and const_kind(node.operand.value) == "Num":
            hv = h(remove_context("", ast.dump(node)))
            h(remove_context("", ast.dump(node.operand)))  # operand hash is still allocated
            out.append(f"{prefix}/_type=Num\n"); out.append(f"{prefix}/_hash={hv}\n")
            out.append(f"{prefix}/_pos={node.lineno}:{path[2:]}\n")
            out.append(f"{prefix}/n=-{repr(node.operand.value)}\n")
            return
        tname = type(node).__name__
        if isinstance(node, ast.Constant): tname = const_kind(node.value)
        out.append(f"{prefix}/_type={tname}\n")
        if isinstance(node, ast.expr):
            out.append(f"{prefix}/_hash={h(remove_context('', ast.dump(node)))}\n")
        if "lineno" in node._attributes and not isinstance(node, ast.alias):
            out.append(f"{prefix}/_pos={node.lineno}:{path[2:]}\n")
        fields = list(ast.iter_fields(node))
        if isinstance(node, (ast.FunctionDef, ast.ClassDef)):
            fields = sorted(fields, key=lambda c: c[0] == "body")
        for i, (name, x) in enumerate(fields):
            if name == "orelse" and isinstance(node, (ast.For, ast.While, ast.AsyncFor)): name = "loopelse"
            elif name == "targets" and isinstance(node, ast.Assign): name = "assigntargets"
            elif name == "target" and isinstance(node, ast.AugAssign): name = "assigntarget"
            elif name == "value" and isinstance(node, (ast.Assign, ast.AugAssign)): name = "assignvalue"
            if name == "kind": continue
            if isinstance(node, ast.Constant) and name == "value":
                k = const_kind(x)
                if k == "Ellipsis": continue
                key = {"Str": "s", "Bytes": "s", "NameConstant": "value", "Num": "n"}[k]
                out.append(f"{prefix}/{key}" + unq(repr(x)))
                continue
            if name == "posonlyargs" and isinstance(node, ast.arguments):
                # only the _length line is dropped
                for k, y in enumerate(x, 1): dump(y, f"{prefix}/{name}/{k}", f"{path}{i}-{k}-", h, out)
                continue
            dump(x, f"{prefix}/{name}", f"{path}{i}-", h, out)
    elif isinstance(node, list):
        out.append(f"{prefix}/_length={len(node)}\n")
        for k, x in enumerate(node, 1): dump(x, f"{prefix}/{k}", f"{path}{k}-", h, out)
    else:
        out.append(prefix + unq(repr(node)))

def spec(tree):
    out = []; dump(tree, "", "", H(), out); return "".join(out)

files = sorted(Path("/repo/examples").glob("**/programs/**/*.py")) + sorted(Path("/repo/paroxython").glob("*.py")) + sorted(Path("/repo/tests").glob("*.py")) + sorted(Path("/repo/helpers").glob("*.py"))
extra = ["x = -5\ny = - -5\nz = not -5\nw = -5.0 + -1j\n", "def f(a, /, b, *, c=1): pass\n", "import os as o, sys\nfrom a import b as c\n",
         "x = u'abc'\ny = b'ab'\nz = ...\nt = None\nf'{x!r:>{y}} a'\n", "match x:\n    case [1, *r] if r: pass\n    case {'a': 1, **k}: pass\n    case P(a=1) | None: pass\n",
         "async def f():\n    async for i in x: await y\n    async with a as b: pass\n", "class A[T]:\n    type X = int\n", "x = -True\ny = -'a'\n", "s = 'it''s'\nt = \"q'\"\nu = b\"it's\"\n"]
ok = bad = 0; firstbad = []
for src, name in [(p.read_text(), str(p)) for p in files] + [(e, "extra") for e in extra]:
    try: tree = ast.parse(src)
    except SyntaxError: continue
    a = flatten_ast(tree); b = spec(tree)
    if a == b: ok += 1
    else:
        bad += 1
        al = a.split("\n"); bl = b.split("\n")
        for i, (x, y) in enumerate(zip(al, bl)):
            if x != y: firstbad.append((name, i, x, y)); break
        else: firstbad.append((name, "len", len(al), len(bl)))
print("files", len(files), "ok", ok, "bad", bad)
for f in firstbad[:12]: print(f)
