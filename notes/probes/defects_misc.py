import sys, io, contextlib, tempfile
sys.path.insert(0, "/repo")
from pathlib import Path
import regex
from paroxython import cli_tag
from paroxython.map_taxonomy import Taxonomy, is_literal
from paroxython.preprocess_source import collect_hints
from paroxython.list_programs import get_program
def quiet(f, *a, **k):
    with contextlib.redirect_stdout(io.StringIO()), contextlib.redirect_stderr(io.StringIO()):
        return f(*a, **k)
for src in ["pass\n", "import os\n", "x\n", "f(a=1,\n  *b)\n", "@d\nasync def f():\n    return 1\n"]:
    out = quiet(cli_tag.main, src, tags="Taxon")
    print(repr(src), [l for l in out.split("\n") if "meta/program" in l or "sloc" in l])
# C09 alternation
d = tempfile.mkdtemp()
p = Path(d)/"t.tsv"
p.write_text("Taxa\tLabels\nx/y\tfoo|bar\nx/star\t(baz.*)\nz/\\1\tq(.*)\nlit/a\tlit.a\n")
t = Taxonomy(p)
for lab in ["foo", "fooxyz", "bar", "barx", "xbar", "bazzz", "q", "qq", "lit.a", "litxa"]:
    print("C09", lab, t.get_taxon_name_list(lab))
print("sub .*$:", regex.sub(r"(baz.*)$", "T", "bazzz"), regex.sub(r".*$", "T", "abc"))
print("escape:", regex.escape("a-b c.d#e&f~g:h_i/j!k\"l%m,n;o<p=q>r@s`t'u"))
# C12 tie
try:
    print(collect_hints("a # paroxython: foo... -foo...\nb # paroxython: ...foo\nc # paroxython: ...foo"))
except Exception as e:
    print("C12 tie:", type(e).__name__, e)
try:
    print(quiet(collect_hints, "a # paroxython: foo..."))
except Exception as e:
    print("C12 unmatched:", type(e).__name__)
print("hint in string:", repr(get_program('s = "# paroxython: zzz"').source), get_program('s = "# paroxython: zzz"\n').addition)
from os.path import commonpath
for pair in [("a/b","a"), ("a//b","a"), ("a/./b","a/b"), ("/a","a"), ("a/","a/b")]:
    try: print(pair, repr(commonpath(pair)))
    except Exception as e: print(pair, type(e).__name__, e)
