import Spike08Base
import Spike08Gen

/-- Spec: the chain a key spells. First x/y letter = start, second = end. -/
def specOfKey (k : String) : Option PyExpr :=
  match k.toList with
  | [a, o1, b, o2, c, o3, d] =>
    let opOf : Char → Option Op := fun ch => if ch = '<' then some .lt else if ch = '≤' then some .le else if ch = '=' then some .eq else none
    -- assign endpoint indices in reading order
    let step : (List Var × Bool × Bool) → Char → Option (List Var × Bool × Bool) := fun (acc, sx, sy) ch =>
      if ch = 'x' then some (acc ++ [if sx then .x1 else .x0], true, sy)
      else if ch = 'y' then some (acc ++ [if sy then .y1 else .y0], sx, true) else none
    do
      let s1 ← step ([], false, false) a
      let s2 ← step s1 b
      let s3 ← step s2 c
      let s4 ← step s3 d
      let p1 ← opOf o1; let p2 ← opOf o2; let p3 ← opOf o3
      match s4.1 with
      | [v1, v2, v3, v4] => some (.cmp v1 [(p1, v2), (p2, v3), (p3, v4)])
      | _ => none
  | _ => none

def checkEntry (e : String × PyExpr) : Bool :=
  match specOfKey e.1 with
  | some s => agree e.2 s
  | none => false

theorem table_ok : Gen.table.all checkEntry = true := by decide +kernel

theorem C08_meaning : ∀ e ∈ Gen.table, ∃ s, specOfKey e.1 = some s ∧ ∀ ρ, e.2.eval ρ = s.eval ρ := by
  intro e he
  have h := List.all_eq_true.mp table_ok e he
  unfold checkEntry at h
  split at h
  · rename_i s hs; exact ⟨s, hs, agree_sound _ _ h⟩
  · simp at h

#print axioms C08_meaning
#eval Gen.table.length
