import sys, random, io, contextlib, json
sys.path.insert(0, "/repo")
from fractions import Fraction
from pathlib import Path
import regex
from paroxython.assess_costs import LearningCostAssessor
from paroxython.map_taxonomy import Taxonomy, is_literal
rnd = random.Random(4)
# ---- C07 closed form
edges = ["a", "b", "c", "meta"]
bad = 0; n = 0
for it in range(20000):
    d = rnd.randint(1, 8)
    t = "/".join(rnd.choice(edges) for _ in range(d))
    K = set()
    for _ in range(rnd.randint(0, 4)):
        dd = rnd.randint(1, 6); K.add("/".join(rnd.choice(edges) for _ in range(dd)))
    if rnd.random() < .5:  # prefix-close
        K = {"/".join(k.split("/")[:i + 1]) for k in K for i in range(len(k.split("/")))}
    if rnd.random() < .3: K.add("/".join(t.split("/")[:rnd.randint(1, d)]))
    for strat in ("zeno", "linear"):
        a = LearningCostAssessor({}, strat); a.set_imparted_knowledge(K)
        got = Fraction(a.taxon_cost(t))
        if t in K or t.startswith("meta/"): exp = Fraction(0)
        else:
            e = t.split("/"); k = max([j for j in range(1, d) if "/".join(e[:j]) in K], default=0)
            exp = (Fraction(1, 2 ** k) - Fraction(1, 2 ** d)) if strat == "zeno" else Fraction(d - k)
        n += 1
        if got != exp: bad += 1; print("C07 mismatch", t, K, strat, got, exp) if bad < 4 else None
print("C07 closed form:", n, "cases, mismatches", bad)
# ---- C09 default taxonomy: idiom vs fullmatch
db = json.loads(Path("/repo/examples/simple/programs_db.json").read_text())
labels = sorted(db["labels"]) + sorted(json.loads(Path("/repo/examples/idioms/programs_db.json").read_text())["labels"])
labels = sorted(set(labels))
tsv = (Path("/repo/paroxython/resources/taxonomy.tsv").read_text().partition("-- EOF")[0].strip()).split("\n")[1:]
rows = []
for line in sorted(tsv):
    (tx, lp, *_) = line.strip().split(maxsplit=2); rows.append((tx, lp))
looks = regex.compile(r"^\w+/.+$").match
def spec(L):
    if looks(L): return [L]
    lit = [tx for (tx, lp) in rows if is_literal(lp) and lp == L]
    rex = []
    for (tx, lp) in rows:
        if not is_literal(lp):
            m = regex.fullmatch(lp, L)
            if m: rex.append(m.expand(tx))
    return lit + rex
tax = Taxonomy()
bad = 0
for L in labels:
    if tax.get_taxon_name_list(L) != spec(L):
        bad += 1
        if bad < 5: print("C09 mismatch", L, tax.get_taxon_name_list(L), spec(L))
# repeat calls give same list
again = sum(1 for L in labels if tax.get_taxon_name_list(L) != spec(L))
print("C09 default taxonomy:", len(labels), "labels,", len(rows), "rows; mismatches", bad, "on repeat", again)
