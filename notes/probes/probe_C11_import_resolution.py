import sys, io, contextlib, tempfile, json, shutil
sys.path.insert(0, "/repo")
from pathlib import Path
from paroxython.make_db import TagDatabase
d = Path(tempfile.mkdtemp()) / "progs"
(d / "pkg" / "sub").mkdir(parents=True)
files = {
 "a.py": "import b\nimport os\nx = 1\n",
 "b.py": "from pkg.m import f\nx = 2\n",
 "c.py": "import pkg.sub.n\nfrom pkg import m as mm\nimport a, zz\n",
 "pkg/m.py": "def f():\n    return 1\n",
 "pkg/sub/n.py": "from . import q\nfrom .q import g\nfrom pkg.m import f\n",
 "pkg/sub/q.py": "def g():\n    return 2\n",
 "pkg/__init__.py": "",
}
for k, v in files.items(): (d / k).write_text(v)
with contextlib.redirect_stdout(io.StringIO()), contextlib.redirect_stderr(io.StringIO()):
    db = TagDatabase(d, ignore_timestamps=True)
j = json.loads(db.get_json())
print("programs:", list(j["programs"]))
print("importations:", j["importations"])
print("exportations:", j["exportations"])
for p in j["programs"]:
    print(p, [l for l in j["programs"][p]["labels"] if l.startswith("import")], [t for t in j["programs"][p]["taxa"] if t.startswith("import")])
# index consistency
ok = all(sorted(p for p in j["programs"] if l in j["programs"][p]["labels"]) == sorted(ps) for l, ps in j["labels"].items())
ok2 = all(sorted(p for p in j["programs"] if t in j["programs"][p]["taxa"]) == sorted(ps) for t, ps in j["taxa"].items())
print("indexes exact:", ok, ok2)
shutil.rmtree(d.parent)
