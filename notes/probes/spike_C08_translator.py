import ast, sys
src = open("/repo/paroxython/compare_spans.py").read()
tree = ast.parse(src)
def var(n):
    assert isinstance(n, ast.Subscript) and isinstance(n.value, ast.Name)
    return f".{n.value.id}{n.slice.value}"
def op(o): return {ast.Lt: ".lt", ast.LtE: ".le", ast.Eq: ".eq"}[type(o)]
def expr(e):
    if isinstance(e, ast.Compare):
        rest = ", ".join(f"({op(o)}, {var(c)})" for o, c in zip(e.ops, e.comparators))
        return f"(.cmp {var(e.left)} [{rest}])"
    raise SystemExit("unsupported")
out = ["import Spike08Base", "def Gen.table : List (String × PyExpr) := ["]
d = [n for n in tree.body if isinstance(n, ast.Assign)][0].value
rows = []
for k, v in zip(d.keys, d.values):
    rows.append(f'  ("{k.value}", {expr(v.body)})')
out.append(",\n".join(rows)); out.append("]")
open("Spike08Gen.lean", "w").write("\n".join(out) + "\n")
print(len(rows))
