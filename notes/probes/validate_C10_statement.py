import sys, random, itertools
sys.path.insert(0, "/repo")
from collections import Counter
from os.path import commonpath
from paroxython.user_types import Taxon, Span
import paroxython.map_taxonomy as mt

def dedup_fixed(taxa):
    # copy of deduplicated_taxa with `break` -> `continue`
    if len(taxa) < 2: return taxa
    for (i, (name, spans)) in enumerate(taxa[1:], 1):
        for (previous_name, previous_spans) in reversed(taxa[:i]):
            common_prefix = commonpath((name, previous_name))
            if not common_prefix:
                continue
            if previous_name == common_prefix:
                difference = spans - previous_spans
                previous_spans.subtract(spans)
                spans = difference
    result = []
    for (name, spans) in taxa:
        spans += Counter()
        if spans: result.append(Taxon(name, spans))
    return result

def is_desc(d, n):  # n proper segment prefix of d
    return d.startswith(n + "/")

def check(raw, out, tag):
    names = sorted(raw)
    outd = {t.name: t.spans for t in out}
    spans = set(s for b in raw.values() for s in b)
    errs = []
    for n in names:
        for s in spans:
            r = raw[n].get(s, 0); o = outd.get(n, {}).get(s, 0)
            if o < 0 or o > r: errs.append(("invent", n, s, r, o))
            descs = [d for d in names if is_desc(d, n)]
            if all(raw[d].get(s, 0) == 0 for d in descs):
                if o != r: errs.append(("unshared", n, s, r, o))
            nearest = [d for d in descs if raw[d].get(s,0) > 0 and not any(is_desc(d, m) and is_desc(m, n) and raw[m].get(s,0) > 0 for m in names)]
            tot = sum(raw[d][s] for d in nearest)
            if r > 0 and r <= tot and o != 0: errs.append(("covered", n, s, r, tot, o))
    for t in out:
        if not t.spans or any(c <= 0 for c in t.spans.values()): errs.append(("emptybag", t.name))
    return errs

pool_edges = ["a", "a-b", "a!", "b", "a.b", "ab", "a+"]
rnd = random.Random(1)
S = [Span(1,1,"p"), Span(1,2,"q"), Span(2,2,"r")]
bad_cur = bad_fix = 0; ex_cur = ex_fix = None
for it in range(30000):
    k = rnd.randint(2, 7)
    names = set()
    while len(names) < k:
        depth = rnd.randint(1, 4)
        names.add("/".join(rnd.choice(pool_edges) for _ in range(depth)))
    raw = {n: Counter({s: rnd.randint(1, 3) for s in rnd.sample(S, rnd.randint(1, 3))}) for n in names}
    mk = lambda: [Taxon(n, Counter(raw[n])) for n in sorted(raw)]
    e1 = check(raw, mt.deduplicated_taxa(mk()), "cur")
    e2 = check(raw, dedup_fixed(mk()), "fix")
    if e1:
        bad_cur += 1; ex_cur = ex_cur or (dict(raw), e1[:2])
    if e2:
        bad_fix += 1; ex_fix = ex_fix or (dict(raw), e2[:2])
print("current code violations:", bad_cur, "example:", ex_cur)
print("break->continue violations:", bad_fix, "example:", ex_fix)
