import sys, random, io, contextlib
sys.path.insert(0, "/repo")
from paroxython.list_programs import get_program
from paroxython import cli_tag
rnd = random.Random(3)
LABELS = ["foo", "bar:baz", "a/b", "x.y", "l_1", "é"]
def q(f, *a):
    with contextlib.redirect_stderr(io.StringIO()), contextlib.redirect_stdout(io.StringIO()):
        try: return f(*a)
        except Exception as e: return type(e).__name__
bad = []; n = 0
for it in range(20000):
    nl = rnd.randint(1, 5)
    base = [f"v{i} = {i}" for i in range(nl)]
    trailing = {i: [] for i in range(nl)}
    isolated = []  # (after_line_index, label)
    add = {}; dele = {}
    for _ in range(rnd.randint(0, 4)):
        kind = rnd.choice(["add1", "del1", "addspan", "delspan", "whole"])
        L = rnd.choice(LABELS)
        dots = rnd.choice(["...", "…"])
        if kind in ("add1", "del1"):
            i = rnd.randrange(nl)
            pre = "-" if kind == "del1" else rnd.choice(["", "+"])
            trailing[i].append(pre + L)
            (dele if kind == "del1" else add).setdefault(L, []).append((i + 1, i + 1))
        elif kind in ("addspan", "delspan"):
            i = rnd.randrange(nl); j = rnd.randrange(i, nl)
            if i == j: continue
            # avoid same label open twice at overlapping ranges in both buffers on same line (tie) -> keep simple: unique label use
            if any(L == (t.lstrip("+-").rstrip(".…")).lstrip(".…") for ts in trailing.values() for t in ts if "..." in t or "…" in t): continue
            pre = "-" if kind == "delspan" else rnd.choice(["", "+"])
            trailing[i].append(pre + L + dots)
            trailing[j].append(rnd.choice(["...", "…"]) + L)
            (dele if kind == "delspan" else add).setdefault(L, []).append((i + 1, j + 1))
        else:
            if any(L == (t.lstrip("+-").rstrip(".…")).lstrip(".…") for ts in trailing.values() for t in ts if "..." in t or "…" in t): continue
            isolated.append((rnd.randrange(nl + 1), L))
    whole = sorted(set(L for _, L in isolated))
    # a whole label conflicts with span use of same label opened earlier; skip such cases
    if any(L in [ (t.lstrip("+-").rstrip(".…")).lstrip(".…") for ts in trailing.values() for t in ts if "..." in t or "…" in t] for L in whole): continue
    for L in whole: add.setdefault(L, []).append((1, nl))
    lines = []
    for i in range(nl + 1):
        for (k, L) in isolated:
            if k == i: lines.append(rnd.choice(["", "    "]) + "# paroxython: " + L)
        if i < nl:
            lines.append(base[i] + ((rnd.choice([" ", "  "]) + "# paroxython: " + rnd.choice([" ", "  "]).join(trailing[i])) if trailing[i] else ""))
    src = "\n".join(lines)
    r = q(get_program, src)
    n += 1
    exp_add = {k: sorted(v) for k, v in add.items()}; exp_del = {k: sorted(v) for k, v in dele.items()}
    if isinstance(r, str):
        bad.append((src, r)); continue
    got_add = {k: [(s.start, s.end) for s in v] for k, v in r.addition.items()}
    got_del = {k: [(s.start, s.end) for s in v] for k, v in r.deletion.items()}
    if r.source != "\n".join(base) or got_add != exp_add or got_del != exp_del:
        bad.append((src, r.source, got_add, got_del, exp_add, exp_del))
print("cases", n, "bad", len(bad))
for b in bad[:5]: print(b)
print("marker tolerance under tag:", [l for l in q(cli_tag.main, "x = 1 # Paroxython : foo\n", "Label").split("\n") if "foo" in l], repr(get_program("x = 1 # Paroxython : foo").source))
print("isolated -foo:", q(get_program, "x = 1\n# paroxython: -foo"), " isolated +foo:", q(get_program, "x = 1\n# paroxython: +foo"))
