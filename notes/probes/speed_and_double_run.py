import sys, io, contextlib, time, json
sys.path.insert(0, "/repo")
from pathlib import Path
from paroxython.parse_program import ProgramParser
from paroxython.list_programs import get_program
from paroxython.map_taxonomy import Taxonomy
from paroxython.recommend_programs import Recommendations
t0=time.time(); parse = ProgramParser(); tax = Taxonomy(); print("init", round(time.time()-t0,2))
srcs = [p.read_text() for p in sorted(Path("/repo/examples/simple/programs").glob("*.py"))]
t0=time.time()
n=0
for s in srcs:
    labs = parse(get_program(s)); tax.to_taxa(labs); n+=s.count("\n")
print("parse", len(srcs), "programs", n, "lines in", round(time.time()-t0,2), "s")
db = json.loads(Path("/repo/examples/simple/programs_db.json").read_text())
with contextlib.redirect_stdout(io.StringIO()), contextlib.redirect_stderr(io.StringIO()):
    r = Recommendations(db)
    r.run_pipeline([{"operation":"exclude","data":["flow/loop"]}])
    a = len(r.selected_programs)
    r.run_pipeline([{"operation":"include","data":["flow/conditional"]}])
md = r.get_markdown()
import re
print([l for l in md.split("\n") if "remaining after" in l or "initially" in l])
