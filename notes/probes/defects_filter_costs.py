import sys, json
sys.path.insert(0, "/repo")
from paroxython.recommend_programs import Recommendations
from paroxython.assess_costs import LearningCostAssessor
import io, contextlib

def mkdb(progs):
    taxa = {}
    for p, info in progs.items():
        for t in info:
            taxa.setdefault(t, []).append(p)
    return {"programs": {p: {"source": "x", "taxa": dict(t), "labels": {}} for p, t in progs.items()},
            "taxa": taxa, "labels": {}, "importations": {p: [] for p in progs}, "exportations": {p: [] for p in progs}}

# C05: single occurrence, same pattern both sides
db = mkdb({"one.py": {"op/mult": [[1,1]]}, "two.py": {"op/mult": [[1,1],[1,1]]}, "sep.py": {"op/mult": [[1,1],[2,2]]}})
with contextlib.redirect_stdout(io.StringIO()):
    r = Recommendations(db); r.run_pipeline([{"operation": "include", "data": [("op/mult", "not equals", "op/mult")]}])
print("C05 single-occurrence:", sorted(r.selected_programs), "(expected one.py and sep.py)")

# C05 merging by span value
db = mkdb({"m.py": {"A": [[1,1]], "B": [[1,1]]}})
with contextlib.redirect_stdout(io.StringIO()):
    r = Recommendations(db); r.run_pipeline([{"operation": "include", "data": [("A|B", "not equals", "A")]}])
print("C05 merge:", sorted(r.selected_programs), "(expected m.py)")

# C07 stale memo
progs = {"p.py": {"taxa": {"a/b/c": [[1,1]]}}}
a = LearningCostAssessor(progs)
a.set_imparted_knowledge(set())
print("C07 first", a(["p.py"]))
a.set_imparted_knowledge({"a", "a/b"})
print("C07 second (expected 0.125)", a(["p.py"]))
