import sys, random, io, contextlib, copy, itertools
sys.path.insert(0, "/repo")
from paroxython.recommend_programs import Recommendations
rnd = random.Random(11)
TAXA = ["a", "a/b", "a/bc", "a/b/c", "d", "d/e", "d/e_f", "g/h"]
RELS = ["contains", "inside", "equals", "before", "after", "x<x<y<y", "overlaps", "meets", "starts"]
def gen_db(imports=True, meta=True):
    n = rnd.randint(1, 6)
    progs = [f"p{i}.py" for i in range(n)]
    rec = {}
    for p in progs:
        t = {}
        for name in rnd.sample(TAXA, rnd.randint(0, 5)):
            t[name] = sorted([sorted((rnd.randint(1, 4), rnd.randint(1, 4))) for _ in range(rnd.randint(1, 3))])
        if meta: t["meta/program"] = [[1, 4]]
        rec[p] = {"source": "x\n" * rnd.randint(1, 3), "taxa": t, "labels": {}}
    # random DAG closed transitively
    imp = {p: set() for p in progs}
    if imports:
        for i, p in enumerate(progs):
            for q in progs[:i]:
                if rnd.random() < 0.3: imp[p].add(q)
        changed = True
        while changed:
            changed = False
            for p in progs:
                for q in list(imp[p]):
                    if not imp[q] <= imp[p]: imp[p] |= imp[q]; changed = True
    exp = {p: sorted(q for q in progs if p in imp[q]) for p in progs}
    taxa = {}
    for p in progs:
        for t in rec[p]["taxa"]: taxa.setdefault(t, []).append(p)
    return {"programs": rec, "taxa": taxa, "labels": {}, "importations": {p: sorted(imp[p]) for p in progs}, "exportations": exp}
def crit():
    r = rnd.random()
    if r < 0.25: return rnd.choice(["p1.py", "p", "p[0-2]\\.py", "p3.py"]) if rnd.random()<.8 else "zz.py"
    if r < 0.7: return rnd.choice(TAXA + ["a/b$", "a|d", "zz"])
    neg = rnd.choice(["", "not ", "!"])
    return (rnd.choice(TAXA + ["meta/program"]), neg + rnd.choice(RELS), rnd.choice(TAXA + ["meta/program"]))
def cmd():
    op = rnd.choice(["include", "exclude", "impart", "hide", "include all", "exclude all", "include any"])
    return {"operation": op, "data": [crit() for _ in range(rnd.randint(1, 3))]}
def run(db, cmds, strat="zeno"):
    with contextlib.redirect_stdout(io.StringIO()), contextlib.redirect_stderr(io.StringIO()):
        r = Recommendations(copy.deepcopy(db), assessment_strategy=strat); r.run_pipeline(cmds)
    return (sorted(r.selected_programs), sorted(r.imparted_knowledge), sorted(r.hidden_programs), sorted(r.hidden_taxa), r.assessed_programs)
bad = 0; n = 0
for it in range(3000):
    db = gen_db(); cmds = [cmd() for _ in range(rnd.randint(0, 5))]
    ref = run(db, cmds)
    for _ in range(3):
        perm = cmds[:]; rnd.shuffle(perm); n += 1
        if run(db, perm) != ref:
            bad += 1
            if bad < 3: print("ORDER-DEP", cmds, perm)
print("permutation runs", n, "order-dependent:", bad)
# equivalences on DBs without imports
bad = 0; n = 0
for it in range(3000):
    db = gen_db(imports=False)
    X = rnd.choice(TAXA + ["a|d", "a/b$", "zz"])
    a = run(db, [{"operation": "include", "data": [X]}])[0]
    b = run(db, [{"operation": "exclude", "data": [("meta/program", "not contains", X)]}])[0]
    c = run(db, [{"operation": "exclude", "data": [X]}])[0]
    d = run(db, [{"operation": "include", "data": [("meta/program", "not contains", X)]}])[0]
    n += 1
    if a != b or c != d:
        bad += 1
        if bad < 3: print("EQUIV-FAIL", X, a, b, c, d)
print("equivalence runs", n, "failures:", bad)
