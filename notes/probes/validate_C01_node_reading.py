import sys, ast, io, contextlib
sys.path.insert(0, "/repo")
from pathlib import Path
from collections import Counter
from paroxython.parse_program import ProgramParser
from paroxython.user_types import Program
parse = ProgramParser()

def const_kind(v):
    if isinstance(v, str): return "Str"
    if isinstance(v, bytes): return "Bytes"
    if v is True or v is False or v is None: return "NameConstant"
    if v is Ellipsis: return "Ellipsis"
    return "Num"

def fields_of(node):
    fields = list(ast.iter_fields(node))
    if isinstance(node, (ast.FunctionDef, ast.ClassDef)):
        fields = sorted(fields, key=lambda c: c[0] == "body")
    return fields

def positioned(node):
    return isinstance(node, ast.AST) and "lineno" in node._attributes and not isinstance(node, ast.alias)

def is_folded(node):
    return isinstance(node, ast.UnaryOp) and isinstance(node.op, ast.USub) and isinstance(node.operand, ast.Constant) and const_kind(node.operand.value) == "Num"

def last_pos(node):
    """line of the last positioned strict descendant in flat order, or None"""
    res = None
    if is_folded(node): return None
    for name, x in fields_of(node):
        items = x if isinstance(x, list) else [x]
        for y in items:
            if isinstance(y, ast.AST):
                if positioned(y): res = y.lineno
                r = last_pos(y)
                if r is not None: res = r
    return res

def expected(tree):
    out = Counter()
    def walk(node):
        if isinstance(node, ast.AST):
            if positioned(node):
                t = "Num" if is_folded(node) else (const_kind(node.value) if isinstance(node, ast.Constant) else type(node).__name__)
                lp = last_pos(node)
                out[(t, node.lineno, lp if lp is not None else node.lineno)] += 1
            if is_folded(node): return
            for name, x in fields_of(node):
                for y in (x if isinstance(x, list) else [x]): walk(y)
    walk(tree); return out

POSITIONED_TYPES = None
files = sorted(Path("/repo/examples").glob("**/programs/**/*.py")) + sorted(Path("/repo/paroxython").glob("*.py")) + sorted(Path("/repo/helpers").glob("*.py")) + sorted(Path("/repo/tests").glob("*.py"))
ok = bad = 0; shown = 0
for p in files:
    src = p.read_text().strip()
    try: tree = ast.parse(src)
    except SyntaxError: continue
    prog = Program(source=src, labels=[], taxa=[], addition={}, deletion={})
    try:
        labels = parse(prog)
    except Exception as e:
        print("CRASH", p, type(e).__name__); parse = ProgramParser(); continue
    got = Counter()
    for name, spans in labels:
        if name.startswith("node:"):
            for s in spans: got[(name[5:], s.start, s.end)] += 1
    exp = expected(tree)
    # restrict to positioned node types (types that appear in exp or are AST classes with lineno)
    ptypes = {t for (t, _, _) in exp} | {"Num", "Str", "Bytes", "NameConstant", "Ellipsis"}
    got_p = Counter({k: v for k, v in got.items() if k[0] in ptypes or ("lineno" in getattr(getattr(ast, k[0], None), "_attributes", ()))})
    if got_p == exp: ok += 1
    else:
        bad += 1
        if shown < 6:
            shown += 1
            print(p, "missing", list((exp - got_p).items())[:4], "extra", list((got_p - exp).items())[:4])
print("ok", ok, "bad", bad)
