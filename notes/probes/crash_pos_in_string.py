import sys, ast, traceback
sys.path.insert(0, "/repo")
from pathlib import Path
from paroxython.parse_program import ProgramParser
from paroxython.user_types import Program
import paroxython.parse_program as pp
parse = ProgramParser()
files = sorted(Path("/repo/paroxython").glob("*.py")) + sorted(Path("/repo/helpers").glob("*.py")) + sorted(Path("/repo/tests").glob("*.py"))
for p in files:
    src = p.read_text().strip()
    try: ast.parse(src)
    except SyntaxError: continue
    parse = ProgramParser()
    try:
        parse(Program(source=src, labels=[], taxa=[], addition={}, deletion={}))
    except Exception as e:
        print(p, type(e).__name__, e)
        # find the feature
        for (label, finditer) in parse.features.items():
            for m in finditer(parse.flat_ast, overlapped=True):
                caps = m.capturesdict()
                if any(c.count(":") != 1 for c in caps.get("POS", [])):
                    print("  feature", label, [c for c in caps["POS"] if c.count(":") != 1][:2])
                    break
