import sys, ast, io, contextlib
sys.path.insert(0, "/repo")
from pathlib import Path
from paroxython.preprocess_source import Cleanup
clean = Cleanup("full").run
def show(src):
    try:
        out = clean(src)
    except Exception as e:
        print(repr(src), "-> EXC", type(e).__name__, e); return
    try: ast.parse(out); ok = "valid"
    except SyntaxError as e: ok = "INVALID"
    idem = clean(out) == out
    print(repr(src), "->", repr(out), ok, "" if idem else "NOT-IDEMPOTENT -> " + repr(clean(out)))
for s in ['x = f"{{a}}"\n', 'x = f"a{b}c"\n', '"abc".join(x)\n', 'def f():\n    "doc"\n    "-".join(a)\n    return 1\n',
          'x = 1\n"a" if x else "b"\n', '\nx = 1\n', 'x = """a\n\n  b"""\n', 'if x:\n    pass\n    # c\ny = 1\n',
          'class A:\n    """d"""\n\n    x = 1\n', 'x = 1 # paroxython: foo\n# paroxython: bar\n', 'def f():\n    pass\n    pass\n',
          'x = [\n    1, # c\n    2,\n]\n', 'x = 1; "doc"\n', 'if __name__ == "__main__":\n    main()\nx = 2\n', 's = "if __name__ == \'__main__\':"\n',
          'x = (1 +\n\n     2)\n', 'def f(): "doc"\n', 'x = 1\n\n\n    \ny = 2', 'x = "# not a comment"\n', "x = 1 #paroxython:a\n"]:
    show(s)
# corpus metamorphic: idempotence + AST equivalence modulo noise
def strip_noise(tree):
    class T(ast.NodeTransformer):
        def generic_visit(self, node):
            super().generic_visit(node)
            for f in ("body", "orelse", "finalbody"):
                b = getattr(node, f, None)
                if isinstance(b, list) and b and isinstance(b[0], ast.stmt):
                    nb = [s for s in b if not (isinstance(s, ast.Expr) and isinstance(s.value, ast.Constant) and isinstance(s.value.value, str))]
                    nb = [s for i, s in enumerate(nb) if not (isinstance(s, ast.Pass) and i + 1 < len(nb))]
                    setattr(node, f, nb or [ast.Pass()])
            return node
    return T().visit(tree)
def norm(src):
    t = strip_noise(ast.parse(src))
    for n in ast.walk(t):
        if isinstance(n, ast.Constant) and isinstance(n.value, str): n.value = ""
    return ast.dump(t)
files = sorted(Path("/repo/examples").glob("**/programs/**/*.py"))
nid = ninv = ndiff = 0
for p in files:
    src = p.read_text()
    try: out = clean(src)
    except Exception as e: print("EXC", p, type(e).__name__); continue
    if clean(out) != out: nid += 1; print("not idempotent:", p) if nid < 4 else None
    try: ast.parse(out)
    except SyntaxError: ninv += 1; print("invalid after cleaning:", p) if ninv < 4 else None; continue
    # compare modulo noise, ignoring main guard / sys.path lines
    import regex
    src2 = regex.sub(r"(?ms)^if +__name__ *== *.__main__. *:.+", "", src); src2 = regex.sub(r'(?m)^__import__\("sys"\)\.path\[0:0\] = .+\n', "", src2)
    try:
        if norm(src2) != norm(out): ndiff += 1; print("AST differs:", p) if ndiff < 6 else None
    except SyntaxError: pass
print("corpus", len(files), "not idempotent", nid, "invalid", ninv, "ast-diff", ndiff)
