import sys, json, tempfile, os, io, contextlib, traceback
sys.path.insert(0, "/repo")
from pathlib import Path
from collections import Counter
from paroxython.map_taxonomy import deduplicated_taxa, Taxonomy
from paroxython.user_types import Taxon, Span
from paroxython.make_db import TagDatabase, complete_and_collect_importations
from paroxython.list_programs import get_program
from paroxython.preprocess_source import Cleanup
from paroxython.parse_program import ProgramParser
from paroxython import cli_tag

def quiet(f, *a, **k):
    with contextlib.redirect_stdout(io.StringIO()), contextlib.redirect_stderr(io.StringIO()):
        return f(*a, **k)

# C10
s = Span(1,1,"p")
taxa = [Taxon("a", Counter({s:1})), Taxon("a-b/x", Counter({s:1})), Taxon("a/y", Counter({s:1}))]
print("C10:", [(t.name, dict(t.spans)) for t in deduplicated_taxa(taxa)])

# C11 cycle
try:
    print("C11 cycle:", complete_and_collect_importations({"a.py": {"b.py"}, "b.py": {"a.py"}}))
except RecursionError as e:
    print("C11 cycle: RecursionError")
# C11 JSON corruption
d = tempfile.mkdtemp()
(Path(d)/"progs").mkdir()
(Path(d)/"progs"/"a.py").write_text("t = [ 1, 2 ] + [3]\n")
db = quiet(TagDatabase, Path(d)/"progs", ignore_timestamps=True)
back = json.loads(db.get_json())
print("C11 json source:", repr(back["programs"]["a.py"]["source"]), "vs", repr(db.programs_infos["a.py"]["source"]))
# C14 tokenizer error in collect
(Path(d)/"progs"/"b.py").write_text("x = (1,\n")
try:
    db = quiet(TagDatabase, Path(d)/"progs", ignore_timestamps=True)
    print("C14:", {p: list(i["taxa"]) for p,i in db.programs_infos.items()})
except Exception as e:
    print("C14 collect aborted:", type(e).__name__, e)
(Path(d)/"progs"/"b.py").write_text('x = """abc\n')
try:
    db = quiet(TagDatabase, Path(d)/"progs", ignore_timestamps=True)
    print("C14:", {p: list(i["taxa"]) for p,i in db.programs_infos.items()})
except Exception as e:
    print("C14 collect aborted:", type(e).__name__, e)
(Path(d)/"progs"/"b.py").write_text('  x = 1\n y = 2\n')
try:
    db = quiet(TagDatabase, Path(d)/"progs", ignore_timestamps=True)
    print("C14:", {p: list(i["taxa"]) for p,i in db.programs_infos.items()})
except Exception as e:
    print("C14 collect aborted:", type(e).__name__, e)
os.remove(Path(d)/"progs"/"b.py")

# C02 leading blank lines / trailing newline with hints, tag (no cleanup)
for src in ["\n\nx = 1 # paroxython: foo\n", "x = 1\n# paroxython: foo\ny = 2\n", "x = 1\ny = 2 # paroxython: foo\n\n\n"]:
    try:
        out = quiet(cli_tag.main, src, tags="Label")
        p = get_program(src)
        print("C02 tag:", repr(src), "-> nlines", p.source.count("\n")+1, [l for l in out.split("\n") if "foo" in l or "whole" in l])
    except Exception as e:
        print("C02 err", repr(src), type(e).__name__, e)
# C13 first-line hint
print("C13:", repr(Cleanup("full").run("# paroxython: foo\nx = 1\n")))
print("C13b:", repr(Cleanup("full").run("\n# paroxython: foo\nx = 1\n")))
# async decorated
src = "@dec\nasync def f():\n    pass\n"
print("async:", [l for l in quiet(cli_tag.main, src, tags="Label").split("\n") if "Async" in l])
# bytes
print("bytes:", [l for l in quiet(cli_tag.main, "x = b\"it's\"\n", tags="Label").split("\n") if "node:" in l])
print("ctx str:", [l for l in quiet(cli_tag.main, "x = ', ctx=Load()'\ny = ''\n", tags="Label").split("\n")][:40])
