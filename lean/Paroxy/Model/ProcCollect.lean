/-
C03 — `labelled_programs` + `map_labels_on_taxa` as they really run: ONE `ProgramParser` threaded over
the sorted program list (`Proc.parseStep` from the state the previous program left), the relabelling of
internal imports, then ONE `Taxonomy` threaded over the relabelled label lists (`Proc.taxaStep`), and
the assembly of the database (`DB.makeDb`). Core Lean only.

This composes the process model (Model/Process.lean) with the collection model (Model/MakeDb.lean): the
labels of a program are no longer an input of the collection, they are what the shared parser returns
in the state it is in when that program's turn comes.
-/
import Paroxy.Model.Process
namespace Paroxy.Proc
open Paroxy Paroxy.DB

/-- One file of the collection: its relative path, stored source, and behaviour under the parser. -/
structure Item where
  path : Name
  source : Name
  prog : Program

/-- The labelling loop of `labelled_programs`: the parser state is threaded. -/
def parseSeq (E : Engines) : State → List Item → State × Except Exc (List (Item × List Label))
  | S, [] => (S, .ok [])
  | S, it :: rest =>
    match parseStep E S it.prog with
    | (S1, .error e) => (S1, .error e)
    | (S1, .ok ls) =>
      match parseSeq E S1 rest with
      | (S2, .error e) => (S2, .error e)
      | (S2, .ok r) => (S2, .ok ((it, ls) :: r))

/-- `map_labels_on_taxa`: the taxonomy state (memo, aliased lists) is threaded. -/
def taxaSeq (E : Engines) : State → List (List Label) → State × List (List Taxon)
  | S, [] => (S, [])
  | S, ls :: rest =>
    let (S1, t) := taxaStep E S ls
    let (S2, ts) := taxaSeq E S1 rest
    (S2, t :: ts)

def rawProg (x : Item × List Label) : Prog :=
  { path := x.1.path, timestamp := [], source := x.1.source, labels := x.2 }

def sKeyError : Name := [75, 101, 121, 69, 114, 114, 111, 114]

/-- `TagDatabase(directory)` with the process state made explicit. The taxa of the program at `path`
are the answer the threaded taxonomy gave when that program's turn came (looked up by path). -/
def collectProc (E : Engines) (lit0 : List (Name × List Name)) (items : List Item) : Except Exc Db :=
  match parseSeq E (init lit0) items with
  | (_, .error e) => .error e
  | (S1, .ok r) =>
    let progs := r.map rawProg
    let lab := labelled progs
    let taxa := (taxaSeq E S1 (lab.map (·.2))).2
    let table := (lab.map (·.1)).zip taxa
    match makeDb (fun p _ => (get? table p).getD []) progs with
    | .error (.keyError _) => .error { name := sKeyError }
    | .ok db => .ok db

end Paroxy.Proc
