/-
Model of the TEXT of the BODY of the recommendation report, line by line, as `get_markdown`
(paroxython/recommend_programs.py) writes it into `contents` (the lines are those of
`"\n".join(contents).split("\n")` after the line `# Recommended programs` and before the blank line
that precedes `# Summary`):

    for (bounds, costs_and_program_paths) in toc_data.items():
        title = f"{display_count(len(costs_and_program_paths))} of learning cost {bounds}"
        contents.append(f"\n## {title}")
        for (cost, program_path) in costs_and_program_paths:
            contents.append(f"\n### Program {program_title} (learning cost {cost})")
            contents.append(f"\n```python\n{add_line_numbers(program_info['source'])}\n```")   -- NOT modelled
            contents.append("\n| Cost  | Taxon | Location |")
            contents.append("|" + "----|" * 3)
            for each non-hidden taxon: contents.append(f"| {taxon_cost} | `{taxon_name}` | {s} |")
            contents.append("\n---")

with `bounds` the text of `goodies.cost_bucket` (`0`, `in ]0, 0.25[`, `in [0.25, 0.5[`, `in [0.5, 1[`,
`in [2^k, 2^(k+1)[`) or `(default: no group)`, and `display_count(n)` = `1 program` / `n programs`.

What is NOT here (and stays outside the model): the table of contents (slugs), the source listing
(the four-or-more lines `""`, "```python", the numbered source, "```" that follow each program title:
the harness removes exactly those lines, knowing the source), and the summary.
`program_title = title_format.format(path=…, name=…)`: the model is for `title_format = "{path}"`
(what the harness passes): the title shows the path. With the default format "`{name}`" only the last
segment of the path is printed, from which the path cannot be read back.
Costs: the code prints Python numbers. The text of a program cost (always a float: `total_cost = 0.0`
then `+=`) is a PARAMETER `showCost : Rat → Str` of the line model, the text of a row cost a parameter
`rowCost : taxon → Rat → Str` (a row cost is the INT `0` for a `meta/` taxon and, under the zeno strategy,
for a taxon whose not-yet-imparted suffix is empty — `sum(())` — and a float otherwise, so its text is
not a function of its value alone: `0` / `0.0`). The theorems hold for every such pair of functions
whose texts, on the costs of the body, are made of the characters of a float literal and read back
(`costsOK`, Spec/ReportText.lean). The instances the driver uses are below: `showFloat` (the `repr` of
a float that is a non-negative dyadic rational whose decimal expansion is short — what both strategies
produce) and `rowCostText`; they are tied to the real text by the line-by-line stream of the harness.
Core Lean only (linked into the native driver).
-/
import Paroxy.Model.Report
import Paroxy.Model.ReportCell
namespace Paroxy.ReportText
open Paroxy Paroxy.Report Paroxy.ReportCell

/-- The characters of a name kept as code points. -/
def chars (c : Codes) : Str := c.map Char.ofNat

/-- `f"{n}"` for a natural number. -/
def nat (n : Nat) : Str := Nat.toDigits 10 n

/-- '## ' -/
def headOpen : Str := ['#', '#', ' ']
/-- ' program' -/
def progTxt : Str := [' ', 'p', 'r', 'o', 'g', 'r', 'a', 'm']
/-- ' of learning cost ' -/
def ofCost : Str := [' ', 'o', 'f', ' ', 'l', 'e', 'a', 'r', 'n', 'i', 'n', 'g', ' ', 'c', 'o', 's', 't', ' ']
/-- '0' -/
def zeroTxt : Str := ['0']
/-- 'in ]0, 0.25[' -/
def q1Txt : Str := ['i', 'n', ' ', ']', '0', ',', ' ', '0', '.', '2', '5', '[']
/-- 'in [0.25, 0.5[' -/
def q2Txt : Str := ['i', 'n', ' ', '[', '0', '.', '2', '5', ',', ' ', '0', '.', '5', '[']
/-- 'in [0.5, 1[' -/
def q3Txt : Str := ['i', 'n', ' ', '[', '0', '.', '5', ',', ' ', '1', '[']
/-- '(default: no group)' -/
def noGroupTxt : Str := ['(', 'd', 'e', 'f', 'a', 'u', 'l', 't', ':', ' ', 'n', 'o', ' ', 'g', 'r', 'o', 'u', 'p', ')']
/-- 'in [' -/
def powOpen : Str := ['i', 'n', ' ', '[']
/-- ', ' -/
def commaSp : Str := [',', ' ']
/-- '### Program ' -/
def titleOpen : Str := ['#', '#', '#', ' ', 'P', 'r', 'o', 'g', 'r', 'a', 'm', ' ']
/-- ' (learning cost ' -/
def titleMid : Str := [' ', '(', 'l', 'e', 'a', 'r', 'n', 'i', 'n', 'g', ' ', 'c', 'o', 's', 't', ' ']
/-- ' tsoc gninrael( ' -/
def titleMidRev : Str := [' ', 't', 's', 'o', 'c', ' ', 'g', 'n', 'i', 'n', 'r', 'a', 'e', 'l', '(', ' ']
/-- '| Cost  | Taxon | Location |' -/
def headerLine : Str := ['|', ' ', 'C', 'o', 's', 't', ' ', ' ', '|', ' ', 'T', 'a', 'x', 'o', 'n', ' ', '|', ' ', 'L', 'o', 'c', 'a', 't', 'i', 'o', 'n', ' ', '|']
/-- '|----|----|----|' -/
def ruleLine : Str := ['|', '-', '-', '-', '-', '|', '-', '-', '-', '-', '|', '-', '-', '-', '-', '|']
/-- '---' -/
def hrLine : Str := ['-', '-', '-']
/-- '| ' -/
def rowOpen : Str := ['|', ' ']
/-- ' | `' -/
def sep1 : Str := [' ', '|', ' ', '`']
/-- '` | ' -/
def sep2 : Str := ['`', ' ', '|', ' ']
/-- ' |' -/
def rowClose : Str := [' ', '|']

/-- The text `cost_bucket` returns (and the title of the single group when grouping is off). -/
def bucketText : Bucket → Str
  | .zero => zeroTxt
  | .q1 => q1Txt
  | .q2 => q2Txt
  | .q3 => q3Txt
  | .pow lo => powOpen ++ (nat lo ++ (commaSp ++ nat (2 * lo) ++ ['[']))
  | .noGroup => noGroupTxt

/-- The `s` of `display_count`. -/
def plural (n : Nat) : Str := if n = 1 then [] else ['s']

/-- `## {display_count(n)} of learning cost {bounds}`. -/
def headingLine (b : Bucket) (n : Nat) : Str :=
  headOpen ++ (nat n ++ ((progTxt ++ plural n ++ ofCost) ++ bucketText b))

/-- `### Program {path} (learning cost {cost})`. -/
def titleLine (showCost : Rat → Str) (s : Section) : Str :=
  titleOpen ++ (chars s.path ++ (titleMid ++ (showCost s.cost ++ [')'])))

/-- ``| {taxon_cost} | `{taxon_name}` | {s} |``. -/
def rowLine (rowCost : Codes → Rat → Str) (width : Nat) (r : Row) : Str :=
  rowOpen ++ (rowCost r.taxon r.cost ++ (sep1 ++ (chars r.taxon ++ (sep2 ++ (renderCell width r.spans ++ rowClose)))))

/-- The lines of one program (without its source listing). -/
def renderSection (showCost : Rat → Str) (rowCost : Codes → Rat → Str) (width : Nat) (s : Section) : List Str :=
  [] :: titleLine showCost s :: [] :: headerLine :: ruleLine ::
    (s.rows.map (rowLine rowCost width) ++ [[], hrLine])

/-- The lines of one group. -/
def renderBucket (showCost : Rat → Str) (rowCost : Codes → Rat → Str) (width : Nat) (g : Bucket × List Section) :
    List Str :=
  [] :: headingLine g.1 g.2.length :: g.2.flatMap (renderSection showCost rowCost width)

/-- The lines of the body of the report. -/
def renderBody (showCost : Rat → Str) (rowCost : Codes → Rat → Str) (width : Nat)
    (b : List (Bucket × List Section)) : List Str :=
  b.flatMap (renderBucket showCost rowCost width)

/-- `"\n".join(lines)`. -/
def joinLines : List Str → Str
  | [] => []
  | [a] => a
  | a :: b :: t => a ++ '\n' :: joinLines (b :: t)

/-! ### The cost texts the driver uses -/

/-- `repr(x)` for a float `x` equal to the non-negative dyadic rational `c` (denominator `2^k`), when the
exact decimal expansion of `c` is the shortest literal that reads back as `x` (at most 15 significant
digits is enough for that): CPython `float_repr` (`format_float_short`, code `'r'`): the digits `D` with
the position `decpt` of the point; exponent notation iff `decpt <= -4 or decpt > 16`. -/
def showFloat (c : Rat) : Str :=
  let k := Nat.log2 c.den
  let n := c.num.toNat * 5 ^ k                  -- c = n / 10^k
  if n = 0 then ['0', '.', '0']
  else
    let d0 := nat n
    let z := (d0.reverse.takeWhile (· == '0')).length
    let d := d0.take (d0.length - z)
    let decpt : Int := (d0.length : Int) - (k : Int)
    if decpt ≤ -4 ∨ decpt > 16 then
      let e := decpt - 1
      let es := nat e.natAbs
      d.take 1 ++ (if d.length > 1 then '.' :: d.drop 1 else []) ++
        ['e', if e < 0 then '-' else '+'] ++ (if es.length < 2 then '0' :: es else es)
    else if decpt ≤ 0 then ['0', '.'] ++ List.replicate decpt.natAbs '0' ++ d
    else if decpt.toNat < d.length then d.take decpt.toNat ++ '.' :: d.drop decpt.toNat
    else d ++ List.replicate (decpt.toNat - d.length) '0' ++ ['.', '0']

/-- The text of a row cost: the int `0` of `taxon_cost` for a `meta/` taxon (both strategies) and of
`sum(())` (zeno, nothing left to learn), else the float. -/
def rowCostText (zeno : Bool) (taxon : Codes) (c : Rat) : Str :=
  if c = 0 ∧ (Filter.isMeta taxon ∨ zeno) then ['0'] else showFloat c

end Paroxy.ReportText
