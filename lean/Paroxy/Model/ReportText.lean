/-
Model of the TEXT of the BODY of the recommendation report, line by line, as `get_markdown`
(paroxython/recommend_programs.py) writes it into `contents` (the lines are those of
`"\n".join(contents).split("\n")` after the line `# Recommended programs` and before the blank line
that precedes `# Summary`):

    for (bounds, costs_and_program_paths) in toc_data.items():
        title = f"{display_count(len(costs_and_program_paths))} of learning cost {bounds}"
        contents.append(f"\n## {title}")
        for (cost, program_path) in costs_and_program_paths:
            contents.append(f"\n### Program {program_title} (learning cost {cost})")
            contents.append(f"\n```python\n{add_line_numbers(program_info['source'])}\n```")   -- NOT modelled
            contents.append("\n| Cost  | Taxon | Location |")
            contents.append("|" + "----|" * 3)
            for each non-hidden taxon: contents.append(f"| {taxon_cost} | `{taxon_name}` | {s} |")
            contents.append("\n---")

with `bounds` the text of `goodies.cost_bucket` (`0`, `in ]0, 0.25[`, `in [0.25, 0.5[`, `in [0.5, 1[`,
`in [2^k, 2^(k+1)[`) or `(default: no group)`, and `display_count(n)` = `1 program` / `n programs`.

What is NOT here (and stays outside the model): the table of contents (slugs), the source listing
(the four-or-more lines `""`, "```python", the numbered source, "```" that follow each program title:
the harness removes exactly those lines, knowing the source), and the summary.
`program_title = title_format.format(path=…, name=…)`: the model is for `title_format = "{path}"`
(what the harness passes): the title shows the path. With the default format "`{name}`" only the last
segment of the path is printed, from which the path cannot be read back.
Costs: the code prints Python floats (`repr`); the text of a cost is a PARAMETER `showCost : Rat → Str`
of the model (the driver is given the texts by the harness, which checks the hypotheses the theorems
put on it).
Core Lean only (linked into the native driver).
-/
import Paroxy.Model.Report
import Paroxy.Model.ReportCell
namespace Paroxy.ReportText
open Paroxy Paroxy.Report Paroxy.ReportCell

/-- The characters of a name kept as code points. -/
def chars (c : Codes) : Str := c.map Char.ofNat

/-- `f"{n}"` for a natural number. -/
def nat (n : Nat) : Str := Nat.toDigits 10 n

/-- '## ' -/
def headOpen : Str := ['#', '#', ' ']
/-- ' program' -/
def progTxt : Str := [' ', 'p', 'r', 'o', 'g', 'r', 'a', 'm']
/-- ' of learning cost ' -/
def ofCost : Str := [' ', 'o', 'f', ' ', 'l', 'e', 'a', 'r', 'n', 'i', 'n', 'g', ' ', 'c', 'o', 's', 't', ' ']
/-- '0' -/
def zeroTxt : Str := ['0']
/-- 'in ]0, 0.25[' -/
def q1Txt : Str := ['i', 'n', ' ', ']', '0', ',', ' ', '0', '.', '2', '5', '[']
/-- 'in [0.25, 0.5[' -/
def q2Txt : Str := ['i', 'n', ' ', '[', '0', '.', '2', '5', ',', ' ', '0', '.', '5', '[']
/-- 'in [0.5, 1[' -/
def q3Txt : Str := ['i', 'n', ' ', '[', '0', '.', '5', ',', ' ', '1', '[']
/-- '(default: no group)' -/
def noGroupTxt : Str := ['(', 'd', 'e', 'f', 'a', 'u', 'l', 't', ':', ' ', 'n', 'o', ' ', 'g', 'r', 'o', 'u', 'p', ')']
/-- 'in [' -/
def powOpen : Str := ['i', 'n', ' ', '[']
/-- ', ' -/
def commaSp : Str := [',', ' ']
/-- '### Program ' -/
def titleOpen : Str := ['#', '#', '#', ' ', 'P', 'r', 'o', 'g', 'r', 'a', 'm', ' ']
/-- ' (learning cost ' -/
def titleMid : Str := [' ', '(', 'l', 'e', 'a', 'r', 'n', 'i', 'n', 'g', ' ', 'c', 'o', 's', 't', ' ']
/-- ' tsoc gninrael( ' -/
def titleMidRev : Str := [' ', 't', 's', 'o', 'c', ' ', 'g', 'n', 'i', 'n', 'r', 'a', 'e', 'l', '(', ' ']
/-- '| Cost  | Taxon | Location |' -/
def headerLine : Str := ['|', ' ', 'C', 'o', 's', 't', ' ', ' ', '|', ' ', 'T', 'a', 'x', 'o', 'n', ' ', '|', ' ', 'L', 'o', 'c', 'a', 't', 'i', 'o', 'n', ' ', '|']
/-- '|----|----|----|' -/
def ruleLine : Str := ['|', '-', '-', '-', '-', '|', '-', '-', '-', '-', '|', '-', '-', '-', '-', '|']
/-- '---' -/
def hrLine : Str := ['-', '-', '-']
/-- '| ' -/
def rowOpen : Str := ['|', ' ']
/-- ' | `' -/
def sep1 : Str := [' ', '|', ' ', '`']
/-- '` | ' -/
def sep2 : Str := ['`', ' ', '|', ' ']
/-- ' |' -/
def rowClose : Str := [' ', '|']

/-- The text `cost_bucket` returns (and the title of the single group when grouping is off). -/
def bucketText : Bucket → Str
  | .zero => zeroTxt
  | .q1 => q1Txt
  | .q2 => q2Txt
  | .q3 => q3Txt
  | .pow lo => powOpen ++ (nat lo ++ (commaSp ++ nat (2 * lo) ++ ['[']))
  | .noGroup => noGroupTxt

/-- The `s` of `display_count`. -/
def plural (n : Nat) : Str := if n = 1 then [] else ['s']

/-- `## {display_count(n)} of learning cost {bounds}`. -/
def headingLine (b : Bucket) (n : Nat) : Str :=
  headOpen ++ (nat n ++ ((progTxt ++ plural n ++ ofCost) ++ bucketText b))

/-- `### Program {path} (learning cost {cost})`. -/
def titleLine (showCost : Rat → Str) (s : Section) : Str :=
  titleOpen ++ (chars s.path ++ (titleMid ++ (showCost s.cost ++ [')'])))

/-- ``| {taxon_cost} | `{taxon_name}` | {s} |``. -/
def rowLine (showCost : Rat → Str) (width : Nat) (r : Row) : Str :=
  rowOpen ++ (showCost r.cost ++ (sep1 ++ (chars r.taxon ++ (sep2 ++ (renderCell width r.spans ++ rowClose)))))

/-- The lines of one program (without its source listing). -/
def renderSection (showCost : Rat → Str) (width : Nat) (s : Section) : List Str :=
  [] :: titleLine showCost s :: [] :: headerLine :: ruleLine ::
    (s.rows.map (rowLine showCost width) ++ [[], hrLine])

/-- The lines of one group. -/
def renderBucket (showCost : Rat → Str) (width : Nat) (g : Bucket × List Section) : List Str :=
  [] :: headingLine g.1 g.2.length :: g.2.flatMap (renderSection showCost width)

/-- The lines of the body of the report. -/
def renderBody (showCost : Rat → Str) (width : Nat) (b : List (Bucket × List Section)) : List Str :=
  b.flatMap (renderBucket showCost width)

/-- `"\n".join(lines)`. -/
def joinLines : List Str → Str
  | [] => []
  | [a] => a
  | a :: b :: t => a ++ '\n' :: joinLines (b :: t)

end Paroxy.ReportText
