/-
Model of `paroxython/flatten_ast.py` (C15, reused by C01/C02).

The syntax tree is a *generic* tree `Val` (node / list / scalar). The harness exports the real
`ast` tree into it (harness/flat_export.py), recording for every expression node the string the real
code hashes (`remove_context("", ast.dump(node))`) and for every scalar its `repr` and real kind.

* `onTheFly cfg`  : the tweaks `flatten_node` performs while traversing (body last in definitions,
                    the four field renamings), as a tree-to-tree function;
* `dumpS`         : `flatten_node` proper with the `PseudoHashFactory` as explicit state
                    (`HashState`), producing the list of lines (without their final newline);
* `dumpP h`       : the same dump with a *given* hash function (pure; `dumpS` is proved equal to it
                    in Proofs/FlatAst.lean);
* the post-processing passes of Python ≥ 3.10, each as a function on lists of lines transcribing
  its regular expression (R2 of DESIGN §3; validated against the real `regex` engine by the harness);
* `flattenAst`    : reset the hash state, dump, post-process — what `flatten_ast(tree)` returns.

Core Lean only (this file is linked into the native driver).
-/
namespace Paroxy.Flat

abbrev Str := List Char

open Lean in
/-- `cs!"abc"` is the character list `['a', 'b', 'c']` (expanded at elaboration time, so that proofs
never have to unfold `String.toList`). -/
macro:max "cs!" s:str : term => do
  let elems : Array (TSyntax `term) := s.getString.toList.toArray.map fun c => ⟨Syntax.mkCharLit c⟩
  `([$elems,*])

/-- Python `str(n)` for a natural number. -/
def dec (n : Nat) : Str := Nat.toDigits 10 n

/-- Python `f"0x{n:04x}"`. -/
def hex4 (n : Nat) : Str :=
  let d := Nat.toDigits 16 n
  '0' :: 'x' :: (List.replicate (4 - d.length) '0' ++ d)

/-- The real kind of a scalar, as the exporter sees it (`isinstance` tests on the Python value). -/
inductive Kind
  | str        -- `str`
  | bytes      -- `bytes`
  | nameConst  -- `True`, `False`, `None`
  | ellipsis   -- `...`
  | num        -- `int`, `float`, `complex`
  deriving DecidableEq, Repr, Inhabited

/-- Generic syntax tree.
`node ty isExpr repr lineno fields` : an `ast.AST` instance; `repr` is the context-free dump the
real code hashes (meaningful when `isExpr`), `lineno` is present iff `"lineno" in node._attributes`.
`list quiet items` : a Python list; `quiet` lists do not print their `_length` line (only produced
by the tree-level tweak for `posonlyargs`, never by the exporter).
`scalar repr kind` : a terminal value, given by its Python `repr`. -/
inductive Val
  | node (ty : Str) (isExpr : Bool) (repr : Str) (lineno : Option Nat) (fields : List (Str × Val))
  | list (quiet : Bool) (items : List Val)
  | scalar (repr : Str) (kind : Kind)
  deriving Repr, Inhabited

/-! ## On-the-fly tweaks of `flatten_node`: field reordering and renaming -/

/-- Which node types get their `body` moved last: every definition (`FunctionDef`,
`AsyncFunctionDef`, `ClassDef`). The theorems of C15 hold for every `Cfg`; `implCfg` is the code as
written (since the `fix:` commit d0d94f6 it is the documented set), `specCfg` the documented set. -/
structure Cfg where
  defTypes : List Str
  deriving Repr

def specCfg : Cfg := ⟨[cs!"FunctionDef", cs!"AsyncFunctionDef", cs!"ClassDef"]⟩
def implCfg : Cfg := specCfg

/-- `sorted(fields, key=lambda c: c[0] == "body")` — a stable sort on a Boolean key. -/
def bodyLast (fs : List (Str × Val)) : List (Str × Val) :=
  fs.filter (fun f => !(f.1 == cs!"body")) ++ fs.filter (fun f => f.1 == cs!"body")

def reorder (cfg : Cfg) (ty : Str) (fs : List (Str × Val)) : List (Str × Val) :=
  if cfg.defTypes.contains ty then bodyLast fs else fs

/-- The four renaming rules. -/
def rename (ty name : Str) : Str :=
  if name == cs!"orelse" && (ty == cs!"For" || ty == cs!"While" || ty == cs!"AsyncFor") then cs!"loopelse"
  else if name == cs!"targets" && ty == cs!"Assign" then cs!"assigntargets"
  else if name == cs!"target" && ty == cs!"AugAssign" then cs!"assigntarget"
  else if name == cs!"value" && (ty == cs!"Assign" || ty == cs!"AugAssign") then cs!"assignvalue"
  else name

mutual
def onTheFly (cfg : Cfg) : Val → Val
  | .node ty e r ln fs => .node ty e r ln (reorder cfg ty (onTheFlyFields cfg ty fs))
  | .list q xs => .list q (onTheFlyItems cfg xs)
  | .scalar r k => .scalar r k
def onTheFlyFields (cfg : Cfg) (ty : Str) : List (Str × Val) → List (Str × Val)
  | [] => []
  | (n, v) :: rest => (rename ty n, onTheFly cfg v) :: onTheFlyFields cfg ty rest
def onTheFlyItems (cfg : Cfg) : List Val → List Val
  | [] => []
  | v :: rest => onTheFly cfg v :: onTheFlyItems cfg rest
end

/-! ## Escaping `_pos=` in terminal values (since the `fix:` commit b1d74a8)

`flatten_node` dumps a terminal value as `repr(node).replace("_pos=", r"_pos\=")`. The model performs
this replacement on the tree, before dumping (`escapeTree`); `dumpPE` below is the dump that escapes in
its scalar case, like the code, and Proofs/FlatEscape.lean shows the two agree. -/

/-- Python `r.replace("_pos=", "_pos\\=")` (non-overlapping, left to right). -/
def escapePos : Str → Str
  | '_' :: 'p' :: 'o' :: 's' :: '=' :: t => '_' :: 'p' :: 'o' :: 's' :: '\\' :: '=' :: escapePos t
  | c :: t => c :: escapePos t
  | [] => []

mutual
def escapeTree : Val → Val
  | .node ty e r ln fs => .node ty e r ln (escapeFields fs)
  | .list q xs => .list q (escapeItems xs)
  | .scalar r k => .scalar (escapePos r) k
def escapeFields : List (Str × Val) → List (Str × Val)
  | [] => []
  | (n, v) :: rest => (n, escapeTree v) :: escapeFields rest
def escapeItems : List Val → List Val
  | [] => []
  | v :: rest => escapeTree v :: escapeItems rest
end

/-- What `flatten_node` traverses, as a tree: reordered / renamed fields, escaped terminal values. -/
def prep (cfg : Cfg) (t : Val) : Val := escapeTree (onTheFly cfg t)

/-! ## The pseudo-hash factory as explicit state -/

structure HashState where
  i : Nat
  cache : List (Str × Nat)
  deriving Repr, Inhabited

/-- `PseudoHashFactory.reset`. -/
def HashState.reset : HashState := ⟨0, []⟩

/-- The side effect of `pseudo_hash(x)`: allocate the next number when `x` is new. -/
def HashState.touch (s : HashState) (x : Str) : HashState :=
  match s.cache.lookup x with
  | some _ => s
  | none => ⟨s.i + 1, s.cache ++ [(x, s.i + 1)]⟩

/-- The number cached for `x` (0 when absent; never observed on a touched key). -/
def HashState.get (s : HashState) (x : Str) : Nat := (s.cache.lookup x).getD 0

/-- `pseudo_hash(x)`: new state and returned text. -/
def pseudoHash (s : HashState) (x : Str) : HashState × Str :=
  let s' := s.touch x
  (s', hex4 (s'.get x))

/-! ## `flatten_node` -/

def typeLine (pre ty : Str) : Str := pre ++ cs!"/_type=" ++ ty
def hashLine (pre hx : Str) : Str := pre ++ cs!"/_hash=" ++ hx
/-- `f"{prefix}/_pos={node.lineno}:{path[2:]}"`. -/
def posLine (pre : Str) (ln : Nat) (path : Str) : Str :=
  pre ++ cs!"/_pos=" ++ dec ln ++ ':' :: path.drop 2
def lengthLine (pre : Str) (n : Nat) : Str := pre ++ cs!"/_length=" ++ dec n
def scalarLine (pre r : Str) : Str := pre ++ '=' :: r
/-- `f"{prefix}/{name}"` and `f"{path}{i}-"`. -/
def subPre (pre name : Str) : Str := pre ++ '/' :: name
def subPath (path : Str) (i : Nat) : Str := path ++ dec i ++ ['-']

mutual
/-- `flatten_node(node, prefix, path)` threading the hash state. -/
def dumpS (pre path : Str) : Val → HashState → List Str × HashState
  | .node ty e r ln fs, s =>
    let hs := if e then let p := pseudoHash s r; ([hashLine pre p.2], p.1) else ([], s)
    let l3 := match ln with
      | some n => [posLine pre n path]
      | none => []
    let rest := dumpSFields pre path 0 fs hs.2
    (typeLine pre ty :: (hs.1 ++ l3 ++ rest.1), rest.2)
  | .list q xs, s =>
    let rest := dumpSItems pre path 1 xs s
    ((if q then [] else [lengthLine pre xs.length]) ++ rest.1, rest.2)
  | .scalar r _, s => ([scalarLine pre r], s)
def dumpSFields (pre path : Str) (i : Nat) : List (Str × Val) → HashState → List Str × HashState
  | [], s => ([], s)
  | (name, v) :: rest, s =>
    let a := dumpS (subPre pre name) (subPath path i) v s
    let b := dumpSFields pre path (i + 1) rest a.2
    (a.1 ++ b.1, b.2)
def dumpSItems (pre path : Str) (i : Nat) : List Val → HashState → List Str × HashState
  | [], s => ([], s)
  | v :: rest, s =>
    let a := dumpS (subPre pre (dec i)) (subPath path i) v s
    let b := dumpSItems pre path (i + 1) rest a.2
    (a.1 ++ b.1, b.2)
end

mutual
/-- The same dump for a given hash function `h : repr ↦ hash text`. -/
def dumpP (h : Str → Str) (pre path : Str) : Val → List Str
  | .node ty e r ln fs =>
    typeLine pre ty ::
      ((if e then [hashLine pre (h r)] else []) ++
        (match ln with
          | some n => [posLine pre n path]
          | none => []) ++
        dumpPFields h pre path 0 fs)
  | .list q xs => (if q then [] else [lengthLine pre xs.length]) ++ dumpPItems h pre path 1 xs
  | .scalar r _ => [scalarLine pre r]
def dumpPFields (h : Str → Str) (pre path : Str) (i : Nat) : List (Str × Val) → List Str
  | [] => []
  | (name, v) :: rest =>
    dumpP h (subPre pre name) (subPath path i) v ++ dumpPFields h pre path (i + 1) rest
def dumpPItems (h : Str → Str) (pre path : Str) (i : Nat) : List Val → List Str
  | [] => []
  | v :: rest =>
    dumpP h (subPre pre (dec i)) (subPath path i) v ++ dumpPItems h pre path (i + 1) rest
end

mutual
/-- The dump that escapes `_pos=` in its scalar case, as `flatten_node` does. -/
def dumpPE (h : Str → Str) (pre path : Str) : Val → List Str
  | .node ty e r ln fs =>
    typeLine pre ty ::
      ((if e then [hashLine pre (h r)] else []) ++
        (match ln with
          | some n => [posLine pre n path]
          | none => []) ++
        dumpPEFields h pre path 0 fs)
  | .list q xs => (if q then [] else [lengthLine pre xs.length]) ++ dumpPEItems h pre path 1 xs
  | .scalar r _ => [scalarLine pre (escapePos r)]
def dumpPEFields (h : Str → Str) (pre path : Str) (i : Nat) : List (Str × Val) → List Str
  | [] => []
  | (name, v) :: rest =>
    dumpPE h (subPre pre name) (subPath path i) v ++ dumpPEFields h pre path (i + 1) rest
def dumpPEItems (h : Str → Str) (pre path : Str) (i : Nat) : List Val → List Str
  | [] => []
  | v :: rest =>
    dumpPE h (subPre pre (dec i)) (subPath path i) v ++ dumpPEItems h pre path (i + 1) rest
end

/-! ## String helpers for the line-level passes -/

/-- `pat` occurs somewhere in `s`. -/
def hasInfix (pat : Str) : Str → Bool
  | [] => pat.isEmpty
  | c :: t => pat.isPrefixOf (c :: t) || hasInfix pat t

/-- `.+PAT` : `pat` occurs in `s` at an index ≥ 1. -/
def hasInfixAfter1 (pat : Str) : Str → Bool
  | [] => false
  | _ :: t => hasInfix pat t

/-- `s = x ++ suf` → `some x`. -/
def stripSuffix? (suf s : Str) : Option Str :=
  if suf.isSuffixOf s then some (s.take (s.length - suf.length)) else none

/-- `s` starts with `p` and has at least one more character (`\1.+`). -/
def startsWithMore (p s : Str) : Bool := p.isPrefixOf s && p.length < s.length

/-- ASCII decimal digit (the model alphabet's `\d`). -/
def isDigitC (c : Char) : Bool := '0' ≤ c && c ≤ '9'

/-- ASCII word character (the model alphabet's `\w`). -/
def isWordC (c : Char) : Bool :=
  ('a' ≤ c && c ≤ 'z') || ('A' ≤ c && c ≤ 'Z') || isDigitC c || c == '_'

/-! ## `suppress_kinds` : `(?m)^[^=\n]+/kind=.*\n` ↦ ""

The key part `[^=\n]+` cannot cross an `=`: the `=` of `/kind=` is the **first** `=` of the line, and
the text before it ends with `/kind`, with at least one character before (since the `fix:` commit
83ae3f3; formerly `^.+/kind=`, which also matched inside values). -/

/-- The text of a line before its first `=` (the whole line when there is none). -/
def keyPart (l : Str) : Str := l.takeWhile (· != '=')

def isKindLine (l : Str) : Bool :=
  let k := keyPart l
  k.length < l.length && (cs!"/kind").isSuffixOf k && (cs!"/kind").length < k.length

def suppressKinds (ls : List Str) : List Str := ls.filter (fun l => !isKindLine l)

/-! ## `suppress_alias_pos` : `(?m)^(.+/_type=alias\n).+_pos=.+\n` ↦ `\1` -/

/-- `.+/_type=alias` up to the end of the line. -/
def isAliasLine (l : Str) : Bool :=
  (cs!"/_type=alias").isSuffixOf l && (cs!"/_type=alias").length < l.length

/-- `.+_pos=.+` : `_pos=` occurs at an index ≥ 1 and is followed by at least one character. -/
def posLikeFrom : Str → Bool
  | [] => false
  | c :: t => ((cs!"_pos=").isPrefixOf (c :: t) && (cs!"_pos=").length < (c :: t).length) || posLikeFrom t

def isPosLike : Str → Bool
  | [] => false
  | _ :: t => posLikeFrom t

def suppressAliasPos : List Str → List Str
  | [] => []
  | [a] => [a]
  | a :: b :: rest =>
    if isAliasLine a && isPosLike b then a :: suppressAliasPos rest
    else a :: suppressAliasPos (b :: rest)

/-! ## `suppress_posonlyargs` : `(?m)^.+/args/posonlyargs/_length=\d+\n` ↦ "" -/

/-- `s = "/args/posonlyargs/_length=" ++ digits`, at least one digit. -/
def posonlyTail (s : Str) : Bool :=
  let p := cs!"/args/posonlyargs/_length="
  p.isPrefixOf s && (let d := s.drop p.length; !d.isEmpty && d.all isDigitC)

def posonlyFrom : Str → Bool
  | [] => false
  | c :: t => posonlyTail (c :: t) || posonlyFrom t

def isPosonlyLine : Str → Bool
  | [] => false
  | _ :: t => posonlyFrom t

def suppressPosonlyargs (ls : List Str) : List Str := ls.filter (fun l => !isPosonlyLine l)

/-! ## `backport_all_constants`

```
(?mx) ^(.*?)/_type=Constant ((?:\n.+)+) \n\1/value=(.+)
```
At a line `G1 ++ "/_type=Constant"`, group 2 greedily takes the following non-empty lines and
backtracks to the **last** line, in the maximal run of non-empty lines that follows, which starts
with `G1 ++ "/value="` and has at least one more character; at least one line must lie in between.
Matches do not overlap: scanning resumes after the value line. -/

/-- Index of the last element of `ls` satisfying `p`. -/
def lastIdx (p : Str → Bool) : List Str → Option Nat
  | [] => none
  | l :: rest =>
    match lastIdx p rest with
    | some j => some (j + 1)
    | none => if p l then some 0 else none

/-- `replace_one_constant` : new type name, and the key of the value line (`none`: line dropped).
The decision is taken on the *text* of the value (its repr prefix). -/
def constantKindOfRepr (m3 : Str) : Str × Option Str :=
  if (cs!"'").isPrefixOf m3 || (cs!"\"").isPrefixOf m3 then (cs!"Str", some cs!"s")
  else if m3 == cs!"True" || m3 == cs!"False" || m3 == cs!"None" then (cs!"NameConstant", some cs!"value")
  else if (cs!"b'").isPrefixOf m3 || (cs!"b\"").isPrefixOf m3 then (cs!"Bytes", some cs!"s")
  else if m3 == cs!"Ellipsis" then (cs!"Ellipsis", none)
  else (cs!"Num", some cs!"n")

def nonEmptyRun (ls : List Str) : List Str := ls.takeWhile (fun l => !l.isEmpty)

def backportAllConstants (ls : List Str) : List Str :=
  match ls with
  | [] => []
  | l :: rest =>
    match stripSuffix? cs!"/_type=Constant" l with
    | none => l :: backportAllConstants rest
    | some g1 =>
      let key := g1 ++ cs!"/value="
      -- group 2 needs at least one line: the value line is looked for from the second line on
      match lastIdx (startsWithMore key) ((nonEmptyRun rest).drop 1) with
      | none => l :: backportAllConstants rest
      | some j =>
        let j := j + 1  -- index in `rest`
        let m3 := (rest.getD j []).drop key.length
        let k := constantKindOfRepr m3
        (g1 ++ cs!"/_type=" ++ k.1) :: (rest.take j ++
          (match k.2 with
            | some f => [g1 ++ '/' :: f ++ '=' :: m3]
            | none => []) ++ backportAllConstants (rest.drop (j + 1)))
termination_by ls.length
decreasing_by all_goals (simp_all; try omega)

/-! ## `simplify_negative_literals`

```
(?mx) ^(.*?)/_type=UnaryOp (\n(?:.+\n)*?) \1/op/_type=USub \n(?:.+\n)*? \1/operand/n=(.+)
```
At a line `G1 ++ "/_type=UnaryOp"`: within the run of non-empty lines that follows, `k` is the
first line equal to `G1 ++ "/op/_type=USub"` and `l` the first line after `k` starting with
`G1 ++ "/operand/n="` (and longer). The match is replaced by `G1/_type=Num`, the lines before `k`,
and `G1/n=-<value>`. -/

def firstIdx (p : Str → Bool) : List Str → Option Nat
  | [] => none
  | l :: rest => if p l then some 0 else (firstIdx p rest).map (· + 1)

def simplifyNegativeLiterals (ls : List Str) : List Str :=
  match ls with
  | [] => []
  | l :: rest =>
    match stripSuffix? cs!"/_type=UnaryOp" l with
    | none => l :: simplifyNegativeLiterals rest
    | some g1 =>
      let run := nonEmptyRun rest
      match firstIdx (fun x => x == g1 ++ cs!"/op/_type=USub") run with
      | none => l :: simplifyNegativeLiterals rest
      | some k =>
        let key := g1 ++ cs!"/operand/n="
        match firstIdx (startsWithMore key) (run.drop (k + 1)) with
        | none => l :: simplifyNegativeLiterals rest
        | some d =>
          let j := k + 1 + d  -- index in `rest` of the operand value line
          let m3 := (rest.getD j []).drop key.length
          (g1 ++ cs!"/_type=Num") :: (rest.take k ++ [g1 ++ cs!"/n=-" ++ m3] ++
            simplifyNegativeLiterals (rest.drop (j + 1)))
termination_by ls.length
decreasing_by all_goals (simp_all; try omega)

/-! ## `unquote` : `(?m)^([^=\n]*)=["'](.*)['"]\n` ↦ `\1=\2\n`

Anchored on the key since the `fix:` commit 0ac09ad: the **first** `=` of the line must be followed by
a quote and the line must end with a (distinct) quote; both delimiters are removed. -/

def isQuote (c : Char) : Bool := c == '\'' || c == '"'

/-- What `unquote` does to the value part `v` of a line `key=v`. -/
def unquoteValue : Str → Str
  | q :: body =>
    if isQuote q && (match body.getLast? with | some z => isQuote z | none => false)
    then body.dropLast else q :: body
  | [] => []

def unquoteLine (l : Str) : Str :=
  let k := keyPart l
  match l.drop k.length with
  | '=' :: v => k ++ '=' :: unquoteValue v
  | _ => l

def unquote (ls : List Str) : List Str := ls.map unquoteLine

/-! ## `post_process` (Python ≥ 3.10 branch) and `flatten_ast` -/

def postProcess (ls : List Str) : List Str :=
  unquote (simplifyNegativeLiterals (backportAllConstants (suppressPosonlyargs
    (suppressAliasPos (suppressKinds ls)))))

/-- The state `flatten_node` starts from: `pseudo_hash.reset()` is a real step of `flatten_ast`; with
`doReset = false` (the code without that line) the factory is used as it was left. -/
def startState (doReset : Bool) (s : HashState) : HashState := if doReset then HashState.reset else s

/-- `flatten_ast(tree)` with or without its first line `pseudo_hash.reset()`. -/
def flattenAstG (doReset : Bool) (cfg : Cfg) (s : HashState) (t : Val) : List Str × HashState :=
  let r := dumpS [] [] (prep cfg t) (startState doReset s)
  (postProcess r.1, r.2)

/-- `flatten_ast(tree)`: reset the global factory, dump, post-process.
Returns the lines and the state the factory is left in. -/
def flattenAst (cfg : Cfg) (s : HashState) (t : Val) : List Str × HashState := flattenAstG true cfg s t

/-- A sequence of flattenings in one process. -/
def flattenSeq (cfg : Cfg) : HashState → List Val → List (List Str) × HashState
  | s, [] => ([], s)
  | s, t :: ts =>
    let a := flattenAst cfg s t
    let b := flattenSeq cfg a.2 ts
    (a.1 :: b.1, b.2)

end Paroxy.Flat
