/-
The `data` dictionary of `TagDatabase.get_json` (paroxython/make_db.py) as a JSON value `J` of Model/JsonText.lean,
built from the database `Db` of Model/MakeDb.lean:

```python
data = {"programs": self.programs_infos,                # per program: timestamp, source, labels, taxa (in this order)
        "labels": dict(sorted(self.labels.items())),     # `Db.labels` is already `sortKeys …`
        "taxa": dict(sorted(self.taxa.items())),
        "importations": dict(self.importations.items()),
        "exportations": dict(self.exportations.items())}
```

A span `(start, end)` is written as the array of its two numbers. `J.num` holds a natural: line numbers are naturals
(`Int.toNat`; `spansNat` is the hypothesis that makes the conversion lossless). Core Lean only (the driver links it).
-/
import Paroxy.Model.MakeDb
import Paroxy.Model.JsonText
namespace Paroxy.JsonDb
open Paroxy Paroxy.DB Paroxy.JsonText

def kPrograms : Str := codesOf "programs"
def kLabels : Str := codesOf "labels"
def kTaxa : Str := codesOf "taxa"
def kImportations : Str := codesOf "importations"
def kExportations : Str := codesOf "exportations"
def kTimestamp : Str := codesOf "timestamp"
def kSource : Str := codesOf "source"

def spanToJson (s : PoorSpan) : J := .arr [.num s.1.toNat, .num s.2.toNat]
def spansToJson (l : List PoorSpan) : J := .arr (l.map spanToJson)
def namesToJson (l : List Name) : J := .arr (l.map J.str)
def spanDictToJson (d : List (Name × List PoorSpan)) : J := .obj (d.map fun e => (e.1, spansToJson e.2))
def nameDictToJson (d : List (Name × List Name)) : J := .obj (d.map fun e => (e.1, namesToJson e.2))

/-- `programs_infos[path]`: the keys in the order `TagDatabase.__init__` builds them. -/
def recordToJson (r : Record) : J :=
  .obj [(kTimestamp, .str r.timestamp), (kSource, .str r.source),
        (kLabels, spanDictToJson r.labels), (kTaxa, spanDictToJson r.taxa)]

def programsToJson (d : List (Name × Record)) : J := .obj (d.map fun e => (e.1, recordToJson e.2))

/-- the `data` of `get_json`. -/
def dbToJson (db : Db) : J :=
  .obj [(kPrograms, programsToJson db.programs), (kLabels, nameDictToJson db.labels), (kTaxa, nameDictToJson db.taxa),
        (kImportations, nameDictToJson db.importations), (kExportations, nameDictToJson db.exportations)]

/-! ## Hygiene of a database, string by string -/

def namesOk (l : List Name) : Bool := l.all strOk
def nameDictOk (d : List (Name × List Name)) : Bool := d.all fun e => strOk e.1 && namesOk e.2
def spanDictOk (d : List (Name × List PoorSpan)) : Bool := d.all fun e => strOk e.1
def recordOk (r : Record) : Bool := strOk r.timestamp && strOk r.source && spanDictOk r.labels && spanDictOk r.taxa
/-- every string of the database is a text without a high surrogate directly followed by a low one. -/
def dbOk (db : Db) : Bool :=
  db.programs.all (fun e => strOk e.1 && recordOk e.2) && nameDictOk db.labels && nameDictOk db.taxa &&
  nameDictOk db.importations && nameDictOk db.exportations

def spanNat (s : PoorSpan) : Prop := 0 ≤ s.1 ∧ 0 ≤ s.2
def spanDictNat (d : List (Name × List PoorSpan)) : Prop := ∀ e ∈ d, ∀ s ∈ e.2, spanNat s
/-- the spans stored in the database are pairs of naturals (line numbers). -/
def spansNat (db : Db) : Prop := ∀ e ∈ db.programs, spanDictNat e.2.labels ∧ spanDictNat e.2.taxa

end Paroxy.JsonDb
