/-
Model of `paroxython/preprocess_source.py :: Cleanup` (C13). Core Lean only.

Texts are `List Char`. The fixed regexes of the class are re-expressed as structural functions
(treatment R2 of DESIGN §3); their agreement with the real `regex` engine is *validated* by the
token-level bounded-exhaustive streams of harness/c13.py, not proved.

The token loop of `full_cleaning` takes the TOKEN LIST as input: CPython's tokenizer is outside the
model (the harness records what `tokenize.generate_tokens` really produced).

Whitespace: `isWs` is `\s` of the `regex` module and `str.isspace` restricted to the model alphabet
(ASCII 0x09-0x0D, 0x20-0x7E, plus any non-space non-ASCII character). The two Python notions differ
on 0x1C-0x1F, which are outside the alphabet.
-/
namespace Paroxy.Cleanup

abbrev Text := List Char
abbrev Line := List Char

/-- `\s` / `str.isspace` on the model alphabet: space, `\t`, `\n`, `\v`, `\f`, `\r`. -/
def isWs (c : Char) : Bool :=
  c == ' ' || c == '\t' || c == '\n' || c == '\x0b' || c == '\x0c' || c == '\r'

/-- A line (or text) is blank when it is empty or made of whitespace only. -/
def blank (l : List Char) : Bool := l.all isWs

/-! ### Lines: `str.split("\n")` and `"\n".join` -/

/-- `t.split("\n")` — always at least one line. -/
def splitNl : Text → List Line
  | [] => [[]]
  | c :: cs =>
    if c = '\n' then [] :: splitNl cs
    else
      match splitNl cs with
      | l :: ls => (c :: l) :: ls
      | [] => [[c]]

/-- `"\n".join(lines)`. -/
def joinNl : List Line → Text
  | [] => []
  | [l] => l
  | l :: ls => l ++ '\n' :: joinNl ls

/-! ### `str.strip()` -/

def lstrip (t : Text) : Text := t.dropWhile isWs

/-- `str.rstrip()`: the text without its trailing whitespace. -/
def rstrip : Text → Text
  | [] => []
  | c :: cs =>
    match rstrip cs with
    | [] => if isWs c then [] else [c]
    | r :: rs => c :: r :: rs

def strip (t : Text) : Text := rstrip (lstrip t)

/-! ### Small matching helpers -/

/-- `s` with the literal prefix `p` removed, if `s` starts with `p`. -/
def dropPrefix? : (p s : Text) → Option Text
  | [], s => some s
  | _ :: _, [] => none
  | a :: p, b :: s => if a = b then dropPrefix? p s else none

def asciiLower (c : Char) : Char :=
  if 'A' ≤ c ∧ c ≤ 'Z' then Char.ofNat (c.toNat + 32) else c

/-- Case-insensitive (ASCII) version of `dropPrefix?`; the pattern is given in lower case. -/
def dropPrefixCI? : (p s : Text) → Option Text
  | [], s => some s
  | _ :: _, [] => none
  | a :: p, b :: s => if a = asciiLower b then dropPrefixCI? p s else none

def skipSpaces (s : Text) : Text := s.dropWhile (· == ' ')
def skipWs (s : Text) : Text := s.dropWhile isWs

/-! ### 1. `suppress_first_comments` : `(?i)\A(#(?!(?:.*#)?\s*paroxython\s*:).*\n)*` ↦ "" -/

/-- The negative look-ahead after a `#`: `\s*paroxython\s*:` in any case. `\s` also matches a newline:
the look-ahead reads the rest of the TEXT, not only the rest of the line. -/
def hintAhead (afterHash : Text) : Bool :=
  match dropPrefixCI? "paroxython".toList (skipWs afterHash) with
  | some r =>
    match skipWs r with
    | ':' :: _ => true
    | _ => false
  | none => false

/-- `(?:.*#)` part of the look-ahead: some later `#` of the SAME line (`.` does not match a newline)
is followed by the marker. -/
def hashScan : Text → Bool
  | [] => false
  | c :: cs => if c = '\n' then false else (c == '#' && hintAhead cs) || hashScan cs

/-- The whole negative look-ahead after the first `#` of a line (repair 643e8d6): the marker follows
this `#` or any later `#` of the line. -/
def hintAheadAny (afterHash : Text) : Bool := hintAhead afterHash || hashScan afterHash

/-- Drop the leading lines that start with `#` and carry no hint marker after any of their `#` — a line
counts only if it is terminated by a newline, i.e. is not the last element of the split. -/
def dropLeadingComments : List Line → List Line
  | [] => []
  | [l] => [l]
  | l :: m :: rest =>
    if l.head? = some '#' ∧ hintAheadAny (joinNl (l.tail :: m :: rest)) = false then
      dropLeadingComments (m :: rest)
    else l :: m :: rest

def suppressFirstComments (t : Text) : Text := joinNl (dropLeadingComments (splitNl t))

/-! ### 2. `suppress_main_guard` : the top-level `if` statements whose TEST is `__name__ == '__main__'`
(the blocks are delimited, and the guards recognised, by the PARSER: `ast.dump(node.test) == guard`) -/

/-- `del lines[a - 1 : b]` -/
def delRange (ls : List Line) (a b : Nat) : List Line := ls.take (a - 1) ++ ls.drop b

/-- A top-level `if` statement as the parser reports it: `lineno`, `end_lineno`, and whether its test
dumps like `__name__ == '__main__'` (whatever the spacing, tabs, line continuations, parentheses or
quotes of the source). -/
structure IfStmt where
  lineno : Nat
  endLineno : Nat
  isGuard : Bool
  deriving DecidableEq, Repr, Inhabited

/-- The loop `for node in reversed(statements)`: `ranges` are the top-level `if` statements IN THE
ORDER THE LOOP VISITS THEM (last statement first). -/
def dropGuards (ls : List Line) : List IfStmt → List Line
  | [] => ls
  | r :: rest => dropGuards (if r.isGuard then delRange ls r.lineno r.endLineno else ls) rest

/-- `suppress_main_guard`. The parser is an oracle: `none` when `ast.parse` raises SyntaxError or
ValueError, else the top-level `if` statements in source order. -/
def suppressMainGuard (ifs : Option (List IfStmt)) (t : Text) : Text :=
  match ifs with
  | none => t
  | some rs => joinNl (dropGuards (splitNl t) rs.reverse)

/-! ### 3. `suppress_sys_path_injection` : the top-level statements at column 0 whose FIRST LINE starts
with `__import__("sys").path[0:0] = ` followed by at least one character, with ALL their lines
(repair F50: the statements are delimited by the PARSER, as in `suppress_main_guard`; the former regex
`(?m)^__import__\("sys"\)\.path\[0:0\] = .+\n?` deleted the first physical line only) -/

def sysPathPrefix : Text := "__import__(\"sys\").path[0:0] = ".toList

/-- `regex.compile(r'__import__\("sys"\)\.path\[0:0\] = .').match(line)` on a line (no newline in it). -/
def isInjection (l : Line) : Bool :=
  match dropPrefix? sysPathPrefix l with
  | some r => !r.isEmpty
  | none => false

/-- A top-level statement as the parser reports it: `lineno`, `end_lineno`, `col_offset == 0`. -/
structure Stmt where
  lineno : Nat
  endLineno : Nat
  col0 : Bool
  deriving DecidableEq, Repr, Inhabited

/-- `node.col_offset == 0 and match(lines[node.lineno - 1])`, on the CURRENT list of lines.
(A `lineno` beyond the list — the parser and `split("\n")` count the lines differently after a lone
`\r` or `\f\r` — raises IndexError in the code; here it is "no match": see the assumptions of C13.) -/
def stmtIsInjection (ls : List Line) (s : Stmt) : Bool :=
  s.col0 && isInjection (ls.getD (s.lineno - 1) [])

/-- The loop `for node in reversed(statements)`: the statements IN THE ORDER THE LOOP VISITS THEM. -/
def dropInjectionStmts (ls : List Line) : List Stmt → List Line
  | [] => ls
  | s :: rest =>
    dropInjectionStmts (if stmtIsInjection ls s then delRange ls s.lineno s.endLineno else ls) rest

/-- `suppress_sys_path_injection`. The parser is an oracle: `none` when `ast.parse` raises SyntaxError
or ValueError, else ALL the top-level statements in source order. -/
def suppressSysPath (stmts : Option (List Stmt)) (t : Text) : Text :=
  match stmts with
  | none => t
  | some ss => joinNl (dropInjectionStmts (splitNl t) ss.reverse)

/-! ### 4. `text.replace("\t", "    ")` -/

def expandTabs (t : Text) : Text := t.flatMap fun c => if c = '\t' then "    ".toList else [c]

/-- The three text passes and the tab expansion that precede the tokenizer. `parse` is the parser
oracle of `suppress_main_guard`, asked about the text that `suppress_first_comments` returns;
`parseStmts` the one of `suppress_sys_path_injection`, asked about the text without its guards. -/
def preprocess (parse : Text → Option (List IfStmt)) (parseStmts : Text → Option (List Stmt))
    (t : Text) : Text :=
  let t1 := suppressFirstComments t
  let t2 := suppressMainGuard (parse t1) t1
  expandTabs (suppressSysPath (parseStmts t2) t2)

/-! ### 5. `normalize_paroxython_comments` : `(?i)#\s*paroxython\s*:\s*` ↦ "# paroxython: ", counted -/

def hintMarker : Text := "# paroxython: ".toList

/-- If the marker regex matches at the beginning of `s`: what follows the match. -/
def markerRest? (s : Text) : Option Text :=
  match s with
  | '#' :: r =>
    match dropPrefixCI? "paroxython".toList (skipWs r) with
    | some r2 =>
      match skipWs r2 with
      | ':' :: r3 => some (skipWs r3)
      | _ => none
    | none => none
  | _ => none

/-- `subn`: left-to-right, non-overlapping. `skip` = characters still covered by the last match. -/
def normAux : (skip : Nat) → Text → Text × Nat
  | _, [] => ([], 0)
  | skip + 1, _ :: cs => normAux skip cs
  | 0, c :: cs =>
    match markerRest? (c :: cs) with
    | some rest =>
      let r := normAux (cs.length - rest.length) cs
      (hintMarker ++ r.1, r.2 + 1)
    | none =>
      let r := normAux 0 cs
      (c :: r.1, r.2)

def normalizeComment (s : Text) : Text × Nat := normAux 0 s

/-- The comment carries (at least) one Paroxython hint marker. -/
def isHint (s : Text) : Bool := (normalizeComment s).2 != 0

/-! ### 6. The token loop -/

inductive Kind where
  | comment | string | newline | nl | indent | dedent | fstringMiddle | other
  deriving DecidableEq, Repr, Inhabited

structure Token where
  kind : Kind
  str : Text
  srow : Int
  scol : Int
  erow : Int
  ecol : Int
  deriving DecidableEq, Repr, Inhabited

/-- What the loop appends for one token, after the padding. -/
inductive Piece where
  | dropped                 -- a comment without hint: `continue`
  | hint (s : Text)         -- a hint comment, normalised
  | pass                    -- `"pass"` instead of a docstring-like STRING statement
  | verbatim (s : Text)
  deriving DecidableEq, Repr, Inhabited

structure Emit where
  pad : Nat
  piece : Piece
  deriving DecidableEq, Repr, Inhabited

structure LoopState where
  prev : Kind
  perow : Int
  pecol : Int
  /-- `line_is_open`: the last token processed to the end of the loop body is neither NEWLINE nor NL -/
  lineOpen : Bool
  deriving DecidableEq, Repr, Inhabited

def LoopState.init : LoopState := ⟨.indent, -1, 0, false⟩

/-- `previous_token in (INDENT, DEDENT, NEWLINE)` -/
def Kind.opensStmt : Kind → Bool
  | .indent | .dedent | .newline => true
  | _ => false

def isBrace (c : Char) : Bool := c == '{' || c == '}'

/-- `\N\{[^{}]*\}` at the beginning of `s`: the length of the match. -/
def namedEscapeLen (s : Text) : Option Nat :=
  match s with
  | '\\' :: 'N' :: '{' :: r =>
    let body := r.takeWhile fun c => !isBrace c
    match r.drop body.length with
    | '}' :: _ => some (body.length + 4)
    | _ => none
  | _ => none

/-- `regex.sub(r"(\\N\{[^{}]*\})|[{}]", lambda m: m[1] or 2 * m[0], string)`: every brace is doubled,
except those of a named escape `\N{...}`. `skip` = characters still covered by the last match. -/
def doubleBracesAux : (skip : Nat) → Text → Text
  | _, [] => []
  | skip + 1, c :: cs => c :: doubleBracesAux skip cs
  | 0, c :: cs =>
    match namedEscapeLen (c :: cs) with
    | some n => c :: doubleBracesAux (n - 1) cs
    | none => if isBrace c then c :: c :: doubleBracesAux 0 cs else c :: doubleBracesAux 0 cs

def doubleBraces (s : Text) : Text := doubleBracesAux 0 s

/-- `len(doubled) - len(string)` -/
def braceCount (s : Text) : Nat := (doubleBraces s).length - s.length

/-- `previous_token` after a token that is not skipped by `continue`: an NL or COMMENT token does not
hide a statement start. -/
def nextPrev (p k : Kind) : Kind :=
  if (k = .nl ∨ k = .comment) ∧ p.opensStmt = true then p else k

/-- `next((t[0] for t in tokens[i + 1:] if t[0] != COMMENT), None)`: the kind of the first token
after position `i` that is not a COMMENT, if any. -/
def lookAhead (rest : List Token) : Option Kind := (rest.find? fun t => t.kind != .comment).map (·.kind)

/-- One iteration of the `for (i, token_info) in enumerate(tokens)` loop; `next` is the look-ahead of
repair 4b0a4d7 (`lookAhead` of the tokens that follow): total, no IndexError. -/
def step (st : LoopState) (t : Token) (next : Option Kind) : LoopState × Emit :=
  let pecol := if t.srow > st.perow then 0 else st.pecol
  -- explicit line joining (backslash): one space keeps the two tokens apart (repair 55c4b14)
  let joint : Nat := if t.srow > st.perow ∧ st.lineOpen = true then 1 else 0
  let pad := joint + (t.scol - pecol).toNat
  let after (ecol : Int) : LoopState :=
    ⟨nextPrev st.prev t.kind, t.erow, ecol, !(t.kind == .newline || t.kind == .nl)⟩
  if t.kind = .comment then
    let r := normalizeComment t.str
    if r.2 = 0 then
      -- `continue`: the column reset persists, nothing else is updated
      (⟨st.prev, st.perow, pecol, st.lineOpen⟩, ⟨pad, .dropped⟩)
    else (after t.ecol, ⟨pad, .hint r.1⟩)
  else if t.kind = .string ∧ st.prev.opensStmt = true ∧ next = some .newline then
    (after t.ecol, ⟨pad, .pass⟩)
  else if t.kind = .fstringMiddle then
    (after (t.ecol + braceCount t.str), ⟨pad, .verbatim (doubleBraces t.str)⟩)
  else (after t.ecol, ⟨pad, .verbatim t.str⟩)

def loopFrom : LoopState → List Token → List Emit
  | _, [] => []
  | st, t :: ts => (step st t (lookAhead ts)).2 :: loopFrom (step st t (lookAhead ts)).1 ts

/-- The state reached after a list of tokens followed by `rest`. -/
def stateAfter : LoopState → List Token → (rest : List Token) → LoopState
  | st, [], _ => st
  | st, t :: ts, rest => stateAfter (step st t (lookAhead (ts ++ rest))).1 ts rest

def loop (ts : List Token) : List Emit := loopFrom .init ts

def Piece.text : Piece → Text
  | .dropped => []
  | .hint s => s
  | .pass => "pass".toList
  | .verbatim s => s

def Emit.text (e : Emit) : Text := List.replicate e.pad ' ' ++ e.piece.text

/-- `"".join(result)` -/
def loopText (ts : List Token) : Text := (loop ts).flatMap Emit.text

/-! ### 7. `suppress_blank_lines` : `\s*\n` ↦ "\n" -/

/-- Lines after the first: blank ones vanish, the others lose their trailing whitespace; the last
line (not followed by a newline) is kept verbatim. -/
def sblTail : List Line → List Line
  | [] => []
  | [l] => [l]
  | l :: m :: rest => if blank l then sblTail (m :: rest) else rstrip l :: sblTail (m :: rest)

/-- The first line is always kept (right-stripped) when a newline follows it. -/
def sblLines : List Line → List Line
  | [] => []
  | [l] => [l]
  | l :: m :: rest => rstrip l :: sblTail (m :: rest)

def suppressBlankLines (t : Text) : Text := joinNl (sblLines (splitNl t))

/-! ### 8. `suppress_useless_pass_statements` : `(?m)^( *)pass\n(?=(?: *#.*\n)*\1(?![\s#]))` ↦ "" -/

/-- Number of leading spaces. -/
def indentOf (l : Line) : Nat := (l.takeWhile (· == ' ')).length

/-- `some k` when the line is exactly `k` spaces followed by `pass`. -/
def passIndent? (l : Line) : Option Nat :=
  if l.drop (indentOf l) = "pass".toList then some (indentOf l) else none

/-- ` *#.*` : spaces then `#`. -/
def isCommentLine (l : Line) : Bool := (l.drop (indentOf l)).head? == some '#'

/-- `\1(?![\s#])` on line `m`: exactly `k` spaces, then a character that is neither whitespace nor
`#` — or the end of the text (when `m` is the last line and stops there). -/
def siblingAt (k : Nat) (m : Line) (mIsLast : Bool) : Bool :=
  indentOf m == k &&
    match m.drop (indentOf m) with
    | [] => mIsLast
    | c :: _ => !isWs c && c != '#'

/-- The look-ahead on the lines that follow a `pass` line: skip the (newline-terminated) comment
lines, then require a sibling. -/
def passTarget (k : Nat) : List Line → Bool
  | [] => false
  | [m] => siblingAt k m true
  | m :: m' :: rest => if isCommentLine m then passTarget k (m' :: rest) else siblingAt k m false

/-- A match removes the `pass` line and nothing else; the scan resumes at the next line start. -/
def supPassLines : List Line → List Line
  | [] => []
  | [l] => [l]
  | l :: m :: rest =>
    match passIndent? l with
    | some k =>
      if passTarget k (m :: rest) then supPassLines (m :: rest) else l :: supPassLines (m :: rest)
    | none => l :: supPassLines (m :: rest)

def suppressUselessPass (t : Text) : Text := joinNl (supPassLines (splitNl t))

/-! ### `full_cleaning` -/

/-- What happens after the loop. -/
def finish (joined : Text) : Text := suppressUselessPass (suppressBlankLines (strip joined))

def postprocess (ts : List Token) : Text := finish (loopText ts)

/-- `Cleanup.full_cleaning`, the parser and the tokenizer being parameters; the tokenizer may raise
(all tokens are produced before the loop starts), the loop itself cannot. -/
def fullCleaning {ε : Type} (parse : Text → Option (List IfStmt))
    (parseStmts : Text → Option (List Stmt))
    (tokenize : Text → Except ε (List Token)) (src : Text) : Except ε Text :=
  match tokenize (preprocess parse parseStmts src) with
  | .error e => .error e
  | .ok ts => .ok (postprocess ts)

end Paroxy.Cleanup
