/-
Model of the decision logic of the command line (C18): `cli_collect.cli_wrapper`,
`cli_recommend.cli_wrapper`, `cli_tag.cli_wrapper` and the selection made by `list_programs`.
Core Lean only.

A *plan* is what the wrapper decides to do, from the option record docopt returns and from facts
about the file system (`isDir`, `isFile`, can the pipeline be read by `literal_eval`, can the file be
read). docopt's parsing, `pathlib.glob`, the `regex` engine on the user's skip pattern, file I/O and
the library calls themselves are outside the model.

Strings are `List Char`. Paths follow `pathlib.PurePosixPath`: a root flag and the list of parts,
empty and `.` segments dropped, `..` kept (the `//` root of POSIX is not modelled).
-/
namespace Paroxy.Cli

abbrev Str := List Char

/-! ### `pathlib.PurePosixPath` -/

structure PPath where
  abs : Bool
  parts : List Str
  deriving DecidableEq, Repr, Inhabited

/-- `s.split("/")` -/
def splitSlash : Str → List Str
  | [] => [[]]
  | c :: cs =>
    if c = '/' then [] :: splitSlash cs
    else
      match splitSlash cs with
      | l :: ls => (c :: l) :: ls
      | [] => [[c]]

def keepSegment (p : Str) : Bool := !(p.isEmpty || p == ['.'])

/-- `Path(s)` -/
def PPath.parse (s : Str) : PPath :=
  ⟨s.head? == some '/', (splitSlash s).filter keepSegment⟩

/-- `p.parent` -/
def PPath.parent (p : PPath) : PPath := ⟨p.abs, p.parts.dropLast⟩

/-- `p.name` -/
def PPath.name (p : PPath) : Str := p.parts.getLast?.getD []

/-- `p / name` for a single non-empty segment `name`. -/
def PPath.child (p : PPath) (name : Str) : PPath := ⟨p.abs, p.parts ++ [name]⟩

def joinSlash : List Str → Str
  | [] => []
  | [l] => l
  | l :: ls => l ++ '/' :: joinSlash ls

/-- `str(p)` -/
def PPath.render (p : PPath) : Str :=
  match p.parts with
  | [] => if p.abs then ['/'] else ['.']
  | ps => (if p.abs then ['/'] else []) ++ joinSlash ps

/-- Lexical collapse of `..` (what the OS does in a tree without symbolic links). -/
def collapse : (acc : List Str) → List Str → List Str
  | acc, [] => acc.reverse
  | acc, p :: ps => if p = ['.', '.'] then collapse acc.tail ps else collapse (p :: acc) ps

/-- `p.resolve()` for current directory `cwd` (absolute parts), no symbolic links. -/
def PPath.resolve (cwd : List Str) (p : PPath) : PPath :=
  ⟨true, collapse [] (if p.abs then p.parts else cwd ++ p.parts)⟩

/-! ### facts about the outside world -/

structure World where
  isDir : PPath → Bool
  isFile : PPath → Bool
  /-- `literal_eval(path.read_text())` succeeds -/
  pipelineParses : PPath → Bool
  /-- `path.read_text()` succeeds -/
  readable : PPath → Bool
  cwd : List Str

def World.exists (w : World) (p : PPath) : Bool := w.isDir p || w.isFile p

inductive Exit where
  | noDirectory | noDbPath | noDatabase | malformedPipeline | noPipeline | unreadable
  deriving DecidableEq, Repr

inductive Outcome (α : Type) where
  | exit (e : Exit)
  | raises (exc : Str)
  | run (plan : α)
  deriving Repr

/-! ### `paroxython collect` -/

structure CollectArgs where
  directory : Str
  /-- `None` and `""` are both falsy: represented by `[]` -/
  taxonomy : Str
  cleanup : Str
  skip : Str
  glob : Str
  output : Str
  log : Bool
  noTimestamp : Bool
  deriving Repr

inductive DbOut where
  | json (p : PPath)
  | sqlite (p : PPath)
  | nothing
  deriving DecidableEq, Repr

/-- Keyword arguments of `TagDatabase(...)` and what is written afterwards. `taxonomy = none` is the
bundled taxonomy. -/
structure CollectPlan where
  directory : PPath
  ignoreTimestamps : Bool
  cleanup : Str
  skip : Str
  glob : Str
  printPerformances : Bool
  taxonomy : Option PPath
  out : DbOut
  deriving Repr

def endsWith (s suffix : Str) : Bool := suffix.isSuffixOf s

def taxonomyFor (w : World) (d : PPath) (taxonomy : Str) : Option PPath :=
  if !taxonomy.isEmpty then some (PPath.parse taxonomy)
  else
    let c := d.parent.child "taxonomy.tsv".toList
    if w.isFile c then some c else none

def collectOut (d : PPath) (output : Str) : DbOut :=
  if output.isEmpty then .json (d.parent.child (d.name ++ "_db.json".toList))
  else if endsWith output ".json".toList then .json (PPath.parse output)
  else if endsWith output ".sqlite".toList || endsWith output ".sql".toList then .sqlite (PPath.parse output)
  else .nothing

def collectPlan (a : CollectArgs) (w : World) : Outcome CollectPlan :=
  let d := PPath.parse a.directory
  if !w.isDir d then .exit .noDirectory
  else .run {
    directory := d, ignoreTimestamps := a.noTimestamp, cleanup := a.cleanup, skip := a.skip,
    glob := a.glob, printPerformances := a.log, taxonomy := taxonomyFor w d a.taxonomy,
    out := collectOut d a.output }

/-! ### `paroxython recommend` -/

structure RecArgs where
  dbPath : Str
  base : Str
  cost : Str
  output : Str
  pipe : Str
  format : Str
  deriving Repr

inductive Pipe where
  | file (p : PPath)
  | empty
  deriving DecidableEq, Repr

inductive RecOut where
  | stdout
  | file (p : PPath)
  deriving DecidableEq, Repr

structure RecPlan where
  db : PPath
  /-- "Using database …" is printed (DB_PATH was a directory) -/
  announcedDb : Bool
  pfx : Str
  pipe : Pipe
  base : PPath
  cost : Str
  titleFormat : Str
  out : RecOut
  /-- `sys.stdout` is redirected to `sys.stderr` from the very start in STDOUT mode: the
  "Using database / pipeline …" messages and the pipeline's own prints then go to stderr, and the
  standard output carries the program list only. -/
  messagesOnStderr : Bool
  deriving Repr

/-- The database a directory `d` stands for: `d_db.json` next to `d`. The loop of the code then tries
the suffix `-db`, but on the path it has just rebound: its second candidate is `d_db.json-db.json`
(and never `d-db.json`). Mirrored as written. -/
def dbLookup (w : World) (d : PPath) : Option PPath :=
  let c1 := d.parent.child (d.name ++ "_db.json".toList)
  let c2 := d.parent.child (c1.name ++ "-db.json".toList)
  if w.isFile c1 then some c1 else if w.isFile c2 then some c2 else none

/-- `regex.fullmatch(r"(.+[_-])db\.json", name)`: group 1, or `""`. -/
def prefixOf (name : Str) : Str :=
  let suffix := "db.json".toList
  if endsWith name suffix then
    let x := name.take (name.length - suffix.length)
    match x.getLast? with
    | some c =>
      if (c = '_' ∨ c = '-') ∧ 2 ≤ x.length ∧ !(x.dropLast.contains '\n') then x else []
    | none => []
  else []

def asciiUpper (c : Char) : Char := if 'a' ≤ c ∧ c ≤ 'z' then Char.ofNat (c.toNat - 32) else c
def asciiLower (c : Char) : Char := if 'A' ≤ c ∧ c ≤ 'Z' then Char.ofNat (c.toNat + 32) else c

/-- `s.rstrip("_-")` -/
def rstripSep : Str → Str
  | [] => []
  | c :: cs =>
    match rstripSep cs with
    | [] => if c = '_' ∨ c = '-' then [] else [c]
    | r :: rs => c :: r :: rs

/-- `str.format` restricted to `{{`, `}}` and `{identifier}` fields with lower-case identifiers.
`fuel` bounds the scan (the length of the template is enough). -/
def pyFormat (env : Str → Option Str) : (fuel : Nat) → Str → Except Str Str
  | 0, _ => .ok []
  | _ + 1, [] => .ok []
  | fuel + 1, '{' :: '{' :: rest => (pyFormat env fuel rest).map ('{' :: ·)
  | fuel + 1, '}' :: '}' :: rest => (pyFormat env fuel rest).map ('}' :: ·)
  | _ + 1, '}' :: _ => .error "ValueError".toList
  | fuel + 1, '{' :: rest =>
    let name := rest.takeWhile (· != '}')
    let after := rest.dropWhile (· != '}')
    match after with
    | [] => .error "ValueError".toList
    | _ :: rest' =>
      if name.all (fun c => 'a' ≤ c ∧ c ≤ 'z') && !name.isEmpty then
        match env name with
        | some v => (pyFormat env fuel rest').map (v ++ ·)
        | none => .error "KeyError".toList
      else .error "Unsupported".toList
  | fuel + 1, c :: rest => (pyFormat env fuel rest).map (c :: ·)

def vscodeFormat : Str := "[`{name}`](vscode://file/{absolute}/{prefix}/{path})".toList

def titleEnv (pfx : Str) (parent : PPath) (cwd : List Str) (key : Str) : Option Str :=
  if key = "name".toList then some "{name}".toList
  else if key = "path".toList then some "{path}".toList
  else if key = "prefix".toList then some (rstripSep pfx)
  else if key = "absolute".toList then some (parent.resolve cwd).render
  else if key = "relative".toList then some parent.render
  else none

def titleFormat (format pfx : Str) (parent : PPath) (cwd : List Str) : Except Str Str :=
  let f := if format.map asciiLower = "vscode".toList then vscodeFormat else format
  pyFormat (titleEnv pfx parent cwd) (f.length + 1) f

/-- DB_PATH itself when it is not a directory, else the database found by `dbLookup`. -/
def findDb (w : World) (given : PPath) : Option (PPath × Bool) :=
  if w.isDir given then (dbLookup w given).map (·, true) else some (given, false)

def pipePath (a : RecArgs) (pfx : Str) (parent : PPath) : PPath :=
  if a.pipe.isEmpty then parent.child (pfx ++ "pipe.py".toList) else PPath.parse a.pipe

def pipeFor (w : World) (a : RecArgs) (pfx : Str) (parent : PPath) : Except Exit Pipe :=
  let pp := pipePath a pfx parent
  if w.isFile pp then
    (if w.pipelineParses pp then .ok (.file pp) else .error .malformedPipeline)
  else if a.pipe = "[]".toList then .ok .empty
  else .error .noPipeline

def baseFor (a : RecArgs) (parent : PPath) : PPath :=
  if a.base.isEmpty then parent else PPath.parse a.base

def recOut (a : RecArgs) (pfx : Str) (parent : PPath) : RecOut :=
  if a.output.map asciiUpper = "STDOUT".toList then .stdout
  else if a.output.isEmpty then .file (parent.child (pfx ++ "recommendations.md".toList))
  else .file (PPath.parse a.output)

def recommendPlan (a : RecArgs) (w : World) : Outcome RecPlan :=
  let given := PPath.parse a.dbPath
  if !w.exists given then .exit .noDbPath
  else
    let parent := given.parent
    match findDb w given with
    | none => .exit .noDatabase
    | some (db, announced) =>
      let pfx := prefixOf db.name
      match pipeFor w a pfx parent with
      | .error e => .exit e
      | .ok pipe =>
        match titleFormat a.format pfx parent w.cwd with
        | .error exc => .raises exc
        | .ok tf =>
          .run {
            db := db, announcedDb := announced, pfx := pfx, pipe := pipe,
            base := baseFor a parent, cost := a.cost, titleFormat := tf,
            out := recOut a pfx parent,
            messagesOnStderr := a.output.map asciiUpper = "STDOUT".toList }

/-! ### `paroxython tag` -/

structure TagArgs where
  filename : Str
  format : Str
  taxonomy : Str
  labels : Bool
  deriving Repr

/-- Arguments of `cli_tag.main`. -/
structure TagPlan where
  file : PPath
  labelsNotTaxa : Bool
  relativePath : PPath
  /-- `output_format`: anything but `"md"` gives tab-separated values -/
  markdown : Bool
  taxonomy : Option PPath
  deriving Repr

def tagPlan (a : TagArgs) (w : World) : Outcome TagPlan :=
  let f := PPath.parse a.filename
  if !w.readable f then .exit .unreadable
  else .run {
    file := f, labelsNotTaxa := a.labels, relativePath := f.parent,
    markdown := a.format = "md".toList,
    taxonomy := if !a.taxonomy.isEmpty then some (PPath.parse a.taxonomy) else none }

/-! ### `list_programs`: which files are listed, in which order -/

/-- Comparison key of a path: `pathlib` compares the lists of parts; with NUL (which no file name
contains) as separator this is the code-point order of the joined string. -/
def pathKey (p : PPath) : List Nat :=
  (if p.abs then [0] else []) ++ ((p.parts.map fun s => s.map Char.toNat).intersperse [0]).flatten

def lexLe : List Nat → List Nat → Bool
  | [], _ => true
  | _ :: _, [] => false
  | a :: as, b :: bs => a < b || (a == b && lexLe as bs)

def pathLe (p q : PPath) : Bool := lexLe (pathKey p) (pathKey q)

/-- `glob_pattern or "**/*.py"`, `skip_pattern or r"(__init__|setup|.*[-_]tests?)\.py"` -/
def defaultGlob : Str := "**/*.py".toList
def defaultSkip : Str := "(__init__|setup|.*[-_]tests?)\\.py".toList
def effectivePattern (given dflt : Str) : Str := if given.isEmpty then dflt else given

/-- `sorted(directory.glob(pattern))` filtered by `not fullmatch(skip, path.name)`; the glob result
and the regex answers are oracle parameters. -/
def selectPrograms (globbed : List PPath) (skips : Str → Bool) : List PPath :=
  (globbed.mergeSort pathLe).filter fun p => !skips p.name

/-- The default skip pattern, structurally (R3): `__init__.py`, `setup.py`, or anything ending in
`-test.py`, `_test.py`, `-tests.py`, `_tests.py` (no newline before). -/
def defaultSkips (name : Str) : Bool :=
  name == "__init__.py".toList || name == "setup.py".toList ||
    ((endsWith name "-test.py".toList || endsWith name "_test.py".toList ||
        endsWith name "-tests.py".toList || endsWith name "_tests.py".toList) && !name.contains '\n')

end Paroxy.Cli
