/-
Model of the operations of Python's `collections.Counter` used by `paroxython/map_taxonomy.py`.

A `Bag σ` is the association list of a Python dict `{key: int}` in insertion order. `count` is
`Counter.__getitem__` (a missing key counts 0 and is *not* inserted); `set` is `d[k] = v` (the value
of an existing key is replaced in place, a new key goes to the end). The three operations used by
`deduplicated_taxa` are transcribed loop by loop from CPython 3.12's `collections/__init__.py`:

* `Counter.__sub__`   (`a - b`): keeps the positive differences only, **and** its second loop turns
  negative counts of the right operand, on keys absent from the left one, into positive counts;
* `Counter.subtract`  (`a.subtract(b)`): plain integer subtraction, keeps zero and negative counts;
* `a += Counter()`    (`__iadd__` + `_keep_positive`): drops every entry whose count is not positive.

`Counter.update(iterable)` (used by `Taxonomy.to_taxa`) adds one per element.
Core Lean only: this file is linked into the native driver.
-/
namespace Paroxy

abbrev Bag (σ : Type) := List (σ × Int)

namespace Bag
variable {σ : Type} [DecidableEq σ]

/-- `b[s]` for a Counter: the count of `s`, 0 for a missing key. -/
def count : Bag σ → σ → Int
  | [], _ => 0
  | (k, v) :: t, s => if k = s then v else count t s

/-- `s in b` (key membership, whatever the count). -/
def hasKey : Bag σ → σ → Bool
  | [], _ => false
  | (k, _) :: t, s => if k = s then true else hasKey t s

/-- `b[s] = v`. -/
def set : Bag σ → σ → Int → Bag σ
  | [], s, v => [(s, v)]
  | (k, w) :: t, s, v => if k = s then (k, v) :: t else (k, w) :: set t s v

/-- The keys of a dict are pairwise distinct. -/
def WF (b : Bag σ) : Prop := (b.map Prod.fst).Nodup

/-- First loop of `Counter.__sub__`:
`for elem, count in self.items(): newcount = count - other[elem]; if newcount > 0: result[elem] = newcount`. -/
def subLoop1 (other : Bag σ) (result : Bag σ) (selfItems : Bag σ) : Bag σ :=
  selfItems.foldl (fun res e =>
    let newcount := e.2 - count other e.1
    if 0 < newcount then set res e.1 newcount else res) result

/-- Second loop of `Counter.__sub__`:
`for elem, count in other.items(): if elem not in self and count < 0: result[elem] = 0 - count`. -/
def subLoop2 (self : Bag σ) (result : Bag σ) (otherItems : Bag σ) : Bag σ :=
  otherItems.foldl (fun res e =>
    if !hasKey self e.1 && decide (e.2 < 0) then set res e.1 (0 - e.2) else res) result

/-- `a - b` on Counters. -/
def sub (a b : Bag σ) : Bag σ := subLoop2 a (subLoop1 b [] a) b

/-- `a.subtract(b)` (returns the mutated `a`):
`for elem, count in b.items(): a[elem] = a.get(elem, 0) - count`. -/
def subtract (a b : Bag σ) : Bag σ :=
  b.foldl (fun acc e => set acc e.1 (count acc e.1 - e.2)) a

/-- `a += Counter()`: `_keep_positive` deletes the entries whose count is not `> 0`. -/
def keepPositive (a : Bag σ) : Bag σ := a.filter fun e => decide (0 < e.2)

/-- `a.update(iterable)`: `a[elem] = a.get(elem, 0) + 1` for each element. -/
def updateList (a : Bag σ) (l : List σ) : Bag σ :=
  l.foldl (fun acc s => set acc s (count acc s + 1)) a

/-- Build a well-formed bag from arbitrary (key, value) pairs, as `dict(pairs)` would. -/
def ofPairs (l : List (σ × Int)) : Bag σ := l.foldl (fun acc e => set acc e.1 e.2) []

end Bag
end Paroxy
