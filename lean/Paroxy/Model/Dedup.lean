/-
Model of `paroxython/map_taxonomy.py: deduplicated_taxa` and of the POSIX `os.path.commonpath` it
calls (CPython 3.12 `posixpath.commonpath`, transcribed for two `str` arguments).

Names are `List Char` (Python `str` order = code-point lexicographic = Lean's order on `List Char`).
Spans are an arbitrary type `σ` with decidable equality: the code never looks inside a span.

The Python function mutates the Counters of the input list in place while scanning it; the model is
the same computation on a zipper: `doneRev` is `reversed(taxa[:i])` with the current (mutated)
bags, `todo` is `taxa[i:]` whose bags are still untouched.
Core Lean only: this file is linked into the native driver.
-/
import Paroxy.Model.Bag
namespace Paroxy.Dedup
open Paroxy

abbrev Name := List Char

inductive Err | valueError
  deriving DecidableEq, Repr

section Generic
variable {α : Type} [DecidableEq α]

/-- `s.split(sep)` for a one-character separator: never empty, `"".split("/") = [""]`. -/
def splitOn (sep : α) : List α → List (List α)
  | [] => [[]]
  | c :: t =>
    if c = sep then [] :: splitOn sep t
    else match splitOn sep t with
      | h :: r => (c :: h) :: r
      | [] => [[c]]

/-- `sep.join(parts)`. -/
def join (sep : α) : List (List α) → List α
  | [] => []
  | [a] => a
  | a :: b :: rest => a ++ sep :: join sep (b :: rest)

/-- The loop `common = s1; for i, c in enumerate(s1): if c != s2[i]: common = s1[:i]; break`
(`s1 = min`, `s2 = max`, so `s2[i]` exists whenever the loop reaches `i`). -/
def lcp : List α → List α → List α
  | a :: s, b :: t => if a = b then a :: lcp s t else []
  | _, _ => []

end Generic

/-- `[c for c in path.split('/') if c and c != '.']`. -/
def segments (a : Name) : List Name :=
  (splitOn '/' a).filter fun c => !(c == []) && !(c == ['.'])

def isAbs (a : Name) : Bool := a.head? == some '/'

/-- `posixpath.commonpath((a, b))`. -/
def commonpath (a b : Name) : Except Err Name :=
  if isAbs a != isAbs b then .error .valueError   -- "Can't mix absolute and relative paths"
  else
    let sa := segments a
    let sb := segments b
    let s1 := if sb < sa then sb else sa           -- min(split_paths)
    let s2 := if sa < sb then sb else sa           -- max(split_paths)
    let common := lcp s1 s2
    .ok ((if isAbs a then ['/'] else []) ++ join '/' common)

/-- The two tests of the inner loop of `deduplicated_taxa`:
`if not common_prefix: continue` / `if previous_name == common_prefix: <subtract>`.
`true` = the subtraction is performed. -/
def actE (name prev : Name) : Except Err Bool :=
  match commonpath name prev with
  | .error e => .error e
  | .ok cp => .ok (!(cp == []) && prev == cp)

section Loops
variable {ν σ ε : Type} [DecidableEq σ]

/-- Inner loop: `for (previous_name, previous_spans) in reversed(taxa[:i])`. Returns
`reversed(taxa[:i])` with the bags mutated by `previous_spans.subtract(spans)`; `cur` is the local
variable `spans` (rebound to `difference`, never written back). -/
def innerE (act : ν → ν → Except ε Bool) (name : ν) :
    List (ν × Bag σ) → Bag σ → Except ε (List (ν × Bag σ))
  | [], _ => .ok []
  | (p, b) :: rest, cur =>
    match act name p with
    | .error e => .error e
    | .ok true =>
      match innerE act name rest (Bag.sub cur b) with
      | .error e => .error e
      | .ok r => .ok ((p, Bag.subtract b cur) :: r)
    | .ok false =>
      match innerE act name rest cur with
      | .error e => .error e
      | .ok r => .ok ((p, b) :: r)

/-- Outer loop: `for (i, (name, spans)) in enumerate(taxa[1:], 1)`. (Starting the zipper at `i = 0`
is the same: the inner loop over the empty `taxa[:0]` does nothing.) -/
def outerE (act : ν → ν → Except ε Bool) :
    List (ν × Bag σ) → List (ν × Bag σ) → Except ε (List (ν × Bag σ))
  | doneRev, [] => .ok doneRev.reverse
  | doneRev, (n, b) :: todo =>
    match innerE act n doneRev b with
    | .error e => .error e
    | .ok d => outerE act ((n, b) :: d) todo

/-- The same loops when the test cannot raise. -/
def inner (act : ν → ν → Bool) (name : ν) : List (ν × Bag σ) → Bag σ → List (ν × Bag σ)
  | [], _ => []
  | (p, b) :: rest, cur =>
    if act name p then (p, Bag.subtract b cur) :: inner act name rest (Bag.sub cur b)
    else (p, b) :: inner act name rest cur

def outer (act : ν → ν → Bool) : List (ν × Bag σ) → List (ν × Bag σ) → List (ν × Bag σ)
  | doneRev, [] => doneRev.reverse
  | doneRev, (n, b) :: todo => outer act ((n, b) :: inner act n doneRev b) todo

/-- Final loop: `spans += Counter()`; `if spans: result.append(Taxon(name, spans))`. -/
def finalize (taxa : List (ν × Bag σ)) : List (ν × Bag σ) :=
  taxa.filterMap fun e =>
    let b := Bag.keepPositive e.2
    if b.isEmpty then none else some (e.1, b)

/-- `deduplicated_taxa` with an abstract test. -/
def dedupE (act : ν → ν → Except ε Bool) (taxa : List (ν × Bag σ)) : Except ε (List (ν × Bag σ)) :=
  if taxa.length < 2 then .ok taxa        -- `if len(taxa) < 2: return taxa` (no filtering!)
  else match outerE act [] taxa with
    | .error e => .error e
    | .ok r => .ok (finalize r)

def dedup (act : ν → ν → Bool) (taxa : List (ν × Bag σ)) : List (ν × Bag σ) :=
  if taxa.length < 2 then taxa else finalize (outer act [] taxa)

end Loops

/-- **The model of `deduplicated_taxa`.** -/
def deduplicatedTaxa {σ : Type} [DecidableEq σ] (taxa : List (Name × Bag σ)) :
    Except Err (List (Name × Bag σ)) :=
  dedupE actE taxa

end Paroxy.Dedup
