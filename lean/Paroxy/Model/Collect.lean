/-
C14 — exception-flow skeleton of `list_programs` → `labelled_programs` → `TagDatabase.__init__`
(`collect`) and of `cli_tag.main` (`tag`), AS WRITTEN NOW in /repo. Core Lean only.

The externals are parameters returning `Except`. Only `clean` is genuinely adversarial in the theorems
(it may do anything). For `parse` and `features` the theorems ASSUME, as explicit hypotheses, exactly what
the code relies on (`ParseCaught`: `ast.parse` raises only instances of the two classes that are caught;
`FeaturesTotal`: the feature search does not raise — DESIGN finding 17 was a failure of it); with these
hypotheses "every file is reported" is the bookkeeping of the flow, not a statement about CPython:
  * `clean`    : `Cleanup.full_cleaning` for `--cleanup full` (regex passes + `tokenize.generate_tokens`),
                 the identity for `none` — since fix c7d362e wrapped in `safe_full_cleaning`, whose
                 catch-all handler returns the raw text;
  * `prepare`  : `get_program`'s hint handling on a hint-free text (total by the property's quantifier);
  * `parse`    : `ast.parse` — called by `ProgramParser.__call__` inside
                 `try … except (SyntaxError, ValueError, RecursionError)`;
  * `flatten`  : `flatten_ast` — since fix d1e6a10 inside the same guarded block (non-empty trees only);
  * `isEmpty`  : `not tree.body`;
  * `features` : the rest of `ProgramParser.__call__` (regex features, SQL derivations).
The importation closure and the database assembly are the C11 model (`Paroxy.DB.makeDb`).
-/
import Paroxy.Model.MakeDb
namespace Paroxy.Collect
open Paroxy Paroxy.DB

/-- A Python exception, as far as the flow distinguishes: its class name and whether it is an
instance of `SyntaxError`, `ValueError` or `RecursionError` (what `ProgramParser.__call__` catches). -/
structure Exc where
  name : Name
  caught : Bool
  deriving DecidableEq, Repr, Inhabited

structure Ext (Tree : Type) where
  clean : Name → Except Exc Name
  prepare : Name → Name
  parse : Name → Except Exc Tree
  isEmpty : Tree → Bool
  /-- `flatten_ast(tree)` (fix d1e6a10: called inside the guarded block, for non-empty trees only): may
  raise on a VALID program — `ValueError` (an integer literal too long for `str`), `RecursionError` (a
  tree too deep for the recursive traversal) -/
  flatten : Name → Tree → Except Exc Unit
  features : Name → Tree → Except Exc (List Label)

def sAst : Name := [97, 115, 116, 95, 99, 111, 110, 115, 116, 114, 117, 99, 116, 105, 111, 110, 58] -- "ast_construction:"
def sEmpty : Name :=
  [69, 109, 112, 116, 121, 80, 114, 111, 103, 114, 97, 109, 69, 114, 114, 111, 114] -- "EmptyProgramError"
def sKeyError : Name := [75, 101, 121, 69, 114, 114, 111, 114] -- "KeyError"

/-- `Label(f"ast_construction:{type(exception).__name__}", [Span(1, source.count("\n") + 1)])` -/
def astLabel (errName : Name) (src : Name) : Label :=
  { name := sAst ++ errName, spans := [(1, ((src.count 10 : Nat) : Int) + 1, [])] }

/-- `Label("ast_construction:EmptyProgramError", [Span(1, source.count("\n") + 1)])` (fix 57ac228: the
empty-program error spans the stored listing like the other construction errors). -/
def emptyLabel (src : Name) : Label := astLabel sEmpty src

/-- `ProgramParser.__call__(program)` on the stored source. -/
def parseProgram {Tree : Type} (X : Ext Tree) (src : Name) : Except Exc (List Label) :=
  match X.parse src with
  | .error e => if e.caught then .ok [astLabel e.name src] else .error e
  | .ok t =>
    if X.isEmpty t then .ok [emptyLabel src]
    else
      match X.flatten src t with
      | .error e => if e.caught then .ok [astLabel e.name src] else .error e
      | .ok _ => X.features src t

/-- `Cleanup("full").run = Cleanup.safe_full_cleaning` (fixes c7d362e and F48): the text is first parsed;
a text that is NOT a valid program is left as it is (cleaning must not repair it: the parser will report
the error under both strategies), and ANY exception of the cleaning of a valid one falls back to the
uncleaned text as well. (For `--cleanup none`, `clean` is the identity and both branches give the raw text.) -/
def safeClean {Tree : Type} (X : Ext Tree) (raw : Name) : Name :=
  match X.parse raw with
  | .error _ => raw
  | .ok _ =>
    match X.clean raw with
    | .ok s => s
    | .error _ => raw

/-- `list_programs`: every file is cleaned (never raises any more) then turned into a `Program`.
Input: (relative path, raw text) in sorted order. -/
def cleanAll {Tree : Type} (X : Ext Tree) (files : List (Name × Name)) : List (Name × Name) :=
  files.map fun f => (f.1, X.prepare (safeClean X f.2))

/-- The labelling loop of `labelled_programs` (before the relabelling, which is in `makeDb`). -/
def parseAll {Tree : Type} (X : Ext Tree) : List (Name × Name) → Except Exc (List Prog)
  | [] => .ok []
  | (p, src) :: t =>
    match parseProgram X src with
    | .error e => .error e
    | .ok ls =>
      match parseAll X t with
      | .error e => .error e
      | .ok r => .ok ({ path := p, timestamp := [], source := src, labels := ls } :: r)

/-- `TagDatabase(directory)`. -/
def collect {Tree : Type} (X : Ext Tree) (toTaxa : Name → List Label → List Taxon)
    (files : List (Name × Name)) : Except Exc Db :=
  match parseAll X (cleanAll X files) with
  | .error e => .error e
  | .ok progs =>
    match makeDb toTaxa progs with
    | .error (.keyError _) => .error { name := sKeyError, caught := false }
    | .ok db => .ok db

/-- `cli_tag.main(source)`: no cleaning at all; labels and their translation. -/
def tagMain {Tree : Type} (X : Ext Tree) (toTaxa : Name → List Label → List Taxon) (src : Name) :
    Except Exc (List Label × List Taxon) :=
  match parseProgram X (X.prepare src) with
  | .error e => .error e
  | .ok ls => .ok (ls, toTaxa [] ls)

end Paroxy.Collect
