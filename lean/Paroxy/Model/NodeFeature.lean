/-
Model of the `node` feature of `spec.md` as searched by `ProgramParser.__call__`
(`finditer(flat_ast, overlapped=True)`), and of `get_bindings` / `pos_to_span` (C01, C02).

```
(?mx)      ^(.*)/_type=(?P<SUFFIX>.+)
\n(?:\1.+\n)*?\1/(\w+/)?_pos=(?P<POS>.+)
(
\n(?:\1.+\n)* \1/[^=]+/_pos=(?P<POS>.+)
)?
```

Hand transcription on lists of lines (R2 of DESIGN §3). Because of `^` (multi-line mode) a match
starts at the beginning of a line; with `overlapped=True` every line start is tried and yields at most
one match (the first one in backtracking order):

* `(.*)` is greedy: the candidates for group 1 are tried from the **last** occurrence of `/_type=` in
  the line to the first; `SUFFIX` is the rest of the line (non-empty);
* `(?:\1.+\n)*?` is lazy: lines that *string*-start with group 1 (and are longer) are skipped until the
  first line of the form `\1/_pos=…` or `\1/<word>/_pos=…` (first `POS` = rest of that line); meeting a
  line that does not start with group 1 first makes this candidate fail;
* the optional last group is greedy: among the maximal run of following lines that string-start with
  group 1, the **last** one from which `\1/[^=]+/_pos=.+` matches gives the second `POS`. `[^=]` also
  matches a newline, so the key may run over following lines as long as no `=` is met: the first `=`
  after `\1/` must be the one of `/_pos=`.

Core Lean only.
-/
import Paroxy.Model.FlatAst
namespace Paroxy.Flat

/-- All ways of writing `l = g ++ "/_type=" ++ s` with `s ≠ []`, as `(g, s)`, shortest `g` first.
`acc` is the reversed text already passed. -/
def typeSplitsAux : Str → Str → List (Str × Str)
  | _, [] => []
  | acc, c :: t =>
    let here :=
      if (cs!"/_type=").isPrefixOf (c :: t) && (cs!"/_type=").length < (c :: t).length
      then [(acc.reverse, (c :: t).drop (cs!"/_type=").length)] else []
    here ++ typeSplitsAux (c :: acc) t

/-- Candidates for (group 1, SUFFIX) in backtracking order: longest group 1 first. -/
def typeSplits (l : Str) : List (Str × Str) := (typeSplitsAux [] l).reverse

/-- `\w+` -/
def allWord (s : Str) : Bool := !s.isEmpty && s.all isWordC

/-- `\1/(\w+/)?_pos=(?P<POS>.+)` on one line: the captured POS. -/
def firstPos? (g : Str) (l : Str) : Option Str :=
  if (g ++ ['/']).isPrefixOf l then
    let r := l.drop (g.length + 1)
    -- with the optional group: `\w+/_pos=`
    let w := r.takeWhile isWordC
    let r' := r.drop w.length
    if !w.isEmpty && (cs!"/_pos=").isPrefixOf r' && (cs!"/_pos=").length < r'.length then
      some (r'.drop (cs!"/_pos=").length)
    else if (cs!"_pos=").isPrefixOf r && (cs!"_pos=").length < r.length then
      some (r.drop (cs!"_pos=").length)
    else none
  else none

/-- Lazy skip: the first POS and the lines that follow its line. -/
def findFirstPos (g : Str) : List Str → Option (Str × List Str)
  | [] => none
  | l :: rest =>
    match firstPos? g l with
    | some p => some (p, rest)
    | none => if startsWithMore g l then findFirstPos g rest else none

/-- Join lines with newlines (no trailing newline). -/
def joinLines : List Str → Str
  | [] => []
  | [l] => l
  | l :: rest => l ++ '\n' :: joinLines rest

/-- `\1/[^=]+/_pos=(?P<POS>.+)` starting at line `l` (followed by `rest`): the first `=` after `\1/`
must close `/_pos`, after a non-empty key; POS = what follows up to the end of that line. -/
def lastPos? (g : Str) (l : Str) (rest : List Str) : Option Str :=
  if (g ++ ['/']).isPrefixOf l then
    let t := joinLines (l.drop (g.length + 1) :: rest)
    let key := t.takeWhile (· != '=')
    let after := t.drop key.length
    match after with
    | '=' :: v =>
      let p := v.takeWhile (· != '\n')
      if (cs!"/_pos").isSuffixOf key && (cs!"/_pos").length < key.length && !p.isEmpty then some p else none
    | _ => none
  else none

/-- Greedy skip: the last line of the maximal run of lines string-starting with `g` from which
`lastPos?` succeeds. -/
def findLastPos (g : Str) : List Str → Option Str
  | [] => none
  | l :: rest =>
    if startsWithMore g l then
      match findLastPos g rest with
      | some p => some p
      | none => lastPos? g l rest
    else none

/-- The match attempted with a given (group 1, SUFFIX) on the lines that follow. -/
def nodeTry (g s : Str) (following : List Str) : Option (Str × List Str) :=
  match findFirstPos g following with
  | none => none
  | some (p1, rest) =>
    match findLastPos g rest with
    | some p2 => some (s, [p1, p2])
    | none => some (s, [p1])

def firstSome {α β : Type} (f : α → Option β) : List α → Option β
  | [] => none
  | a :: as => match f a with
    | some b => some b
    | none => firstSome f as

/-- The match starting at the first line of `ls`, if any: `(SUFFIX, captures of POS)`. -/
def nodeMatchAt : List Str → Option (Str × List Str)
  | [] => none
  | l :: following => firstSome (fun gs => nodeTry gs.1 gs.2 following) (typeSplits l)

/-- `finditer(flat_ast, overlapped=True)` for the `node` feature: one attempt per line start. -/
def nodeMatches : List Str → List (Str × List Str)
  | [] => []
  | l :: rest =>
    (match nodeMatchAt (l :: rest) with
      | some m => [m]
      | none => []) ++ nodeMatches rest

/-! ## `pos_to_span`, `get_bindings` -/

structure SpanP where
  start : Nat
  stop : Nat
  path : Str
  deriving DecidableEq, Repr

/-- Python `str.split(":")`. -/
def splitColon : Str → List Str
  | [] => [[]]
  | c :: t =>
    match splitColon t with
    | [] => [[]]  -- unreachable
    | x :: xs => if c == ':' then [] :: x :: xs else (c :: x) :: xs

/-- `int(s)` on the model alphabet: a non-empty string of ASCII digits. -/
def parseNat? (s : Str) : Option Nat :=
  if !s.isEmpty && s.all isDigitC then some (s.foldl (fun a c => 10 * a + (c.toNat - 48)) 0) else none

/-- `(start, path) = pos.split(":")` then `int(start)`; `none` = `ValueError`. -/
def parsePos? (p : Str) : Option (Nat × Str) :=
  match splitColon p with
  | [a, b] => (parseNat? a).map (·, b)
  | _ => none

/-- `pos_to_span`: the line numbers of the first and of the last position, **sorted** (fix 44b0b15: the last
captured position follows the first one in the flat AST, not necessarily in the source), and the path of the
first position; `none` = `ValueError`. -/
def posToSpan? (pos : List Str) : Option SpanP :=
  match pos.head?, pos.getLast? with
  | some a, some z =>
    match parsePos? a, parsePos? z with
    | some (s, path), some (e, _) => some ⟨min s e, max s e, path⟩
    | _, _ => none
  | _, _ => none

/-- `get_bindings(label_prefix, captures)` for captures with exactly one SUFFIX (the `node` feature):
the label name and its span; `none` = `ValueError`. -/
def nodeBinding? (m : Str × List Str) : Option (Str × SpanP) :=
  match m.2 with
  | [p] => (posToSpan? [p]).map (cs!"node:" ++ m.1, ·)  -- as many POS as SUFFIX: bound pairwise
  | ps => (posToSpan? ps).map (cs!"node:" ++ m.1, ·)

/-- All `node:` bindings of a flat AST, in match order; `none` as soon as one `pos_to_span` raises. -/
def nodeBindings? (ls : List Str) : Option (List (Str × SpanP)) :=
  (nodeMatches ls).mapM nodeBinding?

end Paroxy.Flat
