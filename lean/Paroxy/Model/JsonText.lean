/-!
# The JSON text layer of `TagDatabase.get_json` (paroxython/make_db.py)

```python
text = json.dumps(data, indent=2) + "\n"
text = regex.sub(r"\s*\[\n\s*(\d+),\n\s*(\d+)\n\s*\](,?)\s+", r"[\1,\2]\3", text)
```

Texts are lists of code points (`Str = List Nat`), as everywhere in the framework.

* `J` — the JSON values the database is made of (objects as association lists in insertion order,
  arrays, strings, natural numbers: time stamps and sources are strings, spans are pairs of line numbers,
  `labels`/`taxa`/`importations`/`exportations` map names to lists of paths; no `null`, booleans or floats).
* `dumps2 v` — `json.dumps(v, indent=2)` with the default `ensure_ascii=True`.
* `compact t` — the `regex.sub` above, as a scanner (correspondence documented at `matchAt`).
* `loads t` — a two-stage JSON parser (`lex` then `pVal`) for the grammar of these values.
* `getJsonText v = compact (dumps2 v ++ "\n")`.
-/

namespace Paroxy.JsonText

abbrev Str := List Nat

inductive J where
  | num (n : Nat)
  | str (s : Str)
  | arr (l : List J)
  | obj (l : List (Str × J))
  deriving Repr, Inhabited

/-! ## `json.dumps(·, indent=2)` -/

/-- lower-case hexadecimal digit (the encoder uses `'\\u{0:04x}'`). -/
def hexDigit (n : Nat) : Nat := if n % 16 < 10 then 48 + n % 16 else 87 + n % 16

/-- `\uXXXX` for a 16-bit unit. -/
def uEsc (u : Nat) : Str := [92, 117, hexDigit (u / 4096), hexDigit (u / 256), hexDigit (u / 16), hexDigit u]

/-- One character through `ESCAPE_ASCII = ([\\"]|[^\ -~])` / `ESCAPE_DCT` of json.encoder
(`py_encode_basestring_ascii`; the C accelerator gives the same text). -/
def escChar (c : Nat) : Str :=
  if c = 34 then [92, 34]
  else if c = 92 then [92, 92]
  else if c = 10 then [92, 110]
  else if c = 13 then [92, 114]
  else if c = 9 then [92, 116]
  else if c = 8 then [92, 98]
  else if c = 12 then [92, 102]
  else if 32 ≤ c ∧ c ≤ 126 then [c]
  else if c < 65536 then uEsc c
  else uEsc (55296 + ((c - 65536) / 1024) % 1024) ++ uEsc (56320 + (c - 65536) % 1024)

def escStr : Str → Str
  | [] => []
  | c :: s => escChar c ++ escStr s

/-- a JSON string literal. -/
def quote (s : Str) : Str := 34 :: (escStr s ++ [34])

def natDigits (n : Nat) : Str := (Nat.toDigits 10 n).map Char.toNat

/-- newline followed by the indentation of the level. -/
def nl (ind : Nat) : Str := 10 :: List.replicate ind 32

mutual
/-- `ind` is the indentation of the line on which the value starts. -/
def dumpsV (ind : Nat) : J → Str
  | .num n => natDigits n
  | .str s => quote s
  | .arr [] => [91, 93]
  | .arr (x :: xs) => 91 :: (dumpsItems (ind + 2) (x :: xs) ++ nl ind ++ [93])
  | .obj [] => [123, 125]
  | .obj (kv :: kvs) => 123 :: (dumpsMembers (ind + 2) (kv :: kvs) ++ nl ind ++ [125])
def dumpsItems (ind : Nat) : List J → Str
  | [] => []
  | [x] => nl ind ++ dumpsV ind x
  | x :: y :: xs => nl ind ++ dumpsV ind x ++ 44 :: dumpsItems ind (y :: xs)
def dumpsMembers (ind : Nat) : List (Str × J) → Str
  | [] => []
  | [(k, v)] => nl ind ++ quote k ++ 58 :: 32 :: dumpsV ind v
  | (k, v) :: kv :: kvs => nl ind ++ quote k ++ 58 :: 32 :: dumpsV ind v ++ 44 :: dumpsMembers ind (kv :: kvs)
end

def dumps2 (v : J) : Str := dumpsV 0 v

/-! ## The compaction regex

`\s*\[\n\s*(\d+),\n\s*(\d+)\n\s*\](,?)\s+`  →  `[\1,\2]\3`

Every quantifier of the pattern is followed by an atom that cannot match what the quantifier matches
(`\s*` by `[`, a digit or `]`; `\d+` by `,` or `\n`; `,?` by `\s`), and the last `\s+` ends the pattern. So
backtracking never finds a match that the greedy run misses: at a given start position there is at most one way
to match, the one taking every run maximally. `matchAt t` is that unique attempt at the head of `t`; it returns the
replacement text and the remaining text. `regex.sub` scans left to right, replaces the leftmost match and resumes
after it (the pattern has no empty match): `compact`.

`isWs` is `\s` of the `regex` module for a `str` pattern (the Unicode White_Space property: U+001C–U+001F are NOT in
it, unlike `str.isspace` — found by the `compact-texts` stream); `isDigit` is `\d`
restricted to ASCII — the texts `get_json` applies it to are pure ASCII (`ensure_ascii=True`,
`Proofs/JsonText.lean: dumps_ascii`), the correspondence stream of the harness keeps to texts whose only decimal
digits are ASCII.
-/

def wsList : List Nat :=
  [9, 10, 11, 12, 13, 32, 133, 160, 5760, 8192, 8193, 8194, 8195, 8196, 8197, 8198, 8199, 8200,
   8201, 8202, 8232, 8233, 8239, 8287, 12288]

def isWs (c : Nat) : Bool := wsList.contains c
def isDigit (c : Nat) : Bool := 48 ≤ c && c ≤ 57

def skipWs : Str → Str
  | [] => []
  | c :: t => if isWs c then skipWs t else c :: t

/-- `(maximal run of digits, rest)`. -/
def spanDigits : Str → Str × Str
  | [] => ([], [])
  | c :: t => if isDigit c then (c :: (spanDigits t).1, (spanDigits t).2) else ([], c :: t)

/-- `(,?)`. -/
def optComma : Str → Str × Str
  | 44 :: t => ([44], t)
  | t => ([], t)

/-- The unique match attempt of the pattern at the head of the text: `some (replacement, rest)`. -/
def matchAt (t : Str) : Option (Str × Str) :=
  match skipWs t with                                   -- \s*
  | 91 :: 10 :: t2 =>                                   -- \[\n
    let d1 := spanDigits (skipWs t2)                    -- \s*(\d+)
    if d1.1 = [] then none else
    match d1.2 with
    | 44 :: 10 :: t5 =>                                 -- ,\n
      let d2 := spanDigits (skipWs t5)                  -- \s*(\d+)
      if d2.1 = [] then none else
      match d2.2 with
      | 10 :: t8 =>                                     -- \n
        match skipWs t8 with                            -- \s*
        | 93 :: t10 =>                                  -- \]
          let cm := optComma t10                        -- (,?)
          match cm.2 with
          | w :: t12 =>                                 -- \s+
            if isWs w then some (91 :: (d1.1 ++ 44 :: (d2.1 ++ 93 :: cm.1)), skipWs t12) else none
          | [] => none
        | _ => none
      | _ => none
    | _ => none
  | _ => none

def compactF : Nat → Str → Str
  | 0, t => t
  | _, [] => []
  | n + 1, c :: t =>
    match matchAt (c :: t) with
    | some (r, rest) => r ++ compactF n rest
    | none => c :: compactF n t

/-- `regex.sub(pattern, r"[\1,\2]\3", t)` (the fuel is never exhausted: a match consumes at least one character,
`Proofs/JsonText.lean: matchAt_length`, `compactF_eq_compact`). -/
def compact (t : Str) : Str := compactF t.length t

/-- the text returned by `get_json()` for the data `v`. -/
def getJsonText (v : J) : Str := compact (dumps2 v ++ [10])

/-! ## `json.loads`, restricted to the grammar of `J`

Stage 1, `lex`: a one-character-at-a-time automaton producing tokens; a string token carries the raw text between
the quotes (escapes undecoded), a number token its digits. Raw control characters inside a string are rejected, as
`json.loads` does (`strict=True`). Outside strings the automaton skips the white space class of the regex (`isWs`), a
superset of JSON's four characters: on texts whose white space is ` `, `\t`, `\n`, `\r` — every output of `dumps2` —
this is `json.loads`; the superset makes `lex_skipWs` an unconditional equation.
Stage 2, `pVal`: recursive descent on tokens (fuel = number of tokens), strings decoded by `decode`
(`\uXXXX` with surrogate pairing exactly as `json.decoder.py_scanstring`). Leading zeros are rejected. Duplicate keys
are kept (Python keeps the last one; `dumps` of a dict never writes duplicates).
-/

inductive Tok where
  | lb | rb | lc | rc | comma | colon
  | num (ds : Str)
  | str (raw : Str)
  deriving Repr, DecidableEq, Inhabited

inductive St where
  | out
  | num (acc : Str)
  | str (acc : Str)
  | esc (acc : Str)
  deriving Repr, Inhabited

def escLetters : List Nat := [34, 92, 47, 98, 102, 110, 114, 116, 117]

def stepOut (c : Nat) : Option (St × List Tok) :=
  if isWs c then some (.out, [])
  else if c = 91 then some (.out, [.lb])
  else if c = 93 then some (.out, [.rb])
  else if c = 123 then some (.out, [.lc])
  else if c = 125 then some (.out, [.rc])
  else if c = 44 then some (.out, [.comma])
  else if c = 58 then some (.out, [.colon])
  else if c = 34 then some (.str [], [])
  else if isDigit c then some (.num [c], [])
  else none

def step : St → Nat → Option (St × List Tok)
  | .out, c => stepOut c
  | .num acc, c =>
    if isDigit c then some (.num (acc ++ [c]), [])
    else (stepOut c).map fun p => (p.1, Tok.num acc :: p.2)
  | .str acc, c =>
    if c = 34 then some (.out, [.str acc])
    else if c = 92 then some (.esc acc, [])
    else if c < 32 then none
    else some (.str (acc ++ [c]), [])
  | .esc acc, c => if escLetters.contains c then some (.str (acc ++ [92, c]), []) else none

def lex : St → Str → Option (List Tok)
  | .out, [] => some []
  | .num acc, [] => some [.num acc]
  | .str _, [] => none
  | .esc _, [] => none
  | st, c :: t =>
    match step st c with
    | none => none
    | some (st', emitted) => (lex st' t).map (emitted ++ ·)

def hexVal (c : Nat) : Option Nat :=
  if 48 ≤ c ∧ c ≤ 57 then some (c - 48)
  else if 97 ≤ c ∧ c ≤ 102 then some (c - 87)
  else if 65 ≤ c ∧ c ≤ 70 then some (c - 55)
  else none

def hex4 (a b c d : Nat) : Option Nat :=
  match hexVal a, hexVal b, hexVal c, hexVal d with
  | some a, some b, some c, some d => some (a * 4096 + b * 256 + c * 16 + d)
  | _, _, _, _ => none

def simpleEsc (c : Nat) : Option Nat :=
  if c = 34 then some 34 else if c = 92 then some 92 else if c = 47 then some 47
  else if c = 98 then some 8 else if c = 102 then some 12 else if c = 110 then some 10
  else if c = 114 then some 13 else if c = 116 then some 9 else none

/-- decoding of the raw content of a string literal (fuel: its length). -/
def decodeF : Nat → Str → Option Str
  | _, [] => some []
  | 0, _ => none
  | n + 1, 92 :: 117 :: a :: b :: c :: d :: rest =>
    match hex4 a b c d with
    | none => none
    | some u =>
      if 55296 ≤ u ∧ u ≤ 56319 then
        match rest with
        | 92 :: 117 :: e :: f :: g :: h :: rest' =>
          match hex4 e f g h with
          | none => none
          | some u2 =>
            if 56320 ≤ u2 ∧ u2 ≤ 57343 then
              (decodeF n rest').map ((65536 + (u - 55296) * 1024 + (u2 - 56320)) :: ·)
            else (decodeF n rest).map (u :: ·)
        | _ => (decodeF n rest).map (u :: ·)
      else (decodeF n rest).map (u :: ·)
  | n + 1, 92 :: c :: rest =>
    match simpleEsc c with
    | none => none
    | some x => (decodeF n rest).map (x :: ·)
  | _ + 1, [92] => none
  | n + 1, c :: rest => (decodeF n rest).map (c :: ·)

def decode (raw : Str) : Option Str := decodeF raw.length raw

def digitsVal : Str → Nat → Nat
  | [], acc => acc
  | c :: t, acc => digitsVal t (acc * 10 + (c - 48))

/-- `int(digits)`; JSON forbids leading zeros. -/
def numOf (ds : Str) : Option Nat :=
  match ds with
  | [] => none
  | 48 :: _ :: _ => none
  | _ => some (digitsVal ds 0)

mutual
def pVal : Nat → List Tok → Option (J × List Tok)
  | 0, _ => none
  | _ + 1, .num ds :: r => (numOf ds).map fun k => (.num k, r)
  | _ + 1, .str s :: r => (decode s).map fun x => (.str x, r)
  | _ + 1, .lb :: .rb :: r => some (.arr [], r)
  | n + 1, .lb :: r => (pItems n r).map fun p => (.arr p.1, p.2)
  | _ + 1, .lc :: .rc :: r => some (.obj [], r)
  | n + 1, .lc :: r => (pMembers n r).map fun p => (.obj p.1, p.2)
  | _ + 1, _ => none
def pItems : Nat → List Tok → Option (List J × List Tok)
  | 0, _ => none
  | n + 1, ts =>
    match pVal n ts with
    | some (v, .comma :: r) => (pItems n r).map fun p => (v :: p.1, p.2)
    | some (v, .rb :: r) => some ([v], r)
    | _ => none
def pMembers : Nat → List Tok → Option (List (Str × J) × List Tok)
  | 0, _ => none
  | n + 1, .str k :: .colon :: ts =>
    match decode k, pVal n ts with
    | some k, some (v, .comma :: r) => (pMembers n r).map fun p => ((k, v) :: p.1, p.2)
    | some k, some (v, .rc :: r) => some ([(k, v)], r)
    | _, _ => none
  | _ + 1, _ => none
end

def parseToks (ts : List Tok) : Option J :=
  match pVal (ts.length + 1) ts with
  | some (v, []) => some v
  | _ => none

def loads (t : Str) : Option J := (lex .out t).bind parseToks

/-! ## Executable equality and the hypothesis of the round trip -/

mutual
def J.beq : J → J → Bool
  | .num a, .num b => a == b
  | .str a, .str b => a == b
  | .arr a, .arr b => J.beqList a b
  | .obj a, .obj b => J.beqMembers a b
  | _, _ => false
def J.beqList : List J → List J → Bool
  | [], [] => true
  | x :: xs, y :: ys => J.beq x y && J.beqList xs ys
  | _, _ => false
def J.beqMembers : List (Str × J) → List (Str × J) → Bool
  | [], [] => true
  | (k, x) :: xs, (l, y) :: ys => k == l && J.beq x y && J.beqMembers xs ys
  | _, _ => false
end

/-- `json.loads(json.dumps(s)) == s` needs that no UTF-16 high surrogate code point is directly followed by a low
surrogate code point (two such `str` items come back as ONE astral character). Texts decoded from UTF-8 files
never contain any surrogate. -/
def strOk : Str → Bool
  | a :: b :: t => !(55296 ≤ a && a ≤ 56319 && 56320 ≤ b && b ≤ 57343) && a < 1114112 && strOk (b :: t)
  | [a] => a < 1114112
  | [] => true

mutual
def J.ok : J → Bool
  | .num _ => true
  | .str s => strOk s
  | .arr l => J.okList l
  | .obj l => J.okMembers l
def J.okList : List J → Bool
  | [] => true
  | x :: xs => J.ok x && J.okList xs
def J.okMembers : List (Str × J) → Bool
  | [] => true
  | (k, x) :: xs => strOk k && J.ok x && J.okMembers xs
end

/-- `loads t` is `v`, Bool-valued. -/
def loadsIs (t : Str) (v : J) : Bool :=
  match loads t with
  | some w => J.beq w v
  | none => false

end Paroxy.JsonText
