/-
Model of the `whole_span` feature of `spec.md` as searched by `ProgramParser.__call__` (C02).

```
(?mx) \A /_type=Module (\n.+?)+? _pos=(?P<POS>.+:).+
      ( (?:\n.+)+ _pos=(?P<POS>(?P<SUFFIX>\d+):.+) | )
```

Hand transcription on lists of lines (R2; validated against the real `regex` engine by the harness):

* `\A` : a match can only start at the beginning of the text, whose first line must be exactly
  `/_type=Module`;
* `(\n.+?)+?_pos=(?P<POS>.+:).+` : lazily, the first following line (all lines before it non-empty)
  with an occurrence of `_pos=` at an index ≥ 1 whose remainder `X` can be cut as `A ++ ":" ++ B`,
  `A`, `B` non-empty — the earliest such occurrence in the line; the first POS is `A ++ ":"` for the
  **last** such colon (greedy): the path is left out;
* first alternative, greedy: in the maximal run of non-empty lines that follows, the **last** line —
  and in it the **last** occurrence — of `_pos=<digits>:<at least one character>` at an index ≥ 1;
  second POS = `<digits>:…` up to the end of the line, SUFFIX = the digits;
* second alternative: nothing (no SUFFIX, one POS).

Core Lean only.
-/
import Paroxy.Model.NodeFeature
namespace Paroxy.Flat

/-- `(.+:).+` on `x`: the text up to and including the last colon that has something before and
something after. -/
def cutLastColon (x : Str) : Option Str :=
  -- indices i with x[i] = ':' , 1 ≤ i, i + 1 < length; take the largest
  let n := x.length
  let cands := (List.range n).filter fun i => x.getD i ' ' == ':' && 1 ≤ i && i + 1 < n
  match cands.getLast? with
  | some i => some (x.take (i + 1))
  | none => none

/-- First POS in one line: the earliest occurrence of `_pos=` at an index ≥ 1 whose remainder can be
cut. `seen` = number of characters already passed. -/
def firstWholePosFrom : Nat → Str → Option Str
  | _, [] => none
  | seen, c :: t =>
    if seen ≥ 1 && (cs!"_pos=").isPrefixOf (c :: t) then
      match cutLastColon ((c :: t).drop (cs!"_pos=").length) with
      | some p => some p
      | none => firstWholePosFrom (seen + 1) t
    else firstWholePosFrom (seen + 1) t

def firstWholePos? (l : Str) : Option Str := firstWholePosFrom 0 l

/-- `<digits>:<something>` : the digits. -/
def digitsColon? (x : Str) : Option Str :=
  let d := x.takeWhile isDigitC
  match x.drop d.length with
  | ':' :: r => if !d.isEmpty && !r.isEmpty then some d else none
  | _ => none

/-- Second POS in one line: the **last** occurrence of `_pos=<digits>:<something>` at an index ≥ 1:
`(POS, SUFFIX)`. -/
def lastWholePosFrom : Nat → Str → Option (Str × Str)
  | _, [] => none
  | seen, c :: t =>
    match lastWholePosFrom (seen + 1) t with
    | some r => some r
    | none =>
      if seen ≥ 1 && (cs!"_pos=").isPrefixOf (c :: t) then
        let x := (c :: t).drop (cs!"_pos=").length
        (digitsColon? x).map fun d => (x, d)
      else none

def lastWholePos? (l : Str) : Option (Str × Str) := lastWholePosFrom 0 l

/-- Greedy alternative: the last line of the maximal run of non-empty lines that has a second POS. -/
def findLastWhole : List Str → Option (Str × Str)
  | [] => none
  | l :: rest =>
    if l.isEmpty then none
    else
      match findLastWhole rest with
      | some r => some r
      | none => lastWholePos? l

/-- Lazy part: the first line (after non-empty lines only) with a first POS, and what follows it. -/
def findFirstWhole : List Str → Option (Str × List Str)
  | [] => none
  | l :: rest =>
    if l.isEmpty then none
    else
      match firstWholePos? l with
      | some p => some (p, rest)
      | none => findFirstWhole rest

/-- The (at most one) match of `whole_span`: captures of POS and of SUFFIX. -/
def wholeSpanMatch? : List Str → Option (List Str × List Str)
  | [] => none
  | l :: rest =>
    if l == cs!"/_type=Module" then
      match findFirstWhole rest with
      | none => none
      | some (p1, after) =>
        match findLastWhole after with
        | some (p2, d) => some ([p1, p2], [d])
        | none => some ([p1], [])
    else none

/-- `get_bindings("whole_span", captures)`: the occurrences (label, span); `none` = `ValueError`. -/
def wholeSpanBindings? (ls : List Str) : Option (List (Str × SpanP)) :=
  match wholeSpanMatch? ls with
  | none => some []
  | some (pos, []) => (posToSpan? pos).map fun s => [(cs!"whole_span", s)]
  | some (pos, d :: _) => (posToSpan? pos).map fun s => [(cs!"whole_span:" ++ d, s)]

end Paroxy.Flat
