/-
Model of `paroxython/normalize_predicate.py::normalize_predicate`, step by step, on lists of
Unicode code points.

Model alphabet: the characters whose classification is transcribed here are ASCII 0x09–0x0D,
0x20–0x7E, plus `≤` (8804) and `…` (8230) and any other code point treated as "other symbol"
(not whitespace, not a word character, unchanged by `lower`). Unicode-sensitive behaviour of
`str.lower`, `str.strip`, `\s`, `\b` beyond ASCII is NOT modelled (see DESIGN §3); the harness
restricts the compared stream to the model alphabet and exercises the rest implementation-only.
-/
import Paroxy.Model.CompareSpans
namespace Paroxy.NP
open Paroxy

abbrev Str := List Nat

def lowerC (c : Nat) : Nat := if 65 ≤ c ∧ c ≤ 90 then c + 32 else c
def lower (s : Str) : Str := s.map lowerC

def isSpace (c : Nat) : Bool := c == 32 || (9 ≤ c && c ≤ 13)
def isWord (c : Nat) : Bool :=
  (48 ≤ c && c ≤ 57) || (65 ≤ c && c ≤ 90) || (97 ≤ c && c ≤ 122) || c == 95

def lstrip (s : Str) : Str := s.dropWhile isSpace
def rstrip (s : Str) : Str := (s.reverse.dropWhile isSpace).reverse
/-- Python `str.strip()` (ASCII whitespace). -/
def strip (s : Str) : Str := rstrip (lstrip s)

/-- Python `str.replace(pat, rep)` for a non-empty `pat`: leftmost, non-overlapping. The counter
`skip` is the number of characters of a match still to be dropped. -/
def replaceAll (pat rep : Str) : Nat → Str → Str
  | _, [] => []
  | skip + 1, _ :: t => replaceAll pat rep skip t
  | 0, c :: t =>
    if pat.isPrefixOf (c :: t) then rep ++ replaceAll pat rep (pat.length - 1) t
    else c :: replaceAll pat rep 0 t

def sNot : Str := [110, 111, 116]          -- "not"
def sNotSp : Str := [110, 111, 116, 32]    -- "not "
def sSpNot : Str := [32, 110, 111, 116]    -- " not"

/-- `regex.compile(r"not\s+").search`: some occurrence of "not" followed by a whitespace. -/
def searchNot1 : Str → Bool
  | [] => false
  | c :: t => (sNot.isPrefixOf (c :: t) && (match (c :: t).drop 3 with | d :: _ => isSpace d | [] => false))
      || searchNot1 t

/-- `regex.compile(r"\s+not").search`: some whitespace immediately followed by "not". -/
def searchNot2 : Str → Bool
  | [] => false
  | c :: t => (isSpace c && sNot.isPrefixOf t) || searchNot2 t

def headIsWord : Str → Bool
  | [] => false
  | c :: _ => isWord c

/-- `regex.compile(r" is\b|\bis ").sub("", ·)`: scan left to right; at each position try
`" is"` followed by a word boundary, then `"is "` preceded by a word boundary; a match is removed
and the scan resumes after it. `prev` = the character before the current position in the
*original* string; `skip` = characters of a match still to drop. -/
def subIs : Option Nat → Nat → Str → Str
  | _, _, [] => []
  | _, skip + 1, c :: t => subIs (some c) skip t
  | prev, 0, c :: t =>
    let alt1 := c == 32 && [105, 115].isPrefixOf t && !headIsWord (t.drop 2)
    let alt2 := c == 105 && [115, 32].isPrefixOf t &&
      !(match prev with | some p => isWord p | none => false)
    if alt1 || alt2 then subIs (some c) 2 t else c :: subIs (some c) 0 t

def allowed (c : Nat) : Bool := c == 120 || c == 121 || c == 60 || c == 61 || c == 8804

def sXeqY : Str := [120, 61, 121]
def sYeqX : Str := [121, 61, 120]
def sIdentity : Str := [120, 61, 121, 8804, 120, 61, 121]   -- "x=y≤x=y"

/-- `^([^c]*)c([^c]*)$` → `\1c≤c\2`: if the string has exactly one `c`, expand it. -/
def expandOne (c : Nat) (s : Str) : Str :=
  if s.count c = 1 then s.flatMap (fun d => if d = c then [c, 8804, c] else [d]) else s

/-- The salvage pipeline applied when the string is not a known name. -/
def salvage (p : Str) : Str :=
  let p := replaceAll [60, 61] [8804] 0 p       -- "<=" → "≤"
  let p := replaceAll [61, 61] [61] 0 p         -- "==" → "="
  let p := p.filter allowed
  let p := if p = sXeqY || p = sYeqX then sIdentity else p
  let p := expandOne 120 p
  expandOne 121 p

/-- Negation detection and removal; returns the remaining string and the flag. -/
def negation (p : Str) : Str × Bool :=
  match p with
  | 33 :: t => (t, true)
  | _ =>
    if searchNot1 p then (replaceAll sNotSp [] 0 p, true)
    else if searchNot2 p then (replaceAll sSpNot [] 0 p, true)
    else (p, false)

/-- What `normalize_predicate` does after the negation stage. -/
def finish (names : List (Codes × Codes)) (p : Str) (negated : Bool) : Option (Codes × Bool) :=
  let p := subIs none 0 (strip p)
  match dictGet? names p with
  | some k => some (k, negated)
  | none =>
    match dictGet? names (salvage p) with
    | some k => some (k, negated)
    | none => none

/-- `normalize_predicate`, parameterised by the dictionary of names (name ↦ key of the table it is
bound to). `none` = `ValueError`. The real function returns the *function object*; the harness
maps it back to the canonical key by identity. -/
def normalize (names : List (Codes × Codes)) (s : Str) : Option (Codes × Bool) :=
  let r := negation (strip (lower s))
  finish names r.1 r.2

end Paroxy.NP
