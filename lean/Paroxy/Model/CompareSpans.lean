/-
Model of `paroxython/compare_spans.py`: a deep embedding of the Python Boolean expressions that
the lambdas of the `compare_spans` dictionary are made of, and their evaluation.

The *table itself* is not written here: it is regenerated from the Python source on every run by
`/verif/translator/gen.py` into `Paroxy/Gen/CompareSpans.lean`.

`PyExpr.eval` (Python chain semantics `a op b op c ≡ a op b and b op c`, `and`, `or`, `not`) is the
only piece of Python semantics trusted for C08.
-/
namespace Paroxy

/-- The four endpoints a relation may look at: `x[0] x[1] y[0] y[1]`. -/
inductive Var | x0 | x1 | y0 | y1
  deriving DecidableEq, Repr, Inhabited

/-- Comparison operators accepted by the translator (`<`, `<=`, `==`, and for rewritten lambdas
`>`, `>=`, `!=`). -/
inductive Op | lt | le | eq | gt | ge | ne
  deriving DecidableEq, Repr, Inhabited

inductive PyExpr
  | cmp (first : Var) (rest : List (Op × Var))
  | and (a b : PyExpr)
  | or (a b : PyExpr)
  | not (a : PyExpr)
  | const (b : Bool)
  deriving DecidableEq, Repr, Inhabited

abbrev Env := Var → Int

def Op.eval : Op → Int → Int → Bool
  | .lt, a, b => decide (a < b)
  | .le, a, b => decide (a ≤ b)
  | .eq, a, b => decide (a = b)
  | .gt, a, b => decide (b < a)
  | .ge, a, b => decide (b ≤ a)
  | .ne, a, b => !decide (a = b)

def evalChain (ρ : Env) : Var → List (Op × Var) → Bool
  | _, [] => true
  | v, (o, w) :: rest => o.eval (ρ v) (ρ w) && evalChain ρ w rest

def PyExpr.eval (ρ : Env) : PyExpr → Bool
  | .cmp f r => evalChain ρ f r
  | .and a b => a.eval ρ && b.eval ρ
  | .or a b => a.eval ρ || b.eval ρ
  | .not a => !(a.eval ρ)
  | .const b => b

abbrev Span := Int × Int

/-- The environment of a call `f(x, y)` on two spans. -/
def spanEnv (x y : Span) : Env
  | .x0 => x.1 | .x1 => x.2 | .y0 => y.1 | .y1 => y.2

def PyExpr.holds (e : PyExpr) (x y : Span) : Bool := e.eval (spanEnv x y)

/-- Names (dictionary keys) are lists of Unicode code points: the kernel computes on `Nat`
natively, whereas `String` equality is very slow under `decide +kernel`. The translator emits
`[ord(c) for c in key]`. -/
abbrev Codes := List Nat
def codesOf (s : String) : Codes := s.toList.map Char.toNat
def strOf (c : Codes) : String := String.ofList (c.map Char.ofNat)

/-- Python `dict.update` semantics on an association list: an existing key keeps its position and
gets the new value, a new key is appended. -/
def dictSet {β : Type} (d : List (Codes × β)) (k : Codes) (v : β) : List (Codes × β) :=
  match d with
  | [] => [(k, v)]
  | (k', v') :: t => if k' = k then (k, v) :: t else (k', v') :: dictSet t k v

def dictGet? {β : Type} (d : List (Codes × β)) (k : Codes) : Option β :=
  match d with
  | [] => none
  | (k', v) :: t => if k' = k then some v else dictGet? t k

/-- One `compare_spans.update({...})` call: every value `compare_spans[target]` is looked up in
the dictionary *before* the update (Python evaluates the dict literal first). A missing target
is a `KeyError`: `none`. -/
def applyUpdate (d : List (Codes × PyExpr)) (u : List (Codes × Codes)) :
    Option (List (Codes × PyExpr)) := do
  let vals ← u.mapM (fun (name, target) => (dictGet? d target).map (fun e => (name, e)))
  pure (vals.foldl (fun acc (n, e) => dictSet acc n e) d)

def applyUpdates (d : List (Codes × PyExpr)) : List (List (Codes × Codes)) →
    Option (List (Codes × PyExpr))
  | [] => some d
  | u :: us => (applyUpdate d u).bind (fun d' => applyUpdates d' us)

/-- Same resolution, but tracking for every name the *key of the original table* it denotes (this
is what `normalize_predicate` returns, up to function identity). -/
def resolveUpdate (d : List (Codes × Codes)) (u : List (Codes × Codes)) :
    Option (List (Codes × Codes)) := do
  let vals ← u.mapM (fun (name, target) => (dictGet? d target).map (fun e => (name, e)))
  pure (vals.foldl (fun acc (n, e) => dictSet acc n e) d)

def resolveUpdates (d : List (Codes × Codes)) : List (List (Codes × Codes)) →
    Option (List (Codes × Codes))
  | [] => some d
  | u :: us => (resolveUpdate d u).bind (fun d' => resolveUpdates d' us)

end Paroxy
