/-
Model of `paroxython/map_taxonomy.py`: `Taxonomy.__init__`, `is_literal`,
`Taxonomy.get_taxon_name_list` (memoised, with the in-place extension of the literal lists) and the
accumulation loop of `Taxonomy.to_taxa`.

Regular expressions are NOT modelled: the answers of the engine are an explicit parameter
(`Oracle`), and every theorem quantifies over all oracles (treatment R1 of DESIGN §3).
  * `looks L`     — "the label looks like a taxon" (`word/...`);
  * `full (T, P) L` — `some (expansion of T by the match)` when `P` matches `L` entirely.
The correspondence harness computes these tables with the real `regex` module using the
specification's notion (`regex.fullmatch(P, L)`, `Match.expand(T)`), not the code's idiom.

Strings are `List Char`. Core Lean only (linked into the native driver).
-/
import Paroxy.Model.Dedup
namespace Paroxy.Taxo
open Paroxy

abbrev Str := List Char
/-- A taxonomy row: (taxon replacement pattern `T`, label search pattern `P`). -/
abbrev Row := Str × Str

structure Oracle where
  looks : Str → Bool
  full : Row → Str → Option Str

/-! ### `is_literal` -/

/-- `regex._METACHARS` (regex 2.5.x): `()[]{}?*+|^$\.-#&~`. -/
def metachars : List Char :=
  ['(', ')', '[', ']', '{', '}', '?', '*', '+', '|', '^', '$', '\\', '.', '-', '#', '&', '~']

/-- `str.isspace()` for one character (the 29 code points with bidirectional type WS/B/S or
category Zs). -/
def isSpace (c : Char) : Bool :=
  let n := c.toNat
  (9 ≤ n && n ≤ 13) || (28 ≤ n && n ≤ 32) || n == 0x85 || n == 0xA0 || n == 0x1680 ||
    (0x2000 ≤ n && n ≤ 0x200A) || n == 0x2028 || n == 0x2029 || n == 0x202F || n == 0x205F ||
    n == 0x3000

/-- `regex.escape(p)` (defaults `special_only=True`, `literal_spaces=False`). -/
def escape (p : Str) : Str :=
  p.flatMap fun c =>
    if metachars.contains c || isSpace c then ['\\', c]
    else if c = '\x00' then ['\\', '0', '0', '0']
    else [c]

/-- `p.replace(".", "\\.")`. -/
def replaceDots (p : Str) : Str :=
  p.flatMap fun c => if c = '.' then ['\\', '.'] else [c]

/-- `is_literal(label_pattern)`. -/
def isLiteral (p : Str) : Bool := replaceDots p == escape p

/-! ### reading the TSV -/

inductive Err | valueError
  deriving DecidableEq, Repr

/-- `text.partition(needle)[0]`. -/
def cutAt (needle : Str) : Str → Str
  | [] => []
  | c :: t => if needle.isPrefixOf (c :: t) then [] else c :: cutAt needle t

def lstrip (s : Str) : Str := s.dropWhile isSpace
def strip (s : Str) : Str := (lstrip (lstrip s).reverse).reverse

/-- `s.split()`: maximal runs of non-whitespace characters (`cur` = current run, reversed). -/
def fieldsAux : Str → Str → List Str
  | cur, [] => if cur.isEmpty then [] else [cur.reverse]
  | cur, c :: t =>
    if isSpace c then
      if cur.isEmpty then fieldsAux [] t else cur.reverse :: fieldsAux [] t
    else fieldsAux (c :: cur) t

def fields (s : Str) : List Str := fieldsAux [] s

/-- `(taxon_value, label_value, *_) = line.strip().split(maxsplit=2)`: the first two fields
(whatever follows is ignored); fewer than two fields is a `ValueError` (unpacking). -/
def parseLine (line : Str) : Except Err Row :=
  match fields line with
  | a :: b :: _ => .ok (a, b)
  | _ => .error .valueError

def eofMark : Str := ['-', '-', ' ', 'E', 'O', 'F']

/-- The data lines in file order: cut at `-- EOF`, strip, split on newlines, drop the header. -/
def rawLines (text : Str) : List Str :=
  (Dedup.splitOn '\n' (strip (cutAt eofMark text))).drop 1

/-- The lines in the order `__init__`'s loop visits them: `sorted(...)` (code-point order). -/
def sortedLines (text : Str) : List Str :=
  (rawLines text).mergeSort fun a b => decide (a ≤ b)

def okLine (line : Str) : Bool := match parseLine line with | .ok _ => true | .error _ => false
def parseLineD (line : Str) : Row := match parseLine line with | .ok r => r | .error _ => ([], [])

/-- Every line must unpack (the only exception class is `ValueError`, so which line fails first is
not observable). -/
def parseAll (lines : List Str) : Except Err (List Row) :=
  if lines.all okLine then .ok (lines.map parseLineD) else .error .valueError

/-- The rows in the order `__init__` processes them. -/
def parseTsv (text : Str) : Except Err (List Row) := parseAll (sortedLines text)

/-! ### the translation state machine -/

/-- A memo entry: either a list owned by the cache, or *the very list object* stored in
`literal_labels[L]` (what `self.literal_labels.get(label_name, [])` returns for a known key). -/
inductive MemoVal
  | own (l : List Str)
  | alias
  deriving Repr

structure State where
  literal : List (Str × List Str)      -- `self.literal_labels` (a dict, insertion order)
  compiled : List Row                  -- `self.compiled_labels`
  memo : List (Str × MemoVal)          -- the `lru_cache(maxsize=None)` of this instance
  deriving Repr

def dget {β : Type} : List (Str × β) → Str → Option β
  | [], _ => none
  | (k, v) :: t, x => if k = x then some v else dget t x

def dset {β : Type} : List (Str × β) → Str → β → List (Str × β)
  | [], x, v => [(x, v)]
  | (k, w) :: t, x, v => if k = x then (k, v) :: t else (k, w) :: dset t x v

/-- One iteration of `__init__`'s loop. -/
def addRow (st : State) (r : Row) : State :=
  if isLiteral r.2 then
    -- `self.literal_labels[P].append(T)` on a defaultdict(list)
    { st with literal := dset st.literal r.2 ((dget st.literal r.2).getD [] ++ [r.1]) }
  else
    { st with compiled := st.compiled ++ [r] }

def init (rows : List Row) : State := rows.foldl addRow ⟨[], [], []⟩

/-- `self.get_taxon_name_list(L)`. -/
def call (o : Oracle) (st : State) (L : Str) : State × List Str :=
  match dget st.memo L with
  | some (.own l) => (st, l)
  | some .alias => (st, (dget st.literal L).getD [])
  | none =>
    if o.looks L then
      ({ st with memo := dset st.memo L (.own [L]) }, [L])
    else
      -- `for (rx, T) in self.compiled_labels: m = rx.fullmatch(L); if m: result.append(m.expand(T))`
      let exps := st.compiled.filterMap fun r => o.full r L
      match dget st.literal L with
      | some base =>
        -- `result` IS `self.literal_labels[L]`: the appends mutate the dict entry
        let r := base ++ exps
        ({ st with literal := dset st.literal L r, memo := dset st.memo L .alias }, r)
      | none =>
        ({ st with memo := dset st.memo L (.own exps) }, exps)

/-- A history of calls on one instance: the successive results. -/
def run (o : Oracle) : State → List Str → List (List Str)
  | _, [] => []
  | st, L :: rest => let p := call o st L; p.2 :: run o p.1 rest

/-! ### `to_taxa`, up to the deduplication -/

section ToTaxa
variable {σ : Type} [DecidableEq σ]

/-- `acc[taxon_name].update(spans)` on a `defaultdict(Counter)`. -/
def accUpdate (acc : List (Str × Bag σ)) (t : Str) (spans : List σ) : List (Str × Bag σ) :=
  dset acc t (Bag.updateList ((dget acc t).getD []) spans)

/-- The accumulation loop of `to_taxa`. -/
def accumulate (o : Oracle) :
    State → List (Str × Bag σ) → List (Str × List σ) → State × List (Str × Bag σ)
  | st, acc, [] => (st, acc)
  | st, acc, (L, spans) :: rest =>
    let p := call o st L
    accumulate o p.1 (p.2.foldl (fun a t => accUpdate a t spans) acc) rest

/-- `sorted(acc.items())` (names are distinct keys, the bags are never compared). -/
def sortTaxa (acc : List (Str × Bag σ)) : List (Str × Bag σ) :=
  acc.mergeSort fun a b => decide (a.1 ≤ b.1)

/-- `Taxonomy.to_taxa(labels)` on a given instance state. -/
def toTaxa (o : Oracle) (st : State) (labels : List (Str × List σ)) :
    State × Except Dedup.Err (List (Str × Bag σ)) :=
  let p := accumulate o st [] labels
  (p.1, Dedup.deduplicatedTaxa (sortTaxa p.2))

end ToTaxa

end Paroxy.Taxo
