/-
Model of `Recommendations.get_markdown` (paroxython/recommend_programs.py) as a STRUCTURED report,
of `goodies.cost_bucket`, of the `result` log kept by `run_pipeline`, and of the `-o stdout` mode
of cli_recommend.py. The text of the Location cell (spans, wrapping) is modelled in Model/ReportCell.lean;
slugs and the line-number gutter are outside the model; the harness parses the real Markdown back into
this structure.
-/
import Paroxy.Model.Costs
namespace Paroxy.Report
open Paroxy Paroxy.Filter Paroxy.Costs

/-- `cost_bucket`: `0`, `]0, 0.25[`, `[0.25, 0.5[`, `[0.5, 1[`, `[2^k, 2^(k+1)[`. -/
inductive Bucket
  | zero | q1 | q2 | q3
  | pow (lo : Nat)
  | noGroup
  deriving Repr, DecidableEq, Inhabited

def costBucket (c : Rat) : Bucket :=
  if c = 0 then .zero
  else if c < 1 / 4 then .q1
  else if c < 1 / 2 then .q2
  else if c < 1 then .q3
  else .pow (2 ^ Nat.log2 c.floor.toNat)

def Bucket.Contains : Bucket → Rat → Prop
  | .zero, c => c = 0
  | .q1, c => 0 < c ∧ c < 1 / 4
  | .q2, c => 1 / 4 ≤ c ∧ c < 1 / 2
  | .q3, c => 1 / 2 ≤ c ∧ c < 1
  | .pow lo, c => (lo : Rat) ≤ c ∧ c < ((2 * lo : Nat) : Rat)
  | .noGroup, _ => True

inductive Sorting | byCostAndSloc | lexicographic
  deriving Repr, DecidableEq, Inhabited

/-- `defaultdict(list)` filled in one pass: groups in first-appearance order, members in order. -/
def insertGroup {κ α} [DecidableEq κ] (g : List (κ × List α)) (k : κ) (a : α) : List (κ × List α) :=
  match g with
  | [] => [(k, [a])]
  | (k', l) :: t => if k' = k then (k', l ++ [a]) :: t else (k', l) :: insertGroup t k a

def groupBy {κ α} [DecidableEq κ] (key : α → κ) (l : List α) : List (κ × List α) :=
  l.foldl (fun g a => insertGroup g (key a) a) []

structure Row where
  taxon : Codes
  cost : Rat
  spans : List Span          -- `[]` is rendered `_imported_`
  deriving Repr, DecidableEq, Inhabited

structure Section where
  path : Codes
  cost : Rat
  rows : List Row
  deriving Repr, Inhabited

/-- Sort key of the rows: `~name` for `meta/` taxa (so they come last), else `name`. -/
def rowKey (t : Codes) : Codes := if isMeta t then 126 :: t else t

def leRow (a b : Codes × List Span) : Bool := decide (rowKey a.1 ≤ rowKey b.1)

def rowsOf (strat : Strategy) (K hiddenTaxa : List Codes) (rec : TaxaSpans) : List Row :=
  ((rec.mergeSort leRow).filter fun ts => !hiddenTaxa.contains ts.1).map fun ts =>
    { taxon := ts.1, cost := taxonCost strat K ts.1, spans := ts.2 }

/-- Sorting of the members of a group (a stable sort on the key). -/
def leMember (sorting : Sorting) (sloc : Codes → Nat) (a b : Rat × Codes) : Bool :=
  match sorting with
  | .byCostAndSloc => decide (a.1 < b.1) || (decide (a.1 = b.1) && decide (sloc a.2 ≤ sloc b.2))
  | .lexicographic => decide (a.2 ≤ b.2)

structure Input where
  strat : Strategy
  programs : List (Codes × TaxaSpans)
  sloc : Codes → Nat
  knowledge : List Codes
  hiddenTaxa : List Codes
  hiddenPrograms : List Codes
  assessed : List (Rat × Codes)
  sorting : Sorting
  grouping : Bool                -- by_cost_bucket?

/-- `if program_path in self.hidden_programs: continue`. -/
def visible (i : Input) : List (Rat × Codes) := i.assessed.filter fun cp => !i.hiddenPrograms.contains cp.2

/-- `grouping_key`. -/
def groupKey (i : Input) (cp : Rat × Codes) : Bucket := if i.grouping then costBucket cp.1 else Bucket.noGroup

/-- One program section; `none` = `KeyError`. -/
def sectionOf (i : Input) (cp : Rat × Codes) : Option Section :=
  (dictGet? i.programs cp.2).map fun rec =>
    ({ path := cp.2, cost := cp.1, rows := rowsOf i.strat i.knowledge i.hiddenTaxa rec } : Section)

/-- The sections of one group: its members sorted (stable) by the chosen key. -/
def groupSections (i : Input) (g : Bucket × List (Rat × Codes)) : Option (Bucket × List Section) :=
  ((g.2.mergeSort (leMember i.sorting i.sloc)).mapM (sectionOf i)).map fun secs => (g.1, secs)

/-- The body of the report: buckets in first-appearance order, each with its sorted sections.
`none` = `KeyError` (an assessed path that is no program). -/
def body (i : Input) : Option (List (Bucket × List Section)) :=
  (groupBy (groupKey i) (visible i)).mapM (groupSections i)

/-! ### The `result` log and the summary -/

structure LogEntry where
  index : Nat
  op : Operation
  removed : List Codes
  /-- ghost field (not in the Python): the size of the selection right after this command -/
  selectedAfter : Nat
  deriving Repr, Inhabited

/-- One `run_pipeline` call on a recommender: returns the new filter state and the entries
appended to `self.result` (skipped commands consume an index but log nothing). -/
def runLogged (c : Ctx) (r : Relations) (st : State) (cmds : List Command) :
    Except Err (State × List LogEntry) :=
  let rec go (st : State) (current : List Codes) (idx : Nat) (cmds : List Command) (log : List LogEntry) :
      Except Err (State × List LogEntry) :=
    match cmds with
    | [] => .ok (st, log)
    | cmd :: t =>
      match parseOperation cmd.operation with
      | none => go st current (idx + 1) t log
      | some (op, q) =>
        if cmd.data.isEmpty then go st current (idx + 1) t log
        else match updateFilter c r st cmd.data op q with
          | .error e => .error e
          | .ok st' =>
            let removed := current.filter fun p => !st'.selected.contains p
            go st' st'.selected (idx + 1) t
              (log ++ [{ index := idx, op := op, removed := removed, selectedAfter := st'.selected.length }])
  go st st.selected 1 cmds []

/-- The summary lines: `(remaining, index, op, filtered out)`, starting from `n` programs. -/
def summary (n : Nat) (log : List LogEntry) : List (Int × Nat × Operation × Nat) :=
  (log.foldl (fun (acc : Int × List (Int × Nat × Operation × Nat)) e =>
    let n' := acc.1 - e.removed.length
    (n', acc.2 ++ [(n', e.index, e.op, e.removed.length)])) ((n : Int), [])).2

/-- `-o stdout`: `sorted(rec.selected_programs - rec.hidden_programs)` (as a set; the harness sorts). -/
def stdoutSelection (st : State) : List Codes :=
  st.selected.filter fun p => !st.hiddenPrograms.contains p

/-! ### The recommender as a whole: `Recommendations(db)`, `run_pipeline` × n, `get_markdown` -/

/-- Several `run_pipeline` calls on ONE recommender (the filter state and the `result` log persist). -/
def runsLogged (c : Ctx) (r : Relations) (st : State) (log : List LogEntry) :
    List (List Command) → Except Err (State × List LogEntry)
  | [] => .ok (st, log)
  | cmds :: t =>
    match runLogged c r st cmds with
    | .error e => .error e
    | .ok (st', l) => runsLogged c r st' (log ++ l) t

structure Recommendation where
  body : List (Bucket × List Section)
  log : List LogEntry
  final : State
  assessed : List (Rat × Codes)

inductive Outcome
  | err (e : Err)          -- ValueError of a rejected predicate string
  | keyError               -- a path that is no program
  | ok (rep : Recommendation)

/-- `run_pipeline` (n times), then the assessment of the final selection with the final knowledge,
then the report built from the final hidden sets. -/
def recommend (c : Ctx) (r : Relations) (strat : Strategy) (sloc : Codes → Nat) (sorting : Sorting)
    (grouping : Bool) (runs : List (List Command)) : Outcome :=
  match runsLogged c r (initState c.programs) [] runs with
  | .error e => .err e
  | .ok (st, log) =>
    match assess strat c.programs st.knowledge st.selected with
    | none => .keyError
    | some assessed =>
      match body ⟨strat, c.programs, sloc, st.knowledge, st.hiddenTaxa, st.hiddenPrograms, assessed, sorting,
          grouping⟩ with
      | none => .keyError
      | some b => .ok ⟨b, log, st, assessed⟩

end Paroxy.Report
