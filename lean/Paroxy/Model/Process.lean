/-
C03 — the shared state of one tagging process, AS WRITTEN NOW in /repo, as an explicit state machine:

* `HashState`  : the module-level `pseudo_hash = PseudoHashFactory()` of flatten_ast.py (`i`, `cache`),
                 reset by `flatten_ast` at the beginning of every *parsed, non-empty* program;
* `SqlState`   : the in-memory SQLite connection of `DerivedLabelsDatabase` reused for every program:
                 main table `t`, physical sub-tables `t_<prefix>` (snapshots of `t`), and the Python
                 set `self.subtables` ("known");
* `TaxoState`  : `Taxonomy.literal_labels` (lists returned *by reference* and appended to in place) and
                 the `lru_cache` memo of `get_taxon_name_list`.

Core Lean only. Everything the engines compute (regex features on the flat AST, SQL queries, compiled
taxonomy patterns, the assembly/deduplication of taxa) is an oracle parameter: the theorems hold for
every such function.
-/
import Paroxy.Model.MakeDb
namespace Paroxy.Proc
open Paroxy Paroxy.DB

/-! ## pseudo_hash -/

structure HashState where
  i : Nat
  cache : List (Name × Nat)
  deriving DecidableEq, Repr, Inhabited

/-- `pseudo_hash.reset()` -/
def HashState.reset : HashState := { i := 0, cache := [] }

/-- `pseudo_hash(x)`: returns the identifier (the number printed as `0x%04x`). -/
def HashState.call (h : HashState) (x : Name) : HashState × Nat :=
  match get? h.cache x with
  | some v => (h, v)
  | none => ({ i := h.i + 1, cache := h.cache ++ [(x, h.i + 1)] }, h.i + 1)

def HashState.callAll : HashState → List Name → HashState × List Nat
  | h, [] => (h, [])
  | h, x :: xs =>
    let (h1, v) := h.call x
    let (h2, vs) := HashState.callAll h1 xs
    (h2, v :: vs)

/-! ## DerivedLabelsDatabase -/

structure SqlState where
  /-- rows of the main table `t` (`none`: the table does not exist) -/
  t : Option (List Label)
  /-- the sub-tables `t_<prefix>` present in the connection, with their rows -/
  physical : List (Name × List Label)
  /-- `self.subtables` -/
  known : List Name
  deriving DecidableEq, Repr, Inhabited

structure Exc where
  name : Name
  deriving DecidableEq, Repr, Inhabited

def sOperational : Name :=
  [79, 112, 101, 114, 97, 116, 105, 111, 110, 97, 108, 69, 114, 114, 111, 114] -- "OperationalError"
def operationalError : Exc := { name := sOperational }

/-- `create(labels)`: `CREATE TABLE t` fails when `t` exists; then rows inserted, `subtables = set()`. -/
def SqlState.create (s : SqlState) (labels : List Label) : Except Exc SqlState :=
  match s.t with
  | some _ => .error operationalError
  | none => .ok { s with t := some labels, known := [] }

/-- `CREATE TABLE t_{0} AS SELECT * FROM t WHERE name_prefix = '{0}'` -/
def rowsWithPrefix (pre : Name) (rows : List Label) : List Label :=
  rows.filter fun l => decide ((partitionColon l.name).1 = pre)

/-- The prerequisite loop of `read`: a missing known sub-table is created (fails if it physically
exists), then recorded as known. -/
def SqlState.ensure (s : SqlState) : List Name → Except Exc SqlState
  | [] => .ok s
  | n :: ns =>
    if n ∈ s.known then SqlState.ensure s ns
    else if n ∈ s.physical.map (·.1) then .error operationalError
    else SqlState.ensure
      { s with physical := s.physical ++ [(n, rowsWithPrefix n (s.t.getD []))], known := s.known ++ [n] } ns

/-- `update(labels)`: `INSERT INTO t` -/
def SqlState.update (s : SqlState) (labels : List Label) : SqlState :=
  { s with t := s.t.map (· ++ labels) }

/-- `delete()`: `DROP TABLE t` and `DROP TABLE t_<name>` for every known name. -/
def SqlState.delete (s : SqlState) : SqlState :=
  { s with t := none, physical := s.physical.filter fun e => decide (e.1 ∉ s.known) }

/-- The engines, as oracles. -/
structure Engines where
  /-- the SQL features of spec.md, in order: (query id, prerequisite sub-table names) -/
  queries : List (Name × List Name)
  /-- the answer of SQLite to a query on the current contents (main table, sub-tables) -/
  derive : Name → List Label → List (Name × List Label) → List Label
  /-- `regex.compile(r"^\w+/.+$").match` -/
  looksLikeTaxon : Name → Bool
  /-- translations of a label by the compiled (non literal) rows of the taxonomy, in order -/
  compiled : Name → List Name
  /-- accumulation into bags, sorting and `deduplicated_taxa`, from (label, translations) -/
  assemble : List (Label × List Name) → List Taxon

/-- The loop over the SQL features in `ProgramParser.__call__`. -/
def queryLoop (E : Engines) : SqlState → List (Name × List Name) → List Label →
    SqlState × Except Exc (List Label)
  | s, [], acc => (s, .ok acc)
  | s, (q, pre) :: qs, acc =>
    match s.ensure pre with
    | .error e => (s, .error e)
    | .ok s1 =>
      let derived := E.derive q (s1.t.getD []) s1.physical
      if derived = [] then queryLoop E s1 qs acc
      else queryLoop E (s1.update derived) qs (acc ++ derived)

/-! ## Programs -/

inductive Parsed
  /-- `ast.parse` raised a caught class: its name -/
  | invalid (errName : Name)
  /-- empty module -/
  | empty
  /-- a tree whose expression nodes have these reprs, in flattening order -/
  | tree (reprs : List Name)
  deriving DecidableEq, Repr, Inhabited

/-- A program text, as far as the process is concerned: what the parser says, and the labels the regex
features find in the flat AST, which embeds the hash values (may raise: DESIGN finding 17). -/
structure Program where
  parsed : Parsed
  lines : Nat
  regexLabels : List Nat → Except Exc (List Label)

def sAst : Name := [97, 115, 116, 95, 99, 111, 110, 115, 116, 114, 117, 99, 116, 105, 111, 110, 58]
def sEmpty : Name := [69, 109, 112, 116, 121, 80, 114, 111, 103, 114, 97, 109, 69, 114, 114, 111, 114]

/-! ## Taxonomy -/

structure TaxoState where
  literal : List (Name × List Name)
  memo : List (Name × List Name)
  deriving DecidableEq, Repr, Inhabited

/-- `Taxonomy.get_taxon_name_list(label)` with its memo and the in-place append. -/
def translate (E : Engines) (T : TaxoState) (l : Name) : TaxoState × List Name :=
  match get? T.memo l with
  | some r => (T, r)
  | none =>
    if E.looksLikeTaxon l then ({ T with memo := T.memo ++ [(l, [l])] }, [l])
    else
      match get? T.literal l with
      | some lit =>
        -- `result` IS the list stored in `literal_labels`: the appends are visible there
        let r := lit ++ E.compiled l
        ({ literal := set T.literal l r, memo := T.memo ++ [(l, r)] }, r)
      | none =>
        let r := E.compiled l
        ({ T with memo := T.memo ++ [(l, r)] }, r)

def translateAll (E : Engines) : TaxoState → List Label → TaxoState × List (Label × List Name)
  | T, [] => (T, [])
  | T, l :: ls =>
    let (T1, r) := translate E T l.name
    let (T2, rs) := translateAll E T1 ls
    (T2, (l, r) :: rs)

/-! ## The process -/

structure State where
  hash : HashState
  sql : SqlState
  taxo : TaxoState
  deriving DecidableEq, Repr, Inhabited

/-- `ProgramParser.__call__(program)`; the new state is returned even when an exception propagates.

`resets` models the call `pseudo_hash.reset()` at the top of `flatten_ast` (flatten_ast.py:369): when it
is there (`true`, the code as written) the expressions are hashed from a reset counter; without it
(`false`) they would be hashed from the INCOMING counter and cache `S.hash`, left by the previous
program. The real code is `parseStep` = `parseStepG … true`; `C03_no_reset_breaks` shows that the
independence theorems fail for `false`, i.e. that they really depend on that line. -/
def parseStepG (E : Engines) (resets : Bool) (S : State) (p : Program) :
    State × Except Exc (List Label) :=
  match p.parsed with
  | .invalid e => (S, .ok [{ name := sAst ++ e, spans := [(1, (p.lines : Int), [])] }])
  | .empty => (S, .ok [{ name := sAst ++ sEmpty, spans := [(1, (p.lines : Int), [])] }])
  | .tree reprs =>
    let (h, values) := (if resets then HashState.reset else S.hash).callAll reprs
    match p.regexLabels values with
    | .error e => ({ S with hash := h }, .error e)
    | .ok labels0 =>
      match S.sql.create labels0 with
      | .error e => ({ S with hash := h }, .error e)
      | .ok s1 =>
        match queryLoop E s1 E.queries labels0 with
        | (s2, .error e) => ({ S with hash := h, sql := s2 }, .error e)
        | (s2, .ok result) => ({ S with hash := h, sql := s2.delete }, .ok result)

/-- The code as written: `flatten_ast` resets the counter. -/
def parseStep (E : Engines) (S : State) (p : Program) : State × Except Exc (List Label) :=
  parseStepG E true S p

/-- `Taxonomy.to_taxa(labels)` -/
def taxaStep (E : Engines) (S : State) (labels : List Label) : State × List Taxon :=
  let (T, rs) := translateAll E S.taxo labels
  ({ S with taxo := T }, E.assemble rs)

/-- Tagging one program with the process-wide parser and taxonomy: labels, then taxa. -/
def stepG (E : Engines) (resets : Bool) (S : State) (p : Program) :
    State × Except Exc (List Label × List Taxon) :=
  match parseStepG E resets S p with
  | (S1, .error e) => (S1, .error e)
  | (S1, .ok labels) =>
    let (S2, taxa) := taxaStep E S1 labels
    (S2, .ok (labels, taxa))

/-- The code as written. -/
def step (E : Engines) (S : State) (p : Program) : State × Except Exc (List Label × List Taxon) :=
  stepG E true S p

/-- A fresh process: `ProgramParser()` + `Taxonomy()` just constructed. -/
def init (literal : List (Name × List Name)) : State :=
  { hash := HashState.reset, sql := { t := none, physical := [], known := [] },
    taxo := { literal := literal, memo := [] } }

/-- Tagging a sequence of programs one after the other (outputs dropped). -/
def run (E : Engines) : State → List Program → State
  | S, [] => S
  | S, p :: ps => run E (step E S p).1 ps

end Paroxy.Proc
