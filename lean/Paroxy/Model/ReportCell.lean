/-
Model of the TEXT of the `Location` cell of the recommendation report
(`get_markdown` in paroxython/recommend_programs.py):

    s = spans_to_html(", ".join(map(couple_to_string, spans)))
    spans_to_html = enumeration_to_txt_factory(span_column_width, "_imported_")

with `couple_to_string` / `enumeration_to_txt_factory` of paroxython/goodies.py and a model of
`textwrap.wrap(s, width, initial_indent=" " * 3)` (CPython 3.12 Lib/textwrap.py: `_split`,
`_wrap_chunks`, `_handle_long_word`) RESTRICTED TO THE ALPHABET THAT OCCURS HERE: decimal digits,
'-', ',' and ' ', with no two consecutive hyphens (spans of natural numbers).

On that alphabet `TextWrapper.wordsep_re` splits the text into maximal runs of spaces and maximal runs
of non-space characters:
  * the "hyphenated word" alternative needs LETTERS (`[^\d\W]`) around the hyphen (look-behinds
    `(?<=lt{2}-)` / `(?<=lt-lt-)` and look-ahead `(?=lt -? lt)`), so it never applies between digits;
  * the "em-dash" alternatives need `-{2,}`, which cannot occur (`a-b` with natural a, b).
`_munge_whitespace` (tabs, other white space) is the identity on this alphabet, and
`fix_sentence_endings` is off.  HOWEVER `_handle_long_word` (3.12) has its own hyphen rule, which does
apply to digits: a chunk longer than the line is preferably cut just after its last hyphen that lies
in the available space (`breakEnd` below).

Widths: `width ≥ 1` (for `width ≤ 0` and a non-empty `s` the real function raises ValueError).
The width of the first line is `width - 3`, which may be ≤ 0: it is kept as an `Int`, as in Python.
Core Lean only (linked into the native driver).
-/
import Paroxy.Model.CompareSpans
namespace Paroxy.ReportCell
open Paroxy

abbrev Str := List Char

/-- `f"{i}"` for a Python int. -/
def intStr : Int → Str
  | .ofNat n => Nat.toDigits 10 n
  | .negSucc n => '-' :: Nat.toDigits 10 (n + 1)

/-- `couple_to_string`: `"a"` if `a == b` else `"a-b"`. -/
def coupleToString (sp : Span) : Str :=
  if sp.1 = sp.2 then intStr sp.1 else intStr sp.1 ++ '-' :: intStr sp.2

/-- `", ".join(map(couple_to_string, spans))`. -/
def joinSpans : List Span → Str
  | [] => []
  | [a] => coupleToString a
  | a :: b :: t => coupleToString a ++ ',' :: ' ' :: joinSpans (b :: t)

/-! ### `textwrap.wrap` -/

/-- `TextWrapper._split` on the alphabet above: maximal runs of spaces / of non-spaces. -/
def splitChunks : Str → List Str
  | [] => []
  | c :: t =>
    match splitChunks t with
    | (d :: w) :: r => if (c == ' ') = (d == ' ') then (c :: d :: w) :: r else [c] :: (d :: w) :: r
    | r => [c] :: r

/-- `chunk.strip() == ''`. -/
def isWs (c : Str) : Bool := c.all (· == ' ')

/-- The inner `while chunks:` loop: chunks are put on the line while they fit.
Returns (the line, what remains). -/
def fill (width : Int) (curLen : Nat) : List Str → List Str × List Str
  | [] => ([], [])
  | c :: t =>
    if ((curLen + c.length : Nat) : Int) ≤ width then
      let r := fill width (curLen + c.length) t
      (c :: r.1, r.2)
    else ([], c :: t)

/-- Index of the last `'-'` of a string (`str.rfind('-')`). -/
def lastHyphen : Str → Option Nat
  | [] => none
  | c :: t =>
    match lastHyphen t with
    | some i => some (i + 1)
    | none => if c == '-' then some 0 else none

/-- `_handle_long_word` (break_long_words and break_on_hyphens both True): where the chunk is cut.
`end = space_left`, except that when the chunk is longer than that and `chunk[:space_left]` has a
hyphen at an index `h > 0` with some non-hyphen before it, `end = h + 1`. -/
def breakEnd (chunk : Str) (spaceLeft : Nat) : Nat :=
  if chunk.length > spaceLeft then
    match lastHyphen (chunk.take spaceLeft) with
    | some h => if h > 0 && (chunk.take h).any (· != '-') then h + 1 else spaceLeft
    | none => spaceLeft
  else spaceLeft

/-- `if cur_line and cur_line[-1].strip() == '': del cur_line[-1]`. -/
def dropLastWs : List Str → List Str
  | [] => []
  | [c] => if isWs c then [] else [c]
  | c :: d :: t => c :: dropLastWs (d :: t)

/-- `if chunks and len(chunks[-1]) > width: self._handle_long_word(chunks, cur_line, cur_len, width)`
on `f` = (the line so far, what remains). -/
def handleLong (width : Int) (f : List Str × List Str) : List Str × List Str :=
  match f.2 with
  | r :: rs =>
    if (r.length : Int) > width then
      let spaceLeft : Nat := if width < 1 then 1 else (width - (f.1.flatten.length : Int)).toNat
      let e := breakEnd r spaceLeft
      (f.1 ++ [r.take e], r.drop e :: rs)
    else f
  | [] => f

/-- One pass of the outer `while chunks:` loop of `_wrap_chunks` on a non-empty chunk list `c :: t`.
`first` = "no line has been emitted yet" (`not lines`). Returns (the chunks of the line, the rest). -/
def step (W : Nat) (indent : Nat) (first : Bool) (c : Str) (t : List Str) : List Str × List Str :=
  let width : Int := (W : Int) - (if first then (indent : Int) else 0)
  let chunks := if !first && isWs c then t else c :: t
  let cr := handleLong width (fill width 0 chunks)
  (dropLastWs cr.1, cr.2)

/-- The outer loop. Returns the lines WITHOUT their indentation; the initial indentation goes to the
first emitted line (`wrapLines`), the subsequent indentation is empty. The loop of the real code is
not structurally terminating, hence the fuel (`wrapLines` gives enough of it, see
`Proofs/ReportCell.lean`: every pass consumes a chunk or a character). -/
def wrapLoop (W : Nat) (indent : Nat) : Nat → Bool → List Str → List Str
  | 0, _, _ => []
  | _, _, [] => []
  | fuel + 1, first, c :: t =>
    let s := step W indent first c t
    if s.1.isEmpty then wrapLoop W indent fuel first s.2
    else s.1.flatten :: wrapLoop W indent fuel false s.2

def measure (cs : List Str) : Nat := cs.flatten.length + cs.length

/-- The contents of the lines of `textwrap.wrap(s, W, initial_indent=" " * indent)`. -/
def wrapContents (W indent : Nat) (s : Str) : List Str :=
  let cs := splitChunks s
  wrapLoop W indent (measure cs + 1) true cs

/-- `textwrap.wrap(s, W, initial_indent=" " * indent)`. -/
def wrapLines (W indent : Nat) (s : Str) : List Str :=
  match wrapContents W indent s with
  | [] => []
  | l :: r => (List.replicate indent ' ' ++ l) :: r

/-- `sep.join(lines)`. -/
def joinWith (sep : Str) : List Str → Str
  | [] => []
  | [a] => a
  | a :: b :: t => a ++ sep ++ joinWith sep (b :: t)

def tagOpen : Str := "<details><summary>".toList
def tagMid : Str := "</summary>".toList
def tagClose : Str := "</details>".toList
def tagBr : Str := "<br>".toList
def imported : Str := "_imported_".toList

/-- `enumeration_to_txt_factory(width, default)(s)` (sep `<br>`, the `<details>` template, initial
indent 3). `lines[0]` of an empty list (IndexError) cannot happen for the strings considered. -/
def enumerationToTxt (width : Nat) (dflt : Str) (s : Str) : Str :=
  if s.isEmpty then dflt
  else if s.length ≤ width then s
  else
    let lines := wrapLines width 3 s
    let summary := (lines.headD []).drop 3
    let details := joinWith tagBr lines.tail
    tagOpen ++ summary ++ tagMid ++ details ++ tagClose

/-- The `Location` cell of a row whose spans are `spans`, for `span_column_width = width`. -/
def renderCell (width : Nat) (spans : List Span) : Str :=
  enumerationToTxt width imported (joinSpans spans)

end Paroxy.ReportCell
