/-
Model of `paroxython/assess_costs.py` (LearningCostAssessor) with exact rationals.

Python computes with IEEE doubles; inside the envelope stated in DESIGN §3 (depth ≤ 40, totals
< 2¹²) every intermediate value is a dyadic rational that doubles represent exactly, so the harness
compares `Fraction(float)` with these `Rat`s for equality.
-/
import Paroxy.Model.Filter
namespace Paroxy.Costs
open Paroxy Paroxy.Filter

inductive Strategy | zeno | linear
  deriving Repr, DecidableEq, Inhabited

/-- `sum(2 ** ~i for i in range(start, stop))` (left to right from 0), resp. `float(stop - start)`. -/
def rangeCost : Strategy → Nat → Nat → Rat
  | .zeno, start, stop =>
    (List.range' start (stop - start)).foldl (fun acc i => acc + 1 / (2 : Rat) ^ (i + 1)) 0
  | .linear, start, stop => ((stop : Int) - (start : Int) : Int)

/-- `"/".join(edges[:n])`. -/
def prefixOf (edges : List Codes) (n : Nat) : Codes := joinWith 47 (edges.take n)

/-- The loop `for start in range(stop - 1, -1, -1): if "/".join(edges[:start]) in K: break`;
`findStart K edges n` has still to try `start = n-1, …, 0`; when the loop is exhausted `start`
keeps its last value, 0. -/
def findStart (K : List Codes) (edges : List Codes) : Nat → Nat
  | 0 => 0
  | n + 1 => if K.contains (prefixOf edges n) then n else findStart K edges n

/-- `taxon_cost` without memoisation. -/
def taxonCost (strat : Strategy) (K : List Codes) (t : Codes) : Rat :=
  if isMeta t then 0
  else if K.contains t then rangeCost strat 0 0
  else
    let edges := splitOn 47 t
    rangeCost strat (findStart K edges edges.length) edges.length

/-- The inner loop of `__call__`: `total_cost += self.taxon_cost(taxon_name)` over the record. -/
def programCost (strat : Strategy) (K : List Codes) (rec : TaxaSpans) : Rat :=
  rec.foldl (fun acc ts => acc + taxonCost strat K ts.1) 0

/-- Tuple order `(cost, path)` of Python's `sorted`. -/
def leCostPath (a b : Rat × Codes) : Bool :=
  decide (a.1 < b.1) || (decide (a.1 = b.1) && decide (a.2 ≤ b.2))

/-- `LearningCostAssessor.__call__`; `none` = `KeyError` (a selected path that is no program). -/
def assess (strat : Strategy) (progs : List (Codes × TaxaSpans)) (K : List Codes) (selected : List Codes) :
    Option (List (Rat × Codes)) := do
  let costs ← selected.mapM fun p => (dictGet? progs p).map fun rec => (programCost strat K rec, p)
  pure (costs.mergeSort leCostPath)

/-! ### The assessor as a state machine (memoised `taxon_cost`) -/

structure AState where
  knowledge : List Codes
  memo : List (Codes × Rat)

inductive AOp
  | setKnowledge (K : List Codes)
  | taxonCost (t : Codes)
  | assess (selected : List Codes)

inductive AOut
  | unit
  | cost (v : Rat)
  | ranking (r : Option (List (Rat × Codes)))

/-- Memoised `taxon_cost`: a cached value is returned as is. -/
def memoCost (strat : Strategy) (s : AState) (t : Codes) : AState × Rat :=
  match dictGet? s.memo t with
  | some v => (s, v)
  | none =>
    let v := taxonCost strat s.knowledge t
    ({ s with memo := s.memo ++ [(t, v)] }, v)

def memoProgramCost (strat : Strategy) (s : AState) (rec : TaxaSpans) : AState × Rat :=
  rec.foldl (fun (acc : AState × Rat) ts =>
    ((memoCost strat acc.1 ts.1).1, acc.2 + (memoCost strat acc.1 ts.1).2)) (s, 0)

def memoAssess (strat : Strategy) (progs : List (Codes × TaxaSpans)) (s : AState) :
    List Codes → AState × Option (List (Rat × Codes))
  | [] => (s, some [])
  | p :: ps =>
    match dictGet? progs p with
    | none => (s, none)
    | some rec =>
      let r1 := memoProgramCost strat s rec
      let r2 := memoAssess strat progs r1.1 ps
      (r2.1, r2.2.map fun l => (r1.2, p) :: l)

/-- One step. `set_imparted_knowledge` clears the memo (fix 0eef720). -/
def astep (strat : Strategy) (progs : List (Codes × TaxaSpans)) (s : AState) : AOp → AState × AOut
  | .setKnowledge K => ({ knowledge := K, memo := [] }, .unit)
  | .taxonCost t => ((memoCost strat s t).1, .cost (memoCost strat s t).2)
  | .assess sel =>
    ((memoAssess strat progs s sel).1,
      .ranking ((memoAssess strat progs s sel).2.map fun l => l.mergeSort leCostPath))

end Paroxy.Costs
