/-
Model of the glue of `paroxython/parse_program.py` that C12 and C02 are anchored in:

* `pos_to_span`, `get_bindings`;
* the deletion-consuming loop of `ProgramParser.__call__` (the same loop serves the regex stage
  and every SQL stage), the merge of the scheduled additions, the accumulation of the stages;
* the span of the `ast_construction:*` error label.

The answers of the `regex` engine (the bindings of the 173 features) and of SQLite (the labels
derived by each query from the current state of the database) are *parameters*: lists recorded
from the real run (treatment R1 of DESIGN §3). Core Lean only.
-/
import Paroxy.Model.Hints
namespace Paroxy.Glue
open Paroxy.Hints

/-- `Span(start, end, path)`. -/
abbrev Span3 := Nat × Nat × Str

/-- A computed occurrence: (label name, span). -/
abbrev Occ := Str × Span3

/-! ### `pos_to_span`, `get_bindings` -/

inductive PErr | valueError
  deriving DecidableEq, Repr

/-- `s.split(":")`. -/
def splitColon' : Str → Str × List Str
  | [] => ([], [])
  | c :: t =>
    let p := splitColon' t
    if c = ':' then ([], p.1 :: p.2) else (c :: p.1, p.2)

/-- `int(s)` for a non-empty string of ASCII digits (the only shape `_pos=` lines have). -/
def parseNat (s : Str) : Option Nat :=
  if s = [] then none
  else s.foldl (fun acc c => acc.bind fun n => if c.isDigit then some (10 * n + (c.toNat - 48)) else none) (some 0)

/-- `(line, path) = pos.split(":")` then `int(line)`: any other number of pieces, or a line that
is not a number, is a `ValueError`. -/
def parsePos (pos : Str) : Except PErr (Nat × Str) :=
  match splitColon' pos with
  | (a, [b]) =>
    match parseNat a with
    | some n => .ok (n, b)
    | none => .error .valueError
  | _ => .error .valueError

/-- `pos_to_span(pos)` for a non-empty list: the lines of the first and of the last capture, ORDERED
(the last captured position follows the first one in the flat AST, not necessarily in the source),
and the path of the first. -/
def posToSpan (first : Str) (last : Str) : Except PErr Span3 :=
  match parsePos first, parsePos last with
  | .ok (s, path), .ok (e, _) => .ok (min s e, max s e, path)   -- `sorted((int(start), int(end)))` (44b0b15)
  | _, _ => .error .valueError

def colon (a b : Str) : Str := a ++ ':' :: b

/-- The paired case of `get_bindings`: `zip(captures["SUFFIX"], captures["POS"])`. -/
def pairBindings (label : Str) : List (Str × Str) → Except PErr (List Occ)
  | [] => .ok []
  | (sfx, p) :: rest =>
    match posToSpan p p with
    | .error e => .error e
    | .ok sp =>
      match pairBindings label rest with
      | .error e => .error e
      | .ok l => .ok ((colon label sfx, sp) :: l)

/-- `get_bindings(label_prefix, captures)` with `captures["POS"]` non-empty (first :: rest) and
`captures.get("SUFFIX")` (`[]` when absent). -/
def getBindings (label : Str) (pos0 : Str) (posRest : List Str) (suffix : List Str) :
    Except PErr (List Occ) :=
  let pos := pos0 :: posRest
  let last := pos.getLast (by simp [pos])
  if suffix = [] then
    match posToSpan pos0 last with
    | .error e => .error e
    | .ok sp => .ok [(label, sp)]
  else if pos.length = suffix.length then
    pairBindings label (suffix.zip pos)
  else
    match posToSpan pos0 last with
    | .error e => .error e
    | .ok sp => .ok (suffix.map fun sfx => (colon label sfx, sp))

/-- The span of the `ast_construction:*` label: `Span(1, source.count("\n") + 1)`. -/
def errorSpan (source : Str) : Nat × Nat := (1, source.count '\n' + 1)

/-! ### Scheduled deletions -/

/-- `list.remove(x)` when `x` is in the list. -/
def removeFirst (sp : Nat × Nat) : List (Nat × Nat) → Option (List (Nat × Nat))
  | [] => none
  | x :: xs => if x = sp then some xs else (removeFirst sp xs).map (x :: ·)

/-- `program.deletion[name].remove(Span(start, end))`: `none` stands for the `KeyError` /
`ValueError` the loop catches. -/
def consume (name : Str) (sp : Nat × Nat) : Sched → Option Sched
  | [] => none
  | (k, l) :: rest =>
    if k = name then (removeFirst sp l).map fun l' => (k, l') :: rest
    else (consume name sp rest).map ((k, l) :: ·)

/-- The deletion-consuming loop over the computed occurrences, in order: an occurrence whose
(start, end) is scheduled for deletion under its name consumes that entry and is dropped, the
others are kept. Returns (kept occurrences, remaining deletions). -/
def stage (del : Sched) : List Occ → List Occ × Sched
  | [] => ([], del)
  | o :: os =>
    match consume o.1 (o.2.1, o.2.2.1) del with
    | some del' => stage del' os
    | none => (o :: (stage del os).1, (stage del os).2)

/-! ### Labels: a `defaultdict(list)` in insertion order -/

abbrev Labels := List (Str × List Span3)

def Labels.push (ls : Labels) (name : Str) (sp : Span3) : Labels :=
  match ls with
  | [] => [(name, [sp])]
  | (k, l) :: rest => if k = name then (k, l ++ [sp]) :: rest else (k, l) :: Labels.push rest name sp

def group (occs : List Occ) : Labels := occs.foldl (fun ls o => ls.push o.1 o.2) []

def span3Le (a b : Span3) : Bool :=
  a.1 < b.1 || (a.1 == b.1 && (a.2.1 < b.2.1 || (a.2.1 == b.2.1 && decide (a.2.2 ≤ b.2.2))))

/-- `labels[name].extend(spans); labels[name].sort()` for one scheduled addition. -/
def Labels.extendSort (ls : Labels) (name : Str) (spans : List (Nat × Nat)) : Labels :=
  let new : List Span3 := spans.map fun sp => (sp.1, sp.2, [])
  match ls with
  | [] => [(name, isort span3Le new)]
  | (k, l) :: rest =>
    if k = name then (k, isort span3Le (l ++ new)) :: rest
    else (k, l) :: Labels.extendSort rest name spans

def mergeAdditions (ls : Labels) (add : Sched) : Labels :=
  add.foldl (fun acc p => acc.extendSort p.1 p.2) ls

/-- The regex stage of `ProgramParser.__call__`: bindings minus consumed deletions, plus additions. -/
def regexStage (del add : Sched) (computed : List Occ) : Labels × Sched :=
  let r := stage del computed
  (mergeAdditions (group r.1) add, r.2)

/-- One SQL stage: the derived labels (as recorded) minus consumed deletions; the result is
appended to `result` when it is not empty. -/
def sqlStage (del : Sched) (derived : List Occ) : Labels × Sched :=
  let r := stage del derived
  (group r.1, r.2)

/-- All the stages: `result` (before the final `sorted`) and what is left of the deletions. -/
def parse (del add : Sched) (computed : List Occ) (derived : List (List Occ)) : Labels × Sched :=
  let r0 := regexStage del add computed
  derived.foldl (fun acc d => let r := sqlStage acc.2 d; (acc.1 ++ r.1, r.2)) r0

/-! ### Counting -/

/-- The label names of a schedule (Python dict keys). -/
def keys (s : Sched) : List Str := s.map (·.1)


/-- Occurrences named `name` whose (start, end) is `sp`, whatever the path. -/
def occCount (occs : List Occ) (name : Str) (sp : Nat × Nat) : Nat :=
  occs.countP fun o => o.1 == name && (o.2.1, o.2.2.1) == sp

def Labels.count (ls : Labels) (name : Str) (sp : Nat × Nat) : Nat :=
  (ls.map fun p => if p.1 = name then p.2.countP (fun s => (s.1, s.2.1) == sp) else 0).sum

end Paroxy.Glue
