/-
Model of the manual-hint machinery of paroxython, as written in /repo now:

* `paroxython/preprocess_source.py`: `centrifugate_hints`, `HintBuffer`, `collect_hints`, `remove_hints`
  and the four fixed regexes they use (treatment R2 of DESIGN §3: each regex is re-expressed as a
  structural function on `List Char`, validated against the real `regex` engine by the token-level
  bounded-exhaustive streams of harness/c12.py);
* `paroxython/list_programs.py`: `get_program`.

Core Lean only (no Mathlib): this file is linked into the native driver.

Character classes: fixed on ASCII and on `…` (U+2026); for every other character the classes `\w`
and `\s` are oracle parameters (`CharOracle`), universally quantified in the theorems.
-/
namespace Paroxy.Hints

abbrev Str := List Char

/-- Exception classes the hint machinery can raise. -/
inductive Err
  | valueError   -- `print_fail`
  | indexError   -- `lines[0]` on an empty list in `centrifugate_hints`
  deriving DecidableEq, Repr, Inhabited

/-! ### Character classes -/

/-- The character classes of the real engines beyond ASCII, as ORACLE parameters (treatment R1): the
theorems hold for every such pair of functions; in the correspondence runs the harness computes them
with the real `regex` module and `str.isspace` for every non-ASCII character of the input.
`word c` ⇔ `regex` `\w` matches `c`; `space c` ⇔ `regex` `\s` matches `c` ⇔ `c.isspace()` (the two
agree on every non-ASCII character). -/
structure CharOracle where
  word : Char → Bool
  space : Char → Bool

/-- The oracle that knows no non-ASCII word or space character (used by the concrete examples). -/
def asciiOracle : CharOracle := ⟨fun _ => false, fun _ => false⟩

variable (O : CharOracle)

/-- `\s` of the `regex` module: fixed on ASCII, `…` (U+2026) is not white space, the oracle elsewhere. -/
def isSpaceRe (c : Char) : Bool :=
  if c.toNat < 128 then (9 ≤ c.toNat && c.toNat ≤ 13) || c.toNat == 32
  else c != '…' && O.space c

/-- `str.isspace` (used by `str.split()` and `str.strip()`): also the separators 0x1c–0x1f. -/
def isSpacePy (c : Char) : Bool := (isSpaceRe O) c || (28 ≤ c.toNat && c.toNat ≤ 31)

/-- `\w` of the `regex` module: fixed on ASCII, `…` is not a word character, the oracle elsewhere. -/
def isWord (c : Char) : Bool :=
  if c.toNat < 128 then c.isAlphanum || c == '_'
  else c != '…' && O.word c

/-! ### Generic string primitives -/

/-- Insertion sort (structural, so that it computes in the kernel): Python's `sorted` / `list.sort`
on a total order. -/
def insertBy {α : Type} (le : α → α → Bool) (x : α) : List α → List α
  | [] => [x]
  | y :: ys => if le x y then x :: y :: ys else y :: insertBy le x ys

def isort {α : Type} (le : α → α → Bool) (l : List α) : List α := l.foldr (insertBy le) []


/-- `str.split("\n")` as a non-empty list: (first piece, other pieces). -/
def splitNL' : Str → Str × List Str
  | [] => ([], [])
  | c :: t =>
    let p := splitNL' t
    if c = '\n' then ([], p.1 :: p.2) else (c :: p.1, p.2)

/-- `str.split("\n")`. -/
def splitNL (s : Str) : List Str := (splitNL' s).1 :: (splitNL' s).2

/-- `"\n".join(lines)`. -/
def joinNL : List Str → Str
  | [] => []
  | [l] => l
  | l :: ls => l ++ '\n' :: joinNL ls

/-- `p in s` (substring test). -/
def hasInfix (p : Str) : Str → Bool
  | [] => p.isPrefixOf []
  | c :: t => p.isPrefixOf (c :: t) || hasInfix p t

/-- `s.partition(m)` when `m` occurs: (text before the first occurrence, text after it). -/
def partitionAt (m : Str) : Str → Option (Str × Str)
  | [] => if m.isPrefixOf [] then some ([], []) else none
  | c :: t =>
    if m.isPrefixOf (c :: t) then some ([], (c :: t).drop m.length)
    else (partitionAt m t).map fun p => (c :: p.1, p.2)

/-- `str.split()` as (current word, possibly empty; following words). -/
def splitWs' : Str → Str × List Str
  | [] => ([], [])
  | c :: t =>
    let p := splitWs' t
    if (isSpacePy O) c then ([], if p.1 = [] then p.2 else p.1 :: p.2) else (c :: p.1, p.2)

/-- `str.split()`: maximal runs of non-white-space characters. -/
def splitWs (s : Str) : List Str :=
  let p := (splitWs' O) s
  if p.1 = [] then p.2 else p.1 :: p.2

/-- `str.strip()`. -/
def stripPy (s : Str) : Str := ((s.dropWhile (isSpacePy O)).reverse.dropWhile (isSpacePy O)).reverse

/-! ### The hint marker and the four regexes -/

/-- `HINT_COMMENT = "# paroxython:"`. -/
def m13 : Str := ['#', ' ', 'p', 'a', 'r', 'o', 'x', 'y', 't', 'h', 'o', 'n', ':']
/-- `f"{HINT_COMMENT} "`. -/
def m14 : Str := m13 ++ [' ']
def dots3 : Str := ['.', '.', '.']
def ell : Char := '…'

/-- `regex.compile(r"[\s\x1c-\x1f]*# paroxython:(?: (.*))?$").match(line)` (the white space of
`str.strip`, 80f9da8) and then `m[1] or ""`, for a line
without `\n`: after the white space and the marker comes either the end of the line, or a space and
the rest of the line (possibly empty); anything else is not an isolated hint. -/
def isolatedRest (line : Str) : Option Str :=
  let r := line.dropWhile (isSpacePy O)
  if m13.isPrefixOf r then
    match r.drop 13 with
    | [] => some []
    | c :: rest => if c = ' ' then some rest else none
  else none

/-- What precedes the label in `^((?:-|\+|\.\.\.|…)?)(\w.*?)((?:\.\.\.|…)?)$`. -/
inductive Before | none | plus | minus | dots
  deriving DecidableEq, Repr, Inhabited

/-- Third group of the token regex: the lazy `\w.*?` stops at the first length for which the rest
is `...`, `…` or empty, i.e. a final ellipsis is always given to the third group. -/
def splitAfter (r : Str) : Str × Bool :=
  match r.reverse with
  | '.' :: '.' :: '.' :: l => (l.reverse, true)
  | c :: l => if c = ell then (l.reverse, true) else (r, false)
  | [] => (r, false)

/-- `match_label(token).groups()`: the optional first group is greedy; when the label cannot
start right after it the engine retries with an empty first group, which fails too because
`-`, `+`, `.`, `…` are not word characters. -/
def matchLabel (t : Str) : Option (Before × Str × Bool) :=
  let p : Before × Str :=
    match t with
    | '-' :: r => (.minus, r)
    | '+' :: r => (.plus, r)
    | '.' :: '.' :: '.' :: r => (.dots, r)
    | c :: r => if c = ell then (.dots, r) else (.none, c :: r)
    | [] => (.none, [])
  match p.2 with
  | c :: _ => if (isWord O) c then some (p.1, (splitAfter p.2).1, (splitAfter p.2).2) else none
  | [] => none

/-- `regex.compile(r"[\s\x1c-\x1f]*# paroxython:.*").sub("", text)` over the WHOLE text: a match starts at
the first position from which a run of white space (newlines included) is followed by the marker
(with or without a space after the colon: an empty hint comment at the end of the text has lost it
to the final trimming, F46), and extends to the end of the marker's line. -/
def hintAhead (s : Str) : Bool := m13.isPrefixOf (s.dropWhile (isSpacePy O))

def subHints : Bool → Str → Str
  | _, [] => []
  | skipping, c :: t =>
    if skipping && c != '\n' then subHints true t
    else if (hintAhead O) (c :: t) then subHints true t
    else c :: subHints false t

/-- `remove_hints`. -/
def removeHints (s : Str) : Str := (stripPy O) ((subHints O) false s)

/-! ### `centrifugate_hints` -/

/-- `set(tokens)`: one copy of each token. -/
def dedup : List Str → List Str
  | [] => []
  | x :: xs => if x ∈ dedup xs then dedup xs else x :: dedup xs

/-- Python `sorted(set(tokens))`: code-point lexicographic order. -/
def sortDedup (l : List Str) : List Str := isort (fun a b => decide (a ≤ b)) (dedup l)

/-- The loop over the lines: (lines kept, tokens of the isolated hints in reading order). -/
def scanIsolated : List Str → List Str × List Str
  | [] => ([], [])
  | l :: ls =>
    let p := scanIsolated ls
    match (isolatedRest O) l with
    | some rest => (p.1, (splitWs O) rest ++ p.2)
    | none => (l :: p.1, p.2)

/-- `if "# paroxython:" not in line: line += " # paroxython:"` (a hint comment glued to the code
is a hint comment too, F45). -/
def addMarker (l : Str) : Str := if hasInfix m13 l then l else l ++ ' ' :: m13

def openTok (h : Str) : Str := ' ' :: h ++ dots3
def closeTok (h : Str) : Str := ' ' :: dots3 ++ h

/-- The two loops that decorate `lines[0]` and `lines[-1]` (the same line when there is only one). -/
def centLines (hs : List Str) : List Str → List Str
  | [] => []
  | [l] => [addMarker l ++ hs.flatMap fun h => openTok h ++ closeTok h]
  | l :: l2 :: ls =>
    (addMarker l ++ hs.flatMap openTok) ::
      ((l2 :: ls).dropLast ++ [addMarker ((l2 :: ls).getLast (by simp)) ++ hs.flatMap closeTok])

/-- `not line.strip()`. -/
def blankPy (l : Str) : Bool := l.all (isSpacePy O)

/-- The two `while lines and not lines[i].strip(): del lines[i]` loops: blank lines left at the ends
once the isolated hints are gone are not numbered. -/
def trimBlank (ls : List Str) : List Str := ((ls.dropWhile (blankPy O)).reverse.dropWhile (blankPy O)).reverse

def centrifugate (src : Str) : Except Err Str :=
  let p := (scanIsolated O) (splitNL src)
  let kept := (trimBlank O) p.1
  if p.2 = [] then .ok (joinNL kept)
  else match kept with
    | [] => .error .indexError
    | ls => .ok (joinNL (centLines (sortDedup p.2) ls))

/-! ### `HintBuffer` and `collect_hints` -/

/-- A scheduled span, still flat: (label, start, end). -/
abbrev Entry := Str × Nat × Nat

/-- One `HintBuffer`: `result` in append order, and all the per-label stacks in one list, most
recent first (the stack of label `L` is the sub-list of the entries labelled `L`). -/
structure Buf where
  result : List Entry := []
  stack : List (Str × Nat) := []
  deriving Repr, DecidableEq

/-- `self.stack[label][-1]` if any. -/
def top (L : Str) : List (Str × Nat) → Option Nat
  | [] => none
  | (l, x) :: t => if l = L then some x else top L t

/-- `self.stack[label].pop()`. -/
def pop (L : Str) : List (Str × Nat) → List (Str × Nat)
  | [] => []
  | (l, x) :: t => if l = L then t else (l, x) :: pop L t

def Buf.append (b : Buf) (L : Str) (i : Nat) : Buf := { b with result := b.result ++ [(L, i, i)] }
def Buf.open (b : Buf) (L : Str) (i : Nat) : Buf := { b with stack := (L, i) :: b.stack }
def Buf.close (b : Buf) (L : Str) (x i : Nat) : Buf :=
  { result := b.result ++ [(L, x, i)], stack := pop L b.stack }

structure Bufs where
  add : Buf := {}
  del : Buf := {}
  deriving Repr, DecidableEq

/-- What a token says once matched. -/
structure Tok where
  before : Before
  label : Str
  after : Bool
  deriving Repr, DecidableEq

/-- The body of the inner loop of `collect_hints` for one matched token on line `i`. -/
def stepEv (i : Nat) (st : Bufs) (t : Tok) : Except Err Bufs :=
  match t.before, t.after with
  | .dots, true => .error .valueError            -- "Illegal last part"
  | .dots, false =>
    match top t.label st.add.stack, top t.label st.del.stack with
    | none, none => .error .valueError           -- "Unmatched closing hint"
    | some x, none => .ok { st with add := st.add.close t.label x i }
    | none, some y => .ok { st with del := st.del.close t.label y i }
    | some x, some y =>                          -- `max(champions, key=line)`: the first maximum, i.e.
      if x < y then .ok { st with del := st.del.close t.label y i }   -- the addition buffer on a tie
      else .ok { st with add := st.add.close t.label x i }
  | .minus, true => .ok { st with del := st.del.open t.label i }
  | .minus, false => .ok { st with del := st.del.append t.label i }
  | _, true => .ok { st with add := st.add.open t.label i }
  | _, false => .ok { st with add := st.add.append t.label i }

def stepTok (i : Nat) (st : Bufs) (tok : Str) : Except Err Bufs :=
  match (matchLabel O) tok with
  | none => .error .valueError                   -- "(Malformed O) hint"
  | some (b, L, a) => stepEv i st ⟨b, L, a⟩

/-- The tokens of the hint comment of a line (`[]` when the line has no `# paroxython: `). -/
def hintTokens (line : Str) : List Str :=
  match partitionAt m14 line with
  | some p => (splitWs O) p.2
  | none => []

/-- All (line number, token) pairs of a text, in reading order; lines are numbered from 1. -/
def numberedTokens (i : Nat) : List Str → List (Nat × Str)
  | [] => []
  | l :: ls => ((hintTokens O) l).map (fun t => (i, t)) ++ numberedTokens (i + 1) ls

def runToks (st : Bufs) : List (Nat × Str) → Except Err Bufs
  | [] => .ok st
  | (i, t) :: rest =>
    match (stepTok O) i st t with
    | .ok st' => runToks st' rest
    | .error e => .error e

/-- A schedule as the implementation returns it: label ↦ sorted list of (start, end), labels in
first-append order (Python dict order; never compared). -/
abbrev Sched := List (Str × List (Nat × Nat))

def spanLe (a b : Nat × Nat) : Bool := a.1 < b.1 || (a.1 == b.1 && a.2 ≤ b.2)

def labelsOf : List Entry → List Str
  | [] => []
  | e :: es => e.1 :: (labelsOf es).filter (· ≠ e.1)

def spansOf (L : Str) (res : List Entry) : List (Nat × Nat) :=
  res.filterMap fun e => if e.1 = L then some e.2 else none

/-- `HintBuffer.get_result`. -/
def getResult (res : List Entry) : Sched :=
  (labelsOf res).map fun L => (L, isort spanLe (spansOf L res))

/-- `ensure_stack_is_empty` on both buffers, then the two `get_result()`. -/
def finish (st : Bufs) : Except Err (Sched × Sched) :=
  if st.add.stack ≠ [] then .error .valueError
  else if st.del.stack ≠ [] then .error .valueError
  else .ok (getResult st.add.result, getResult st.del.result)

def collectToks (toks : List (Nat × Str)) : Except Err (Sched × Sched) :=
  match (runToks O) {} toks with
  | .ok st => finish st
  | .error e => .error e

/-- `collect_hints(source)`. -/
def collectHints (src : Str) : Except Err (Sched × Sched) :=
  (collectToks O) ((numberedTokens O) 1 (splitNL src))

/-! ### Marker normalisation and trimming (first steps of `get_program`) -/

/-- States of the scan for `(?i)#\s*paroxython\s*:\s*` (a deterministic scan is exact: `#` occurs
only at the start of the pattern, and white space, the letters and `:` are disjoint classes). -/
inductive NState
  | idle
  | hash               -- after `#`, skipping white space
  | letters (k : Nat)  -- `k` letters of `paroxython` matched, 1 ≤ k ≤ 10
  | after              -- after the ten letters and some white space
  | tail               -- just after a match: the final `\s*` is still eating white space
  deriving DecidableEq, Repr

inductive NAct
  | cont (s : NState)  -- the character joins the pending attempt
  | reset              -- the pending attempt fails on this character (which cannot start a new one)
  | hash               -- `#`: whatever was pending fails, a new attempt starts
  | accept             -- `:` completes a match
  | drop               -- white space eaten by the final `\s*`

def pletters : Str := ['p', 'a', 'r', 'o', 'x', 'y', 't', 'h', 'o', 'n']

/-- The `k`-th letter of `paroxython`, case-insensitively. -/
def letterAt (k : Nat) (c : Char) : Bool :=
  match pletters[k]? with
  | some p => c.toLower == p
  | none => false

def nstep (st : NState) (c : Char) : NAct :=
  if c = '#' then .hash
  else match st with
    | .idle => .reset
    | .hash => if (isSpaceRe O) c then .cont .hash else if letterAt 0 c then .cont (.letters 1) else .reset
    | .letters k =>
      if k < 10 then (if letterAt k c then .cont (.letters (k + 1)) else .reset)
      else if c = ':' then .accept else if (isSpaceRe O) c then .cont .after else .reset
    | .after => if c = ':' then .accept else if (isSpaceRe O) c then .cont .after else .reset
    | .tail => if (isSpaceRe O) c then .drop else .reset

/-- `pend` is the text of the pending attempt (emitted unchanged if the attempt fails). -/
def normGo : NState → Str → Str → Str
  | _, pend, [] => pend
  | st, pend, c :: t =>
    match (nstep O) st c with
    | .cont s => normGo s (pend ++ [c]) t
    | .reset => pend ++ c :: normGo .idle [] t
    | .hash => pend ++ normGo .hash ['#'] t
    | .accept => m14 ++ normGo .tail [] t
    | .drop => normGo .tail [] t

/-- `Cleanup.normalize_paroxython_comments(line)[0]` for a line without `\n`. -/
def normLine (l : Str) : Str := (normGo O) .idle [] l

/-- What `\A(\s*\n)+` leaves of the leading white space `w`: what follows its last newline. -/
def keepAfterLastNL (w : Str) : Str :=
  if w.contains '\n' then (w.reverse.takeWhile (· != '\n')).reverse else w

/-- `regex.sub(r"\A(\s*\n)+|\s+\Z", "", text)`: leading blank lines and trailing white space go. -/
def trimEnds (s : Str) : Str :=
  let lead := keepAfterLastNL (s.takeWhile (isSpaceRe O)) ++ s.dropWhile (isSpaceRe O)
  (lead.reverse.dropWhile (isSpaceRe O)).reverse

/-- The text `get_program` numbers the hints on. -/
def prepare (src : Str) : Str := (trimEnds O) (joinNL ((splitNL src).map (normLine O)))

/-! ### `get_program` -/

structure Program where
  source : Str
  addition : Sched
  deletion : Sched
  deriving Repr, DecidableEq

/-- `get_program` from the prepared text on: centrifugate, collect, remove. -/
def getProgramFrom (text : Str) : Except Err Program :=
  match (centrifugate O) text with
  | .error e => .error e
  | .ok c =>
    match (collectHints O) c with
    | .error e => .error e
    | .ok (a, d) => .ok ⟨(removeHints O) c, a, d⟩

/-- `get_program(source)`. -/
def getProgram (src : Str) : Except Err Program := (getProgramFrom O) ((prepare O) src)

/-- Number of lines of a listing (`text.count("\n") + 1`). -/
def lineCount (s : Str) : Nat := (splitNL s).length

/-- Occurrences of `(L, s, e)` in a schedule. -/
def Sched.count (sch : Sched) (L : Str) (sp : Nat × Nat) : Nat :=
  (sch.map fun p => if p.1 = L then p.2.count sp else 0).sum

/-- All the entries of a schedule, flat. -/
def Sched.entries (sch : Sched) : List Entry :=
  sch.flatMap fun p => p.2.map fun sp => (p.1, sp.1, sp.2)

end Paroxy.Hints
