/-
Model of `paroxython/filter_programs.py` (class ProgramFilter) and of the command parsing of
`Recommendations.run_pipeline` (paroxython/recommend_programs.py).

* Names (program paths, taxon names, patterns) are code-point lists (`Codes`).
* Python sets are lists read modulo membership; `collections.Counter` is read through its
  membership/count semantics (`inBag`).
* The `regex` engine on user patterns is an ORACLE parameter (`Oracle`): theorems hold for every
  oracle; the harness computes the oracle tables with the real engine.
* Predicates of triples go through the model of `normalize_predicate` (C16) and the generated
  relation table (C08).
-/
import Paroxy.Model.CompareSpans
import Paroxy.Model.NormalizePredicate
namespace Paroxy.Filter
open Paroxy

/-- The answers of the regex engine: `regex.compile(f"{pattern}\b").match(taxon)` and
`regex.compile(pattern).match(path)`. -/
structure Oracle where
  matchTaxon : Codes → Codes → Bool
  matchProg : Codes → Codes → Bool

abbrev TaxaSpans := List (Codes × List Span)     -- dict taxon ↦ list of spans (a program's "taxa")

/-- The JSON tag database, as far as the filter reads it. -/
structure DB where
  programs : List (Codes × TaxaSpans)            -- db["programs"][path]["taxa"]
  taxa : List (Codes × List Codes)               -- db["taxa"][taxon] = paths
  importations : List (Codes × List Codes)
  exportations : List (Codes × List Codes)
  deriving Repr, Inhabited

def sMeta : Codes := [109, 101, 116, 97, 47]     -- "meta/"
def isMeta (t : Codes) : Bool := sMeta.isPrefixOf t

/-! ### `add_imported_taxa` -/

/-- `importer_taxa[exported_taxon] = []` when absent. -/
def addIfAbsent (rec : TaxaSpans) (t : Codes) : TaxaSpans :=
  match dictGet? rec t with
  | some _ => rec
  | none => rec ++ [(t, [])]

/-- Replace the record of program `p` (which exists) by `f` of it. -/
def updateProgram (progs : List (Codes × TaxaSpans)) (p : Codes) (f : TaxaSpans → TaxaSpans) :
    List (Codes × TaxaSpans) :=
  progs.map fun (q, r) => if q = p then (q, f r) else (q, r)

/-- One iteration of the outer loop: the exporter's *current* taxa (a snapshot) that are not under
`meta/` are added, with an empty span list, to every importer that lacks them.
`none` = `KeyError` (an exporter or importer that is not a program of the database). -/
def addImportedStep (progs : List (Codes × TaxaSpans)) (e : Codes × List Codes) :
    Option (List (Codes × TaxaSpans)) := do
  let rec ← dictGet? progs e.1
  let exported := (rec.map (·.1)).filter (fun t => !isMeta t)
  if exported.isEmpty then pure progs else
  e.2.foldlM (fun acc importer =>
    match dictGet? acc importer with
    | none => none
    | some _ => some (updateProgram acc importer (fun r => exported.foldl addIfAbsent r))) progs

def addImported (db : DB) : Option (List (Codes × TaxaSpans)) :=
  db.exportations.foldlM addImportedStep db.programs

/-! ### Filter state -/

structure State where
  selected : List Codes
  knowledge : List Codes
  hiddenTaxa : List Codes
  hiddenPrograms : List Codes
  deriving Repr, Inhabited

/-- The filter after `__init__`: the database shortcuts with imported taxa added. -/
structure Ctx where
  orc : Oracle
  programs : List (Codes × TaxaSpans)
  taxa : List (Codes × List Codes)
  exportations : List (Codes × List Codes)

def initState (progs : List (Codes × TaxaSpans)) : State :=
  { selected := progs.map (·.1), knowledge := [], hiddenTaxa := [], hiddenPrograms := [] }

def taxaOfPattern (c : Ctx) (pat : Codes) : List Codes :=
  (c.taxa.map (·.1)).filter (c.orc.matchTaxon pat)

def programsOfPattern (c : Ctx) (pat : Codes) : List Codes :=
  (c.programs.map (·.1)).filter (c.orc.matchProg pat)

def taxaOfPrograms (c : Ctx) (progs : List Codes) (follow : Bool) : List Codes :=
  progs.flatMap fun p =>
    match dictGet? c.programs p with
    | none => []
    | some rec => (rec.filter fun (_, spans) => !spans.isEmpty || follow).map (·.1)

/-- `programs_of_taxa`; `none` = `KeyError` on `db_exportations[program]`. -/
def programsOfTaxa (c : Ctx) (taxa : List Codes) (follow : Bool) : Option (List Codes) :=
  let direct := taxa.flatMap fun t => (dictGet? c.taxa t).getD []
  if follow then
    if direct.all (fun p => (dictGet? c.exportations p).isSome) then
      some (direct ++ direct.flatMap fun p => (dictGet? c.exportations p).getD [])
    else none
  else some direct

/-! ### Triples -/

/-- All occurrences `(taxon, index, span)` of the given taxa in a program's record. -/
def occurrences (rec : TaxaSpans) (taxa : List Codes) : List (Codes × Nat × Span) :=
  taxa.flatMap fun t =>
    match dictGet? rec t with
    | none => []
    | some spans => (spans.zipIdx).map fun (s, i) => (t, i, s)

/-- `iterate_on_spans`: for each pair of taxa present in the record, `permutations(spans, 2)` on
the diagonal, `product` elsewhere — i.e. all pairs of *distinct occurrences*. -/
def spanPairs (rec : TaxaSpans) (taxa1 taxa2 : List Codes) : List (Span × Span) :=
  (occurrences rec taxa1).flatMap fun (t1, i1, s1) =>
    (occurrences rec taxa2).filterMap fun (t2, i2, s2) =>
      if t1 = t2 ∧ i1 = i2 then none else some (s1, s2)

def programsOfTriple (c : Ctx) (p1 : Codes) (pred : Span → Span → Bool) (p2 : Codes) : List Codes :=
  let taxa1 := taxaOfPattern c p1
  let taxa2 := taxaOfPattern c p2
  let progs1 := taxa1.flatMap fun t => (dictGet? c.taxa t).getD []
  let progs2 := taxa2.flatMap fun t => (dictGet? c.taxa t).getD []
  (progs1.filter (progs2.contains ·)).filter fun p =>
    match dictGet? c.programs p with
    | none => false
    | some rec => (spanPairs rec taxa1 taxa2).any fun (s1, s2) => pred s1 s2

/-- `programs_of_negated_triple` (as repaired by fix 36d3c6b): all programs featuring a subject
taxon, minus those also featuring an object taxon in which *every* subject occurrence is in
relation with some *other* object occurrence. -/
def programsOfNegatedTriple (c : Ctx) (p1 : Codes) (pred : Span → Span → Bool) (p2 : Codes) :
    List Codes :=
  let taxa1 := taxaOfPattern c p1
  let taxa2 := taxaOfPattern c p2
  let progs1 := taxa1.flatMap fun t => (dictGet? c.taxa t).getD []
  let progs2 := taxa2.flatMap fun t => (dictGet? c.taxa t).getD []
  progs1.filter fun p =>
    !(progs2.contains p) ||
    match dictGet? c.programs p with
    | none => true
    | some rec =>
      let occ2 := occurrences rec taxa2
      (occurrences rec taxa1).any fun (t1, i1, s1) =>
        !(occ2.any fun (t2, i2, s2) => !(t1 = t2 ∧ i1 = i2) && pred s1 s2)

/-! ### Criteria and commands -/

/-- Sequential evaluation with Python's exception semantics: the first error is raised. -/
def mapE {α β ε : Type} (f : α → Except ε β) : List α → Except ε (List β)
  | [] => .ok []
  | a :: t =>
    match f a with
    | .error e => .error e
    | .ok b =>
      match mapE f t with
      | .error e => .error e
      | .ok bs => .ok (b :: bs)

def foldE {σ α ε : Type} (f : σ → α → Except ε σ) : σ → List α → Except ε σ
  | s, [] => .ok s
  | s, a :: t =>
    match f s a with
    | .error e => .error e
    | .ok s' => foldE f s' t

inductive Criterion
  | pattern (p : Codes)
  | triple (p1 : Codes) (pred : Codes) (p2 : Codes)
  deriving Repr, Inhabited, DecidableEq

def sDotPy : Codes := [46, 112, 121]   -- ".py"
def endsWithPy (p : Codes) : Bool := sDotPy.isPrefixOf (p.reverse.take 3).reverse && p.length ≥ 3

inductive Err | valueError | keyError
  deriving Repr, DecidableEq, Inhabited

/-- The dictionary of relation names and the table, as `normalize_predicate` and the filter see
them (instantiated with the generated table). -/
structure Relations where
  names : List (Codes × Codes)
  table : List (Codes × PyExpr)

def Relations.predicate (r : Relations) (raw : Codes) : Except Err ((Span → Span → Bool) × Bool) :=
  match NP.normalize r.names raw with
  | none => .error .valueError
  | some (key, neg) =>
    match dictGet? r.table key with
    | none => .error .keyError
    | some e => .ok (fun x y => e.holds x y, neg)

/-- The set of programs one criterion contributes to the bag (`programs_of_criteria`). -/
def criterionPrograms (c : Ctx) (r : Relations) (follow : Bool) : Criterion → Except Err (List Codes)
  | .pattern p =>
    if endsWithPy p then .ok (programsOfPattern c p)
    else match programsOfTaxa c (taxaOfPattern c p) follow with
      | some l => .ok l
      | none => .error .keyError
  | .triple p1 raw p2 =>
    match r.predicate raw with
    | .error e => .error e
    | .ok (pred, neg) =>
      .ok (if neg then programsOfNegatedTriple c p1 pred p2 else programsOfTriple c p1 pred p2)

/-- Membership in `set(program_bag)` after the `all` adjustment
`program_bag -= Counter({p: len(criteria) - 1 for p in program_bag})`. -/
def inBag (sets : List (List Codes)) (quantAll : Bool) (p : Codes) : Bool :=
  let n := (sets.filter (·.contains p)).length
  if quantAll then decide (n > sets.length - 1) && decide (n > 0) else decide (n > 0)

inductive Operation | include | exclude | impart | hide
  deriving Repr, DecidableEq, Inhabited

/-- All `/`-prefixes of a taxon name: `"/".join(edges[:i+1])`. -/
def splitOn (sep : Nat) (s : Codes) : List Codes :=
  s.foldr (fun ch acc =>
    if ch = sep then [] :: acc
    else match acc with
      | [] => [[ch]]
      | h :: t => (ch :: h) :: t) [[]]

def joinWith (sep : Nat) : List Codes → Codes
  | [] => []
  | [a] => a
  | a :: b :: t => a ++ sep :: joinWith sep (b :: t)

def prefixes (t : Codes) : List Codes :=
  let edges := splitOn 47 t
  (List.range edges.length).map fun i => joinWith 47 (edges.take (i + 1))

def excludePrograms (c : Ctx) (st : State) (progs : List Codes) (follow : Bool) : State :=
  let drop := if follow then progs ++ progs.flatMap fun p => (dictGet? c.exportations p).getD [] else progs
  { st with selected := st.selected.filter fun p => !drop.contains p }

def patternOf : Criterion → Option Codes
  | .pattern p => some p
  | _ => none

/-- `update_filter(criteria, operation, quantifier)`. For `impart`/`hide` only string patterns are
modelled (the code applies `str()` to any other criterion). -/
def updateFilter (c : Ctx) (r : Relations) (st : State) (criteria : List Criterion) (op : Operation)
    (quantAll : Bool) : Except Err State :=
  match op with
  | .impart =>
    let pats := criteria.filterMap patternOf
    let progs := (pats.filter endsWithPy).flatMap (programsOfPattern c)
    let taxa := pats.flatMap fun p =>
      if endsWithPy p then taxaOfPrograms c (programsOfPattern c p) false else taxaOfPattern c p
    let st := excludePrograms c st progs false
    .ok { st with knowledge := st.knowledge ++ taxa.flatMap prefixes }
  | .hide =>
    let pats := criteria.filterMap patternOf
    .ok { st with
      hiddenPrograms := st.hiddenPrograms ++ (pats.filter endsWithPy).flatMap (programsOfPattern c),
      hiddenTaxa := st.hiddenTaxa ++ (pats.filter (!endsWithPy ·)).flatMap (taxaOfPattern c) }
  | .include => do
    let sets ← mapE (criterionPrograms c r false) criteria
    pure { st with selected := st.selected.filter (inBag sets quantAll) }
  | .exclude => do
    let sets ← mapE (criterionPrograms c r true) criteria
    let bag := (sets.flatten).filter (inBag sets quantAll)
    pure (excludePrograms c st bag true)

/-! ### Command parsing (`run_pipeline`) -/

def sAll : Codes := [32, 97, 108, 108]   -- " all"
def sAny : Codes := [32, 97, 110, 121]   -- " any"

/-- Number of non-overlapping occurrences of a non-empty pattern (what `regex.subn` counts). -/
def countOcc (pat : Codes) : Nat → Codes → Nat
  | _, [] => 0
  | skip + 1, _ :: t => countOcc pat skip t
  | 0, c :: t => if pat.isPrefixOf (c :: t) then 1 + countOcc pat (pat.length - 1) t else countOcc pat 0 t

def opOfName (s : Codes) : Option Operation :=
  if s = codesOf "include" then some .include
  else if s = codesOf "exclude" then some .exclude
  else if s = codesOf "impart" then some .impart
  else if s = codesOf "hide" then some .hide
  else none

/-- `operation, n = subn(" all", "", operation); quantifier = "all" if n == 1 else "any";
operation = operation.replace(" any", "")`; unknown operations are skipped (`none`). -/
def parseOperation (s : Codes) : Option (Operation × Bool) :=
  let n := countOcc sAll 0 s
  let s1 := NP.replaceAll sAll [] 0 s
  let s2 := NP.replaceAll sAny [] 0 s1
  (opOfName s2).map fun op => (op, n == 1)

structure Command where
  operation : Codes
  data : List Criterion
  deriving Repr, Inhabited

/-- One command of `run_pipeline` (unknown operations and empty data are skipped). -/
def runCommand (c : Ctx) (r : Relations) (st : State) (cmd : Command) : Except Err State :=
  match parseOperation cmd.operation with
  | none => .ok st
  | some (op, q) => if cmd.data.isEmpty then .ok st else updateFilter c r st cmd.data op q

def runPipeline (c : Ctx) (r : Relations) (st : State) (cmds : List Command) : Except Err State :=
  foldE (runCommand c r) st cmds

end Paroxy.Filter
