/-
The assessor with the knowledge set it POINTS to (round 10, DESIGN §11.11 E2).

`LearningCostAssessor.set_imparted_knowledge(obj)` stores a REFERENCE to the caller's set
(`self.imparted_knowledge = imparted_knowledge`) and clears the memo of `taxon_cost`. `Recommendations`
hands it the very set object of its `ProgramFilter` (`self.imparted_knowledge =
program_filter.imparted_knowledge`), which `update_filter` / `impart_taxa` then grow IN PLACE
(`self.imparted_knowledge.add(prefix)`): the assessor sees the growth without being told, and its memo
(`functools.lru_cache` on the method: ONE cache for the whole class, keyed by `(self, taxon)`, cleared
as a whole by `set_imparted_knowledge` and by `__init__` of ANY instance) keeps the costs computed
before it.

State: a heap of set objects (address ↦ content), the address the assessor holds, and the memo.
The machine starts after the first `set_imparted_knowledge` (before it, the attribute does not exist:
`taxon_cost` of a non-`meta/` taxon raises `AttributeError`; exercised by the harness, not modelled).
Core Lean only.
-/
import Paroxy.Model.Costs
namespace Paroxy.Costs
open Paroxy Paroxy.Filter

/-- Set objects by address; the first binding of an address wins, an unbound address is an empty set. -/
abbrev Heap := List (Nat × List Codes)

def heapGet : Heap → Nat → List Codes
  | [], _ => []
  | (b, v) :: h, a => if b = a then v else heapGet h a

def heapSet (h : Heap) (a : Nat) (v : List Codes) : Heap := (a, v) :: h

/-- `obj.difference_update(del); obj.update(add)` on the content of one set object. -/
def mutateSet (old add del : List Codes) : List Codes := (old.filter fun t => !del.contains t) ++ add

structure SState where
  heap : Heap
  /-- the address stored in `self.imparted_knowledge` -/
  ptr : Nat
  memo : List (Codes × Rat)

/-- The knowledge the assessor reads NOW: the current content of the object it points to. -/
def SState.knowledge (s : SState) : List Codes := heapGet s.heap s.ptr

/-- The memoised functions of Model/Costs.lean read `knowledge` and `memo` only. -/
def SState.view (s : SState) : AState := { knowledge := s.knowledge, memo := s.memo }

inductive SOp
  /-- some holder of the set object at `addr` (the filter: `impart_taxa`) changes it in place; the
  assessor is not told: memo untouched. The filter only adds (`del = []`). -/
  | mutateKnowledge (addr : Nat) (add del : List Codes)
  /-- `set_imparted_knowledge(obj)`: the pointer is (re)set, the memo cleared. -/
  | setKnowledge (addr : Nat)
  /-- another `LearningCostAssessor` is constructed, or its knowledge set: the class-level cache is
  cleared for every instance. -/
  | foreignClear
  | taxonCost (t : Codes)
  | assess (selected : List Codes)

def sstep (strat : Strategy) (progs : List (Codes × TaxaSpans)) (s : SState) : SOp → SState × AOut
  | .mutateKnowledge a add del =>
    ({ s with heap := heapSet s.heap a (mutateSet (heapGet s.heap a) add del) }, .unit)
  | .setKnowledge a => ({ s with ptr := a, memo := [] }, .unit)
  | .foreignClear => ({ s with memo := [] }, .unit)
  | .taxonCost t => ({ s with memo := (memoCost strat s.view t).1.memo }, .cost (memoCost strat s.view t).2)
  | .assess sel =>
    ({ s with memo := (memoAssess strat progs s.view sel).1.memo },
      .ranking ((memoAssess strat progs s.view sel).2.map fun l => l.mergeSort leCostPath))

/-- What each operation returns when computed from scratch under knowledge `K`. -/
def pureOutS (strat : Strategy) (progs : List (Codes × TaxaSpans)) (K : List Codes) : SOp → AOut
  | .taxonCost t => .cost (taxonCost strat K t)
  | .assess sel => .ranking (assess strat progs K sel)
  | _ => .unit

/-- The costs an output carries (to state witnesses without deciding equality of `AOut`). -/
def AOut.costs : AOut → List Rat
  | .cost v => [v]
  | .ranking (some l) => l.map (·.1)
  | _ => []

/-- Run a sequence of operations; for every step: the knowledge the assessor reads at that step, the
operation and its output. -/
def srun (strat : Strategy) (progs : List (Codes × TaxaSpans)) : SState → List SOp → List (List Codes × SOp × AOut)
  | _, [] => []
  | s, op :: ops => (s.knowledge, op, (sstep strat progs s op).2) :: srun strat progs (sstep strat progs s op).1 ops

/-! ### The snapshot machine: what the memo MEANS

Same heap and pointer; instead of cached costs it records, for every taxon costed since the memo was
last cleared, the knowledge AS IT WAS when that taxon was first costed. Its outputs are pure costs
under those snapshots. `C07_shared_stale_characterised`: the two machines return the same outputs on
every sequence of operations. -/

structure GState where
  heap : Heap
  ptr : Nat
  snap : List (Codes × List Codes)

def GState.knowledge (g : GState) : List Codes := heapGet g.heap g.ptr

/-- The knowledge under which `t` is costed now: its snapshot if it has one, else the current one. -/
def snapOf (snap : List (Codes × List Codes)) (K : List Codes) (t : Codes) : List Codes :=
  match dictGet? snap t with
  | some K0 => K0
  | none => K

/-- Costing `t` under current knowledge `K`: the first costing takes the snapshot. -/
def gCost (strat : Strategy) (K : List Codes) (snap : List (Codes × List Codes)) (t : Codes) :
    List (Codes × List Codes) × Rat :=
  (match dictGet? snap t with
    | some _ => snap
    | none => snap ++ [(t, K)],
   taxonCost strat (snapOf snap K t) t)

def gProgramCost (strat : Strategy) (K : List Codes) (snap : List (Codes × List Codes)) (rec : TaxaSpans) :
    List (Codes × List Codes) × Rat :=
  rec.foldl (fun acc ts => ((gCost strat K acc.1 ts.1).1, acc.2 + (gCost strat K acc.1 ts.1).2)) (snap, 0)

def gAssess (strat : Strategy) (progs : List (Codes × TaxaSpans)) (K : List Codes) (snap : List (Codes × List Codes)) :
    List Codes → List (Codes × List Codes) × Option (List (Rat × Codes))
  | [] => (snap, some [])
  | p :: ps =>
    match dictGet? progs p with
    | none => (snap, none)
    | some rec =>
      let r1 := gProgramCost strat K snap rec
      let r2 := gAssess strat progs K r1.1 ps
      (r2.1, r2.2.map fun l => (r1.2, p) :: l)

def gstep (strat : Strategy) (progs : List (Codes × TaxaSpans)) (g : GState) : SOp → GState × AOut
  | .mutateKnowledge a add del =>
    ({ g with heap := heapSet g.heap a (mutateSet (heapGet g.heap a) add del) }, .unit)
  | .setKnowledge a => ({ g with ptr := a, snap := [] }, .unit)
  | .foreignClear => ({ g with snap := [] }, .unit)
  | .taxonCost t => ({ g with snap := (gCost strat g.knowledge g.snap t).1 }, .cost (gCost strat g.knowledge g.snap t).2)
  | .assess sel =>
    ({ g with snap := (gAssess strat progs g.knowledge g.snap sel).1 },
      .ranking ((gAssess strat progs g.knowledge g.snap sel).2.map fun l => l.mergeSort leCostPath))

def grun (strat : Strategy) (progs : List (Codes × TaxaSpans)) : GState → List SOp → List (List Codes × SOp × AOut)
  | _, [] => []
  | g, op :: ops => (g.knowledge, op, (gstep strat progs g op).2) :: grun strat progs (gstep strat progs g op).1 ops

/-! ### The discipline of `run_pipeline` -/

/-- No cost is asked while the pointed-to object has been changed in place since the last
`set_imparted_knowledge` (`dirty`). `ptr` is the address the assessor holds. -/
def disciplined : Nat → Bool → List SOp → Bool
  | _, _, [] => true
  | ptr, dirty, .mutateKnowledge a _ _ :: r => disciplined ptr (dirty || a == ptr) r
  | _, _, .setKnowledge a :: r => disciplined a false r
  | ptr, dirty, .foreignClear :: r => disciplined ptr dirty r
  | ptr, dirty, .taxonCost _ :: r => !dirty && disciplined ptr dirty r
  | ptr, dirty, .assess _ :: r => !dirty && disciplined ptr dirty r

/-- One `run_pipeline` call on a recommender whose filter's knowledge set lives at `addr`: the
commands grow that set in place (`muts`, one entry per imparting command), then
`set_imparted_knowledge(self.imparted_knowledge)` and the assessment of the selection; `queries`: any
`taxon_cost` calls made afterwards (the report asks the cost of every displayed taxon). -/
structure Round where
  muts : List (List Codes)
  selected : List Codes
  queries : List Codes

def roundOps (addr : Nat) (r : Round) : List SOp :=
  r.muts.map (fun add => SOp.mutateKnowledge addr add []) ++
    (SOp.setKnowledge addr :: SOp.assess r.selected :: r.queries.map SOp.taxonCost)

def pipelineOps (addr : Nat) (rounds : List Round) : List SOp := rounds.flatMap (roundOps addr)

end Paroxy.Costs
