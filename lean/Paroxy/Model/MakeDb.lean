/-
Model of `paroxython/make_db.py` (TagDatabase.__init__, get_json's data, write_sqlite's rows) and of the
relabelling loop of `paroxython/label_programs.py: labelled_programs`, AS WRITTEN NOW in /repo
(after fixes ca3b9c8: the importation closure is an iterative visited-set traversal, and 77a08ea:
an import is internal when the *path* it names is collected).

Core Lean only. Strings are lists of Unicode code points (`Codes`); Python's `str` order is the
lexicographic order on code points, which is `compare` on `List Nat`.

What is *not* here: the parser and the taxonomy (their outputs are inputs of the model: raw labels
per program, and `toTaxa` as an oracle parameter), `json.dumps`/the compaction regex/`json.loads`,
`sqlite3` (exercised by round trip only).
-/
import Paroxy.Model.CompareSpans
namespace Paroxy.DB

abbrev Name := Codes
/-- `Span(start, end, path)`: Python compares these namedtuples lexicographically. -/
abbrev Span3 := Int × Int × Name
abbrev PoorSpan := Int × Int

def Span3.poor (s : Span3) : PoorSpan := (s.1, s.2.1)

/-- Python tuple comparison: lexicographic. -/
instance instOrdIntName : Ord (Int × Name) := lexOrd
instance instOrdSpan3 : Ord Span3 := lexOrd
instance instOrdPoorSpan : Ord PoorSpan := lexOrd

/-! ## Sorting primitives (`sorted(set(·))`, `bisect.insort`) -/

/-- `a < b` in Python's order. -/
def ltB {α : Type} [Ord α] (a b : α) : Bool := compare a b == .lt

/-- `bisect.insort(l, a)`: insert `a` before the first element greater than `a`. -/
def insort {α : Type} [Ord α] (a : α) : List α → List α
  | [] => [a]
  | b :: t => if ltB a b then a :: b :: t else b :: insort a t

/-- `if a not in l: insort(l, a)`. -/
def insortNew {α : Type} [Ord α] [DecidableEq α] (a : α) (l : List α) : List α :=
  if a ∈ l then l else insort a l

/-- `sorted(set(l))`: the strictly increasing list of the distinct members of `l`. -/
def sortU {α : Type} [Ord α] [DecidableEq α] (l : List α) : List α := l.foldr insortNew []

/-! ## Dictionaries (insertion-ordered association lists with unique keys) -/

def get? {β : Type} (d : List (Name × β)) (k : Name) : Option β :=
  match d with
  | [] => none
  | (k', v) :: t => if k' = k then some v else get? t k

/-- `d[k] = v` -/
def set {β : Type} (d : List (Name × β)) (k : Name) (v : β) : List (Name × β) :=
  match d with
  | [] => [(k, v)]
  | (k', v') :: t => if k' = k then (k', v) :: t else (k', v') :: set t k v

/-- `d[k].append(v)` on a `defaultdict(list)`. -/
def push {β : Type} (d : List (Name × List β)) (k : Name) (v : β) : List (Name × List β) :=
  match d with
  | [] => [(k, [v])]
  | (k', vs) :: t => if k' = k then (k', vs ++ [v]) :: t else (k', vs) :: push t k v

/-- `dict(sorted(d.items()))` for a dictionary (unique keys): insertion sort on the keys. -/
def insertKey {β : Type} (e : Name × β) : List (Name × β) → List (Name × β)
  | [] => [e]
  | f :: t => if ltB e.1 f.1 then e :: f :: t else f :: insertKey e t

def sortKeys {β : Type} (d : List (Name × β)) : List (Name × β) := d.foldr insertKey []

/-! ## Input and output types -/

structure Label where
  name : Name
  spans : List Span3
  deriving DecidableEq, Repr, Inhabited

/-- A taxon: name and the *keys* of its `Counter` of spans (counts are not stored in the database). -/
structure Taxon where
  name : Name
  spans : List Span3
  deriving DecidableEq, Repr, Inhabited

/-- One program as `list_programs` + `ProgramParser.__call__` produce it (labels BEFORE the
relabelling of internal imports). -/
structure Prog where
  path : Name
  timestamp : Name
  source : Name
  labels : List Label
  deriving DecidableEq, Repr, Inhabited

structure Record where
  timestamp : Name
  source : Name
  labels : List (Name × List PoorSpan)
  taxa : List (Name × List PoorSpan)
  deriving DecidableEq, Repr, Inhabited

structure Db where
  programs : List (Name × Record)
  labels : List (Name × List Name)
  taxa : List (Name × List Name)
  importations : List (Name × List Name)
  exportations : List (Name × List Name)
  deriving DecidableEq, Repr, Inhabited

inductive Err | keyError (k : Name)
  deriving DecidableEq, Repr, Inhabited

/-! ## `labelled_programs`: relabelling of internal imports -/

def cColon : Nat := 58
def cDot : Nat := 46
def cSlash : Nat := 47
def sImport : Name := [105, 109, 112, 111, 114, 116]                       -- "import"
def sModule : Name := [95, 109, 111, 100, 117, 108, 101]                   -- "_module"
def sInternally : Name := [95, 105, 110, 116, 101, 114, 110, 97, 108, 108, 121]  -- "_internally"
def sPy : Name := [46, 112, 121]                                            -- ".py"

/-- `s.startswith(p)` returning the rest. -/
def dropPrefix? : Name → Name → Option Name
  | [], s => some s
  | _ :: _, [] => none
  | p :: ps, c :: cs => if p = c then dropPrefix? ps cs else none

/-- the `[^:]*` group -/
def takeNoColon : Name → Name
  | [] => []
  | c :: cs => if c = cColon then [] else c :: takeNoColon cs

/-- A match of `import(?:_module)?:([^:]*)` anchored at the beginning of `s`: group 1. -/
def importAt? (s : Name) : Option Name :=
  match dropPrefix? sImport s with
  | none => none
  | some r =>
    match dropPrefix? (sModule ++ [cColon]) r with
    | some r' => some (takeNoColon r')
    | none =>
      match dropPrefix? [cColon] r with
      | some r' => some (takeNoColon r')
      | none => none

/-- `regex.compile(r"import(?:_module)?:([^:]*)").search(s)`: group 1 of the leftmost match. -/
def searchImport? : Name → Option Name
  | [] => none
  | c :: cs =>
    match importAt? (c :: cs) with
    | some g => some g
    | none => searchImport? cs

/-- `s.replace(":", "_internally:", 1)` -/
def tweakFirstColon : Name → Name
  | [] => []
  | c :: cs => if c = cColon then sInternally ++ (cColon :: cs) else c :: tweakFirstColon cs

/-- `s.replace(a, b)` for single characters -/
def replaceChar (a b : Nat) (s : Name) : Name := s.map fun c => if c = a then b else c

/-- `{p.path for p in programs} | {".py"}` as a list (after fix 77a08ea: path form, no dot form). -/
def internalPaths (paths : List Name) : List Name := paths ++ [sPy]

/-- `if m and f"{m[1].replace('.', '/')}.py" in internal_program_paths:` then the first colon becomes
`_internally:` and every dot a slash. -/
def relabelName (internal : List Name) (n : Name) : Name :=
  match searchImport? n with
  | some g =>
    if (replaceChar cDot cSlash g ++ sPy) ∈ internal then replaceChar cDot cSlash (tweakFirstColon n)
    else n
  | none => n

def relabel (internal : List Name) (ls : List Label) : List Label :=
  ls.map fun l => { l with name := relabelName internal l.name }

/-! ## `compute_direct_importations` -/

/-- the `[^:]+` group -/
def internalTarget? (n : Name) : Option Name :=
  match dropPrefix? (sImport ++ sInternally ++ [cColon]) n with
  | none => none
  | some r => match takeNoColon r with
    | [] => none
    | g => some (g ++ sPy)

/-- The direct internal imports of one program (a Python set; here in label order, with repeats):
`if match and f"{match[1]}.py" in importations` — since fix 0c1b93c only a *collected* program counts. -/
def directOf (paths : List Name) (ls : List Label) : List Name :=
  ls.filterMap fun l =>
    match internalTarget? l.name with
    | some q => if q ∈ paths then some q else none
    | none => none

/-! ## `complete_and_collect_importations` (iterative, visited set) -/

/-- `importations.get(x, [])` -/
def succs (d : List (Name × List Name)) (x : Name) : List Name := (get? d x).getD []

/-- Number of keys of `d` not yet visited: the first component of the termination measure. -/
def unvisited (d : List (Name × List Name)) (result : List Name) : Nat :=
  (d.filter fun e => decide (e.1 ∉ result)).length

theorem succs_of_not_key {d : List (Name × List Name)} {x : Name}
    (h : ∀ e ∈ d, e.1 ≠ x) : succs d x = [] := by
  induction d with
  | nil => rfl
  | cons e t ih =>
    obtain ⟨k, v⟩ := e
    have hk : k ≠ x := h (k, v) List.mem_cons_self
    have ht : ∀ e ∈ t, e.1 ≠ x := fun e he => h e (List.mem_cons_of_mem _ he)
    have := ih ht
    simp only [succs, get?, hk, if_false] at this ⊢
    exact this

theorem unvisited_cons_le (d : List (Name × List Name)) (x : Name) (result : List Name) :
    unvisited d (x :: result) ≤ unvisited d result := by
  unfold unvisited
  induction d with
  | nil => simp
  | cons e t ih =>
    simp only [List.filter_cons]
    by_cases h1 : e.1 ∉ x :: result
    · have h2 : e.1 ∉ result := fun h => h1 (List.mem_cons_of_mem _ h)
      simp only [h1, h2, not_false_eq_true, decide_true, if_true, List.length_cons]
      omega
    · by_cases h2 : e.1 ∉ result
      · simp only [h1, h2, not_false_eq_true, decide_true, decide_false, if_true, List.length_cons]
        simp only [Bool.false_eq_true, if_false]
        omega
      · simp only [h1, h2, decide_false, Bool.false_eq_true, if_false]
        exact ih

theorem unvisited_cons_lt {d : List (Name × List Name)} {x : Name} {result : List Name}
    (hx : x ∉ result) (hk : ∃ e ∈ d, e.1 = x) :
    unvisited d (x :: result) < unvisited d result := by
  unfold unvisited
  induction d with
  | nil => obtain ⟨e, he, _⟩ := hk; cases he
  | cons e t ih =>
    simp only [List.filter_cons]
    by_cases hex : e.1 = x
    · have h1 : ¬ (e.1 ∉ x :: result) := by simp [hex]
      have h2 : e.1 ∉ result := by rw [hex]; exact hx
      simp only [h1, h2, not_false_eq_true, decide_true, decide_false, if_true, List.length_cons,
        Bool.false_eq_true, if_false]
      have := unvisited_cons_le t x result
      unfold unvisited at this
      omega
    · have hk' : ∃ e ∈ t, e.1 = x := by
        obtain ⟨f, hf, hfx⟩ := hk
        rcases List.mem_cons.mp hf with h | h
        · exact absurd (h ▸ hfx) hex
        · exact ⟨f, h, hfx⟩
      have := ih hk'
      by_cases h2 : e.1 ∉ result
      · have h1 : e.1 ∉ x :: result := by
          intro h; rcases List.mem_cons.mp h with h | h
          · exact hex h
          · exact h2 h
        simp only [h1, h2, not_false_eq_true, decide_true, if_true, List.length_cons]
        omega
      · have h1 : ¬ (e.1 ∉ x :: result) := fun h => h2 (fun h' => h (List.mem_cons_of_mem _ h'))
        simp only [h1, h2, decide_false, Bool.false_eq_true, if_false]
        exact this

/-- The `while stack:` loop of `complete_internal_imports`. The head of `stack` is the top
(`stack.pop()` takes the last element of the Python list; `extend` pushes in order, so the last
successor becomes the top).

**Termination** (the Python loop has a visited set, Lean wants the argument): the pair
(number of keys of `importations` not in `result`, length of the stack) decreases
lexicographically. Popping a visited node shortens the stack. Popping an unvisited node that is a
key removes one unvisited key; popping an unvisited node that is not a key pushes nothing
(`importations.get(x, [])` is empty), so the stack shortens while the first component does not grow. -/
def closureLoop (d : List (Name × List Name)) (stack result : List Name) : List Name :=
  match stack with
  | [] => result
  | x :: rest =>
    if x ∈ result then closureLoop d rest result
    else closureLoop d ((succs d x).reverse ++ rest) (x :: result)
termination_by (unvisited d result, stack.length)
decreasing_by
  · exact Prod.Lex.right _ (by simp)
  · rename_i hx
    by_cases hk : ∃ e ∈ d, e.1 = x
    · exact Prod.Lex.left _ _ (unvisited_cons_lt hx hk)
    · have hs : succs d x = [] := succs_of_not_key (fun e he h => hk ⟨e, he, h⟩)
      rw [hs]
      rcases Nat.lt_or_eq_of_le (unvisited_cons_le d x result) with h | h
      · exact Prod.Lex.left _ _ h
      · rw [h]; exact Prod.Lex.right _ (by simp)

/-- `complete_internal_imports(program_path)` (a Python set, here in visiting order, newest first). -/
def closureOf (d : List (Name × List Name)) (p : Name) : List Name :=
  closureLoop d (succs d p).reverse []

def directImportations (progs : List (Name × List Label)) : List (Name × List Name) :=
  progs.map fun p => (p.1, directOf (progs.map (·.1)) p.2)

def completeImportations (d : List (Name × List Name)) : List (Name × List Name) :=
  d.map fun e => (e.1, sortU (closureOf d e.1))

/-! ## `compute_and_collect_exportations` -/

/-- one iteration of the inner loop -/
def exportStep (importing : Name) (acc : List (Name × List Name)) (imported : Name) :
    Except Err (List (Name × List Name)) :=
  match get? acc imported with
  | none => .error (.keyError imported)
  | some l => .ok (set acc imported (insortNew importing l))

def foldExcept {σ α : Type} (f : σ → α → Except Err σ) : σ → List α → Except Err σ
  | s, [] => .ok s
  | s, a :: t => match f s a with
    | .error e => .error e
    | .ok s' => foldExcept f s' t

def exportations (paths : List Name) (imps : List (Name × List Name)) :
    Except Err (List (Name × List Name)) :=
  foldExcept (fun acc (e : Name × List Name) => foldExcept (exportStep e.1) acc e.2)
    (paths.map fun p => (p, [])) imps

/-! ## Inverted indexes and span preparation -/

/-- `collect_taxa` on the (name, path) occurrences in program order (`collect_labels` before fix F47). -/
def collect (occ : List (Name × Name)) : List (Name × List Name) :=
  occ.foldl (fun d o => push d o.1 o.2) []

/-- `if program.path not in result[label.name][-1:]: result[label.name].append(program.path)` -/
def addNew (vs : List Name) (v : Name) : List Name := if vs.getLast? = some v then vs else vs ++ [v]

def pushNew (d : List (Name × List Name)) (k v : Name) : List (Name × List Name) :=
  match d with
  | [] => [(k, [v])]
  | (k', vs) :: t => if k' = k then (k', addNew vs v) :: t else (k', vs) :: pushNew t k v

/-- `collect_labels` (fix F47): a program whose parser result holds several entries of one name (a hinted
label bearing the name of a derived one) is listed once under that name. -/
def collectNew (occ : List (Name × Name)) : List (Name × List Name) :=
  occ.foldl (fun d o => pushNew d o.1 o.2) []

def labelOcc (progs : List (Name × List Label)) : List (Name × Name) :=
  progs.flatMap fun p => p.2.map fun l => (l.name, p.1)

def taxonOcc (progs : List (Name × List Taxon)) : List (Name × Name) :=
  progs.flatMap fun p => p.2.map fun t => (t.name, p.1)

/-- `[(span.start, span.end) for span in sorted(set(spans))]` -/
def preparedSpans (spans : List Span3) : List PoorSpan := (sortU spans).map Span3.poor

/-- `bags.setdefault(label_name, set()).update(spans)`: the spans of all the entries bearing one name,
at the position of the first entry of that name (fix F47: a hinted label may bear the name of a label
that an SQL query also derives; `ProgramParser.__call__` then returns two entries of that name). -/
def labelBags (ls : List Label) : List (Name × List Span3) :=
  ls.foldl (fun d l => set d l.name ((get? d l.name).getD [] ++ l.spans)) []

/-- `prepared_labels`: one key per label name, with the sorted distinct spans of ALL the entries of
that name, projected on (start, end). -/
def preparedLabels (ls : List Label) : List (Name × List PoorSpan) :=
  (labelBags ls).map fun e => (e.1, preparedSpans e.2)

def preparedTaxa (ts : List Taxon) : List (Name × List PoorSpan) :=
  ts.foldl (fun d t => set d t.name (preparedSpans t.spans)) []

/-! ## `TagDatabase.__init__` + the `data` of `get_json` -/

/-- `internal_program_paths` of a collection. -/
def internalOf (progs : List Prog) : List Name := internalPaths (progs.map (·.path))

/-- The labels of one program after the relabelling loop. -/
def labelsOf (internal : List Name) (p : Prog) : List Label := relabel internal p.labels

/-- The labelled programs: (path, relabelled labels). -/
def labelled (progs : List Prog) : List (Name × List Label) :=
  progs.map fun p => (p.path, labelsOf (internalOf progs) p)

/-- The taxa of the labelled programs (`map_labels_on_taxa`, the taxonomy being an oracle). -/
def taxaed (toTaxa : Name → List Label → List Taxon) (progs : List Prog) : List (Name × List Taxon) :=
  progs.map fun p => (p.path, toTaxa p.path (labelsOf (internalOf progs) p))

/-- `programs_infos[program.path]` -/
def recordOf (toTaxa : Name → List Label → List Taxon) (internal : List Name) (p : Prog) : Record :=
  { timestamp := p.timestamp, source := p.source,
    labels := preparedLabels (labelsOf internal p),
    taxa := preparedTaxa (toTaxa p.path (labelsOf internal p)) }

def makeDb (toTaxa : Name → List Label → List Taxon) (progs : List Prog) : Except Err Db :=
  let lab := labelled progs
  let imps := completeImportations (directImportations lab)
  match exportations (progs.map (·.path)) imps with
  | .error e => .error e
  | .ok exps =>
    .ok { programs := progs.foldl (fun d p => set d p.path (recordOf toTaxa (internalOf progs) p)) []
          labels := sortKeys (collectNew (labelOcc lab))
          taxa := sortKeys (collect (taxonOcc (taxaed toTaxa progs)))
          importations := imps
          exportations := exps }

/-! ## `write_sqlite`: row construction -/

def natDigits (n : Nat) : Name := (toString n).toList.map Char.toNat
/-- `str(i)` -/
def intStr (i : Int) : Name :=
  match i with
  | .ofNat n => natDigits n
  | .negSucc n => 45 :: natDigits (n + 1)

/-- `"-".join(map(str, span)) if span[0] != span[1] else str(span[0])` -/
def spanText (s : PoorSpan) : Name :=
  if s.1 ≠ s.2 then intStr s.1 ++ [45] ++ intStr s.2 else intStr s.1

/-- `name.partition(":")` : (prefix, suffix) -/
def partitionColon : Name → Name × Name
  | [] => ([], [])
  | c :: cs => if c = cColon then ([], cs) else
      let r := partitionColon cs
      (c :: r.1, r.2)

/-- `s.split("\n")` -/
def splitLines (s : Name) : List Name :=
  s.foldr (fun c acc => if c = 10 then [] :: acc else
    match acc with
    | [] => [[c]]
    | h :: t => (c :: h) :: t) [[]]

/-- `f"{n: <4}"` -/
def padNum (n : Nat) : Name :=
  let s := natDigits n
  s ++ List.replicate (4 - s.length) 32

def joinWith (sep : Name) : List Name → Name
  | [] => []
  | [a] => a
  | a :: b :: t => a ++ sep ++ joinWith sep (b :: t)

def numberFrom : Nat → List Name → List Name
  | _, [] => []
  | n, l :: t => (padNum n ++ l) :: numberFrom (n + 1) t

/-- `goodies.add_line_numbers` -/
def addLineNumbers (source : Name) : Name :=
  if source = [] then [] else joinWith [10] (numberFrom 1 (splitLines source))

structure LabelRow where
  label : Name
  pre : Name
  suf : Name
  span : Name
  start : Int
  stop : Int
  program : Name
  deriving DecidableEq, Repr, Inhabited

structure TaxonRow where
  taxon : Name
  span : Name
  start : Int
  stop : Int
  program : Name
  deriving DecidableEq, Repr, Inhabited

structure ProgramRow where
  program : Name
  timestamp : Name
  source : Name
  deriving DecidableEq, Repr, Inhabited

def programRows (db : Db) : List ProgramRow :=
  db.programs.map fun e =>
    { program := e.1, timestamp := e.2.timestamp,
      source := e.1 ++ [10, 10] ++ addLineNumbers e.2.source }

def labelRows (db : Db) : List LabelRow :=
  db.programs.flatMap fun e => e.2.labels.flatMap fun l => l.2.map fun s =>
    let ps := partitionColon l.1
    { label := l.1, pre := ps.1, suf := ps.2, span := spanText s, start := s.1, stop := s.2,
      program := e.1 }

def taxonRows (db : Db) : List TaxonRow :=
  db.programs.flatMap fun e => e.2.taxa.flatMap fun l => l.2.map fun s =>
    { taxon := l.1, span := spanText s, start := s.1, stop := s.2, program := e.1 }

end Paroxy.DB
