/-
Specification side of C15: what the property text says about the flat AST, on the tree model.

* `Val.at?`, `entries` : random access by address and the pre-order enumeration of a tree
  (every node, list and scalar with its root-to-node address and name path);
* `tweak`            : "the documented tweaks only", performed **on the tree** (constants renamed by
                       their real kind, `-literal` folded, `kind` fields / `posonlyargs` length /
                       alias positions dropped, strings unquoted);
* `skeleton`/`canon` : an expression "up to load/store context", as a canonical string;
* `specFlatten`      : the flat AST the property describes = plain dump of the tweaked tree, hashes
                       numbered by first occurrence of the context-free skeleton.

Core Lean only.
-/
import Paroxy.Model.FlatAst
namespace Paroxy.Flat

/-! ## Addresses -/

/-- Child number `i` of a value: fields are numbered from 0, list items from 1
(`enumerate(fields)`, `enumerate(node, 1)`). -/
def Val.child? : Val → Nat → Option Val
  | .node _ _ _ _ fs, i => (fs[i]?).map (·.2)
  | .list _ xs, i => if i = 0 then none else xs[i - 1]?
  | .scalar _ _, _ => none

/-- The name of child number `i` in the prefix string. -/
def Val.childName? : Val → Nat → Option Str
  | .node _ _ _ _ fs, i => (fs[i]?).map (·.1)
  | .list _ xs, i => if i = 0 ∨ xs.length < i then none else some (dec i)
  | .scalar _ _, _ => none

/-- The sub-value at an address (a list of child numbers). -/
def Val.at? (v : Val) : List Nat → Option Val
  | [] => some v
  | i :: p => (v.child? i).bind (·.at? p)

/-- The names along an address (what the prefix string of the lines is made of). -/
def Val.namesAt? (v : Val) : List Nat → Option (List Str)
  | [] => some []
  | i :: p =>
    match v.childName? i, v.child? i with
    | some n, some w => (w.namesAt? p).map (n :: ·)
    | _, _ => none

/-- `At v q ns w`: following the child numbers `q` from `v` leads to `w`, through the names `ns`. -/
inductive At : Val → List Nat → List Str → Val → Prop
  | here (v : Val) : At v [] [] v
  | field {ty e r ln fs k n c q ns w} : fs[k]? = some (n, c) → At c q ns w →
      At (.node ty e r ln fs) (k :: q) (n :: ns) w
  | item {qt xs k c q ns w} : xs[k]? = some c → At c q ns w →
      At (.list qt xs) ((k + 1) :: q) (dec (k + 1) :: ns) w

/-- `w` is nested in `v` (or is `v`): reachable by a chain of child steps. -/
def Val.Nested (v w : Val) : Prop := ∃ q, v.at? q = some w

/-- The encoding of an address in `_pos`: `n-m-…-`. -/
def encPath : List Nat → Str
  | [] => []
  | i :: p => dec i ++ '-' :: encPath p

/-- What is printed after the colon of `_pos`: `path[2:]`. -/
def posPath (p : List Nat) : Str := (encPath p).drop 2

/-- The prefix string of a name path: `/a/b/c`. -/
def encNames : List Str → Str
  | [] => []
  | n :: ns => '/' :: n ++ encNames ns

/-! ## Pre-order enumeration -/

/-- What one entry of the enumeration carries: the local data of a node, a list, or a scalar. -/
inductive Item
  | node (ty : Str) (isExpr : Bool) (repr : Str) (lineno : Option Nat)
  | list (quiet : Bool) (len : Nat)
  | scalar (repr : Str)
  deriving DecidableEq, Repr

structure Entry where
  addr : List Nat
  names : List Str
  item : Item
  deriving DecidableEq, Repr

def Val.item : Val → Item
  | .node ty e r ln _ => .node ty e r ln
  | .list q xs => .list q xs.length
  | .scalar r _ => .scalar r

mutual
/-- Pre-order enumeration of `v` placed at address `addr` under the name path `names`. -/
def entries (names : List Str) (addr : List Nat) : Val → List Entry
  | .node ty e r ln fs => ⟨addr, names, .node ty e r ln⟩ :: entriesFields names addr 0 fs
  | .list q xs => ⟨addr, names, .list q xs.length⟩ :: entriesItems names addr 1 xs
  | .scalar r _ => [⟨addr, names, .scalar r⟩]
def entriesFields (names : List Str) (addr : List Nat) (i : Nat) : List (Str × Val) → List Entry
  | [] => []
  | (n, v) :: rest => entries (names ++ [n]) (addr ++ [i]) v ++ entriesFields names addr (i + 1) rest
def entriesItems (names : List Str) (addr : List Nat) (i : Nat) : List Val → List Entry
  | [] => []
  | v :: rest => entries (names ++ [dec i]) (addr ++ [i]) v ++ entriesItems names addr (i + 1) rest
end

/-- The lines one entry contributes to the dump: they depend on the entry alone. -/
def Entry.lines (h : Str → Str) (e : Entry) : List Str :=
  let pre := encNames e.names
  match e.item with
  | .node ty isE r ln =>
    typeLine pre ty :: ((if isE then [hashLine pre (h r)] else []) ++
      (match ln with
        | some n => [posLine pre n (encPath e.addr)]
        | none => []))
  | .list q n => if q then [] else [lengthLine pre n]
  | .scalar r => [scalarLine pre r]

/-! ## The documented tweaks, on the tree -/

def kindTypeName : Kind → Str
  | .str => cs!"Str"
  | .bytes => cs!"Bytes"
  | .nameConst => cs!"NameConstant"
  | .ellipsis => cs!"Ellipsis"
  | .num => cs!"Num"

/-- The field that holds the value of a back-ported constant (`none`: no value line). -/
def kindFieldName : Kind → Option Str
  | .str => some cs!"s"
  | .bytes => some cs!"s"
  | .nameConst => some cs!"value"
  | .ellipsis => none
  | .num => some cs!"n"

/-- Unquoting a scalar: a `str` loses its two delimiters, nothing else changes. -/
def unquoteScalar (r : Str) : Kind → Str
  | .str => (r.drop 1).dropLast
  | _ => r

def findField (name : Str) : List (Str × Val) → Option Val
  | [] => none
  | (n, v) :: rest => if n == name then some v else findField name rest

/-- The real kind of the `value` scalar of a `Constant` node. -/
def constKind? : Val → Option (Str × Kind)
  | .node ty _ _ _ fs =>
    if ty == cs!"Constant" then
      match findField cs!"value" fs with
      | some (.scalar r k) => some (r, k)
      | _ => none
    else none
  | _ => none

/-- `-literal`: a `UnaryOp` whose fields are exactly `op = USub()` and `operand = Constant(number)`.
Returns the repr of the number. -/
def negLiteral? (ty : Str) (fs : List (Str × Val)) : Option Str :=
  if ty == cs!"UnaryOp" then
    match fs with
    | [(n1, .node t1 _ _ _ _), (n2, c)] =>
      if n1 == cs!"op" && t1 == cs!"USub" && n2 == cs!"operand" then
        match constKind? c with
        | some (r, .num) => some r
        | _ => none
      else none
    | _ => none
  else none

mutual
/-- The tree-level tweak. `rn` = the name path of the value, innermost name first (the passes are
keyed on the *path text*: a `kind` line or an alias position is only dropped below the root, a
`posonlyargs` length only under `…/args` with a non-empty path before). -/
def tweak (rn : List Str) : Val → Val
  | .node ty e r ln fs =>
    match negLiteral? ty fs with
    | some num => .node cs!"Num" e r ln [(cs!"n", .scalar ('-' :: num) .num)]
    | none =>
      let ty' := match constKind? (.node ty e r ln fs) with
        | some (_, k) => kindTypeName k
        | none => ty
      let ln' := if ty == cs!"alias" && !e && !rn.isEmpty then none else ln
      .node ty' e r ln' (tweakFields rn (ty == cs!"Constant") fs)
  | .list q xs =>
    let q' := q || (match rn with
      | a :: b :: _ :: _ => a == cs!"posonlyargs" && b == cs!"args"
      | _ => false)
    .list q' (tweakItems rn 1 xs)
  | .scalar r k => .scalar (unquoteScalar r k) k
def tweakFields (rn : List Str) (isConst : Bool) : List (Str × Val) → List (Str × Val)
  | [] => []
  | (n, v) :: rest =>
    let rest' := tweakFields rn isConst rest
    match v with
    | .scalar r k =>
      if n == cs!"kind" && !rn.isEmpty then rest'
      else if isConst && n == cs!"value" then
        match kindFieldName k with
        | some f => (f, .scalar (unquoteScalar r k) k) :: rest'
        | none => rest'
      else (n, .scalar (unquoteScalar r k) k) :: rest'
    | v => (n, tweak (n :: rn) v) :: rest'
def tweakItems (rn : List Str) (i : Nat) : List Val → List Val
  | [] => []
  | v :: rest => tweak (dec i :: rn) v :: tweakItems rn (i + 1) rest
end

/-! ## Expressions up to load/store context -/

mutual
/-- Canonical, unambiguous (length-prefixed) serialisation of a value, ignoring positions, the
exported reprs of nodes and every field named `ctx`. -/
def canon : Val → Str
  | .node ty _ _ _ fs => 'N' :: dec ty.length ++ ':' :: ty ++ '(' :: canonFields fs ++ [')']
  | .list _ xs => 'L' :: '[' :: canonItems xs ++ [']']
  | .scalar r _ => 'S' :: dec r.length ++ ':' :: r
def canonFields : List (Str × Val) → Str
  | [] => []
  | (n, v) :: rest =>
    if n == cs!"ctx" then canonFields rest
    else 'F' :: dec n.length ++ ':' :: n ++ canon v ++ canonFields rest
def canonItems : List Val → Str
  | [] => []
  | v :: rest => 'I' :: canon v ++ canonItems rest
end

/-! ## The context-free dump (`remove_context("", ast.dump(node))`) -/

def isNoneScalar : Val → Bool
  | .scalar r _ => r == cs!"None"
  | _ => false

/-- `ast.dump` omits a field whose value is `None` when the class declares it optional; the only
non-optional fields that can hold `None` are `Constant.value` and `MatchSingleton.value`. -/
def keepsNone (ty name : Str) : Bool := (ty == cs!"Constant" || ty == cs!"MatchSingleton") && name == cs!"value"

mutual
/-- The text the code hashes for an expression, as a function of the tree: `Type(field=value, …)`,
lists as `[a, b]`, terminal values by their repr, without the `ctx` fields and without the optional
fields that are `None`. The driver checks on every real expression that the exported repr is this text
(`c15.spec`: `repr_is_dumpNoCtx`). -/
def dumpNoCtx : Val → Str
  | .node ty _ _ _ fs => ty ++ '(' :: dumpNoCtxFields ty true fs ++ [')']
  | .list _ xs => '[' :: dumpNoCtxItems true xs ++ [']']
  | .scalar r _ => r
def dumpNoCtxFields (ty : Str) (first : Bool) : List (Str × Val) → Str
  | [] => []
  | (n, v) :: rest =>
    if n == cs!"ctx" || (isNoneScalar v && !keepsNone ty n) then dumpNoCtxFields ty first rest
    else (if first then [] else cs!", ") ++ n ++ '=' :: dumpNoCtx v ++ dumpNoCtxFields ty false rest
def dumpNoCtxItems (first : Bool) : List Val → Str
  | [] => []
  | v :: rest => (if first then [] else cs!", ") ++ dumpNoCtx v ++ dumpNoCtxItems false rest
end

mutual
/-- The tree without its `ctx` fields. -/
def stripCtx : Val → Val
  | .node ty e r ln fs => .node ty e r ln (stripCtxFields fs)
  | .list q xs => .list q (stripCtxItems xs)
  | .scalar r k => .scalar r k
def stripCtxFields : List (Str × Val) → List (Str × Val)
  | [] => []
  | (n, v) :: rest => if n == cs!"ctx" then stripCtxFields rest else (n, stripCtx v) :: stripCtxFields rest
def stripCtxItems : List Val → List Val
  | [] => []
  | v :: rest => stripCtx v :: stripCtxItems rest
end

mutual
/-- Same types, field names and terminal values (positions, hash sources, flags ignored). -/
def sameShape : Val → Val → Bool
  | .node t1 _ _ _ f1, .node t2 _ _ _ f2 => t1 == t2 && sameShapeFields f1 f2
  | .list _ x1, .list _ x2 => sameShapeItems x1 x2
  | .scalar r1 _, .scalar r2 _ => r1 == r2
  | _, _ => false
def sameShapeFields : List (Str × Val) → List (Str × Val) → Bool
  | [], [] => true
  | (n1, v1) :: r1, (n2, v2) :: r2 => n1 == n2 && sameShape v1 v2 && sameShapeFields r1 r2
  | _, _ => false
def sameShapeItems : List Val → List Val → Bool
  | [], [] => true
  | v1 :: r1, v2 :: r2 => sameShape v1 v2 && sameShapeItems r1 r2
  | _, _ => false
end

/-- **The same expression up to load/store context.** -/
def sameUpToCtx (a b : Val) : Bool := sameShape (stripCtx a) (stripCtx b)

mutual
/-- Every expression node carries, as hash source, its own context-free dump. -/
def reprsAreDumps : Val → Bool
  | .node ty e r ln fs => (!e || r == dumpNoCtx (.node ty e r ln fs)) && reprsAreDumpsFields fs
  | .list _ xs => reprsAreDumpsItems xs
  | .scalar _ _ => true
def reprsAreDumpsFields : List (Str × Val) → Bool
  | [] => true
  | (_, v) :: rest => reprsAreDumps v && reprsAreDumpsFields rest
def reprsAreDumpsItems : List Val → Bool
  | [] => true
  | v :: rest => reprsAreDumps v && reprsAreDumpsItems rest
end

mutual
/-- Replace the exported repr of every expression node by its canonical context-free form. -/
def reCanon : Val → Val
  | .node ty e r ln fs => .node ty e (if e then canon (.node ty e r ln fs) else r) ln (reCanonFields fs)
  | .list q xs => .list q (reCanonItems xs)
  | .scalar r k => .scalar r k
def reCanonFields : List (Str × Val) → List (Str × Val)
  | [] => []
  | (n, v) :: rest => (n, reCanon v) :: reCanonFields rest
def reCanonItems : List Val → List Val
  | [] => []
  | v :: rest => reCanon v :: reCanonItems rest
end

mutual
/-- The reprs of the expression nodes, in pre-order. -/
def exprReprs : Val → List Str
  | .node _ e r _ fs => (if e then [r] else []) ++ exprReprsFields fs
  | .list _ xs => exprReprsItems xs
  | .scalar _ _ => []
def exprReprsFields : List (Str × Val) → List Str
  | [] => []
  | (_, v) :: rest => exprReprs v ++ exprReprsFields rest
def exprReprsItems : List Val → List Str
  | [] => []
  | v :: rest => exprReprs v ++ exprReprsItems rest
end

/-- The state of the factory after hashing the given reprs in order. -/
def touchAll (s : HashState) (rs : List Str) : HashState := rs.foldl HashState.touch s

/-- The hash function of one flattening: numbers by first occurrence, from a fresh factory. -/
def hashFn (t : Val) : Str → Str :=
  let s := touchAll HashState.reset (exprReprs t)
  fun r => hex4 (s.get r)

/-- **The flat AST the property describes**: pre-order dump of the tweaked tree (body last in every
definition), `_hash` = rank of first occurrence of the context-free expression. -/
def specFlatten (t : Val) : List Str :=
  let t1 := prep specCfg (reCanon t)
  dumpP (hashFn t1) [] [] (tweak [] t1)

end Paroxy.Flat
