/-
Specification side of the TEXT of the report body: how a reader gets the structured body
(`List (Bucket × List Section)`: headings with their programs, each with path, cost and rows) back
from the lines.

`classify` reads ONE line: a heading line `## n program(s) of learning cost B` (the `s` must agree with
`n`, `B` must be one of the texts of `cost_bucket` — `in [lo, hi[` needs `hi = 2·lo` — or the no-group
title), a title line `### Program P (learning cost C)` (the cost is what follows the LAST
` (learning cost `, so a path may contain that text), a row line ``| C | `T` | cell |`` (the cell is
read by `ReportCell.parseCell`), or one of the four fixed lines (blank, table header, table rule,
`---`). Any other line makes the whole text unreadable.

`parseBody` folds the lines FROM THE END: rows are collected until the title line that owns them, the
sections until the heading line that owns them; a heading line whose count is not the number of the
sections collected under it makes the text unreadable ("whose count is right"); rows above the first
title or sections above the first heading too. `parseBody` is strict on every line that carries
information and does not check the position of the four fixed lines; `parseBodyStrict` (what the driver
runs on the real reports) checks in addition that the lines follow the grammar of the body exactly.
The text of a cost is read by a parameter `readCost` (the driver instantiates it with an exact reader
of decimal literals). Core Lean only.
-/
import Paroxy.Model.ReportText
import Paroxy.Spec.ReportCell
namespace Paroxy.ReportText
open Paroxy Paroxy.Report Paroxy.ReportCell

/-- The characters a cost text may contain (digits, `.`, `e`, `-`, `+`: a Python float `repr`). -/
def costChar (c : Char) : Bool := c.isDigit || c == '.' || c == 'e' || c == '-' || c == '+'

def stripPrefix : Str → Str → Option Str
  | [], l => some l
  | _ :: _, [] => none
  | p :: ps, c :: cs => if p = c then stripPrefix ps cs else none

inductive Line
  | blank | header | rule | hr
  | row (r : Row)
  | title (path : Codes) (cost : Rat)
  | heading (b : Bucket) (n : Nat)

/-- `in [lo, hi[` with `hi = 2·lo`. -/
def parsePow (bt : Str) : Option Bucket :=
  match stripPrefix powOpen bt with
  | none => none
  | some r =>
    match readNat (r.takeWhile Char.isDigit) with
    | none => none
    | some lo => if r.dropWhile Char.isDigit = commaSp ++ nat (2 * lo) ++ ['['] then some (.pow lo) else none

def parseBucket (bt : Str) : Option Bucket :=
  match parsePow bt with
  | some b => some b
  | none =>
    if bt = zeroTxt then some .zero
    else if bt = q1Txt then some .q1
    else if bt = q2Txt then some .q2
    else if bt = q3Txt then some .q3
    else if bt = noGroupTxt then some .noGroup
    else none

/-- What follows `## `. -/
def parseHeading (r : Str) : Option Line :=
  match readNat (r.takeWhile Char.isDigit) with
  | none => none
  | some n =>
    match stripPrefix (progTxt ++ plural n ++ ofCost) (r.dropWhile Char.isDigit) with
    | none => none
    | some bt => (parseBucket bt).map fun b => .heading b n

/-- What follows `### Program `, read from the end. -/
def parseTitle (readCost : Str → Option Rat) (r : Str) : Option Line :=
  match r.reverse with
  | [] => none
  | c :: t =>
    if c = ')' then
      match stripPrefix titleMidRev (t.dropWhile (· != ' ')) with
      | none => none
      | some pr => (readCost (t.takeWhile (· != ' ')).reverse).map fun cost =>
          .title (pr.reverse.map Char.toNat) cost
    else none

/-- What follows `| `. -/
def parseRow (readCost : Str → Option Rat) (r : Str) : Option Line :=
  match stripPrefix sep1 (r.dropWhile (· != ' ')) with
  | none => none
  | some r2 =>
    match stripPrefix sep2 (r2.dropWhile (· != '`')) with
    | none => none
    | some r3 =>
      match r3.reverse with
      | b :: a :: rc =>
        if b = '|' ∧ a = ' ' then
          match readCost (r.takeWhile (· != ' ')), parseCell rc.reverse with
          | some c, some spans => some (.row ⟨(r2.takeWhile (· != '`')).map Char.toNat, c, spans⟩)
          | _, _ => none
        else none
      | _ => none

def classify (readCost : Str → Option Rat) (l : Str) : Option Line :=
  match stripPrefix titleOpen l with
  | some r => parseTitle readCost r
  | none =>
    match stripPrefix headOpen l with
    | some r => parseHeading r
    | none =>
      if l = [] then some .blank
      else if l = headerLine then some .header
      else if l = ruleLine then some .rule
      else if l = hrLine then some .hr
      else
        match stripPrefix rowOpen l with
        | some r => parseRow readCost r
        | none => none

/-- What has been read so far (from the end): the rows waiting for their title, the sections waiting
for their heading, the groups. -/
structure St where
  rows : List Row
  secs : List Section
  bks : List (Bucket × List Section)

def step (readCost : Str → Option Rat) (l : Str) (s : Option St) : Option St :=
  match s with
  | none => none
  | some s =>
    match classify readCost l with
    | none => none
    | some (.row r) => some { s with rows := r :: s.rows }
    | some (.title p c) => some { s with rows := [], secs := ⟨p, c, s.rows⟩ :: s.secs }
    | some (.heading b n) =>
      if s.rows.isEmpty && n == s.secs.length then some { rows := [], secs := [], bks := (b, s.secs) :: s.bks }
      else none
    | some _ => some s

/-- The structured body read from the lines; `none` = unreadable. -/
def parseBody (readCost : Str → Option Rat) (lines : List Str) : Option (List (Bucket × List Section)) :=
  match lines.foldr (step readCost) (some ⟨[], [], []⟩) with
  | some ⟨[], [], bks⟩ => some bks
  | _ => none

/-! ### The strict reader: `parseBody` plus the GRAMMAR of the body

    body    = bucket*                      (an empty body is no line, or one blank line: `"".split("\n")`)
    bucket  = blank heading section*
    section = blank title blank header rule row* blank hr
-/

inductive Phase
  | p0 | p1 | b | b1 | s1 | s2 | s3 | s4 | s5
  deriving DecidableEq, Repr

/-- One line of the grammar, read forwards. -/
def next : Phase → Line → Option Phase
  | .p0, .blank => some .p1
  | .p1, .heading _ _ => some .b
  | .b, .blank => some .b1
  | .b1, .heading _ _ => some .b
  | .b1, .title _ _ => some .s1
  | .s1, .blank => some .s2
  | .s2, .header => some .s3
  | .s3, .rule => some .s4
  | .s4, .row _ => some .s4
  | .s4, .blank => some .s5
  | .s5, .hr => some .b
  | _, _ => none

def runPhase : Phase → List Line → Option Phase
  | ph, [] => some ph
  | ph, k :: t =>
    match next ph k with
    | none => none
    | some ph' => runPhase ph' t

def accepting : Phase → Bool
  | .p0 | .p1 | .b => true
  | _ => false

def classifyAll (readCost : Str → Option Rat) : List Str → Option (List Line)
  | [] => some []
  | l :: t =>
    match classify readCost l, classifyAll readCost t with
    | some k, some ks => some (k :: ks)
    | _, _ => none

/-- `parseBody` on a text whose lines follow the grammar; `none` otherwise. -/
def parseBodyStrict (readCost : Str → Option Rat) (lines : List Str) : Option (List (Bucket × List Section)) :=
  match classifyAll readCost lines with
  | none => none
  | some ks =>
    match runPhase .p0 ks with
    | none => none
    | some ph => if accepting ph then parseBody readCost lines else none

/-- `s.split("\n")`. -/
def splitLines : Str → List Str
  | [] => [[]]
  | c :: t =>
    if c = '\n' then [] :: splitLines t
    else match splitLines t with
      | l :: r => (c :: l) :: r
      | [] => [[c]]

/-! ### Hygiene (decidable; the harness checks it on the real databases) -/

/-- A taxon name: valid code points, no backquote, no newline. -/
def okTaxon (t : Codes) : Bool := t.all fun n => n.isValidChar && n != 96 && n != 10

/-- A path: valid code points, no newline. -/
def okPath (p : Codes) : Bool := p.all fun n => n.isValidChar && n != 10

def okRow (r : Row) : Bool := okTaxon r.taxon && r.spans.all fun sp => decide (0 ≤ sp.1) && decide (0 ≤ sp.2)

def okSection (s : Section) : Bool := okPath s.path && s.rows.all okRow

def okBody (b : List (Bucket × List Section)) : Bool := b.all fun g => g.2.all okSection

/-- The same hygiene stated on the database: paths, taxon names and spans of every record. -/
def okPrograms (programs : List (Codes × List (Codes × List Span))) : Bool :=
  programs.all fun pr => okPath pr.1 && pr.2.all fun ts =>
    okTaxon ts.1 && ts.2.all fun sp => decide (0 ≤ sp.1) && decide (0 ≤ sp.2)

/-- The text `txt` printed for the cost `c` is made of the characters of a float literal and reads back. -/
def costOKb (readCost : Str → Option Rat) (txt : Str) (c : Rat) : Bool :=
  txt.all costChar && readCost txt == some c

/-- … for every cost of the body (program costs and row costs). -/
def costsOK (showCost : Rat → Str) (rowCost : Codes → Rat → Str) (readCost : Str → Option Rat)
    (b : List (Bucket × List Section)) : Bool :=
  b.all fun g => g.2.all fun s =>
    costOKb readCost (showCost s.cost) s.cost && s.rows.all fun r => costOKb readCost (rowCost r.taxon r.cost) r.cost

/-- An exact reader of non-negative decimal literals `ddd[.ddd][e[+-]dd]` (what `repr` of a non-negative
finite float looks like): the rational the literal denotes. -/
def readDecimal (s : Str) : Option Rat :=
  let mant := s.takeWhile (· != 'e')
  let ex := s.dropWhile (· != 'e')
  let fp := (mant.dropWhile (· != '.')).drop 1
  match readNat (mant.takeWhile (· != '.')) with
  | none => none
  | some i =>
    if !fp.all Char.isDigit then none
    else
      let m : Rat := (i : Rat) + ((Nat.ofDigitChars 10 fp 0 : Nat) : Rat) / ((10 ^ fp.length : Nat) : Rat)
      match ex with
      | [] => some m
      | _ :: e =>
        match e with
        | '-' :: d => (readNat d).map fun n => m / ((10 ^ n : Nat) : Rat)
        | '+' :: d => (readNat d).map fun n => m * ((10 ^ n : Nat) : Rat)
        | d => (readNat d).map fun n => m * ((10 ^ n : Nat) : Rat)

end Paroxy.ReportText
