/-
What property C10 says about `deduplicated_taxa`, as predicates on (raw input `T`, output `out`).

"More specific": `d` is more specific than `n` when the `/`-separated segments of `n` are a proper
prefix of those of `d` (`n + "/"` is a string prefix of `d`).

The three clauses, for every taxon name `n` of the input and every span `s`
(`cnt T n s` = raw count of `s` in the bag of `n`, 0 when absent):

* `NoInvention`  — every entry left in the output belongs to an input name, is positive, and is at
                   most the raw count;
* `UnsharedKept` — if no more specific name of the input has `s`, the output count is the raw count;
* `CoveredLost`  — if `0 < raw n s ≤ Σ raw d s` over the *nearest* more specific names `d` having `s`
                   (no name strictly between `n` and `d` has `s`), `n` has no `s` in the output.

Each clause has an executable `…B` form (quantifiers bounded by the names and spans that occur),
used by the driver on the *implementation's* output; `Proofs/DedupSpec.lean` proves
`Clause → ClauseB = true`, so a `false` answer refutes the clause.
Core Lean only.
-/
import Paroxy.Model.Dedup
namespace Paroxy.Spec.Dedup
open Paroxy Paroxy.Dedup

section Generic
variable {ν σ : Type} [DecidableEq ν] [DecidableEq σ]

/-- The bag filed under name `n` (first match), empty when absent. -/
def bagOf : List (ν × Bag σ) → ν → Bag σ
  | [], _ => []
  | (m, b) :: t, n => if m = n then b else bagOf t n

/-- Count of span `s` for name `n`. -/
def cnt (T : List (ν × Bag σ)) (n : ν) (s : σ) : Int := Bag.count (bagOf T n) s

variable (desc : ν → ν → Bool)

/-- `d` is one of the nearest more specific names of `n` carrying `s`. -/
def nearB (T : List (ν × Bag σ)) (n : ν) (s : σ) (d : ν) : Bool :=
  desc n d && decide (0 < cnt T d s) &&
    T.all fun e => !(desc n e.1 && desc e.1 d && decide (0 < cnt T e.1 s))

/-- Total raw count of `s` over the nearest more specific names of `n` carrying `s`. -/
def nearestTotal (T : List (ν × Bag σ)) (n : ν) (s : σ) : Int :=
  ((T.filter fun e => nearB desc T n s e.1).map fun e => Bag.count e.2 s).sum

def NoInvention (T out : List (ν × Bag σ)) : Prop :=
  ∀ e ∈ out, e.1 ∈ T.map Prod.fst ∧ ∀ x ∈ e.2, 0 < x.2 ∧ x.2 ≤ cnt T e.1 x.1

def UnsharedKept (T out : List (ν × Bag σ)) : Prop :=
  ∀ n ∈ T.map Prod.fst, ∀ s : σ,
    (∀ d ∈ T.map Prod.fst, desc n d = true → cnt T d s = 0) → cnt out n s = cnt T n s

def CoveredLost (T out : List (ν × Bag σ)) : Prop :=
  ∀ n ∈ T.map Prod.fst, ∀ s : σ,
    0 < cnt T n s → cnt T n s ≤ nearestTotal desc T n s → cnt out n s = 0

/-- The spans that occur somewhere. -/
def spansOf (T : List (ν × Bag σ)) : List σ := T.flatMap fun e => e.2.map Prod.fst

def noInventionB (T out : List (ν × Bag σ)) : Bool :=
  out.all fun e => (T.map Prod.fst).contains e.1 &&
    e.2.all fun x => decide (0 < x.2) && decide (x.2 ≤ cnt T e.1 x.1)

def unsharedKeptB (T out : List (ν × Bag σ)) : Bool :=
  (T.map Prod.fst).all fun n => (spansOf T ++ spansOf out).all fun s =>
    !((T.map Prod.fst).all fun d => !(desc n d) || decide (cnt T d s = 0)) ||
      decide (cnt out n s = cnt T n s)

def coveredLostB (T out : List (ν × Bag σ)) : Bool :=
  (T.map Prod.fst).all fun n => (spansOf T ++ spansOf out).all fun s =>
    !(decide (0 < cnt T n s) && decide (cnt T n s ≤ nearestTotal desc T n s)) ||
      decide (cnt out n s = 0)

/-- Input bags are dicts (distinct keys) with positive counts (what `Counter.update` produces). -/
def GoodBags (T : List (ν × Bag σ)) : Prop :=
  ∀ e ∈ T, Bag.WF e.2 ∧ ∀ x ∈ e.2, 0 < x.2

instance (b : Bag σ) : Decidable (Bag.WF b) := by unfold Bag.WF; infer_instance

def goodBagsB (T : List (ν × Bag σ)) : Bool :=
  T.all fun e => decide (Bag.WF e.2) && e.2.all fun x => decide (0 < x.2)

/-- An output the clauses can be evaluated on: distinct names, bags with distinct keys. -/
def goodOutB (out : List (ν × Bag σ)) : Bool :=
  decide (out.map Prod.fst).Nodup && out.all fun e => decide (Bag.WF e.2)

end Generic

/-! ### Names as strings -/

/-- `l₁` is a proper prefix of `l₂`. -/
def properPrefix {α : Type} [DecidableEq α] (l₁ l₂ : List α) : Bool :=
  l₁.isPrefixOf l₂ && decide (l₁.length < l₂.length)

/-- `d` is more specific than `n`. -/
def descB (n d : Name) : Bool := properPrefix (splitOn '/' n) (splitOn '/' d)

/-- A clean name: no empty segment, no `.` segment (hence not absolute, not empty). -/
def cleanB (n : Name) : Bool := (splitOn '/' n).all fun c => !(c == []) && !(c == ['.'])

/-- A clean name, possibly followed by ONE trailing `/` (a last, empty segment). The default
taxonomy produces such names: `flow/exception/catch/\1` expands to `flow/exception/catch/` when the
optional group does not take part in the match (`except MyError:`, bare `except:`). -/
def cleanTB (n : Name) : Bool :=
  cleanB n || (match n.reverse with
    | '/' :: r => cleanB r.reverse
    | _ => false)

def CleanNames (names : List Name) : Prop := ∀ n ∈ names, cleanTB n = true
def cleanNamesB (names : List Name) : Bool := names.all cleanTB

/-- Strictly increasing for the code-point lexicographic order (what `sorted(acc.items())` yields:
the keys of a dict are distinct). -/
def StrictSorted (names : List Name) : Prop := names.Pairwise (· < ·)
def strictSortedB (names : List Name) : Bool := decide (names.Pairwise (· < ·))

abbrev noInventionS {σ : Type} [DecidableEq σ] := @noInventionB Name σ _ _
abbrev unsharedKeptS {σ : Type} [DecidableEq σ] := @unsharedKeptB Name σ _ _ descB
abbrev coveredLostS {σ : Type} [DecidableEq σ] := @coveredLostB Name σ _ _ descB

end Paroxy.Spec.Dedup
