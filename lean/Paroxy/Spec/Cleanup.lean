/-
What C13 says, as far as a model without CPython's tokenizer and parser can say it. Core Lean only.
-/
import Paroxy.Model.Cleanup
namespace Paroxy.Cleanup.Spec
open Paroxy.Cleanup

/-- "It contains no blank line": the empty text has no line at all; otherwise no line of the text
(in the sense of `split("\n")`) is empty or made of whitespace only. -/
def NoBlankLine (t : Text) : Prop := t = [] ∨ ∀ l ∈ splitNl t, blank l = false

def noBlankLineB (t : Text) : Bool := t.isEmpty || (splitNl t).all fun l => !blank l

/-- A line that carries a Paroxython hint marker (`#\s*paroxython\s*:` whatever the case). -/
def isHintLine (l : Line) : Bool := isHint l

/-- The tokens that the loop takes into account when it remembers the "previous token":
all but the comments it drops. -/
def seen (t : Token) : Bool := !(t.kind == .comment && !isHint t.str)

/-- Kinds of the tokens seen so far, most recent first. -/
def seenKindsRev (pre : List Token) : List Kind := ((pre.filter seen).map (·.kind)).reverse

/-- Declarative reading of the loop's test `previous_token in (INDENT, DEDENT, NEWLINE)` before a
token preceded by `pre`. With `r` the kinds of the tokens seen so far, most recent first: nothing
was seen yet, or the last seen token is an INDENT, a DEDENT or a NEWLINE, or the last seen tokens are
a run of NL (blank or comment-only lines) that comes right after a NEWLINE. -/
def AtStmtStart (pre : List Token) : Prop :=
  let r := seenKindsRev pre
  r = [] ∨ (∃ k r', r = k :: r' ∧ k.opensStmt = true) ∨
    (∃ n r', r = List.replicate (n + 1) Kind.nl ++ Kind.newline :: r')

/-- most recent first: a (possibly empty) run of NL closed by a NEWLINE -/
def nlRunAfterNewline : List Kind → Bool
  | .newline :: _ => true
  | .nl :: r => nlRunAfterNewline r
  | _ => false

def atStmtStartRev : List Kind → Bool
  | [] => true
  | .nl :: r => nlRunAfterNewline r
  | k :: _ => k.opensStmt

def atStmtStartB (pre : List Token) : Bool := atStmtStartRev (seenKindsRev pre)

/-- What the property calls a docstring-like string statement, at token level: the statement that
starts with token `i` consists of string literals only, i.e. the STRING tokens from `i` on are
followed by the NEWLINE that ends the logical line. -/
def stringsThenNewline : List Token → Bool
  | [] => false
  | t :: ts =>
    if t.kind = .string then stringsThenNewline ts
    else if t.kind = .comment then stringsThenNewline ts
    else t.kind = .newline

def docstringLikeB (ts : List Token) (i : Nat) : Bool :=
  match ts.drop i with
  | t :: rest => t.kind = .string && atStmtStartB (ts.take i) && stringsThenNewline rest
  | [] => false

end Paroxy.Cleanup.Spec
