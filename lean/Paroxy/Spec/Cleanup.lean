/-
What C13 says, as far as a model without CPython's tokenizer and parser can say it. Core Lean only.
-/
import Paroxy.Model.Cleanup
namespace Paroxy.Cleanup.Spec
open Paroxy.Cleanup

/-- "It contains no blank line": the empty text has no line at all; otherwise no line of the text
(in the sense of `split("\n")`) is empty or made of whitespace only. -/
def NoBlankLine (t : Text) : Prop := t = [] ∨ ∀ l ∈ splitNl t, blank l = false

def noBlankLineB (t : Text) : Bool := t.isEmpty || (splitNl t).all fun l => !blank l

/-- A line that carries a Paroxython hint marker (`#\s*paroxython\s*:` whatever the case). -/
def isHintLine (l : Line) : Bool := isHint l

/-- A line that BEGINS with the hint marker (a hint comment standing at column 0). -/
def startsWithMarker (l : Line) : Bool := (markerRest? l).isSome

/-- NL and COMMENT tokens (blank lines, comment-only lines, trailing comments) do not separate a
string from the statement start before it. -/
def transparent (k : Kind) : Bool := k == .nl || k == .comment

/-- Declarative reading of the loop's test `previous_token in (INDENT, DEDENT, NEWLINE)` before a
token preceded by `pre`: going back from that token and ignoring the NL and COMMENT tokens, either
the beginning of the file is reached or the first token met is an INDENT, a DEDENT or a NEWLINE. -/
def AtStmtStart (pre : List Token) : Prop :=
  let r := ((pre.map (·.kind)).reverse).dropWhile transparent
  r = [] ∨ ∃ k r', r = k :: r' ∧ k.opensStmt = true

def atStmtStartRev : List Kind → Bool
  | [] => true
  | k :: r => if transparent k then atStmtStartRev r else k.opensStmt

def atStmtStartB (pre : List Token) : Bool := atStmtStartRev (pre.map (·.kind)).reverse

/-- The kind of the next token that is not a comment (a trailing comment belongs to no statement). -/
def nextCodeKind : List Token → Option Kind
  | [] => none
  | t :: ts => if t.kind = .comment then nextCodeKind ts else some t.kind

/-- What the property calls a docstring-like string statement, at token level and WITHOUT reference to
the code's look-ahead: token `i` is a STRING standing at a statement start, and the statement ends
there — apart from comments, the next token is the NEWLINE that closes the logical line. In other
words: a string literal that is a whole statement. -/
def DocStmt (ts : List Token) (i : Nat) : Prop :=
  ∃ t, ts[i]? = some t ∧ t.kind = .string ∧ AtStmtStart (ts.take i) ∧
    nextCodeKind (ts.drop (i + 1)) = some Kind.newline

def docStmtB (ts : List Token) (i : Nat) : Bool :=
  match ts.drop i with
  | t :: rest => t.kind = .string && atStmtStartB (ts.take i) && (nextCodeKind rest == some .newline)
  | [] => false

/-! ### the main guard -/

/-- What CPython's parser guarantees about the top-level statements it reports, relative to a list of
`n` lines preceded by `pos` other lines: each statement spans lines `lineno … endLineno` (1-based,
inclusive) within bounds, and the statements follow each other without overlap. -/
def RangesOk : (pos n : Nat) → List IfStmt → Prop
  | _, _, [] => True
  | pos, n, r :: rest =>
    pos < r.lineno ∧ r.lineno ≤ r.endLineno ∧ r.endLineno ≤ pos + n ∧ RangesOk r.endLineno (n - (r.endLineno - pos)) rest

/-- What C13 asks of `suppress_main_guard`, read along the source: the lines before a top-level `if`
are kept; its block is dropped when its test is the `__main__` guard and kept otherwise; and so on
with what follows the block. `pos` = number of lines already passed. -/
def keepOutsideGuards : (pos : Nat) → List Line → List IfStmt → List Line
  | _, ls, [] => ls
  | pos, ls, r :: rest =>
    let pre := ls.take (r.lineno - 1 - pos)
    let blk := (ls.drop (r.lineno - 1 - pos)).take (r.endLineno - (r.lineno - 1))
    let post := ls.drop (r.endLineno - pos)
    pre ++ (if r.isGuard then [] else blk) ++ keepOutsideGuards r.endLineno post rest

/-! ### `sys.path` injections (statement level, repair F50) -/

/-- The top-level statements at column 0, each marked (`isGuard` field of the range) with "its first
line — read in the text as it is given — is an injection". These are the ranges `keepOutsideGuards`
walks through: C13 asks that a marked statement goes with ALL its lines and that everything else stays. -/
def injectionMarks (ls : List Line) (ss : List Stmt) : List IfStmt :=
  (ss.filter (·.col0)).map fun s => ⟨s.lineno, s.endLineno, isInjection (ls.getD (s.lineno - 1) [])⟩

end Paroxy.Cleanup.Spec
