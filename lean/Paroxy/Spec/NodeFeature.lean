/-
Specification side of C01: the `(type, line)` occurrences the property describes, and the
well-formedness hypothesis of the theorem.
-/
import Paroxy.Spec.FlatAst
import Paroxy.Model.NodeFeature
import Paroxy.Model.WholeSpan
namespace Paroxy.Flat

/-- The positioned nodes among the entries of an enumeration: `(type, line number)`. -/
def positionedOfEntries : List Entry → List (Str × Nat)
  | [] => []
  | e :: es =>
    match e.item with
    | .node ty _ _ (some ln) => (ty, ln) :: positionedOfEntries es
    | _ => positionedOfEntries es

/-- One `(type, line)` per node of the tree that carries a line number, in pre-order. -/
def positionedNodes (t : Val) : List (Str × Nat) := positionedOfEntries (entries [] [] t)

/-- What follows `_pos=` on the position line of a node at `addr` with line number `n`. -/
def posText (n : Nat) (addr : List Nat) : Str := dec n ++ ':' :: posPath addr

/-- A positioned node as the `node` feature must report it: its type and the text of its own `_pos`. -/
def Entry.posStart (e : Entry) : Option (Str × Str) :=
  match e.item with
  | .node ty _ _ (some n) => some (ty, posText n e.addr)
  | _ => none

/-- Well-formedness of one entry (the part of `Tree.WF` the `node` feature needs):
no `=` in the name path; node types are non-empty and free of `=`; a scalar is not stored under a
field called `_type` and its repr does not contain `/_type=`. -/
def Entry.ok (e : Entry) : Bool :=
  !(encNames e.names).contains '=' &&
    match e.item with
    | .node ty _ _ _ => !ty.contains '=' && !ty.isEmpty
    | .list _ _ => true
    | .scalar r => !(cs!"/_type").isSuffixOf (encNames e.names) && !hasInfix cs!"/_type=" r

/-- The positioned-type predicate `P` separates the types of positioned nodes from the types of the
other nodes (being positioned is a property of the node *type*, as in Python's `ast`). -/
def Entry.typed (P : Str → Bool) (e : Entry) : Bool :=
  match e.item with
  | .node ty _ _ (some _) => P ty
  | .node ty _ _ none => !P ty
  | _ => true

/-- `(SUFFIX, first POS)` of every match of the `node` feature, in order. -/
def nodeStarts (ls : List Str) : List (Str × Str) :=
  (nodeMatches ls).filterMap fun m => m.2.head?.map fun p => (m.1, p)

/-- The types of the positioned nodes of a tree. -/
def posTypes (t : Val) : List Str := (positionedNodes t).map (·.1)

/-- **`Tree.WF` for the `node` feature** (Bool-valued, evaluated by the driver on every exported
tree): every entry is well formed and no unpositioned node has the type of a positioned one. -/
def treeOk (t : Val) : Bool :=
  (entries [] [] t).all fun e => e.ok && e.typed (posTypes t).contains

/-- Additional local clauses for the span theorems: no newline in types and scalar reprs; a scalar is
not stored under a field whose path text ends with `/_pos`. -/
def Entry.ok2 (e : Entry) : Bool :=
  e.ok &&
    match e.item with
    | .node ty _ _ _ => !ty.contains '\n'
    | .list _ _ => true
    | .scalar r => !r.contains '\n' && !(cs!"/_pos").isSuffixOf (encNames e.names)

/-- Line numbers never decrease along the pre-order enumeration of the positioned nodes. -/
def PreorderMonotone (es : List Entry) : Prop :=
  (positionedOfEntries es).Pairwise (fun a b => a.2 ≤ b.2)

instance (es : List Entry) : Decidable (PreorderMonotone es) := by
  unfold PreorderMonotone; infer_instance

/-- The shape of a match of the `node` feature: one POS, or two POS with non-decreasing lines. -/
def GoodSpan (m : Str × List Str) : Prop :=
  ∃ n a, m.2 = [posText n a] ∨ ∃ n' a', m.2 = [posText n a, posText n' a'] ∧ n ≤ n'

/-- Further local clauses for the `whole_span` theorems: the path shown by a positioned node is not empty
(it is below a list of the root); a scalar line offers no position to the `whole_span` pattern (true of
every escaped value whose field name does not end with `_pos`). -/
def Entry.ok3 (e : Entry) : Bool :=
  e.ok2 &&
    match e.item with
    | .node _ _ _ (some _) => !(posPath e.addr).isEmpty
    | .node _ _ _ none => true
    | .list _ _ => true
    | .scalar r =>
      (firstWholePos? (scalarLine (encNames e.names) r)).isNone &&
        (lastWholePos? (scalarLine (encNames e.names) r)).isNone

/-- Line and address of a positioned entry. -/
def Entry.posOf (e : Entry) : Option (Nat × List Nat) :=
  match e.item with
  | .node _ _ _ (some n) => some (n, e.addr)
  | _ => none

/-- The line of the first positioned entry, and the entries that follow it. -/
def firstPosSplit : List Entry → Option (Nat × List Entry)
  | [] => none
  | e :: es =>
    match e.item with
    | .node _ _ _ (some n) => some (n, es)
    | _ => firstPosSplit es

/-- Line and address of the last positioned entry of an enumeration. -/
def lastPosOfEntries (es : List Entry) : Option (Nat × List Nat) :=
  (es.filterMap fun e => match e.item with
    | .node _ _ _ (some n) => some (n, e.addr)
    | _ => none).getLast?

def fieldNameOk (n : Str) : Bool := !n.contains '=' && !n.contains '/' && !n.isEmpty

mutual
/-- Field names: no `=`, no `/`, not empty, pairwise distinct among siblings. -/
def namesOkTree : Val → Bool
  | .node _ _ _ _ fs => (fs.map (·.1)).all fieldNameOk && decide (fs.map (·.1)).Nodup && namesOkFields fs
  | .list _ xs => namesOkItems xs
  | .scalar _ _ => true
def namesOkFields : List (Str × Val) → Bool
  | [] => true
  | (_, v) :: rest => namesOkTree v && namesOkFields rest
def namesOkItems : List Val → Bool
  | [] => true
  | v :: rest => namesOkTree v && namesOkItems rest
end

mutual
/-- **What the span of a `node` occurrence needs**: the line of a positioned node is not after the line
of its last positioned strict descendant in dump order (the second capture of the pattern). -/
def lastDescMono (names : List Str) (addr : List Nat) : Val → Bool
  | .node _ _ _ ln fs =>
    (match ln, lastPosOfEntries (entriesFields names addr 0 fs) with
      | some n, some (n', _) => decide (n ≤ n')
      | _, _ => true) && lastDescMonoFields names addr 0 fs
  | .list _ xs => lastDescMonoItems names addr 1 xs
  | .scalar _ _ => true
def lastDescMonoFields (names : List Str) (addr : List Nat) (i : Nat) : List (Str × Val) → Bool
  | [] => true
  | (n, v) :: rest => lastDescMono (names ++ [n]) (addr ++ [i]) v && lastDescMonoFields names addr (i + 1) rest
def lastDescMonoItems (names : List Str) (addr : List Nat) (i : Nat) : List Val → Bool
  | [] => true
  | v :: rest => lastDescMono (names ++ [dec i]) (addr ++ [i]) v && lastDescMonoItems names addr (i + 1) rest
end

mutual
/-- **Where a `node` occurrence starts** (since fix 44b0b15, `pos_to_span` sorts the two captured lines): one
`(type, start)` per node that carries a line number, in pre-order, `start` being the smaller of the node's own
line and the line of its last positioned strict descendant in dump order (its own line when there is none).
Under `lastDescMono` this is the node's own line: `nodeStartsSpec_eq_positioned`. -/
def nodeStartsSpec (names : List Str) (addr : List Nat) : Val → List (Str × Nat)
  | .node ty _ _ ln fs =>
    (match ln with
      | some n => [(ty, match lastPosOfEntries (entriesFields names addr 0 fs) with
          | some (n', _) => min n n'
          | none => n)]
      | none => []) ++ nodeStartsSpecFields names addr 0 fs
  | .list _ xs => nodeStartsSpecItems names addr 1 xs
  | .scalar _ _ => []
def nodeStartsSpecFields (names : List Str) (addr : List Nat) (i : Nat) : List (Str × Val) → List (Str × Nat)
  | [] => []
  | (n, v) :: rest => nodeStartsSpec (names ++ [n]) (addr ++ [i]) v ++ nodeStartsSpecFields names addr (i + 1) rest
def nodeStartsSpecItems (names : List Str) (addr : List Nat) (i : Nat) : List Val → List (Str × Nat)
  | [] => []
  | v :: rest => nodeStartsSpec (names ++ [dec i]) (addr ++ [i]) v ++ nodeStartsSpecItems names addr (i + 1) rest
end

/-- `Tree.WF` for the span theorems of C02 (Bool-valued, evaluated by the driver on every tree). -/
def treeOk2 (t : Val) : Bool :=
  (entries [] [] t).all fun e => e.ok2 && e.typed (posTypes t).contains

/-- `Tree.WF` for the `whole_span` theorems of C02. -/
def treeOk3 (t : Val) : Bool := (entries [] [] t).all Entry.ok3

/-! ## Data flow of tagging (for `C01_same_text`) -/

/-- What `get_program` hands over and `collect` stores: only `source` matters here. -/
structure ProgramRec where
  path : Str
  source : Str
  deriving Repr

/-- `ProgramParser.__call__` up to the `node` labels, for an arbitrary parser (`ast.parse` is outside
the model): `tree = ast.parse(program.source)`, flatten, search, bind. -/
def tagNodes (parse : Str → Option Val) (cfg : Cfg) (p : ProgramRec) : Option (Option (List (Str × SpanP))) :=
  (parse p.source).map fun t => nodeBindings? (flattenAst cfg HashState.reset t).1

/-- What `TagDatabase.programs_infos[path]["source"]` and the listings show. -/
def storedSource (p : ProgramRec) : Str := p.source

end Paroxy.Flat
