/-
Specification side of C01: the `(type, line)` occurrences the property describes.
-/
import Paroxy.Spec.FlatAst
namespace Paroxy.Flat

/-- The positioned nodes among the entries of an enumeration: `(type, line number)`. -/
def positionedOfEntries : List Entry → List (Str × Nat)
  | [] => []
  | e :: es =>
    match e.item with
    | .node ty _ _ (some ln) => (ty, ln) :: positionedOfEntries es
    | _ => positionedOfEntries es

/-- One `(type, line)` per node of the tree that carries a line number, in pre-order. -/
def positionedNodes (t : Val) : List (Str × Nat) := positionedOfEntries (entries [] [] t)

end Paroxy.Flat
