/-
What C14 says, independent of the code: every file of the directory is reported; a file that is not
valid Python has the single label `ast_construction:<ErrorName>` (hence, through the taxonomy, the single
taxon `meta/ast/<ErrorName>`), an empty one `ast_construction:EmptyProgramError`. Core Lean only.
-/
import Paroxy.Model.Collect
import Paroxy.Spec.MakeDb
namespace Paroxy.Collect
open Paroxy Paroxy.DB

variable {Tree : Type}

/-- The cleaned text of a file: the raw text when cleaning raises (`safe_full_cleaning`). -/
def cleanD (X : Ext Tree) (raw : Name) : Name := safeClean X raw

/-- The stored source of a file. -/
def srcOf (X : Ext Tree) (f : Name × Name) : Name := X.prepare (cleanD X f.2)

/-- The labels of a stored source (empty when the parser raises: only used when it does not). -/
def labelsD (X : Ext Tree) (src : Name) : List Label :=
  match parseProgram X src with
  | .ok l => l
  | .error _ => []

def progOf (X : Ext Tree) (f : Name × Name) : Prog :=
  { path := f.1, timestamp := [], source := srcOf X f, labels := labelsD X (srcOf X f) }

def progsOf (X : Ext Tree) (files : List (Name × Name)) : List Prog := files.map (progOf X)

/-- HYPOTHESIS on an external (not established by any theorem; the harness looks for counter-examples with an
implementation-only stream). The exception classes assumed of `ast.parse`: instances of `SyntaxError`/`ValueError`, whose class
name is an identifier (no colon). -/
def ParseCaught (X : Ext Tree) : Prop :=
  ∀ src e, X.parse src = .error e → e.caught = true ∧ cColon ∉ e.name

/-- HYPOTHESIS on an external: `flatten_ast` raises only instances of the caught classes (in practice
`ValueError` and `RecursionError`), whose class name is an identifier. -/
def FlattenCaught (X : Ext Tree) : Prop :=
  ∀ src t e, X.flatten src t = .error e → e.caught = true ∧ cColon ∉ e.name

/-- HYPOTHESIS on an external: the feature search never raises (DESIGN finding 17 was an input where it did).
Together with `ParseCaught` this assumes, for the two externals that matter, what the conclusion needs. -/
def FeaturesTotal (X : Ext Tree) : Prop := ∀ src t, ∃ ls, X.features src t = .ok ls  -- regex/SQL search only

/-- Every file has its record; invalid, unflattenable and empty files carry the single expected label, and their
taxa are the taxonomy's answer on that single label. -/
def Reported (X : Ext Tree) (toTaxa : Name → List Label → List Taxon) (files : List (Name × Name))
    (db : Db) : Prop :=
  keys db.programs = files.map (·.1) ∧
  ∀ f ∈ files, ∃ r, get? db.programs f.1 = some r ∧ r.source = srcOf X f ∧
    (∀ e, X.parse (srcOf X f) = .error e →
      r.labels = [(sAst ++ e.name, [(1, (((srcOf X f).count 10 : Nat) : Int) + 1)])] ∧
      r.taxa = preparedTaxa (toTaxa f.1 [astLabel e.name (srcOf X f)])) ∧
    (∀ t e, X.parse (srcOf X f) = .ok t → X.isEmpty t = false → X.flatten (srcOf X f) t = .error e →
      r.labels = [(sAst ++ e.name, [(1, (((srcOf X f).count 10 : Nat) : Int) + 1)])] ∧
      r.taxa = preparedTaxa (toTaxa f.1 [astLabel e.name (srcOf X f)])) ∧
    (∀ t, X.parse (srcOf X f) = .ok t → X.isEmpty t = true →
      r.labels = [(sAst ++ sEmpty, [(1, (((srcOf X f).count 10 : Nat) : Int) + 1)])] ∧
      r.taxa = preparedTaxa (toTaxa f.1 [emptyLabel (srcOf X f)]))

/-! ## Executable property predicate for the harness (`c14.spec_check`) -/

structure FileInfo where
  path : Name
  /-- the text is valid, non-empty Python -/
  valid : Bool
  /-- the text parses to an empty module -/
  empty : Bool
  /-- class name of the error `ast.parse` raises on the stored text (`[]` = not known) -/
  errName : Name := []
  deriving Repr, Inhabited

def sMetaAst : Name := [109, 101, 116, 97, 47, 97, 115, 116, 47] -- "meta/ast/"

/-- The observable part of `Reported` on an implementation output: the program keys are the files,
an empty file has the single taxon `meta/ast/EmptyProgramError`, an invalid one the single taxon
`meta/ast/<ErrorName>` (any `meta/ast/<something>` other than the empty-program one when the error
name is not known). -/
def reportedB (files : List FileInfo) (taxaKeys : List (Name × List Name)) : Bool :=
  (taxaKeys.map (·.1) == files.map (·.path)) &&
  files.all fun f =>
    match get? taxaKeys f.path with
    | none => false
    | some ks =>
      if f.empty then ks == [sMetaAst ++ sEmpty]
      else if !f.valid then
        match ks with
        | [k] =>
          if f.errName = [] then (dropPrefix? sMetaAst k).isSome && k != sMetaAst ++ sEmpty
          else k == sMetaAst ++ f.errName
        | _ => false
      else true

end Paroxy.Collect
