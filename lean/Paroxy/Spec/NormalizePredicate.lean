/-
Specification side of C16: what a "tolerated spelling" of a relation is, independently of the
function under proof. A spelling is built from a key or a name by the rewritings the manual
tolerates; `render` produces the text; the expected result is the key and the negation flag the
decoration carries.
-/
import Paroxy.Model.NormalizePredicate
import Paroxy.Spec.CompareSpans
namespace Paroxy.Spec.NP
open Paroxy Paroxy.Spec Paroxy.NP

/-- How one operand `x`/`y` is written: upper or lower case, optional index digit (e.g. `X2`). -/
structure OperandStyle where
  upper : Bool := false
  index : Option Nat := none      -- a decimal digit 0..9
  deriving DecidableEq, Repr, Inhabited

/-- How one operator is written: canonically (`<`, `≤`, `=`) or in ASCII (`<`, `<=`, `==`). -/
inductive OpStyle | canonical | ascii
  deriving DecidableEq, Repr, Inhabited

/-- A junk character: in the ASCII range, not a letter, none of `< = !` (and `≤` is not ASCII).
Spaces, digits, parentheses, commas, underscores, … -/
def junkChar (c : Nat) : Bool :=
  c < 128 && !(65 ≤ c && c ≤ 90) && !(97 ≤ c && c ≤ 122) && c != 60 && c != 61 && c != 33

structure FormulaStyle where
  s1 : OperandStyle := {}
  s2 : OperandStyle := {}
  s3 : OperandStyle := {}
  s4 : OperandStyle := {}
  p1 : OpStyle := .canonical
  p2 : OpStyle := .canonical
  p3 : OpStyle := .canonical
  j0 : Str := []
  j1 : Str := []
  j2 : Str := []
  j3 : Str := []
  j4 : Str := []
  j5 : Str := []
  j6 : Str := []
  j7 : Str := []
  deriving DecidableEq, Repr, Inhabited

def FormulaStyle.junkOk (st : FormulaStyle) : Bool :=
  [st.j0, st.j1, st.j2, st.j3, st.j4, st.j5, st.j6, st.j7].all (·.all junkChar) &&
  [st.s1, st.s2, st.s3, st.s4].all (fun s => match s.index with | some d => d < 10 | none => true)

def renderOperand (l : Letter) (s : OperandStyle) : Str :=
  (if s.upper then l.code - 32 else l.code) ::
    (match s.index with | some d => [48 + d] | none => [])

def renderOp (o : KOp) (s : OpStyle) : Str :=
  match o, s with
  | .lt, _ => [60]
  | .le, .canonical => [8804]
  | .le, .ascii => [60, 61]
  | .eq, .canonical => [61]
  | .eq, .ascii => [61, 61]

/-- The text of a formula spelling of key `k`. -/
def renderFormula (k : Key) (st : FormulaStyle) : Str :=
  st.j0 ++ renderOperand k.l1 st.s1 ++ st.j1 ++ renderOp k.o1 st.p1 ++ st.j2 ++
  renderOperand k.l2 st.s2 ++ st.j3 ++ renderOp k.o2 st.p2 ++ st.j4 ++
  renderOperand k.l3 st.s3 ++ st.j5 ++ renderOp k.o3 st.p3 ++ st.j6 ++
  renderOperand k.l4 st.s4 ++ st.j7

/-- A name written with an arbitrary case mask (bit `i` of `mask` upper-cases letter `i`). -/
def renderName (n : Codes) (mask : List Bool) : Str :=
  (n.zip (mask ++ List.replicate n.length false)).map fun (c, up) =>
    if up && 97 ≤ c && c ≤ 122 then c - 32 else c

/-- Decorations: text before, text after, and whether the spelling is negated. `sp` = number of
extra surrounding spaces. The manual: leading `!`, `not `, trailing ` not`; the verb `is` ignored
when followed or preceded by a space. -/
def decorations : List (Str × Str × Bool) :=
  let s (t : String) : Str := codesOf t
  [ (s "", s "", false), (s "  ", s " ", false),
    (s "is ", s "", false), (s "", s " is", false), (s " IS ", s "  ", false),
    (s "!", s "", true), (s "! ", s "", true), (s " !  ", s " ", true), (s "!is ", s "", true),
    (s "! is ", s "", true),
    (s "not ", s "", true), (s "NOT ", s "", true), (s "is not ", s "", true), (s "Is Not ", s " ", true),
    (s "", s " not", true), (s "", s " is not", true), (s "is ", s " not", true), (s " ", s " NOT ", true) ]

/-- The decorations in lower case and without outer whitespace (case and outer whitespace are
quantified separately in `C16_name_decorated`): `(before, after, negated)`. -/
def coreDecorations : List (Str × Str × Bool) :=
  let s (t : String) : Str := codesOf t
  [ (s "", s "", false), (s "is ", s "", false), (s "", s " is", false),
    (s "!", s "", true), (s "! ", s "", true), (s "!is ", s "", true), (s "! is ", s "", true),
    (s "not ", s "", true), (s "", s " not", true),
    (s "is not ", s "", true), (s "", s " is not", true), (s "is ", s " not", true) ]

/-- The abbreviations of the manual: `x=y`, `y=x` (identity), and formulas with a single `x`
and/or a single `y`, together with the key each stands for. -/
def abbreviations : List (Str × Key) :=
  let s (t : String) : Str := codesOf t
  let K (a b c d : Letter) (o1 o2 o3 : KOp) : Key := ⟨a, b, c, d, o1, o2, o3⟩
  [ (s "x=y", K .x .y .x .y .eq .le .eq), (s "y=x", K .x .y .x .y .eq .le .eq),
    (s "x == y", K .x .y .x .y .eq .le .eq),
    (s "x<y", K .x .x .y .y .le .lt .le), (s "x<=y", K .x .x .y .y .le .le .le),
    (s "x ≤ y", K .x .x .y .y .le .le .le), (s "y<x", K .y .y .x .x .le .lt .le),
    (s "y≤x", K .y .y .x .x .le .le .le),
    (s "y<x≤y", K .y .x .x .y .lt .le .le), (s "y1 < x1 == x2 <= y2", K .y .x .x .y .lt .eq .le),
    (s "x≤y≤x", K .x .y .y .x .le .le .le), (s "x<y<x", K .x .y .y .x .lt .le .lt),
    (s "y=y<x", K .y .y .x .x .eq .lt .le), (s "x<x=y", K .x .x .y .y .lt .eq .le) ]

/-- The codes of `k` with the second letter of an adjacent pair `c ≤ c` dropped: the manual's "single
`x`" (resp. `y`) abbreviation of that key, when the key has such a pair. -/
def dropPair (c : Letter) (k : Key) : Option Codes :=
  if k.l1 = c ∧ k.l2 = c ∧ k.o1 = .le then some [k.l1.code, k.o2.code, k.l3.code, k.o3.code, k.l4.code]
  else if k.l2 = c ∧ k.l3 = c ∧ k.o2 = .le then some [k.l1.code, k.o1.code, k.l2.code, k.o3.code, k.l4.code]
  else if k.l3 = c ∧ k.l4 = c ∧ k.o3 = .le then some [k.l1.code, k.o1.code, k.l2.code, k.o2.code, k.l3.code]
  else none

/-- Both pairs dropped (`x<y` for `x≤x<y≤y`). -/
def dropBoth (k : Key) : Option Codes :=
  if k.l1 = k.l2 ∧ k.l3 = k.l4 ∧ k.o1 = .le ∧ k.o3 = .le then some [k.l1.code, k.o2.code, k.l3.code] else none

/-- EVERY single-letter abbreviation of EVERY key (60 of them), except the two spellings `x=y` / `y=x`,
which the manual reserves for the identity `x=y≤x=y` (`abbreviations`). -/
def allAbbrevs : List (Codes × Key) :=
  (allKeys.flatMap fun k =>
    ((dropPair .x k).toList ++ (dropPair .y k).toList ++ (dropBoth k).toList).map fun s => (s, k)).filter
      fun p => p.1 != [120, 61, 121] && p.1 != [121, 61, 120]

end Paroxy.Spec.NP
