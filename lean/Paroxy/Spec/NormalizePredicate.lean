/-
Specification side of C16: what a "tolerated spelling" of a relation is, independently of the
function under proof. A spelling is built from a key or a name by the rewritings the manual
tolerates; `render` produces the text; the expected result is the key and the negation flag the
decoration carries.
-/
import Paroxy.Model.NormalizePredicate
import Paroxy.Spec.CompareSpans
namespace Paroxy.Spec.NP
open Paroxy Paroxy.Spec Paroxy.NP

/-- How one operand `x`/`y` is written: upper or lower case, optional index digit (e.g. `X2`). -/
structure OperandStyle where
  upper : Bool := false
  index : Option Nat := none      -- a decimal digit 0..9
  deriving DecidableEq, Repr, Inhabited

/-- How one operator is written: canonically (`<`, `≤`, `=`) or in ASCII (`<`, `<=`, `==`). -/
inductive OpStyle | canonical | ascii
  deriving DecidableEq, Repr, Inhabited

/-- A junk character: in the ASCII range, not a letter, none of `< = !` (and `≤` is not ASCII).
Spaces, digits, parentheses, commas, underscores, … -/
def junkChar (c : Nat) : Bool :=
  c < 128 && !(65 ≤ c && c ≤ 90) && !(97 ≤ c && c ≤ 122) && c != 60 && c != 61 && c != 33

structure FormulaStyle where
  s1 : OperandStyle := {}
  s2 : OperandStyle := {}
  s3 : OperandStyle := {}
  s4 : OperandStyle := {}
  p1 : OpStyle := .canonical
  p2 : OpStyle := .canonical
  p3 : OpStyle := .canonical
  j0 : Str := []
  j1 : Str := []
  j2 : Str := []
  j3 : Str := []
  j4 : Str := []
  j5 : Str := []
  j6 : Str := []
  j7 : Str := []
  deriving DecidableEq, Repr, Inhabited

def FormulaStyle.junkOk (st : FormulaStyle) : Bool :=
  [st.j0, st.j1, st.j2, st.j3, st.j4, st.j5, st.j6, st.j7].all (·.all junkChar) &&
  [st.s1, st.s2, st.s3, st.s4].all (fun s => match s.index with | some d => d < 10 | none => true)

def renderOperand (l : Letter) (s : OperandStyle) : Str :=
  (if s.upper then l.code - 32 else l.code) ::
    (match s.index with | some d => [48 + d] | none => [])

def renderOp (o : KOp) (s : OpStyle) : Str :=
  match o, s with
  | .lt, _ => [60]
  | .le, .canonical => [8804]
  | .le, .ascii => [60, 61]
  | .eq, .canonical => [61]
  | .eq, .ascii => [61, 61]

/-- The text of a formula spelling of key `k`. -/
def renderFormula (k : Key) (st : FormulaStyle) : Str :=
  st.j0 ++ renderOperand k.l1 st.s1 ++ st.j1 ++ renderOp k.o1 st.p1 ++ st.j2 ++
  renderOperand k.l2 st.s2 ++ st.j3 ++ renderOp k.o2 st.p2 ++ st.j4 ++
  renderOperand k.l3 st.s3 ++ st.j5 ++ renderOp k.o3 st.p3 ++ st.j6 ++
  renderOperand k.l4 st.s4 ++ st.j7

/-- A name written with an arbitrary case mask (bit `i` of `mask` upper-cases letter `i`). -/
def renderName (n : Codes) (mask : List Bool) : Str :=
  (n.zip (mask ++ List.replicate n.length false)).map fun (c, up) =>
    if up && 97 ≤ c && c ≤ 122 then c - 32 else c

/-- Decorations: text before, text after, and whether the spelling is negated. `sp` = number of
extra surrounding spaces. The manual: leading `!`, `not `, trailing ` not`; the verb `is` ignored
when followed or preceded by a space. -/
def decorations : List (Str × Str × Bool) :=
  let s (t : String) : Str := codesOf t
  [ (s "", s "", false), (s "  ", s " ", false),
    (s "is ", s "", false), (s "", s " is", false), (s " IS ", s "  ", false),
    (s "!", s "", true), (s "! ", s "", true), (s " !  ", s " ", true), (s "!is ", s "", true),
    (s "! is ", s "", true),
    (s "not ", s "", true), (s "NOT ", s "", true), (s "is not ", s "", true), (s "Is Not ", s " ", true),
    (s "", s " not", true), (s "", s " is not", true), (s "is ", s " not", true), (s " ", s " NOT ", true) ]

/-- The decorations in lower case and without outer whitespace (case and outer whitespace are
quantified separately in `C16_name_decorated`): `(before, after, negated)`. -/
def coreDecorations : List (Str × Str × Bool) :=
  let s (t : String) : Str := codesOf t
  [ (s "", s "", false), (s "is ", s "", false), (s "", s " is", false),
    (s "!", s "", true), (s "! ", s "", true), (s "!is ", s "", true), (s "! is ", s "", true),
    (s "not ", s "", true), (s "", s " not", true),
    (s "is not ", s "", true), (s "", s " is not", true), (s "is ", s " not", true) ]

/-- The abbreviations of the manual: `x=y`, `y=x` (identity), and formulas with a single `x`
and/or a single `y`, together with the key each stands for. -/
def abbreviations : List (Str × Key) :=
  let s (t : String) : Str := codesOf t
  let K (a b c d : Letter) (o1 o2 o3 : KOp) : Key := ⟨a, b, c, d, o1, o2, o3⟩
  [ (s "x=y", K .x .y .x .y .eq .le .eq), (s "y=x", K .x .y .x .y .eq .le .eq),
    (s "x == y", K .x .y .x .y .eq .le .eq),
    (s "x<y", K .x .x .y .y .le .lt .le), (s "x<=y", K .x .x .y .y .le .le .le),
    (s "x ≤ y", K .x .x .y .y .le .le .le), (s "y<x", K .y .y .x .x .le .lt .le),
    (s "y≤x", K .y .y .x .x .le .le .le),
    (s "y<x≤y", K .y .x .x .y .lt .le .le), (s "y1 < x1 == x2 <= y2", K .y .x .x .y .lt .eq .le),
    (s "x≤y≤x", K .x .y .y .x .le .le .le), (s "x<y<x", K .x .y .y .x .lt .le .lt),
    (s "y=y<x", K .y .y .x .x .eq .lt .le), (s "x<x=y", K .x .x .y .y .lt .eq .le) ]

/-- The codes of `k` with the second letter of an adjacent pair `c ≤ c` dropped: the manual's "single
`x`" (resp. `y`) abbreviation of that key, when the key has such a pair. -/
def dropPair (c : Letter) (k : Key) : Option Codes :=
  if k.l1 = c ∧ k.l2 = c ∧ k.o1 = .le then some [k.l1.code, k.o2.code, k.l3.code, k.o3.code, k.l4.code]
  else if k.l2 = c ∧ k.l3 = c ∧ k.o2 = .le then some [k.l1.code, k.o1.code, k.l2.code, k.o3.code, k.l4.code]
  else if k.l3 = c ∧ k.l4 = c ∧ k.o3 = .le then some [k.l1.code, k.o1.code, k.l2.code, k.o2.code, k.l3.code]
  else none

/-- Both pairs dropped (`x<y` for `x≤x<y≤y`). -/
def dropBoth (k : Key) : Option Codes :=
  if k.l1 = k.l2 ∧ k.l3 = k.l4 ∧ k.o1 = .le ∧ k.o3 = .le then some [k.l1.code, k.o2.code, k.l3.code] else none

/-- EVERY single-letter abbreviation of EVERY key (60 of them), except the two spellings `x=y` / `y=x`,
which the manual reserves for the identity `x=y≤x=y` (`abbreviations`). -/
def allAbbrevs : List (Codes × Key) :=
  (allKeys.flatMap fun k =>
    ((dropPair .x k).toList ++ (dropPair .y k).toList ++ (dropBoth k).toList).map fun s => (s, k)).filter
      fun p => p.1 != [120, 61, 121] && p.1 != [121, 61, 120]

/-! ### Decorated abbreviated spellings (round 10, E3)

An abbreviated spelling keeps ONE letter of an adjacent pair `c ≤ c` of the key (the manual's
"single `x`" / "single `y`"), or spells the identity `x=y≤x=y` as `x=y` / `y=x`. The kept tokens are
decorated exactly as in a full formula spelling (`FormulaStyle`): arbitrary junk around and between
the tokens, operands in either case with an optional index digit (the code erases digits like any
other junk, so `x1<Y2` is `x<y`), operators canonical or `<=` / `==`. -/

/-- Which abbreviation: the pair at letters 1-2, 2-3 or 3-4 written with a single letter, both outer
pairs (`x<y`), or the identity written `x=y` / `y=x`. -/
inductive Abbrev | p1 | p2 | p3 | both | identXY | identYX
  deriving DecidableEq, Repr, Inhabited

def allAbbrevKinds : List Abbrev := [.p1, .p2, .p3, .both, .identXY, .identYX]

/-- The key the manual's `x=y` / `y=x` stand for. -/
def identityKey : Key := ⟨.x, .y, .x, .y, .eq, .le, .eq⟩

/-- Key `k` has the abbreviation `a`. (`both` on `x≤x=y≤y` / `y≤y=x≤x` would be written `x=y` / `y=x`,
which the manual reserves for the identity: excluded, as in `allAbbrevs`.) -/
def Abbrev.applies (a : Abbrev) (k : Key) : Bool :=
  match a with
  | .p1 => decide (k.l1 = k.l2) && decide (k.o1 = .le)
  | .p2 => decide (k.l2 = k.l3) && decide (k.o2 = .le)
  | .p3 => decide (k.l3 = k.l4) && decide (k.o3 = .le)
  | .both => decide (k.l1 = k.l2) && decide (k.l3 = k.l4) && decide (k.o1 = .le) && decide (k.o3 = .le) &&
      !decide (k.o2 = .eq)
  | .identXY | .identYX => decide (k = identityKey)

/-- One more `junk operator junk operand` group of a chain of comparisons. -/
structure Link where
  ja : Str
  o : KOp
  p : OpStyle
  jb : Str
  l : Letter
  s : OperandStyle
  deriving DecidableEq, Repr, Inhabited

/-- The text of `operand (junk operator junk operand)*`. -/
def renderChain (l : Letter) (s : OperandStyle) : List Link → Str
  | [] => renderOperand l s
  | k :: r => renderOperand l s ++ (k.ja ++ (renderOp k.o k.p ++ (k.jb ++ renderChain k.l k.s r)))

/-- The tokens an abbreviation keeps, each with the decoration `st` gives it (the style fields of
the dropped letter and operator are ignored). -/
def abbrevChain (a : Abbrev) (k : Key) (st : FormulaStyle) : Letter × OperandStyle × List Link :=
  match a with
  | .p1 => (k.l1, st.s1, [⟨st.j1, k.o2, st.p2, st.j4, k.l3, st.s3⟩, ⟨st.j5, k.o3, st.p3, st.j6, k.l4, st.s4⟩])
  | .p2 => (k.l1, st.s1, [⟨st.j1, k.o1, st.p1, st.j2, k.l2, st.s2⟩, ⟨st.j5, k.o3, st.p3, st.j6, k.l4, st.s4⟩])
  | .p3 => (k.l1, st.s1, [⟨st.j1, k.o1, st.p1, st.j2, k.l2, st.s2⟩, ⟨st.j3, k.o2, st.p2, st.j4, k.l3, st.s3⟩])
  | .both => (k.l1, st.s1, [⟨st.j1, k.o2, st.p2, st.j4, k.l3, st.s3⟩])
  | .identXY => (k.l1, st.s1, [⟨st.j1, k.o1, st.p1, st.j2, k.l2, st.s2⟩])
  | .identYX => (k.l2, st.s1, [⟨st.j1, k.o1, st.p1, st.j2, k.l1, st.s2⟩])

/-- The text of the abbreviated spelling `a` of key `k` under the decoration `st`. -/
def renderAbbrev (k : Key) (a : Abbrev) (st : FormulaStyle) : Str :=
  let c := abbrevChain a k st
  st.j0 ++ (renderChain c.1 c.2.1 c.2.2 ++ st.j7)

/-- The bare abbreviated spelling (no decoration at all). -/
def abbrevCodes (a : Abbrev) (k : Key) : Codes :=
  match a with
  | .p1 => [k.l1.code, k.o2.code, k.l3.code, k.o3.code, k.l4.code]
  | .p2 => [k.l1.code, k.o1.code, k.l2.code, k.o3.code, k.l4.code]
  | .p3 => [k.l1.code, k.o1.code, k.l2.code, k.o2.code, k.l3.code]
  | .both => [k.l1.code, k.o2.code, k.l3.code]
  | .identXY => [k.l1.code, k.o1.code, k.l2.code]
  | .identYX => [k.l2.code, k.o1.code, k.l1.code]

/-- Every (abbreviation, key) pair: 58 single-letter forms + `x=y` + `y=x`. -/
def abbrevPairs : List (Abbrev × Key) :=
  allKeys.flatMap fun k => (allAbbrevKinds.filter fun a => a.applies k).map fun a => (a, k)

/-! ### Decoration words separated by ANY white space (round 11, B3)

The manual speaks of "adding the word not" and of the verb `is` being ignored; the property text lets
the words be separated from the relation by spaces. A *decoration text* is any string made of white
space (the model's: space, tab, LF, VT, FF, CR), `!`, and the letters of `not` / `is` in either case.
`carriesNeg` is the property's own clause: negated exactly when the stripped lower-cased spelling starts
with `!`, or carries `not` followed by a white-space character, or a white-space character followed by
`not`. -/

def decoChar (c : Nat) : Bool :=
  isSpace c || c == 33 || c == 110 || c == 111 || c == 116 || c == 105 || c == 115 ||
    c == 78 || c == 79 || c == 84 || c == 73 || c == 83

/-- `not` followed by a white-space character somewhere in `t`. -/
def hasNotWs : Str → Bool
  | [] => false
  | c :: t => (sNot.isPrefixOf (c :: t) && (match (c :: t).drop 3 with | d :: _ => isSpace d | [] => false)) || hasNotWs t

/-- A white-space character followed by `not` somewhere in `t`. -/
def hasWsNot : Str → Bool
  | [] => false
  | c :: t => (isSpace c && sNot.isPrefixOf t) || hasWsNot t

def carriesNeg (s : Str) : Bool :=
  let t := strip (lower s)
  t.head? == some 33 || hasNotWs t || hasWsNot t

/-- One decoration word with the white space that separates it from what follows (prefix position) or
precedes (suffix position). -/
structure SpWord where
  word : Str     -- any case of `not` / `is`
  ws : Str       -- non-empty white space
  deriving DecidableEq, Repr, Inhabited

def SpWord.ok (w : SpWord) : Bool :=
  (lower w.word == sNot || lower w.word == [105, 115]) && w.ws.all isSpace && !w.ws.isEmpty

def SpWord.isNot (w : SpWord) : Bool := lower w.word == sNot

/-- A spaced decoration: outer white space, an optional `!` followed by any white space, prefix words
(each followed by its white space), suffix words (each preceded by its white space). -/
structure Spaced where
  outerL : Str := []
  bang : Option Str := none
  pre : List SpWord := []
  post : List SpWord := []
  outerR : Str := []
  deriving DecidableEq, Repr, Inhabited

def Spaced.ok (d : Spaced) : Bool :=
  d.outerL.all isSpace && d.outerR.all isSpace && (match d.bang with | some w => w.all isSpace | none => true) &&
  d.pre.all SpWord.ok && d.post.all SpWord.ok

def Spaced.before (d : Spaced) : Str :=
  d.outerL ++ (match d.bang with | some w => 33 :: w | none => []) ++ d.pre.flatMap fun w => w.word ++ w.ws

def Spaced.after (d : Spaced) : Str :=
  (d.post.flatMap fun w => w.ws ++ w.word) ++ d.outerR

/-- The decorated text of a body `X` (a formula, an abbreviated formula or a name). -/
def renderSpaced (d : Spaced) (X : Str) : Str := d.before ++ X ++ d.after

/-- The flag the decoration carries: `!`, a prefix `not<ws>` or a suffix `<ws>not`. -/
def Spaced.neg (d : Spaced) : Bool := d.bang.isSome || d.pre.any SpWord.isNot || d.post.any SpWord.isNot

end Paroxy.Spec.NP
