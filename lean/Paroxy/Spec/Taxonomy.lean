/-
What property C09 says: the translation of a label is exactly the taxonomy table filtered by
"the label pattern matches the label entirely", and the span bag of a taxon before deduplication is
the multiset union of the spans of the labels translated to it.
Core Lean only.
-/
import Paroxy.Model.Taxonomy
namespace Paroxy.Spec.Taxo
open Paroxy Paroxy.Taxo

/-- The row `(T, P)` applies to the label `L`, producing this taxon name: a literal pattern (no
metacharacter other than dots) matches only itself; any other pattern is asked to the oracle. -/
def rowResult (o : Oracle) (r : Row) (L : Str) : Option Str :=
  if isLiteral r.2 then (if r.2 = L then some r.1 else none) else o.full r L

/-- The rows whose label pattern is literal / is a regular expression, in table order. -/
def litRows (rows : List Row) : List Row := rows.filter fun r => isLiteral r.2
def rxRows (rows : List Row) : List Row := rows.filter fun r => !isLiteral r.2

/-- `translate` on a table already split by `litRows` / `rxRows` (what the driver evaluates, so
that `isLiteral` is computed once per row and not once per call). -/
def translateSplit (o : Oracle) (lit rx : List Row) (L : Str) : List Str :=
  if o.looks L then [L]
  else ((lit.filter fun r => decide (r.2 = L)).map Prod.fst) ++ rx.filterMap fun r => o.full r L

/-- **The specification of `get_taxon_name_list`**: a label that looks like a taxon translates to
itself; otherwise the literal rows whose pattern is the label, then the other rows that match
entirely, each group in the order of the (sorted) table. -/
def translate (o : Oracle) (rows : List Row) (L : Str) : List Str :=
  translateSplit o (litRows rows) (rxRows rows) L

/-- Multiplicity of the taxon `t` in a translation. -/
def mult (t : Str) (l : List Str) : Nat := l.count t

/-- Raw count from the list of (translation, spans) of the labels. -/
def rawCountT {σ : Type} [DecidableEq σ] (trs : List (List Str × List σ)) (t : Str) (s : σ) : Int :=
  (trs.map fun ts => ((mult t ts.1 * ts.2.count s : Nat) : Int)).sum

/-- **The specification of the raw span bag**: count of span `s` for taxon `t` =
Σ over the labels `(L, spans)` of (multiplicity of `t` in the translation of `L`) × (occurrences of
`s` in `spans`). -/
def rawCount {σ : Type} [DecidableEq σ] (o : Oracle) (rows : List Row)
    (labels : List (Str × List σ)) (t : Str) (s : σ) : Int :=
  rawCountT (labels.map fun ls => (translate o rows ls.1, ls.2)) t s

/-- The taxa that must appear as keys: those some label translates to. -/
def rawKeys {σ : Type} (o : Oracle) (rows : List Row) (labels : List (Str × List σ)) : List Str :=
  labels.flatMap fun ls => translate o rows ls.1

end Paroxy.Spec.Taxo
