/-
Specification side of C12/C02 (hints): what a *decorated program* is, how it is written down
(`decorate`), and what its hints *say* (`events`, `Bal`: proper nesting per label, LIFO).

Core Lean only: the executable parts are linked into the driver (`c12.spec_*` ops).

Reading of the manual (docs/md/preparing.md, "Manual hints") made explicit here, see DESIGN §5/C12:
 (i)  a hint alone on a line is a *bare* label; the whole-program labels of one source form a set;
 (ii) for one label opened several times, a closing mark closes the latest still-open opening of
      that label, whatever its sign (LIFO) — `Bal`;
 (iii) the marker is the normalised `# paroxython:` (normalisation belongs to the cleaning step, C13).
-/
import Paroxy.Model.Hints
namespace Paroxy.Hints

variable (O : CharOracle)

/-- What a trailing hint token says. `del = true` is the `-` sign. -/
inductive Mark
  | one (del : Bool)   -- `L`, `+L`, `-L`: on this line
  | opn (del : Bool)   -- `L...`, `+L...`, `-L...`: from this line on
  | cls                -- `...L`: up to this line
  deriving DecidableEq, Repr, Inhabited

/-- The tolerated spellings: optional `+`, `…` for `...`, extra spaces before the token. -/
structure Style where
  plus : Bool := false
  uni : Bool := false
  gap : Nat := 0
  deriving DecidableEq, Repr, Inhabited

structure Hint where
  mark : Mark
  label : Str
  style : Style := {}
  deriving DecidableEq, Repr, Inhabited

/-- A line of code followed by `pad` spaces (none: the hint comment is glued to the code, F45) and
its hint comment (no comment when `hints = []`). -/
structure CodeLine where
  code : Str
  pad : Nat := 1
  hints : List Hint := []
  deriving DecidableEq, Repr, Inhabited

inductive Line
  | code (c : CodeLine)
  | isolated (indent : Nat) (label : Str)   -- `# paroxython: L` alone on its line
  deriving DecidableEq, Repr, Inhabited

/-- A decorated program: code lines with trailing hints, and isolated hints anywhere between them. -/
abbrev Decorated := List Line

def ellipsis (uni : Bool) : Str := if uni then [ell] else dots3
def sign (plus : Bool) : Str := if plus then ['+'] else []

def renderHint (h : Hint) : Str :=
  match h.mark with
  | .one false => sign h.style.plus ++ h.label
  | .one true => '-' :: h.label
  | .opn false => sign h.style.plus ++ (h.label ++ ellipsis h.style.uni)
  | .opn true => '-' :: (h.label ++ ellipsis h.style.uni)
  | .cls => ellipsis h.style.uni ++ h.label

def renderHints (hs : List Hint) : Str :=
  hs.flatMap fun h => List.replicate (h.style.gap + 1) ' ' ++ renderHint h

def renderCode (c : CodeLine) : Str :=
  if c.hints = [] then c.code
  else c.code ++ (List.replicate c.pad ' ' ++ (m13 ++ renderHints c.hints))

def renderLine : Line → Str
  | .code c => renderCode c
  | .isolated indent L => List.replicate indent ' ' ++ (m14 ++ L)

/-- The text of a decorated program. -/
def decorate (d : Decorated) : Str := joinNL (d.map renderLine)

def codeLines : Decorated → List CodeLine
  | [] => []
  | .code c :: d => c :: codeLines d
  | .isolated _ _ :: d => codeLines d

/-- The labels hinted alone on a line, in reading order (with repetitions). -/
def wholeLabels : Decorated → List Str
  | [] => []
  | .code _ :: d => wholeLabels d
  | .isolated _ L :: d => L :: wholeLabels d

/-- The program without its hints. -/
def base (d : Decorated) : List Str := (codeLines d).map (·.code)

/-! ### What the hints say -/

/-- A hint event for one fixed label: sign and (code) line number. -/
inductive Ev
  | one (del : Bool) (i : Nat)
  | opn (del : Bool) (i : Nat)
  | cls (i : Nat)
  deriving DecidableEq, Repr, Inhabited

def Ev.line : Ev → Nat
  | .one _ i => i
  | .opn _ i => i
  | .cls i => i

def Mark.ev (i : Nat) : Mark → Ev
  | .one s => .one s i
  | .opn s => .opn s i
  | .cls => .cls i

/-- The events of label `L` among the hints of line `i`. -/
def hintEvs (L : Str) (i : Nat) (hs : List Hint) : List Ev :=
  hs.filterMap fun h => if h.label = L then some (h.mark.ev i) else none

/-- The events of label `L` in the code lines numbered from `i`; `w` tells whether `L` is also
hinted alone on a line, in which case it is opened at the end of line 1 and closed at the end of
line `n` (the last one). -/
def eventsFrom (L : Str) (w : Bool) (n : Nat) : Nat → List CodeLine → List Ev
  | _, [] => []
  | i, c :: cs =>
    hintEvs L i c.hints ++ ((if w && i == 1 then [Ev.opn false 1] else []) ++
      ((if w && i == n then [Ev.cls n] else []) ++ eventsFrom L w n (i + 1) cs))

/-- Everything the decorated program says about label `L`, in reading order. -/
def events (d : Decorated) (L : Str) : List Ev :=
  eventsFrom L ((wholeLabels d).contains L) (codeLines d).length 1 (codeLines d)

/-- A scheduled span of a fixed label: (deletion?, start, end). -/
abbrev SSpan := Bool × Nat × Nat

/-- Properly nested marks of one label, and the spans they delimit: a single-line hint is the
span (i, i); an opening on line i closed by the matching closing on line j is the span (i, j)
with the sign of the opening. Spans are listed in the order of their last line's mark. -/
inductive Bal : List Ev → List SSpan → Prop
  | nil : Bal [] []
  | one {s i w r} : Bal w r → Bal (.one s i :: w) ((s, i, i) :: r)
  | pair {s i j u ru w rw} : Bal u ru → Bal w rw →
      Bal (.opn s i :: (u ++ .cls j :: w)) (ru ++ (s, i, j) :: rw)

/-- Executable reading of `Bal`: recursive descent on the marks of one label. Returns the spans
of the longest properly nested prefix and what follows it. -/
def parseBal : Nat → List Ev → Option (List SSpan × List Ev)
  | 0, _ => none
  | _ + 1, [] => some ([], [])
  | fuel + 1, .one s i :: w =>
    match parseBal fuel w with
    | some (r, rest) => some ((s, i, i) :: r, rest)
    | none => none
  | fuel + 1, .opn s i :: w =>
    match parseBal fuel w with
    | some (ru, .cls j :: v) =>
      match parseBal fuel v with
      | some (rw, rest) => some (ru ++ (s, i, j) :: rw, rest)
      | none => none
    | _ => none
  | _ + 1, .cls j :: w => some ([], .cls j :: w)

/-- The spans said by the marks `w` of one label when they are properly nested, else `none`. -/
def balSpans (w : List Ev) : Option (List SSpan) :=
  match parseBal (w.length + 1) w with
  | some (r, []) => some r
  | _ => none

/-- No label is opened for addition and for deletion on the same line. On such a tie the
implementation closes the addition first whatever the order of the two openings on the line
(`max(champions, key=line)`), which is the LIFO reading only for `-L... L...`. -/
def noTie (w : List Ev) : Bool :=
  w.all fun e => match e with
    | .opn false i => !w.contains (.opn true i)
    | _ => true

/-! ### Malformed hint comments (any text) -/

/-- How the token regex reads a raw token, if it accepts it. -/
def classify (t : Str) : Option Tok := ((matchLabel O) t).map fun p => ⟨p.1, p.2.1, p.2.2⟩

/-- An opening mark of label `L` (`L...`, `+L...`, `-L...`). -/
def Tok.isOpen (k : Tok) (L : Str) : Bool := k.after && k.before != .dots && k.label == L
/-- A closing mark of label `L` (`...L`). -/
def Tok.isClose (k : Tok) (L : Str) : Bool := !k.after && k.before == .dots && k.label == L
/-- `...L...`: "Illegal last part". -/
def Tok.illegal (k : Tok) : Bool := k.after && k.before == .dots

/-- A token the matcher rejects (or of the illegal form `...L...`). -/
def rejected (t : Str) : Bool :=
  match (classify O) t with
  | none => true
  | some k => k.illegal

def tokCount (f : Tok → Bool) (toks : List (Nat × Str)) : Nat :=
  toks.countP fun p => match (classify O) p.2 with
    | some k => f k
    | none => false

def opensOf (L : Str) (toks : List (Nat × Str)) : Nat := (tokCount O) (·.isOpen L) toks
def closesOf (L : Str) (toks : List (Nat × Str)) : Nat := (tokCount O) (·.isClose L) toks

/-- The hint tokens of a text are malformed: some token is rejected, or for some label a closing
mark comes with no opening mark still open before it, or an opening mark is never closed. -/
def Malformed (toks : List (Nat × Str)) : Prop :=
  (∃ p ∈ toks, (rejected O) p.2 = true) ∨
    ∃ L, (∃ pre, pre <+: toks ∧ (opensOf O) L pre < (closesOf O) L pre) ∨ (opensOf O) L toks ≠ (closesOf O) L toks

/-- Executable form of `Malformed` for the labels occurring in the tokens. -/
def labelsIn (toks : List (Nat × Str)) : List Str :=
  toks.filterMap fun p => ((classify O) p.2).map (·.label)

def unbalancedB (L : Str) (toks : List (Nat × Str)) : Bool :=
  (List.range (toks.length + 1)).any (fun n => (opensOf O) L (toks.take n) < (closesOf O) L (toks.take n)) ||
    (opensOf O) L toks != (closesOf O) L toks

def malformedB (toks : List (Nat × Str)) : Bool :=
  toks.any (fun p => (rejected O) p.2) || ((labelsIn O) toks).any fun L => (unbalancedB O) L toks

/-- The numbered hint tokens of a text. -/
def hintToks (c : Str) : List (Nat × Str) := (numberedTokens O) 1 (splitNL c)

/-! ### Hygiene: what `decorate` assumes of the program and of the labels -/

def noM13 (l : Str) : Bool := !hasInfix m13 l
def noNL (l : Str) : Bool := !l.contains '\n'
def noTrailWs (l : Str) : Bool :=
  match l.getLast? with
  | some c => !(isSpacePy O) c
  | none => true

/-- A label the token regex reads back as itself: starts with a word character, contains no
white space, does not end with an ellipsis. -/
def cleanLabel (L : Str) : Bool :=
  match L with
  | [] => false
  | c :: _ => (isWord O) c && L.all (fun x => !(isSpacePy O) x) && !(splitAfter L).2

/-- A code line: one line, no hint marker, no trailing white space; not blank when it carries hints. -/
def okCode (c : CodeLine) : Bool :=
  noNL c.code && noM13 c.code && (noTrailWs O) c.code && (c.hints.isEmpty || !c.code.isEmpty) &&
    c.hints.all fun h => (cleanLabel O) h.label

def firstOk (c : CodeLine) : Bool := !c.code.isEmpty

def lastOk (c : CodeLine) : Bool := !c.code.isEmpty

/-- Hygienic lines whose first and last code lines are not blank (what `centrifugate_hints` leaves
once the blank lines are trimmed, see `normalised`). -/
def hygienic (d : Decorated) : Bool :=
  (codeLines d).all (okCode O) && (wholeLabels d).all (cleanLabel O) &&
    match codeLines d with
    | [] => false
    | c :: cs => firstOk c && lastOk ((c :: cs).getLast (by simp))

/-! ### Tolerated spellings of the marker, blank lines at both ends of the text -/

/-- How a hint comment spells its marker (manual, "Formatting details": `# paroxython:` is neither
space- nor case-sensitive): `#`, `sp1` spaces, `paroxython` with the letters `k` such that
`caps k` in upper case, `sp2` spaces, `:`, then `after` spaces. The normalised spelling is the
default. -/
structure MarkerStyle where
  sp1 : Nat := 1
  caps : Nat → Bool := fun _ => false
  sp2 : Nat := 0
  after : Nat := 1

def spellAt (caps : Nat → Bool) (k : Nat) : Char :=
  match pletters[k]? with
  | some p => if caps k then p.toUpper else p
  | none => ' '

def renderMarker (ms : MarkerStyle) : Str :=
  '#' :: (List.replicate ms.sp1 ' ' ++ ((List.range 10).map (spellAt ms.caps) ++
    (List.replicate ms.sp2 ' ' ++ [':'])))

/-- A line of a decorated program with its marker spelled as `ms` says (`ms.after` spaces, possibly
none, then the first token). -/
def renderLineS : Line × MarkerStyle → Str
  | (.code c, ms) =>
    if c.hints = [] then c.code
    else c.code ++ (List.replicate c.pad ' ' ++ (renderMarker ms ++
      (List.replicate ms.after ' ' ++ (renderHints c.hints).drop 1)))
  | (.isolated indent L, ms) =>
    List.replicate indent ' ' ++ (renderMarker ms ++ (List.replicate ms.after ' ' ++ L))

/-- The text of a decorated program whose markers are spelled freely. -/
def decorateS (d : List (Line × MarkerStyle)) : Str := joinNL (d.map renderLineS)

/-- The same line once its marker is normalised: the white space that followed the colon is gone. -/
def gap0 : Line → Line
  | .code c =>
    .code { c with hints := match c.hints with
      | [] => []
      | h :: hs => { h with style := { h.style with gap := 0 } } :: hs }
  | .isolated indent L => .isolated indent L

def isBlankLine : Line → Bool
  | .code c => c.code.isEmpty && c.hints.isEmpty
  | .isolated _ _ => false

/-- The decorated program without the blank lines that begin and end its text. -/
def core (d : Decorated) : Decorated :=
  ((d.dropWhile isBlankLine).reverse.dropWhile isBlankLine).reverse

def isBlankCode (c : CodeLine) : Bool := c.code.isEmpty && c.hints.isEmpty

/-- Without the blank code lines that come before the first code line that is not blank (hints
alone on a line are kept where they are). -/
def dropLeadingBlank : Decorated → Decorated
  | [] => []
  | .isolated n L :: t => .isolated n L :: dropLeadingBlank t
  | .code c :: t => if isBlankCode c then dropLeadingBlank t else .code c :: t

/-- Without the blank code lines before the first / after the last code line that is not blank:
the blank lines `centrifugate_hints` finds at the ends once the isolated hints are set aside. -/
def core2 (d : Decorated) : Decorated := (dropLeadingBlank (dropLeadingBlank d).reverse).reverse

/-- The decorated program after the preparation steps of `get_program`: markers normalised, blank
lines at the ends of the text trimmed. -/
def trimmed (d : List (Line × MarkerStyle)) : Decorated := core (d.map fun p => gap0 p.1)

/-- What `get_program` numbers the hints on: the prepared program (`trimmed`) without the blank code
lines left at its ends once the hints alone on a line are set aside (`core2`). -/
def normalised (d : List (Line × MarkerStyle)) : Decorated := core2 (trimmed d)

/-- No tolerated spelling of the marker (`(?i)#\s*paroxython\s*:`) occurs in the text. -/
def scanAccepts : NState → Str → Bool
  | _, [] => false
  | st, c :: t =>
    match (nstep O) st c with
    | .cont s => scanAccepts s t
    | .reset => scanAccepts .idle t
    | .hash => scanAccepts .hash t
    | .accept => true
    | .drop => scanAccepts .tail t

def noLoose (l : Str) : Bool := !(scanAccepts O) .idle l
def noHash (l : Str) : Bool := !l.contains '#'

/-- Hygiene of the code lines and labels when the marker may be spelled freely: no look-alike of
the marker in the code, no `#` in a label. -/
def looseOk (d : Decorated) : Bool :=
  (codeLines d).all (fun c => (noLoose O) c.code && c.hints.all fun h => noHash h.label) &&
    (wholeLabels d).all noHash

/-! ### The decorated program after centrifugation (isolated hints moved to both ends) -/

def wOpen (L : Str) : Hint := ⟨.opn false, L, {}⟩
def wClose (L : Str) : Hint := ⟨.cls, L, {}⟩

def CodeLine.addHints (c : CodeLine) (hs : List Hint) : CodeLine :=
  { code := c.code, pad := if c.hints = [] then 1 else c.pad, hints := c.hints ++ hs }

def centrifuged (ws : List Str) : List CodeLine → List CodeLine
  | [] => []
  | [c] => [c.addHints (ws.flatMap fun L => [wOpen L, wClose L])]
  | c :: c2 :: cs =>
    c.addHints (ws.map wOpen) ::
      ((c2 :: cs).dropLast ++ [((c2 :: cs).getLast (by simp)).addHints (ws.map wClose)])

end Paroxy.Hints
