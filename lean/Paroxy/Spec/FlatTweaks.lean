/-
C15, "the documented tweaks only": each line-level post-processing pass is the dump of a tree-level
tweak. This file defines the tree-level tweaks pass by pass, and the local (per line) well-formedness
clauses under which the lifting theorems of Props/C15 hold. Each clause is Bool-valued and is evaluated
by the driver on every exported tree (`c15.wf`).
-/
import Paroxy.Spec.FlatAst
namespace Paroxy.Flat

/-! ## `unquote` -/

mutual
/-- Tree-level `unquote`: every `str` scalar loses its two delimiters. -/
def unquoteTree : Val → Val
  | .node ty e r ln fs => .node ty e r ln (unquoteTreeFields fs)
  | .list q xs => .list q (unquoteTreeItems xs)
  | .scalar r k => .scalar (unquoteScalar r k) k
def unquoteTreeFields : List (Str × Val) → List (Str × Val)
  | [] => []
  | (n, v) :: rest => (n, unquoteTree v) :: unquoteTreeFields rest
def unquoteTreeItems : List Val → List Val
  | [] => []
  | v :: rest => unquoteTree v :: unquoteTreeItems rest
end

/-- The value part of a line is left alone by `unquote`. -/
def unquoteFixes (v : Str) : Bool := unquoteValue v == v

mutual
/-- Local clauses for `unquote`: no `=` in field names; type names are left alone by the pass; on a
scalar the pass does what the scalar's *real kind* says (`reprKindAgrees` for quotes: a `str` repr is
delimited by quotes, any other repr does not both start and end with a quote). Since 0ac09ad the pass
is anchored on the key, so quotes *inside* a bytes repr no longer matter. -/
def wfUnquote : Val → Bool
  | .node ty _ _ _ fs => unquoteFixes ty && wfUnquoteFields fs
  | .list _ xs => wfUnquoteItems xs
  | .scalar r k => unquoteValue r == unquoteScalar r k
def wfUnquoteFields : List (Str × Val) → Bool
  | [] => true
  | (n, v) :: rest => !n.contains '=' && wfUnquote v && wfUnquoteFields rest
def wfUnquoteItems : List Val → Bool
  | [] => true
  | v :: rest => wfUnquote v && wfUnquoteItems rest
end

/-! ## `suppress_kinds` -/

mutual
/-- Tree-level `suppress_kinds`: drop the scalar fields called `kind`, except directly under the root
(`below` = the node's own prefix is non-empty; the pattern needs a character before `/kind=`). -/
def dropKinds (below : Bool) : Val → Val
  | .node ty e r ln fs => .node ty e r ln (dropKindsFields below fs)
  | .list q xs => .list q (dropKindsItems xs)
  | .scalar r k => .scalar r k
def dropKindsFields (below : Bool) : List (Str × Val) → List (Str × Val)
  | [] => []
  | (n, v) :: rest =>
    match v with
    | .scalar r k =>
      if below && n == cs!"kind" then dropKindsFields below rest
      else (n, .scalar r k) :: dropKindsFields below rest
    | v => (n, dropKinds true v) :: dropKindsFields below rest
def dropKindsItems : List Val → List Val
  | [] => []
  | v :: rest => dropKinds true v :: dropKindsItems rest
end

def kindMark : Str := cs!"/kind="

mutual
/-- Local clauses for `suppress_kinds`: field names contain neither `=` nor `/`; type names contain no
`=`; a scalar field called `kind` is the last field of its node (as in Python's
`Constant(value, kind)`), so that dropping it renumbers nothing. Since 83ae3f3 the pass looks at the
key only: what a scalar *value* contains no longer matters. -/
def wfKinds : Val → Bool
  | .node ty _ _ _ fs => !ty.contains '=' && wfKindsFields fs
  | .list _ xs => wfKindsItems xs
  | .scalar _ _ => true
def wfKindsFields : List (Str × Val) → Bool
  | [] => true
  | (n, v) :: rest =>
    !n.contains '=' && !n.contains '/' && wfKinds v && wfKindsFields rest &&
      (match v with
        | .scalar _ _ => !(n == cs!"kind") || rest.isEmpty
        | _ => true)
def wfKindsItems : List Val → Bool
  | [] => true
  | v :: rest => wfKinds v && wfKindsItems rest
end

/-! ## `suppress_posonlyargs` -/

def posonlyKey : Str := cs!"/args/posonlyargs"

/-- The prefix of a list ends with `/args/posonlyargs` and has something before. -/
def posonlyPre (pre : Str) : Bool := posonlyKey.isSuffixOf pre && posonlyKey.length < pre.length

mutual
/-- Tree-level `suppress_posonlyargs` (keyed on the path text, like the pass): a list whose prefix ends
with `/args/posonlyargs` no longer prints its `_length` line; its items stay. -/
def quietPosonly (pre : Str) : Val → Val
  | .node ty e r ln fs => .node ty e r ln (quietPosonlyFields pre fs)
  | .list q xs => .list (q || posonlyPre pre) (quietPosonlyItems pre 1 xs)
  | .scalar r k => .scalar r k
def quietPosonlyFields (pre : Str) : List (Str × Val) → List (Str × Val)
  | [] => []
  | (n, v) :: rest => (n, quietPosonly (subPre pre n) v) :: quietPosonlyFields pre rest
def quietPosonlyItems (pre : Str) (i : Nat) : List Val → List Val
  | [] => []
  | v :: rest => quietPosonly (subPre pre (dec i)) v :: quietPosonlyItems pre (i + 1) rest
end

mutual
/-- Local clauses for `suppress_posonlyargs`: no `=` in names and types; a scalar line is not itself
of the form `….+/args/posonlyargs/_length=<digits>` (never the case for an `ast` tree). -/
def wfPosonly (pre : Str) : Val → Bool
  | .node ty _ _ _ fs => !ty.contains '=' && wfPosonlyFields pre fs
  | .list _ xs => wfPosonlyItems pre 1 xs
  | .scalar r _ => !isPosonlyLine (scalarLine pre r)
def wfPosonlyFields (pre : Str) : List (Str × Val) → Bool
  | [] => true
  | (n, v) :: rest => !n.contains '=' && wfPosonly (subPre pre n) v && wfPosonlyFields pre rest
def wfPosonlyItems (pre : Str) (i : Nat) : List Val → Bool
  | [] => true
  | v :: rest => wfPosonly (subPre pre (dec i)) v && wfPosonlyItems pre (i + 1) rest
end

/-! ## `suppress_alias_pos` -/

mutual
/-- Tree-level `suppress_alias_pos`: a non-expression node of type `alias` below the root loses its
position (the pattern needs a character before `/_type=alias`). -/
def dropAliasPos (below : Bool) : Val → Val
  | .node ty e r ln fs =>
    .node ty e r (if below && ty == cs!"alias" && !e then none else ln) (dropAliasPosFields fs)
  | .list q xs => .list q (dropAliasPosItems xs)
  | .scalar r k => .scalar r k
def dropAliasPosFields : List (Str × Val) → List (Str × Val)
  | [] => []
  | (n, v) :: rest => (n, dropAliasPos true v) :: dropAliasPosFields rest
def dropAliasPosItems : List Val → List Val
  | [] => []
  | v :: rest => dropAliasPos true v :: dropAliasPosItems rest
end

mutual
/-- Local clauses for `suppress_alias_pos`: no `=` in names and types; a scalar line neither ends with
`/_type=alias` nor looks like a position line (`.+_pos=.+`). -/
def wfAlias (pre : Str) : Val → Bool
  | .node ty _ _ _ fs => !ty.contains '=' && wfAliasFields pre fs
  | .list _ xs => wfAliasItems pre 1 xs
  | .scalar r _ => !isAliasLine (scalarLine pre r) && !isPosLike (scalarLine pre r)
def wfAliasFields (pre : Str) : List (Str × Val) → Bool
  | [] => true
  | (n, v) :: rest => !n.contains '=' && wfAlias (subPre pre n) v && wfAliasFields pre rest
def wfAliasItems (pre : Str) (i : Nat) : List Val → Bool
  | [] => true
  | v :: rest => wfAlias (subPre pre (dec i)) v && wfAliasItems pre (i + 1) rest
end

/-! ## `backport_all_constants` -/

abbrev constMark : Str := cs!"/_type=Constant"

def isScalarField : Str × Val → Bool
  | (_, .scalar _ _) => true
  | _ => false

/-- A `Constant` whose first field is the scalar `value`: its repr, kind and remaining fields. -/
def constShape (ty : Str) (fs : List (Str × Val)) : Option (Str × Kind × List (Str × Val)) :=
  if ty == cs!"Constant" then
    match fs with
    | (n, .scalar rv k) :: rest => if n == cs!"value" then some (rv, k, rest) else none
    | _ => none
  else none

mutual
/-- Tree-level `backport_all_constants`: a `Constant` is renamed after the *text* of its value
(`constantKindOfRepr`, as the code does) and its `value` field is renamed `s` / `n` / `value`, or dropped
for `Ellipsis`. -/
def backportTree : Val → Val
  | .node ty e r ln fs =>
    match constShape ty fs with
    | some (rv, k, rest) =>
      let kd := constantKindOfRepr rv
      .node kd.1 e r ln ((match kd.2 with
        | some f => [(f, .scalar rv k)]
        | none => []) ++ rest)
    | none => .node ty e r ln (backportFields fs)
  | .list q xs => .list q (backportItems xs)
  | .scalar r k => .scalar r k
def backportFields : List (Str × Val) → List (Str × Val)
  | [] => []
  | (n, v) :: rest => (n, backportTree v) :: backportFields rest
def backportItems : List Val → List Val
  | [] => []
  | v :: rest => backportTree v :: backportItems rest
end

def nameOk (n : Str) : Bool := !n.contains '=' && !n.contains '/'

mutual
/-- Local clauses for `backport_all_constants`. -/
def wfBackport (pre : Str) : Val → Bool
  | .node ty e _ ln fs =>
    !ty.contains '=' && (fs.map (·.1)).all nameOk && decide (fs.map (·.1)).Nodup &&
      (if ty == cs!"Constant" then
        match constShape ty fs with
        | some (rv, _, rest) => !rv.isEmpty && rest.all isScalarField && (e || ln.isSome)
        | none => false
       else true) &&
      wfBackportFields pre fs
  | .list _ xs => wfBackportItems pre 1 xs
  | .scalar r _ => !constMark.isSuffixOf (scalarLine pre r)
def wfBackportFields (pre : Str) : List (Str × Val) → Bool
  | [] => true
  | (n, v) :: rest => wfBackport (subPre pre n) v && wfBackportFields pre rest
def wfBackportItems (pre : Str) (i : Nat) : List Val → Bool
  | [] => true
  | v :: rest => wfBackport (subPre pre (dec i)) v && wfBackportItems pre (i + 1) rest
end

/-! ## `simplify_negative_literals` -/

abbrev unaryMark : Str := cs!"/_type=UnaryOp"

def isUSubNode : Val → Bool
  | .node t1 _ _ _ _ => t1 == cs!"USub"
  | _ => false

/-- A node whose only field is the scalar `n`: its repr and kind. -/
def onlyN : Val → Option (Str × Kind)
  | .node _ _ _ _ [(n3, .scalar rv k)] => if n3 == cs!"n" then some (rv, k) else none
  | _ => none

/-- `-literal` as the pass sees it (after `backport_all_constants`): a `UnaryOp` whose fields are `op`,
a `USub` node, and `operand`, a node whose only field is the scalar `n`. -/
def negShape (ty : Str) (fs : List (Str × Val)) : Option (Str × Kind) :=
  if ty == cs!"UnaryOp" then
    match fs with
    | [(n1, v1), (n2, v2)] =>
      if n1 == cs!"op" && n2 == cs!"operand" && isUSubNode v1 then onlyN v2 else none
    | _ => none
  else none

mutual
/-- Tree-level `simplify_negative_literals`: a `-literal` becomes a `Num` node (keeping the hash source
and the position of the `UnaryOp`) whose `n` is the literal with a minus sign. -/
def foldNeg : Val → Val
  | .node ty e r ln fs =>
    match negShape ty fs with
    | some (rv, k) => .node cs!"Num" e r ln [(cs!"n", .scalar ('-' :: rv) k)]
    | none => .node ty e r ln (foldNegFields fs)
  | .list q xs => .list q (foldNegItems xs)
  | .scalar r k => .scalar r k
def foldNegFields : List (Str × Val) → List (Str × Val)
  | [] => []
  | (n, v) :: rest => (n, foldNeg v) :: foldNegFields rest
def foldNegItems : List Val → List Val
  | [] => []
  | v :: rest => foldNeg v :: foldNegItems rest
end

/-- The shape the pass can handle at a `UnaryOp`: `op` is a bare operator node (no hash, no position, no
field), `operand` is a node; when the operator is `USub`, the operand either is exactly `(n = scalar)`
with a non-empty repr (then it is folded) or has no field called `n` (then nothing happens). -/
def unaryOk (fs : List (Str × Val)) : Bool :=
  match fs with
  | [(n1, .node t1 e1 _ ln1 fs1), (n2, .node _ _ _ _ fs2)] =>
    n1 == cs!"op" && n2 == cs!"operand" && !e1 && ln1.isNone && fs1.isEmpty &&
      (!(t1 == cs!"USub") ||
        (match fs2 with
          | [(n3, .scalar rv _)] => (n3 == cs!"n" && !rv.isEmpty) || !(n3 == cs!"n")
          | _ => !(fs2.map (·.1)).contains cs!"n"))
  | _ => false

mutual
/-- Local clauses for `simplify_negative_literals`. -/
def wfNeg (pre : Str) : Val → Bool
  | .node ty _ _ _ fs =>
    !ty.contains '=' && (fs.map (·.1)).all nameOk && decide (fs.map (·.1)).Nodup &&
      (if ty == cs!"UnaryOp" then unaryOk fs else true) && wfNegFields pre fs
  | .list _ xs => wfNegItems pre 1 xs
  | .scalar r _ => !unaryMark.isSuffixOf (scalarLine pre r)
def wfNegFields (pre : Str) : List (Str × Val) → Bool
  | [] => true
  | (n, v) :: rest => wfNeg (subPre pre n) v && wfNegFields pre rest
def wfNegItems (pre : Str) (i : Nat) : List Val → Bool
  | [] => true
  | v :: rest => wfNeg (subPre pre (dec i)) v && wfNegItems pre (i + 1) rest
end

/-! ## The six passes, staged -/

/-- The tree after the first three / four / five / six tree-level tweaks, in pipeline order. -/
def stage3 (t : Val) : Val := quietPosonly [] (dropAliasPos false (dropKinds false t))
def stage4 (t : Val) : Val := backportTree (stage3 t)
def stage5 (t : Val) : Val := foldNeg (stage4 t)
def stage6 (t : Val) : Val := unquoteTree (stage5 t)

/-- The local clauses of the first four passes, each on the tree its pass receives. -/
def wfStages4 (t : Val) : Bool :=
  wfKinds t && wfAlias [] (dropKinds false t) && wfPosonly [] (dropAliasPos false (dropKinds false t)) &&
    wfBackport [] (stage3 t)

/-- **`Tree.WF`**: the local clauses of the six passes, each on the tree its pass receives
(Bool-valued; evaluated by the driver on every real tree). -/
def wfStages6 (t : Val) : Bool :=
  wfStages4 t && wfNeg [] (stage4 t) && wfUnquote (stage5 t)

/-! ## Agreement of the staged tweaks with the one-shot specification `tweak` -/

/-- The repr-prefix test of `replace_one_constant` agrees with the real kind of the value. -/
def reprKindAgrees (rv : Str) (k : Kind) : Bool :=
  (constantKindOfRepr rv).1 == kindTypeName k && (constantKindOfRepr rv).2 == kindFieldName k

/-- A `Constant` is `(value)` or `(value, kind)`, both scalars, the repr of the value telling its kind. -/
def constOkT (fs : List (Str × Val)) : Bool :=
  match fs with
  | [(n1, .scalar rv k)] => n1 == cs!"value" && reprKindAgrees rv k
  | [(n1, .scalar rv k), (n2, .scalar _ _)] => n1 == cs!"value" && n2 == cs!"kind" && reprKindAgrees rv k
  | _ => false

/-- A `UnaryOp` is `(op, operand)`: a bare operator node and a node which is a `Constant` or has no field
called `n`. -/
def unaryOkT (fs : List (Str × Val)) : Bool :=
  match fs with
  | [(n1, .node t1 e1 _ ln1 fs1), (n2, .node t2 _ _ _ fs2)] =>
    n1 == cs!"op" && n2 == cs!"operand" && !e1 && ln1.isNone && fs1.isEmpty && !(t1 == cs!"Constant") &&
      (t2 == cs!"Constant" || !(fs2.map (·.1)).contains cs!"n")
  | _ => false

mutual
/-- **`wfTweak`**: the shape / repr-kind agreement hypotheses under which the six staged tweaks equal the
one-shot specification `tweak` (Bool-valued; evaluated by the driver on every real tree). -/
def wfTweak : Val → Bool
  | .node ty _ _ _ fs =>
    (fs.map (·.1)).all nameOk &&
      (if ty == cs!"Constant" then constOkT fs else if ty == cs!"UnaryOp" then unaryOkT fs else true) &&
      wfTweakFields fs
  | .list _ xs => wfTweakItems xs
  | .scalar _ _ => true
def wfTweakFields : List (Str × Val) → Bool
  | [] => true
  | (_, v) :: rest => wfTweak v && wfTweakFields rest
def wfTweakItems : List Val → Bool
  | [] => true
  | v :: rest => wfTweak v && wfTweakItems rest
end

/-- The condition of `tweak` for silencing a `posonlyargs` length, on the reversed name path. -/
def posPat (rn : List Str) : Bool :=
  match rn with
  | a :: b :: _ :: _ => a == cs!"posonlyargs" && b == cs!"args"
  | _ => false

end Paroxy.Flat
