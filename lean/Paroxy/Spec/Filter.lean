/-
Specification side of C04/C05/C06: what the property texts say about when a program *meets* a
criterion, stated on the database records, independently of how the filter computes it.
-/
import Paroxy.Model.Filter
namespace Paroxy.Filter
open Paroxy

/-- Occurrence number `i` of taxon `t` in program `p` spans `s`. -/
def Occ (c : Ctx) (p t : Codes) (i : Nat) (s : Span) : Prop :=
  ∃ rec spans, dictGet? c.programs p = some rec ∧ dictGet? rec t = some spans ∧ spans[i]? = some s

/-- `p` directly features `t`: at least one occurrence (imported taxa have no occurrence). -/
def Features (c : Ctx) (p t : Codes) : Prop := ∃ i s, Occ c p t i s

/-- `q` imports `p`, directly or transitively (the database stores the closure). -/
def Imports (c : Ctx) (q p : Codes) : Prop := q ∈ (dictGet? c.exportations p).getD []

def IsProgram (c : Ctx) (p : Codes) : Prop := p ∈ c.programs.map (·.1)

/-- `u` is an item of `p`'s record with a non-empty span list (what `impart` on a `.py` pattern
collects: the taxa the program features directly, not through its imports). -/
def FeaturesRec (c : Ctx) (p u : Codes) : Prop :=
  ∃ rec spans, dictGet? c.programs p = some rec ∧ (u, spans) ∈ rec ∧ spans ≠ []

/-- A positive triple: two *distinct* occurrences of matching taxa whose spans are in relation. -/
def MeetsTriple (c : Ctx) (p1 : Codes) (pred : Span → Span → Bool) (p2 : Codes) (p : Codes) : Prop :=
  ∃ t1 i s1 t2 j s2, c.orc.matchTaxon p1 t1 = true ∧ c.orc.matchTaxon p2 t2 = true ∧
    Occ c p t1 i s1 ∧ Occ c p t2 j s2 ∧ ¬(t1 = t2 ∧ i = j) ∧ pred s1 s2 = true

/-- A negated triple (C05): the program directly features a subject taxon and has a subject
occurrence that is in relation with no *other* object occurrence. -/
def MeetsNegTriple (c : Ctx) (p1 : Codes) (pred : Span → Span → Bool) (p2 : Codes) (p : Codes) : Prop :=
  ∃ t1 i s1, c.orc.matchTaxon p1 t1 = true ∧ Occ c p t1 i s1 ∧
    ∀ t2 j s2, c.orc.matchTaxon p2 t2 = true → Occ c p t2 j s2 → ¬(t1 = t2 ∧ i = j) → pred s1 s2 = false

/-- `p` meets criterion `crit` (for `include`). `none` when the predicate string is rejected. -/
def Meets (c : Ctx) (r : Relations) (crit : Criterion) (p : Codes) : Prop :=
  match crit with
  | .pattern pat =>
    if endsWithPy pat then IsProgram c p ∧ c.orc.matchProg pat p = true
    else ∃ t, c.orc.matchTaxon pat t = true ∧ Features c p t
  | .triple p1 raw p2 =>
    match r.predicate raw with
    | .ok (pred, false) => MeetsTriple c p1 pred p2 p
    | .ok (pred, true) => MeetsNegTriple c p1 pred p2 p
    | .error _ => False

/-- For `exclude`, a taxon pattern is also met by the importers of the programs meeting it. -/
def MeetsExcl (c : Ctx) (r : Relations) (crit : Criterion) (p : Codes) : Prop :=
  match crit with
  | .pattern pat =>
    if endsWithPy pat then Meets c r crit p
    else Meets c r crit p ∨ ∃ q, Meets c r crit q ∧ Imports c p q
  | .triple .. => Meets c r crit p

/-- Well-formedness of the database as the filter sees it (established for real databases by
C11's `makeDb_wf` and preserved by `add_imported_taxa`). -/
structure Ctx.WF (c : Ctx) : Prop where
  /-- the `taxa` index is the exact inverse of the program records (direct features) -/
  index : ∀ t p, p ∈ (dictGet? c.taxa t).getD [] ↔ Features c p t
  /-- every taxon featured is a key of the index -/
  indexKey : ∀ t p, Features c p t → t ∈ c.taxa.map (·.1)
  /-- `exportations` has an entry for every program -/
  exportTotal : ∀ p, IsProgram c p → (dictGet? c.exportations p).isSome = true
  /-- records belong to programs -/
  recProgram : ∀ p rec, dictGet? c.programs p = some rec → IsProgram c p
  /-- importers are programs; importing is transitive -/
  importerProgram : ∀ q p, Imports c q p → IsProgram c q
  importTrans : ∀ a b d, Imports c a b → Imports c b d → Imports c a d

/-- `q` imports `p` in the database as stored (`exportations[p]` lists the importers of `p`). -/
def DB.Exp (db : DB) (q p : Codes) : Prop := q ∈ (dictGet? db.exportations p).getD []

/-- Well-formedness of a tag database as `make_db` writes it (what C11 establishes) — the
hypothesis under which `add_imported_taxa` succeeds and yields a well-formed filter context. -/
structure DB.WF (db : DB) : Prop where
  /-- dictionaries have unique keys -/
  progNodup : (db.programs.map (·.1)).Nodup
  recNodup : ∀ p rec, (p, rec) ∈ db.programs → (rec.map (·.1)).Nodup
  expNodup : (db.exportations.map (·.1)).Nodup
  /-- every occurrence list is non-empty -/
  spansNonempty : ∀ p rec t spans, (p, rec) ∈ db.programs → (t, spans) ∈ rec → spans ≠ []
  /-- `taxa` is the exact inverted index of the program records -/
  index : ∀ t p, p ∈ (dictGet? db.taxa t).getD [] ↔ ∃ rec spans, (p, rec) ∈ db.programs ∧ (t, spans) ∈ rec
  indexKey : ∀ t p rec spans, (p, rec) ∈ db.programs → (t, spans) ∈ rec → t ∈ db.taxa.map (·.1)
  /-- `exportations` has exactly one entry per program, and lists programs -/
  expKeys : ∀ p, p ∈ db.exportations.map (·.1) ↔ p ∈ db.programs.map (·.1)
  expValues : ∀ p q, db.Exp q p → q ∈ db.programs.map (·.1)
  /-- the stored import relation is transitively closed -/
  expTrans : ∀ a b d, db.Exp a b → db.Exp b d → db.Exp a d

end Paroxy.Filter
