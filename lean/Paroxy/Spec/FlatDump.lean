/-
Specification side of C15 (converse of the hash property): what makes the text of Python's `ast.dump`
unambiguous, and "the same expression up to load/store context" on the part of the tree that the dump shows.

* `wfDump`   : well-formedness of a tree with respect to the dump syntax `Type(field=value, …)` / `[a, b]`:
               type and field names contain none of the characters the syntax uses, every terminal repr is a
               Python string / bytes literal or a delimiter-free token;
* `eraseCtx` : the tree without what `dumpNoCtx` (= `remove_context("", ast.dump(node))`) does not print:
               the `ctx` fields and the optional fields that are `None`;
* `sameExpr` : same types, field names and terminal values once these fields are erased.

Core Lean only (linked into the native driver: ops `c15.wf_dump`).
-/
import Paroxy.Spec.FlatAst
namespace Paroxy.Flat

/-- The characters the dump syntax is made of — `( ) [ ] , =`, the space of `", "` — and the two quotes. -/
def isDelimC (c : Char) : Bool :=
  c == '(' || c == ')' || c == '[' || c == ']' || c == ',' || c == '=' || c == ' ' || c == '\'' || c == '"'

/-- No delimiter, space or quote: true of every identifier (type names, field names) and of the reprs of
`int`, `float`, `complex` without real part, `None`, `True`, `False`, `Ellipsis` (`12`, `-1`, `1e+22`, `inf`,
`1j`, `infj`, …). -/
def delimFree (s : Str) : Bool := s.all (fun c => !isDelimC c)

/-- The body of a quoted literal, scanned the way Python's tokenizer (and the regular expression of
`remove_context`) does: a backslash takes the next character with it; no unescaped occurrence of the quote
`q`; no dangling backslash at the end. `esc` = the previous character was an (unescaped) backslash. -/
def escScan (q : Char) : Bool → Str → Bool
  | esc, [] => !esc
  | esc, c :: t =>
    if esc then escScan q false t
    else if c == '\\' then escScan q true t
    else c != q && escScan q false t

/-- `q body q` : starts and ends with the same quote, every inner occurrence of that quote or of a backslash
is escaped. -/
def quotedFrom : Str → Bool
  | q :: rest => isQuote q && rest.getLast? == some q && escScan q false rest.dropLast
  | [] => false

/-- The repr of a terminal value:
(a) a Python `str` literal `'…'` / `"…"` or `bytes` literal `b'…'` / `b"…"` as `repr` writes them, or
(b) a non-empty token without any of the delimiters `( ) [ ] , =`, space, quotes.
Excluded (none of them is produced by `ast.parse`, which never folds constants): a `complex` with a real part
(`(1+2j)`), containers (`tuple` / `frozenset` constants that only the optimizer creates), and any object whose
repr contains a space or a delimiter outside quotes. -/
def wfScalar (r : Str) : Bool :=
  (!r.isEmpty && delimFree r) || quotedFrom r ||
    (match r with
      | c :: t => c == 'b' && quotedFrom t
      | [] => false)

mutual
/-- Every type name and field name is delimiter-free (identifiers are), every terminal repr is `wfScalar`. -/
def wfDump : Val → Bool
  | .node ty _ _ _ fs => delimFree ty && wfDumpFields fs
  | .list _ xs => wfDumpItems xs
  | .scalar r _ => wfScalar r
def wfDumpFields : List (Str × Val) → Bool
  | [] => true
  | (n, v) :: rest => delimFree n && wfDump v && wfDumpFields rest
def wfDumpItems : List Val → Bool
  | [] => true
  | v :: rest => wfDump v && wfDumpItems rest
end

mutual
/-- The first terminal repr of the tree that is not `wfScalar`, or the first name that is not delimiter-free
(what the harness reports when `wfDump` fails on a real tree). -/
def wfDumpWitness : Val → Option Str
  | .node ty _ _ _ fs => if delimFree ty then wfDumpWitnessFields fs else some ty
  | .list _ xs => wfDumpWitnessItems xs
  | .scalar r _ => if wfScalar r then none else some r
def wfDumpWitnessFields : List (Str × Val) → Option Str
  | [] => none
  | (n, v) :: rest =>
    if delimFree n then
      match wfDumpWitness v with
      | some w => some w
      | none => wfDumpWitnessFields rest
    else some n
def wfDumpWitnessItems : List Val → Option Str
  | [] => none
  | v :: rest =>
    match wfDumpWitness v with
    | some w => some w
    | none => wfDumpWitnessItems rest
end

/-- The fields `dumpNoCtx` does not print: `ctx`, and the optional fields whose value is `None`. -/
def droppedField (ty n : Str) (v : Val) : Bool := n == cs!"ctx" || (isNoneScalar v && !keepsNone ty n)

mutual
/-- The tree without the fields the context-free dump does not show (`ctx`; optional fields that are `None`,
which `ast.dump` omits). Positions, hash sources and flags are kept (and ignored by `sameShape`). -/
def eraseCtx : Val → Val
  | .node ty e r ln fs => .node ty e r ln (eraseCtxFields ty fs)
  | .list q xs => .list q (eraseCtxItems xs)
  | .scalar r k => .scalar r k
def eraseCtxFields (ty : Str) : List (Str × Val) → List (Str × Val)
  | [] => []
  | (n, v) :: rest =>
    if droppedField ty n v then eraseCtxFields ty rest else (n, eraseCtx v) :: eraseCtxFields ty rest
def eraseCtxItems : List Val → List Val
  | [] => []
  | v :: rest => eraseCtx v :: eraseCtxItems rest
end

/-- **The same expression up to load/store context**, on what the dump shows: same types, field names and
terminal values once the `ctx` fields and the absent (`None`) optional fields are erased. On trees in which two
nodes of the same type have the same field names — every real `ast` tree — a field absent on one side and
present on the other changes the field names that remain, so this is `sameUpToCtx`; on arbitrary `Val` trees it
is coarser (`Foo(a=None, b=1)` and `Foo(b=1)` print the same text). -/
def sameExpr (a b : Val) : Bool := sameShape (eraseCtx a) (eraseCtx b)

mutual
/-- The expression nodes of a tree, in pre-order. -/
def exprNodes : Val → List Val
  | .node ty e r ln fs => (if e then [.node ty e r ln fs] else []) ++ exprNodesFields fs
  | .list _ xs => exprNodesItems xs
  | .scalar _ _ => []
def exprNodesFields : List (Str × Val) → List Val
  | [] => []
  | (_, v) :: rest => exprNodes v ++ exprNodesFields rest
def exprNodesItems : List Val → List Val
  | [] => []
  | v :: rest => exprNodes v ++ exprNodesItems rest
end

/-- Over all pairs of the given expressions: (pairs with the same dump text, pairs on which "same text" and
`sameExpr` disagree — none on `wfDump` trees, by `C15_dump_iff` —, pairs on which `sameExpr` and `sameUpToCtx`
disagree — none on real trees). -/
def pairStats (es : List Val) : Nat × Nat × Nat :=
  let ds := es.map fun e => (e, dumpNoCtx e)
  let rec go : List (Val × Str) → Nat × Nat × Nat → Nat × Nat × Nat
    | [], acc => acc
    | (a, da) :: rest, acc =>
      go rest (rest.foldl (fun (x : Nat × Nat × Nat) (p : Val × Str) =>
        let same := da == p.2
        let se := sameExpr a p.1
        let su := sameUpToCtx a p.1
        (x.1 + (if same then 1 else 0), x.2.1 + (if same != se then 1 else 0),
          x.2.2 + (if se != su then 1 else 0))) acc)
  go ds (0, 0, 0)

/-! ## One list of field names per node type (what every real `ast` tree satisfies) -/

def nodupB : List Str → Bool
  | [] => true
  | x :: t => !t.contains x && nodupB t

def schemaGet (sch : List (Str × List Str)) (ty : Str) : List Str := (sch.lookup ty).getD []

mutual
/-- Every node of type `ty` has exactly the field names `sch` gives for `ty`, in that order, without repetition
(an `ast` class has one `_fields` tuple; `ast.iter_fields` follows it). -/
def conforms (sch : List (Str × List Str)) : Val → Bool
  | .node ty _ _ _ fs =>
    (fs.map Prod.fst == schemaGet sch ty) && nodupB (fs.map Prod.fst) && conformsFields sch fs
  | .list _ xs => conformsItems sch xs
  | .scalar _ _ => true
def conformsFields (sch : List (Str × List Str)) : List (Str × Val) → Bool
  | [] => true
  | (_, v) :: rest => conforms sch v && conformsFields sch rest
def conformsItems (sch : List (Str × List Str)) : List Val → Bool
  | [] => true
  | v :: rest => conforms sch v && conformsItems sch rest
end

mutual
/-- The schema read off a tree: for each node type, the field names of its first node in pre-order. -/
def schemaAcc : Val → List (Str × List Str) → List (Str × List Str)
  | .node ty _ _ _ fs, acc =>
    schemaAccFields fs (match acc.lookup ty with
      | some _ => acc
      | none => acc ++ [(ty, fs.map Prod.fst)])
  | .list _ xs, acc => schemaAccItems xs acc
  | .scalar _ _, acc => acc
def schemaAccFields : List (Str × Val) → List (Str × List Str) → List (Str × List Str)
  | [], acc => acc
  | (_, v) :: rest, acc => schemaAccFields rest (schemaAcc v acc)
def schemaAccItems : List Val → List (Str × List Str) → List (Str × List Str)
  | [], acc => acc
  | v :: rest, acc => schemaAccItems rest (schemaAcc v acc)
end

def schemaOf (t : Val) : List (Str × List Str) := schemaAcc t []

end Paroxy.Flat
