/-
Specification side of the `Location` cell: how a reader gets the spans back from the text.

`parseCell` deletes the tags (`<details>`, `<summary>`, `</summary>`, `<br>`, `</details>` — any
`<…>`), splits what is left on commas and spaces, and reads each piece as `a` or `a-b` (decimal).
`_imported_` reads as the empty list; a cell with no piece at all reads as nothing (`none`), so that an
empty cell is never taken for `_imported_`. Deleting `<br>` (rather than replacing it by a space) is
what a line break inside a long number requires: `12<br>34` is the number 1234 cut by the wrapping,
whereas two spans are always separated by a comma (`12,<br>34`).
Core Lean only.
-/
import Paroxy.Model.ReportCell
namespace Paroxy.ReportCell
open Paroxy

/-- Delete every `<…>`. `true` = inside a tag. -/
def stripGo : Bool → Str → Str
  | _, [] => []
  | false, c :: t => if c = '<' then stripGo true t else c :: stripGo false t
  | true, c :: t => if c = '>' then stripGo false t else stripGo true t

def stripTags (s : Str) : Str := stripGo false s

def isSep (c : Char) : Bool := c == ',' || c == ' '

/-- Maximal runs of non-separators; `cur` is the piece being read. -/
def tokensAux : Str → Str → List Str
  | cur, [] => if cur.isEmpty then [] else [cur]
  | cur, c :: t =>
    if isSep c then (if cur.isEmpty then tokensAux [] t else cur :: tokensAux [] t)
    else tokensAux (cur ++ [c]) t

def tokens (s : Str) : List Str := tokensAux [] s

/-- A non-empty string of decimal digits. -/
def readNat (l : Str) : Option Nat :=
  if !l.isEmpty && l.all Char.isDigit then some (Nat.ofDigitChars 10 l 0) else none

/-- `a` ↦ (a, a); `a-b` ↦ (a, b). -/
def readSpan (tok : Str) : Option Span :=
  match tok.dropWhile (· != '-') with
  | [] => (readNat tok).map fun n => ((n : Int), (n : Int))
  | _ :: b =>
    match readNat (tok.takeWhile (· != '-')), readNat b with
    | some x, some y => some ((x : Int), (y : Int))
    | _, _ => none

def parseCell (s : Str) : Option (List Span) :=
  if s = imported then some []
  else
    let toks := tokens (stripTags s)
    if toks.isEmpty then none else toks.mapM readSpan

/-- The lines of a wrapped text put back on one line, a single space between two lines. -/
def unwrap (lines : List Str) : Str := joinWith [' '] lines

/-- No chunk of the text is longer than `n`. -/
def chunksWithin (n : Nat) (s : Str) : Bool := (splitChunks s).all fun c => c.length ≤ n

end Paroxy.ReportCell
