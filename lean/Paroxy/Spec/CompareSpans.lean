/-
Specification side of C08, independent of the Python table: what a 7-character key *spells*,
the names of the user manual (docs/md/pipeline_documentation.md, table of the 13 Allen relations,
and the list of synonyms), and the converse pairs.
-/
import Paroxy.Model.CompareSpans
namespace Paroxy.Spec
open Paroxy

inductive Letter | x | y deriving DecidableEq, Repr, Inhabited
/-- The three operators a key is made of. -/
inductive KOp | lt | le | eq deriving DecidableEq, Repr, Inhabited

/-- A key: an arrangement of the letters `x x y y` and three operators. -/
structure Key where
  l1 : Letter
  l2 : Letter
  l3 : Letter
  l4 : Letter
  o1 : KOp
  o2 : KOp
  o3 : KOp
  deriving DecidableEq, Repr, Inhabited

def Letter.char : Letter → Char | .x => 'x' | .y => 'y'
def KOp.char : KOp → Char | .lt => '<' | .le => '≤' | .eq => '='
def KOp.op : KOp → Op | .lt => .lt | .le => .le | .eq => .eq
def KOp.Rel : KOp → Int → Int → Prop
  | .lt, a, b => a < b
  | .le, a, b => a ≤ b
  | .eq, a, b => a = b

/-- The seven characters of the key. -/
def Key.chars (k : Key) : List Char :=
  [k.l1.char, k.o1.char, k.l2.char, k.o2.char, k.l3.char, k.o3.char, k.l4.char]
def Key.str (k : Key) : String := String.ofList k.chars
def Letter.code : Letter → Nat | .x => 120 | .y => 121
def KOp.code : KOp → Nat | .lt => 60 | .le => 8804 | .eq => 61
/-- The key as a list of code points (`'x'`=120, `'y'`=121, `'<'`=60, `'≤'`=8804, `'='`=61). -/
def Key.codes (k : Key) : Codes :=
  [k.l1.code, k.o1.code, k.l2.code, k.o2.code, k.l3.code, k.o3.code, k.l4.code]

theorem Key.codes_eq_chars (k : Key) : k.codes = k.chars.map Char.toNat := by
  cases k with | mk l1 l2 l3 l4 o1 o2 o3 =>
  cases l1 <;> cases l2 <;> cases l3 <;> cases l4 <;> cases o1 <;> cases o2 <;> cases o3 <;> rfl

def Letter.ofCode (n : Nat) : Option Letter := if n = 120 then some .x else if n = 121 then some .y else none
def KOp.ofCode (n : Nat) : Option KOp :=
  if n = 60 then some .lt else if n = 8804 then some .le else if n = 61 then some .eq else none

/-- Read a key back from its seven code points (any letters; see `Key.balanced`). -/
def parseKey : Codes → Option Key
  | [a, p, b, q, c, r, d] => do
    let l1 ← Letter.ofCode a; let l2 ← Letter.ofCode b; let l3 ← Letter.ofCode c; let l4 ← Letter.ofCode d
    let o1 ← KOp.ofCode p; let o2 ← KOp.ofCode q; let o3 ← KOp.ofCode r
    pure ⟨l1, l2, l3, l4, o1, o2, o3⟩
  | _ => none

/-- The six arrangements of two `x` and two `y`, in the generator's order
(`sorted(set(permutations("xxyy")))`). -/
def arrangements : List (Letter × Letter × Letter × Letter) :=
  [(.x,.x,.y,.y), (.x,.y,.x,.y), (.x,.y,.y,.x), (.y,.x,.x,.y), (.y,.x,.y,.x), (.y,.y,.x,.x)]
def kops : List KOp := [.lt, .le, .eq]

/-- The 162 keys = 6 arrangements × 3³ operator triples. -/
def allKeys : List Key :=
  arrangements.flatMap fun (a, b, c, d) =>
    kops.flatMap fun o1 => kops.flatMap fun o2 => kops.map fun o3 => ⟨a, b, c, d, o1, o2, o3⟩

/-- A key uses two `x` and two `y`. -/
def Key.balanced (k : Key) : Bool := decide ((k.l1, k.l2, k.l3, k.l4) ∈ arrangements)

/-- "the first x/y letter denoting the start and the second the end": the endpoint a letter
position denotes, given the letters before it. -/
def endpoint (l : Letter) (seenBefore : Bool) : Var :=
  match l, seenBefore with
  | .x, false => .x0 | .x, true => .x1 | .y, false => .y0 | .y, true => .y1

def Key.v1 (k : Key) : Var := endpoint k.l1 false
def Key.v2 (k : Key) : Var := endpoint k.l2 (k.l1 == k.l2)
def Key.v3 (k : Key) : Var := endpoint k.l3 (k.l1 == k.l3 || k.l2 == k.l3)
def Key.v4 (k : Key) : Var := endpoint k.l4 (k.l1 == k.l4 || k.l2 == k.l4 || k.l3 == k.l4)

/-- What the key spells, as a proposition on two integer spans: the conjunction of the three
adjacent comparisons on the named endpoints. -/
def Key.Holds (k : Key) (x y : Span) : Prop :=
  let ρ := spanEnv x y
  k.o1.Rel (ρ k.v1) (ρ k.v2) ∧ k.o2.Rel (ρ k.v2) (ρ k.v3) ∧ k.o3.Rel (ρ k.v3) (ρ k.v4)

instance (o : KOp) (a b : Int) : Decidable (o.Rel a b) := by
  cases o <;> simp only [KOp.Rel] <;> infer_instance
instance (k : Key) (x y : Span) : Decidable (k.Holds x y) := by
  unfold Key.Holds; infer_instance

/-- The same chain as a Python expression. -/
def Key.chain (k : Key) : PyExpr :=
  .cmp k.v1 [(k.o1.op, k.v2), (k.o2.op, k.v3), (k.o3.op, k.v4)]

theorem KOp.eval_iff (o : KOp) (a b : Int) : o.op.eval a b = true ↔ o.Rel a b := by
  cases o <;> simp [KOp.op, Op.eval, KOp.Rel]

theorem Key.chain_holds (k : Key) (x y : Span) : k.chain.holds x y = true ↔ k.Holds x y := by
  simp [Key.chain, PyExpr.holds, PyExpr.eval, evalChain, Key.Holds, KOp.eval_iff]

/-- Exchange the roles of `x` and `y` in a key. -/
def Letter.swap : Letter → Letter | .x => .y | .y => .x
def Key.swap (k : Key) : Key := { k with l1 := k.l1.swap, l2 := k.l2.swap, l3 := k.l3.swap, l4 := k.l4.swap }

private def K (a b c d : Letter) (o1 o2 o3 : KOp) : Key := ⟨a, b, c, d, o1, o2, o3⟩

/-- The 7 rows of the manual's table: `X name Y` and its key. -/
def manualDirectS : List (String × Key) := [
  ("equals",   K .x .y .x .y .eq .le .eq),  -- x=y≤x=y
  ("starts",   K .x .y .x .y .eq .le .le),  -- x=y≤x≤y
  ("during",   K .y .x .x .y .le .le .le),  -- y≤x≤x≤y
  ("finishes", K .y .x .x .y .le .le .eq),  -- y≤x≤x=y
  ("before",   K .x .x .y .y .le .le .le),  -- x≤x≤y≤y
  ("meets",    K .x .x .y .y .le .eq .le),  -- x≤x=y≤y
  ("overlaps", K .x .y .x .y .le .le .le)   -- x≤y≤x≤y
]

def manualDirect : List (Codes × Key) := manualDirectS.map fun (n, k) => (codesOf n, k)

/-- The fourth column of the manual's table: `Y converse X` for each row (`equals` is its own
converse). -/
def conversesS : List (String × String) := [
  ("equals", "equals"), ("starts", "started by"), ("during", "contains"),
  ("finishes", "finished by"), ("before", "after"), ("meets", "met by"),
  ("overlaps", "overlapped by")
]

def converses : List (Codes × Codes) := conversesS.map fun (a, b) => (codesOf a, codesOf b)

/-- The 13 Allen names: the 7 direct ones and the 6 converses, whose key is the direct key with
`x` and `y` exchanged. -/
def manualAllen : List (Codes × Key) :=
  manualDirect ++
    (converses.drop 1).filterMap fun (d, c) => (dictGet? manualDirect d).map fun k => (c, k.swap)

/-- The six synonyms (manual: "such as inside for during, equal or is for equals"; the list the
manual links to). -/
def synonymsS : List (String × String) := [
  ("ended by", "finished by"), ("ends", "finishes"), ("equal", "equals"),
  ("in", "during"), ("inside", "during"), ("is", "equals")
]

def synonyms : List (Codes × Codes) := synonymsS.map fun (a, b) => (codesOf a, codesOf b)

/-- All 19 names with the key each denotes. -/
def aliases : List (Codes × Key) :=
  manualAllen ++ synonyms.filterMap fun (s, n) => (dictGet? manualAllen n).map fun k => (s, k)

/-- name ↦ key, for the 181 entries. -/
def allNames : List (Codes × Codes) :=
  allKeys.map (fun k => (k.codes, k.codes)) ++ aliases.map (fun (n, k) => (n, k.codes))

end Paroxy.Spec
