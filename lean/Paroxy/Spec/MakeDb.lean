/-
What C11 says about the tag database, independent of how `make_db.py` computes it. Core Lean only.

* `Reach r` : the transitive closure of a relation (same inductive shape as Mathlib's
  `Relation.TransGen`; `Proofs/MakeDb.lean` proves the two equivalent).
* `StrictSorted` : strictly increasing for Python's order = "sorted and duplicate-free".
* `DB.WF` : the well-formedness of a tag database that the filter properties assume.
* executable cross-checks (`specImportations`, `specExportations`, `specIndex`, `specDb`): the same
  value computed the naive declarative way (Kleene iteration, comprehension + filter), used by the
  harness as a second opinion next to the model. The *theorems* of Props/C11 tie the model to the
  Prop-level statements (`Reach`, membership equivalences, `StrictSorted`), which determine the value
  uniquely (`strictSorted_ext`).
-/
import Paroxy.Model.MakeDb
namespace Paroxy.DB

/-- Transitive closure (one or more steps). -/
inductive Reach {α : Type} (r : α → α → Prop) : α → α → Prop
  | single {a b : α} : r a b → Reach r a b
  | tail {a b c : α} : Reach r a b → r b c → Reach r a c

/-- `p` directly imports `q` according to the dictionary of direct importations. -/
def Direct (d : List (Name × List Name)) (p q : Name) : Prop := q ∈ succs d p

/-- Strictly increasing for Python's order: sorted and without duplicates. -/
def StrictSorted {α : Type} [Ord α] (l : List α) : Prop := l.Pairwise fun a b => compare a b = .lt

/-- Non-decreasing for Python's order. -/
def Sorted {α : Type} [Ord α] (l : List α) : Prop := l.Pairwise fun a b => compare a b ≠ .gt

def keys {β : Type} (d : List (Name × β)) : List Name := d.map (·.1)

/-- `p ∈ d[k]` -/
def InAt (d : List (Name × List Name)) (k p : Name) : Prop := ∃ l, get? d k = some l ∧ p ∈ l

/-- Well-formedness of a tag database: what C04–C07/C17 assume and `makeDb_wf` establishes. -/
structure WF (db : Db) : Prop where
  paths_nodup : (keys db.programs).Nodup
  labels_index : ∀ l p, InAt db.labels l p ↔ ∃ r, get? db.programs p = some r ∧ l ∈ keys r.labels
  taxa_index : ∀ t p, InAt db.taxa t p ↔ ∃ r, get? db.programs p = some r ∧ t ∈ keys r.taxa
  imp_keys : keys db.importations = keys db.programs
  exp_keys : keys db.exportations = keys db.programs
  imp_sorted : ∀ e ∈ db.importations, StrictSorted e.2
  exp_sorted : ∀ e ∈ db.exportations, StrictSorted e.2
  imp_internal : ∀ p q, InAt db.importations p q → q ∈ keys db.programs
  imp_trans : ∀ p q r, InAt db.importations p q → InAt db.importations q r → InAt db.importations p r
  exp_inverse : ∀ p q, InAt db.exportations p q ↔ InAt db.importations q p

/-- The label facts of a database: (program, label, span) occurrences, in storage order. -/
def labelFacts (db : Db) : List (Name × Name × PoorSpan) :=
  db.programs.flatMap fun e => e.2.labels.flatMap fun l => l.2.map fun s => (e.1, l.1, s)

def taxonFacts (db : Db) : List (Name × Name × PoorSpan) :=
  db.programs.flatMap fun e => e.2.taxa.flatMap fun l => l.2.map fun s => (e.1, l.1, s)

/-! ## Executable cross-checks -/

def dedup (l : List Name) : List Name := l.foldr (fun a acc => if a ∈ acc then acc else a :: acc) []

/-- One Kleene step: direct successors of `p`, plus successors of what is already known. -/
def kleeneStep (d : List (Name × List Name)) (p : Name) (s : List Name) : List Name :=
  dedup (succs d p ++ s ++ s.flatMap (succs d))

def iter {α : Type} (f : α → α) : Nat → α → α
  | 0, a => a
  | n + 1, a => iter f n (f a)

/-- Everything reachable in one or more steps, by `|d| + 1` rounds of Kleene iteration, sorted. -/
def specImportations (d : List (Name × List Name)) : List (Name × List Name) :=
  d.map fun e => (e.1, sortU (iter (kleeneStep d e.1) (d.length + 1) []))

def specExportations (paths : List Name) (imps : List (Name × List Name)) : List (Name × List Name) :=
  paths.map fun p => (p, sortU ((imps.filter fun e => decide (p ∈ e.2)).map (·.1)))

def specIndex (occ : List (Name × Name)) : List (Name × List Name) :=
  (sortU (occ.map (·.1))).map fun k => (k, (occ.filter fun o => decide (o.1 = k)).map (·.2))

/-- the labels index: every program once -/
def specIndexOnce (occ : List (Name × Name)) : List (Name × List Name) :=
  (specIndex occ).map fun e => (e.1, (dedup e.2.reverse).reverse)

/-- last binding of each name, at the position of its first occurrence -/
def specPrepared (ls : List (Name × List Span3)) : List (Name × List PoorSpan) :=
  (dedup (ls.map (·.1)).reverse).reverse.map fun n =>
    (n, match (ls.reverse.find? fun l => decide (l.1 = n)) with
        | some l => preparedSpans l.2
        | none => [])

/-- every name once (first-occurrence order), with the sorted distinct spans of ALL the entries of that name -/
def specPreparedUnion (ls : List (Name × List Span3)) : List (Name × List PoorSpan) :=
  (dedup (ls.map (·.1)).reverse).reverse.map fun n =>
    (n, preparedSpans ((ls.filter fun l => decide (l.1 = n)).flatMap (·.2)))

def specDb (toTaxa : Name → List Label → List Taxon) (progs : List Prog) : Option Db :=
  let lab := labelled progs
  let paths := progs.map (·.path)
  let direct := directImportations lab
  if direct.all (fun e => e.2.all fun q => decide (q ∈ paths)) then
    let imps := specImportations direct
    some {
      programs := progs.zip lab |>.map fun (p, l) =>
        let taxa := toTaxa l.1 l.2
        (p.path, { timestamp := p.timestamp, source := p.source,
                   labels := specPreparedUnion (l.2.map fun x => (x.name, x.spans)),
                   taxa := specPrepared (taxa.map fun x => (x.name, x.spans)) })
      labels := specIndexOnce (labelOcc lab)
      taxa := specIndex (taxonOcc (taxaed toTaxa progs))
      importations := imps
      exportations := specExportations paths imps }
  else none

end Paroxy.DB
