/-
Helper lemmas for C03: the threaded collection `collectProc` is `makeDb` applied to the labels each
program gets ALONE and to the pure translation of the taxonomy.
-/
import Paroxy.Model.ProcCollect
import Paroxy.Proofs.Process
import Paroxy.Proofs.MakeDb
namespace Paroxy.Proc
open Paroxy Paroxy.DB

variable {E : Engines} {lit0 : List (Name × List Name)}

/-- The labels a program gets from a fresh parser (empty when the parser raises). -/
def labelsAlone (E : Engines) (lit0 : List (Name × List Name)) (it : Item) : List Label :=
  match (parseStep E (init lit0) it.prog).2 with
  | .ok ls => ls
  | .error _ => []

def progAlone (E : Engines) (lit0 : List (Name × List Name)) (it : Item) : Prog :=
  { path := it.path, timestamp := [], source := it.source, labels := labelsAlone E lit0 it }

/-- The taxonomy as a pure function of the labels (C09's specification, with the oracles of `E`). -/
def pureTaxa (E : Engines) (lit0 : List (Name × List Name)) (ls : List Label) : List Taxon :=
  E.assemble (ls.map fun l => (l, pureTranslate E lit0 l.name))

theorem parseSeq_spec (items : List Item) (S : State) (h : Inv E lit0 S) :
    Inv E lit0 (parseSeq E S items).1 ∧
    ∀ r, (parseSeq E S items).2 = .ok r → r.map rawProg = items.map (progAlone E lit0) := by
  induction items generalizing S with
  | nil => exact ⟨h, fun r hr => by simp only [parseSeq, Except.ok.injEq] at hr; rw [← hr]; rfl⟩
  | cons it rest ih =>
    have hinit : SqlInv (init lit0).sql := ⟨rfl, rfl⟩
    have hout := parseStep_out E h.1 hinit it.prog
    have hsql := parseStep_sqlInv E h.1 it.prog
    have htax := parseStep_taxo E h.1 it.prog
    unfold parseSeq
    cases hps : parseStep E S it.prog with
    | mk S1 res =>
      rw [hps] at hout hsql htax
      simp only at hout hsql htax
      have hinv1 : Inv E lit0 S1 := ⟨hsql, by rw [htax]; exact h.2⟩
      cases res with
      | error e => exact ⟨hinv1, fun r hr => by cases hr⟩
      | ok ls =>
        simp only
        obtain ⟨ih1, ih2⟩ := ih S1 hinv1
        cases hrest : parseSeq E S1 rest with
        | mk S2 res2 =>
          rw [hrest] at ih1 ih2
          simp only at ih1 ih2
          cases res2 with
          | error e => exact ⟨ih1, fun r hr => by cases hr⟩
          | ok r2 =>
            refine ⟨ih1, ?_⟩
            intro r hr
            simp only [Except.ok.injEq] at hr
            rw [← hr]
            simp only [List.map_cons, ih2 r2 rfl, List.cons.injEq, and_true]
            simp only [rawProg, progAlone, labelsAlone, ← hout]

theorem taxaSeq_spec (lss : List (List Label)) (S : State) (h : TaxoInv E lit0 S.taxo) :
    (taxaSeq E S lss).2 = lss.map (pureTaxa E lit0) := by
  induction lss generalizing S with
  | nil => rfl
  | cons ls rest ih =>
    obtain ⟨h1, h2, -⟩ := taxaStep_spec E h ls
    unfold taxaSeq
    simp only [List.map_cons]
    rw [ih _ h2, h1]
    rfl

/-! ## `makeDb` only looks at the taxonomy on the labels of the collected programs -/

theorem foldl_set_congr {β γ : Type} (key : γ → Name) (f g : γ → β) (xs : List γ)
    (d : List (Name × β)) (h : ∀ x ∈ xs, f x = g x) :
    xs.foldl (fun d x => set d (key x) (f x)) d = xs.foldl (fun d x => set d (key x) (g x)) d := by
  induction xs generalizing d with
  | nil => rfl
  | cons x t ih =>
    simp only [List.foldl_cons]
    rw [h x List.mem_cons_self]
    exact ih _ (fun y hy => h y (List.mem_cons_of_mem _ hy))

theorem makeDb_congr {f g : Name → List Label → List Taxon} {progs : List Prog}
    (h : ∀ p ∈ progs, f p.path (labelsOf (internalOf progs) p) = g p.path (labelsOf (internalOf progs) p)) :
    makeDb f progs = makeDb g progs := by
  have h1 : taxaed f progs = taxaed g progs := by
    unfold taxaed
    apply List.map_congr_left
    intro p hp
    rw [h p hp]
  have h2 : progs.foldl (fun d p => set d p.path (recordOf f (internalOf progs) p)) [] =
      progs.foldl (fun d p => set d p.path (recordOf g (internalOf progs) p)) [] := by
    apply foldl_set_congr
    intro p hp
    unfold recordOf
    rw [h p hp]
  unfold makeDb
  simp only [h1, h2]

theorem zip_map_fst_snd {β γ : Type} (l : List (Name × β)) (g : β → γ) :
    (l.map (·.1)).zip ((l.map (·.2)).map g) = l.map fun x => (x.1, g x.2) := by
  induction l with
  | nil => rfl
  | cons x t ih => simp only [List.map_cons, List.zip_cons_cons, ih]

theorem get?_zip_map {β γ : Type} (l : List (Name × β)) (g : β → γ) (hn : (keys l).Nodup)
    {e : Name × β} (he : e ∈ l) :
    get? ((l.map (·.1)).zip ((l.map (·.2)).map g)) e.1 = some (g e.2) := by
  rw [zip_map_fst_snd]
  apply get?_of_mem_nodup
  · simpa [keys, List.map_map, Function.comp_def] using hn
  · exact List.mem_map.mpr ⟨e, he, rfl⟩

/-- **The threaded collection is the pure one.** Whenever `collectProc` returns a database, it is the
database `makeDb` builds from the labels each program gets alone and the pure taxonomy. -/
theorem collectProc_eq {items : List Item} {db : Db}
    (hn : (items.map (·.path)).Nodup) (h : collectProc E lit0 items = .ok db) :
    makeDb (fun _ ls => pureTaxa E lit0 ls) (items.map (progAlone E lit0)) = .ok db := by
  have hinit : Inv E lit0 (init lit0) :=
    ⟨⟨rfl, rfl⟩, fun l => ⟨fun r hr => by simp [init, get?] at hr, fun _ => rfl⟩⟩
  obtain ⟨hinv, hspec⟩ := parseSeq_spec (E := E) (lit0 := lit0) items (init lit0) hinit
  unfold collectProc at h
  cases hps : parseSeq E (init lit0) items with
  | mk S1 res =>
    rw [hps] at h hinv hspec
    simp only at h hinv hspec
    cases res with
    | error e => cases h
    | ok r =>
      simp only at h
      have hprogs := hspec r rfl
      rw [hprogs] at h
      rw [taxaSeq_spec _ _ hinv.2] at h
      obtain ⟨progs, hpd⟩ : ∃ progs, progs = items.map (progAlone E lit0) := ⟨_, rfl⟩
      rw [← hpd] at h ⊢
      have hpaths : pathsOf progs = items.map (·.path) := by
        rw [hpd]; simp [pathsOf, progAlone, List.map_map, Function.comp_def]
      have hnk : (keys (labelled progs)).Nodup := by rw [keys_labelled, hpaths]; exact hn
      have hcongr : makeDb (fun p _ => (get? ((List.map (fun x => x.1) (labelled progs)).zip
          (List.map (pureTaxa E lit0) (List.map (fun x => x.2) (labelled progs)))) p).getD []) progs =
          makeDb (fun _ ls => pureTaxa E lit0 ls) progs := by
        apply makeDb_congr
        intro p hp
        have he : (p.path, labelsOf (internalOf progs) p) ∈ labelled progs :=
          List.mem_map.mpr ⟨p, hp, rfl⟩
        have := get?_zip_map (labelled progs) (pureTaxa E lit0) hnk he
        simp only at this
        simp only [this, Option.getD_some]
      rw [hcongr] at h
      cases hm : makeDb (fun _ ls => pureTaxa E lit0 ls) progs with
      | error e => rw [hm] at h; cases e; cases h
      | ok db' =>
        rw [hm] at h
        simp only [Except.ok.injEq] at h
        rw [h]

end Paroxy.Proc
