/-
Helper lemmas for C16, part 2: structural lemmas showing that `normalize_predicate` erases
arbitrary junk from a formula spelling; then (from "Whitespace and `strip`" on) the decorated
spellings: `not`/`is`/`!` before or after a formula spelling (unbounded junk, any case, any outer
whitespace), and the 19 names under every case mask and decoration (structural reduction to
lower-case strings + finite kernel-checked tables).
-/
import Paroxy.Proofs.NamesFacts
namespace Paroxy.NP
open Paroxy Paroxy.Spec Paroxy.Spec.NP

/-! ### Generic list lemmas -/

theorem dropWhile_append_stop {α} (p : α → Bool) (a : List α) (c : α) (r : List α) (hc : p c = false) :
    (a ++ c :: r).dropWhile p = a.dropWhile p ++ c :: r := by
  induction a with
  | nil => simp [List.dropWhile, hc]
  | cons x t ih =>
    simp only [List.cons_append, List.dropWhile_cons]
    split
    · exact ih
    · rfl

theorem all_dropWhile {α} (p q : α → Bool) (l : List α) (h : l.all q = true) :
    (l.dropWhile p).all q = true := by
  rw [List.all_eq_true] at *
  intro x hx
  exact h x ((List.dropWhile_sublist p).subset hx)

/-! ### replaceAll on a two-character pattern -/

section replace
variable (a b r : Nat)

theorem ra_nil : replaceAll [a, b] [r] 0 [] = [] := rfl

theorem ra_other (c : Nat) (t : Str) (h : c ≠ a) :
    replaceAll [a, b] [r] 0 (c :: t) = c :: replaceAll [a, b] [r] 0 t := by
  simp [replaceAll, List.isPrefixOf, h.symm]

theorem ra_hit (t : Str) :
    replaceAll [a, b] [r] 0 (a :: b :: t) = r :: replaceAll [a, b] [r] 0 t := by
  simp [replaceAll, List.isPrefixOf]

theorem ra_miss (t : Str) (h : t.head? ≠ some b) :
    replaceAll [a, b] [r] 0 (a :: t) = a :: replaceAll [a, b] [r] 0 t := by
  cases t with
  | nil => simp [replaceAll, List.isPrefixOf]
  | cons d t' =>
    have : d ≠ b := by simpa using h
    simp [replaceAll, List.isPrefixOf, this.symm]

theorem ra_junk (j t : Str) (h : ∀ c ∈ j, c ≠ a) :
    replaceAll [a, b] [r] 0 (j ++ t) = j ++ replaceAll [a, b] [r] 0 t := by
  induction j with
  | nil => rfl
  | cons c j ih =>
    rw [List.cons_append, ra_other a b r c _ (h c List.mem_cons_self), ih]
    · rfl
    · intro d hd; exact h d (List.mem_cons_of_mem _ hd)

theorem ra_junk' (j : Str) (h : ∀ c ∈ j, c ≠ a) : replaceAll [a, b] [r] 0 j = j := by
  have := ra_junk a b r j [] h
  simpa [replaceAll] using this

end replace

/-! ### Shape of a rendered formula -/

/-- The characters a lower-cased formula spelling is made of. -/
def fchar (c : Nat) : Bool :=
  junkChar c || c == 120 || c == 121 || c == 60 || c == 61 || c == 8804

/-- A style whose operands are lower case. -/
def isLowerStyle (st : FormulaStyle) : Bool :=
  !st.s1.upper && !st.s2.upper && !st.s3.upper && !st.s4.upper

def lowStyle (st : FormulaStyle) : FormulaStyle :=
  { st with s1 := { st.s1 with upper := false }, s2 := { st.s2 with upper := false },
            s3 := { st.s3 with upper := false }, s4 := { st.s4 with upper := false } }

theorem junk_lower (j : Str) (h : j.all junkChar = true) : lower j = j := by
  unfold lower
  conv => rhs; rw [← List.map_id j]
  apply List.map_congr_left
  intro c hc
  have := List.all_eq_true.mp h c hc
  simp only [junkChar, Bool.and_eq_true, Bool.not_eq_true', decide_eq_true_eq, Bool.and_eq_false_iff,
    decide_eq_false_iff_not, bne_iff_ne] at this
  simp only [lowerC, id]
  split
  · omega
  · rfl

theorem operand_lower (l : Letter) (s : OperandStyle) (h : ∀ d, s.index = some d → d < 10) :
    lower (renderOperand l s) = renderOperand l { s with upper := false } := by
  cases l <;> cases s with | mk up idx =>
  cases up <;> cases idx <;> simp [renderOperand, lower, lowerC, Letter.code] <;>
    (rename_i d; have := h d rfl; omega)

theorem op_lower (o : KOp) (p : OpStyle) : lower (renderOp o p) = renderOp o p := by
  cases o <;> cases p <;> simp [renderOp, lower, lowerC]

/-! ### The salvage pipeline on a formula spelling -/

/-- Operators after `"<=" → "≤"`. -/
def renderOp1 (o : KOp) (s : OpStyle) : Str :=
  match o, s with
  | .lt, _ => [60]
  | .le, _ => [8804]
  | .eq, .canonical => [61]
  | .eq, .ascii => [61, 61]

structure StyleOk (st : FormulaStyle) : Prop where
  j0 : st.j0.all junkChar = true
  j1 : st.j1.all junkChar = true
  j2 : st.j2.all junkChar = true
  j3 : st.j3.all junkChar = true
  j4 : st.j4.all junkChar = true
  j5 : st.j5.all junkChar = true
  j6 : st.j6.all junkChar = true
  j7 : st.j7.all junkChar = true
  i1 : ∀ d, st.s1.index = some d → d < 10
  i2 : ∀ d, st.s2.index = some d → d < 10
  i3 : ∀ d, st.s3.index = some d → d < 10
  i4 : ∀ d, st.s4.index = some d → d < 10

theorem styleOk_of_junkOk {st : FormulaStyle} (h : st.junkOk = true) : StyleOk st := by
  simp only [FormulaStyle.junkOk, List.all_cons, List.all_nil, Bool.and_true, Bool.and_eq_true] at h
  obtain ⟨⟨h0, h1, h2, h3, h4, h5, h6, h7⟩, k1, k2, k3, k4⟩ := h
  refine ⟨h0, h1, h2, h3, h4, h5, h6, h7, ?_, ?_, ?_, ?_⟩ <;> intro d hd
  · rw [hd] at k1; simpa using k1
  · rw [hd] at k2; simpa using k2
  · rw [hd] at k3; simpa using k3
  · rw [hd] at k4; simpa using k4

theorem junk_ne {j : Str} (h : j.all junkChar = true) :
    ∀ c ∈ j, c ≠ 60 ∧ c ≠ 61 ∧ c ≠ 33 ∧ allowed c = false ∧ isLetter c = false := by
  intro c hc
  have := List.all_eq_true.mp h c hc
  simp only [junkChar, Bool.and_eq_true, Bool.not_eq_true', decide_eq_true_eq, Bool.and_eq_false_iff,
    decide_eq_false_iff_not, bne_iff_ne] at this
  simp only [allowed, isLetter, Bool.or_eq_false_iff, beq_eq_false_iff_ne, Bool.and_eq_false_iff,
    decide_eq_false_iff_not]
  omega

/-- Head and tail of a (lower-case) operand. -/
def opdTail (s : OperandStyle) : Str := match s.index with | some d => [48 + d] | none => []

theorem renderOperand_lower (l : Letter) (s : OperandStyle) (h : s.upper = false) :
    renderOperand l s = l.code :: opdTail s := by
  cases s with | mk up idx =>
  cases idx <;> simp_all [renderOperand, opdTail]

theorem opdTail_ne (s : OperandStyle) (h : ∀ d, s.index = some d → d < 10) :
    ∀ c ∈ opdTail s, c ≠ 60 ∧ c ≠ 61 ∧ allowed c = false ∧ isLetter c = false ∧ isSpace c = false := by
  intro c hc
  unfold opdTail at hc
  split at hc
  · rename_i d hd
    have := h d hd
    simp only [List.mem_singleton] at hc
    subst hc
    simp only [allowed, isLetter, isSpace, Bool.or_eq_false_iff, beq_eq_false_iff_ne, Bool.and_eq_false_iff,
      decide_eq_false_iff_not]
    omega
  · cases hc

theorem code_ne (l : Letter) : l.code ≠ 60 ∧ l.code ≠ 61 ∧ l.code ≠ 33 := by cases l <;> decide

section stage1
local notation "R1" => replaceAll [60, 61] [8804] 0
local notation "R2" => replaceAll [61, 61] [61] 0

theorem operand_R1 (l : Letter) (s : OperandStyle) (t : Str) (h : ∀ d, s.index = some d → d < 10) :
    R1 (l.code :: (opdTail s ++ t)) = l.code :: (opdTail s ++ R1 t) := by
  rw [ra_other _ _ _ _ _ (code_ne l).1, ra_junk _ _ _ _ _ (fun c hc => (opdTail_ne s h c hc).1)]

theorem operand_R2 (l : Letter) (s : OperandStyle) (t : Str) (h : ∀ d, s.index = some d → d < 10) :
    R2 (l.code :: (opdTail s ++ t)) = l.code :: (opdTail s ++ R2 t) := by
  rw [ra_other _ _ _ _ _ (code_ne l).2.1, ra_junk _ _ _ _ _ (fun c hc => (opdTail_ne s h c hc).2.1)]

theorem op_R1 (o : KOp) (p : OpStyle) (t : Str) (h : t.head? ≠ some 61) :
    R1 (renderOp o p ++ t) = renderOp1 o p ++ R1 t := by
  cases o <;> cases p <;> simp only [renderOp, renderOp1, List.cons_append, List.nil_append]
  · exact ra_miss _ _ _ _ h
  · exact ra_miss _ _ _ _ h
  · exact ra_other _ _ _ _ _ (by decide)
  · exact ra_hit _ _ _ _
  · exact ra_other _ _ _ _ _ (by decide)
  · rw [ra_other _ _ _ _ _ (by decide), ra_other _ _ _ _ _ (by decide)]

theorem op_R2 (o : KOp) (p : OpStyle) (t : Str) (h : t.head? ≠ some 61) :
    R2 (renderOp1 o p ++ t) = o.code :: R2 t := by
  cases o <;> cases p <;> simp only [renderOp1, KOp.code, List.cons_append, List.nil_append]
  · exact ra_other _ _ _ _ _ (by decide)
  · exact ra_other _ _ _ _ _ (by decide)
  · exact ra_other _ _ _ _ _ (by decide)
  · exact ra_other _ _ _ _ _ (by decide)
  · exact ra_miss _ _ _ _ h
  · exact ra_hit _ _ _ _

theorem head_ne_61 (j : Str) (c : Nat) (t : Str) (hj : j.all junkChar = true) (hc : c ≠ 61) :
    (j ++ c :: t).head? ≠ some 61 := by
  cases j with
  | nil => simpa using hc
  | cons x j' =>
    have := (junk_ne hj x List.mem_cons_self).2.1
    simpa using this

/-- The right-associated text of a lower-case formula spelling. -/
def renderR (k : Key) (st : FormulaStyle) (op : KOp → OpStyle → Str) : Str :=
  st.j0 ++ (k.l1.code :: (opdTail st.s1 ++ (st.j1 ++ (op k.o1 st.p1 ++ (st.j2 ++
  (k.l2.code :: (opdTail st.s2 ++ (st.j3 ++ (op k.o2 st.p2 ++ (st.j4 ++
  (k.l3.code :: (opdTail st.s3 ++ (st.j5 ++ (op k.o3 st.p3 ++ (st.j6 ++
  (k.l4.code :: (opdTail st.s4 ++ st.j7)))))))))))))))))

theorem renderFormula_eq (k : Key) (st : FormulaStyle) (hl : isLowerStyle st = true) :
    renderFormula k st = renderR k st renderOp := by
  simp only [isLowerStyle, Bool.and_eq_true, Bool.not_eq_true'] at hl
  obtain ⟨⟨⟨h1, h2⟩, h3⟩, h4⟩ := hl
  simp only [renderFormula, renderR, renderOperand_lower _ _ h1, renderOperand_lower _ _ h2,
    renderOperand_lower _ _ h3, renderOperand_lower _ _ h4, List.append_assoc, List.cons_append]

theorem stage1 (k : Key) (st : FormulaStyle) (ok : StyleOk st) :
    R1 (renderR k st renderOp) = renderR k st renderOp1 := by
  have n0 := fun c hc => (junk_ne ok.j0 c hc).1
  have n1 := fun c hc => (junk_ne ok.j1 c hc).1
  have n2 := fun c hc => (junk_ne ok.j2 c hc).1
  have n3 := fun c hc => (junk_ne ok.j3 c hc).1
  have n4 := fun c hc => (junk_ne ok.j4 c hc).1
  have n5 := fun c hc => (junk_ne ok.j5 c hc).1
  have n6 := fun c hc => (junk_ne ok.j6 c hc).1
  have n7 := fun c hc => (junk_ne ok.j7 c hc).1
  unfold renderR
  rw [ra_junk _ _ _ _ _ n0, operand_R1 _ _ _ ok.i1, ra_junk _ _ _ _ _ n1,
    op_R1 _ _ _ (head_ne_61 _ _ _ ok.j2 (code_ne _).2.1), ra_junk _ _ _ _ _ n2,
    operand_R1 _ _ _ ok.i2, ra_junk _ _ _ _ _ n3,
    op_R1 _ _ _ (head_ne_61 _ _ _ ok.j4 (code_ne _).2.1), ra_junk _ _ _ _ _ n4,
    operand_R1 _ _ _ ok.i3, ra_junk _ _ _ _ _ n5,
    op_R1 _ _ _ (head_ne_61 _ _ _ ok.j6 (code_ne _).2.1), ra_junk _ _ _ _ _ n6,
    operand_R1 _ _ _ ok.i4, ra_junk' _ _ _ _ n7]

def opCode (o : KOp) (_ : OpStyle) : Str := [o.code]

theorem stage2 (k : Key) (st : FormulaStyle) (ok : StyleOk st) :
    R2 (renderR k st renderOp1) = renderR k st opCode := by
  have n0 := fun c hc => (junk_ne ok.j0 c hc).2.1
  have n1 := fun c hc => (junk_ne ok.j1 c hc).2.1
  have n2 := fun c hc => (junk_ne ok.j2 c hc).2.1
  have n3 := fun c hc => (junk_ne ok.j3 c hc).2.1
  have n4 := fun c hc => (junk_ne ok.j4 c hc).2.1
  have n5 := fun c hc => (junk_ne ok.j5 c hc).2.1
  have n6 := fun c hc => (junk_ne ok.j6 c hc).2.1
  have n7 := fun c hc => (junk_ne ok.j7 c hc).2.1
  unfold renderR opCode
  rw [ra_junk _ _ _ _ _ n0, operand_R2 _ _ _ ok.i1, ra_junk _ _ _ _ _ n1,
    op_R2 _ _ _ (head_ne_61 _ _ _ ok.j2 (code_ne _).2.1), ra_junk _ _ _ _ _ n2,
    operand_R2 _ _ _ ok.i2, ra_junk _ _ _ _ _ n3,
    op_R2 _ _ _ (head_ne_61 _ _ _ ok.j4 (code_ne _).2.1), ra_junk _ _ _ _ _ n4,
    operand_R2 _ _ _ ok.i3, ra_junk _ _ _ _ _ n5,
    op_R2 _ _ _ (head_ne_61 _ _ _ ok.j6 (code_ne _).2.1), ra_junk _ _ _ _ _ n6,
    operand_R2 _ _ _ ok.i4, ra_junk' _ _ _ _ n7]
  rfl

end stage1

theorem filter_junk {j : Str} (h : j.all junkChar = true) : j.filter allowed = [] := by
  rw [List.filter_eq_nil_iff]
  intro c hc
  simp [(junk_ne h c hc).2.2.2.1]

theorem filter_opdTail (s : OperandStyle) (h : ∀ d, s.index = some d → d < 10) :
    (opdTail s).filter allowed = [] := by
  rw [List.filter_eq_nil_iff]
  intro c hc
  simp [(opdTail_ne s h c hc).2.2.1]

theorem allowed_letter (l : Letter) : allowed l.code = true := by cases l <;> rfl
theorem allowed_op (o : KOp) : allowed o.code = true := by cases o <;> rfl

theorem stage3 (k : Key) (st : FormulaStyle) (ok : StyleOk st) :
    (renderR k st opCode).filter allowed = k.codes := by
  simp only [renderR, opCode, List.filter_append, List.filter_cons, filter_junk ok.j0, filter_junk ok.j1,
    filter_junk ok.j2, filter_junk ok.j3, filter_junk ok.j4, filter_junk ok.j5, filter_junk ok.j6,
    filter_junk ok.j7, filter_opdTail _ ok.i1, filter_opdTail _ ok.i2, filter_opdTail _ ok.i3,
    filter_opdTail _ ok.i4, allowed_letter, allowed_op, if_true, List.nil_append,
    List.cons_append, List.append_nil, Key.codes]

theorem expand_balanced (k : Key) (hk : k ∈ allKeys) :
    expandOne 121 (expandOne 120 k.codes) = k.codes ∧ k.codes ≠ sXeqY ∧ k.codes ≠ sYeqX := by
  have h : allKeys.all (fun k => expandOne 121 (expandOne 120 k.codes) == k.codes) = true := by
    decide +kernel
  refine ⟨beq_iff_eq.mp (List.all_eq_true.mp h k hk), ?_, ?_⟩ <;>
    (intro h; have := congrArg List.length h; simp [Key.codes, sXeqY, sYeqX] at this)

/-- **Core of C16**: the salvage pipeline maps every lower-case formula spelling of `k` to `k`. -/
theorem salvage_formula (k : Key) (hk : k ∈ allKeys) (st : FormulaStyle) (ok : StyleOk st)
    (hl : isLowerStyle st = true) : salvage (renderFormula k st) = k.codes := by
  unfold salvage
  simp only
  rw [renderFormula_eq k st hl, stage1 k st ok, stage2 k st ok, stage3 k st ok]
  obtain ⟨h1, h2, h3⟩ := expand_balanced k hk
  simp [h2, h3, h1]

/-! ### The stages before the salvage pipeline -/

theorem dropWhile_append_of_any {α} (p : α → Bool) (l r : List α) (h : ∃ x ∈ l, p x = false) :
    (l ++ r).dropWhile p = l.dropWhile p ++ r := by
  induction l with
  | nil => obtain ⟨x, hx, _⟩ := h; cases hx
  | cons a t ih =>
    simp only [List.cons_append, List.dropWhile_cons]
    split
    · rename_i hp
      apply ih
      obtain ⟨x, hx, hpx⟩ := h
      rcases List.mem_cons.mp hx with rfl | hx'
      · rw [hp] at hpx; cases hpx
      · exact ⟨x, hx', hpx⟩
    · rfl

/-- `rstrip` leaves a prefix ending in a non-space character alone. -/
theorem rstrip_append (x a j : Str) (ha : a ≠ []) (hs : ∀ c ∈ a, isSpace c = false) :
    rstrip (x ++ a ++ j) = x ++ a ++ rstrip j := by
  unfold rstrip
  rw [List.reverse_append, List.reverse_append]
  cases hr : a.reverse with
  | nil => exact absurd (List.reverse_eq_nil_iff.mp hr) ha
  | cons c t =>
    have hc : isSpace c = false := hs c (by rw [← List.mem_reverse, hr]; exact List.mem_cons_self)
    rw [List.cons_append, dropWhile_append_stop _ _ _ _ hc]
    have ha' : a = t.reverse ++ [c] := by
      have := congrArg List.reverse hr
      simpa using this
    simp [ha']

theorem lstrip_junk_cons (j : Str) (c : Nat) (r : Str) (hc : isSpace c = false) :
    lstrip (j ++ c :: r) = lstrip j ++ c :: r := dropWhile_append_stop _ _ _ _ hc

theorem code_not_space (l : Letter) : isSpace l.code = false := by cases l <;> rfl

/-- Trim the outer junk strings as `strip` does. -/
def trimStyle (st : FormulaStyle) : FormulaStyle :=
  { st with j0 := lstrip st.j0, j7 := rstrip st.j7 }

theorem all_reverse_dropWhile_reverse (q : Nat → Bool) (l : Str) (h : l.all q = true) :
    (rstrip l).all q = true := by
  unfold rstrip
  rw [List.all_eq_true] at *
  intro x hx
  rw [List.mem_reverse] at hx
  exact h x (List.mem_reverse.mp ((List.dropWhile_sublist _).subset hx))

theorem styleOk_trim {st : FormulaStyle} (ok : StyleOk st) : StyleOk (trimStyle st) :=
  { ok with j0 := all_dropWhile _ _ _ ok.j0, j7 := all_reverse_dropWhile_reverse _ _ ok.j7 }

theorem isLower_trim {st : FormulaStyle} (h : isLowerStyle st = true) : isLowerStyle (trimStyle st) = true := h

theorem strip_formula (k : Key) (st : FormulaStyle) (ok : StyleOk st) (hl : isLowerStyle st = true) :
    strip (renderFormula k st) = renderFormula k (trimStyle st) := by
  unfold strip
  have e1 : lstrip (renderFormula k st) = renderFormula k { st with j0 := lstrip st.j0 } := by
    rw [renderFormula_eq k st hl, renderFormula_eq k { st with j0 := lstrip st.j0 } hl]
    exact lstrip_junk_cons _ _ _ (code_not_space _)
  rw [e1]
  have hl4 : st.s4.upper = false := by
    simp only [isLowerStyle, Bool.and_eq_true, Bool.not_eq_true'] at hl; exact hl.2
  have : ∀ c ∈ renderOperand k.l4 st.s4, isSpace c = false := by
    rw [renderOperand_lower _ _ hl4]
    intro c hc
    rcases List.mem_cons.mp hc with rfl | hc
    · exact code_not_space _
    · exact (opdTail_ne _ ok.i4 c hc).2.2.2.2
  simp only [renderFormula, trimStyle]
  rw [rstrip_append _ _ _ (by rw [renderOperand_lower _ _ hl4]; simp) this]

theorem renderOp_canonical (o : KOp) : renderOp o .canonical = [o.code] := by cases o <;> rfl

theorem searchNot1_false (s : Str) (h : ∀ c ∈ s, c ≠ 110) : searchNot1 s = false := by
  induction s with
  | nil => rfl
  | cons c t ih =>
    have hc : c ≠ 110 := h c List.mem_cons_self
    simp only [searchNot1, sNot, List.isPrefixOf, Bool.or_eq_false_iff, Bool.and_eq_false_iff]
    refine ⟨Or.inl (Or.inl ?_), ih (fun d hd => h d (List.mem_cons_of_mem _ hd))⟩
    simpa using Ne.symm hc

theorem searchNot2_false (s : Str) (h : ∀ c ∈ s, c ≠ 110) : searchNot2 s = false := by
  induction s with
  | nil => rfl
  | cons c t ih =>
    simp only [searchNot2, Bool.or_eq_false_iff, Bool.and_eq_false_iff]
    refine ⟨Or.inr ?_, ih (fun d hd => h d (List.mem_cons_of_mem _ hd))⟩
    cases t with
    | nil => rfl
    | cons d t' =>
      have : d ≠ 110 := h d (List.mem_cons_of_mem _ List.mem_cons_self)
      simp [sNot, List.isPrefixOf, Ne.symm this]

theorem subIs_id (s : Str) (h : ∀ c ∈ s, c ≠ 105) (prev : Option Nat) : subIs prev 0 s = s := by
  induction s generalizing prev with
  | nil => rfl
  | cons c t ih =>
    have hc : c ≠ 105 := h c List.mem_cons_self
    have ht : ∀ d ∈ t, d ≠ 105 := fun d hd => h d (List.mem_cons_of_mem _ hd)
    have a1 : ([105, 115] : Str).isPrefixOf t = false := by
      cases t with
      | nil => rfl
      | cons d t' =>
        have : d ≠ 105 := ht d List.mem_cons_self
        simp [List.isPrefixOf, Ne.symm this]
    have hb : (c == 105) = false := by simpa using hc
    simp [subIs, a1, hb, ih ht]

theorem fchar_ne {c : Nat} (h : fchar c = true) : c ≠ 110 ∧ c ≠ 105 ∧ c ≠ 33 ∧ otherLetter c = false := by
  simp only [fchar, junkChar, Bool.or_eq_true, Bool.and_eq_true, Bool.not_eq_true', decide_eq_true_eq,
    Bool.and_eq_false_iff, decide_eq_false_iff_not, bne_iff_ne, beq_iff_eq] at h
  simp only [otherLetter, isLetter, Bool.and_eq_false_iff, Bool.or_eq_false_iff, decide_eq_false_iff_not,
    bne_eq_false_iff_eq]
  omega

theorem fchar_formula (k : Key) (st : FormulaStyle) (ok : StyleOk st) (hl : isLowerStyle st = true) :
    (renderFormula k st).all fchar = true := by
  rw [renderFormula_eq k st hl]
  have hj : ∀ j : Str, j.all junkChar = true → j.all fchar = true := by
    intro j h
    rw [List.all_eq_true] at *
    intro c hc; simp [fchar, h c hc]
  have ht : ∀ s : OperandStyle, (∀ d, s.index = some d → d < 10) → (opdTail s).all fchar = true := by
    intro s h
    unfold opdTail
    split
    · rename_i d hd
      have := h d hd
      simp only [List.all_cons, List.all_nil, Bool.and_true, fchar, junkChar, Bool.or_eq_true,
        Bool.and_eq_true, Bool.not_eq_true', decide_eq_true_eq, Bool.and_eq_false_iff,
        decide_eq_false_iff_not, bne_iff_ne, beq_iff_eq]
      omega
    · rfl
  have hc : ∀ l : Letter, fchar l.code = true := by intro l; cases l <;> rfl
  have ho : ∀ (o : KOp) (p : OpStyle), (renderOp o p).all fchar = true := by
    intro o p; cases o <;> cases p <;> rfl
  simp only [renderR, List.all_append, List.all_cons, hj _ ok.j0, hj _ ok.j1, hj _ ok.j2, hj _ ok.j3,
    hj _ ok.j4, hj _ ok.j5, hj _ ok.j6, hj _ ok.j7, ht _ ok.i1, ht _ ok.i2, ht _ ok.i3, ht _ ok.i4, hc, ho,
    Bool.and_self]

theorem negation_plain (p : Str) (h : p.all fchar = true) : negation p = (p, false) := by
  have hne : ∀ c ∈ p, c ≠ 110 := fun c hc => (fchar_ne (List.all_eq_true.mp h c hc)).1
  unfold negation
  split
  · rename_i t
    have := (fchar_ne (List.all_eq_true.mp h 33 List.mem_cons_self)).2.2.1
    exact absurd rfl this
  · simp [searchNot1_false p hne, searchNot2_false p hne]

/-- The dictionary stage of `finish`: direct lookup, else lookup of the salvaged string. -/
def lookup (names : List (Codes × Codes)) (p : Str) (neg : Bool) : Option (Codes × Bool) :=
  match dictGet? names p with
  | some k => some (k, neg)
  | none =>
    match dictGet? names (salvage p) with
    | some k => some (k, neg)
    | none => none

theorem finish_eq (nm : List (Codes × Codes)) (p : Str) (neg : Bool) :
    finish nm p neg = lookup nm (subIs none 0 (strip p)) neg := rfl

/-- The dictionary stage on ANY lower-case formula spelling (outer junk not necessarily trimmed). -/
theorem lookup_formula (k : Key) (hk : k ∈ allKeys) (st : FormulaStyle) (ok : StyleOk st)
    (hl : isLowerStyle st = true) (neg : Bool) :
    lookup names (renderFormula k st) neg = some (k.codes, neg) := by
  unfold lookup
  have hf := fchar_formula k st ok hl
  have hs := salvage_formula k hk st ok hl
  split
  · rename_i v hv
    have hm := dictGet?_mem hv
    have sh := List.all_eq_true.mp names_shape _ hm
    simp only [Bool.or_eq_true, Bool.and_eq_true, beq_iff_eq, List.any_eq_true] at sh
    rcases sh with ⟨he, hvo⟩ | ⟨c, hc, hoc⟩
    · obtain ⟨k', hk', hv'⟩ := valueOk_spec hvo
      -- the spelling is itself a canonical key k'; salvage fixes both, hence k' = k
      have h1 : salvage k'.codes = k'.codes := by
        have := salvage_formula k' hk' {} (styleOk_of_junkOk (by decide)) (by decide)
        simpa [renderFormula, renderOperand, renderOp_canonical, Key.codes] using this
      rw [hv'] at hs
      rw [h1] at hs
      rw [← he, hv', hs]
    · have := (fchar_ne (List.all_eq_true.mp hf c hc)).2.2.2
      rw [this] at hoc; cases hoc
  · rw [hs]
    have := beq_iff_eq.mp (List.all_eq_true.mp names_keys k hk)
    rw [this]

/-- Everything `normalize` does after the negation stage, on a lower-case formula spelling. -/
theorem after_negation (k : Key) (hk : k ∈ allKeys) (st : FormulaStyle) (ok : StyleOk st)
    (hl : isLowerStyle st = true) (neg : Bool) :
    finish names (renderFormula k st) neg = some (k.codes, neg) := by
  rw [finish_eq]
  have ok' := styleOk_trim ok
  have hl' := isLower_trim (st := st) hl
  have hf := fchar_formula k _ ok' hl'
  have hne : ∀ c ∈ renderFormula k (trimStyle st), c ≠ 105 :=
    fun c hc => (fchar_ne (List.all_eq_true.mp hf c hc)).2.1
  rw [strip_formula k st ok hl, subIs_id _ hne]
  exact lookup_formula k hk _ ok' hl' neg

theorem lower_append (a b : Str) : lower (a ++ b) = lower a ++ lower b := List.map_append

theorem styleOk_low {st : FormulaStyle} (ok : StyleOk st) : StyleOk (lowStyle st) :=
  { j0 := ok.j0, j1 := ok.j1, j2 := ok.j2, j3 := ok.j3, j4 := ok.j4, j5 := ok.j5, j6 := ok.j6, j7 := ok.j7,
    i1 := ok.i1, i2 := ok.i2, i3 := ok.i3, i4 := ok.i4 }

theorem isLower_low (st : FormulaStyle) : isLowerStyle (lowStyle st) = true := rfl

theorem lower_formula (k : Key) (st : FormulaStyle) (ok : StyleOk st) :
    lower (renderFormula k st) = renderFormula k (lowStyle st) := by
  simp only [renderFormula, lower_append, junk_lower _ ok.j0, junk_lower _ ok.j1, junk_lower _ ok.j2,
    junk_lower _ ok.j3, junk_lower _ ok.j4, junk_lower _ ok.j5, junk_lower _ ok.j6, junk_lower _ ok.j7,
    operand_lower _ _ ok.i1, operand_lower _ _ ok.i2, operand_lower _ _ ok.i3, operand_lower _ _ ok.i4,
    op_lower, lowStyle]

theorem normalize_formula' (k : Key) (hk : k ∈ allKeys) (st : FormulaStyle) (ok : StyleOk st) :
    normalize names (renderFormula k st) = some (k.codes, false) := by
  have ok1 := styleOk_low ok
  have ok2 := styleOk_trim ok1
  have hl2 : isLowerStyle (trimStyle (lowStyle st)) = true := rfl
  unfold normalize
  rw [lower_formula k st ok, strip_formula k _ ok1 (isLower_low st),
    negation_plain _ (fchar_formula k _ ok2 hl2)]
  exact after_negation k hk _ ok2 hl2 false

theorem normalize_formula (k : Key) (hk : k ∈ allKeys) (st : FormulaStyle) (hj : st.junkOk = true) :
    normalize names (renderFormula k st) = some (k.codes, false) :=
  normalize_formula' k hk st (styleOk_of_junkOk hj)

theorem spaces_junk (n : Nat) : (List.replicate n 32).all junkChar = true := by
  simp [List.all_replicate, junkChar]

theorem lstrip_spaces (n : Nat) (c : Nat) (r : Str) (hc : isSpace c = false) :
    lstrip (List.replicate n 32 ++ c :: r) = c :: r := by
  rw [lstrip_junk_cons _ _ _ hc]
  have : lstrip (List.replicate n 32) = [] := by
    unfold lstrip
    induction n with
    | zero => rfl
    | succ m ih => simp [List.replicate_succ, List.dropWhile_cons, isSpace, ih]
  rw [this]; rfl

theorem prepend_junk (k : Key) (st : FormulaStyle) (j : Str) :
    j ++ renderFormula k st = renderFormula k { st with j0 := j ++ st.j0 } := by
  simp only [renderFormula, List.append_assoc]

/-- Everything of a formula spelling before its last operand. -/
def formulaInit (k : Key) (st : FormulaStyle) : Str :=
  st.j0 ++ renderOperand k.l1 st.s1 ++ st.j1 ++ renderOp k.o1 st.p1 ++ st.j2 ++
  renderOperand k.l2 st.s2 ++ st.j3 ++ renderOp k.o2 st.p2 ++ st.j4 ++
  renderOperand k.l3 st.s3 ++ st.j5 ++ renderOp k.o3 st.p3 ++ st.j6

theorem renderFormula_split (k : Key) (st : FormulaStyle) :
    renderFormula k st = formulaInit k st ++ renderOperand k.l4 st.s4 ++ st.j7 := rfl

theorem strip_bang (k : Key) (st : FormulaStyle) (ok : StyleOk st) (hl : isLowerStyle st = true) (a : Nat) :
    strip (List.replicate a 32 ++ 33 :: renderFormula k st) =
      33 :: renderFormula k { st with j7 := rstrip st.j7 } := by
  unfold strip
  rw [lstrip_spaces _ _ _ (by rfl)]
  have hl4 : st.s4.upper = false := by
    simp only [isLowerStyle, Bool.and_eq_true, Bool.not_eq_true'] at hl; exact hl.2
  have hsp : ∀ c ∈ renderOperand k.l4 st.s4, isSpace c = false := by
    rw [renderOperand_lower _ _ hl4]
    intro c hc
    rcases List.mem_cons.mp hc with rfl | hc
    · exact code_not_space _
    · exact (opdTail_ne _ ok.i4 c hc).2.2.2.2
  have hne : renderOperand k.l4 st.s4 ≠ [] := by rw [renderOperand_lower _ _ hl4]; simp
  rw [renderFormula_split, renderFormula_split]
  have e : 33 :: (formulaInit k st ++ renderOperand k.l4 st.s4 ++ st.j7) =
      ([33] ++ formulaInit k st) ++ renderOperand k.l4 st.s4 ++ st.j7 := by simp
  rw [e, rstrip_append _ _ _ hne hsp]
  simp [formulaInit]

theorem negation_bang (t : Str) : negation (33 :: t) = (t, true) := rfl

theorem normalize_formula_bang' (k : Key) (hk : k ∈ allKeys) (st : FormulaStyle) (ok : StyleOk st)
    (a b : Nat) :
    normalize names (List.replicate a 32 ++ 33 :: List.replicate b 32 ++ renderFormula k st) =
      some (k.codes, true) := by
  have ok1 := styleOk_low ok
  -- lower
  have e0 : lower (List.replicate a 32 ++ 33 :: List.replicate b 32 ++ renderFormula k st) =
      List.replicate a 32 ++ 33 :: (List.replicate b 32 ++ renderFormula k (lowStyle st)) := by
    rw [lower_append, lower_append, lower_formula k st ok, junk_lower _ (spaces_junk a)]
    have : lower (33 :: List.replicate b 32) = 33 :: List.replicate b 32 := by
      show lowerC 33 :: lower _ = _
      rw [junk_lower _ (spaces_junk b)]; rfl
    rw [this]; simp
  -- absorb the `b` spaces into the first junk string
  have hj0 : (List.replicate b 32 ++ st.j0).all junkChar = true := by
    rw [List.all_append, spaces_junk, ok.j0]; rfl
  obtain ⟨st1, e1, ok1', hl1⟩ : ∃ st1, List.replicate b 32 ++ renderFormula k (lowStyle st) =
      renderFormula k st1 ∧ StyleOk st1 ∧ isLowerStyle st1 = true :=
    ⟨{ lowStyle st with j0 := List.replicate b 32 ++ (lowStyle st).j0 },
      prepend_junk k (lowStyle st) (List.replicate b 32), { ok1 with j0 := hj0 }, rfl⟩
  have ok2 : StyleOk { st1 with j7 := rstrip st1.j7 } :=
    { ok1' with j7 := all_reverse_dropWhile_reverse _ _ ok1'.j7 }
  unfold normalize
  have hl2 : isLowerStyle { st1 with j7 := rstrip st1.j7 } = true := hl1
  rw [e0, e1, strip_bang k st1 ok1' hl1 a, negation_bang]
  dsimp only
  exact after_negation k hk _ ok2 hl2 true

theorem normalize_formula_bang (k : Key) (hk : k ∈ allKeys) (st : FormulaStyle) (hj : st.junkOk = true)
    (a b : Nat) :
    normalize names (List.replicate a 32 ++ 33 :: List.replicate b 32 ++ renderFormula k st) =
      some (k.codes, true) :=
  normalize_formula_bang' k hk st (styleOk_of_junkOk hj) a b

/-! ### Whitespace and `strip` -/

theorem space_junk {c : Nat} (h : isSpace c = true) : junkChar c = true := by
  simp only [isSpace, Bool.or_eq_true, beq_iff_eq, Bool.and_eq_true, decide_eq_true_eq] at h
  simp only [junkChar, Bool.and_eq_true, Bool.not_eq_true', decide_eq_true_eq, Bool.and_eq_false_iff,
    decide_eq_false_iff_not, bne_iff_ne]
  omega

theorem ws_junk {l : Str} (h : l.all isSpace = true) : l.all junkChar = true := by
  rw [List.all_eq_true] at *
  intro c hc; exact space_junk (h c hc)

theorem dropWhile_all {α} (p : α → Bool) (l : List α) (h : ∀ x ∈ l, p x = true) : l.dropWhile p = [] := by
  induction l with
  | nil => rfl
  | cons a t ih =>
    rw [List.dropWhile_cons, if_pos (h a List.mem_cons_self)]
    exact ih (fun x hx => h x (List.mem_cons_of_mem _ hx))

theorem lstrip_ws {ws : Str} (h : ws.all isSpace = true) : lstrip ws = [] :=
  dropWhile_all _ _ (List.all_eq_true.mp h)

theorem lstrip_ws_cons {ws : Str} (h : ws.all isSpace = true) (c : Nat) (r : Str) (hc : isSpace c = false) :
    lstrip (ws ++ c :: r) = c :: r := by
  rw [lstrip_junk_cons _ _ _ hc, lstrip_ws h]; rfl

theorem rstrip_ws {ws : Str} (h : ws.all isSpace = true) : rstrip ws = [] := by
  unfold rstrip
  rw [List.reverse_eq_nil_iff]
  apply dropWhile_all
  intro x hx
  exact List.all_eq_true.mp h x (List.mem_reverse.mp hx)

theorem rstrip_snoc_ws (r : Str) (c : Nat) {ws : Str} (h : ws.all isSpace = true) (hc : isSpace c = false) :
    rstrip (r ++ c :: ws) = r ++ [c] := by
  have := rstrip_append r [c] ws (by simp) (by simpa using hc)
  rw [rstrip_ws h] at this
  simpa using this

theorem lstrip_formula_app (k : Key) (st : FormulaStyle) (hl : isLowerStyle st = true) (Z : Str) :
    lstrip (renderFormula k st ++ Z) = renderFormula k { st with j0 := lstrip st.j0 } ++ Z := by
  rw [renderFormula_eq k st hl, renderFormula_eq k { st with j0 := lstrip st.j0 } hl]
  simp only [renderR, List.append_assoc, List.cons_append]
  exact lstrip_junk_cons _ _ _ (code_not_space _)

theorem rstrip_app_formula (k : Key) (st : FormulaStyle) (ok : StyleOk st) (hl : isLowerStyle st = true) (Z : Str) :
    rstrip (Z ++ renderFormula k st) = Z ++ renderFormula k { st with j7 := rstrip st.j7 } := by
  have hl4 : st.s4.upper = false := by
    simp only [isLowerStyle, Bool.and_eq_true, Bool.not_eq_true'] at hl; exact hl.2
  have hsp : ∀ c ∈ renderOperand k.l4 st.s4, isSpace c = false := by
    rw [renderOperand_lower _ _ hl4]
    intro c hc
    rcases List.mem_cons.mp hc with rfl | hc
    · exact code_not_space _
    · exact (opdTail_ne _ ok.i4 c hc).2.2.2.2
  have hne : renderOperand k.l4 st.s4 ≠ [] := by rw [renderOperand_lower _ _ hl4]; simp
  rw [renderFormula_split, renderFormula_split]
  have e : Z ++ (formulaInit k st ++ renderOperand k.l4 st.s4 ++ st.j7) =
      (Z ++ formulaInit k st) ++ renderOperand k.l4 st.s4 ++ st.j7 := by simp
  rw [e, rstrip_append _ _ _ hne hsp]
  simp [formulaInit]

theorem styleOk_l {st : FormulaStyle} (ok : StyleOk st) : StyleOk { st with j0 := lstrip st.j0 } :=
  { ok with j0 := all_dropWhile _ _ _ ok.j0 }
theorem styleOk_r {st : FormulaStyle} (ok : StyleOk st) : StyleOk { st with j7 := rstrip st.j7 } :=
  { ok with j7 := all_reverse_dropWhile_reverse _ _ ok.j7 }
theorem styleOk_pre {st : FormulaStyle} (ok : StyleOk st) {j : Str} (h : j.all junkChar = true) :
    StyleOk { st with j0 := j ++ st.j0 } :=
  { ok with j0 := by rw [List.all_append, h, ok.j0]; rfl }
theorem styleOk_post {st : FormulaStyle} (ok : StyleOk st) {j : Str} (h : j.all junkChar = true) :
    StyleOk { st with j7 := st.j7 ++ j } :=
  { ok with j7 := by rw [List.all_append, h, ok.j7]; rfl }

theorem append_junk (k : Key) (st : FormulaStyle) (j : Str) :
    renderFormula k st ++ j = renderFormula k { st with j7 := st.j7 ++ j } := by
  simp only [renderFormula, List.append_assoc]

/-! ### The negation stage on strings without `n` and `!` -/

def clean (c : Nat) : Bool := c != 110 && c != 33

theorem clean_ne {l : Str} (h : l.all clean = true) : ∀ c ∈ l, c ≠ 110 ∧ c ≠ 33 := by
  intro c hc
  have := List.all_eq_true.mp h c hc
  simpa [clean] using this

theorem fchar_clean {l : Str} (h : l.all fchar = true) : l.all clean = true := by
  rw [List.all_eq_true] at *
  intro c hc
  have := fchar_ne (h c hc)
  simp [clean, this.1, this.2.2.1]

theorem formula_clean (k : Key) (st : FormulaStyle) (ok : StyleOk st) (hl : isLowerStyle st = true) :
    (renderFormula k st).all clean = true := fchar_clean (fchar_formula k st ok hl)

theorem formula_ne_i (k : Key) (st : FormulaStyle) (ok : StyleOk st) (hl : isLowerStyle st = true) :
    ∀ c ∈ renderFormula k st, c ≠ 105 :=
  fun c hc => (fchar_ne (List.all_eq_true.mp (fchar_formula k st ok hl) c hc)).2.1

theorem ws_clean {l : Str} (h : l.all isSpace = true) : l.all clean = true := by
  rw [List.all_eq_true] at *
  intro c hc
  have := h c hc
  simp only [isSpace, Bool.or_eq_true, beq_iff_eq, Bool.and_eq_true, decide_eq_true_eq] at this
  simp only [clean, Bool.and_eq_true, bne_iff_ne]
  omega

theorem head_ne_bang {p : Str} (h : p.all clean = true) (Y : Str) (hY : Y.head? ≠ some 33) :
    ∀ t, p ++ Y ≠ 33 :: t := by
  intro t e
  cases p with
  | nil => rw [List.nil_append] at e; rw [e] at hY; exact hY rfl
  | cons c p' =>
    have := (clean_ne h c List.mem_cons_self).2
    simp only [List.cons_append, List.cons.injEq] at e
    exact this e.1

theorem negation_clean (p : Str) (h : p.all clean = true) : negation p = (p, false) := by
  have hne : ∀ c ∈ p, c ≠ 110 := fun c hc => (clean_ne h c hc).1
  unfold negation
  split
  · rename_i t
    exact absurd rfl (clean_ne h 33 List.mem_cons_self).2
  · simp [searchNot1_false p hne, searchNot2_false p hne]

theorem raNotSp_clean (X : Str) (h : ∀ c ∈ X, c ≠ 110) : replaceAll sNotSp [] 0 X = X := by
  induction X with
  | nil => rfl
  | cons c t ih =>
    have hc : c ≠ 110 := h c List.mem_cons_self
    have hb : (110 == c) = false := by simpa using Ne.symm hc
    have := ih (fun d hd => h d (List.mem_cons_of_mem _ hd))
    simp only [sNotSp] at this
    simp [replaceAll, sNotSp, List.isPrefixOf, hb, this]

theorem raNotSp_hit (P X : Str) (hP : ∀ c ∈ P, c ≠ 110) (hX : ∀ c ∈ X, c ≠ 110) :
    replaceAll sNotSp [] 0 (P ++ sNotSp ++ X) = P ++ X := by
  induction P with
  | nil => simp [replaceAll, sNotSp, List.isPrefixOf]; exact raNotSp_clean X hX
  | cons c t ih =>
    have hc : c ≠ 110 := hP c List.mem_cons_self
    have hb : (110 == c) = false := by simpa using Ne.symm hc
    have := ih (fun d hd => hP d (List.mem_cons_of_mem _ hd))
    simp only [List.cons_append, List.append_assoc] at this ⊢
    simp [replaceAll, sNotSp, List.isPrefixOf, hb]
    simpa [sNotSp] using this

theorem searchNot1_hit (P X : Str) : searchNot1 (P ++ sNotSp ++ X) = true := by
  induction P with
  | nil => simp [searchNot1, sNotSp, sNot, List.isPrefixOf, isSpace]
  | cons c t ih =>
    simp only [List.cons_append, searchNot1, Bool.or_eq_true]
    exact Or.inr ih

/-- `P not X` with no other `n`, no `!`: the first branch removes `"not "`. -/
theorem negation_not1 (P X : Str) (hP : P.all clean = true) (hX : X.all clean = true) :
    negation (P ++ sNotSp ++ X) = (P ++ X, true) := by
  have hb := head_ne_bang hP (sNotSp ++ X) (by simp [sNotSp])
  rw [List.append_assoc]
  unfold negation
  split
  · rename_i t e; exact absurd e (hb t)
  · rw [← List.append_assoc, searchNot1_hit, raNotSp_hit P X (fun c hc => (clean_ne hP c hc).1)
      (fun c hc => (clean_ne hX c hc).1)]
    rfl

theorem searchNot1_tail (X : Str) (h : ∀ c ∈ X, c ≠ 110) : searchNot1 (X ++ sSpNot) = false := by
  induction X with
  | nil => decide
  | cons c t ih =>
    have hc : c ≠ 110 := h c List.mem_cons_self
    have hb : (110 == c) = false := by simpa using Ne.symm hc
    simp only [List.cons_append, searchNot1, sNot, List.isPrefixOf, hb, Bool.false_and, Bool.false_or]
    exact ih (fun d hd => h d (List.mem_cons_of_mem _ hd))

theorem searchNot2_tail (X : Str) : searchNot2 (X ++ sSpNot) = true := by
  induction X with
  | nil => decide
  | cons c t ih =>
    simp only [List.cons_append, searchNot2, Bool.or_eq_true]
    exact Or.inr ih

theorem raSpNot_tail (X : Str) (h : ∀ c ∈ X, c ≠ 110) : replaceAll sSpNot [] 0 (X ++ sSpNot) = X := by
  induction X with
  | nil => decide
  | cons c t ih =>
    have ht : ∀ d ∈ t, d ≠ 110 := fun d hd => h d (List.mem_cons_of_mem _ hd)
    have hp : sSpNot.isPrefixOf (c :: t ++ sSpNot) = false := by
      cases t with
      | nil => simp [sSpNot, List.isPrefixOf]
      | cons d t' =>
        have : d ≠ 110 := ht d List.mem_cons_self
        have hb : (110 == d) = false := by simpa using Ne.symm this
        simp [sSpNot, List.isPrefixOf, hb]
    rw [List.cons_append]
    rw [List.cons_append] at hp
    simp only [replaceAll, hp, Bool.false_eq_true, if_false]
    rw [ih ht]

/-- `X not` with no other `n`, no `!`: the second branch removes `" not"`. -/
theorem negation_not2 (X : Str) (hX : X.all clean = true) : negation (X ++ sSpNot) = (X, true) := by
  have hne : ∀ c ∈ X, c ≠ 110 := fun c hc => (clean_ne hX c hc).1
  have hb := head_ne_bang hX sSpNot (by simp [sSpNot])
  unfold negation
  split
  · rename_i t e; exact absurd e (hb t)
  · rw [searchNot1_tail X hne, searchNot2_tail, raSpNot_tail X hne]
    rfl

/-! ### The `is` stage -/

def sIs : Str := [105, 115]   -- "is"

theorem subIs_is_prefix (X : Str) (h : ∀ c ∈ X, c ≠ 105) : subIs none 0 (105 :: 115 :: 32 :: X) = X := by
  simp [subIs, List.isPrefixOf, subIs_id X h]

theorem subIs_is_suffix (X : Str) (h : ∀ c ∈ X, c ≠ 105) (prev : Option Nat) :
    subIs prev 0 (X ++ [32, 105, 115]) = X := by
  induction X generalizing prev with
  | nil => simp [subIs, List.isPrefixOf, headIsWord]
  | cons c t ih =>
    have hc : c ≠ 105 := h c List.mem_cons_self
    have ht : ∀ d ∈ t, d ≠ 105 := fun d hd => h d (List.mem_cons_of_mem _ hd)
    have a1 : ([105, 115] : Str).isPrefixOf (t ++ [32, 105, 115]) = false := by
      cases t with
      | nil => simp [List.isPrefixOf]
      | cons d t' =>
        have : d ≠ 105 := ht d List.mem_cons_self
        simp [List.isPrefixOf, Ne.symm this]
    have hb : (c == 105) = false := by simpa using hc
    simp [subIs, a1, hb, ih ht]

/-- `finish` on `is F` (leading whitespace allowed). -/
theorem finish_is_prefix (k : Key) (hk : k ∈ allKeys) (st : FormulaStyle) (ok : StyleOk st)
    (hl : isLowerStyle st = true) (neg : Bool) {ws : Str} (hws : ws.all isSpace = true) :
    finish names (ws ++ 105 :: 115 :: 32 :: renderFormula k st) neg = some (k.codes, neg) := by
  rw [finish_eq]
  have e : strip (ws ++ 105 :: 115 :: 32 :: renderFormula k st) =
      105 :: 115 :: 32 :: renderFormula k { st with j7 := rstrip st.j7 } := by
    unfold strip
    rw [lstrip_ws_cons hws _ _ (by rfl)]
    exact rstrip_app_formula k st ok hl [105, 115, 32]
  rw [e, subIs_is_prefix _ (formula_ne_i k _ (styleOk_r ok) hl)]
  exact lookup_formula k hk _ (styleOk_r ok) hl neg

/-- `finish` on `F is` (trailing whitespace allowed). -/
theorem finish_is_suffix (k : Key) (hk : k ∈ allKeys) (st : FormulaStyle) (ok : StyleOk st)
    (hl : isLowerStyle st = true) (neg : Bool) {ws : Str} (hws : ws.all isSpace = true) :
    finish names (renderFormula k st ++ 32 :: 105 :: 115 :: ws) neg = some (k.codes, neg) := by
  rw [finish_eq]
  have e : strip (renderFormula k st ++ 32 :: 105 :: 115 :: ws) =
      renderFormula k { st with j0 := lstrip st.j0 } ++ [32, 105, 115] := by
    unfold strip
    rw [lstrip_formula_app k st hl]
    have := rstrip_snoc_ws (renderFormula k { st with j0 := lstrip st.j0 } ++ [32, 105]) 115 hws (by rfl)
    simpa using this
  rw [e, subIs_is_suffix _ (formula_ne_i k _ (styleOk_l ok) hl)]
  exact lookup_formula k hk _ (styleOk_l ok) hl neg

/-! ### Decorated formula spellings -/

theorem lower_cons (c : Nat) (t : Str) : lower (c :: t) = lowerC c :: lower t := rfl
theorem lower_ws {ws : Str} (h : ws.all isSpace = true) : lower ws = ws := junk_lower _ (ws_junk h)

theorem is_formula_clean (k : Key) (st' : FormulaStyle) (ok' : StyleOk st') (hl' : isLowerStyle st' = true) :
    (105 :: 115 :: 32 :: renderFormula k st').all clean = true := by
  rw [show 105 :: 115 :: 32 :: renderFormula k st' = [105, 115, 32] ++ renderFormula k st' from rfl,
    List.all_append, formula_clean k _ ok' hl']
  rfl

section decorated
variable (k : Key) (hk : k ∈ allKeys) (st : FormulaStyle) (ok : StyleOk st)
include hk ok

/-- `not F` : any case of `not`, leading whitespace, one space (more spaces: in `st.j0`). -/
theorem formula_not_prefix {ws wN : Str} (hws : ws.all isSpace = true) (hN : lower wN = sNot) :
    normalize names (ws ++ wN ++ 32 :: renderFormula k st) = some (k.codes, true) := by
  have ok1 := styleOk_low ok
  have hl1 := isLower_low st
  have e0 : strip (lower (ws ++ wN ++ 32 :: renderFormula k st)) =
      [] ++ sNotSp ++ renderFormula k { lowStyle st with j7 := rstrip (lowStyle st).j7 } := by
    rw [lower_append, lower_append, lower_cons, lower_formula k st ok, lower_ws hws, hN]
    unfold strip
    have : ws ++ sNot ++ lowerC 32 :: renderFormula k (lowStyle st) =
        ws ++ 110 :: ([111, 116, 32] ++ renderFormula k (lowStyle st)) := by simp [sNot, lowerC]
    rw [this, lstrip_ws_cons hws _ _ (by rfl)]
    exact rstrip_app_formula k _ ok1 hl1 [110, 111, 116, 32]
  unfold normalize
  rw [e0, negation_not1 _ _ (by rfl) (formula_clean k _ (styleOk_r ok1) hl1)]
  exact after_negation k hk _ (styleOk_r ok1) hl1 true

/-- `F not` : any case of `not`, trailing whitespace, one space (more spaces: in `st.j7`). -/
theorem formula_not_suffix {ws wN : Str} (hws : ws.all isSpace = true) (hN : lower wN = sNot) :
    normalize names (renderFormula k st ++ 32 :: wN ++ ws) = some (k.codes, true) := by
  have ok1 := styleOk_low ok
  have hl1 := isLower_low st
  have e0 : strip (lower (renderFormula k st ++ 32 :: wN ++ ws)) =
      renderFormula k { lowStyle st with j0 := lstrip (lowStyle st).j0 } ++ sSpNot := by
    rw [lower_append, lower_append, lower_cons, lower_formula k st ok, lower_ws hws, hN]
    unfold strip
    rw [List.append_assoc, lstrip_formula_app k _ hl1]
    have := rstrip_snoc_ws (renderFormula k { lowStyle st with j0 := lstrip (lowStyle st).j0 } ++ [32, 110, 111])
      116 hws (by rfl)
    simpa [sNot, sSpNot, lowerC] using this
  unfold normalize
  rw [e0, negation_not2 _ (formula_clean k _ (styleOk_l ok1) hl1)]
  exact after_negation k hk _ (styleOk_l ok1) hl1 true

/-- `is F` : the verb is ignored. -/
theorem formula_is_prefix {ws wI : Str} (hws : ws.all isSpace = true) (hI : lower wI = sIs) :
    normalize names (ws ++ wI ++ 32 :: renderFormula k st) = some (k.codes, false) := by
  have ok1 := styleOk_low ok
  have hl1 := isLower_low st
  have e0 : strip (lower (ws ++ wI ++ 32 :: renderFormula k st)) =
      105 :: 115 :: 32 :: renderFormula k { lowStyle st with j7 := rstrip (lowStyle st).j7 } := by
    rw [lower_append, lower_append, lower_cons, lower_formula k st ok, lower_ws hws, hI]
    unfold strip
    have : ws ++ sIs ++ lowerC 32 :: renderFormula k (lowStyle st) =
        ws ++ 105 :: ([115, 32] ++ renderFormula k (lowStyle st)) := by simp [sIs, lowerC]
    rw [this, lstrip_ws_cons hws _ _ (by rfl)]
    exact rstrip_app_formula k _ ok1 hl1 [105, 115, 32]
  unfold normalize
  rw [e0, negation_clean _ (is_formula_clean k _ (styleOk_r ok1) hl1)]
  exact finish_is_prefix k hk _ (styleOk_r ok1) hl1 false (ws := []) rfl

/-- `F is` : the verb is ignored. -/
theorem formula_is_suffix {ws wI : Str} (hws : ws.all isSpace = true) (hI : lower wI = sIs) :
    normalize names (renderFormula k st ++ 32 :: wI ++ ws) = some (k.codes, false) := by
  have ok1 := styleOk_low ok
  have hl1 := isLower_low st
  have e0 : strip (lower (renderFormula k st ++ 32 :: wI ++ ws)) =
      renderFormula k { lowStyle st with j0 := lstrip (lowStyle st).j0 } ++ [32, 105, 115] := by
    rw [lower_append, lower_append, lower_cons, lower_formula k st ok, lower_ws hws, hI]
    unfold strip
    rw [List.append_assoc, lstrip_formula_app k _ hl1]
    have := rstrip_snoc_ws (renderFormula k { lowStyle st with j0 := lstrip (lowStyle st).j0 } ++ [32, 105])
      115 hws (by rfl)
    simpa [sIs, lowerC] using this
  have hc : (renderFormula k { lowStyle st with j0 := lstrip (lowStyle st).j0 } ++ [32, 105, 115]).all clean
      = true := by
    rw [List.all_append, formula_clean k _ (styleOk_l ok1) hl1]; rfl
  unfold normalize
  rw [e0, negation_clean _ hc]
  exact finish_is_suffix k hk _ (styleOk_l ok1) hl1 false (ws := []) rfl

/-- `is not F` (whitespace `ws2` after the first space following `is`). -/
theorem formula_is_not_prefix {ws ws2 wI wN : Str} (hws : ws.all isSpace = true)
    (hws2 : ws2.all isSpace = true) (hI : lower wI = sIs) (hN : lower wN = sNot) :
    normalize names (ws ++ wI ++ 32 :: ws2 ++ wN ++ 32 :: renderFormula k st) = some (k.codes, true) := by
  have ok1 := styleOk_low ok
  have hl1 := isLower_low st
  have e0 : strip (lower (ws ++ wI ++ 32 :: ws2 ++ wN ++ 32 :: renderFormula k st)) =
      (105 :: 115 :: 32 :: ws2) ++ sNotSp ++
        renderFormula k { lowStyle st with j7 := rstrip (lowStyle st).j7 } := by
    have : lower (ws ++ wI ++ 32 :: ws2 ++ wN ++ 32 :: renderFormula k st) =
        ws ++ 105 :: ((115 :: 32 :: ws2 ++ [110, 111, 116, 32]) ++ renderFormula k (lowStyle st)) := by
      simp [lower_append, lower_cons, lower_formula k st ok, lower_ws hws, lower_ws hws2, hI, hN, sIs, sNot, lowerC]
    unfold strip
    rw [this, lstrip_ws_cons hws _ _ (by rfl)]
    have := rstrip_app_formula k _ ok1 hl1 (105 :: 115 :: 32 :: ws2 ++ [110, 111, 116, 32])
    simpa [sNotSp] using this
  have hP : (105 :: 115 :: 32 :: ws2).all clean = true := by
    rw [show 105 :: 115 :: 32 :: ws2 = [105, 115, 32] ++ ws2 from rfl, List.all_append, ws_clean hws2]; rfl
  unfold normalize
  rw [e0, negation_not1 _ _ hP (formula_clean k _ (styleOk_r ok1) hl1)]
  have e1 : (105 :: 115 :: 32 :: ws2) ++ renderFormula k { lowStyle st with j7 := rstrip (lowStyle st).j7 } =
      [] ++ 105 :: 115 :: 32 :: renderFormula k
        { lowStyle st with j7 := rstrip (lowStyle st).j7, j0 := ws2 ++ (lowStyle st).j0 } := by
    have := prepend_junk k { lowStyle st with j7 := rstrip (lowStyle st).j7 } ws2
    simp only [List.cons_append, List.nil_append, this]
  rw [e1]
  exact finish_is_prefix k hk _ (styleOk_pre (styleOk_r ok1) (ws_junk hws2)) hl1 true (ws := []) rfl

/-- `is F not`. -/
theorem formula_is_prefix_not_suffix {ws ws' wI wN : Str} (hws : ws.all isSpace = true)
    (hws' : ws'.all isSpace = true) (hI : lower wI = sIs) (hN : lower wN = sNot) :
    normalize names (ws ++ wI ++ 32 :: renderFormula k st ++ 32 :: wN ++ ws') = some (k.codes, true) := by
  have ok1 := styleOk_low ok
  have hl1 := isLower_low st
  have e0 : strip (lower (ws ++ wI ++ 32 :: renderFormula k st ++ 32 :: wN ++ ws')) =
      (105 :: 115 :: 32 :: renderFormula k (lowStyle st)) ++ sSpNot := by
    rw [lower_append, lower_append, lower_append, lower_cons, lower_append, lower_cons, lower_formula k st ok,
      lower_ws hws, lower_ws hws', hI, hN]
    unfold strip
    have : ws ++ sIs ++ lowerC 32 :: renderFormula k (lowStyle st) ++ lowerC 32 :: sNot ++ ws' =
        ws ++ 105 :: ((115 :: 32 :: renderFormula k (lowStyle st) ++ [32, 110, 111]) ++ 116 :: ws') := by
      simp [sIs, sNot, lowerC]
    rw [this, lstrip_ws_cons hws _ _ (by rfl)]
    have := rstrip_snoc_ws (105 :: (115 :: 32 :: renderFormula k (lowStyle st) ++ [32, 110, 111])) 116 hws' (by rfl)
    simpa [sSpNot] using this
  unfold normalize
  rw [e0, negation_not2 _ (is_formula_clean k _ ok1 hl1)]
  exact finish_is_prefix k hk _ ok1 hl1 true (ws := []) rfl

/-- `F is not` (whitespace `ws2` between `is` and the space preceding `not`). -/
theorem formula_is_not_suffix {ws ws2 wI wN : Str} (hws : ws.all isSpace = true)
    (hws2 : ws2.all isSpace = true) (hI : lower wI = sIs) (hN : lower wN = sNot) :
    normalize names (renderFormula k st ++ 32 :: wI ++ ws2 ++ 32 :: wN ++ ws) = some (k.codes, true) := by
  have ok1 := styleOk_low ok
  have hl1 := isLower_low st
  have e0 : strip (lower (renderFormula k st ++ 32 :: wI ++ ws2 ++ 32 :: wN ++ ws)) =
      (renderFormula k { lowStyle st with j0 := lstrip (lowStyle st).j0 } ++ 32 :: 105 :: 115 :: ws2) ++ sSpNot := by
    rw [lower_append, lower_append, lower_append, lower_append, lower_cons, lower_cons, lower_formula k st ok,
      lower_ws hws, lower_ws hws2, hI, hN]
    unfold strip
    rw [List.append_assoc, List.append_assoc, List.append_assoc, lstrip_formula_app k _ hl1]
    have := rstrip_snoc_ws (renderFormula k { lowStyle st with j0 := lstrip (lowStyle st).j0 } ++
      (32 :: 105 :: 115 :: ws2 ++ [32, 110, 111])) 116 hws (by rfl)
    simpa [sIs, sNot, sSpNot, lowerC] using this
  have hc : (renderFormula k { lowStyle st with j0 := lstrip (lowStyle st).j0 } ++ 32 :: 105 :: 115 :: ws2).all clean
      = true := by
    rw [List.all_append, formula_clean k _ (styleOk_l ok1) hl1,
      show 32 :: 105 :: 115 :: ws2 = [32, 105, 115] ++ ws2 from rfl, List.all_append, ws_clean hws2]; rfl
  unfold normalize
  rw [e0, negation_not2 _ hc]
  exact finish_is_suffix k hk _ (styleOk_l ok1) hl1 true hws2

/-- `! is F`. -/
theorem formula_bang_is_prefix {ws ws2 wI : Str} (hws : ws.all isSpace = true)
    (hws2 : ws2.all isSpace = true) (hI : lower wI = sIs) :
    normalize names (ws ++ 33 :: ws2 ++ wI ++ 32 :: renderFormula k st) = some (k.codes, true) := by
  have ok1 := styleOk_low ok
  have hl1 := isLower_low st
  have e0 : strip (lower (ws ++ 33 :: ws2 ++ wI ++ 32 :: renderFormula k st)) =
      33 :: (ws2 ++ 105 :: 115 :: 32 :: renderFormula k { lowStyle st with j7 := rstrip (lowStyle st).j7 }) := by
    have : lower (ws ++ 33 :: ws2 ++ wI ++ 32 :: renderFormula k st) =
        ws ++ 33 :: ((ws2 ++ [105, 115, 32]) ++ renderFormula k (lowStyle st)) := by
      simp [lower_append, lower_cons, lower_formula k st ok, lower_ws hws, lower_ws hws2, hI, sIs, lowerC]
    unfold strip
    rw [this, lstrip_ws_cons hws _ _ (by rfl)]
    have := rstrip_app_formula k _ ok1 hl1 (33 :: (ws2 ++ [105, 115, 32]))
    simpa using this
  unfold normalize
  rw [e0, negation_bang]
  exact finish_is_prefix k hk _ (styleOk_r ok1) hl1 true hws2

/-- `! F is`. -/
theorem formula_bang_is_suffix {ws ws' wI : Str} (hws : ws.all isSpace = true)
    (hws' : ws'.all isSpace = true) (hI : lower wI = sIs) :
    normalize names (ws ++ 33 :: renderFormula k st ++ 32 :: wI ++ ws') = some (k.codes, true) := by
  have ok1 := styleOk_low ok
  have hl1 := isLower_low st
  have e0 : strip (lower (ws ++ 33 :: renderFormula k st ++ 32 :: wI ++ ws')) =
      33 :: (renderFormula k (lowStyle st) ++ 32 :: 105 :: 115 :: []) := by
    rw [lower_append, lower_append, lower_cons, lower_append, lower_cons, lower_formula k st ok, lower_ws hws,
      lower_ws hws', hI]
    unfold strip
    have : ws ++ lowerC 33 :: renderFormula k (lowStyle st) ++ lowerC 32 :: sIs ++ ws' =
        ws ++ 33 :: ((renderFormula k (lowStyle st) ++ [32, 105]) ++ 115 :: ws') := by
      simp [sIs, lowerC]
    rw [this, lstrip_ws_cons hws _ _ (by rfl)]
    have := rstrip_snoc_ws (33 :: (renderFormula k (lowStyle st) ++ [32, 105])) 115 hws' (by rfl)
    simpa using this
  unfold normalize
  rw [e0, negation_bang]
  exact finish_is_suffix k hk _ ok1 hl1 true (ws := []) rfl

/-- `not is F`. -/
theorem formula_not_is_prefix {ws ws2 wI wN : Str} (hws : ws.all isSpace = true)
    (hws2 : ws2.all isSpace = true) (hI : lower wI = sIs) (hN : lower wN = sNot) :
    normalize names (ws ++ wN ++ 32 :: ws2 ++ wI ++ 32 :: renderFormula k st) = some (k.codes, true) := by
  have ok1 := styleOk_low ok
  have hl1 := isLower_low st
  have e0 : strip (lower (ws ++ wN ++ 32 :: ws2 ++ wI ++ 32 :: renderFormula k st)) =
      [] ++ sNotSp ++
        (ws2 ++ 105 :: 115 :: 32 :: renderFormula k { lowStyle st with j7 := rstrip (lowStyle st).j7 }) := by
    have : lower (ws ++ wN ++ 32 :: ws2 ++ wI ++ 32 :: renderFormula k st) =
        ws ++ 110 :: ((111 :: 116 :: 32 :: ws2 ++ [105, 115, 32]) ++ renderFormula k (lowStyle st)) := by
      simp [lower_append, lower_cons, lower_formula k st ok, lower_ws hws, lower_ws hws2, hI, hN, sIs, sNot, lowerC]
    unfold strip
    rw [this, lstrip_ws_cons hws _ _ (by rfl)]
    have := rstrip_app_formula k _ ok1 hl1 (110 :: 111 :: 116 :: 32 :: ws2 ++ [105, 115, 32])
    simpa [sNotSp] using this
  have hX : (ws2 ++ 105 :: 115 :: 32 :: renderFormula k { lowStyle st with j7 := rstrip (lowStyle st).j7 }).all clean
      = true := by
    rw [List.all_append, ws_clean hws2, is_formula_clean k _ (styleOk_r ok1) hl1]; rfl
  unfold normalize
  rw [e0, negation_not1 _ _ (by rfl) hX]
  exact finish_is_prefix k hk _ (styleOk_r ok1) hl1 true hws2

end decorated

/-! ### Names -/

/-- `normalize` after `lower` and the first `strip`. -/
def normalizeLow (nm : List (Codes × Codes)) (p : Str) : Option (Codes × Bool) :=
  let r := negation p
  finish nm r.1 r.2

theorem normalize_eq (nm : List (Codes × Codes)) (s : Str) :
    normalize nm s = normalizeLow nm (strip (lower s)) := rfl

/-- Non-empty, first and last characters not whitespace. -/
def tight (X : Str) : Bool :=
  (match X.head? with | some c => !isSpace c | none => false) &&
  (match X.getLast? with | some c => !isSpace c | none => false)

theorem strip_tight {ws ws' X : Str} (hws : ws.all isSpace = true) (hws' : ws'.all isSpace = true)
    (hX : tight X = true) : strip (ws ++ X ++ ws') = X := by
  unfold tight at hX
  cases X with
  | nil => simp at hX
  | cons c r =>
    simp only [List.head?_cons, Bool.and_eq_true, Bool.not_eq_true'] at hX
    obtain ⟨hc, hd⟩ := hX
    split at hd
    · rename_i d hlast
      simp only [Bool.not_eq_true'] at hd
      obtain ⟨ys, hys⟩ := List.getLast?_eq_some_iff.mp hlast
      unfold strip
      rw [show ws ++ c :: r ++ ws' = ws ++ c :: (r ++ ws') by simp, lstrip_ws_cons hws _ _ hc,
        show c :: (r ++ ws') = (c :: r) ++ ws' by simp, hys,
        show ys ++ [d] ++ ws' = ys ++ d :: ws' by simp, rstrip_snoc_ws _ _ hws' hd]
    · cases hd

def notUpper (c : Nat) : Bool := !(65 ≤ c && c ≤ 90)

theorem renderName_lower_aux (n : Codes) (hn : n.all notUpper = true) :
    ∀ m : List Bool, n.length ≤ m.length →
      lower ((n.zip m).map fun (c, up) => if up && 97 ≤ c && c ≤ 122 then c - 32 else c) = n := by
  induction n with
  | nil => intro m _; rfl
  | cons c t ih =>
    intro m hm
    cases m with
    | nil => simp at hm
    | cons b m' =>
      simp only [List.all_cons, Bool.and_eq_true] at hn
      have hc := hn.1
      simp only [notUpper, Bool.not_eq_true', Bool.and_eq_false_iff, decide_eq_false_iff_not] at hc
      simp only [List.zip_cons_cons, List.map_cons, lower_cons]
      rw [ih hn.2 m' (by simpa using hm)]
      congr 1
      unfold lowerC
      split <;> rename_i h1
      · simp only [Bool.and_eq_true, decide_eq_true_eq] at h1
        split <;> omega
      · split <;> omega

/-- Whatever the case mask, lower-casing a rendered name gives the name back. -/
theorem renderName_lower (n : Codes) (mask : List Bool) (hn : n.all notUpper = true) :
    lower (renderName n mask) = n := by
  unfold renderName
  exact renderName_lower_aux n hn _ (by simp)

theorem aliases_lower : aliases.all (fun p => p.1.all notUpper) = true := by decide +kernel

def nameRow (d : Str × Str × Bool) : Bool :=
  aliases.all fun p =>
    tight (d.1 ++ p.1 ++ d.2.1) && normalizeLow names (d.1 ++ p.1 ++ d.2.1) == some (p.2.codes, d.2.2)

theorem nameTable_a : (coreDecorations.take 6).all nameRow = true := by decide +kernel
theorem nameTable_b : (coreDecorations.drop 6).all nameRow = true := by decide +kernel

theorem nameTable (d : Str × Str × Bool) (hd : d ∈ coreDecorations) : nameRow d = true := by
  rw [← List.take_append_drop 6 coreDecorations] at hd
  rcases List.mem_append.mp hd with h | h
  · exact List.all_eq_true.mp nameTable_a d h
  · exact List.all_eq_true.mp nameTable_b d h

/-- **Names, all cases, all decorations.** `w` is ANY string whose lower-casing is the decorated
name (so: every case mask of the name and of the words `is`/`not`); `ws`, `ws'` any whitespace. -/
theorem name_decorated (n : Codes) (k : Key) (h : (n, k) ∈ aliases) (d : Str × Str × Bool)
    (hd : d ∈ coreDecorations) {w ws ws' : Str} (hw : lower w = d.1 ++ n ++ d.2.1)
    (hws : ws.all isSpace = true) (hws' : ws'.all isSpace = true) :
    normalize names (ws ++ w ++ ws') = some (k.codes, d.2.2) := by
  have row := List.all_eq_true.mp (nameTable d hd) (n, k) h
  simp only [Bool.and_eq_true, beq_iff_eq] at row
  rw [normalize_eq, lower_append, lower_append, lower_ws hws, lower_ws hws', hw, strip_tight hws hws' row.1]
  exact row.2

def specRow (d : Str × Str × Bool) : Bool :=
  aliases.all fun p =>
    normalizeLow names (strip (lower d.1 ++ p.1 ++ lower d.2.1)) == some (p.2.codes, d.2.2)

theorem specTable_a : (decorations.take 6).all specRow = true := by decide +kernel
theorem specTable_b : ((decorations.drop 6).take 6).all specRow = true := by decide +kernel
theorem specTable_c : ((decorations.drop 6).drop 6).all specRow = true := by decide +kernel

theorem specTable (d : Str × Str × Bool) (hd : d ∈ decorations) : specRow d = true := by
  rw [← List.take_append_drop 6 decorations] at hd
  rcases List.mem_append.mp hd with h | h
  · exact List.all_eq_true.mp specTable_a d h
  · rw [← List.take_append_drop 6 (decorations.drop 6)] at h
    rcases List.mem_append.mp h with h | h
    · exact List.all_eq_true.mp specTable_b d h
    · exact List.all_eq_true.mp specTable_c d h

/-- Every decoration of the specification's list, around every case spelling of every name. -/
theorem name_spec_decorated (n : Codes) (k : Key) (h : (n, k) ∈ aliases) (d : Str × Str × Bool)
    (hd : d ∈ decorations) (mask : List Bool) :
    normalize names (d.1 ++ renderName n mask ++ d.2.1) = some (k.codes, d.2.2) := by
  have row := List.all_eq_true.mp (specTable d hd) (n, k) h
  have hn := List.all_eq_true.mp aliases_lower (n, k) h
  rw [normalize_eq, lower_append, lower_append, renderName_lower n mask hn]
  exact beq_iff_eq.mp row

/-! ### The specification's decoration list around formula spellings -/

/-- The specification's decoration list, spelled out in code points. -/
def decorationsExplicit : List (Str × Str × Bool) :=
  [ ([], [], false), ([32, 32], [32], false),
    ([105, 115, 32], [], false), ([], [32, 105, 115], false), ([32, 73, 83, 32], [32, 32], false),
    ([33], [], true), ([33, 32], [], true), ([32, 33, 32, 32], [32], true), ([33, 105, 115, 32], [], true),
    ([33, 32, 105, 115, 32], [], true),
    ([110, 111, 116, 32], [], true), ([78, 79, 84, 32], [], true),
    ([105, 115, 32, 110, 111, 116, 32], [], true), ([73, 115, 32, 78, 111, 116, 32], [32], true),
    ([], [32, 110, 111, 116], true), ([], [32, 105, 115, 32, 110, 111, 116], true),
    ([105, 115, 32], [32, 110, 111, 116], true), ([32], [32, 78, 79, 84, 32], true) ]

theorem decorations_explicit : decorations = decorationsExplicit := by decide +kernel

/-- `not F` with `a` leading spaces and `b+1` spaces after `not` (the form of the task statement). -/
theorem formula_not_prefix_spaces (k : Key) (hk : k ∈ allKeys) (st : FormulaStyle) (ok : StyleOk st) (a b : Nat) :
    normalize names (List.replicate a 32 ++ sNot ++ List.replicate (b + 1) 32 ++ renderFormula k st) =
      some (k.codes, true) := by
  have := formula_not_prefix k hk _ (styleOk_pre ok (spaces_junk b)) (ws := List.replicate a 32) (wN := sNot)
    (by simp [List.all_replicate, isSpace]) rfl
  rw [← prepend_junk] at this
  simpa [List.replicate_succ] using this

/-- **Every decoration of the specification's list around every formula spelling.** -/
theorem formula_spec_decorated (k : Key) (hk : k ∈ allKeys) (st : FormulaStyle) (ok : StyleOk st)
    (d : Str × Str × Bool) (hd : d ∈ decorations) :
    normalize names (d.1 ++ renderFormula k st ++ d.2.1) = some (k.codes, d.2.2) := by
  rw [decorations_explicit] at hd
  simp only [decorationsExplicit, List.mem_cons, List.not_mem_nil, or_false] at hd
  have j1 : ([32] : Str).all junkChar = true := rfl
  have j2 : ([32, 32] : Str).all junkChar = true := rfl
  rcases hd with rfl | rfl | rfl | rfl | rfl | rfl | rfl | rfl | rfl | rfl | rfl | rfl | rfl | rfl | rfl | rfl | rfl | rfl
  · simpa using normalize_formula' k hk st ok
  · have := normalize_formula' k hk _ (styleOk_pre (styleOk_post ok j1) j2)
    rw [← prepend_junk, ← append_junk] at this
    simpa using this
  · simpa using formula_is_prefix k hk st ok (ws := []) (wI := [105, 115]) rfl rfl
  · simpa using formula_is_suffix k hk st ok (ws := []) (wI := [105, 115]) rfl rfl
  · have := formula_is_prefix k hk _ (styleOk_post ok j2) (ws := [32]) (wI := [73, 83]) rfl rfl
    rw [← append_junk] at this
    simpa using this
  · simpa using normalize_formula_bang' k hk st ok 0 0
  · simpa using normalize_formula_bang' k hk st ok 0 1
  · have := normalize_formula_bang' k hk _ (styleOk_post ok j1) 1 2
    rw [← append_junk] at this
    simpa using this
  · simpa using formula_bang_is_prefix k hk st ok (ws := []) (ws2 := []) (wI := [105, 115]) rfl rfl rfl
  · simpa using formula_bang_is_prefix k hk st ok (ws := []) (ws2 := [32]) (wI := [105, 115]) rfl rfl rfl
  · simpa using formula_not_prefix k hk st ok (ws := []) (wN := [110, 111, 116]) rfl rfl
  · simpa using formula_not_prefix k hk st ok (ws := []) (wN := [78, 79, 84]) rfl rfl
  · simpa using formula_is_not_prefix k hk st ok (ws := []) (ws2 := []) (wI := [105, 115]) (wN := [110, 111, 116])
      rfl rfl rfl rfl
  · have := formula_is_not_prefix k hk _ (styleOk_post ok j1) (ws := []) (ws2 := []) (wI := [73, 115])
      (wN := [78, 111, 116]) rfl rfl rfl rfl
    rw [← append_junk] at this
    simpa using this
  · simpa using formula_not_suffix k hk st ok (ws := []) (wN := [110, 111, 116]) rfl rfl
  · simpa using formula_is_not_suffix k hk st ok (ws := []) (ws2 := []) (wI := [105, 115]) (wN := [110, 111, 116])
      rfl rfl rfl rfl
  · simpa using formula_is_prefix_not_suffix k hk st ok (ws := []) (ws' := []) (wI := [105, 115])
      (wN := [110, 111, 116]) rfl rfl rfl rfl
  · have := formula_not_suffix k hk _ (styleOk_pre ok j1) (ws := [32]) (wN := [78, 79, 84]) rfl rfl
    rw [← prepend_junk] at this
    simpa using this

end Paroxy.NP
