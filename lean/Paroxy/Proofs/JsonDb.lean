/-
Glue between the database model (Model/MakeDb.lean) and the JSON text layer (Model/JsonText.lean):
`J.ok (dbToJson db)` is the string-by-string hygiene `dbOk db`, and `dbToJson` is injective on databases whose spans
are naturals.
-/
import Paroxy.Model.JsonDb
import Paroxy.Proofs.JsonText
namespace Paroxy.JsonDb
open Paroxy Paroxy.DB Paroxy.JsonText

theorem okList_map {α : Type} (f : α → J) (l : List α) : J.okList (l.map f) = l.all fun a => J.ok (f a) := by
  induction l with
  | nil => simp [J.okList]
  | cons a t ih => simp [J.okList, ih]

theorem okMembers_map {α : Type} (f : α → J) (d : List (Name × α)) :
    J.okMembers (d.map fun e => (e.1, f e.2)) = d.all fun e => strOk e.1 && J.ok (f e.2) := by
  induction d with
  | nil => simp [J.okMembers]
  | cons a t ih => simp [J.okMembers, ih]

theorem ok_spansToJson (l : List PoorSpan) : J.ok (spansToJson l) = true := by
  simp [spansToJson, J.ok, okList_map, spanToJson, J.okList]

theorem ok_namesToJson (l : List Name) : J.ok (namesToJson l) = namesOk l := by
  simp [namesToJson, J.ok, okList_map, namesOk]

theorem ok_spanDictToJson (d : List (Name × List PoorSpan)) : J.ok (spanDictToJson d) = spanDictOk d := by
  simp [spanDictToJson, J.ok, okMembers_map, ok_spansToJson, spanDictOk]

theorem ok_nameDictToJson (d : List (Name × List Name)) : J.ok (nameDictToJson d) = nameDictOk d := by
  simp [nameDictToJson, J.ok, okMembers_map, ok_namesToJson, nameDictOk]

theorem strOk_keys : strOk kPrograms = true ∧ strOk kLabels = true ∧ strOk kTaxa = true ∧ strOk kImportations = true ∧
    strOk kExportations = true ∧ strOk kTimestamp = true ∧ strOk kSource = true := by decide +kernel

theorem ok_recordToJson (r : Record) : J.ok (recordToJson r) = recordOk r := by
  obtain ⟨_, h2, h3, _, _, h6, h7⟩ := strOk_keys
  simp [recordToJson, J.ok, J.okMembers, ok_spanDictToJson, recordOk, h2, h3, h6, h7, Bool.and_assoc]

theorem ok_programsToJson (d : List (Name × Record)) :
    J.ok (programsToJson d) = d.all fun e => strOk e.1 && recordOk e.2 := by
  simp [programsToJson, J.ok, okMembers_map, ok_recordToJson]

/-- the hygiene hypothesis of the JSON round trip, on a database: exactly the string-by-string check. -/
theorem ok_dbToJson (db : Db) : J.ok (dbToJson db) = dbOk db := by
  obtain ⟨h1, h2, h3, h4, h5, _, _⟩ := strOk_keys
  simp [dbToJson, J.ok, J.okMembers, ok_programsToJson, ok_nameDictToJson, dbOk, h1, h2, h3, h4, h5, Bool.and_assoc]

/-! ## Injectivity: the JSON value determines the records (spans being naturals) -/

theorem map_inj_on {α β : Type} (f : α → β) : ∀ (l1 l2 : List α),
    (∀ a ∈ l1, ∀ b ∈ l2, f a = f b → a = b) → l1.map f = l2.map f → l1 = l2
  | [], [], _, _ => rfl
  | [], _ :: _, _, h => by simp at h
  | _ :: _, [], _, h => by simp at h
  | a :: t1, b :: t2, hi, h => by
    simp only [List.map_cons, List.cons.injEq] at h
    have hab := hi a List.mem_cons_self b List.mem_cons_self h.1
    have ht := map_inj_on f t1 t2 (fun x hx y hy => hi x (List.mem_cons_of_mem _ hx) y (List.mem_cons_of_mem _ hy)) h.2
    rw [hab, ht]

theorem spanToJson_inj {a b : PoorSpan} (ha : spanNat a) (hb : spanNat b) (h : spanToJson a = spanToJson b) : a = b := by
  obtain ⟨a1, a2⟩ := a
  obtain ⟨b1, b2⟩ := b
  simp only [spanToJson, J.arr.injEq, List.cons.injEq, J.num.injEq, and_true] at h
  simp only [spanNat] at ha hb
  obtain ⟨h1, h2⟩ := h
  have e1 : a1 = b1 := by omega
  have e2 : a2 = b2 := by omega
  rw [e1, e2]

theorem spansToJson_inj {l1 l2 : List PoorSpan} (h1 : ∀ s ∈ l1, spanNat s) (h2 : ∀ s ∈ l2, spanNat s)
    (h : spansToJson l1 = spansToJson l2) : l1 = l2 := by
  simp only [spansToJson, J.arr.injEq] at h
  exact map_inj_on _ _ _ (fun a ha b hb => spanToJson_inj (h1 a ha) (h2 b hb)) h

theorem namesToJson_inj {l1 l2 : List Name} (h : namesToJson l1 = namesToJson l2) : l1 = l2 := by
  simp only [namesToJson, J.arr.injEq] at h
  exact map_inj_on _ _ _ (fun a _ b _ hab => by simpa using hab) h

theorem nameDictToJson_inj {d1 d2 : List (Name × List Name)} (h : nameDictToJson d1 = nameDictToJson d2) : d1 = d2 := by
  simp only [nameDictToJson, J.obj.injEq] at h
  refine map_inj_on _ _ _ (fun a _ b _ hab => ?_) h
  simp only [Prod.mk.injEq] at hab
  exact Prod.ext hab.1 (namesToJson_inj hab.2)

theorem spanDictToJson_inj {d1 d2 : List (Name × List PoorSpan)} (h1 : spanDictNat d1) (h2 : spanDictNat d2)
    (h : spanDictToJson d1 = spanDictToJson d2) : d1 = d2 := by
  simp only [spanDictToJson, J.obj.injEq] at h
  refine map_inj_on _ _ _ (fun a ha b hb hab => ?_) h
  simp only [Prod.mk.injEq] at hab
  exact Prod.ext hab.1 (spansToJson_inj (h1 a ha) (h2 b hb) hab.2)

theorem recordToJson_inj {r1 r2 : Record} (h1 : spanDictNat r1.labels ∧ spanDictNat r1.taxa)
    (h2 : spanDictNat r2.labels ∧ spanDictNat r2.taxa) (h : recordToJson r1 = recordToJson r2) : r1 = r2 := by
  obtain ⟨t1, s1, l1, x1⟩ := r1
  obtain ⟨t2, s2, l2, x2⟩ := r2
  simp only [recordToJson, J.obj.injEq, List.cons.injEq, Prod.mk.injEq, J.str.injEq, true_and, and_true] at h
  obtain ⟨ht, hs, hl, hx⟩ := h
  have e1 : l1 = l2 := spanDictToJson_inj h1.1 h2.1 hl
  have e2 : x1 = x2 := spanDictToJson_inj h1.2 h2.2 hx
  rw [ht, hs, e1, e2]

/-- two databases (spans being naturals) with the same JSON value are the same database. -/
theorem dbToJson_inj {a b : Db} (ha : spansNat a) (hb : spansNat b) (h : dbToJson a = dbToJson b) : a = b := by
  obtain ⟨p1, l1, t1, i1, e1⟩ := a
  obtain ⟨p2, l2, t2, i2, e2⟩ := b
  simp only [dbToJson, J.obj.injEq, List.cons.injEq, Prod.mk.injEq, true_and, and_true] at h
  obtain ⟨hp, hl, ht, hi, he⟩ := h
  have hp' : p1 = p2 := by
    simp only [programsToJson, J.obj.injEq] at hp
    refine map_inj_on _ _ _ (fun x hx y hy hxy => ?_) hp
    simp only [Prod.mk.injEq] at hxy
    exact Prod.ext hxy.1 (recordToJson_inj (ha x hx) (hb y hy) hxy.2)
  rw [hp', nameDictToJson_inj hl, nameDictToJson_inj ht, nameDictToJson_inj hi, nameDictToJson_inj he]

/-! ## A small `makeDb` output (non-vacuity): `a.py` imports `b.py` -/

def demoTaxa : Name → List Label → List Taxon :=
  fun _ ls => ls.map fun l => (⟨codesOf "T/" ++ l.name, l.spans⟩ : Taxon)
def demoA : Prog := ⟨codesOf "a.py", codesOf "2021", codesOf "import b\nx = \"é\"\n",
  [⟨codesOf "import:b", [(1, 1, codesOf "a.py")]⟩, ⟨codesOf "flow", [(2, 3, []), (2, 2, [])]⟩]⟩
def demoB : Prog := ⟨codesOf "b.py", codesOf "2021", codesOf "pass\n", [⟨codesOf "noop", [(1, 1, [])]⟩]⟩
def demoProgs : List Prog := [demoA, demoB]
def demoImps : List (Name × List Name) := [(codesOf "a.py", [codesOf "b.py"]), (codesOf "b.py", [])]
def demoExps : List (Name × List Name) := [(codesOf "a.py", []), (codesOf "b.py", [codesOf "a.py"])]
def demoOut : Db :=
  { programs := demoProgs.foldl (fun d p => set d p.path (recordOf demoTaxa (internalOf demoProgs) p)) []
    labels := sortKeys (collectNew (labelOcc (labelled demoProgs)))
    taxa := sortKeys (collect (taxonOcc (taxaed demoTaxa demoProgs)))
    importations := demoImps
    exportations := demoExps }

theorem demo_imps : completeImportations (directImportations (labelled demoProgs)) = demoImps := by
  have hd : directImportations (labelled demoProgs) = demoImps := by decide +kernel
  rw [hd]
  have s1 : succs demoImps (codesOf "a.py") = [codesOf "b.py"] := by decide +kernel
  have s2 : succs demoImps (codesOf "b.py") = [] := by decide +kernel
  have ne : codesOf "b.py" ∉ ([] : List Name) := by simp
  simp only [completeImportations, demoImps, List.map, closureOf]
  rw [show ([(codesOf "a.py", [codesOf "b.py"]), (codesOf "b.py", [])] : List (Name × List Name)) = demoImps from rfl, s1, s2]
  simp only [List.reverse_cons, List.reverse_nil, List.nil_append]
  rw [closureLoop, closureLoop, if_neg ne, s2, List.reverse_nil, List.nil_append, closureLoop]
  decide +kernel

/-- `makeDb` on the two demonstration programs (the closure is a well-founded recursion: unfolded by hand). -/
theorem demo_makeDb : makeDb demoTaxa demoProgs = .ok demoOut := by
  have he : exportations (demoProgs.map (·.path)) demoImps = .ok demoExps := by
    have h1 : (exportations (demoProgs.map (·.path)) demoImps).toOption = some demoExps := by decide +kernel
    cases h : exportations (demoProgs.map (·.path)) demoImps with
    | error e => rw [h] at h1; cases h1
    | ok x => rw [h] at h1; simp only [Except.toOption, Option.some.injEq] at h1; rw [h1]
  unfold makeDb
  simp only []
  rw [demo_imps, he]
  rfl

end Paroxy.JsonDb
