/-
Glue between the database model (Model/MakeDb.lean) and the JSON text layer (Model/JsonText.lean):
`J.ok (dbToJson db)` is the string-by-string hygiene `dbOk db`, and `dbToJson` is injective on databases whose spans
are naturals.
-/
import Paroxy.Model.JsonDb
import Paroxy.Proofs.JsonText
namespace Paroxy.JsonDb
open Paroxy Paroxy.DB Paroxy.JsonText

theorem okList_map {α : Type} (f : α → J) (l : List α) : J.okList (l.map f) = l.all fun a => J.ok (f a) := by
  induction l with
  | nil => simp [J.okList]
  | cons a t ih => simp [J.okList, ih]

theorem okMembers_map {α : Type} (f : α → J) (d : List (Name × α)) :
    J.okMembers (d.map fun e => (e.1, f e.2)) = d.all fun e => strOk e.1 && J.ok (f e.2) := by
  induction d with
  | nil => simp [J.okMembers]
  | cons a t ih => simp [J.okMembers, ih]

theorem ok_spansToJson (l : List PoorSpan) : J.ok (spansToJson l) = true := by
  simp [spansToJson, J.ok, okList_map, spanToJson, J.okList]

theorem ok_namesToJson (l : List Name) : J.ok (namesToJson l) = namesOk l := by
  simp [namesToJson, J.ok, okList_map, namesOk]

theorem ok_spanDictToJson (d : List (Name × List PoorSpan)) : J.ok (spanDictToJson d) = spanDictOk d := by
  simp [spanDictToJson, J.ok, okMembers_map, ok_spansToJson, spanDictOk]

theorem ok_nameDictToJson (d : List (Name × List Name)) : J.ok (nameDictToJson d) = nameDictOk d := by
  simp [nameDictToJson, J.ok, okMembers_map, ok_namesToJson, nameDictOk]

theorem strOk_keys : strOk kPrograms = true ∧ strOk kLabels = true ∧ strOk kTaxa = true ∧ strOk kImportations = true ∧
    strOk kExportations = true ∧ strOk kTimestamp = true ∧ strOk kSource = true := by decide +kernel

theorem ok_recordToJson (r : Record) : J.ok (recordToJson r) = recordOk r := by
  obtain ⟨_, h2, h3, _, _, h6, h7⟩ := strOk_keys
  simp [recordToJson, J.ok, J.okMembers, ok_spanDictToJson, recordOk, h2, h3, h6, h7, Bool.and_assoc]

theorem ok_programsToJson (d : List (Name × Record)) :
    J.ok (programsToJson d) = d.all fun e => strOk e.1 && recordOk e.2 := by
  simp [programsToJson, J.ok, okMembers_map, ok_recordToJson]

/-- the hygiene hypothesis of the JSON round trip, on a database: exactly the string-by-string check. -/
theorem ok_dbToJson (db : Db) : J.ok (dbToJson db) = dbOk db := by
  obtain ⟨h1, h2, h3, h4, h5, _, _⟩ := strOk_keys
  simp [dbToJson, J.ok, J.okMembers, ok_programsToJson, ok_nameDictToJson, dbOk, h1, h2, h3, h4, h5, Bool.and_assoc]

end Paroxy.JsonDb
