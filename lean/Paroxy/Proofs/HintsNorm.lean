/-
Helper lemmas for C12: the first two steps of the repaired `get_program` — line-by-line
normalisation of the marker (a deterministic scan) and trimming of the blank ends — on the text
of a decorated program whose markers are spelled freely.
-/
import Paroxy.Proofs.HintsChars
import Mathlib.Tactic.IntervalCases
namespace Paroxy.Hints

variable {O : CharOracle}

/-! ### The scan on text without a match -/

theorem nstep_cont_ne_tail {st s : NState} {c : Char} (h : (nstep O) st c = .cont s) : s ≠ .tail := by
  unfold nstep at h
  split at h
  · cases h
  · cases st <;> simp only at h <;> (repeat' split at h) <;> (cases h <;> simp)

theorem nstep_drop {st : NState} {c : Char} (h : (nstep O) st c = .drop) : st = .tail := by
  unfold nstep at h
  split at h
  · cases h
  · cases st <;> simp only at h <;> (repeat' split at h) <;> (cases h <;> rfl)

/-- Text in which no attempt succeeds is copied as it is; a following `#` flushes what was pending. -/
theorem normGo_noaccept (a : Str) : ∀ (st : NState) (pend R : Str), st ≠ .tail → (scanAccepts O) st a = false →
    (normGo O) st pend (a ++ '#' :: R) = pend ++ a ++ (normGo O) .hash ['#'] R := by
  induction a with
  | nil => intro st pend R _ _; simp [normGo, nstep]
  | cons c t ih =>
    intro st pend R hst hacc
    simp only [List.cons_append, normGo]
    simp only [scanAccepts] at hacc
    cases hn : (nstep O) st c with
    | cont s =>
      simp only [hn] at hacc ⊢
      rw [ih s _ R (nstep_cont_ne_tail hn) hacc]; simp
    | reset =>
      simp only [hn] at hacc ⊢
      rw [ih .idle [] R (by simp) hacc]; simp
    | hash =>
      simp only [hn] at hacc ⊢
      rw [ih .hash ['#'] R (by simp) hacc]
      have : c = '#' := by
        unfold nstep at hn
        split at hn
        · assumption
        · cases st <;> simp only at hn <;> (repeat' split at hn) <;> cases hn
      subst this; simp
    | accept => simp [hn] at hacc
    | drop => exact absurd (nstep_drop hn) hst

theorem normGo_noaccept_end (a : Str) : ∀ (st : NState) (pend : Str), st ≠ .tail → (scanAccepts O) st a = false →
    (normGo O) st pend a = pend ++ a := by
  induction a with
  | nil => intro st pend _ _; simp [normGo]
  | cons c t ih =>
    intro st pend hst hacc
    simp only [normGo]
    simp only [scanAccepts] at hacc
    cases hn : (nstep O) st c with
    | cont s => simp only [hn] at hacc ⊢; rw [ih s _ (nstep_cont_ne_tail hn) hacc]; simp
    | reset => simp only [hn] at hacc ⊢; rw [ih .idle [] (by simp) hacc]; simp
    | hash =>
      simp only [hn] at hacc ⊢
      rw [ih .hash ['#'] (by simp) hacc]
      have : c = '#' := by
        unfold nstep at hn
        split at hn
        · assumption
        · cases st <;> simp only at hn <;> (repeat' split at hn) <;> cases hn
      subst this; simp
    | accept => simp [hn] at hacc
    | drop => exact absurd (nstep_drop hn) hst

theorem nstep_hash_sp : (nstep O) .hash ' ' = .cont .hash := by rfl
theorem nstep_after_sp : (nstep O) .after ' ' = .cont .after := by rfl
theorem nstep_tail_sp : (nstep O) .tail ' ' = .drop := by rfl
theorem nstep_idle_sp : (nstep O) .idle ' ' = .reset := by rfl
theorem nstep_letters_sp (k : Nat) : (nstep O) (.letters k) ' ' = if k < 10 then .reset else .cont .after := by
  by_cases h : k < 10
  · have : letterAt k ' ' = false := by
      interval_cases k <;> cdec
    simp [nstep, h, this]
  · simp [nstep, h, isSpaceRe]

/-- Spaces never complete a match. -/
theorem scanAccepts_replicate (n : Nat) : ∀ st, (scanAccepts O) st (List.replicate n ' ') = false := by
  induction n with
  | zero => intro st; rfl
  | succ n ih =>
    intro st
    rw [List.replicate_succ, scanAccepts]
    cases st with
    | idle => simp only [nstep_idle_sp]; exact ih _
    | hash => simp only [nstep_hash_sp]; exact ih _
    | letters k => by_cases hk : k < 10 <;> simp only [nstep_letters_sp, hk, if_true, if_false] <;> exact ih _
    | after => simp only [nstep_after_sp]; exact ih _
    | tail => simp only [nstep_tail_sp]; exact ih _

theorem scanAccepts_spaces (a : Str) (n : Nat) : ∀ st, (scanAccepts O) st a = false →
    (scanAccepts O) st (a ++ List.replicate n ' ') = false := by
  induction a with
  | nil => intro st _; exact scanAccepts_replicate n st
  | cons c t ih =>
    intro st h
    simp only [List.cons_append, scanAccepts] at h ⊢
    cases hn : (nstep O) st c <;> simp only [hn] at h ⊢ <;> first | exact ih _ h | cases h

/-- Without `#` nothing ever starts. -/
theorem normGo_idle_noHash (X : Str) (h : '#' ∉ X) : (normGo O) .idle [] X = X := by
  induction X with
  | nil => rfl
  | cons c t ih =>
    have hc : c ≠ '#' := fun e => h (by simp [e])
    simp [normGo, nstep, hc, ih (fun e => h (by simp [e]))]

theorem normGo_tail_noHash (X : Str) (h : '#' ∉ X) : (normGo O) .tail [] X = X.dropWhile (isSpaceRe O) := by
  induction X with
  | nil => rfl
  | cons c t ih =>
    have hc : c ≠ '#' := fun e => h (by simp [e])
    have ht : '#' ∉ t := fun e => h (by simp [e])
    by_cases hs : (isSpaceRe O) c = true
    · simp [normGo, nstep, hc, hs, ih ht]
    · simp [normGo, nstep, hc, hs, normGo_idle_noHash t ht]

/-! ### The scan on a spelled marker -/

theorem letterAt_spellAt (caps : Nat → Bool) (k : Nat) (hk : k < 10) : letterAt k (spellAt caps k) = true := by
  interval_cases k <;> (simp only [letterAt, spellAt, pletters]; cases caps _ <;> cdec)

theorem spellAt_ne_hash (caps : Nat → Bool) (k : Nat) (hk : k < 10) : spellAt caps k ≠ '#' := by
  interval_cases k <;> (simp only [spellAt, pletters]; cases caps _ <;> cdec)

theorem normGo_hash_spaces (n : Nat) (pend R : Str) :
    (normGo O) .hash pend (List.replicate n ' ' ++ R) = (normGo O) .hash (pend ++ List.replicate n ' ') R := by
  induction n generalizing pend with
  | zero => simp
  | succ n ih =>
    rw [List.replicate_succ, List.cons_append, normGo, nstep_hash_sp]
    simp only
    rw [ih]; simp

theorem normGo_letters (caps : Nat → Bool) (m : Nat) : ∀ (k : Nat) (pend R : Str), 1 ≤ k → k + m = 10 →
    (normGo O) (.letters k) pend ((List.range' k m).map (spellAt caps) ++ R) =
      (normGo O) (.letters 10) (pend ++ (List.range' k m).map (spellAt caps)) R := by
  induction m with
  | zero => intro k pend R _ hk; simp at hk; subst hk; simp
  | succ m ih =>
    intro k pend R h1 hk
    have hk10 : k < 10 := by omega
    rw [List.range'_succ, List.map_cons, List.cons_append, normGo]
    simp only [nstep, spellAt_ne_hash caps k hk10, if_false, hk10, if_true, letterAt_spellAt caps k hk10]
    rw [ih (k + 1) _ R (by omega) (by omega)]; simp

theorem normGo_after_spaces (n : Nat) (pend R : Str) :
    (normGo O) .after pend (List.replicate n ' ' ++ ':' :: R) = m14 ++ (normGo O) .tail [] R := by
  induction n generalizing pend with
  | zero => simp [normGo, nstep]
  | succ n ih =>
    rw [List.replicate_succ, List.cons_append, normGo, nstep_after_sp]
    exact ih _

/-- A marker in any tolerated spelling is replaced by the normalised one. -/
theorem normGo_marker (ms : MarkerStyle) (R : Str) :
    (normGo O) .hash ['#'] (List.replicate ms.sp1 ' ' ++ ((List.range 10).map (spellAt ms.caps) ++
      (List.replicate ms.sp2 ' ' ++ ':' :: R))) = m14 ++ (normGo O) .tail [] R := by
  rw [normGo_hash_spaces]
  have hr : List.range 10 = 0 :: List.range' 1 9 := by cdec
  have hns : (isSpaceRe O) (spellAt ms.caps 0) = false := by
    simp only [spellAt, pletters]; cases ms.caps 0 <;> cdec
  have hst : (nstep O) .hash (spellAt ms.caps 0) = .cont (.letters 1) := by
    simp [nstep, spellAt_ne_hash ms.caps 0 (by omega), letterAt_spellAt ms.caps 0 (by omega), hns]
  simp only [hr, List.map_cons, List.cons_append, normGo, hst]
  rw [normGo_letters ms.caps 9 1 _ _ (by omega) (by omega)]
  cases hsp : ms.sp2 with
  | zero => simp [normGo, nstep]
  | succ n =>
    simp only [List.replicate_succ, List.cons_append, normGo, nstep_letters_sp,
      show ¬ (10 < 10) by omega, if_false]
    exact normGo_after_spaces n _ R

theorem normGo_tail_spaces (n : Nat) (R : Str) : (normGo O) .tail [] (List.replicate n ' ' ++ R) = (normGo O) .tail [] R := by
  induction n with
  | zero => simp
  | succ n ih =>
    rw [List.replicate_succ, List.cons_append, normGo, nstep_tail_sp]
    simpa using ih

/-! ### No look-alike in the code implies no exact marker -/

theorem scanAccepts_m13 (st : NState) (suf : Str) : (scanAccepts O) st (m13 ++ suf) = true := by
  have h0 : (nstep O) st '#' = .hash := by simp [nstep]
  simp only [m13, List.cons_append, List.nil_append, scanAccepts, h0]
  simp [scanAccepts, nstep, isSpaceRe, letterAt, pletters]

theorem scanAccepts_infix (pre : Str) : ∀ st suf, (scanAccepts O) st (pre ++ (m13 ++ suf)) = true := by
  induction pre with
  | nil => intro st suf; exact scanAccepts_m13 st suf
  | cons c t ih =>
    intro st suf
    simp only [List.cons_append, scanAccepts]
    cases (nstep O) st c <;> simp only <;> first | exact ih _ _ | rfl

theorem noM13_of_noLoose (a : Str) (h : (noLoose O) a = true) : noM13 a = true := by
  simp only [noM13, Bool.not_eq_true', ← Bool.not_eq_true, hasInfix_iff]
  rintro ⟨pre, suf, rfl⟩
  simp only [noLoose, Bool.not_eq_true'] at h
  rw [List.append_assoc, scanAccepts_infix] at h
  cases h

/-! ### Normalising one line of a decorated program -/

theorem renderHint_gap (h : Hint) (g : Nat) :
    renderHint { h with style := { h.style with gap := g } } = renderHint h := by
  obtain ⟨mark, L, sty⟩ := h
  cases mark with
  | one s => cases s <;> rfl
  | opn s => cases s <;> rfl
  | cls => rfl

theorem noHash_iff (l : Str) : noHash l = true ↔ '#' ∉ l := by simp [noHash]

theorem renderHint_noHash (h : Hint) (hl : '#' ∉ h.label) : '#' ∉ renderHint h := by
  obtain ⟨mark, L, sty⟩ := h
  obtain ⟨plus, uni, gap⟩ := sty
  cases mark with
  | one s => cases s <;> cases plus <;> simp_all [renderHint, sign]
  | opn s => cases s <;> cases plus <;> cases uni <;> simp_all [renderHint, sign, ellipsis, dots3, ell]
  | cls => cases uni <;> simp_all [renderHint, ellipsis, dots3, ell]

theorem renderHints_noHash (hs : List Hint) (hl : ∀ h ∈ hs, '#' ∉ h.label) : '#' ∉ renderHints hs := by
  induction hs with
  | nil => simp [renderHints]
  | cons h t ih =>
    rw [renderHints_cons]
    simp only [List.mem_append, not_or]
    exact ⟨by simp [List.mem_replicate], renderHint_noHash h (hl h (by simp)),
      ih (fun x hx => hl x (List.mem_cons_of_mem _ hx))⟩

theorem dropWhile_spaces_word (n : Nat) (w R : Str) (hne : w ≠ []) (hw : ∀ c ∈ w, (isSpacePy O) c = false) :
    (List.replicate n ' ' ++ (w ++ R)).dropWhile (isSpaceRe O) = w ++ R := by
  apply dropWhile_spaces_re
  intro c hc
  cases w with
  | nil => exact absurd rfl hne
  | cons x t =>
    simp at hc; subst hc
    exact not_isSpacePy_of _ (hw _ (by simp))

/-- Hygiene of one line for the free spelling of the marker. -/
structure LooseOk (O : CharOracle) (l : Line) : Prop where
  code : ∀ c, l = .code c → (noLoose O) c.code = true ∧ (∀ h ∈ c.hints, '#' ∉ h.label ∧ (Clean O) h.label)
  iso : ∀ n L, l = .isolated n L → '#' ∉ L ∧ (Clean O) L

theorem renderMarker_eq (ms : MarkerStyle) (R : Str) :
    renderMarker ms ++ R = '#' :: (List.replicate ms.sp1 ' ' ++ ((List.range 10).map (spellAt ms.caps) ++
      (List.replicate ms.sp2 ' ' ++ ':' :: R))) := by
  simp [renderMarker]

/-- **Normalisation of a line**: whatever the tolerated spelling of its marker, the line becomes
the normalised rendering of the same code and hints. -/
theorem normLine_renderLineS (l : Line) (ms : MarkerStyle) (ok : (LooseOk O) l) :
    (normLine O) (renderLineS (l, ms)) = renderLine (gap0 l) := by
  cases l with
  | code c =>
    obtain ⟨hcode, hh⟩ := ok.code c rfl
    have hacc : (scanAccepts O) .idle c.code = false := by simpa [noLoose] using hcode
    cases hhs : c.hints with
    | nil =>
      simp only [renderLineS, hhs, if_true, gap0, renderLine, renderCode]
      simpa [normLine] using normGo_noaccept_end c.code .idle [] (by simp) hacc
    | cons h1 rest =>
      have hlab : ∀ h ∈ h1 :: rest, '#' ∉ h.label ∧ (Clean O) h.label := by rw [← hhs]; exact hh
      have hdrop : (renderHints (h1 :: rest)).drop 1 =
          List.replicate h1.style.gap ' ' ++ (renderHint h1 ++ renderHints rest) := by
        rw [renderHints_cons, List.replicate_succ]; rfl
      have hnh : '#' ∉ (renderHint h1 ++ renderHints rest) := by
        simp only [List.mem_append, not_or]
        exact ⟨renderHint_noHash h1 (hlab h1 (by simp)).1,
          renderHints_noHash rest (fun x hx => (hlab x (List.mem_cons_of_mem _ hx)).1)⟩
      have hacc2 := scanAccepts_spaces c.code c.pad .idle hacc
      simp only [renderLineS, hhs, List.cons_ne_nil, if_false, normLine]
      have hdw := dropWhile_spaces_word 0 (renderHint h1) (renderHints rest)
        (renderHint_ne h1 (hlab h1 (by simp)).2) (renderHint_nosp h1 (hlab h1 (by simp)).2)
      simp only [List.replicate_zero, List.nil_append] at hdw
      rw [← List.append_assoc c.code, renderMarker_eq,
        normGo_noaccept _ .idle [] _ (by simp) hacc2, normGo_marker, hdrop,
        normGo_tail_spaces, normGo_tail_spaces, normGo_tail_noHash _ hnh, hdw]
      simp only [gap0, renderLine, renderCode, hhs, List.cons_ne_nil, if_false, renderHints_cons,
        renderHint_gap]
      simp [m14]
  | isolated n L =>
    obtain ⟨hL, hcl⟩ := ok.iso n L rfl
    simp only [renderLineS, normLine, gap0, renderLine]
    rw [renderMarker_eq, normGo_noaccept _ .idle [] _ (by simp) (scanAccepts_replicate n .idle),
      normGo_marker, normGo_tail_noHash _ (by
        simp only [List.mem_append, not_or]; exact ⟨by simp [List.mem_replicate], hL⟩)]
    have := dropWhile_spaces_word ms.after L [] hcl.ne hcl.nosp
    simp only [List.append_nil] at this
    rw [this]; simp

end Paroxy.Hints
