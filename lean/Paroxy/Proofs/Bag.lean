/-
Count-level characterisation of the Counter operations of `Model/Bag.lean`.
All reasoning about `deduplicated_taxa` is done through these `count_…` lemmas.
-/
import Paroxy.Model.Bag
namespace Paroxy.Bag
variable {σ : Type} [DecidableEq σ]
set_option linter.unusedSectionVars false
set_option linter.unusedSimpArgs false

@[simp] theorem count_nil (s : σ) : count ([] : Bag σ) s = 0 := rfl
@[simp] theorem count_cons (k : σ) (v : Int) (t : Bag σ) (s : σ) :
    count ((k, v) :: t) s = if k = s then v else count t s := rfl
@[simp] theorem hasKey_nil (s : σ) : hasKey ([] : Bag σ) s = false := rfl
@[simp] theorem hasKey_cons (k : σ) (v : Int) (t : Bag σ) (s : σ) :
    hasKey ((k, v) :: t) s = if k = s then true else hasKey t s := rfl

theorem hasKey_iff (b : Bag σ) (s : σ) : hasKey b s = true ↔ s ∈ b.map Prod.fst := by
  induction b with
  | nil => simp
  | cons e t ih =>
    obtain ⟨k, v⟩ := e
    by_cases h : k = s
    · simp [h]
    · simp [h, ih, Ne.symm h]

theorem count_eq_zero_of_not_mem {b : Bag σ} {s : σ} (h : s ∉ b.map Prod.fst) : count b s = 0 := by
  induction b with
  | nil => rfl
  | cons e t ih =>
    obtain ⟨k, v⟩ := e
    simp only [List.map_cons, List.mem_cons, not_or] at h
    simp [Ne.symm h.1, ih h.2]

theorem count_eq_zero_of_hasKey_false {b : Bag σ} {s : σ} (h : hasKey b s = false) :
    count b s = 0 := by
  apply count_eq_zero_of_not_mem
  rw [← hasKey_iff]; simp [h]

theorem count_of_mem {b : Bag σ} (hb : WF b) {x : σ × Int} (hx : x ∈ b) : count b x.1 = x.2 := by
  induction b with
  | nil => cases hx
  | cons e t ih =>
    obtain ⟨k, v⟩ := e
    simp only [WF, List.map_cons, List.nodup_cons] at hb
    rcases List.mem_cons.mp hx with h | h
    · subst h; simp
    · have : k ≠ x.1 := by
        intro hk; apply hb.1; rw [hk]; exact List.mem_map_of_mem h
      simp [this, ih hb.2 h]

theorem count_set (b : Bag σ) (s s' : σ) (v : Int) :
    count (set b s v) s' = if s = s' then v else count b s' := by
  induction b with
  | nil => simp [set]
  | cons e t ih =>
    obtain ⟨k, w⟩ := e
    by_cases hk : k = s
    · subst hk; by_cases h : k = s' <;> simp [set, h]
    · by_cases h : k = s'
      · subst h; simp [set, hk, Ne.symm hk]
      · simp [set, hk, h, ih]

theorem keys_set (b : Bag σ) (s : σ) (v : Int) :
    (set b s v).map Prod.fst = if s ∈ b.map Prod.fst then b.map Prod.fst else b.map Prod.fst ++ [s] := by
  induction b with
  | nil => simp [set]
  | cons e t ih =>
    obtain ⟨k, w⟩ := e
    by_cases hk : k = s
    · subst hk; simp [set]
    · simp only [set, hk, if_false, List.map_cons, ih, List.mem_cons, Ne.symm hk, false_or]
      split <;> simp

theorem WF_set {b : Bag σ} (hb : WF b) (s : σ) (v : Int) : WF (set b s v) := by
  unfold WF at *
  rw [keys_set]
  split
  · exact hb
  · rename_i h
    rw [List.nodup_append]
    refine ⟨hb, by simp, ?_⟩
    intro a ha b' hb'
    simp only [List.mem_singleton] at hb'
    subst hb'
    intro hab; subst hab; exact h ha

theorem WF_nil : WF ([] : Bag σ) := by simp [WF]

theorem WF_foldl_set {β : Type} (f : Bag σ → β → σ) (g : Bag σ → β → Int) (l : List β) :
    ∀ acc : Bag σ, WF acc → WF (l.foldl (fun acc e => set acc (f acc e) (g acc e)) acc) := by
  induction l with
  | nil => intro acc h; exact h
  | cons e t ih => intro acc h; exact ih _ (WF_set h _ _)

/-! ### `subtract` -/

theorem count_subtract_aux (l : Bag σ) (hl : WF l) (s : σ) :
    ∀ acc : Bag σ, count (l.foldl (fun acc e => set acc e.1 (count acc e.1 - e.2)) acc) s
      = count acc s - count l s := by
  induction l with
  | nil => intro acc; simp
  | cons e t ih =>
    obtain ⟨k, v⟩ := e
    simp only [WF, List.map_cons, List.nodup_cons] at hl
    intro acc
    simp only [List.foldl_cons]
    rw [ih hl.2, count_set]
    by_cases hk : k = s
    · subst hk
      simp [count_eq_zero_of_not_mem hl.1]
    · simp [hk]

theorem count_subtract (a b : Bag σ) (hb : WF b) (s : σ) :
    count (subtract a b) s = count a s - count b s :=
  count_subtract_aux b hb s a

theorem WF_subtract {a : Bag σ} (ha : WF a) (b : Bag σ) : WF (subtract a b) :=
  WF_foldl_set (β := σ × Int) (fun _ e => e.1) (fun acc e => count acc e.1 - e.2) b a ha

/-! ### `a - b` -/

theorem count_subLoop1 (other : Bag σ) (l : Bag σ) (hl : WF l) (s : σ) :
    ∀ res : Bag σ, count (subLoop1 other res l) s
      = if hasKey l s = true ∧ 0 < count l s - count other s then count l s - count other s
        else count res s := by
  induction l with
  | nil => intro res; simp [subLoop1]
  | cons e t ih =>
    obtain ⟨k, v⟩ := e
    simp only [WF, List.map_cons, List.nodup_cons] at hl
    intro res
    have ih' := ih hl.2
    simp only [subLoop1, List.foldl_cons] at ih' ⊢
    rw [ih']
    by_cases hk : k = s
    · subst hk
      have h0 : hasKey t k = false := by
        cases h : hasKey t k
        · rfl
        · exact absurd ((hasKey_iff t k).mp h) hl.1
      simp only [h0, hasKey_cons, count_cons, if_true, true_and]
      simp only [Bool.false_eq_true, false_and, if_false]
      split <;> simp [count_set]
    · simp only [hasKey_cons, count_cons, hk, if_false]
      split
      · rfl
      · split
        · simp [count_set, hk]
        · rfl

theorem count_subLoop2 (self : Bag σ) (l : Bag σ) (hl : WF l) (s : σ) :
    ∀ res : Bag σ, count (subLoop2 self res l) s
      = if hasKey l s = true ∧ hasKey self s = false ∧ count l s < 0 then 0 - count l s
        else count res s := by
  induction l with
  | nil => intro res; simp [subLoop2]
  | cons e t ih =>
    obtain ⟨k, v⟩ := e
    simp only [WF, List.map_cons, List.nodup_cons] at hl
    intro res
    have ih' := ih hl.2
    simp only [subLoop2, List.foldl_cons] at ih' ⊢
    rw [ih']
    by_cases hk : k = s
    · subst hk
      have h0 : hasKey t k = false := by
        cases h : hasKey t k
        · rfl
        · exact absurd ((hasKey_iff t k).mp h) hl.1
      simp only [h0, hasKey_cons, count_cons, if_true, true_and]
      simp only [Bool.false_eq_true, false_and, if_false]
      cases hs : hasKey self k
      · simp only [Bool.not_false, Bool.true_and, decide_eq_true_eq, true_and]
        split <;> simp [count_set]
      · simp
    · simp only [hasKey_cons, count_cons, hk, if_false]
      split
      · rfl
      · split
        · simp [count_set, hk]
        · rfl

/-- **`Counter.__sub__`, count-wise**: truncated subtraction, *whatever the keys present* — the
second loop is what makes this true when the right operand has negative counts. -/
theorem count_sub (a b : Bag σ) (ha : WF a) (hb : WF b) (s : σ) :
    count (sub a b) s = max (count a s - count b s) 0 := by
  unfold sub
  rw [count_subLoop2 a b hb, count_subLoop1 b a ha]
  simp only [count_nil]
  cases hA : hasKey a s
  · have h0 := count_eq_zero_of_hasKey_false hA
    simp only [h0, Bool.false_eq_true, false_and, if_false, true_and]
    cases hB : hasKey b s
    · simp [count_eq_zero_of_hasKey_false hB]
    · simp only [true_and]
      split <;> omega
  · simp only [Bool.true_eq_false, false_and, and_false, if_false, true_and]
    split <;> omega

theorem WF_subLoop1 (other : Bag σ) (l : Bag σ) : ∀ res : Bag σ, WF res → WF (subLoop1 other res l) := by
  induction l with
  | nil => intro res h; exact h
  | cons e t ih =>
    intro res h
    simp only [subLoop1, List.foldl_cons]
    apply ih
    split
    · exact WF_set h _ _
    · exact h

theorem WF_subLoop2 (self : Bag σ) (l : Bag σ) : ∀ res : Bag σ, WF res → WF (subLoop2 self res l) := by
  induction l with
  | nil => intro res h; exact h
  | cons e t ih =>
    intro res h
    simp only [subLoop2, List.foldl_cons]
    apply ih
    split
    · exact WF_set h _ _
    · exact h

theorem WF_sub (a b : Bag σ) : WF (sub a b) :=
  WF_subLoop2 a b _ (WF_subLoop1 b a _ WF_nil)

/-! ### `+= Counter()` -/

theorem WF_keepPositive {a : Bag σ} (ha : WF a) : WF (keepPositive a) := by
  unfold WF keepPositive at *
  exact List.Nodup.sublist (List.Sublist.map _ List.filter_sublist) ha

theorem mem_keepPositive {a : Bag σ} {x : σ × Int} :
    x ∈ keepPositive a ↔ x ∈ a ∧ 0 < x.2 := by
  simp [keepPositive, List.mem_filter]

theorem count_keepPositive {a : Bag σ} (ha : WF a) (s : σ) :
    count (keepPositive a) s = if 0 < count a s then count a s else 0 := by
  induction a with
  | nil => simp [keepPositive]
  | cons e t ih =>
    obtain ⟨k, v⟩ := e
    simp only [WF, List.map_cons, List.nodup_cons] at ha
    have ih' := ih ha.2
    unfold keepPositive at ih' ⊢
    by_cases hk : k = s
    · subst hk
      have h0 : count t k = 0 := count_eq_zero_of_not_mem ha.1
      by_cases hv : 0 < v
      · simp [List.filter_cons, hv]
      · simp only [List.filter_cons, hv, decide_false, Bool.false_eq_true, if_false, ih', h0,
          count_cons, if_true]
        simp
    · by_cases hv : 0 < v
      · simp [List.filter_cons, hv, hk, ih']
      · simp [List.filter_cons, hv, hk, ih']

/-- A bag all of whose entries are positive has non-negative counts. -/
theorem count_nonneg_of_pos {a : Bag σ} (h : ∀ x ∈ a, 0 < x.2) (s : σ) : 0 ≤ count a s := by
  induction a with
  | nil => simp
  | cons e t ih =>
    obtain ⟨k, v⟩ := e
    simp only [count_cons]
    split
    · exact Int.le_of_lt (h (k, v) List.mem_cons_self)
    · exact ih fun x hx => h x (List.mem_cons_of_mem _ hx)

theorem keepPositive_eq_self {a : Bag σ} (h : ∀ x ∈ a, 0 < x.2) : keepPositive a = a := by
  unfold keepPositive
  rw [List.filter_eq_self]
  intro x hx
  simpa using h x hx

end Paroxy.Bag
