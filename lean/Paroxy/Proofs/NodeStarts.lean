/-
Where a `node` occurrence starts (C01, after fix 44b0b15): under `lastDescMono` the specification
`nodeStartsSpec` (smaller of the own line and the line of the last positioned strict descendant) is the list
of the positioned nodes with their own lines.
-/
import Paroxy.Spec.NodeFeature
namespace Paroxy.Flat

theorem positionedOfEntries_app (a b : List Entry) :
    positionedOfEntries (a ++ b) = positionedOfEntries a ++ positionedOfEntries b := by
  induction a with
  | nil => rfl
  | cons e es ih =>
    simp only [List.cons_append, positionedOfEntries]
    split <;> simp [ih]

mutual
theorem nodeStartsSpec_eq (names : List Str) (addr : List Nat) (v : Val)
    (h : lastDescMono names addr v = true) :
    nodeStartsSpec names addr v = positionedOfEntries (entries names addr v) := by
  match v with
  | .node ty e r ln fs =>
    simp only [lastDescMono, Bool.and_eq_true] at h
    have ih := nodeStartsSpecFields_eq names addr 0 fs h.2
    cases ln with
    | none => simp [nodeStartsSpec, entries, positionedOfEntries, ih]
    | some n =>
      cases hl : lastPosOfEntries (entriesFields names addr 0 fs) with
      | none => simp [nodeStartsSpec, entries, positionedOfEntries, ih, hl]
      | some p =>
        obtain ⟨n', a'⟩ := p
        have hle : n ≤ n' := by
          have := h.1
          simp only [hl] at this
          exact of_decide_eq_true this
        simp [nodeStartsSpec, entries, positionedOfEntries, ih, hl, Nat.min_eq_left hle]
  | .list q xs =>
    simp only [lastDescMono] at h
    simp [nodeStartsSpec, entries, positionedOfEntries, nodeStartsSpecItems_eq names addr 1 xs h]
  | .scalar r k => simp [nodeStartsSpec, entries, positionedOfEntries]
theorem nodeStartsSpecFields_eq (names : List Str) (addr : List Nat) (i : Nat) (fs : List (Str × Val))
    (h : lastDescMonoFields names addr i fs = true) :
    nodeStartsSpecFields names addr i fs = positionedOfEntries (entriesFields names addr i fs) := by
  match fs with
  | [] => simp [nodeStartsSpecFields, entriesFields, positionedOfEntries]
  | (n, v) :: rest =>
    simp only [lastDescMonoFields, Bool.and_eq_true] at h
    simp [nodeStartsSpecFields, entriesFields, positionedOfEntries_app,
      nodeStartsSpec_eq (names ++ [n]) (addr ++ [i]) v h.1, nodeStartsSpecFields_eq names addr (i + 1) rest h.2]
theorem nodeStartsSpecItems_eq (names : List Str) (addr : List Nat) (i : Nat) (xs : List Val)
    (h : lastDescMonoItems names addr i xs = true) :
    nodeStartsSpecItems names addr i xs = positionedOfEntries (entriesItems names addr i xs) := by
  match xs with
  | [] => simp [nodeStartsSpecItems, entriesItems, positionedOfEntries]
  | v :: rest =>
    simp only [lastDescMonoItems, Bool.and_eq_true] at h
    simp [nodeStartsSpecItems, entriesItems, positionedOfEntries_app,
      nodeStartsSpec_eq (names ++ [dec i]) (addr ++ [i]) v h.1, nodeStartsSpecItems_eq names addr (i + 1) rest h.2]
end

end Paroxy.Flat
