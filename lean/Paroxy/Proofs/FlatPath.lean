/-
C15 helper lemmas, part 1: numerals, the `_pos` path code, addresses.
-/
import Paroxy.Spec.FlatAst
namespace Paroxy.Flat

/-! ## Decimal numerals -/

theorem dec_ne_nil (n : Nat) : dec n ≠ [] := Nat.toDigits_ne_nil

theorem isDigit_of_mem_dec {n : Nat} {c : Char} (h : c ∈ dec n) : c.isDigit = true :=
  Nat.isDigit_of_mem_toDigits (by decide) (by decide) h

theorem dash_not_mem_dec (n : Nat) : '-' ∉ dec n := fun h => by
  have := isDigit_of_mem_dec h
  revert this; decide

theorem slash_not_mem_dec (n : Nat) : '/' ∉ dec n := fun h => by
  have := isDigit_of_mem_dec h
  revert this; decide

theorem eq_not_mem_dec (n : Nat) : '=' ∉ dec n := fun h => by
  have := isDigit_of_mem_dec h
  revert this; decide

theorem dec_injective {a b : Nat} (h : dec a = dec b) : a = b := by
  have ha := @Nat.ofDigitChars_ten_toDigits a
  have hb := @Nat.ofDigitChars_ten_toDigits b
  unfold dec at h
  rw [h] at ha
  exact ha.symm.trans hb

/-! ## A separator-terminated code is prefix-free -/

/-- If `c` occurs neither in `u` nor in `v`, then `u ++ c :: A` is a prefix of `v ++ c :: B` exactly
when `u = v` and `A` is a prefix of `B`. -/
theorem sep_prefix {c : Char} : ∀ (u v A B : Str), c ∉ u → c ∉ v →
    ((u ++ c :: A) <+: (v ++ c :: B) ↔ u = v ∧ A <+: B)
  | [], [], A, B, _, _ => by simp
  | [], d :: v, A, B, _, hv => by
    have hd : c ≠ d := fun h => hv (by simp [h])
    simp [hd]
  | a :: u, [], A, B, hu, _ => by
    have ha : a ≠ c := fun h => hu (by simp [h])
    simp [ha]
  | a :: u, d :: v, A, B, hu, hv => by
    have hu' : c ∉ u := fun h => hu (List.mem_cons_of_mem _ h)
    have hv' : c ∉ v := fun h => hv (List.mem_cons_of_mem _ h)
    have ih := sep_prefix u v A B hu' hv'
    simp only [List.cons_append, List.cons_prefix_cons, ih, List.cons.injEq]
    constructor
    · rintro ⟨h1, h2, h3⟩; exact ⟨⟨h1, h2⟩, h3⟩
    · rintro ⟨⟨h1, h2⟩, h3⟩; exact ⟨h1, h2, h3⟩

/-- **The `_pos` path code is prefix-free**: string prefix of encodings = prefix of addresses. -/
theorem encPath_prefix_iff : ∀ (p q : List Nat), encPath p <+: encPath q ↔ p <+: q
  | [], q => by simp [encPath]
  | i :: p, [] => by
    simp only [encPath, List.prefix_nil]
    constructor
    · intro h
      have : dec i = [] := (List.append_eq_nil_iff.mp h).1
      exact absurd this (dec_ne_nil i)
    · intro h; cases h
  | i :: p, j :: q => by
    simp only [encPath, List.cons_prefix_cons]
    rw [sep_prefix _ _ _ _ (dash_not_mem_dec i) (dash_not_mem_dec j), encPath_prefix_iff p q]
    constructor
    · rintro ⟨h1, h2⟩; exact ⟨dec_injective h1, h2⟩
    · rintro ⟨h1, h2⟩; exact ⟨by rw [h1], h2⟩

theorem encPath_append (p q : List Nat) : encPath (p ++ q) = encPath p ++ encPath q := by
  induction p with
  | nil => rfl
  | cons i p ih => simp [encPath, ih]

theorem encPath_injective {p q : List Nat} (h : encPath p = encPath q) : p = q := by
  have h1 : p <+: q := (encPath_prefix_iff p q).mp (h ▸ List.prefix_rfl)
  have h2 : q <+: p := (encPath_prefix_iff q p).mp (h ▸ List.prefix_rfl)
  exact List.IsPrefix.eq_of_length_le h1 h2.length_le

/-- The numeral of a one-digit number has length one, so `path[2:]` removes exactly the first
component and its hyphen. -/
theorem dec_length_of_lt_ten {k : Nat} (hk : k < 10) : (dec k).length = 1 := by
  unfold dec; rw [Nat.toDigits_of_lt_base hk]; rfl

theorem posPath_cons {k : Nat} (hk : k < 10) (p : List Nat) : posPath (k :: p) = encPath p := by
  unfold posPath
  simp only [encPath]
  have h := dec_length_of_lt_ten hk
  match hd : dec k, h with
  | [c], _ => rfl

/-! ## Addresses -/

theorem Val.at?_append (v : Val) : ∀ (p q : List Nat), v.at? (p ++ q) = (v.at? p).bind (·.at? q)
  | [], q => by simp [Val.at?]
  | i :: p, q => by
    simp only [List.cons_append, Val.at?]
    cases h : v.child? i with
    | none => simp
    | some w => simp [Val.at?_append w p q]

theorem encNames_append (a b : List Str) : encNames (a ++ b) = encNames a ++ encNames b := by
  induction a with
  | nil => rfl
  | cons n a ih => simp [encNames, ih]

theorem subPre_encNames (names : List Str) (n : Str) :
    subPre (encNames names) n = encNames (names ++ [n]) := by
  simp [subPre, encNames_append, encNames]

theorem subPath_encPath (addr : List Nat) (i : Nat) :
    subPath (encPath addr) i = encPath (addr ++ [i]) := by
  simp [subPath, encPath_append, encPath]

end Paroxy.Flat
