/-
Helper lemmas for C12_source_same: the stored source of a decorated program is the stored source of
the same program written without any hint.
-/
import Paroxy.Proofs.HintsCore2
namespace Paroxy.Hints

variable {O : CharOracle}

/-- The stored source of a hygienic decorated program, whenever `get_program` returns. -/
theorem source_of_decorate (d : Decorated) (hy : Hyg O d) (p : Program)
    (h : getProgramFrom O (decorate d) = .ok p) : p.source = stripPy O (joinNL (base d)) := by
  have hws : ∀ L ∈ sortDedup (wholeLabels d), Clean O L := fun L hL => hy.whole L ((mem_sortDedup L _).mp hL)
  have ok' := okCode_centrifuged (sortDedup (wholeLabels d)) hws _ hy.ok hy.first hy.last
  unfold getProgramFrom at h
  rw [centrifugate_decorate d hy] at h
  simp only at h
  split at h
  · cases h
  · cases h
    simp only
    rw [removeHints, subHints_lines _ ok', centrifuged_plain]; rfl

/-- The program without its hints, as a decorated program that carries none. -/
def undecorated (d : Decorated) : Decorated := (codeLines d).map fun c => .code { code := c.code }

theorem codeLines_undecorated (d : Decorated) :
    codeLines (undecorated d) = (codeLines d).map fun c => { code := c.code } := by
  unfold undecorated
  induction codeLines d with
  | nil => rfl
  | cons c t ih => simp [codeLines, ih]

theorem wholeLabels_undecorated (d : Decorated) : wholeLabels (undecorated d) = [] := by
  unfold undecorated
  induction codeLines d with
  | nil => rfl
  | cons c t ih => simp [wholeLabels, ih]

theorem decorate_undecorated (d : Decorated) : decorate (undecorated d) = joinNL (base d) := by
  simp [decorate, undecorated, base, List.map_map, Function.comp_def, renderLine, renderCode]

theorem base_undecorated (d : Decorated) : base (undecorated d) = base d := by
  simp [base, codeLines_undecorated, List.map_map, Function.comp_def]

theorem hyg_undecorated (d : Decorated) (hy : Hyg O d) : Hyg O (undecorated d) := by
  have hok : ∀ c ∈ codeLines d, OkCode O ({ code := c.code } : CodeLine) := fun c hc =>
    ⟨(hy.ok c hc).nonl, (hy.ok c hc).nom, (hy.ok c hc).notrail, fun h => absurd rfl h, fun h hh => by simp at hh⟩
  refine ⟨?_, by simp [wholeLabels_undecorated], ?_, ?_, ?_⟩
  · intro c hc
    rw [codeLines_undecorated, List.mem_map] at hc
    obtain ⟨c0, h0, rfl⟩ := hc
    exact hok c0 h0
  · rw [codeLines_undecorated]; simpa using hy.ne
  · intro c hc
    rw [codeLines_undecorated, List.head?_map, Option.map_eq_some_iff] at hc
    obtain ⟨c0, h0, rfl⟩ := hc
    exact hy.first c0 h0
  · intro c hc
    rw [codeLines_undecorated, List.getLast?_map, Option.map_eq_some_iff] at hc
    obtain ⟨c0, h0, rfl⟩ := hc
    exact hy.last c0 h0

theorem events_undecorated (d : Decorated) (L : Str) : events (undecorated d) L = [] := by
  have hw : (wholeLabels (undecorated d)).contains L = false := by simp [wholeLabels_undecorated]
  unfold events
  rw [hw, codeLines_undecorated]
  have key : ∀ (cs : List CodeLine) (n i : Nat),
      eventsFrom L false n i (cs.map fun c => ({ code := c.code } : CodeLine)) = [] := by
    intro cs n
    induction cs with
    | nil => intro i; rfl
    | cons c t ih => intro i; simp [eventsFrom, hintEvs, ih]
  exact key _ _ _

/-- The preparation steps leave a hint-free, hygienic text as it is. -/
theorem prepare_plain (ls : List Str) (hne : ls ≠ [])
    (hnl : ∀ l ∈ ls, '\n' ∉ l) (hloose : ∀ l ∈ ls, noLoose O l = true)
    (htight : ∀ l ∈ ls, ∀ x, l.getLast? = some x → isSpaceRe O x = false)
    (hfirst : ∀ l, ls.head? = some l → l ≠ []) (hlast : ∀ l, ls.getLast? = some l → l ≠ []) :
    prepare O (joinNL ls) = joinNL ls := by
  have hnorm : ls.map (normLine O) = ls := by
    conv_rhs => rw [← List.map_id ls]
    apply List.map_congr_left
    intro l hl
    have hacc : scanAccepts O .idle l = false := by simpa [noLoose] using hloose l hl
    simpa [normLine] using normGo_noaccept_end (O := O) l .idle [] (by simp) hacc
  have hcore : coreLines ls = ls := by
    unfold coreLines
    exact trimBoth_id (fun l : Str => l.isEmpty) ls (fun l hl => by simpa using hfirst l hl)
      (fun l hl => by simpa using hlast l hl)
  unfold prepare
  rw [splitNL_joinNL ls hne hnl, hnorm,
    trimEnds_joinNL ls (fun l hl => ⟨hnl l hl, htight l hl⟩) (by rw [hcore]; exact hne), hcore]

/-- **`get_program` on the program without its hints**: the stored source is the same, nothing is
scheduled. -/
theorem getProgram_undecorated (d : Decorated) (hy : Hyg O d)
    (hloose : ∀ c ∈ codeLines d, noLoose O c.code = true) :
    getProgram O (joinNL (base d)) = .ok ⟨stripPy O (joinNL (base d)), [], []⟩ := by
  have hy' := hyg_undecorated d hy
  have hprep : prepare O (joinNL (base d)) = joinNL (base d) := by
    apply prepare_plain
    · simpa [base] using hy.ne
    · intro l hl; simp only [base, List.mem_map] at hl; obtain ⟨c, hc, rfl⟩ := hl; exact (hy.ok c hc).nonl
    · intro l hl; simp only [base, List.mem_map] at hl; obtain ⟨c, hc, rfl⟩ := hl; exact hloose c hc
    · intro l hl x hx; simp only [base, List.mem_map] at hl; obtain ⟨c, hc, rfl⟩ := hl
      exact not_isSpacePy_of x ((hy.ok c hc).notrail x hx)
    · intro l hl; simp only [base, List.head?_map, Option.map_eq_some_iff] at hl
      obtain ⟨c, hc, rfl⟩ := hl; exact hy.first c hc
    · intro l hl; simp only [base, List.getLast?_map, Option.map_eq_some_iff] at hl
      obtain ⟨c, hc, rfl⟩ := hl; exact hy.last c hc
  obtain ⟨q, hq, hsrc, hadd, hdel⟩ := getProgram_decorate (O := O) (undecorated d) (fun _ => []) hy'
    (fun L => by rw [events_undecorated]; exact .nil)
    (fun L => by rw [events_undecorated]; intro i h; simp at h)
  rw [decorate_undecorated] at hq
  rw [base_undecorated] at hsrc
  -- nothing is scheduled: every count is zero, and a schedule has no empty list
  have hshape : q.addition = [] ∧ q.deletion = [] := by
    unfold getProgramFrom at hq
    split at hq
    · cases hq
    · rename_i c hc
      split at hq
      · cases hq
      · rename_i a dd hcol
        cases hq
        unfold collectHints collectToks at hcol
        split at hcol
        · rename_i st hst
          unfold finish at hcol
          split at hcol
          · cases hcol
          · split at hcol
            · cases hcol
            · simp only [Except.ok.injEq, Prod.mk.injEq] at hcol
              obtain ⟨rfl, rfl⟩ := hcol
              have key : ∀ res : List Entry, (∀ L sp, (getResult res).count L sp = 0) → getResult res = [] := by
                intro res hz
                cases res with
                | nil => rfl
                | cons e t =>
                  exfalso
                  have := hz e.1 e.2
                  rw [count_getResult] at this
                  simp [spansOf] at this
              exact ⟨key _ (fun L sp => by simpa using hadd L sp), key _ (fun L sp => by simpa using hdel L sp)⟩
        · cases hcol
  rw [getProgram, hprep, hq]
  obtain ⟨src, a, dd⟩ := q
  simp only at hsrc hshape
  rw [hsrc, hshape.1, hshape.2]

end Paroxy.Hints
