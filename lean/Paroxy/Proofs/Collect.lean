/-
Helper lemmas for C14: the two loops of the collection as maps, the decomposition of `collect`, the
labels of invalid/empty programs, and the independence of a record from the other files.
-/
import Paroxy.Spec.Collect
import Paroxy.Proofs.MakeDbResolved
namespace Paroxy.Collect
open Paroxy Paroxy.DB

variable {Tree : Type} {X : Ext Tree}

/-! ## The two loops -/

theorem cleanAll_eq (files : List (Name × Name)) :
    cleanAll X files = files.map fun f => (f.1, srcOf X f) := rfl

def ParseOk (X : Ext Tree) (srcs : List (Name × Name)) : Prop :=
  ∀ f ∈ srcs, ∃ ls, parseProgram X f.2 = .ok ls

def progOfSrc (X : Ext Tree) (f : Name × Name) : Prog :=
  { path := f.1, timestamp := [], source := f.2, labels := labelsD X f.2 }

theorem parseAll_ok {srcs : List (Name × Name)} {r : List Prog} (h : parseAll X srcs = .ok r) :
    ParseOk X srcs ∧ r = srcs.map (progOfSrc X) := by
  induction srcs generalizing r with
  | nil =>
    simp only [parseAll, Except.ok.injEq] at h
    subst h
    exact ⟨fun f hf => absurd hf (by simp), rfl⟩
  | cons f t ih =>
    obtain ⟨p, src⟩ := f
    unfold parseAll at h
    cases hc : parseProgram X src with
    | error e => rw [hc] at h; cases h
    | ok ls =>
      rw [hc] at h
      simp only at h
      cases ht : parseAll X t with
      | error e => rw [ht] at h; cases h
      | ok r' =>
        rw [ht] at h
        simp only [Except.ok.injEq] at h
        obtain ⟨hok, hr⟩ := ih ht
        subst h
        refine ⟨?_, ?_⟩
        · intro g hg
          rcases List.mem_cons.mp hg with e | hg'
          · rw [e]; exact ⟨ls, hc⟩
          · exact hok g hg'
        · simp only [List.map_cons, progOfSrc, labelsD, hc, hr]

theorem parseAll_of_ok {srcs : List (Name × Name)} (h : ParseOk X srcs) :
    parseAll X srcs = .ok (srcs.map (progOfSrc X)) := by
  induction srcs with
  | nil => rfl
  | cons f t ih =>
    obtain ⟨p, src⟩ := f
    obtain ⟨ls, hls⟩ := h (p, src) List.mem_cons_self
    have ht := ih (fun g hg => h g (List.mem_cons_of_mem _ hg))
    unfold parseAll
    simp only at hls
    rw [hls]
    simp only
    rw [ht]
    simp only [List.map_cons, progOfSrc, labelsD, hls]

theorem map_progOfSrc (files : List (Name × Name)) :
    (files.map fun f => (f.1, srcOf X f)).map (progOfSrc X) = progsOf X files := by
  simp [progsOf, progOf, progOfSrc, List.map_map, Function.comp_def]

/-! ## The parser wrapper -/

theorem parseProgram_total (hp : ParseCaught X) (hfl : FlattenCaught X) (hf : FeaturesTotal X)
    (src : Name) : ∃ ls, parseProgram X src = .ok ls := by
  unfold parseProgram
  cases h : X.parse src with
  | error e => simp [(hp src e h).1]
  | ok t =>
    simp only
    split
    · exact ⟨_, rfl⟩
    · cases hfl' : X.flatten src t with
      | error e => simp [(hfl src t e hfl').1]
      | ok u => exact hf src t

theorem parseProgram_unflattenable {src : Name} {t : Tree} {e : Exc} (h : X.parse src = .ok t)
    (hne : X.isEmpty t = false) (hfl : X.flatten src t = .error e) (hc : e.caught = true) :
    parseProgram X src = .ok [astLabel e.name src] := by
  unfold parseProgram; rw [h]; simp [hne, hfl, hc]

theorem parseProgram_invalid {src : Name} {e : Exc} (h : X.parse src = .error e)
    (hc : e.caught = true) : parseProgram X src = .ok [astLabel e.name src] := by
  unfold parseProgram; rw [h]; simp [hc]

theorem parseProgram_empty {src : Name} {t : Tree} (h : X.parse src = .ok t)
    (he : X.isEmpty t = true) : parseProgram X src = .ok [emptyLabel src] := by
  unfold parseProgram; rw [h]; simp [he]

/-! ## Decomposition of `collect` -/

theorem collect_ok {toTaxa : Name → List Label → List Taxon} {files : List (Name × Name)} {db : Db}
    (h : collect X toTaxa files = .ok db) :
    ParseOk X (files.map fun f => (f.1, srcOf X f)) ∧
      makeDb toTaxa (progsOf X files) = .ok db := by
  unfold collect at h
  rw [cleanAll_eq] at h
  cases hp : parseAll X (files.map fun f => (f.1, srcOf X f)) with
  | error e => rw [hp] at h; cases h
  | ok progs =>
    rw [hp] at h
    simp only at h
    obtain ⟨hpok, hr⟩ := parseAll_ok hp
    cases hm : makeDb toTaxa progs with
    | error e => rw [hm] at h; cases e; cases h
    | ok db' =>
      rw [hm] at h
      simp only [Except.ok.injEq] at h
      subst h
      rw [map_progOfSrc] at hr
      rw [hr] at hm
      exact ⟨hpok, hm⟩

theorem collect_of {toTaxa : Name → List Label → List Taxon} {files : List (Name × Name)} {db : Db}
    (hp : ParseOk X (files.map fun f => (f.1, srcOf X f)))
    (hm : makeDb toTaxa (progsOf X files) = .ok db) : collect X toTaxa files = .ok db := by
  unfold collect
  rw [cleanAll_eq, parseAll_of_ok hp]
  simp only
  rw [map_progOfSrc, hm]

/-! ## Labels of invalid and empty programs are not touched by the relabelling -/

theorem importAt?_colon {s g : Name} (h : importAt? s = some g) : cColon ∈ s := by
  unfold importAt? at h
  cases h1 : dropPrefix? sImport s with
  | none => rw [h1] at h; cases h
  | some r =>
    rw [h1] at h
    simp only at h
    have hs := dropPrefix?_eq h1
    cases h2 : dropPrefix? (sModule ++ [cColon]) r with
    | some r' =>
      have hr := dropPrefix?_eq h2
      rw [hs, hr]; simp
    | none =>
      rw [h2] at h
      simp only at h
      cases h3 : dropPrefix? [cColon] r with
      | some r' =>
        have hr := dropPrefix?_eq h3
        rw [hs, hr]; simp
      | none => rw [h3] at h; cases h

theorem searchImport?_colon {s g : Name} (h : searchImport? s = some g) : cColon ∈ s := by
  induction s with
  | nil => cases h
  | cons c cs ih =>
    unfold searchImport? at h
    cases h1 : importAt? (c :: cs) with
    | some g' => exact importAt?_colon h1
    | none =>
      rw [h1] at h
      exact List.mem_cons_of_mem _ (ih h)

/-- No suffix of `"ast_construction:" ++ n` starts an import label when `n` has no colon. -/
theorem searchImport?_ast {n : Name} (hn : cColon ∉ n) : searchImport? (sAst ++ n) = none := by
  have hn' : searchImport? n = none := by
    cases h : searchImport? n with
    | none => rfl
    | some g => exact absurd (searchImport?_colon h) hn
  have step : ∀ (c : Nat) (s : Name), importAt? (c :: s) = none → searchImport? s = none →
      searchImport? (c :: s) = none := by
    intro c s h1 h2
    unfold searchImport?
    rw [h1]; exact h2
  have hat : ∀ (c : Nat) (s : Name), c ≠ 105 → importAt? (c :: s) = none := by
    intro c s hc
    unfold importAt?
    have : dropPrefix? sImport (c :: s) = none := by
      unfold sImport dropPrefix?
      have : ¬ (105 = c) := fun e => hc e.symm
      simp [this]
    rw [this]
  -- the only `i` of "ast_construction:" is followed by `o`, not `m`
  have hat_i : ∀ (s : Name), importAt? (105 :: 111 :: s) = none := by
    intro s
    unfold importAt?
    have : dropPrefix? sImport (105 :: 111 :: s) = none := by
      simp [sImport, dropPrefix?]
    rw [this]
  unfold sAst
  simp only [List.cons_append, List.nil_append]
  apply step _ _ (hat _ _ (by decide))
  apply step _ _ (hat _ _ (by decide))
  apply step _ _ (hat _ _ (by decide))
  apply step _ _ (hat _ _ (by decide))
  apply step _ _ (hat _ _ (by decide))
  apply step _ _ (hat _ _ (by decide))
  apply step _ _ (hat _ _ (by decide))
  apply step _ _ (hat _ _ (by decide))
  apply step _ _ (hat _ _ (by decide))
  apply step _ _ (hat _ _ (by decide))
  apply step _ _ (hat _ _ (by decide))
  apply step _ _ (hat _ _ (by decide))
  apply step _ _ (hat _ _ (by decide))
  apply step _ _ (hat_i _)
  apply step _ _ (hat _ _ (by decide))
  apply step _ _ (hat _ _ (by decide))
  apply step _ _ (hat _ _ (by decide))
  exact hn'

theorem relabelName_ast (internal : List Name) {n : Name} (hn : cColon ∉ n) :
    relabelName internal (sAst ++ n) = sAst ++ n := by
  unfold relabelName
  rw [searchImport?_ast hn]

theorem sEmpty_noColon : cColon ∉ sEmpty := by decide

theorem preparedLabels_single (l : Label) :
    preparedLabels [l] = [(l.name, preparedSpans l.spans)] := rfl

theorem preparedSpans_single (s : Span3) : preparedSpans [s] = [Span3.poor s] := by
  simp [preparedSpans, sortU, insortNew, insort]

/-! ## A record does not depend on the other files -/

/-- `g`'s labels name no module whose path is `b`. -/
def NotImporting (X : Ext Tree) (g : Name × Name) (b : Name) : Prop :=
  ∀ l ∈ labelsD X (srcOf X g), ∀ m, searchImport? l.name = some m →
    replaceChar cDot cSlash m ++ sPy ≠ b

theorem mem_internalPaths {paths : List Name} {x : Name} :
    x ∈ internalPaths paths ↔ x ∈ paths ∨ x = sPy := by
  simp [internalPaths]

theorem relabelName_filter {paths : List Name} {b n : Name}
    (h : ∀ m, searchImport? n = some m → replaceChar cDot cSlash m ++ sPy ≠ b) :
    relabelName (internalPaths (paths.filter fun p => decide (p ≠ b))) n =
      relabelName (internalPaths paths) n := by
  unfold relabelName
  cases hs : searchImport? n with
  | none => rfl
  | some m =>
    simp only
    have hne := h m hs
    have : (replaceChar cDot cSlash m ++ sPy ∈ internalPaths (paths.filter fun p => decide (p ≠ b))) ↔
        (replaceChar cDot cSlash m ++ sPy ∈ internalPaths paths) := by
      rw [mem_internalPaths, mem_internalPaths]
      constructor
      · rintro (hp | he)
        · exact Or.inl (List.mem_filter.mp hp).1
        · exact Or.inr he
      · rintro (hp | he)
        · refine Or.inl (List.mem_filter.mpr ⟨hp, ?_⟩)
          simp only [ne_eq, decide_not, Bool.not_eq_eq_eq_not, Bool.not_true, decide_eq_false_iff_not]
          exact hne
        · exact Or.inr he
    by_cases hm : replaceChar cDot cSlash m ++ sPy ∈ internalPaths paths
    · rw [if_pos hm, if_pos (this.mpr hm)]
    · rw [if_neg hm, if_neg (fun h' => hm (this.mp h'))]

theorem progsOf_filter (files : List (Name × Name)) (b : Name) :
    progsOf X (files.filter fun f => decide (f.1 ≠ b)) =
      (progsOf X files).filter fun p => decide (p.path ≠ b) := by
  unfold progsOf
  rw [List.filter_map]
  rfl

theorem pathsOf_filter (progs : List Prog) (b : Name) :
    (progs.filter fun p => decide (p.path ≠ b)).map (·.path) =
      (progs.map (·.path)).filter fun p => decide (p ≠ b) := by
  rw [List.filter_map]
  rfl

end Paroxy.Collect
