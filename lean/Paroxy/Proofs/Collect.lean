/-
Helper lemmas for C14: the two loops of the collection as maps, the decomposition of `collect`, the
labels of invalid/empty programs, and the independence of a record from the other files.
-/
import Paroxy.Spec.Collect
import Paroxy.Proofs.MakeDb
namespace Paroxy.Collect
open Paroxy Paroxy.DB

variable {Tree : Type} {X : Ext Tree}

/-! ## The two loops -/

theorem cleanAll_ok {files : List (Name × Name)} {r : List (Name × Name)}
    (h : cleanAll X files = .ok r) :
    CleanOk X files ∧ r = files.map fun f => (f.1, srcOf X f) := by
  induction files generalizing r with
  | nil =>
    simp only [cleanAll, Except.ok.injEq] at h
    subst h
    exact ⟨fun f hf => absurd hf (by simp), rfl⟩
  | cons f t ih =>
    obtain ⟨p, raw⟩ := f
    unfold cleanAll at h
    cases hc : X.clean raw with
    | error e => rw [hc] at h; cases h
    | ok s =>
      rw [hc] at h
      simp only at h
      cases ht : cleanAll X t with
      | error e => rw [ht] at h; cases h
      | ok r' =>
        rw [ht] at h
        simp only [Except.ok.injEq] at h
        obtain ⟨hok, hr⟩ := ih ht
        subst h
        refine ⟨?_, ?_⟩
        · intro g hg
          rcases List.mem_cons.mp hg with e | hg'
          · rw [e]; exact ⟨s, hc⟩
          · exact hok g hg'
        · simp only [List.map_cons, srcOf, cleanD, hc, hr]

theorem cleanAll_of_ok {files : List (Name × Name)} (h : CleanOk X files) :
    cleanAll X files = .ok (files.map fun f => (f.1, srcOf X f)) := by
  induction files with
  | nil => rfl
  | cons f t ih =>
    obtain ⟨p, raw⟩ := f
    obtain ⟨s, hs⟩ := h (p, raw) List.mem_cons_self
    have ht := ih (fun g hg => h g (List.mem_cons_of_mem _ hg))
    unfold cleanAll
    simp only at hs
    rw [hs]
    simp only
    rw [ht]
    simp only [List.map_cons, srcOf, cleanD, hs]

theorem cleanAll_error {files : List (Name × Name)} {e : Exc} (h : cleanAll X files = .error e) :
    ∃ f ∈ files, X.clean f.2 = .error e := by
  induction files with
  | nil => cases h
  | cons f t ih =>
    obtain ⟨p, raw⟩ := f
    unfold cleanAll at h
    cases hc : X.clean raw with
    | error e' =>
      rw [hc] at h
      simp only [Except.error.injEq] at h
      subst h
      exact ⟨(p, raw), List.mem_cons_self, hc⟩
    | ok s =>
      rw [hc] at h
      simp only at h
      cases ht : cleanAll X t with
      | error e' =>
        rw [ht] at h
        simp only [Except.error.injEq] at h
        subst h
        obtain ⟨g, hg, hge⟩ := ih ht
        exact ⟨g, List.mem_cons_of_mem _ hg, hge⟩
      | ok r' => rw [ht] at h; cases h

/-- A raising `clean` on any file aborts the whole loop. -/
theorem cleanAll_aborts {files : List (Name × Name)} {f : Name × Name} {e : Exc}
    (hf : f ∈ files) (he : X.clean f.2 = .error e) : ∃ e', cleanAll X files = .error e' := by
  cases h : cleanAll X files with
  | error e' => exact ⟨e', rfl⟩
  | ok r =>
    obtain ⟨s, hs⟩ := (cleanAll_ok h).1 f hf
    rw [he] at hs; cases hs

def ParseOk (X : Ext Tree) (srcs : List (Name × Name)) : Prop :=
  ∀ f ∈ srcs, ∃ ls, parseProgram X f.2 = .ok ls

def progOfSrc (X : Ext Tree) (f : Name × Name) : Prog :=
  { path := f.1, timestamp := [], source := f.2, labels := labelsD X f.2 }

theorem parseAll_ok {srcs : List (Name × Name)} {r : List Prog} (h : parseAll X srcs = .ok r) :
    ParseOk X srcs ∧ r = srcs.map (progOfSrc X) := by
  induction srcs generalizing r with
  | nil =>
    simp only [parseAll, Except.ok.injEq] at h
    subst h
    exact ⟨fun f hf => absurd hf (by simp), rfl⟩
  | cons f t ih =>
    obtain ⟨p, src⟩ := f
    unfold parseAll at h
    cases hc : parseProgram X src with
    | error e => rw [hc] at h; cases h
    | ok ls =>
      rw [hc] at h
      simp only at h
      cases ht : parseAll X t with
      | error e => rw [ht] at h; cases h
      | ok r' =>
        rw [ht] at h
        simp only [Except.ok.injEq] at h
        obtain ⟨hok, hr⟩ := ih ht
        subst h
        refine ⟨?_, ?_⟩
        · intro g hg
          rcases List.mem_cons.mp hg with e | hg'
          · rw [e]; exact ⟨ls, hc⟩
          · exact hok g hg'
        · simp only [List.map_cons, progOfSrc, labelsD, hc, hr]

theorem parseAll_of_ok {srcs : List (Name × Name)} (h : ParseOk X srcs) :
    parseAll X srcs = .ok (srcs.map (progOfSrc X)) := by
  induction srcs with
  | nil => rfl
  | cons f t ih =>
    obtain ⟨p, src⟩ := f
    obtain ⟨ls, hls⟩ := h (p, src) List.mem_cons_self
    have ht := ih (fun g hg => h g (List.mem_cons_of_mem _ hg))
    unfold parseAll
    simp only at hls
    rw [hls]
    simp only
    rw [ht]
    simp only [List.map_cons, progOfSrc, labelsD, hls]

theorem map_progOfSrc (files : List (Name × Name)) :
    (files.map fun f => (f.1, srcOf X f)).map (progOfSrc X) = progsOf X files := by
  simp [progsOf, progOf, progOfSrc, List.map_map, Function.comp_def]

/-! ## The parser wrapper -/

theorem parseProgram_total (hp : ParseCaught X) (hf : FeaturesTotal X) (src : Name) :
    ∃ ls, parseProgram X src = .ok ls := by
  unfold parseProgram
  cases h : X.parse src with
  | error e => simp [(hp src e h).1]
  | ok t =>
    simp only
    split
    · exact ⟨_, rfl⟩
    · exact hf src t

theorem parseProgram_invalid {src : Name} {e : Exc} (h : X.parse src = .error e)
    (hc : e.caught = true) : parseProgram X src = .ok [astLabel e.name src] := by
  unfold parseProgram; rw [h]; simp [hc]

theorem parseProgram_empty {src : Name} {t : Tree} (h : X.parse src = .ok t)
    (he : X.isEmpty t = true) : parseProgram X src = .ok [emptyLabel] := by
  unfold parseProgram; rw [h]; simp [he]

/-! ## Decomposition of `collect` -/

theorem collect_ok {toTaxa : Name → List Label → List Taxon} {files : List (Name × Name)} {db : Db}
    (h : collect X toTaxa files = .ok db) :
    CleanOk X files ∧ ParseOk X (files.map fun f => (f.1, srcOf X f)) ∧
      makeDb toTaxa (progsOf X files) = .ok db := by
  unfold collect at h
  cases hc : cleanAll X files with
  | error e => rw [hc] at h; cases h
  | ok srcs =>
    rw [hc] at h
    simp only at h
    obtain ⟨hok, hs⟩ := cleanAll_ok hc
    cases hp : parseAll X srcs with
    | error e => rw [hp] at h; cases h
    | ok progs =>
      rw [hp] at h
      simp only at h
      obtain ⟨hpok, hr⟩ := parseAll_ok hp
      cases hm : makeDb toTaxa progs with
      | error e => rw [hm] at h; cases e; cases h
      | ok db' =>
        rw [hm] at h
        simp only [Except.ok.injEq] at h
        subst h
        rw [hs] at hpok hr
        rw [map_progOfSrc] at hr
        rw [hr] at hm
        exact ⟨hok, hpok, hm⟩

theorem collect_of {toTaxa : Name → List Label → List Taxon} {files : List (Name × Name)} {db : Db}
    (hc : CleanOk X files) (hp : ParseOk X (files.map fun f => (f.1, srcOf X f)))
    (hm : makeDb toTaxa (progsOf X files) = .ok db) : collect X toTaxa files = .ok db := by
  unfold collect
  rw [cleanAll_of_ok hc]
  simp only
  rw [parseAll_of_ok hp]
  simp only
  rw [map_progOfSrc, hm]

/-- A raising `clean` on any file aborts `collect`: no database at all. -/
theorem collect_aborts {toTaxa : Name → List Label → List Taxon} {files : List (Name × Name)}
    {f : Name × Name} {e : Exc} (hf : f ∈ files) (he : X.clean f.2 = .error e) :
    ∃ e', collect X toTaxa files = .error e' := by
  obtain ⟨e', h⟩ := cleanAll_aborts hf he
  exact ⟨e', by unfold collect; rw [h]⟩

/-! ## Labels of invalid and empty programs are not touched by the relabelling -/

theorem dropPrefix?_eq {p s r : Name} (h : dropPrefix? p s = some r) : s = p ++ r := by
  induction p generalizing s with
  | nil => simp only [dropPrefix?, Option.some.injEq] at h; simp [h]
  | cons a t ih =>
    cases s with
    | nil => simp [dropPrefix?] at h
    | cons c cs =>
      unfold dropPrefix? at h
      split at h
      · rename_i hac
        rw [hac, ih h]; rfl
      · cases h

theorem importAt?_colon {s g : Name} (h : importAt? s = some g) : cColon ∈ s := by
  unfold importAt? at h
  cases h1 : dropPrefix? sImport s with
  | none => rw [h1] at h; cases h
  | some r =>
    rw [h1] at h
    simp only at h
    have hs := dropPrefix?_eq h1
    cases h2 : dropPrefix? (sModule ++ [cColon]) r with
    | some r' =>
      have hr := dropPrefix?_eq h2
      rw [hs, hr]; simp
    | none =>
      rw [h2] at h
      simp only at h
      cases h3 : dropPrefix? [cColon] r with
      | some r' =>
        have hr := dropPrefix?_eq h3
        rw [hs, hr]; simp
      | none => rw [h3] at h; cases h

theorem searchImport?_colon {s g : Name} (h : searchImport? s = some g) : cColon ∈ s := by
  induction s with
  | nil => cases h
  | cons c cs ih =>
    unfold searchImport? at h
    cases h1 : importAt? (c :: cs) with
    | some g' => exact importAt?_colon h1
    | none =>
      rw [h1] at h
      exact List.mem_cons_of_mem _ (ih h)

/-- No suffix of `"ast_construction:" ++ n` starts an import label when `n` has no colon. -/
theorem searchImport?_ast {n : Name} (hn : cColon ∉ n) : searchImport? (sAst ++ n) = none := by
  have hn' : searchImport? n = none := by
    cases h : searchImport? n with
    | none => rfl
    | some g => exact absurd (searchImport?_colon h) hn
  have step : ∀ (c : Nat) (s : Name), importAt? (c :: s) = none → searchImport? s = none →
      searchImport? (c :: s) = none := by
    intro c s h1 h2
    unfold searchImport?
    rw [h1]; exact h2
  have hat : ∀ (c : Nat) (s : Name), c ≠ 105 → importAt? (c :: s) = none := by
    intro c s hc
    unfold importAt?
    have : dropPrefix? sImport (c :: s) = none := by
      unfold sImport dropPrefix?
      have : ¬ (105 = c) := fun e => hc e.symm
      simp [this]
    rw [this]
  -- the only `i` of "ast_construction:" is followed by `o`, not `m`
  have hat_i : ∀ (s : Name), importAt? (105 :: 111 :: s) = none := by
    intro s
    unfold importAt?
    have : dropPrefix? sImport (105 :: 111 :: s) = none := by
      simp [sImport, dropPrefix?]
    rw [this]
  unfold sAst
  simp only [List.cons_append, List.nil_append]
  apply step _ _ (hat _ _ (by decide))
  apply step _ _ (hat _ _ (by decide))
  apply step _ _ (hat _ _ (by decide))
  apply step _ _ (hat _ _ (by decide))
  apply step _ _ (hat _ _ (by decide))
  apply step _ _ (hat _ _ (by decide))
  apply step _ _ (hat _ _ (by decide))
  apply step _ _ (hat _ _ (by decide))
  apply step _ _ (hat _ _ (by decide))
  apply step _ _ (hat _ _ (by decide))
  apply step _ _ (hat _ _ (by decide))
  apply step _ _ (hat _ _ (by decide))
  apply step _ _ (hat _ _ (by decide))
  apply step _ _ (hat_i _)
  apply step _ _ (hat _ _ (by decide))
  apply step _ _ (hat _ _ (by decide))
  apply step _ _ (hat _ _ (by decide))
  exact hn'

theorem relabelName_ast (internal : List Name) {n : Name} (hn : cColon ∉ n) :
    relabelName internal (sAst ++ n) = sAst ++ n := by
  unfold relabelName
  rw [searchImport?_ast hn]

theorem sEmpty_noColon : cColon ∉ sEmpty := by decide

theorem preparedLabels_single (l : Label) :
    preparedLabels [l] = [(l.name, preparedSpans l.spans)] := rfl

theorem preparedSpans_single (s : Span3) : preparedSpans [s] = [Span3.poor s] := by
  simp [preparedSpans, sortU, insortNew, insort]

/-! ## A record does not depend on the other files -/

/-- `g`'s labels name no module whose dotted path is `b`'s. -/
def NotImporting (X : Ext Tree) (g : Name × Name) (b : Name) : Prop :=
  ∀ l ∈ labelsD X (srcOf X g), ∀ m, searchImport? l.name = some m →
    m ++ sPy ≠ replaceChar cSlash cDot b

theorem mem_internalPaths {paths : List Name} {x : Name} :
    x ∈ internalPaths paths ↔ (∃ p ∈ paths, replaceChar cSlash cDot p = x) ∨ x = sPy := by
  simp [internalPaths]

theorem relabelName_filter {paths : List Name} {b n : Name}
    (h : ∀ m, searchImport? n = some m → m ++ sPy ≠ replaceChar cSlash cDot b) :
    relabelName (internalPaths (paths.filter fun p => decide (p ≠ b))) n =
      relabelName (internalPaths paths) n := by
  unfold relabelName
  cases hs : searchImport? n with
  | none => rfl
  | some m =>
    simp only
    have hne := h m hs
    have : (m ++ sPy ∈ internalPaths (paths.filter fun p => decide (p ≠ b))) ↔
        (m ++ sPy ∈ internalPaths paths) := by
      rw [mem_internalPaths, mem_internalPaths]
      constructor
      · rintro (⟨p, hp, he⟩ | he)
        · exact Or.inl ⟨p, (List.mem_filter.mp hp).1, he⟩
        · exact Or.inr he
      · rintro (⟨p, hp, he⟩ | he)
        · refine Or.inl ⟨p, List.mem_filter.mpr ⟨hp, ?_⟩, he⟩
          simp only [ne_eq, decide_not, Bool.not_eq_eq_eq_not, Bool.not_true, decide_eq_false_iff_not]
          intro hpb
          rw [hpb] at he
          exact hne he.symm
        · exact Or.inr he
    by_cases hm : m ++ sPy ∈ internalPaths paths
    · rw [if_pos hm, if_pos (this.mpr hm)]
    · rw [if_neg hm, if_neg (fun h' => hm (this.mp h'))]

theorem progsOf_filter (files : List (Name × Name)) (b : Name) :
    progsOf X (files.filter fun f => decide (f.1 ≠ b)) =
      (progsOf X files).filter fun p => decide (p.path ≠ b) := by
  unfold progsOf
  rw [List.filter_map]
  rfl

theorem pathsOf_filter (progs : List Prog) (b : Name) :
    (progs.filter fun p => decide (p.path ≠ b)).map (·.path) =
      (progs.map (·.path)).filter fun p => decide (p ≠ b) := by
  rw [List.filter_map]
  rfl

end Paroxy.Collect
