/-
The combinatorial core of C10, one span at a time.

Every Counter operation of `deduplicated_taxa` acts count-wise, so for a fixed span `s` the whole
function is the integer program `outerZ` below on the list `(name, count of s)`. The three clauses
of the property are proved here for that program, for an abstract "proper ancestor" relation `desc`
(`desc a d` = `a` is a proper ancestor of `d`) which is a strict order whose up-sets are chains
(a forest), and any list order in which no name comes before one of its ancestors.
-/
import Paroxy.Model.Dedup
namespace Paroxy.DedupZ
variable {ν : Type} [DecidableEq ν]
set_option linter.unusedSectionVars false
set_option linter.unusedSimpArgs false

structure AncRel (desc : ν → ν → Bool) : Prop where
  irrefl : ∀ a, desc a a = false
  trans : ∀ {a b c}, desc a b = true → desc b c = true → desc a c = true
  chain : ∀ {a b c}, desc a c = true → desc b c = true → a = b ∨ desc a b = true ∨ desc b a = true

def getZ : List (ν × Int) → ν → Int
  | [], _ => 0
  | (m, b) :: t, n => if m = n then b else getZ t n

@[simp] theorem getZ_nil (n : ν) : getZ ([] : List (ν × Int)) n = 0 := rfl
@[simp] theorem getZ_cons (m : ν) (b : Int) (t : List (ν × Int)) (n : ν) :
    getZ ((m, b) :: t) n = if m = n then b else getZ t n := rfl

theorem getZ_of_not_mem {l : List (ν × Int)} {n : ν} (h : n ∉ l.map Prod.fst) : getZ l n = 0 := by
  induction l with
  | nil => rfl
  | cons e t ih =>
    obtain ⟨m, b⟩ := e
    simp only [List.map_cons, List.mem_cons, not_or] at h
    simp [Ne.symm h.1, ih h.2]

theorem getZ_of_mem {l : List (ν × Int)} (hl : (l.map Prod.fst).Nodup) {n : ν} {b : Int}
    (h : (n, b) ∈ l) : getZ l n = b := by
  induction l with
  | nil => cases h
  | cons e t ih =>
    obtain ⟨m, c⟩ := e
    simp only [List.map_cons, List.nodup_cons] at hl
    rcases List.mem_cons.mp h with h | h
    · cases h; simp
    · have : m ≠ n := by
        intro hk; apply hl.1; rw [hk]; exact List.mem_map_of_mem (f := Prod.fst) h
      simp [this, ih hl.2 h]

theorem mem_of_mem_names {l : List (ν × Int)} {n : ν} (h : n ∈ l.map Prod.fst) :
    (n, getZ l n) ∈ l := by
  induction l with
  | nil => cases h
  | cons e t ih =>
    obtain ⟨m, c⟩ := e
    by_cases hm : m = n
    · subst hm; simp
    · simp only [List.map_cons, List.mem_cons] at h
      rcases h with h | h
      · exact absurd h.symm hm
      · simp [hm, ih h]

theorem getZ_nonneg {l : List (ν × Int)} (h : ∀ e ∈ l, 0 ≤ e.2) (n : ν) : 0 ≤ getZ l n := by
  induction l with
  | nil => simp
  | cons e t ih =>
    obtain ⟨m, c⟩ := e
    simp only [getZ_cons]
    split
    · exact h (m, c) List.mem_cons_self
    · exact ih fun e he => h e (List.mem_cons_of_mem _ he)

variable (desc : ν → ν → Bool)

/-- Inner loop on the counts of one span. -/
def innerZ (name : ν) : List (ν × Int) → Int → List (ν × Int)
  | [], _ => []
  | (p, b) :: rest, cur =>
    if desc p name then (p, b - cur) :: innerZ name rest (max (cur - b) 0)
    else (p, b) :: innerZ name rest cur

/-- The value of the running variable `spans` (at this span) after scanning a list. -/
def curZ (name : ν) : List (ν × Int) → Int → Int
  | [], cur => cur
  | (p, b) :: rest, cur =>
    if desc p name then curZ name rest (max (cur - b) 0) else curZ name rest cur

def outerZ : List (ν × Int) → List (ν × Int) → List (ν × Int)
  | doneRev, [] => doneRev.reverse
  | doneRev, (n, r) :: todo => outerZ ((n, r) :: innerZ desc n doneRev r) todo

theorem names_innerZ (name : ν) (prev : List (ν × Int)) :
    ∀ cur, (innerZ desc name prev cur).map Prod.fst = prev.map Prod.fst := by
  induction prev with
  | nil => intro cur; rfl
  | cons e t ih =>
    obtain ⟨p, b⟩ := e
    intro cur
    simp only [innerZ]
    split <;> simp [ih]

theorem innerZ_append (name : ν) (l₁ l₂ : List (ν × Int)) :
    ∀ cur, innerZ desc name (l₁ ++ l₂) cur
      = innerZ desc name l₁ cur ++ innerZ desc name l₂ (curZ desc name l₁ cur) := by
  induction l₁ with
  | nil => intro cur; rfl
  | cons e t ih =>
    obtain ⟨p, b⟩ := e
    intro cur
    simp only [List.cons_append, innerZ, curZ]
    split <;> simp [ih]

theorem curZ_nonneg (name : ν) (l : List (ν × Int)) : ∀ cur, 0 ≤ cur → 0 ≤ curZ desc name l cur := by
  induction l with
  | nil => intro cur h; exact h
  | cons e t ih =>
    obtain ⟨p, b⟩ := e
    intro cur h
    simp only [curZ]
    split
    · exact ih _ (by omega)
    · exact ih _ h

theorem curZ_ge (name : ν) (l : List (ν × Int))
    (hl : ∀ e ∈ l, desc e.1 name = true → e.2 ≤ 0) :
    ∀ cur c, c ≤ cur → c ≤ curZ desc name l cur := by
  induction l with
  | nil => intro cur c h; exact h
  | cons e t ih =>
    obtain ⟨p, b⟩ := e
    intro cur c h
    have ih' := ih fun e he => hl e (List.mem_cons_of_mem _ he)
    simp only [curZ]
    split
    · rename_i hd
      have := hl (p, b) List.mem_cons_self hd
      exact ih' _ _ (by simp only at this; omega)
    · exact ih' _ _ h

theorem mem_innerZ_le (name : ν) (prev : List (ν × Int)) :
    ∀ cur, 0 ≤ cur → ∀ p b', (p, b') ∈ innerZ desc name prev cur → ∃ b, (p, b) ∈ prev ∧ b' ≤ b := by
  induction prev with
  | nil => intro cur _ p b' h; cases h
  | cons e t ih =>
    obtain ⟨q, c⟩ := e
    intro cur hcur p b' h
    simp only [innerZ] at h
    split at h
    · rcases List.mem_cons.mp h with h | h
      · cases h; exact ⟨c, List.mem_cons_self, by omega⟩
      · obtain ⟨b, hb, hle⟩ := ih _ (by omega) p b' h
        exact ⟨b, List.mem_cons_of_mem _ hb, hle⟩
    · rcases List.mem_cons.mp h with h | h
      · cases h; exact ⟨c, List.mem_cons_self, Int.le_refl _⟩
      · obtain ⟨b, hb, hle⟩ := ih _ hcur p b' h
        exact ⟨b, List.mem_cons_of_mem _ hb, hle⟩

/-- Induction principle over the outer loop: `proc` is the prefix already processed (raw values),
`done` the reversed prefix with its current values. -/
theorem outerZ_ind (L : List (ν × Int)) (P : List (ν × Int) → List (ν × Int) → Prop)
    (h0 : P [] [])
    (hs : ∀ proc done n r todo, L = proc ++ (n, r) :: todo → P proc done →
      P (proc ++ [(n, r)]) ((n, r) :: innerZ desc n done r)) :
    P L (outerZ desc [] L).reverse := by
  suffices h : ∀ todo proc done, L = proc ++ todo → P proc done →
      P L (outerZ desc done todo).reverse from h L [] [] rfl h0
  intro todo
  induction todo with
  | nil =>
    intro proc done hL hP
    simp only [List.append_nil] at hL
    subst hL
    simpa [outerZ] using hP
  | cons e t ih =>
    obtain ⟨n, r⟩ := e
    intro proc done hL hP
    simp only [outerZ]
    exact ih (proc ++ [(n, r)]) _ (by simp [hL]) (hs proc done n r t hL hP)

/-- Names are preserved, in order. -/
theorem names_outerZ (L : List (ν × Int)) : (outerZ desc [] L).map Prod.fst = L.map Prod.fst := by
  have := outerZ_ind desc L (fun proc done => done.map Prod.fst = (proc.map Prod.fst).reverse) rfl
    (by
      intro proc done n r todo _ h
      simp [names_innerZ, h])
  simpa [List.map_reverse, List.reverse_eq_iff] using this

section Theorems
variable {desc}

/-! ### Clause 1: no invention -/

theorem Z_no_invention (L : List (ν × Int)) (hnd : (L.map Prod.fst).Nodup)
    (hnn : ∀ e ∈ L, 0 ≤ e.2) (n : ν) (b : Int) (h : (n, b) ∈ outerZ desc [] L) :
    b ≤ getZ L n := by
  have := outerZ_ind desc L (fun _ done => ∀ p b, (p, b) ∈ done → b ≤ getZ L p)
    (by intro p b h; cases h)
    (by
      intro proc done n r todo hL hP p b hm
      rcases List.mem_cons.mp hm with hm | hm
      · have hmem : (p, b) ∈ L := by rw [hL, hm]; simp
        exact Int.le_of_eq (getZ_of_mem hnd hmem).symm
      · have hr : 0 ≤ r := hnn (n, r) (by rw [hL]; simp)
        obtain ⟨b₀, hb₀, hle⟩ := mem_innerZ_le desc n done r hr p b hm
        exact Int.le_trans hle (hP p b₀ hb₀))
  exact this n b (by simpa using h)

/-! ### Clause 2: unshared kept -/

/-- None of the proper descendants of `p` in `L` carries the span. -/
def Unshared (desc : ν → ν → Bool) (L : List (ν × Int)) (p : ν) : Prop :=
  ∀ d ∈ L.map Prod.fst, desc p d = true → getZ L d = 0

theorem unshared_of_desc (hR : AncRel desc) {L : List (ν × Int)} {p q : ν}
    (hq : Unshared desc L q) (h : desc q p = true) : Unshared desc L p :=
  fun d hd hpd => hq d hd (hR.trans h hpd)

theorem inner_unshared (hR : AncRel desc) (L : List (ν × Int)) (hnn : ∀ e ∈ L, 0 ≤ e.2) (d : ν)
    (prev : List (ν × Int)) :
    (prev.map Prod.fst).Pairwise (fun x y => desc x y = false) →
    (prev.map Prod.fst).Nodup →
    (∀ p b, (p, b) ∈ prev → Unshared desc L p → b = getZ L p) →
    ∀ cur, (cur = 0 ∨ ∀ q ∈ prev.map Prod.fst, desc q d = true → ¬ Unshared desc L q) →
    ∀ p b', (p, b') ∈ innerZ desc d prev cur → Unshared desc L p → b' = getZ L p := by
  induction prev with
  | nil => intro _ _ _ cur _ p b' h; cases h
  | cons e t ih =>
    obtain ⟨q, c⟩ := e
    intro hpw hnd hB cur hcur p b' hm hU
    simp only [List.map_cons, List.pairwise_cons, List.nodup_cons] at hpw hnd
    have hBt : ∀ p b, (p, b) ∈ t → Unshared desc L p → b = getZ L p :=
      fun p b h => hB p b (List.mem_cons_of_mem _ h)
    have ih' := ih hpw.2 hnd.2 hBt
    simp only [innerZ] at hm
    split at hm
    · rename_i hqd
      rcases hcur with h0 | hno
      · subst h0
        rcases List.mem_cons.mp hm with hm | hm
        · cases hm
          have := hB q c List.mem_cons_self hU
          omega
        · by_cases hUq : Unshared desc L q
          · have hc : c = getZ L q := hB q c List.mem_cons_self hUq
            have : 0 ≤ getZ L q := getZ_nonneg hnn q
            exact ih' _ (Or.inl (by omega)) p b' hm hU
          · refine ih' _ (Or.inr ?_) p b' hm hU
            intro q' hq' hq'd hUq'
            rcases hR.chain hqd hq'd with h | h | h
            · subst h; exact hnd.1 hq'
            · have := hpw.1 q' hq'; simp [h] at this
            · exact hUq (unshared_of_desc hR hUq' h)
      · rcases List.mem_cons.mp hm with hm | hm
        · cases hm
          exact absurd hU (hno q (by simp) hqd)
        · exact ih' _ (Or.inr fun q' hq' => hno q' (by simp [hq'])) p b' hm hU
    · rcases List.mem_cons.mp hm with hm | hm
      · cases hm; exact hB q c List.mem_cons_self hU
      · refine ih' _ ?_ p b' hm hU
        rcases hcur with h0 | hno
        · exact Or.inl h0
        · exact Or.inr fun q' hq' => hno q' (by simp [hq'])

/-- Facts about the position reached by the outer loop. -/
theorem done_order {L proc todo : List (ν × Int)} {done : List (ν × Int)} {n : ν} {r : Int}
    (hord : (L.map Prod.fst).Pairwise fun x y => desc y x = false)
    (hnd : (L.map Prod.fst).Nodup)
    (hL : L = proc ++ (n, r) :: todo)
    (hnames : done.map Prod.fst = (proc.map Prod.fst).reverse) :
    (done.map Prod.fst).Pairwise (fun x y => desc x y = false) ∧ (done.map Prod.fst).Nodup ∧
      n ∉ done.map Prod.fst ∧ (∀ x ∈ done.map Prod.fst, x ∈ L.map Prod.fst) ∧
      (∀ x ∈ proc.map Prod.fst, desc n x = false) ∧ getZ L n = r := by
  subst hL
  simp only [List.map_append, List.map_cons] at hord hnd
  rw [List.pairwise_append] at hord
  rw [List.nodup_append] at hnd
  refine ⟨?_, ?_, ?_, ?_, ?_, ?_⟩
  · rw [hnames, List.pairwise_reverse]; exact hord.1
  · rw [hnames]
    exact List.pairwise_reverse.mpr (List.Pairwise.imp Ne.symm hnd.1)
  · rw [hnames, List.mem_reverse]
    intro h; exact hnd.2.2 n h n (by simp) rfl
  · intro x hx
    rw [hnames, List.mem_reverse] at hx
    simp [hx]
  · intro x hx
    exact hord.2.2 x hx n (by simp)
  · apply getZ_of_mem
    · simp only [List.map_append, List.map_cons]
      rw [List.nodup_append]; exact hnd
    · simp

theorem Z_unshared_kept (hR : AncRel desc) (L : List (ν × Int)) (hnd : (L.map Prod.fst).Nodup)
    (hord : (L.map Prod.fst).Pairwise fun x y => desc y x = false)
    (hnn : ∀ e ∈ L, 0 ≤ e.2) (n : ν) (hU : Unshared desc L n) (b : Int)
    (h : (n, b) ∈ outerZ desc [] L) : b = getZ L n := by
  have := outerZ_ind desc L (fun proc done => done.map Prod.fst = (proc.map Prod.fst).reverse ∧
      ∀ p b, (p, b) ∈ done → Unshared desc L p → b = getZ L p)
    ⟨rfl, by intro p b h; cases h⟩
    (by
      intro proc done d r todo hL ⟨hnames, hP⟩
      obtain ⟨hpw, hndd, _, _, _, hget⟩ := done_order hord hnd hL hnames
      refine ⟨by simp [names_innerZ, hnames], ?_⟩
      intro p b hm hUp
      rcases List.mem_cons.mp hm with hm | hm
      · cases hm; exact hget.symm
      · refine inner_unshared hR L hnn d done hpw hndd hP r ?_ p b hm hUp
        by_cases hr : r = 0
        · exact Or.inl hr
        · refine Or.inr fun q _ hqd hUq => hr ?_
          rw [← hget]
          exact hUq d (by rw [hL]; simp) hqd)
  exact this.2 n b (by simpa using h) hU

/-! ### Clause 3: covered lost -/

/-- `d` is one of the nearest proper descendants of `n` carrying the span. -/
def nearZ (desc : ν → ν → Bool) (L : List (ν × Int)) (n d : ν) : Bool :=
  desc n d && decide (0 < getZ L d) &&
    L.all fun e => !(desc n e.1 && desc e.1 d && decide (0 < getZ L e.1))

def nearSumZ (desc : ν → ν → Bool) (L : List (ν × Int)) (n : ν) (P : List (ν × Int)) : Int :=
  ((P.filter fun e => nearZ desc L n e.1).map Prod.snd).sum

theorem nearSumZ_snoc (L : List (ν × Int)) (n : ν) (P : List (ν × Int)) (d : ν) (r : Int) :
    nearSumZ desc L n (P ++ [(d, r)]) = nearSumZ desc L n P + if nearZ desc L n d then r else 0 := by
  unfold nearSumZ
  rw [List.filter_append, List.map_append, List.sum_append]
  by_cases h : nearZ desc L n d <;> simp [List.filter_cons, h]

theorem Z_covered_lost (hR : AncRel desc) (L : List (ν × Int)) (hnd : (L.map Prod.fst).Nodup)
    (hord : (L.map Prod.fst).Pairwise fun x y => desc y x = false)
    (hnn : ∀ e ∈ L, 0 ≤ e.2) (n : ν) (hcov : getZ L n ≤ nearSumZ desc L n L) (b : Int)
    (h : (n, b) ∈ outerZ desc [] L) : b ≤ 0 := by
  have := outerZ_ind desc L (fun proc done => done.map Prod.fst = (proc.map Prod.fst).reverse ∧
      (∀ p b, (p, b) ∈ done → b ≤ getZ L p) ∧
      ∀ b, (n, b) ∈ done → b ≤ getZ L n - nearSumZ desc L n proc)
    ⟨rfl, (by intro p b h; cases h), (by intro b h; cases h)⟩
    (by
      intro proc done d r todo hL ⟨hnames, hA, hC⟩
      obtain ⟨hpw, hndd, hdnot, hsub, hbefore, hget⟩ := done_order hord hnd hL hnames
      have hr : 0 ≤ r := hnn (d, r) (by rw [hL]; simp)
      refine ⟨by simp [names_innerZ, hnames], ?_, ?_⟩
      · intro p b hm
        rcases List.mem_cons.mp hm with hm | hm
        · cases hm; exact Int.le_of_eq hget.symm
        · obtain ⟨b₀, hb₀, hle⟩ := mem_innerZ_le desc d done r hr p b hm
          exact Int.le_trans hle (hA p b₀ hb₀)
      · intro b' hm
        rw [nearSumZ_snoc]
        rcases List.mem_cons.mp hm with hm | hm
        · -- `n` itself is being processed: none of its descendants has been seen yet
          cases hm
          have hnn' : nearZ desc L n n = false := by simp [nearZ, hR.irrefl]
          have h0 : nearSumZ desc L n proc = 0 := by
            unfold nearSumZ
            have : (proc.filter fun e => nearZ desc L n e.1) = [] := by
              rw [List.filter_eq_nil_iff]
              intro e he
              have := hbefore e.1 (List.mem_map_of_mem he)
              simp [nearZ, this]
            simp [this]
          simp only [hnn', h0, hget]
          simp
        · -- `n` is in the processed prefix
          have hnin : n ∈ done.map Prod.fst := by
            rw [← names_innerZ desc d done r]; exact List.mem_map_of_mem (f := Prod.fst) hm
          have hmem₀ := mem_of_mem_names hnin
          obtain ⟨pre, post, hsplit⟩ := List.append_of_mem hmem₀
          have hC₀ := hC _ hmem₀
          generalize getZ done n = b₀ at hsplit hC₀ hmem₀
          -- the entry of `n` after the scan
          have hx : (n, if desc n d then b₀ - curZ desc d pre r else b₀) ∈ innerZ desc d done r := by
            rw [hsplit, innerZ_append]
            apply List.mem_append_right
            simp only [innerZ]
            split <;> simp
          have hnd' : ((innerZ desc d done r).map Prod.fst).Nodup := by
            rw [names_innerZ]; exact hndd
          have hb' : b' = if desc n d then b₀ - curZ desc d pre r else b₀ := by
            rw [← getZ_of_mem hnd' hm, ← getZ_of_mem hnd' hx]
          have hc0 : 0 ≤ curZ desc d pre r := curZ_nonneg desc d pre r hr
          by_cases hnear : nearZ desc L n d = true
          · simp only [hnear, if_true]
            have hnear' := hnear
            simp only [nearZ, Bool.and_eq_true, decide_eq_true_eq, List.all_eq_true] at hnear'
            obtain ⟨⟨hnd1, _⟩, hall⟩ := hnear'
            have hge : r ≤ curZ desc d pre r := by
              apply curZ_ge desc d pre _ r r (Int.le_refl _)
              intro e he hed
              obtain ⟨m, bm⟩ := e
              have hmdone : (m, bm) ∈ done := by rw [hsplit]; simp [he]
              have hmn : m ∈ pre.map Prod.fst := List.mem_map_of_mem (f := Prod.fst) he
              rw [hsplit] at hpw hndd
              simp only [List.map_append, List.map_cons] at hpw hndd
              rw [List.pairwise_append] at hpw
              rw [List.nodup_append] at hndd
              rcases hR.chain hed hnd1 with h | h | h
              · exact absurd h (hndd.2.2 m hmn n (by simp))
              · have := hpw.2.2 m hmn n (by simp); simp [h] at this
              · have hmL : m ∈ L.map Prod.fst := hsub m (List.mem_map_of_mem (f := Prod.fst) hmdone)
                have hallm := hall _ (mem_of_mem_names hmL)
                simp only [h, hed, Bool.true_and, Bool.not_eq_true', decide_eq_false_iff_not] at hallm
                have := hA m bm hmdone
                simp only; omega
            simp only [hnd1, if_true] at hb'
            omega
          · rw [Bool.not_eq_true] at hnear
            simp only [hnear, Bool.false_eq_true, if_false]
            split at hb' <;> omega)
  have hfin := this.2.2 b (by simpa using h)
  omega

end Theorems
end Paroxy.DedupZ
