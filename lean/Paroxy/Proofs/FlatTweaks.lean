/-
C15 helper lemmas, part 4: line-level passes vs tree-level tweaks.
-/
import Paroxy.Spec.FlatTweaks
import Paroxy.Proofs.FlatPath
import Paroxy.Proofs.NodeFeature
namespace Paroxy.Flat

/-! ## Key part of a `key=value` line -/

theorem keyPart_keyval : ∀ (K V : Str), '=' ∉ K → keyPart (K ++ '=' :: V) = K
  | [], V, _ => by simp [keyPart]
  | c :: K, V, h => by
    have hc : c ≠ '=' := fun e => h (by simp [e])
    have hK : '=' ∉ K := fun e => h (List.mem_cons_of_mem _ e)
    have ih := keyPart_keyval K V hK
    simp only [keyPart] at ih ⊢
    simp [List.takeWhile, hc, ih]

theorem drop_keyPart_keyval (K V : Str) (h : '=' ∉ K) :
    (K ++ '=' :: V).drop (keyPart (K ++ '=' :: V)).length = '=' :: V := by
  rw [keyPart_keyval K V h]; exact List.drop_left

/-! ## `unquote` -/

theorem unquoteLine_keyval' {K V : Str} (hK : '=' ∉ K) :
    unquoteLine (K ++ '=' :: V) = K ++ '=' :: unquoteValue V := by
  unfold unquoteLine
  simp only [keyPart_keyval K V hK, List.drop_left]

theorem unquoteValue_of_no_quote (V : Str) (h : ∀ z ∈ V, isQuote z = false) : unquoteValue V = V := by
  cases V with
  | nil => rfl
  | cons q body =>
    have hq : isQuote q = false := h q (by simp)
    simp [unquoteValue, hq]

theorem unquoteFixes_of_no_quote (V : Str) (h : ∀ z ∈ V, isQuote z = false) : unquoteFixes V = true := by
  unfold unquoteFixes
  rw [beq_iff_eq]; exact unquoteValue_of_no_quote V h

theorem length_unquoteTreeItems : ∀ xs : List Val, (unquoteTreeItems xs).length = xs.length
  | [] => rfl
  | x :: xs => by simp [unquoteTreeItems, length_unquoteTreeItems xs]

theorem no_quote_dec (n : Nat) : ∀ z ∈ dec n, isQuote z = false := by
  intro z hz
  have := isDigit_of_mem_dec hz
  revert this
  simp only [Char.isDigit, isQuote]
  intro h
  cases hq : (z == '\'' || z == '"') with
  | false => rfl
  | true =>
    simp only [Bool.or_eq_true, beq_iff_eq] at hq
    rcases hq with rfl | rfl <;> revert h <;> decide

/-- A line `K=V` whose key has no `=` and whose value part is fixed by the pass is fixed by the pass. -/
theorem unquoteLine_keyval {K V : Str} (hK : '=' ∉ K) (hV : unquoteFixes V = true) :
    unquoteLine (K ++ '=' :: V) = K ++ '=' :: V := by
  rw [unquoteLine_keyval' hK]
  unfold unquoteFixes at hV
  rw [beq_iff_eq.mp hV]

/-- Hypothesis on the hash function: its texts contain no quote. -/
def HashNoQuote (h : Str → Str) : Prop := ∀ r, ∀ z ∈ h r, isQuote z = false

theorem not_mem_append_lit {pre lit : Str} {c : Char} (h1 : c ∉ pre) (h2 : c ∉ lit) : c ∉ pre ++ lit := by
  simp only [List.mem_append, not_or]; exact ⟨h1, h2⟩

mutual
theorem unquote_dumpP (h : Str → Str) (hh : HashNoQuote h) : ∀ (v : Val) (pre path : Str),
    '=' ∉ pre → (∀ z ∈ path, isQuote z = false) → wfUnquote v = true →
    unquote (dumpP h pre path v) = dumpP h pre path (unquoteTree v)
  | .node ty e r ln fs, pre, path, hpre, hpath, hwf => by
    simp only [wfUnquote, Bool.and_eq_true] at hwf
    have ih := unquote_dumpPFields h hh fs pre path 0 hpre hpath hwf.2
    have h1 : unquoteLine (typeLine pre ty) = typeLine pre ty := by
      have : typeLine pre ty = (pre ++ cs!"/_type") ++ '=' :: ty := by simp [typeLine]
      rw [this]; exact unquoteLine_keyval (not_mem_append_lit hpre (by decide)) hwf.1
    have h2 : unquoteLine (hashLine pre (h r)) = hashLine pre (h r) := by
      have : hashLine pre (h r) = (pre ++ cs!"/_hash") ++ '=' :: h r := by simp [hashLine]
      rw [this]
      exact unquoteLine_keyval (not_mem_append_lit hpre (by decide)) (unquoteFixes_of_no_quote _ (hh r))
    have h3 : ∀ n, unquoteLine (posLine pre n path) = posLine pre n path := by
      intro n
      have : posLine pre n path = (pre ++ cs!"/_pos") ++ '=' :: (dec n ++ ':' :: path.drop 2) := by
        simp [posLine]
      rw [this]
      apply unquoteLine_keyval (not_mem_append_lit hpre (by decide))
      apply unquoteFixes_of_no_quote
      intro z hz
      simp only [List.mem_append, List.mem_cons] at hz
      rcases hz with hz | rfl | hz
      · exact no_quote_dec n z hz
      · decide
      · exact hpath z (List.mem_of_mem_drop hz)
    simp only [unquote] at ih ⊢
    cases e <;> cases ln <;> simp [dumpP, unquoteTree, h1, h2, h3, ih]
  | .list q xs, pre, path, hpre, hpath, hwf => by
    simp only [wfUnquote] at hwf
    have ih := unquote_dumpPItems h hh xs pre path 1 hpre hpath hwf
    have h1 : unquoteLine (lengthLine pre xs.length) = lengthLine pre xs.length := by
      have : lengthLine pre xs.length = (pre ++ cs!"/_length") ++ '=' :: dec xs.length := by simp [lengthLine]
      rw [this]
      exact unquoteLine_keyval (not_mem_append_lit hpre (by decide))
        (unquoteFixes_of_no_quote _ (no_quote_dec _))
    have hlen := length_unquoteTreeItems xs
    simp only [unquote] at ih ⊢
    cases q <;> simp [dumpP, unquoteTree, h1, ih, hlen]
  | .scalar r k, pre, path, hpre, _, hwf => by
    simp only [wfUnquote, beq_iff_eq] at hwf
    simp only [dumpP, unquoteTree, unquote, List.map_cons, List.map_nil, scalarLine]
    rw [unquoteLine_keyval' hpre, hwf]
theorem unquote_dumpPFields (h : Str → Str) (hh : HashNoQuote h) : ∀ (fs : List (Str × Val)) (pre path : Str) (i : Nat),
    '=' ∉ pre → (∀ z ∈ path, isQuote z = false) → wfUnquoteFields fs = true →
    unquote (dumpPFields h pre path i fs) = dumpPFields h pre path i (unquoteTreeFields fs)
  | [], _, _, _, _, _, _ => rfl
  | (n, v) :: rest, pre, path, i, hpre, hpath, hwf => by
    simp only [wfUnquoteFields, Bool.and_eq_true] at hwf
    have hn : '=' ∉ n := by simpa using hwf.1.1
    have hpre' : '=' ∉ subPre pre n := by
      simp only [subPre, List.mem_append, List.mem_cons, not_or]
      exact ⟨hpre, by decide, hn⟩
    have hpath' : ∀ z ∈ subPath path i, isQuote z = false := by
      intro z hz
      simp only [subPath, List.mem_append, List.mem_singleton] at hz
      rcases hz with (hz | hz) | rfl
      · exact hpath z hz
      · exact no_quote_dec i z hz
      · decide
    have h1 := unquote_dumpP h hh v (subPre pre n) (subPath path i) hpre' hpath' hwf.1.2
    have h2 := unquote_dumpPFields h hh rest pre path (i + 1) hpre hpath hwf.2
    simp only [unquote] at h1 h2 ⊢
    simp only [dumpPFields, unquoteTreeFields, List.map_append, h1, h2]
theorem unquote_dumpPItems (h : Str → Str) (hh : HashNoQuote h) : ∀ (xs : List Val) (pre path : Str) (i : Nat),
    '=' ∉ pre → (∀ z ∈ path, isQuote z = false) → wfUnquoteItems xs = true →
    unquote (dumpPItems h pre path i xs) = dumpPItems h pre path i (unquoteTreeItems xs)
  | [], _, _, _, _, _, _ => rfl
  | v :: rest, pre, path, i, hpre, hpath, hwf => by
    simp only [wfUnquoteItems, Bool.and_eq_true] at hwf
    have hpre' : '=' ∉ subPre pre (dec i) := by
      simp only [subPre, List.mem_append, List.mem_cons, not_or]
      exact ⟨hpre, by decide, eq_not_mem_dec i⟩
    have hpath' : ∀ z ∈ subPath path i, isQuote z = false := by
      intro z hz
      simp only [subPath, List.mem_append, List.mem_singleton] at hz
      rcases hz with (hz | hz) | rfl
      · exact hpath z hz
      · exact no_quote_dec i z hz
      · decide
    have h1 := unquote_dumpP h hh v (subPre pre (dec i)) (subPath path i) hpre' hpath' hwf.1
    have h2 := unquote_dumpPItems h hh rest pre path (i + 1) hpre hpath hwf.2
    simp only [unquote] at h1 h2 ⊢
    simp only [dumpPItems, unquoteTreeItems, List.map_append, h1, h2]
end

theorem hashNoQuote_hashFn (t : Val) : HashNoQuote (hashFn t) := by
  intro r z hz
  simp only [hashFn, hex4, List.mem_cons, List.mem_append, List.mem_replicate] at hz
  rcases hz with rfl | rfl | ⟨_, rfl⟩ | hz
  · decide
  · decide
  · decide
  · obtain ⟨d, hd, rfl⟩ := mem_toDigits16 _ _ hz
    have : ∀ d, d < 16 → isQuote (Nat.digitChar d) = false := by decide
    exact this d hd

/-! ## `suppress_kinds` -/

theorem hasInfixAfter1_iff (pat : Str) : ∀ l : Str,
    hasInfixAfter1 pat l = true ↔ ∃ a b, a ≠ [] ∧ l = a ++ pat ++ b
  | [] => by
    simp only [hasInfixAfter1, Bool.false_eq_true, false_iff]
    rintro ⟨a, b, ha, h⟩
    cases a with
    | nil => exact ha rfl
    | cons x a => simp at h
  | c :: t => by
    simp only [hasInfixAfter1, hasInfix_iff]
    constructor
    · rintro ⟨a, b, h⟩; exact ⟨c :: a, b, by simp, by simp [h]⟩
    · rintro ⟨a, b, ha, h⟩
      cases a with
      | nil => exact absurd rfl ha
      | cons x a =>
        simp only [List.cons_append, List.cons.injEq] at h
        exact ⟨a, b, h.2⟩

/-- A literal without `=` that ends a text `K=E…` cut after `E` lies inside `E`. -/
theorem lit_suffix_inside {Q g K E : Str} (hQ : '=' ∉ Q) (h : g ++ Q = K ++ '=' :: E) : ∃ a, E = a ++ Q := by
  have h' : g ++ Q = (K ++ ['=']) ++ E := by rw [h]; simp
  rcases List.append_eq_append_iff.mp h' with ⟨a', e1, e2⟩ | ⟨c', _, e2⟩
  · rcases List.eq_nil_or_concat a' with rfl | ⟨a'', z, rfl⟩
    · exact ⟨[], by simpa using e2.symm⟩
    · have hz : z = '=' := by
        have := congrArg List.getLast? e1
        simpa using this.symm
      exact absurd (by rw [e2, hz]; simp) hQ
  · exact ⟨c', e2⟩

theorem split_first_unique {c : Char} {A B C D : Str} (hA : c ∉ A) (hC : c ∉ C)
    (h : A ++ c :: B = C ++ c :: D) : A = C ∧ B = D := by
  rcases split_first hC h with h1 | ⟨E, h1, _⟩
  · exact h1
  · exact absurd (by rw [h1]; simp) hA

theorem split_last_unique {c : Char} {A B C D : Str} (hB : c ∉ B) (hD : c ∉ D)
    (h : A ++ c :: B = C ++ c :: D) : A = C ∧ B = D := by
  have hr := congrArg List.reverse h
  simp only [List.reverse_append, List.reverse_cons, List.append_assoc, List.singleton_append] at hr
  have := split_first_unique (c := c) (A := B.reverse) (B := A.reverse) (C := D.reverse) (D := C.reverse)
    (by simpa using hB) (by simpa using hD) hr
  exact ⟨List.reverse_inj.mp this.2, List.reverse_inj.mp this.1⟩

abbrev kindKey : Str := cs!"/kind"

theorem kindMark_eq : kindMark = kindKey ++ ['='] := rfl

/-- On a `key=value` line the pass looks at the key only: the line is deleted iff the key ends with
`/kind` and has something before it. -/
theorem isKindLine_keyval {K V : Str} (hK : '=' ∉ K) :
    isKindLine (K ++ '=' :: V) = true ↔ ∃ X, X ≠ [] ∧ K = X ++ kindKey := by
  unfold isKindLine
  simp only [keyPart_keyval K V hK, Bool.and_eq_true, decide_eq_true_eq, List.isSuffixOf_iff_suffix]
  constructor
  · rintro ⟨⟨_, ⟨X, hX⟩⟩, hlen⟩
    refine ⟨X, ?_, hX.symm⟩
    rintro rfl
    rw [← hX] at hlen; simp at hlen
  · rintro ⟨X, hX, rfl⟩
    have : 0 < X.length := List.length_pos_iff.mpr hX
    refine ⟨⟨by simp, ⟨X, rfl⟩⟩, ?_⟩
    simp only [List.length_append]; simp; omega

/-- Keys made of a prefix and one of the four structural markers never end with `/kind`. -/
theorem not_kind_suffix_of_tail5 {pre lit tail : Str} (head : Str) (hl : lit = head ++ tail)
    (h5 : tail.length = 5) (hne : tail ≠ cs!"/kind") : ¬ ∃ X, X ≠ [] ∧ pre ++ lit = X ++ kindKey := by
  rintro ⟨X, _, h⟩
  have hs : kindKey <:+ (pre ++ head) ++ tail := ⟨X, by rw [← h, hl]; simp⟩
  have := suffix_same_length (by rw [h5]; rfl) hs
  exact hne this.symm

theorem isKindLine_marker {pre lit V : Str} (head tail : Str) (hl : lit = head ++ tail)
    (h5 : tail.length = 5) (hne : tail ≠ cs!"/kind") (hlit : '=' ∉ lit)
    (hpre : '=' ∉ pre) (hV : '=' ∉ V) : isKindLine ((pre ++ lit) ++ '=' :: V) = false := by
  cases hb : isKindLine ((pre ++ lit) ++ '=' :: V) with
  | false => rfl
  | true =>
    have hK : '=' ∉ pre ++ lit := not_mem_append_lit hpre hlit
    exact absurd ((isKindLine_keyval hK).mp hb) (not_kind_suffix_of_tail5 head hl h5 hne)

theorem isKindLine_typeLine {pre ty : Str} (hpre : '=' ∉ pre) (hty : '=' ∉ ty) :
    isKindLine (typeLine pre ty) = false := by
  have : typeLine pre ty = (pre ++ cs!"/_type") ++ '=' :: ty := by simp [typeLine]
  rw [this]
  exact isKindLine_marker (cs!"/") (cs!"_type") rfl rfl (by decide) (by decide) hpre hty

theorem isKindLine_hashLine {pre hx : Str} (hpre : '=' ∉ pre) (hhx : '=' ∉ hx) :
    isKindLine (hashLine pre hx) = false := by
  have : hashLine pre hx = (pre ++ cs!"/_hash") ++ '=' :: hx := by simp [hashLine]
  rw [this]
  exact isKindLine_marker (cs!"/") (cs!"_hash") rfl rfl (by decide) (by decide) hpre hhx

theorem isKindLine_lengthLine {pre : Str} (n : Nat) (hpre : '=' ∉ pre) :
    isKindLine (lengthLine pre n) = false := by
  have : lengthLine pre n = (pre ++ cs!"/_length") ++ '=' :: dec n := by simp [lengthLine]
  rw [this]
  exact isKindLine_marker (cs!"/_l") (cs!"ength") rfl rfl (by decide) (by decide) hpre (eq_not_mem_dec n)

theorem isKindLine_posLine {pre path : Str} (n : Nat) (hpre : '=' ∉ pre) (hpath : '=' ∉ path) :
    isKindLine (posLine pre n path) = false := by
  have : posLine pre n path = (pre ++ cs!"/_pos") ++ '=' :: (dec n ++ ':' :: path.drop 2) := by simp [posLine]
  rw [this]
  refine isKindLine_marker [] (cs!"/_pos") rfl rfl (by decide) (by decide) hpre ?_
  simp only [List.mem_append, List.mem_cons, not_or]
  exact ⟨eq_not_mem_dec n, by decide, fun h => hpath (List.mem_of_mem_drop h)⟩

/-- A scalar line is deleted iff the field is called `kind` and its node is below the root. -/
theorem isKindLine_scalarLine {ppre n r : Str} (hpre : '=' ∉ ppre) (hn : '=' ∉ n) (hn' : '/' ∉ n) :
    isKindLine (scalarLine (subPre ppre n) r) = (!ppre.isEmpty && n == cs!"kind") := by
  have hK : '=' ∉ subPre ppre n := by
    simp only [subPre, List.mem_append, List.mem_cons, not_or]; exact ⟨hpre, by decide, hn⟩
  have key : isKindLine (scalarLine (subPre ppre n) r) = true ↔ (ppre ≠ [] ∧ n = cs!"kind") := by
    unfold scalarLine
    rw [isKindLine_keyval hK]
    constructor
    · rintro ⟨X, hX, h⟩
      have h' : ppre ++ '/' :: n = X ++ '/' :: cs!"kind" := by simpa [subPre, kindKey] using h
      obtain ⟨h1, h2⟩ := split_last_unique hn' (by decide) h'
      exact ⟨h1 ▸ hX, h2⟩
    · rintro ⟨h1, h2⟩
      exact ⟨ppre, h1, by rw [h2]; simp [subPre, kindKey]⟩
  cases hb : isKindLine (scalarLine (subPre ppre n) r) with
  | true =>
    obtain ⟨h1, h2⟩ := key.mp hb
    cases ppre with
    | nil => exact absurd rfl h1
    | cons _ _ => simp [h2]
  | false =>
    cases hc : (!ppre.isEmpty && n == cs!"kind") with
    | false => rfl
    | true =>
      simp only [Bool.and_eq_true, Bool.not_eq_true', beq_iff_eq] at hc
      have : isKindLine (scalarLine (subPre ppre n) r) = true :=
        key.mpr ⟨fun e => by rw [e] at hc; simp at hc, hc.2⟩
      rw [hb] at this; cases this

theorem dec_ne_kind (i : Nat) : (dec i == cs!"kind") = false := by
  cases hb : dec i == cs!"kind" with
  | false => rfl
  | true =>
    have : 'k' ∈ dec i := by rw [beq_iff_eq.mp hb]; simp
    have := isDigit_of_mem_dec this
    revert this; decide

theorem suppressKinds_append (a b : List Str) : suppressKinds (a ++ b) = suppressKinds a ++ suppressKinds b := by
  simp [suppressKinds]

theorem suppressKinds_cons_keep {l : Str} (rest : List Str) (h : isKindLine l = false) :
    suppressKinds (l :: rest) = l :: suppressKinds rest := by
  simp [suppressKinds, h]

theorem length_dropKindsItems : ∀ xs : List Val, (dropKindsItems xs).length = xs.length
  | [] => rfl
  | x :: xs => by simp [dropKindsItems, length_dropKindsItems xs]

/-- Hypothesis on the hash function: its texts contain no `=`. -/
def HashNoEq (h : Str → Str) : Prop := ∀ r, '=' ∉ h r

theorem eq_not_mem_subPath {path : Str} (i : Nat) (h : '=' ∉ path) : '=' ∉ subPath path i := by
  simp only [subPath, List.mem_append, List.mem_singleton, not_or]
  exact ⟨⟨h, eq_not_mem_dec i⟩, by decide⟩

theorem eq_not_mem_subPre {pre n : Str} (h : '=' ∉ pre) (hn : '=' ∉ n) : '=' ∉ subPre pre n := by
  simp only [subPre, List.mem_append, List.mem_cons, not_or]; exact ⟨h, by decide, hn⟩

theorem subPre_not_empty (pre n : Str) : (!(subPre pre n).isEmpty) = true := by
  simp [subPre]

mutual
theorem suppressKinds_dumpP (h : Str → Str) (hh : HashNoEq h) : ∀ (v : Val) (pre path : Str),
    '=' ∉ pre → '=' ∉ path → wfKinds v = true → (∀ r k, v ≠ .scalar r k) →
    suppressKinds (dumpP h pre path v) = dumpP h pre path (dropKinds (!pre.isEmpty) v)
  | .node ty e r ln fs, pre, path, hpre, hpath, hwf, _ => by
    simp only [wfKinds, Bool.and_eq_true] at hwf
    have hty : '=' ∉ ty := by simpa using hwf.1
    have ih := suppressKinds_dumpPFields h hh fs pre path 0 hpre hpath hwf.2
    have h1 := isKindLine_typeLine hpre hty
    have h2 := isKindLine_hashLine hpre (hh r)
    have h3 : ∀ n, isKindLine (posLine pre n path) = false := fun n => isKindLine_posLine n hpre hpath
    cases e <;> cases ln <;>
      simp [dumpP, dropKinds, suppressKinds_cons_keep, h1, h2, h3, ih]
  | .list q xs, pre, path, hpre, hpath, hwf, _ => by
    simp only [wfKinds] at hwf
    have ih := suppressKinds_dumpPItems h hh xs pre path 1 hpre hpath hwf
    have h1 := isKindLine_lengthLine xs.length hpre
    cases q <;>
      simp [dumpP, dropKinds, suppressKinds_cons_keep, suppressKinds_append, h1, ih, length_dropKindsItems]
  | .scalar r k, _, _, _, _, _, hns => absurd rfl (hns r k)
theorem suppressKinds_dumpPFields (h : Str → Str) (hh : HashNoEq h) : ∀ (fs : List (Str × Val)) (pre path : Str) (i : Nat),
    '=' ∉ pre → '=' ∉ path → wfKindsFields fs = true →
    suppressKinds (dumpPFields h pre path i fs) = dumpPFields h pre path i (dropKindsFields (!pre.isEmpty) fs)
  | [], _, _, _, _, _, _ => rfl
  | (n, v) :: rest, pre, path, i, hpre, hpath, hwf => by
    simp only [wfKindsFields, Bool.and_eq_true] at hwf
    obtain ⟨⟨⟨⟨hn1, hn2⟩, hv⟩, hrest⟩, hlast⟩ := hwf
    have hn : '=' ∉ n := by simpa using hn1
    have hn' : '/' ∉ n := by simpa using hn2
    have ih := suppressKinds_dumpPFields h hh rest pre path (i + 1) hpre hpath hrest
    cases v with
    | scalar r k =>
      have hk := isKindLine_scalarLine (r := r) hpre hn hn'
      cases hc : (!pre.isEmpty && n == cs!"kind") with
      | true =>
        -- the `kind` field is the last one: nothing is renumbered
        have hn3 : (n == cs!"kind") = true := by
          simp only [Bool.and_eq_true] at hc; exact hc.2
        have hrest' : rest = [] := by
          simp only [hn3, Bool.not_true, Bool.false_or] at hlast
          simpa using hlast
        subst hrest'
        simp [dumpPFields, dumpP, dropKindsFields, suppressKinds, hk, hc]
      | false =>
        simp only [dumpPFields, dumpP, dropKindsFields, hc, Bool.false_eq_true, if_false, List.cons_append,
          List.nil_append]
        rw [suppressKinds_cons_keep _ (by rw [hk, hc]), ih]
    | node ty e r ln fs =>
      have h1 := suppressKinds_dumpP h hh (.node ty e r ln fs) (subPre pre n) (subPath path i)
        (eq_not_mem_subPre hpre hn) (eq_not_mem_subPath i hpath) hv (by intro r k; simp)
      rw [subPre_not_empty] at h1
      simp only [dumpPFields, dropKindsFields, suppressKinds_append, h1, ih]
    | list q xs =>
      have h1 := suppressKinds_dumpP h hh (.list q xs) (subPre pre n) (subPath path i)
        (eq_not_mem_subPre hpre hn) (eq_not_mem_subPath i hpath) hv (by intro r k; simp)
      rw [subPre_not_empty] at h1
      simp only [dumpPFields, dropKindsFields, suppressKinds_append, h1, ih]
theorem suppressKinds_dumpPItems (h : Str → Str) (hh : HashNoEq h) : ∀ (xs : List Val) (pre path : Str) (i : Nat),
    '=' ∉ pre → '=' ∉ path → wfKindsItems xs = true →
    suppressKinds (dumpPItems h pre path i xs) = dumpPItems h pre path i (dropKindsItems xs)
  | [], _, _, _, _, _, _ => rfl
  | v :: rest, pre, path, i, hpre, hpath, hwf => by
    simp only [wfKindsItems, Bool.and_eq_true] at hwf
    have ih := suppressKinds_dumpPItems h hh rest pre path (i + 1) hpre hpath hwf.2
    cases v with
    | scalar r k =>
      have hk := isKindLine_scalarLine (ppre := pre) (n := dec i) (r := r) hpre (eq_not_mem_dec i)
        (slash_not_mem_dec i)
      rw [dec_ne_kind, Bool.and_false] at hk
      simp only [dumpPItems, dumpP, dropKindsItems, dropKinds, List.cons_append, List.nil_append]
      rw [suppressKinds_cons_keep _ hk, ih]
    | node ty e r ln fs =>
      have h1 := suppressKinds_dumpP h hh (.node ty e r ln fs) (subPre pre (dec i)) (subPath path i)
        (eq_not_mem_subPre hpre (eq_not_mem_dec i)) (eq_not_mem_subPath i hpath) hwf.1 (by intro r k; simp)
      rw [subPre_not_empty] at h1
      simp only [dumpPItems, dropKindsItems, suppressKinds_append, h1, ih]
    | list q xs =>
      have h1 := suppressKinds_dumpP h hh (.list q xs) (subPre pre (dec i)) (subPath path i)
        (eq_not_mem_subPre hpre (eq_not_mem_dec i)) (eq_not_mem_subPath i hpath) hwf.1 (by intro r k; simp)
      rw [subPre_not_empty] at h1
      simp only [dumpPItems, dropKindsItems, suppressKinds_append, h1, ih]
end

/-! ## `suppress_posonlyargs` -/

abbrev posonlyMark : Str := cs!"/args/posonlyargs/_length="
abbrev posonlyMarkKey : Str := cs!"/args/posonlyargs/_length"

theorem posonlyFrom_iff : ∀ s : Str, posonlyFrom s = true ↔
    ∃ a ds, s = a ++ posonlyMark ++ ds ∧ ds ≠ [] ∧ ds.all isDigitC = true
  | [] => by
    simp only [posonlyFrom, Bool.false_eq_true, false_iff]
    rintro ⟨a, ds, h, _⟩
    have := congrArg List.length h
    simp at this
  | c :: t => by
    simp only [posonlyFrom, Bool.or_eq_true, posonlyFrom_iff t]
    constructor
    · rintro (h | ⟨a, ds, h1, h2, h3⟩)
      · simp only [posonlyTail, Bool.and_eq_true, List.isPrefixOf_iff_prefix, Bool.not_eq_true',
          List.isEmpty_eq_false_iff] at h
        obtain ⟨⟨ds, hds⟩, h2, h3⟩ := h
        have hd : (c :: t).drop posonlyMark.length = ds := by rw [← hds]; exact List.drop_left
        refine ⟨[], ds, by simpa using hds.symm, ?_, ?_⟩
        · rw [← hd]; exact h2
        · rw [← hd]; exact h3
      · exact ⟨c :: a, ds, by simp [h1], h2, h3⟩
    · rintro ⟨a, ds, h1, h2, h3⟩
      cases a with
      | nil =>
        left
        have hp : posonlyMark <+: c :: t := ⟨ds, by simpa using h1.symm⟩
        have hd : (c :: t).drop posonlyMark.length = ds := by rw [h1]; simp
        simp only [posonlyTail, Bool.and_eq_true, List.isPrefixOf_iff_prefix, Bool.not_eq_true',
          List.isEmpty_eq_false_iff]
        exact ⟨hp, by rw [hd]; exact h2, by rw [hd]; exact h3⟩
      | cons x a' =>
        simp only [List.cons_append, List.cons.injEq] at h1
        right; exact ⟨a', ds, h1.2, h2, h3⟩

theorem isPosonlyLine_iff (l : Str) : isPosonlyLine l = true ↔
    ∃ a ds, a ≠ [] ∧ l = a ++ posonlyMark ++ ds ∧ ds ≠ [] ∧ ds.all isDigitC = true := by
  cases l with
  | nil =>
    simp only [isPosonlyLine, Bool.false_eq_true, false_iff]
    rintro ⟨a, ds, ha, h, _⟩
    cases a with
    | nil => exact ha rfl
    | cons x a => simp at h
  | cons c t =>
    simp only [isPosonlyLine, posonlyFrom_iff]
    constructor
    · rintro ⟨a, ds, h1, h2, h3⟩; exact ⟨c :: a, ds, by simp, by simp [h1], h2, h3⟩
    · rintro ⟨a, ds, ha, h1, h2, h3⟩
      cases a with
      | nil => exact absurd rfl ha
      | cons x a' =>
        simp only [List.cons_append, List.cons.injEq] at h1
        exact ⟨a', ds, h1.2, h2, h3⟩

/-- On a `key=value` line without `=` in key and value, the pass looks at the key and at the digits. -/
theorem isPosonlyLine_keyval {K V : Str} (hK : '=' ∉ K) (hV : '=' ∉ V) :
    isPosonlyLine (K ++ '=' :: V) = true ↔
      (∃ a, a ≠ [] ∧ K = a ++ posonlyMarkKey) ∧ V ≠ [] ∧ V.all isDigitC = true := by
  rw [isPosonlyLine_iff]
  constructor
  · rintro ⟨a, ds, ha, h, h2, h3⟩
    have h' : (a ++ posonlyMarkKey) ++ '=' :: ds = K ++ '=' :: V := by rw [h]; simp
    rcases split_first hK h' with ⟨h1, h4⟩ | ⟨E, _, h4⟩
    · exact ⟨⟨a, ha, h1.symm⟩, h4 ▸ h2, h4 ▸ h3⟩
    · exact absurd (by rw [h4]; simp) hV
  · rintro ⟨⟨a, ha, rfl⟩, h2, h3⟩
    exact ⟨a, V, ha, by simp, h2, h3⟩

theorem isPosonlyLine_marker {pre lit V : Str} (head tail : Str) (hl : lit = head ++ tail)
    (h5 : tail.length = 5) (hne : tail ≠ cs!"ength") (hlit : '=' ∉ lit)
    (hpre : '=' ∉ pre) (hV : '=' ∉ V) : isPosonlyLine ((pre ++ lit) ++ '=' :: V) = false := by
  cases hb : isPosonlyLine ((pre ++ lit) ++ '=' :: V) with
  | false => rfl
  | true =>
    obtain ⟨⟨a, _, h⟩, _⟩ := (isPosonlyLine_keyval (not_mem_append_lit hpre hlit) hV).mp hb
    have hs : (cs!"ength") <:+ (pre ++ head) ++ tail :=
      ⟨a ++ cs!"/args/posonlyargs/_l", by
        have e : pre ++ head ++ tail = pre ++ lit := by rw [hl]; simp
        rw [e, h]; simp⟩
    exact absurd (suffix_same_length (by rw [h5]; rfl) hs).symm hne

theorem posonlyPre_iff (pre : Str) : posonlyPre pre = true ↔ ∃ a, a ≠ [] ∧ pre = a ++ posonlyKey := by
  simp only [posonlyPre, Bool.and_eq_true, List.isSuffixOf_iff_suffix, decide_eq_true_eq]
  constructor
  · rintro ⟨⟨a, ha⟩, hlen⟩
    refine ⟨a, ?_, ha.symm⟩
    rintro rfl
    rw [← ha] at hlen; simp at hlen
  · rintro ⟨a, ha, rfl⟩
    refine ⟨⟨a, rfl⟩, ?_⟩
    have : 0 < a.length := List.length_pos_iff.mpr ha
    simp only [List.length_append]; omega

theorem all_isDigitC_dec (n : Nat) : (dec n).all isDigitC = true := by
  rw [List.all_eq_true]; intro c hc; exact isDigitC_of_isDigit (isDigit_of_mem_dec hc)

/-- The `_length` line of a list is deleted iff the list's prefix ends with `/args/posonlyargs`
(and has something before). -/
theorem isPosonlyLine_lengthLine {pre : Str} (n : Nat) (hpre : '=' ∉ pre) :
    isPosonlyLine (lengthLine pre n) = posonlyPre pre := by
  have hl : lengthLine pre n = (pre ++ cs!"/_length") ++ '=' :: dec n := by simp [lengthLine]
  have hK : '=' ∉ pre ++ cs!"/_length" := not_mem_append_lit hpre (by decide)
  have key : isPosonlyLine (lengthLine pre n) = true ↔ posonlyPre pre = true := by
    rw [hl, isPosonlyLine_keyval hK (eq_not_mem_dec n), posonlyPre_iff]
    constructor
    · rintro ⟨⟨a, ha, h⟩, _⟩
      refine ⟨a, ha, ?_⟩
      have h' : pre ++ cs!"/_length" = (a ++ posonlyKey) ++ cs!"/_length" := by
        rw [h]; simp [posonlyKey]
      exact List.append_cancel_right h'
    · rintro ⟨a, ha, rfl⟩
      exact ⟨⟨a, ha, by simp [posonlyKey]⟩, dec_ne_nil n, all_isDigitC_dec n⟩
  cases hb : isPosonlyLine (lengthLine pre n) <;> cases hc : posonlyPre pre <;> simp_all

theorem suppressPosonlyargs_append (a b : List Str) :
    suppressPosonlyargs (a ++ b) = suppressPosonlyargs a ++ suppressPosonlyargs b := by
  simp [suppressPosonlyargs]

theorem suppressPosonlyargs_cons_keep {l : Str} (rest : List Str) (h : isPosonlyLine l = false) :
    suppressPosonlyargs (l :: rest) = l :: suppressPosonlyargs rest := by
  simp [suppressPosonlyargs, h]

theorem suppressPosonlyargs_cons_drop {l : Str} (rest : List Str) (h : isPosonlyLine l = true) :
    suppressPosonlyargs (l :: rest) = suppressPosonlyargs rest := by
  simp [suppressPosonlyargs, h]

theorem length_quietPosonlyItems (pre : Str) : ∀ (xs : List Val) (i : Nat),
    (quietPosonlyItems pre i xs).length = xs.length
  | [], _ => rfl
  | x :: xs, i => by simp [quietPosonlyItems, length_quietPosonlyItems pre xs (i + 1)]

mutual
theorem suppressPosonlyargs_dumpP (h : Str → Str) (hh : HashNoEq h) : ∀ (v : Val) (pre path : Str),
    '=' ∉ pre → '=' ∉ path → wfPosonly pre v = true →
    suppressPosonlyargs (dumpP h pre path v) = dumpP h pre path (quietPosonly pre v)
  | .node ty e r ln fs, pre, path, hpre, hpath, hwf => by
    simp only [wfPosonly, Bool.and_eq_true] at hwf
    have hty : '=' ∉ ty := by simpa using hwf.1
    have ih := suppressPosonlyargs_dumpPFields h hh fs pre path 0 hpre hpath hwf.2
    have h1 : isPosonlyLine (typeLine pre ty) = false := by
      have : typeLine pre ty = (pre ++ cs!"/_type") ++ '=' :: ty := by simp [typeLine]
      rw [this]; exact isPosonlyLine_marker (cs!"/") (cs!"_type") rfl rfl (by decide) (by decide) hpre hty
    have h2 : isPosonlyLine (hashLine pre (h r)) = false := by
      have : hashLine pre (h r) = (pre ++ cs!"/_hash") ++ '=' :: h r := by simp [hashLine]
      rw [this]; exact isPosonlyLine_marker (cs!"/") (cs!"_hash") rfl rfl (by decide) (by decide) hpre (hh r)
    have h3 : ∀ n, isPosonlyLine (posLine pre n path) = false := by
      intro n
      have : posLine pre n path = (pre ++ cs!"/_pos") ++ '=' :: (dec n ++ ':' :: path.drop 2) := by simp [posLine]
      rw [this]
      refine isPosonlyLine_marker [] (cs!"/_pos") rfl rfl (by decide) (by decide) hpre ?_
      simp only [List.mem_append, List.mem_cons, not_or]
      exact ⟨eq_not_mem_dec n, by decide, fun hm => hpath (List.mem_of_mem_drop hm)⟩
    cases e <;> cases ln <;>
      simp [dumpP, quietPosonly, suppressPosonlyargs_cons_keep, h1, h2, h3, ih]
  | .list q xs, pre, path, hpre, hpath, hwf => by
    simp only [wfPosonly] at hwf
    have ih := suppressPosonlyargs_dumpPItems h hh xs pre path 1 hpre hpath hwf
    have h1 := isPosonlyLine_lengthLine xs.length hpre
    cases q with
    | true => simp [dumpP, quietPosonly, ih]
    | false =>
      cases hp : posonlyPre pre with
      | true =>
        rw [hp] at h1
        simp [dumpP, quietPosonly, hp, suppressPosonlyargs_cons_drop _ h1, ih]
      | false =>
        rw [hp] at h1
        simp [dumpP, quietPosonly, hp, suppressPosonlyargs_cons_keep _ h1, ih, length_quietPosonlyItems]
  | .scalar r k, pre, path, _, _, hwf => by
    simp only [wfPosonly, Bool.not_eq_true'] at hwf
    simp [dumpP, quietPosonly, suppressPosonlyargs, hwf]
theorem suppressPosonlyargs_dumpPFields (h : Str → Str) (hh : HashNoEq h) :
    ∀ (fs : List (Str × Val)) (pre path : Str) (i : Nat),
    '=' ∉ pre → '=' ∉ path → wfPosonlyFields pre fs = true →
    suppressPosonlyargs (dumpPFields h pre path i fs) = dumpPFields h pre path i (quietPosonlyFields pre fs)
  | [], _, _, _, _, _, _ => rfl
  | (n, v) :: rest, pre, path, i, hpre, hpath, hwf => by
    simp only [wfPosonlyFields, Bool.and_eq_true] at hwf
    have hn : '=' ∉ n := by simpa using hwf.1.1
    have h1 := suppressPosonlyargs_dumpP h hh v (subPre pre n) (subPath path i)
      (eq_not_mem_subPre hpre hn) (eq_not_mem_subPath i hpath) hwf.1.2
    have h2 := suppressPosonlyargs_dumpPFields h hh rest pre path (i + 1) hpre hpath hwf.2
    simp only [dumpPFields, quietPosonlyFields, suppressPosonlyargs_append, h1, h2]
theorem suppressPosonlyargs_dumpPItems (h : Str → Str) (hh : HashNoEq h) :
    ∀ (xs : List Val) (pre path : Str) (i : Nat),
    '=' ∉ pre → '=' ∉ path → wfPosonlyItems pre i xs = true →
    suppressPosonlyargs (dumpPItems h pre path i xs) = dumpPItems h pre path i (quietPosonlyItems pre i xs)
  | [], _, _, _, _, _, _ => rfl
  | v :: rest, pre, path, i, hpre, hpath, hwf => by
    simp only [wfPosonlyItems, Bool.and_eq_true] at hwf
    have h1 := suppressPosonlyargs_dumpP h hh v (subPre pre (dec i)) (subPath path i)
      (eq_not_mem_subPre hpre (eq_not_mem_dec i)) (eq_not_mem_subPath i hpath) hwf.1
    have h2 := suppressPosonlyargs_dumpPItems h hh rest pre path (i + 1) hpre hpath hwf.2
    simp only [dumpPItems, quietPosonlyItems, suppressPosonlyargs_append, h1, h2]
end

end Paroxy.Flat
