/-
Helper lemmas for C12_deletion_exact: counting through the deletion-consuming loop, the grouping
of the kept occurrences and the merge of the scheduled additions.
-/
import Paroxy.Model.ParseGlue
import Paroxy.Proofs.Isort
namespace Paroxy.Glue
open Paroxy.Hints


/-! ### `list.remove` -/

theorem removeFirst_none (sp : Nat × Nat) (l : List (Nat × Nat)) :
    removeFirst sp l = none ↔ l.count sp = 0 := by
  induction l with
  | nil => simp [removeFirst]
  | cons x xs ih =>
    by_cases h : x = sp
    · subst h; simp [removeFirst]
    · have : ¬ (x == sp) = true := by simpa using h
      simp [removeFirst, h, ih, List.count_cons, this]

theorem removeFirst_some (sp : Nat × Nat) (l l' : List (Nat × Nat)) (h : removeFirst sp l = some l') :
    1 ≤ l.count sp ∧ ∀ x, l'.count x = l.count x - if x = sp then 1 else 0 := by
  induction l generalizing l' with
  | nil => simp [removeFirst] at h
  | cons y ys ih =>
    by_cases hy : y = sp
    · subst hy
      simp only [removeFirst, if_true, Option.some.injEq] at h
      subst h
      refine ⟨by simp, fun x => ?_⟩
      by_cases hx : x = y
      · subst hx; simp
      · have : ¬ (y == x) = true := by simpa using fun e => hx e.symm
        simp [List.count_cons, hx, this]
    · simp only [removeFirst, hy, if_false, Option.map_eq_some_iff] at h
      obtain ⟨l2, hl2, rfl⟩ := h
      obtain ⟨h1, h2⟩ := ih l2 hl2
      have hne : ¬ (y == sp) = true := by simpa using hy
      refine ⟨by rw [List.count_cons]; omega, fun x => ?_⟩
      rw [List.count_cons, List.count_cons, h2 x]
      by_cases hx : x = sp
      · subst hx; simp only [hne, if_true, if_false]; omega
      · simp [hx]

/-! ### `program.deletion[name].remove(...)` -/

theorem count_cons (k : Str) (l : List (Nat × Nat)) (rest : Sched) (name : Str) (sp : Nat × Nat) :
    Sched.count ((k, l) :: rest) name sp = (if k = name then l.count sp else 0) + Sched.count rest name sp := by
  simp [Sched.count]

theorem count_of_not_key (s : Sched) (name : Str) (sp : Nat × Nat) (h : name ∉ keys s) :
    Sched.count s name sp = 0 := by
  induction s with
  | nil => rfl
  | cons p rest ih =>
    obtain ⟨k, l⟩ := p
    simp only [keys, List.map_cons, List.mem_cons, not_or] at h
    have : ¬ k = name := fun e => h.1 e.symm
    rw [count_cons, ih h.2]; simp [this]

theorem consume_none (name : Str) (sp : Nat × Nat) (s : Sched) (hnd : (keys s).Nodup) :
    consume name sp s = none ↔ Sched.count s name sp = 0 := by
  induction s with
  | nil => simp [consume, Sched.count]
  | cons p rest ih =>
    obtain ⟨k, l⟩ := p
    simp only [keys, List.map_cons, List.nodup_cons] at hnd
    rw [count_cons]
    by_cases hk : k = name
    · subst hk
      simp only [consume, if_true, Option.map_eq_none_iff, removeFirst_none,
        count_of_not_key rest k sp hnd.1, Nat.add_zero]
    · simp only [consume, hk, if_false, Option.map_eq_none_iff, ih hnd.2, Nat.zero_add]

theorem consume_some (name : Str) (sp : Nat × Nat) (s s' : Sched) (hnd : (keys s).Nodup)
    (h : consume name sp s = some s') :
    1 ≤ Sched.count s name sp ∧ keys s' = keys s ∧
      ∀ n x, Sched.count s' n x = Sched.count s n x - if n = name ∧ x = sp then 1 else 0 := by
  induction s generalizing s' with
  | nil => simp [consume] at h
  | cons p rest ih =>
    obtain ⟨k, l⟩ := p
    simp only [keys, List.map_cons, List.nodup_cons] at hnd
    by_cases hk : k = name
    · subst hk
      simp only [consume, if_true, Option.map_eq_some_iff] at h
      obtain ⟨l', hl', rfl⟩ := h
      obtain ⟨h1, h2⟩ := removeFirst_some sp l l' hl'
      refine ⟨by rw [count_cons]; simp; omega, by simp [keys], fun n x => ?_⟩
      rw [count_cons, count_cons]
      by_cases hn : k = n
      · subst hn
        simp only [if_true, true_and, h2 x, count_of_not_key rest k x hnd.1]
        omega
      · have : ¬ n = k := fun e => hn e.symm
        simp [hn, this]
    · simp only [consume, hk, if_false, Option.map_eq_some_iff] at h
      obtain ⟨r', hr', rfl⟩ := h
      obtain ⟨h1, h2, h3⟩ := ih r' hnd.2 hr'
      refine ⟨by rw [count_cons]; simp [hk]; exact h1, by simp [keys] at h2 ⊢; exact h2, fun n x => ?_⟩
      rw [count_cons, count_cons, h3 n x]
      by_cases hn : k = n
      · subst hn
        have : ¬ (k = name ∧ x = sp) := fun e => hk e.1
        simp [this]
      · simp [hn]

/-! ### The deletion-consuming loop -/

theorem occCount_cons (o : Occ) (os : List Occ) (name : Str) (sp : Nat × Nat) :
    occCount (o :: os) name sp =
      (if o.1 = name ∧ (o.2.1, o.2.2.1) = sp then 1 else 0) + occCount os name sp := by
  unfold occCount
  rw [List.countP_cons]
  by_cases h : o.1 = name ∧ (o.2.1, o.2.2.1) = sp
  · have : (o.1 == name && (o.2.1, o.2.2.1) == sp) = true := by simpa using h
    simp [h, this]; omega
  · have : ¬ (o.1 == name && (o.2.1, o.2.2.1) == sp) = true := by simpa using h
    simp [h, this]

/-- **The loop, counted**: what is kept is what was computed minus what was scheduled (one
occurrence per scheduled deletion with exactly that name and range, as far as there are any), and
what remains scheduled is what found no occurrence. -/
theorem stage_count (occs : List Occ) :
    ∀ del : Sched, (keys del).Nodup →
      (keys (stage del occs).2 = keys del) ∧
      ∀ n x, occCount (stage del occs).1 n x = occCount occs n x - Sched.count del n x ∧
        Sched.count (stage del occs).2 n x = Sched.count del n x - occCount occs n x := by
  induction occs with
  | nil => intro del _; simp [stage, occCount]
  | cons o os ih =>
    intro del hnd
    simp only [stage]
    cases hc : consume o.1 (o.2.1, o.2.2.1) del with
    | some del' =>
      obtain ⟨h1, hk, h3⟩ := consume_some _ _ del del' hnd hc
      have hnd' : (keys del').Nodup := by rw [hk]; exact hnd
      obtain ⟨ihk, ihc⟩ := ih del' hnd'
      refine ⟨by simp only; rw [ihk, hk], fun n x => ?_⟩
      obtain ⟨a, b⟩ := ihc n x
      simp only
      rw [a, b, h3 n x, occCount_cons]
      by_cases hm : o.1 = n ∧ (o.2.1, o.2.2.1) = x
      · obtain ⟨rfl, rfl⟩ := hm
        simp only [true_and, and_self, if_true]
        omega
      · have hm' : ¬ (n = o.1 ∧ x = (o.2.1, o.2.2.1)) := fun e => hm ⟨e.1.symm, e.2.symm⟩
        simp only [hm, hm', if_false]
        omega
    | none =>
      have h0 := (consume_none _ _ del hnd).mp hc
      obtain ⟨ihk, ihc⟩ := ih del hnd
      refine ⟨ihk, fun n x => ?_⟩
      obtain ⟨a, b⟩ := ihc n x
      simp only
      rw [occCount_cons, occCount_cons, a, b]
      by_cases hm : o.1 = n ∧ (o.2.1, o.2.2.1) = x
      · obtain ⟨rfl, rfl⟩ := hm
        simp only [and_self, if_true]
        omega
      · simp only [hm, if_false]
        omega

theorem stage_sublist (occs : List Occ) : ∀ del : Sched, ((stage del occs).1).Sublist occs := by
  induction occs with
  | nil => intro del; simp [stage]
  | cons o os ih =>
    intro del
    simp only [stage]
    cases consume o.1 (o.2.1, o.2.2.1) del with
    | some del' => exact (ih del').trans (List.sublist_cons_self _ _)
    | none => exact (ih del).cons_cons o

/-- Names without any scheduled deletion keep all their occurrences, in order. -/
theorem stage_untouched (name : Str) (occs : List Occ) :
    ∀ del : Sched, (keys del).Nodup → name ∉ keys del →
      (stage del occs).1.filter (fun o => o.1 == name) = occs.filter (fun o => o.1 == name) := by
  induction occs with
  | nil => intro del _ _; simp [stage]
  | cons o os ih =>
    intro del hnd hname
    simp only [stage]
    cases hc : consume o.1 (o.2.1, o.2.2.1) del with
    | some del' =>
      obtain ⟨h1, hk, _⟩ := consume_some _ _ del del' hnd hc
      have hne : ¬ o.1 = name := by
        intro e
        rw [e, count_of_not_key del name _ hname] at h1
        omega
      have : (o.1 == name) = false := by simpa using hne
      simp only
      rw [ih del' (by rw [hk]; exact hnd) (by rw [hk]; exact hname), List.filter_cons, this]
      simp
    | none =>
      simp only [List.filter_cons]
      rw [ih del hnd hname]

/-! ### Grouping and additions -/

def spanKey (s : Span3) : Nat × Nat := (s.1, s.2.1)

theorem labels_count_cons (k : Str) (l : List Span3) (rest : Labels) (name : Str) (sp : Nat × Nat) :
    Labels.count ((k, l) :: rest) name sp =
      (if k = name then l.countP (fun s => (s.1, s.2.1) == sp) else 0) + Labels.count rest name sp := by
  simp [Labels.count]

theorem push_count (ls : Labels) (name : Str) (s : Span3) (n : Str) (x : Nat × Nat) :
    Labels.count (ls.push name s) n x =
      Labels.count ls n x + if name = n ∧ (s.1, s.2.1) = x then 1 else 0 := by
  induction ls with
  | nil =>
    simp only [Labels.push, labels_count_cons, Labels.count, List.map_nil, List.sum_nil]
    by_cases h1 : name = n <;> by_cases h2 : (s.1, s.2.1) = x <;> simp [h1, h2, List.countP_cons]
  | cons p rest ih =>
    obtain ⟨k, l⟩ := p
    by_cases hk : k = name
    · subst hk
      simp only [Labels.push, if_true, labels_count_cons]
      by_cases h1 : k = n <;> by_cases h2 : (s.1, s.2.1) = x <;> simp [h1, h2, List.countP_append, List.countP_cons] <;> omega
    · simp only [Labels.push, hk, if_false, labels_count_cons, ih]
      omega

theorem group_count_aux (occs : List Occ) : ∀ acc : Labels, ∀ n x,
    Labels.count (occs.foldl (fun ls o => ls.push o.1 o.2) acc) n x = Labels.count acc n x + occCount occs n x := by
  induction occs with
  | nil => intro acc n x; simp [occCount]
  | cons o os ih =>
    intro acc n x
    rw [List.foldl_cons, ih, push_count, occCount_cons]
    omega

theorem group_count (occs : List Occ) (n : Str) (x : Nat × Nat) :
    Labels.count (group occs) n x = occCount occs n x := by
  rw [group, group_count_aux]; simp [Labels.count]

theorem countP_new (spans : List (Nat × Nat)) (x : Nat × Nat) :
    (spans.map fun sp => ((sp.1, sp.2, []) : Span3)).countP (fun s => (s.1, s.2.1) == x) = spans.count x := by
  induction spans with
  | nil => rfl
  | cons sp t ih =>
    rw [List.map_cons, List.countP_cons, ih, List.count_cons]

theorem extendSort_count (ls : Labels) (name : Str) (spans : List (Nat × Nat)) (n : Str) (x : Nat × Nat) :
    Labels.count (ls.extendSort name spans) n x =
      Labels.count ls n x + if name = n then spans.count x else 0 := by
  induction ls with
  | nil =>
    simp only [Labels.extendSort, labels_count_cons]
    rw [(isort_perm _ _).countP_eq, countP_new]
    simp [Labels.count]
  | cons p rest ih =>
    obtain ⟨k, l⟩ := p
    by_cases hk : k = name
    · subst hk
      simp only [Labels.extendSort, if_true, labels_count_cons]
      rw [(isort_perm _ _).countP_eq, List.countP_append, countP_new]
      by_cases h1 : k = n <;> simp [h1] <;> omega
    · simp only [Labels.extendSort, hk, if_false, labels_count_cons, ih]
      omega

theorem mergeAdditions_count (add : Sched) : ∀ ls : Labels, ∀ n x,
    Labels.count (mergeAdditions ls add) n x = Labels.count ls n x + Sched.count add n x := by
  induction add with
  | nil => intro ls n x; simp [mergeAdditions, Sched.count]
  | cons p rest ih =>
    obtain ⟨k, l⟩ := p
    intro ls n x
    have := ih (ls.extendSort k l) n x
    simp only [mergeAdditions, List.foldl_cons] at this ⊢
    rw [this, extendSort_count, count_cons]
    omega

/-! ### All the stages together -/

theorem labels_count_append (a b : Labels) (n : Str) (x : Nat × Nat) :
    Labels.count (a ++ b) n x = Labels.count a n x + Labels.count b n x := by
  simp [Labels.count, List.sum_append]

/-- Occurrences of `(n, x)` among what SQLite derived at all the stages. -/
def derivedCount (derived : List (List Occ)) (n : Str) (x : Nat × Nat) : Nat :=
  (derived.map fun d => occCount d n x).sum

/-- The SQL stages, folded: what is kept overall is what was derived overall minus the deletions still
scheduled (as far as there are occurrences), whatever the stage at which each occurrence shows up. -/
theorem stages_fold_count (derived : List (List Occ)) : ∀ (L : Labels) (D : Sched), (keys D).Nodup →
    let R := derived.foldl (fun acc d => ((acc.1 ++ (sqlStage acc.2 d).1, (sqlStage acc.2 d).2) : Labels × Sched)) (L, D)
    (keys R.2).Nodup ∧ ∀ n x,
      Labels.count R.1 n x = Labels.count L n x + (derivedCount derived n x - Sched.count D n x) ∧
      Sched.count R.2 n x = Sched.count D n x - derivedCount derived n x := by
  induction derived with
  | nil => intro L D hnd; simp [derivedCount]; exact hnd
  | cons d rest ih =>
    intro L D hnd
    obtain ⟨hk, hc⟩ := stage_count d D hnd
    have hnd' : (keys (sqlStage D d).2).Nodup := by simp only [sqlStage]; rw [hk]; exact hnd
    obtain ⟨ihk, ihc⟩ := ih (L ++ (sqlStage D d).1) (sqlStage D d).2 hnd'
    simp only [List.foldl_cons]
    refine ⟨ihk, fun n x => ?_⟩
    obtain ⟨a, b⟩ := ihc n x
    obtain ⟨c1, c2⟩ := hc n x
    simp only [sqlStage] at a b ⊢
    rw [a, b, labels_count_append, group_count, c1, c2]
    simp only [derivedCount, List.map_cons, List.sum_cons]
    omega

end Paroxy.Glue
