/-
Lemmas for the assessor with a shared, in-place-mutated knowledge set (Model/CostsShared.lean).
-/
import Paroxy.Proofs.Costs
import Paroxy.Model.CostsShared
namespace Paroxy.Costs
open Paroxy Paroxy.Filter

/-! ### Heap -/

theorem heapGet_heapSet (h : Heap) (a b : Nat) (v : List Codes) :
    heapGet (heapSet h a v) b = if a = b then v else heapGet h b := rfl

theorem heapGet_heapSet_ne (h : Heap) (a b : Nat) (v : List Codes) (hne : a ≠ b) :
    heapGet (heapSet h a v) b = heapGet h b := by
  rw [heapGet_heapSet, if_neg hne]

/-! ### The memo is the image of the snapshots -/

/-- The cached entry of a snapshot: the pure cost under the knowledge recorded. -/
def snapEntry (strat : Strategy) (e : Codes × List Codes) : Codes × Rat := (e.1, taxonCost strat e.2 e.1)

theorem dictGet?_snapEntry (strat : Strategy) (snap : List (Codes × List Codes)) (t : Codes) :
    dictGet? (snap.map (snapEntry strat)) t = (dictGet? snap t).map fun K => taxonCost strat K t := by
  induction snap with
  | nil => rfl
  | cons e r ih =>
    obtain ⟨k, K⟩ := e
    simp only [List.map_cons, snapEntry, dictGet?]
    split
    · rename_i he; subst he; rfl
    · exact ih

theorem memoCost_snap (strat : Strategy) (K : List Codes) (snap : List (Codes × List Codes)) (t : Codes) :
    (memoCost strat { knowledge := K, memo := snap.map (snapEntry strat) } t).2 = (gCost strat K snap t).2 ∧
    (memoCost strat { knowledge := K, memo := snap.map (snapEntry strat) } t).1 =
      { knowledge := K, memo := (gCost strat K snap t).1.map (snapEntry strat) } := by
  unfold memoCost gCost snapOf
  simp only [dictGet?_snapEntry]
  cases dictGet? snap t with
  | some K0 => exact ⟨rfl, rfl⟩
  | none => simp [snapEntry]

theorem memoProgramCost_snap (strat : Strategy) (K : List Codes) (rec : TaxaSpans) (snap : List (Codes × List Codes)) :
    (memoProgramCost strat { knowledge := K, memo := snap.map (snapEntry strat) } rec).2 =
      (gProgramCost strat K snap rec).2 ∧
    (memoProgramCost strat { knowledge := K, memo := snap.map (snapEntry strat) } rec).1 =
      { knowledge := K, memo := (gProgramCost strat K snap rec).1.map (snapEntry strat) } := by
  unfold memoProgramCost gProgramCost
  have gen : ∀ (l : TaxaSpans) (sn : List (Codes × List Codes)) (a : Rat),
      (l.foldl (fun (acc : AState × Rat) ts =>
        ((memoCost strat acc.1 ts.1).1, acc.2 + (memoCost strat acc.1 ts.1).2))
          (({ knowledge := K, memo := sn.map (snapEntry strat) } : AState), a)) =
      (({ knowledge := K, memo := (l.foldl (fun acc ts =>
          ((gCost strat K acc.1 ts.1).1, acc.2 + (gCost strat K acc.1 ts.1).2)) (sn, a)).1.map (snapEntry strat) } : AState),
        (l.foldl (fun acc ts =>
          ((gCost strat K acc.1 ts.1).1, acc.2 + (gCost strat K acc.1 ts.1).2)) (sn, a)).2) := by
    intro l
    induction l with
    | nil => intro sn a; rfl
    | cons x r ih =>
      intro sn a
      simp only [List.foldl_cons]
      obtain ⟨e1, e2⟩ := memoCost_snap strat K sn x.1
      rw [e1, e2]
      exact ih _ _
  have := gen rec snap 0
  exact ⟨congrArg Prod.snd this, congrArg Prod.fst this⟩

theorem memoAssess_snap (strat : Strategy) (progs : List (Codes × TaxaSpans)) (K : List Codes) (sel : List Codes)
    (snap : List (Codes × List Codes)) :
    (memoAssess strat progs { knowledge := K, memo := snap.map (snapEntry strat) } sel).2 =
      (gAssess strat progs K snap sel).2 ∧
    (memoAssess strat progs { knowledge := K, memo := snap.map (snapEntry strat) } sel).1 =
      { knowledge := K, memo := (gAssess strat progs K snap sel).1.map (snapEntry strat) } := by
  induction sel generalizing snap with
  | nil => exact ⟨rfl, rfl⟩
  | cons p ps ih =>
    unfold memoAssess gAssess
    cases dictGet? progs p with
    | none => exact ⟨rfl, rfl⟩
    | some rec =>
      obtain ⟨e1, e2⟩ := memoProgramCost_snap strat K rec snap
      simp only
      rw [e2, e1]
      obtain ⟨f1, f2⟩ := ih (gProgramCost strat K snap rec).1
      rw [f1, f2]
      exact ⟨rfl, rfl⟩

/-! ### Snapshots: first wins, and a new one is the current knowledge -/

/-- `snap'` extends `snap` under current knowledge `K`: nothing recorded is replaced, and whatever is new
records `K`. -/
def SnapExt (K : List Codes) (snap snap' : List (Codes × List Codes)) : Prop :=
  (∀ t K0, dictGet? snap t = some K0 → dictGet? snap' t = some K0) ∧
  (∀ t K1, dictGet? snap' t = some K1 → dictGet? snap t = some K1 ∨ (dictGet? snap t = none ∧ K1 = K))

theorem SnapExt.refl (K : List Codes) (snap : List (Codes × List Codes)) : SnapExt K snap snap :=
  ⟨fun _ _ h => h, fun _ _ h => Or.inl h⟩

theorem SnapExt.trans {K : List Codes} {a b c : List (Codes × List Codes)} (h1 : SnapExt K a b) (h2 : SnapExt K b c) :
    SnapExt K a c := by
  refine ⟨fun t K0 h => h2.1 t K0 (h1.1 t K0 h), fun t K1 h => ?_⟩
  rcases h2.2 t K1 h with hb | ⟨hb, rfl⟩
  · exact h1.2 t K1 hb
  · cases ha : dictGet? a t with
    | none => exact Or.inr ⟨rfl, rfl⟩
    | some K0 => rw [h1.1 t K0 ha] at hb; cases hb

theorem gCost_ext (strat : Strategy) (K : List Codes) (snap : List (Codes × List Codes)) (t : Codes) :
    SnapExt K snap (gCost strat K snap t).1 := by
  unfold gCost
  cases hg : dictGet? snap t with
  | some K0 => exact SnapExt.refl K snap
  | none =>
    refine ⟨fun t' K0 h => by simp only [dictGet?_append_single, h], fun t' K1 h => ?_⟩
    simp only [dictGet?_append_single] at h
    cases hs : dictGet? snap t' with
    | some x => rw [hs] at h; exact Or.inl h
    | none =>
      rw [hs] at h
      simp only at h
      split at h
      · cases h; exact Or.inr ⟨rfl, rfl⟩
      · cases h

theorem gProgramCost_ext (strat : Strategy) (K : List Codes) (rec : TaxaSpans) (snap : List (Codes × List Codes)) :
    SnapExt K snap (gProgramCost strat K snap rec).1 := by
  unfold gProgramCost
  have gen : ∀ (l : TaxaSpans) (sn : List (Codes × List Codes)) (a : Rat),
      SnapExt K sn (l.foldl (fun acc ts =>
        ((gCost strat K acc.1 ts.1).1, acc.2 + (gCost strat K acc.1 ts.1).2)) (sn, a)).1 := by
    intro l
    induction l with
    | nil => intro sn a; exact SnapExt.refl K sn
    | cons x r ih =>
      intro sn a
      simp only [List.foldl_cons]
      exact (gCost_ext strat K sn x.1).trans (ih _ _)
  exact gen rec snap 0

theorem gAssess_ext (strat : Strategy) (progs : List (Codes × TaxaSpans)) (K : List Codes) (sel : List Codes)
    (snap : List (Codes × List Codes)) : SnapExt K snap (gAssess strat progs K snap sel).1 := by
  induction sel generalizing snap with
  | nil => exact SnapExt.refl K snap
  | cons p ps ih =>
    unfold gAssess
    cases dictGet? progs p with
    | none => exact SnapExt.refl K snap
    | some rec => exact (gProgramCost_ext strat K rec snap).trans (ih _)

/-- The simulation relation between the memo machine and the snapshot machine. -/
def SnapRel (strat : Strategy) (s : SState) (g : GState) : Prop :=
  s.heap = g.heap ∧ s.ptr = g.ptr ∧ s.memo = g.snap.map (snapEntry strat)

theorem sstep_gstep (strat : Strategy) (progs : List (Codes × TaxaSpans)) (s : SState) (g : GState) (op : SOp)
    (h : SnapRel strat s g) :
    (sstep strat progs s op).2 = (gstep strat progs g op).2 ∧
      SnapRel strat (sstep strat progs s op).1 (gstep strat progs g op).1 := by
  obtain ⟨sh, sp, sm⟩ := s
  obtain ⟨gh, gp, gs⟩ := g
  obtain ⟨h1, h2, h3⟩ := h
  simp only at h1 h2 h3
  subst h1 h2 h3
  cases op with
  | mutateKnowledge a add del => exact ⟨rfl, rfl, rfl, rfl⟩
  | setKnowledge a => exact ⟨rfl, rfl, rfl, rfl⟩
  | foreignClear => exact ⟨rfl, rfl, rfl, rfl⟩
  | taxonCost t =>
    obtain ⟨e1, e2⟩ := memoCost_snap strat (heapGet sh sp) gs t
    simp only [sstep, gstep, SState.view, SState.knowledge, GState.knowledge, e1, e2]
    exact ⟨by first | rfl | trivial, rfl, rfl, rfl⟩
  | assess sel =>
    obtain ⟨e1, e2⟩ := memoAssess_snap strat progs (heapGet sh sp) sel gs
    simp only [sstep, gstep, SState.view, SState.knowledge, GState.knowledge, e1, e2]
    exact ⟨by first | rfl | trivial, rfl, rfl, rfl⟩

theorem srun_grun (strat : Strategy) (progs : List (Codes × TaxaSpans)) (ops : List SOp) (s : SState) (g : GState)
    (h : SnapRel strat s g) : srun strat progs s ops = grun strat progs g ops := by
  induction ops generalizing s g with
  | nil => rfl
  | cons op r ih =>
    obtain ⟨e1, e2⟩ := sstep_gstep strat progs s g op h
    simp only [srun, grun]
    rw [e1, ih _ _ e2]
    have : s.knowledge = g.knowledge := by
      obtain ⟨h1, h2, _⟩ := h
      simp only [SState.knowledge, GState.knowledge, h1, h2]
    rw [this]

/-! ### The discipline: no cost asked while the pointed-to object is dirty -/

theorem sstep_spec (strat : Strategy) (progs : List (Codes × TaxaSpans)) (s : SState) (op : SOp)
    (h : MemoOk strat s.view) :
    (sstep strat progs s op).2 = pureOutS strat progs s.knowledge op := by
  cases op with
  | mutateKnowledge a add del => rfl
  | setKnowledge a => rfl
  | foreignClear => rfl
  | taxonCost t =>
    obtain ⟨e1, _, _⟩ := memoCost_spec strat s.view t h
    simp only [sstep, pureOutS, e1]; rfl
  | assess sel =>
    obtain ⟨e1, _, _⟩ := memoAssess_spec strat progs sel s.view h
    change _ = List.mapM (fun p => Option.map (fun rec => (programCost strat s.knowledge rec, p)) (dictGet? progs p)) sel at e1
    simp only [sstep, pureOutS, assess, e1]
    cases List.mapM (fun p => Option.map (fun rec => (programCost strat s.knowledge rec, p)) (dictGet? progs p)) sel <;> rfl

theorem disciplined_sound (strat : Strategy) (progs : List (Codes × TaxaSpans)) (ops : List SOp) (s : SState) (dirty : Bool)
    (hs : dirty = false → MemoOk strat s.view) (hd : disciplined s.ptr dirty ops = true) :
    ∀ e ∈ srun strat progs s ops, e.2.2 = pureOutS strat progs e.1 e.2.1 := by
  induction ops generalizing s dirty with
  | nil => intro e he; cases he
  | cons op r ih =>
    intro e he
    simp only [srun, List.mem_cons] at he
    cases op with
    | mutateKnowledge a add del =>
      rcases he with rfl | he
      · rfl
      · refine ih (sstep strat progs s (.mutateKnowledge a add del)).1 (dirty || a == s.ptr) ?_ hd e he
        intro hdirty
        simp only [Bool.or_eq_false_iff, beq_eq_false_iff_ne] at hdirty
        have hk : (sstep strat progs s (.mutateKnowledge a add del)).1.view = s.view := by
          simp only [sstep, SState.view, SState.knowledge, heapGet_heapSet_ne _ _ _ _ hdirty.2]
        rw [hk]; exact hs hdirty.1
    | setKnowledge a =>
      rcases he with rfl | he
      · rfl
      · exact ih (sstep strat progs s (.setKnowledge a)).1 false (fun _ t v hv => by cases hv) hd e he
    | foreignClear =>
      rcases he with rfl | he
      · rfl
      · exact ih (sstep strat progs s .foreignClear).1 dirty (fun hdirty t v hv => by cases hv) hd e he
    | taxonCost t =>
      simp only [disciplined, Bool.and_eq_true, Bool.not_eq_true'] at hd
      have hok := hs hd.1
      rcases he with rfl | he
      · exact sstep_spec strat progs s _ hok
      · refine ih (sstep strat progs s (.taxonCost t)).1 dirty (fun _ => ?_) hd.2 e he
        obtain ⟨_, e2, e3⟩ := memoCost_spec strat s.view t hok
        have hv : (sstep strat progs s (.taxonCost t)).1.view = (memoCost strat s.view t).1 := by
          show ({ knowledge := s.knowledge, memo := (memoCost strat s.view t).1.memo } : AState) = _
          generalize memoCost strat s.view t = X at e3 ⊢
          obtain ⟨⟨k, m⟩, v⟩ := X
          simp only at e3
          subst e3
          rfl
        rw [hv]; exact e2
    | assess sel =>
      simp only [disciplined, Bool.and_eq_true, Bool.not_eq_true'] at hd
      have hok := hs hd.1
      rcases he with rfl | he
      · exact sstep_spec strat progs s _ hok
      · refine ih (sstep strat progs s (.assess sel)).1 dirty (fun _ => ?_) hd.2 e he
        obtain ⟨_, e2, e3⟩ := memoAssess_spec strat progs sel s.view hok
        have hv : (sstep strat progs s (.assess sel)).1.view = (memoAssess strat progs s.view sel).1 := by
          show ({ knowledge := s.knowledge, memo := (memoAssess strat progs s.view sel).1.memo } : AState) = _
          generalize memoAssess strat progs s.view sel = X at e3 ⊢
          obtain ⟨⟨k, m⟩, v⟩ := X
          simp only at e3
          subst e3
          rfl
        rw [hv]; exact e2

theorem disciplined_append (a : Nat) (l1 l2 : List SOp) (p : Nat) (d : Bool)
    (h1 : ∀ p d, disciplined p d l2 = true) (h0 : ∀ op ∈ l1, ∃ add, op = SOp.mutateKnowledge a add []) :
    disciplined p d (l1 ++ l2) = true := by
  induction l1 generalizing d with
  | nil => exact h1 p d
  | cons op r ih =>
    obtain ⟨add, rfl⟩ := h0 op (List.mem_cons_self)
    exact ih _ (fun o ho => h0 o (List.mem_cons_of_mem _ ho))

theorem disciplined_queries (p : Nat) (qs : List Codes) (rest : List SOp) (h : ∀ p d, disciplined p d rest = true) :
    disciplined p false (qs.map SOp.taxonCost ++ rest) = true := by
  induction qs with
  | nil => exact h p false
  | cons q r ih => simpa [disciplined] using ih

theorem pipelineOps_disciplined (addr : Nat) (rounds : List Round) (p : Nat) (d : Bool) :
    disciplined p d (pipelineOps addr rounds) = true := by
  induction rounds generalizing p d with
  | nil => cases d <;> rfl
  | cons r rs ih =>
    unfold pipelineOps at ih ⊢
    simp only [List.flatMap_cons, roundOps, List.append_assoc]
    refine disciplined_append addr _ _ p d ?_ ?_
    · intro p d
      simp only [List.cons_append, disciplined, Bool.not_false, Bool.true_and]
      exact disciplined_queries addr r.queries _ ih
    · intro op hop
      obtain ⟨add, _, rfl⟩ := List.mem_map.1 hop
      exact ⟨add, rfl⟩

end Paroxy.Costs
