/-
Helper lemmas for C13: the token loop of `full_cleaning`. Core Lean only.
-/
import Paroxy.Model.Cleanup
import Paroxy.Spec.Cleanup
namespace Paroxy.Cleanup
open Paroxy.Cleanup.Spec

theorem loopFrom_length (st : LoopState) (ts : List Token) : (loopFrom st ts).length = ts.length := by
  induction ts generalizing st with
  | nil => simp [loopFrom]
  | cons t ts ih => simp [loopFrom, ih]

/-- The emission for token `i` is one `step` from the state reached after the tokens before it,
looking at the kind of the token after it. -/
theorem loopFrom_getElem (st : LoopState) (ts : List Token) (i : Nat) (h : i < ts.length) :
    (loopFrom st ts)[i]'(by rw [loopFrom_length]; exact h) =
      (step (stateAfter st (ts.take i) (ts.drop i)) ts[i] (nextKind (ts.drop (i + 1)))).2 := by
  induction ts generalizing st i with
  | nil => simp at h
  | cons t ts ih =>
    cases i with
    | zero => simp [loopFrom, stateAfter]
    | succ j =>
      simp only [loopFrom, List.getElem_cons_succ, List.take_succ_cons, List.drop_succ_cons, stateAfter,
        List.take_append_drop]
      exact ih _ j (by simpa using h)

/-- The joined output splits around token `i`. -/
theorem loopFrom_split (st : LoopState) (ts : List Token) (i : Nat) (h : i < ts.length) :
    ∃ before after, loopFrom st ts = before ++
      (step (stateAfter st (ts.take i) (ts.drop i)) ts[i] (nextKind (ts.drop (i + 1)))).2 :: after := by
  have hl : i < (loopFrom st ts).length := by rw [loopFrom_length]; exact h
  refine ⟨(loopFrom st ts).take i, (loopFrom st ts).drop (i + 1), ?_⟩
  rw [← loopFrom_getElem st ts i h, List.getElem_cons_drop, List.take_append_drop]

/-- What `step` appends after the padding. -/
theorem step_piece (st : LoopState) (t : Token) (nx : Option Kind) :
    (step st t nx).2.piece =
      if t.kind = .comment then
        (if (normalizeComment t.str).2 = 0 then .dropped else .hint (normalizeComment t.str).1)
      else if t.kind = .string ∧ st.prev.opensStmt = true ∧ nx = some .newline then .pass
      else if t.kind = .fstringMiddle then .verbatim (doubleBraces t.str)
      else .verbatim t.str := by
  unfold step
  simp only
  split
  · split <;> rfl
  · split
    · rfl
    · split <;> rfl

theorem nextPrev_opens (p k : Kind) :
    (nextPrev p k).opensStmt = if transparent k = true then p.opensStmt else k.opensStmt := by
  cases k <;> cases p <;> simp [nextPrev, transparent, Kind.opensStmt]

theorem step_opens (st : LoopState) (t : Token) (nx : Option Kind) :
    (step st t nx).1.prev.opensStmt =
      if transparent t.kind = true then st.prev.opensStmt else t.kind.opensStmt := by
  unfold step
  simp only
  by_cases hc : t.kind = .comment
  · by_cases hn : (normalizeComment t.str).2 = 0
    · simp [hc, hn, transparent]
    · simp only [hc, hn, if_true, if_false]
      exact nextPrev_opens _ _
  · simp only [hc, if_false]
    split
    · exact nextPrev_opens _ _
    · split <;> exact nextPrev_opens _ _

/-- Does the remembered token open a statement, as a fold over the kinds seen. -/
def opensFold (b : Bool) (k : Kind) : Bool := if transparent k then b else k.opensStmt

theorem stateAfter_opens (st : LoopState) (pre rest : List Token) :
    (stateAfter st pre rest).prev.opensStmt = (pre.map (·.kind)).foldl opensFold st.prev.opensStmt := by
  induction pre generalizing st with
  | nil => simp [stateAfter]
  | cons t ts ih =>
    simp only [stateAfter, List.map_cons, List.foldl_cons]
    rw [ih, step_opens]
    rfl

theorem opensFold_spec (r : List Kind) : r.reverse.foldl opensFold true = atStmtStartRev r := by
  induction r with
  | nil => rfl
  | cons k r ih =>
    simp only [List.reverse_cons, List.foldl_append, List.foldl_cons, List.foldl_nil, ih, opensFold,
      atStmtStartRev]

theorem stateAfter_init_opens (pre rest : List Token) :
    (stateAfter .init pre rest).prev.opensStmt = atStmtStartB pre := by
  rw [stateAfter_opens]
  have := opensFold_spec (pre.map (·.kind)).reverse
  simp only [List.reverse_reverse] at this
  exact this

theorem atStmtStartRev_iff (r : List Kind) :
    atStmtStartRev r = true ↔
      (r.dropWhile transparent = [] ∨ ∃ k r', r.dropWhile transparent = k :: r' ∧ k.opensStmt = true) := by
  induction r with
  | nil => simp [atStmtStartRev]
  | cons k r ih =>
    by_cases hk : transparent k = true
    · simp only [atStmtStartRev, hk, if_true, List.dropWhile_cons]
      exact ih
    · simp only [atStmtStartRev, hk, Bool.false_eq_true, if_false, List.dropWhile_cons]
      constructor
      · intro h; exact Or.inr ⟨k, r, rfl, h⟩
      · rintro (h | ⟨k', r', h, hk'⟩)
        · cases h
        · simp only [List.cons.injEq] at h
          rw [h.1]; exact hk'

theorem atStmtStartB_iff (pre : List Token) : atStmtStartB pre = true ↔ AtStmtStart pre := by
  unfold atStmtStartB AtStmtStart
  exact atStmtStartRev_iff _

/-- `tokens[i + 1]` is missing exactly when the last token is a STRING at a statement start. -/
theorem loopRaisesFrom_snoc (st : LoopState) (pre : List Token) (t : Token) :
    loopRaisesFrom st (pre ++ [t]) =
      (decide (t.kind = .string) && (stateAfter st pre [t]).prev.opensStmt) := by
  induction pre generalizing st with
  | nil => simp [loopRaisesFrom, stateAfter]
  | cons a as ih =>
    cases as with
    | nil => simp [loopRaisesFrom, stateAfter, nextKind]
    | cons b bs =>
      simp only [List.cons_append, loopRaisesFrom]
      rw [← List.cons_append, ih]
      simp [stateAfter, nextKind]

/-! ### the normalised hint comment -/

/-- When a marker is counted, the result contains `# paroxython: `. -/
theorem normAux_marker (skip : Nat) (s : Text) (h : (normAux skip s).2 ≠ 0) :
    ∃ a b, (normAux skip s).1 = a ++ hintMarker ++ b := by
  induction s generalizing skip with
  | nil => simp [normAux] at h
  | cons c cs ih =>
    cases skip with
    | succ k =>
      rw [normAux] at h ⊢
      exact ih k h
    | zero =>
      rw [normAux] at h ⊢
      cases hm : markerRest? (c :: cs) with
      | some rest => exact ⟨[], (normAux (cs.length - rest.length) cs).1, by simp⟩
      | none =>
        rw [hm] at h
        simp only at h ⊢
        obtain ⟨a, b, hab⟩ := ih 0 h
        exact ⟨c :: a, b, by simp [hab]⟩

/-- The count is positive exactly when the marker regex matches at some position. -/
theorem normAux_zero_count (s : Text) :
    (normAux 0 s).2 ≠ 0 ↔ ∃ a b, s = a ++ b ∧ (markerRest? b).isSome = true := by
  induction s with
  | nil =>
    simp only [normAux, ne_eq, not_true_eq_false, false_iff]
    rintro ⟨a, b, h, hb⟩
    have : b = [] := by
      cases a <;> simp_all
    subst this
    simp [markerRest?] at hb
  | cons c cs ih =>
    rw [normAux]
    cases hm : markerRest? (c :: cs) with
    | some rest =>
      simp only [ne_eq, Nat.add_eq_zero_iff, Nat.succ_ne_self, and_false, not_false_eq_true, true_iff]
      exact ⟨[], c :: cs, rfl, by simp [hm]⟩
    | none =>
      simp only
      rw [ih]
      constructor
      · rintro ⟨a, b, h, hb⟩
        exact ⟨c :: a, b, by simp [h], hb⟩
      · rintro ⟨a, b, h, hb⟩
        cases a with
        | nil =>
          simp only [List.nil_append] at h
          rw [← h, hm] at hb
          simp at hb
        | cons x xs =>
          simp only [List.cons_append, List.cons.injEq] at h
          exact ⟨xs, b, h.2, hb⟩

end Paroxy.Cleanup
