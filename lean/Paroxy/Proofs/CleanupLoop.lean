/-
Helper lemmas for C13: the token loop of `full_cleaning`. Core Lean only.
-/
import Paroxy.Model.Cleanup
import Paroxy.Spec.Cleanup
namespace Paroxy.Cleanup
open Paroxy.Cleanup.Spec

theorem loopFrom_length (st : LoopState) (ts : List Token) : (loopFrom st ts).length = ts.length := by
  induction ts generalizing st with
  | nil => simp [loopFrom]
  | cons t ts ih => simp [loopFrom, ih]

theorem stateAfter_append (st : LoopState) (a b : List Token) :
    stateAfter st (a ++ b) = stateAfter (stateAfter st a) b := by
  induction a generalizing st with
  | nil => simp [stateAfter]
  | cons t ts ih => simp [stateAfter, ih]

theorem loopFrom_append (st : LoopState) (a b : List Token) :
    loopFrom st (a ++ b) = loopFrom st a ++ loopFrom (stateAfter st a) b := by
  induction a generalizing st with
  | nil => simp [loopFrom, stateAfter]
  | cons t ts ih => simp [loopFrom, stateAfter, ih]

/-- The emission for token `i` is one `step` from the state reached after the tokens before it. -/
theorem loopFrom_getElem (st : LoopState) (ts : List Token) (i : Nat) (h : i < ts.length) :
    (loopFrom st ts)[i]'(by rw [loopFrom_length]; exact h) =
      (step (stateAfter st (ts.take i)) ts[i]).2 := by
  induction ts generalizing st i with
  | nil => simp at h
  | cons t ts ih =>
    cases i with
    | zero => simp [loopFrom, stateAfter]
    | succ j =>
      simp only [loopFrom, List.getElem_cons_succ, List.take_succ_cons, stateAfter]
      exact ih _ j (by simpa using h)

/-- What `step` appends after the padding. -/
theorem step_piece (st : LoopState) (t : Token) :
    (step st t).2.piece =
      if t.kind = .comment then
        (if (normalizeComment t.str).2 = 0 then .dropped else .hint (normalizeComment t.str).1)
      else if t.kind = .string ∧ st.prev.opensStmt = true then .pass
      else .verbatim t.str := by
  unfold step
  simp only
  split
  · split <;> rfl
  · split <;> rfl

/-- `previous_token` after one more token. -/
def nextPrev (p k : Kind) : Kind := if p = .newline ∧ k = .nl then .newline else k

theorem seen_eq (t : Token) :
    seen t = !(decide (t.kind = .comment) && decide ((normalizeComment t.str).2 = 0)) := by
  simp only [seen, isHint]
  cases hk : t.kind <;> simp [bne]
  generalize (normalizeComment t.str).2 = n
  cases n <;> simp

theorem step_prev (st : LoopState) (t : Token) :
    (step st t).1.prev = if seen t = true then nextPrev st.prev t.kind else st.prev := by
  rw [seen_eq]
  unfold step nextPrev
  simp only
  by_cases hc : t.kind = .comment
  · by_cases hn : (normalizeComment t.str).2 = 0
    · simp [hc, hn]
    · simp [hc, hn]
  · by_cases hs : t.kind = .string ∧ st.prev.opensStmt = true
    · simp [hc, hs]
    · simp [hc, hs]

theorem stateAfter_prev (st : LoopState) (pre : List Token) :
    (stateAfter st pre).prev = ((pre.filter seen).map (·.kind)).foldl nextPrev st.prev := by
  induction pre generalizing st with
  | nil => simp [stateAfter]
  | cons t ts ih =>
    simp only [stateAfter]
    rw [ih, step_prev, List.filter_cons]
    by_cases hs : seen t = true <;> simp [hs]

/-- Characterisation of the remembered token kind, on the list of seen kinds, most recent first. -/
theorem prev_spec (r : List Kind) :
    ((r.reverse.foldl nextPrev Kind.indent).opensStmt = atStmtStartRev r) ∧
      ((r.reverse.foldl nextPrev Kind.indent = Kind.newline) ↔ nlRunAfterNewline r = true) := by
  induction r with
  | nil => simp [atStmtStartRev, nlRunAfterNewline, Kind.opensStmt]
  | cons k r ih =>
    simp only [List.reverse_cons, List.foldl_append, List.foldl_cons, List.foldl_nil]
    generalize r.reverse.foldl nextPrev Kind.indent = p at ih
    obtain ⟨ih1, ih2⟩ := ih
    cases k <;> simp only [nextPrev, atStmtStartRev, nlRunAfterNewline, Kind.opensStmt] <;>
      (try simp) <;> by_cases hp : p = Kind.newline <;> simp_all [Kind.opensStmt]

theorem stateAfter_init_opens (pre : List Token) :
    (stateAfter .init pre).prev.opensStmt = atStmtStartB pre := by
  rw [stateAfter_prev]
  have := (prev_spec (seenKindsRev pre)).1
  simp only [seenKindsRev, List.reverse_reverse] at this
  exact this

theorem nlRun_iff (r : List Kind) :
    nlRunAfterNewline r = true ↔ ∃ n r', r = List.replicate n Kind.nl ++ Kind.newline :: r' := by
  induction r with
  | nil =>
    simp only [nlRunAfterNewline, Bool.false_eq_true, false_iff]
    rintro ⟨n, r', h⟩
    cases n <;> simp [List.replicate] at h
  | cons k r ih =>
    cases k with
    | newline =>
      simp only [nlRunAfterNewline, true_iff]
      exact ⟨0, r, by simp⟩
    | nl =>
      simp only [nlRunAfterNewline]
      rw [ih]
      constructor
      · rintro ⟨n, r', h⟩
        exact ⟨n + 1, r', by simp [List.replicate, h]⟩
      · rintro ⟨n, r', h⟩
        cases n with
        | zero => simp at h
        | succ m =>
          simp only [List.replicate, List.cons_append, List.cons.injEq, true_and] at h
          exact ⟨m, r', h⟩
    | comment | string | indent | dedent | other =>
      simp only [nlRunAfterNewline, Bool.false_eq_true, false_iff]
      rintro ⟨n, r', h⟩
      cases n <;> simp [List.replicate] at h

theorem atStmtStartB_iff (pre : List Token) : atStmtStartB pre = true ↔ AtStmtStart pre := by
  unfold atStmtStartB AtStmtStart
  simp only
  generalize seenKindsRev pre = r
  cases r with
  | nil => simp [atStmtStartRev]
  | cons k r =>
    cases k with
    | nl =>
      simp only [atStmtStartRev, nlRun_iff]
      constructor
      · rintro ⟨n, r', h⟩
        right; right
        exact ⟨n, r', by simp [List.replicate, h]⟩
      · rintro (h | ⟨k, r', h, hk⟩ | ⟨n, r', h⟩)
        · simp at h
        · simp only [List.cons.injEq] at h
          rw [← h.1] at hk
          simp [Kind.opensStmt] at hk
        · simp only [List.replicate, List.cons_append, List.cons.injEq, true_and] at h
          exact ⟨n, r', h⟩
    | newline =>
      simp only [atStmtStartRev, Kind.opensStmt, true_iff]
      right; left
      exact ⟨_, _, rfl, rfl⟩
    | indent =>
      simp only [atStmtStartRev, Kind.opensStmt, true_iff]
      right; left
      exact ⟨_, _, rfl, rfl⟩
    | dedent =>
      simp only [atStmtStartRev, Kind.opensStmt, true_iff]
      right; left
      exact ⟨_, _, rfl, rfl⟩
    | comment | string | other =>
      simp only [atStmtStartRev, Kind.opensStmt, Bool.false_eq_true, false_iff]
      rintro (h | ⟨k, r', h, hk⟩ | ⟨n, r', h⟩)
      · simp at h
      · simp only [List.cons.injEq] at h
        rw [← h.1] at hk
        simp [Kind.opensStmt] at hk
      · simp [List.replicate] at h

/-! ### the normalised hint comment -/

/-- When a marker is counted, the result contains `# paroxython: `. -/
theorem normAux_marker (skip : Nat) (s : Text) (h : (normAux skip s).2 ≠ 0) :
    ∃ a b, (normAux skip s).1 = a ++ hintMarker ++ b := by
  induction s generalizing skip with
  | nil => simp [normAux] at h
  | cons c cs ih =>
    cases skip with
    | succ k =>
      rw [normAux] at h ⊢
      exact ih k h
    | zero =>
      rw [normAux] at h ⊢
      cases hm : markerRest? (c :: cs) with
      | some rest => exact ⟨[], (normAux (cs.length - rest.length) cs).1, by simp⟩
      | none =>
        rw [hm] at h
        simp only at h ⊢
        obtain ⟨a, b, hab⟩ := ih 0 h
        exact ⟨c :: a, b, by simp [hab]⟩

/-- The count is positive exactly when the marker regex matches at some position. -/
theorem normAux_zero_count (s : Text) :
    (normAux 0 s).2 ≠ 0 ↔ ∃ a b, s = a ++ b ∧ (markerRest? b).isSome = true := by
  induction s with
  | nil =>
    simp only [normAux, ne_eq, not_true_eq_false, false_iff]
    rintro ⟨a, b, h, hb⟩
    have : b = [] := by
      cases a <;> simp_all
    subst this
    simp [markerRest?] at hb
  | cons c cs ih =>
    rw [normAux]
    cases hm : markerRest? (c :: cs) with
    | some rest =>
      simp only [ne_eq, Nat.add_eq_zero_iff, Nat.succ_ne_self, and_false, not_false_eq_true, true_iff]
      exact ⟨[], c :: cs, rfl, by simp [hm]⟩
    | none =>
      simp only
      rw [ih]
      constructor
      · rintro ⟨a, b, h, hb⟩
        exact ⟨c :: a, b, by simp [h], hb⟩
      · rintro ⟨a, b, h, hb⟩
        cases a with
        | nil =>
          simp only [List.nil_append] at h
          rw [← h, hm] at hb
          simp at hb
        | cons x xs =>
          simp only [List.cons_append, List.cons.injEq] at h
          exact ⟨xs, b, h.2, hb⟩

end Paroxy.Cleanup
