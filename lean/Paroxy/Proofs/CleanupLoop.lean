/-
Helper lemmas for C13: the token loop of `full_cleaning`. Core Lean only.
-/
import Paroxy.Model.Cleanup
import Paroxy.Spec.Cleanup
import Paroxy.Proofs.Cleanup
namespace Paroxy.Cleanup
open Paroxy.Cleanup.Spec

theorem loopFrom_length (st : LoopState) (ts : List Token) : (loopFrom st ts).length = ts.length := by
  induction ts generalizing st with
  | nil => simp [loopFrom]
  | cons t ts ih => simp [loopFrom, ih]

/-- The emission for token `i` is one `step` from the state reached after the tokens before it,
looking at the kind of the token after it. -/
theorem loopFrom_getElem (st : LoopState) (ts : List Token) (i : Nat) (h : i < ts.length) :
    (loopFrom st ts)[i]'(by rw [loopFrom_length]; exact h) =
      (step (stateAfter st (ts.take i) (ts.drop i)) ts[i] (lookAhead (ts.drop (i + 1)))).2 := by
  induction ts generalizing st i with
  | nil => simp at h
  | cons t ts ih =>
    cases i with
    | zero => simp [loopFrom, stateAfter]
    | succ j =>
      simp only [loopFrom, List.getElem_cons_succ, List.take_succ_cons, List.drop_succ_cons, stateAfter,
        List.take_append_drop]
      exact ih _ j (by simpa using h)

/-- The joined output splits around token `i`. -/
theorem loopFrom_split (st : LoopState) (ts : List Token) (i : Nat) (h : i < ts.length) :
    ∃ before after, loopFrom st ts = before ++
      (step (stateAfter st (ts.take i) (ts.drop i)) ts[i] (lookAhead (ts.drop (i + 1)))).2 :: after := by
  have hl : i < (loopFrom st ts).length := by rw [loopFrom_length]; exact h
  refine ⟨(loopFrom st ts).take i, (loopFrom st ts).drop (i + 1), ?_⟩
  rw [← loopFrom_getElem st ts i h, List.getElem_cons_drop, List.take_append_drop]

/-- What `step` appends after the padding. -/
theorem step_piece (st : LoopState) (t : Token) (nx : Option Kind) :
    (step st t nx).2.piece =
      if t.kind = .comment then
        (if (normalizeComment t.str).2 = 0 then .dropped else .hint (normalizeComment t.str).1)
      else if t.kind = .string ∧ st.prev.opensStmt = true ∧ nx = some .newline then .pass
      else if t.kind = .fstringMiddle then .verbatim (doubleBraces t.str)
      else .verbatim t.str := by
  unfold step
  simp only
  split
  · split <;> rfl
  · split
    · rfl
    · split <;> rfl

theorem nextPrev_opens (p k : Kind) :
    (nextPrev p k).opensStmt = if transparent k = true then p.opensStmt else k.opensStmt := by
  cases k <;> cases p <;> simp [nextPrev, transparent, Kind.opensStmt]

theorem step_opens (st : LoopState) (t : Token) (nx : Option Kind) :
    (step st t nx).1.prev.opensStmt =
      if transparent t.kind = true then st.prev.opensStmt else t.kind.opensStmt := by
  unfold step
  simp only
  by_cases hc : t.kind = .comment
  · by_cases hn : (normalizeComment t.str).2 = 0
    · simp [hc, hn, transparent]
    · simp only [hc, hn, if_true, if_false]
      exact nextPrev_opens _ _
  · simp only [hc, if_false]
    split
    · exact nextPrev_opens _ _
    · split <;> exact nextPrev_opens _ _

/-- Does the remembered token open a statement, as a fold over the kinds seen. -/
def opensFold (b : Bool) (k : Kind) : Bool := if transparent k then b else k.opensStmt

theorem stateAfter_opens (st : LoopState) (pre rest : List Token) :
    (stateAfter st pre rest).prev.opensStmt = (pre.map (·.kind)).foldl opensFold st.prev.opensStmt := by
  induction pre generalizing st with
  | nil => simp [stateAfter]
  | cons t ts ih =>
    simp only [stateAfter, List.map_cons, List.foldl_cons]
    rw [ih, step_opens]
    rfl

theorem opensFold_spec (r : List Kind) : r.reverse.foldl opensFold true = atStmtStartRev r := by
  induction r with
  | nil => rfl
  | cons k r ih =>
    simp only [List.reverse_cons, List.foldl_append, List.foldl_cons, List.foldl_nil, ih, opensFold,
      atStmtStartRev]

theorem stateAfter_init_opens (pre rest : List Token) :
    (stateAfter .init pre rest).prev.opensStmt = atStmtStartB pre := by
  rw [stateAfter_opens]
  have := opensFold_spec (pre.map (·.kind)).reverse
  simp only [List.reverse_reverse] at this
  exact this

theorem atStmtStartRev_iff (r : List Kind) :
    atStmtStartRev r = true ↔
      (r.dropWhile transparent = [] ∨ ∃ k r', r.dropWhile transparent = k :: r' ∧ k.opensStmt = true) := by
  induction r with
  | nil => simp [atStmtStartRev]
  | cons k r ih =>
    by_cases hk : transparent k = true
    · simp only [atStmtStartRev, hk, if_true, List.dropWhile_cons]
      exact ih
    · simp only [atStmtStartRev, hk, Bool.false_eq_true, if_false, List.dropWhile_cons]
      constructor
      · intro h; exact Or.inr ⟨k, r, rfl, h⟩
      · rintro (h | ⟨k', r', h, hk'⟩)
        · cases h
        · simp only [List.cons.injEq] at h
          rw [h.1]; exact hk'

theorem atStmtStartB_iff (pre : List Token) : atStmtStartB pre = true ↔ AtStmtStart pre := by
  unfold atStmtStartB AtStmtStart
  exact atStmtStartRev_iff _

theorem lookAhead_eq (ts : List Token) : lookAhead ts = nextCodeKind ts := by
  induction ts with
  | nil => rfl
  | cons t ts ih =>
    unfold lookAhead at ih ⊢
    simp only [List.find?_cons, nextCodeKind]
    by_cases hc : t.kind = .comment
    · simp only [hc, bne_self_eq_false, Bool.false_eq_true, if_false, if_true]
      exact ih
    · have hb : (t.kind != Kind.comment) = true := by simp [hc]
      simp [hc, hb]

end Paroxy.Cleanup
