/-
From the integer program of `Proofs/DedupZ.lean` to the model `Dedup.dedup` on bags, and from the
exception-aware loops (`dedupE`) to the pure ones.
-/
import Paroxy.Spec.Dedup
import Paroxy.Proofs.Bag
import Paroxy.Proofs.DedupZ
namespace Paroxy.DedupLift
open Paroxy Paroxy.Dedup Paroxy.DedupZ Paroxy.Spec.Dedup
set_option linter.unusedSectionVars false
set_option linter.unusedSimpArgs false
variable {ν σ : Type} [DecidableEq ν] [DecidableEq σ]

/-- Projection of a taxon on one span. -/
def atS (s : σ) (e : ν × Bag σ) : ν × Int := (e.1, Bag.count e.2 s)

def AllWF (l : List (ν × Bag σ)) : Prop := ∀ e ∈ l, Bag.WF e.2

variable (desc : ν → ν → Bool)

/-- The test of the inner loop in terms of `desc`: "`p` is a proper ancestor of `name`". -/
def actOf : ν → ν → Bool := fun name p => desc p name

theorem names_atS (s : σ) (l : List (ν × Bag σ)) : (l.map (atS s)).map Prod.fst = l.map Prod.fst := by
  simp [List.map_map, atS, Function.comp_def]

theorem getZ_atS (s : σ) (l : List (ν × Bag σ)) (n : ν) : getZ (l.map (atS s)) n = cnt l n s := by
  induction l with
  | nil => simp [cnt, bagOf]
  | cons e t ih =>
    obtain ⟨m, b⟩ := e
    simp only [List.map_cons, atS, getZ_cons, cnt, bagOf] at ih ⊢
    split
    · rfl
    · exact ih

theorem names_inner (name : ν) (prev : List (ν × Bag σ)) :
    ∀ cur, (inner (actOf desc) name prev cur).map Prod.fst = prev.map Prod.fst := by
  induction prev with
  | nil => intro cur; rfl
  | cons e t ih =>
    obtain ⟨p, b⟩ := e
    intro cur
    simp only [inner]
    split <;> simp [ih]

theorem AllWF_inner (name : ν) (prev : List (ν × Bag σ)) (h : AllWF prev) :
    ∀ cur, AllWF (inner (actOf desc) name prev cur) := by
  induction prev with
  | nil => intro cur e he; cases he
  | cons e t ih =>
    obtain ⟨p, b⟩ := e
    intro cur
    have ht : AllWF t := fun e he => h e (List.mem_cons_of_mem _ he)
    have hb : Bag.WF b := h (p, b) List.mem_cons_self
    simp only [inner]
    split
    · intro e he
      rcases List.mem_cons.mp he with he | he
      · subst he; exact Bag.WF_subtract hb cur
      · exact ih ht _ e he
    · intro e he
      rcases List.mem_cons.mp he with he | he
      · subst he; exact hb
      · exact ih ht _ e he

theorem inner_map (s : σ) (name : ν) (prev : List (ν × Bag σ)) (h : AllWF prev) :
    ∀ cur, Bag.WF cur →
      (inner (actOf desc) name prev cur).map (atS s)
        = innerZ desc name (prev.map (atS s)) (Bag.count cur s) := by
  induction prev with
  | nil => intro cur _; rfl
  | cons e t ih =>
    obtain ⟨p, b⟩ := e
    intro cur hcur
    have ht : AllWF t := fun e he => h e (List.mem_cons_of_mem _ he)
    have hb : Bag.WF b := h (p, b) List.mem_cons_self
    have hat : ∀ c : Bag σ, atS s (p, c) = (p, Bag.count c s) := fun _ => rfl
    by_cases hd : desc p name = true
    · have h1 : actOf desc name p = true := hd
      simp only [inner, h1, if_true]
      rw [List.map_cons, List.map_cons, hat, hat, ih ht _ (Bag.WF_sub cur b),
        Bag.count_sub cur b hcur hb, Bag.count_subtract b cur hcur]
      simp only [innerZ, hd, if_true]
    · have h1 : actOf desc name p = false := by simpa [actOf] using hd
      simp only [inner, h1, Bool.false_eq_true, if_false]
      rw [List.map_cons, List.map_cons, hat, ih ht _ hcur]
      simp only [innerZ, hd, Bool.false_eq_true, if_false]

theorem outer_map (s : σ) (todo : List (ν × Bag σ)) :
    ∀ done : List (ν × Bag σ), AllWF done → AllWF todo →
      (outer (actOf desc) done todo).map (atS s) = outerZ desc (done.map (atS s)) (todo.map (atS s)) := by
  induction todo with
  | nil => intro done _ _; simp [outer, outerZ]
  | cons e t ih =>
    obtain ⟨n, b⟩ := e
    intro done hd ht
    have hb : Bag.WF b := ht (n, b) List.mem_cons_self
    have ht' : AllWF t := fun e he => ht e (List.mem_cons_of_mem _ he)
    simp only [outer, List.map_cons, outerZ]
    rw [ih]
    · simp only [List.map_cons]
      rw [inner_map desc s n done hd b hb]
      rfl
    · intro e he
      rcases List.mem_cons.mp he with he | he
      · subst he; exact hb
      · exact AllWF_inner desc n done hd b e he
    · exact ht'

theorem names_outer (todo : List (ν × Bag σ)) :
    ∀ done : List (ν × Bag σ),
      (outer (actOf desc) done todo).map Prod.fst = (done.map Prod.fst).reverse ++ todo.map Prod.fst := by
  induction todo with
  | nil => intro done; simp [outer]
  | cons e t ih =>
    obtain ⟨n, b⟩ := e
    intro done
    simp only [outer]
    rw [ih]
    simp [names_inner]

theorem AllWF_outer (todo : List (ν × Bag σ)) :
    ∀ done : List (ν × Bag σ), AllWF done → AllWF todo → AllWF (outer (actOf desc) done todo) := by
  induction todo with
  | nil => intro done hd _ e he; simp only [outer, List.mem_reverse] at he; exact hd e he
  | cons e t ih =>
    obtain ⟨n, b⟩ := e
    intro done hd ht
    simp only [outer]
    apply ih
    · intro e he
      rcases List.mem_cons.mp he with he | he
      · subst he; exact ht (n, b) List.mem_cons_self
      · exact AllWF_inner desc n done hd b e he
    · exact fun e he => ht e (List.mem_cons_of_mem _ he)

theorem outer_short (T : List (ν × Bag σ)) (h : T.length < 2) : outer (actOf desc) [] T = T := by
  match T, h with
  | [], _ => rfl
  | [e], _ => rfl

/-! ### lookups -/

theorem bagOf_of_mem {l : List (ν × Bag σ)} (hl : (l.map Prod.fst).Nodup) {e : ν × Bag σ}
    (h : e ∈ l) : bagOf l e.1 = e.2 := by
  induction l with
  | nil => cases h
  | cons x t ih =>
    obtain ⟨m, c⟩ := x
    simp only [List.map_cons, List.nodup_cons] at hl
    rcases List.mem_cons.mp h with h | h
    · subst h; simp [bagOf]
    · have : m ≠ e.1 := by
        intro hk; apply hl.1; rw [hk]; exact List.mem_map_of_mem (f := Prod.fst) h
      simp [bagOf, this, ih hl.2 h]

theorem bagOf_not_mem {l : List (ν × Bag σ)} {n : ν} (h : n ∉ l.map Prod.fst) : bagOf l n = [] := by
  induction l with
  | nil => rfl
  | cons x t ih =>
    obtain ⟨m, c⟩ := x
    simp only [List.map_cons, List.mem_cons, not_or] at h
    simp [bagOf, Ne.symm h.1, ih h.2]

theorem WF_bagOf {l : List (ν × Bag σ)} (hl : AllWF l) (n : ν) : Bag.WF (bagOf l n) := by
  induction l with
  | nil => exact Bag.WF_nil
  | cons x t ih =>
    obtain ⟨m, c⟩ := x
    simp only [bagOf]
    split
    · exact hl (m, c) List.mem_cons_self
    · exact ih fun e he => hl e (List.mem_cons_of_mem _ he)

theorem mem_finalize {l : List (ν × Bag σ)} {e : ν × Bag σ} :
    e ∈ finalize l ↔ ∃ e₀ ∈ l, e = (e₀.1, Bag.keepPositive e₀.2) ∧ Bag.keepPositive e₀.2 ≠ [] := by
  unfold finalize
  simp only [List.mem_filterMap]
  constructor
  · rintro ⟨e₀, h₀, h⟩
    refine ⟨e₀, h₀, ?_⟩
    split at h
    · cases h
    · rename_i hne
      simp only [Option.some.injEq] at h
      refine ⟨h.symm, ?_⟩
      intro h'; simp [h'] at hne
  · rintro ⟨e₀, h₀, h, hne⟩
    refine ⟨e₀, h₀, ?_⟩
    have : (Bag.keepPositive e₀.2).isEmpty = false := by
      cases hk : Bag.keepPositive e₀.2 with
      | nil => exact absurd hk hne
      | cons _ _ => rfl
    simp [this, h]

theorem finalize_cons (m : ν) (c : Bag σ) (t : List (ν × Bag σ)) :
    finalize ((m, c) :: t)
      = if (Bag.keepPositive c).isEmpty = true then finalize t
        else (m, Bag.keepPositive c) :: finalize t := by
  cases h : (Bag.keepPositive c).isEmpty
  · have h' : Bag.keepPositive c ≠ [] := by intro e; simp [e] at h
    simp [finalize, List.filterMap_cons, h']
  · have h' : Bag.keepPositive c = [] := by simpa using h
    simp [finalize, List.filterMap_cons, h']

theorem bagOf_finalize {l : List (ν × Bag σ)} (hl : (l.map Prod.fst).Nodup) (n : ν) :
    bagOf (finalize l) n = Bag.keepPositive (bagOf l n) := by
  induction l with
  | nil => rfl
  | cons x t ih =>
    obtain ⟨m, c⟩ := x
    simp only [List.map_cons, List.nodup_cons] at hl
    have ih' := ih hl.2
    rw [finalize_cons]
    by_cases hm : m = n
    · subst hm
      cases hk : (Bag.keepPositive c).isEmpty
      · simp [bagOf]
      · simp only [if_true, bagOf]
        rw [ih', bagOf_not_mem hl.1]
        simp only [List.isEmpty_iff] at hk
        rw [hk]; rfl
    · cases hk : (Bag.keepPositive c).isEmpty
      · simp [bagOf, hm, ih']
      · simp [bagOf, hm, ih']

theorem cnt_finalize {l : List (ν × Bag σ)} (hl : (l.map Prod.fst).Nodup) (hw : AllWF l) (n : ν)
    (s : σ) : cnt (finalize l) n s = if 0 < cnt l n s then cnt l n s else 0 := by
  unfold cnt
  rw [bagOf_finalize hl, Bag.count_keepPositive (WF_bagOf hw n)]

/-! ### the spec quantities at the integer level -/

theorem nearB_atS (T : List (ν × Bag σ)) (n : ν) (s : σ) (d : ν) :
    nearB desc T n s d = nearZ desc (T.map (atS s)) n d := by
  unfold nearB nearZ
  simp only [getZ_atS, List.all_map]
  rfl

theorem nearestTotal_atS (T : List (ν × Bag σ)) (n : ν) (s : σ) :
    nearestTotal desc T n s = nearSumZ desc (T.map (atS s)) n (T.map (atS s)) := by
  unfold nearestTotal nearSumZ
  rw [List.filter_map, List.map_map]
  congr 2
  apply List.filter_congr
  intro e _
  simp [nearB_atS, atS]

/-! ### the three clauses for the pure model -/

section Clauses
variable {desc}
variable (hR : AncRel desc) (T : List (ν × Bag σ))
  (hnd : (T.map Prod.fst).Nodup)
  (hord : (T.map Prod.fst).Pairwise fun x y => desc y x = false)
  (hgood : GoodBags T)
include hR hnd hord hgood

theorem allWF_of_good : AllWF T := fun e he => (hgood e he).1

theorem nonneg_atS (s : σ) : ∀ e ∈ T.map (atS s), 0 ≤ e.2 := by
  intro e he
  obtain ⟨e₀, h₀, rfl⟩ := List.mem_map.mp he
  exact Bag.count_nonneg_of_pos (hgood e₀ h₀).2 s

/-- The result of the two nested loops, before the final filter. -/
theorem cnt_outer_le (s : σ) (e : ν × Bag σ) (he : e ∈ outer (actOf desc) [] T) :
    Bag.count e.2 s ≤ cnt T e.1 s := by
  have hw := allWF_of_good hR T hnd hord hgood
  have hmem : atS s e ∈ outerZ desc [] (T.map (atS s)) := by
    rw [← List.map_nil (f := atS s), ← outer_map desc s T [] (by intro e he; cases he) hw]
    exact List.mem_map_of_mem he
  have := Z_no_invention (desc := desc) (T.map (atS s)) (by rw [names_atS]; exact hnd)
    (nonneg_atS hR T hnd hord hgood s) e.1 (Bag.count e.2 s) hmem
  rwa [getZ_atS] at this

theorem mem_outerZ_of_name (n : ν) (hn : n ∈ T.map Prod.fst) (s : σ) :
    (n, cnt (outer (actOf desc) [] T) n s) ∈ outerZ desc [] (T.map (atS s)) := by
  have hw := allWF_of_good hR T hnd hord hgood
  rw [← List.map_nil (f := atS s), ← outer_map desc s T [] (by intro e he; cases he) hw,
    ← getZ_atS]
  apply mem_of_mem_names
  rw [names_atS, names_outer]; simpa using hn

theorem noInvention_dedup : NoInvention T (dedup (actOf desc) T) := by
  have hw := allWF_of_good hR T hnd hord hgood
  unfold dedup
  split
  · intro e he
    refine ⟨List.mem_map_of_mem he, fun x hx => ⟨(hgood e he).2 x hx, ?_⟩⟩
    unfold cnt
    rw [bagOf_of_mem hnd he, Bag.count_of_mem (hgood e he).1 hx]
    exact Int.le_refl _
  · intro e he
    obtain ⟨e₀, h₀, rfl, _⟩ := mem_finalize.mp he
    have hn₀ : e₀.1 ∈ T.map Prod.fst := by
      have := List.mem_map_of_mem (f := Prod.fst) h₀
      rwa [names_outer] at this;
    refine ⟨by simpa using hn₀, fun x hx => ?_⟩
    obtain ⟨hx₀, hpos⟩ := Bag.mem_keepPositive.mp hx
    refine ⟨hpos, ?_⟩
    have hwf₀ : Bag.WF e₀.2 := AllWF_outer desc T [] (by intro e he; cases he) hw e₀ h₀
    have := cnt_outer_le hR T hnd hord hgood x.1 e₀ h₀
    rwa [Bag.count_of_mem hwf₀ hx₀] at this

theorem unsharedKept_dedup : UnsharedKept desc T (dedup (actOf desc) T) := by
  have hw := allWF_of_good hR T hnd hord hgood
  intro n hn s hU
  unfold dedup
  split
  · rfl
  · have hndX : ((outer (actOf desc) [] T).map Prod.fst).Nodup := by
      rw [names_outer]; simpa using hnd
    have hwX := AllWF_outer desc T [] (by intro e he; cases he) hw
    rw [cnt_finalize hndX hwX]
    have hmem := mem_outerZ_of_name hR T hnd hord hgood n hn s
    have hUZ : Unshared desc (T.map (atS s)) n := by
      intro d hd hnd'
      rw [names_atS] at hd
      rw [getZ_atS]; exact hU d hd hnd'
    have := Z_unshared_kept hR (T.map (atS s)) (by rw [names_atS]; exact hnd)
      (by rw [names_atS]; exact hord) (nonneg_atS hR T hnd hord hgood s) n hUZ _ hmem
    rw [getZ_atS] at this
    have hnn : 0 ≤ cnt T n s := by
      rw [← getZ_atS]; exact getZ_nonneg (nonneg_atS hR T hnd hord hgood s) n
    rw [this]
    split <;> omega

theorem coveredLost_dedup : CoveredLost desc T (dedup (actOf desc) T) := by
  have hw := allWF_of_good hR T hnd hord hgood
  intro n hn s hpos hcov
  have hmem := mem_outerZ_of_name hR T hnd hord hgood n hn s
  have hle := Z_covered_lost hR (T.map (atS s)) (by rw [names_atS]; exact hnd)
    (by rw [names_atS]; exact hord) (nonneg_atS hR T hnd hord hgood s) n
    (by rw [getZ_atS, ← nearestTotal_atS]; exact hcov) _ hmem
  unfold dedup
  split
  · rename_i hlen
    rw [outer_short desc T hlen] at hle
    omega
  · have hndX : ((outer (actOf desc) [] T).map Prod.fst).Nodup := by
      rw [names_outer]; simpa using hnd
    have hwX := AllWF_outer desc T [] (by intro e he; cases he) hw
    rw [cnt_finalize hndX hwX]
    split <;> omega

end Clauses

/-! ### the exception-aware loops -/

section Bridge
variable {ε : Type} (actE : ν → ν → Except ε Bool) (act : ν → ν → Bool)

theorem innerE_eq (name : ν) (prev : List (ν × Bag σ))
    (h : ∀ p ∈ prev.map Prod.fst, actE name p = .ok (act name p)) :
    ∀ cur, innerE actE name prev cur = .ok (inner act name prev cur) := by
  induction prev with
  | nil => intro cur; rfl
  | cons e t ih =>
    obtain ⟨p, b⟩ := e
    intro cur
    have hp := h p (by simp)
    have ih' := ih fun q hq => h q (by simp [hq])
    simp only [innerE, inner, hp]
    cases act name p <;> simp [ih']

theorem names_inner' (name : ν) (prev : List (ν × Bag σ)) :
    ∀ cur, (inner act name prev cur).map Prod.fst = prev.map Prod.fst := by
  induction prev with
  | nil => intro cur; rfl
  | cons e t ih =>
    obtain ⟨p, b⟩ := e
    intro cur
    simp only [inner]
    split <;> simp [ih]

theorem outerE_eq (todo : List (ν × Bag σ)) :
    ∀ done : List (ν × Bag σ),
      (∀ p ∈ done.map Prod.fst, ∀ n ∈ todo.map Prod.fst, actE n p = .ok (act n p)) →
      (todo.map Prod.fst).Pairwise (fun p n => actE n p = .ok (act n p)) →
      outerE actE done todo = .ok (outer act done todo) := by
  induction todo with
  | nil => intro done _ _; rfl
  | cons e t ih =>
    obtain ⟨n, b⟩ := e
    intro done hd hpw
    simp only [List.map_cons, List.pairwise_cons] at hpw
    simp only [outerE, outer]
    rw [innerE_eq actE act n done (fun p hp => hd p hp n (by simp))]
    simp only
    apply ih
    · intro p hp m hm
      simp only [List.map_cons, List.mem_cons, names_inner'] at hp
      rcases hp with hp | hp
      · subst hp; exact hpw.1 m hm
      · exact hd p hp m (by simp [hm])
    · exact hpw.2

theorem dedupE_eq (T : List (ν × Bag σ))
    (hpw : (T.map Prod.fst).Pairwise (fun p n => actE n p = .ok (act n p))) :
    dedupE actE T = .ok (dedup act T) := by
  unfold dedupE dedup
  split
  · rfl
  · rw [outerE_eq actE act T [] (by intro p hp; cases hp) hpw]

end Bridge

end Paroxy.DedupLift
