/-
String-level lemmas shared by the C01 / C15 proofs: occurrences of a literal ending with `=` in a
line of the form `key=value`.
-/
import Paroxy.Model.NodeFeature
namespace Paroxy.Flat

/-- A list with exactly the decomposition `A ++ c :: B`, where `c` occurs neither in `C` nor in `D`:
`A ++ c :: B = C ++ c :: D → A = C ∧ B = D`. -/
theorem split_at_unique {c : Char} {A B C D : Str} (hC : c ∉ C) (hD : c ∉ D)
    (h : A ++ c :: B = C ++ c :: D) : A = C ∧ B = D := by
  rcases List.append_eq_append_iff.mp h with ⟨a', h1, h2⟩ | ⟨c', h1, h2⟩
  · cases a' with
    | nil => simp at h1 h2; exact ⟨h1.symm, h2⟩
    | cons x a'' =>
      simp only [List.cons_append, List.cons.injEq] at h2
      exact absurd (by rw [h1, ← h2.1]; simp) hC
  · cases c' with
    | nil => simp at h1 h2; exact ⟨h1, h2.symm⟩
    | cons x c'' =>
      simp only [List.cons_append, List.cons.injEq] at h2
      exact absurd (by rw [h2.2]; simp) hD

/-- Same, when only the right-hand side is known to have `c` nowhere before: the first `c` of the
left-hand side is at or after position `|C|`. -/
theorem split_first {c : Char} {A B C D : Str} (hC : c ∉ C)
    (h : A ++ c :: B = C ++ c :: D) : (A = C ∧ B = D) ∨ ∃ E, A = C ++ c :: E ∧ D = E ++ c :: B := by
  rcases List.append_eq_append_iff.mp h with ⟨a', h1, h2⟩ | ⟨c', h1, h2⟩
  · cases a' with
    | nil => simp at h1 h2; exact Or.inl ⟨h1.symm, h2⟩
    | cons x a'' =>
      simp only [List.cons_append, List.cons.injEq] at h2
      exact absurd (by rw [h1, ← h2.1]; simp) hC
  · cases c' with
    | nil => simp at h1 h2; exact Or.inl ⟨h1, h2.symm⟩
    | cons x c'' =>
      simp only [List.cons_append, List.cons.injEq] at h2
      exact Or.inr ⟨c'', by rw [h1, h2.1], h2.2⟩

theorem hasInfix_iff (pat : Str) : ∀ s : Str, hasInfix pat s = true ↔ ∃ a b, s = a ++ pat ++ b
  | [] => by
    simp only [hasInfix, List.isEmpty_iff]
    constructor
    · rintro rfl; exact ⟨[], [], rfl⟩
    · rintro ⟨a, b, h⟩
      have := congrArg List.length h
      simp at this
      exact List.eq_nil_of_length_eq_zero (by omega)
  | c :: t => by
    simp only [hasInfix, Bool.or_eq_true, List.isPrefixOf_iff_prefix, hasInfix_iff pat t]
    constructor
    · rintro (⟨b, hb⟩ | ⟨a, b, h⟩)
      · exact ⟨[], b, by simpa using hb.symm⟩
      · exact ⟨c :: a, b, by simp [h]⟩
    · rintro ⟨a, b, h⟩
      cases a with
      | nil => left; exact ⟨b, by simpa using h.symm⟩
      | cons x a' =>
        simp only [List.cons_append, List.cons.injEq] at h
        right; exact ⟨a', b, h.2⟩

/-! ## `typeSplits` -/

abbrev tyMark : Str := cs!"/_type="
abbrev tyKey : Str := cs!"/_type"

theorem tyMark_eq : tyMark = tyKey ++ ['='] := rfl
theorem eq_not_mem_tyKey : '=' ∉ tyKey := by decide

theorem mem_typeSplitsAux (g s : Str) : ∀ (l acc : Str),
    (g, s) ∈ typeSplitsAux acc l ↔ ∃ u, l = u ++ tyMark ++ s ∧ s ≠ [] ∧ g = acc.reverse ++ u
  | [], acc => by
    simp only [typeSplitsAux, List.not_mem_nil, false_iff]
    rintro ⟨u, h, _⟩
    have := congrArg List.length h
    simp at this
  | c :: t, acc => by
    have ih := mem_typeSplitsAux g s t (c :: acc)
    simp only [typeSplitsAux, List.mem_append, ih]
    constructor
    · rintro (h | ⟨u, h1, h2, h3⟩)
      · split at h
        · rename_i hc
          simp only [Bool.and_eq_true, List.isPrefixOf_iff_prefix, decide_eq_true_eq] at hc
          obtain ⟨⟨r, hr⟩, hlen⟩ := hc
          simp only [List.mem_singleton, Prod.mk.injEq] at h
          refine ⟨[], ?_, ?_, by simp [h.1]⟩
          · rw [h.2, ← hr]; simp
          · rw [h.2, ← hr]
            have : r ≠ [] := by
              intro e; rw [← hr, e] at hlen; simp at hlen
            simpa using this
        · cases h
      · exact ⟨c :: u, by simp [h1], h2, by simp [h3]⟩
    · rintro ⟨u, h1, h2, h3⟩
      cases u with
      | nil =>
        left
        have hp : tyMark <+: c :: t := ⟨s, by simpa using h1.symm⟩
        have hlen : tyMark.length < (c :: t).length := by
          rw [h1]; simp only [List.nil_append, List.length_append]
          have : 0 < s.length := List.length_pos_iff.mpr h2
          omega
        have hcond : ((cs!"/_type=").isPrefixOf (c :: t) &&
            decide ((cs!"/_type=").length < (c :: t).length)) = true := by
          rw [Bool.and_eq_true, List.isPrefixOf_iff_prefix, decide_eq_true_eq]; exact ⟨hp, hlen⟩
        rw [if_pos hcond]
        simp only [List.mem_singleton, Prod.mk.injEq]
        refine ⟨by simpa using h3, ?_⟩
        rw [h1]; simp
      | cons x u' =>
        simp only [List.cons_append, List.cons.injEq] at h1
        right
        exact ⟨u', h1.2, h2, by rw [h3, h1.1]; simp⟩

theorem mem_typeSplits (g s l : Str) :
    (g, s) ∈ typeSplits l ↔ l = g ++ tyMark ++ s ∧ s ≠ [] := by
  simp only [typeSplits, List.mem_reverse, mem_typeSplitsAux, List.reverse_nil, List.nil_append]
  constructor
  · rintro ⟨u, h1, h2, rfl⟩; exact ⟨h1, h2⟩
  · rintro ⟨h1, h2⟩; exact ⟨g, h1, h2, rfl⟩

/-- A `key=value` line whose key does not end with `/_type` and whose value does not contain
`/_type=` offers no candidate to the matcher. -/
theorem typeSplits_keyval {K V : Str} (hK : '=' ∉ K) (hsuf : ¬ tyKey <:+ K)
    (hV : hasInfix tyMark V = false) : typeSplits (K ++ '=' :: V) = [] := by
  rw [List.eq_nil_iff_forall_not_mem]
  rintro ⟨g, s⟩ hm
  obtain ⟨h1, _⟩ := (mem_typeSplits g s _).mp hm
  have h1' : (g ++ tyKey) ++ '=' :: s = K ++ '=' :: V := by
    rw [h1]; simp [tyMark]
  rcases split_first hK h1' with ⟨h2, _⟩ | ⟨E, h2, h3⟩
  · exact hsuf ⟨g, h2⟩
  · -- `/_type` lies after the first `=`: inside V
    have hE : tyKey <:+ E := by
      have h2' : g ++ tyKey = (K ++ ['=']) ++ E := by rw [h2]; simp
      rcases List.append_eq_append_iff.mp h2' with ⟨a', e1, e2⟩ | ⟨c', _, e2⟩
      · rcases List.eq_nil_or_concat a' with rfl | ⟨a'', z, rfl⟩
        · exact ⟨[], by simpa using e2⟩
        · -- the last character of `K ++ "="` is `=`: it would belong to `/_type`
          have hz : z = '=' := by
            have := congrArg List.getLast? e1
            simpa using this.symm
          exact absurd (by rw [e2, hz]; simp) eq_not_mem_tyKey
      · exact ⟨c', e2.symm⟩
    obtain ⟨a, ha⟩ := hE
    have : hasInfix tyMark V = true := (hasInfix_iff tyMark V).mpr ⟨a, s, by rw [h3, ← ha]; simp [tyMark]⟩
    rw [hV] at this; cases this

/-- A type line offers exactly one candidate: (prefix, type). -/
theorem typeSplits_typeLine {pre ty : Str} (hpre : '=' ∉ pre) (hty : '=' ∉ ty) (hne : ty ≠ []) :
    (pre, ty) ∈ typeSplits (typeLine pre ty) ∧ ∀ y ∈ typeSplits (typeLine pre ty), y = (pre, ty) := by
  refine ⟨(mem_typeSplits _ _ _).mpr ⟨rfl, hne⟩, ?_⟩
  rintro ⟨g, s⟩ hm
  obtain ⟨h1, _⟩ := (mem_typeSplits g s _).mp hm
  have h1' : (g ++ tyKey) ++ '=' :: s = (pre ++ tyKey) ++ '=' :: ty := by
    have : typeLine pre ty = (pre ++ tyKey) ++ '=' :: ty := by simp [typeLine]
    rw [← this, h1]; simp [tyMark]
  have hK : '=' ∉ pre ++ tyKey := by
    simp only [List.mem_append, not_or]; exact ⟨hpre, eq_not_mem_tyKey⟩
  obtain ⟨h2, h3⟩ := split_at_unique hK hty h1'
  rw [List.append_cancel_right h2, h3]

theorem firstSome_of_all_eq {α β : Type} (f : α → Option β) (x : α) : ∀ (l : List α),
    l ≠ [] → (∀ y ∈ l, y = x) → firstSome f l = f x
  | [], h, _ => absurd rfl h
  | [y], _, h => by
    have : y = x := h y (by simp)
    subst this
    simp only [firstSome]
    cases f y <;> rfl
  | y :: y' :: l, _, h => by
    have hy : y = x := h y (by simp)
    subst hy
    simp only [firstSome]
    cases hf : f y with
    | some b => rfl
    | none =>
      have := firstSome_of_all_eq f y (y' :: l) (by simp) (fun z hz => h z (List.mem_cons_of_mem _ hz))
      rw [hf] at this
      simpa [firstSome] using this

end Paroxy.Flat
