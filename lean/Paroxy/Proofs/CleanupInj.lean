import Paroxy.Model.Cleanup
import Paroxy.Spec.Cleanup
import Paroxy.Proofs.Cleanup
namespace Paroxy.Cleanup
open Paroxy.Cleanup.Spec

/-- a statement reported by the parser starts after `pos` -/
theorem RangesOk_lineno_gt : ∀ (M : List IfStmt) (pos n : Nat), RangesOk pos n M →
    ∀ r ∈ M, pos < r.lineno := by
  intro M
  induction M with
  | nil => intro pos n _ r hr; cases hr
  | cons r0 rest ih =>
    intro pos n hok r hr
    obtain ⟨h1, h2, _, hrest⟩ := hok
    rcases List.mem_cons.1 hr with rfl | hr
    · exact h1
    · have := ih _ _ hrest r hr; omega

theorem getD_take_lt {α : Type} (l : List α) (k i : Nat) (d : α) (h : i < k) :
    (l.take k).getD i d = l.getD i d := by
  simp [List.getD_eq_getElem?_getD, h]

theorem getD_drop_add {α : Type} (l : List α) (k i : Nat) (d : α) :
    (l.drop k).getD i d = l.getD (k + i) d := by
  simp [List.getD_eq_getElem?_getD, List.getElem?_drop]

theorem filter_not_eq_self (p : Line → Bool) (l : List Line)
    (h : ∀ i, i < l.length → p (l.getD i []) = false) : l.filter (fun x => !p x) = l := by
  rw [List.filter_eq_self]
  intro a ha
  obtain ⟨i, hi, rfl⟩ := List.mem_iff_getElem.1 ha
  have := h i hi
  simp [List.getD_eq_getElem?_getD, hi] at this
  simp [this]

theorem filter_not_eq_nil (p : Line → Bool) (l : List Line)
    (h : ∀ i, i < l.length → p (l.getD i []) = true) : l.filter (fun x => !p x) = [] := by
  rw [List.filter_eq_nil_iff]
  intro a ha
  obtain ⟨i, hi, rfl⟩ := List.mem_iff_getElem.1 ha
  have := h i hi
  simp [List.getD_eq_getElem?_getD, hi] at this
  simp [this]

theorem keepOutside_single_line_gen (p : Line → Bool) (M : List IfStmt) :
    ∀ (pos : Nat) (ls : List Line),
    RangesOk pos ls.length M →
    (∀ r ∈ M, r.isGuard = true → r.lineno = r.endLineno) →
    (∀ r ∈ M, r.isGuard = p (ls.getD (r.lineno - 1 - pos) [])) →
    (∀ i, i < ls.length → p (ls.getD i []) = true → ∃ r ∈ M, r.lineno = pos + i + 1) →
    keepOutsideGuards pos ls M = ls.filter (fun l => !p l) := by
  induction M with
  | nil =>
    intro pos ls _ _ _ h4
    simp only [keepOutsideGuards]
    symm; apply filter_not_eq_self
    intro i hi
    cases hp : p (ls.getD i []) with
    | false => rfl
    | true => obtain ⟨r, hr, _⟩ := h4 i hi hp; cases hr
  | cons r rest ih =>
    obtain ⟨a, b, g⟩ := r
    intro pos ls hok h2 h3 h4
    obtain ⟨h1, h2', h3', hrest⟩ := hok
    simp only at h1 h2' h3' hrest
    have hgt := RangesOk_lineno_gt rest b _ hrest
    have hrest' : RangesOk b (ls.drop (b - pos)).length rest := by
      simpa only [List.length_drop] using hrest
    have hsplit : ls.take (b - pos) =
        ls.take (a - 1 - pos) ++ (ls.drop (a - 1 - pos)).take (b - (a - 1)) := by
      have : b - pos = (a - 1 - pos) + (b - (a - 1)) := by omega
      rw [this, List.take_add]
    have hls : ls = ls.take (a - 1 - pos) ++ (ls.drop (a - 1 - pos)).take (b - (a - 1)) ++
        ls.drop (b - pos) := by
      rw [← hsplit, List.take_append_drop]
    have key : ∀ i, i < b - pos → p (ls.getD i []) = true → i = a - 1 - pos := by
      intro i hi hp
      obtain ⟨r, hr, hrl⟩ := h4 i (by omega) hp
      rcases List.mem_cons.1 hr with rfl | hr
      · simp only at hrl; omega
      · have := hgt r hr; omega
    have hg : g = p (ls.getD (a - 1 - pos) []) := h3 ⟨a, b, g⟩ List.mem_cons_self
    have ihh := ih b (ls.drop (b - pos)) hrest'
      (fun r hr => h2 r (List.mem_cons_of_mem _ hr))
      (by
        intro r hr
        have hb := hgt r hr
        rw [getD_drop_add, h3 r (List.mem_cons_of_mem _ hr)]
        have : b - pos + (r.lineno - 1 - b) = r.lineno - 1 - pos := by omega
        rw [this])
      (by
        intro i hi hp
        rw [getD_drop_add] at hp
        rw [List.length_drop] at hi
        obtain ⟨r, hr, hrl⟩ := h4 (b - pos + i) (by omega) hp
        rcases List.mem_cons.1 hr with rfl | hr
        · simp only at hrl; omega
        · exact ⟨r, hr, by omega⟩)
    simp only [keepOutsideGuards]
    rw [ihh]
    have hf : ls.filter (fun l => !p l) =
        (ls.take (a - 1 - pos) ++ (ls.drop (a - 1 - pos)).take (b - (a - 1)) ++
          ls.drop (b - pos)).filter (fun l => !p l) := congrArg _ hls
    rw [hf, List.filter_append, List.filter_append]
    have hpre : (ls.take (a - 1 - pos)).filter (fun l => !p l) = ls.take (a - 1 - pos) := by
      apply filter_not_eq_self
      intro i hi
      rw [List.length_take] at hi
      rw [getD_take_lt _ _ _ _ (by omega)]
      cases hp : p (ls.getD i []) with
      | false => rfl
      | true => have := key i (by omega) hp; omega
    rw [hpre]
    congr 2
    cases g with
    | true =>
      have hab : a = b := h2 ⟨a, b, true⟩ List.mem_cons_self rfl
      simp only [if_true]
      symm; apply filter_not_eq_nil
      intro i hi
      rw [List.length_take, List.length_drop] at hi
      rw [getD_take_lt _ _ _ _ (by omega), getD_drop_add]
      have : i = 0 := by omega
      subst this
      exact hg.symm
    | false =>
      simp only [Bool.false_eq_true, if_false]
      symm; apply filter_not_eq_self
      intro i hi
      rw [List.length_take, List.length_drop] at hi
      rw [getD_take_lt _ _ _ _ (by omega), getD_drop_add]
      cases hp : p (ls.getD (a - 1 - pos + i) []) with
      | false => rfl
      | true =>
        have := key _ (by omega) hp
        have hi0 : i = 0 := by omega
        subst hi0
        rw [Nat.add_zero] at hp
        rw [hp] at hg; cases hg

theorem keepOutside_single_line (M : List IfStmt) : ∀ (pos : Nat) (ls : List Line),
    RangesOk pos ls.length M →
    (∀ r ∈ M, r.isGuard = true → r.lineno = r.endLineno) →
    (∀ r ∈ M, r.isGuard = isInjection (ls.getD (r.lineno - 1 - pos) [])) →
    (∀ i, i < ls.length → isInjection (ls.getD i []) = true → ∃ r ∈ M, r.lineno = pos + i + 1) →
    keepOutsideGuards pos ls M = ls.filter (fun l => !isInjection l) :=
  keepOutside_single_line_gen isInjection M

end Paroxy.Cleanup
