/-
C15 helper lemmas, part 6: `backport_all_constants` as a tree-level tweak.
-/
import Paroxy.Proofs.FlatAlias
namespace Paroxy.Flat

/-! ## Lines of a dump lie under its prefix -/

def Under (pre l : Str) : Prop := (pre ++ ['/']) <+: l ∨ (pre ++ ['=']) <+: l

theorem Under.ne_nil {pre l : Str} (h : Under pre l) : l ≠ [] := by
  rintro rfl
  rcases h with h | h <;> simp at h

theorem under_sub {pre n l : Str} (h : Under (subPre pre n) l) : (pre ++ ['/']) <+: l := by
  rcases h with ⟨t, ht⟩ | ⟨t, ht⟩
  · exact ⟨n ++ '/' :: t, by rw [← ht]; simp [subPre]⟩
  · exact ⟨n ++ '=' :: t, by rw [← ht]; simp [subPre]⟩

mutual
theorem under_dumpP (h : Str → Str) : ∀ (v : Val) (pre path : Str), ∀ l ∈ dumpP h pre path v, Under pre l
  | .node ty e r ln fs, pre, path, l, hl => by
    simp only [dumpP, List.mem_cons, List.mem_append] at hl
    rcases hl with rfl | (hl | hl) | hl
    · exact Or.inl ⟨cs!"_type=" ++ ty, by simp [typeLine]⟩
    · cases e with
      | false => simp at hl
      | true => simp at hl; subst hl; exact Or.inl ⟨cs!"_hash=" ++ h r, by simp [hashLine]⟩
    · cases ln with
      | none => simp at hl
      | some n => simp at hl; subst hl; exact Or.inl ⟨cs!"_pos=" ++ (dec n ++ ':' :: path.drop 2), by simp [posLine]⟩
    · obtain ⟨n, _, hu⟩ := under_dumpPFields h fs pre path 0 l hl
      exact Or.inl (under_sub hu)
  | .list q xs, pre, path, l, hl => by
    simp only [dumpP, List.mem_append] at hl
    rcases hl with hl | hl
    · cases q with
      | true => simp at hl
      | false => simp at hl; subst hl; exact Or.inl ⟨cs!"_length=" ++ dec xs.length, by simp [lengthLine]⟩
    · obtain ⟨j, _, hu⟩ := under_dumpPItems h xs pre path 1 l hl
      exact Or.inl (under_sub hu)
  | .scalar r k, pre, path, l, hl => by
    simp only [dumpP, List.mem_singleton] at hl
    subst hl
    exact Or.inr ⟨r, by simp [scalarLine]⟩
theorem under_dumpPFields (h : Str → Str) : ∀ (fs : List (Str × Val)) (pre path : Str) (i : Nat),
    ∀ l ∈ dumpPFields h pre path i fs, ∃ n, n ∈ fs.map (·.1) ∧ Under (subPre pre n) l
  | [], _, _, _, l, hl => by simp [dumpPFields] at hl
  | (n, v) :: rest, pre, path, i, l, hl => by
    simp only [dumpPFields, List.mem_append] at hl
    rcases hl with hl | hl
    · exact ⟨n, by simp, under_dumpP h v _ _ l hl⟩
    · obtain ⟨n', hn', hu⟩ := under_dumpPFields h rest pre path (i + 1) l hl
      exact ⟨n', by simp [hn'], hu⟩
theorem under_dumpPItems (h : Str → Str) : ∀ (xs : List Val) (pre path : Str) (i : Nat),
    ∀ l ∈ dumpPItems h pre path i xs, ∃ j, i ≤ j ∧ Under (subPre pre (dec j)) l
  | [], _, _, _, l, hl => by simp [dumpPItems] at hl
  | v :: rest, pre, path, i, l, hl => by
    simp only [dumpPItems, List.mem_append] at hl
    rcases hl with hl | hl
    · exact ⟨i, Nat.le_refl _, under_dumpP h v _ _ l hl⟩
    · obtain ⟨j, hj, hu⟩ := under_dumpPItems h rest pre path (i + 1) l hl
      exact ⟨j, by omega, hu⟩
end

/-- Two names followed by a separator that occurs in neither: one text is a prefix of the other only
if the names are equal. -/
theorem sep2_prefix {c d : Char} : ∀ (u v A B : Str), c ∉ v → d ∉ u →
    (u ++ c :: A) <+: (v ++ d :: B) → u = v
  | [], [], _, _, _, _, _ => rfl
  | [], x :: v, A, B, hc, _, h => by
    simp only [List.nil_append, List.cons_append, List.cons_prefix_cons] at h
    exact absurd (by rw [h.1]; simp) hc
  | x :: u, [], A, B, _, hd, h => by
    simp only [List.nil_append, List.cons_append, List.cons_prefix_cons] at h
    exact absurd (by rw [← h.1]; simp) hd
  | x :: u, y :: v, A, B, hc, hd, h => by
    simp only [List.cons_append, List.cons_prefix_cons] at h
    have := sep2_prefix u v A B (fun e => hc (List.mem_cons_of_mem _ e)) (fun e => hd (List.mem_cons_of_mem _ e)) h.2
    rw [h.1, this]

theorem nameOk_iff {n : Str} : nameOk n = true ↔ '=' ∉ n ∧ '/' ∉ n := by
  simp [nameOk]

/-- A line under the sibling `n'` does not start with `pre/n` followed by `c`. -/
theorem not_prefix_of_under_sibling {pre n n' l : Str} {c : Char} (hc : c = '/' ∨ c = '=')
    (hn : nameOk n = true) (hn' : nameOk n' = true) (hne : n ≠ n') (hu : Under (subPre pre n') l) :
    ¬ (subPre pre n ++ [c]) <+: l := by
  intro hp
  have ⟨h1, h2⟩ := nameOk_iff.mp hn
  have ⟨h1', h2'⟩ := nameOk_iff.mp hn'
  have key : ∀ d, (d = '/' ∨ d = '=') → (subPre pre n' ++ [d]) <+: l → False := by
    intro d hd hq
    rcases List.prefix_or_prefix_of_prefix hp hq with hh | hh
    · have hh' : (n ++ c :: []) <+: (n' ++ d :: []) := by
        have : pre ++ '/' :: (n ++ [c]) <+: pre ++ '/' :: (n' ++ [d]) := by simpa [subPre] using hh
        simpa using (List.prefix_append_right_inj pre).mp this
      exact hne (sep2_prefix n n' [] [] (by rcases hc with rfl | rfl <;> assumption)
        (by rcases hd with rfl | rfl <;> assumption) hh')
    · have hh' : (n' ++ d :: []) <+: (n ++ c :: []) := by
        have : pre ++ '/' :: (n' ++ [d]) <+: pre ++ '/' :: (n ++ [c]) := by simpa [subPre] using hh
        simpa using (List.prefix_append_right_inj pre).mp this
      exact hne (sep2_prefix n' n [] [] (by rcases hd with rfl | rfl <;> assumption)
        (by rcases hc with rfl | rfl <;> assumption) hh').symm
  rcases hu with hu | hu
  · exact key '/' (Or.inl rfl) hu
  · exact key '=' (Or.inr rfl) hu

/-! ## The scan -/

theorem bp_keep {l : Str} (L : List Str) (h : stripSuffix? constMark l = none) :
    backportAllConstants (l :: L) = l :: backportAllConstants L := by
  rw [backportAllConstants]; simp [h]

theorem lastIdx_none {p : Str → Bool} : ∀ {B : List Str}, (∀ b ∈ B, p b = false) → lastIdx p B = none
  | [], _ => rfl
  | x :: B, h => by
    simp [lastIdx, lastIdx_none (fun b hb => h b (List.mem_cons_of_mem _ hb)), h x (by simp)]

theorem lastIdx_append_cons {p : Str → Bool} {x : Str} {B : List Str} (hx : p x = true)
    (hB : ∀ b ∈ B, p b = false) : ∀ A : List Str, lastIdx p (A ++ x :: B) = some A.length
  | [] => by simp [lastIdx, lastIdx_none hB, hx]
  | a :: A => by simp [lastIdx, lastIdx_append_cons hx hB A]

theorem nonEmptyRun_eq : ∀ {L : List Str}, (∀ l ∈ L, l ≠ []) → nonEmptyRun L = L
  | [], _ => rfl
  | x :: L, h => by
    have hx : x ≠ [] := h x (by simp)
    have ih := nonEmptyRun_eq (L := L) (fun l hl => h l (List.mem_cons_of_mem _ hl))
    unfold nonEmptyRun at ih ⊢
    cases x with
    | nil => exact absurd rfl hx
    | cons c t => simp [List.takeWhile, ih]

/-- The block of a constant: type line, at least one own line, the value line, then lines none of which
starts with the value key. -/
theorem bp_const_block (pre rv : Str) (a : Str) (HP T : List Str) (hpre : '=' ∉ pre) (hrv : rv ≠ [])
    (hHP : ∀ l ∈ a :: HP, l ≠ []) (hT : ∀ l ∈ T, l ≠ [] ∧ startsWithMore (pre ++ cs!"/value=") l = false) :
    backportAllConstants (typeLine pre cs!"Constant" ::
        ((a :: HP) ++ scalarLine (subPre pre cs!"value") rv :: T)) =
      typeLine pre (constantKindOfRepr rv).1 :: ((a :: HP) ++
        ((match (constantKindOfRepr rv).2 with
          | some f => [scalarLine (subPre pre f) rv]
          | none => []) ++ backportAllConstants T)) := by
  have hs : stripSuffix? constMark (typeLine pre cs!"Constant") = some pre := by
    have : typeLine pre cs!"Constant" = pre ++ constMark := by simp [typeLine]
    rw [this]
    simp [stripSuffix?, List.isSuffixOf_iff_suffix]
  have hval : scalarLine (subPre pre cs!"value") rv = (pre ++ cs!"/value=") ++ rv := by simp [scalarLine, subPre]
  have hne : ∀ l ∈ (a :: HP) ++ scalarLine (subPre pre cs!"value") rv :: T, l ≠ [] := by
    intro l hl
    rcases List.mem_append.mp hl with hl | hl
    · exact hHP l hl
    · rcases List.mem_cons.mp hl with rfl | hl
      · rw [hval]; simp
      · exact (hT l hl).1
  have hpv : startsWithMore (pre ++ cs!"/value=") (scalarLine (subPre pre cs!"value") rv) = true := by
    rw [hval]
    have : 0 < rv.length := List.length_pos_iff.mpr hrv
    simp [startsWithMore, List.isPrefixOf_iff_prefix]; omega
  have hidx : lastIdx (startsWithMore (pre ++ cs!"/value="))
      ((nonEmptyRun ((a :: HP) ++ scalarLine (subPre pre cs!"value") rv :: T)).drop 1) = some HP.length := by
    rw [nonEmptyRun_eq hne]
    simp only [List.cons_append, List.drop_succ_cons, List.drop_zero]
    exact lastIdx_append_cons hpv (fun b hb => (hT b hb).2) HP
  rw [backportAllConstants]
  simp only [hs, hidx]
  have hget : ((a :: HP) ++ scalarLine (subPre pre cs!"value") rv :: T).getD (HP.length + 1) [] =
      scalarLine (subPre pre cs!"value") rv := by
    have : (a :: HP).length = HP.length + 1 := by simp
    rw [List.getD_eq_getElem?_getD, List.getElem?_append_right (by omega)]
    simp
  have htake : ((a :: HP) ++ scalarLine (subPre pre cs!"value") rv :: T).take (HP.length + 1) = a :: HP := by
    have : (a :: HP).length = HP.length + 1 := by simp
    rw [← this]; exact List.take_left
  have hdrop : ((a :: HP) ++ scalarLine (subPre pre cs!"value") rv :: T).drop (HP.length + 1 + 1) = T := by
    have : ((a :: HP) ++ [scalarLine (subPre pre cs!"value") rv]).length = HP.length + 1 + 1 := by simp
    rw [← this]
    have e : (a :: HP) ++ scalarLine (subPre pre cs!"value") rv :: T =
        ((a :: HP) ++ [scalarLine (subPre pre cs!"value") rv]) ++ T := by simp
    rw [e]; exact List.drop_left
  rw [hget, htake, hdrop, hval, List.drop_left]
  cases hk : (constantKindOfRepr rv).2 with
  | none => simp [typeLine]
  | some f => simp [typeLine, scalarLine, subPre]

/-! ## Lines that are not the type line of a constant -/

theorem const_suffix_keyval {K V : Str} (hK : '=' ∉ K) (hV : '=' ∉ V) (h : constMark <:+ K ++ '=' :: V) :
    tyKey <:+ K ∧ V = cs!"Constant" := by
  obtain ⟨X, hX⟩ := h
  have h' : (X ++ tyKey) ++ '=' :: cs!"Constant" = K ++ '=' :: V := by rw [← hX]; simp
  obtain ⟨h1, h2⟩ := split_at_unique hK hV h'
  exact ⟨⟨X, h1⟩, h2.symm⟩

theorem stripSuffix_none {l : Str} (h : ¬ constMark <:+ l) : stripSuffix? constMark l = none := by
  simp [stripSuffix?, List.isSuffixOf_iff_suffix, h]

theorem strip_marker {pre lit V : Str} (head tail : Str) (hl : lit = head ++ tail)
    (h5 : tail.length = 5) (hne : tail ≠ cs!"_type") (hlit : '=' ∉ lit)
    (hpre : '=' ∉ pre) (hV : '=' ∉ V) : stripSuffix? constMark ((pre ++ lit) ++ '=' :: V) = none := by
  apply stripSuffix_none
  intro hs
  obtain ⟨⟨X, h⟩, _⟩ := const_suffix_keyval (not_mem_append_lit hpre hlit) hV hs
  have hs' : (cs!"_type") <:+ (pre ++ head) ++ tail :=
    ⟨X ++ cs!"/", by
      have e : pre ++ head ++ tail = pre ++ lit := by rw [hl]; simp
      rw [e, ← h]; simp [tyKey]⟩
  exact hne (suffix_same_length (by rw [h5]; rfl) hs').symm

theorem strip_typeLine_ne {pre ty : Str} (hpre : '=' ∉ pre) (hty : '=' ∉ ty) (hne : (ty == cs!"Constant") = false) :
    stripSuffix? constMark (typeLine pre ty) = none := by
  apply stripSuffix_none
  intro hs
  have e : typeLine pre ty = (pre ++ tyKey) ++ '=' :: ty := by simp [typeLine]
  rw [e] at hs
  have := (const_suffix_keyval (not_mem_append_lit hpre eq_not_mem_tyKey) hty hs).2
  rw [this] at hne; simp at hne

/-! ## Scalar fields -/

theorem dumpPFields_scalars_indep (h : Str → Str) (pre : Str) : ∀ (fs : List (Str × Val)),
    fs.all isScalarField = true → ∀ (path path' : Str) (i i' : Nat),
    dumpPFields h pre path i fs = dumpPFields h pre path' i' fs
  | [], _, _, _, _, _ => rfl
  | (n, v) :: rest, hs, path, path', i, i' => by
    simp only [List.all_cons, Bool.and_eq_true] at hs
    cases v with
    | scalar r k =>
      simp only [dumpPFields, dumpP]
      rw [dumpPFields_scalars_indep h pre rest hs.2 path path' (i + 1) (i' + 1)]
    | node _ _ _ _ _ => simp [isScalarField] at hs
    | list _ _ => simp [isScalarField] at hs

theorem backportFields_scalars : ∀ (fs : List (Str × Val)), fs.all isScalarField = true → backportFields fs = fs
  | [], _ => rfl
  | (n, v) :: rest, hs => by
    simp only [List.all_cons, Bool.and_eq_true] at hs
    cases v with
    | scalar r k => simp [backportFields, backportTree, backportFields_scalars rest hs.2]
    | node _ _ _ _ _ => simp [isScalarField] at hs
    | list _ _ => simp [isScalarField] at hs

theorem bp_scalar_fields (h : Str → Str) (pre : Str) (R : List Str) : ∀ (fs : List (Str × Val)) (path : Str) (i : Nat),
    fs.all isScalarField = true → wfBackportFields pre fs = true →
    backportAllConstants (dumpPFields h pre path i fs ++ R) = dumpPFields h pre path i fs ++ backportAllConstants R
  | [], _, _, _, _ => rfl
  | (n, v) :: rest, path, i, hs, hwf => by
    simp only [List.all_cons, Bool.and_eq_true] at hs
    simp only [wfBackportFields, Bool.and_eq_true] at hwf
    cases v with
    | scalar r k =>
      have hc : stripSuffix? constMark (scalarLine (subPre pre n) r) = none := by
        apply stripSuffix_none
        have := hwf.1
        simp only [wfBackport, Bool.not_eq_true'] at this
        intro hsuf
        rw [← List.isSuffixOf_iff_suffix] at hsuf
        rw [hsuf] at this; cases this
      simp only [dumpPFields, dumpP, List.cons_append, List.nil_append]
      rw [bp_keep _ hc, bp_scalar_fields h pre R rest path (i + 1) hs.2 hwf.2]
    | node _ _ _ _ _ => simp [isScalarField] at hs
    | list _ _ => simp [isScalarField] at hs

/-! ## The whole dump -/

/-- The `_hash` / `_pos` lines of a node. -/
def hpLines (h : Str → Str) (pre path : Str) (e : Bool) (r : Str) (ln : Option Nat) : List Str :=
  (if e then [hashLine pre (h r)] else []) ++
    (match ln with
      | some n => [posLine pre n path]
      | none => [])

theorem dumpP_node_eq (h : Str → Str) (pre path ty : Str) (e : Bool) (r : Str) (ln : Option Nat)
    (fs : List (Str × Val)) :
    dumpP h pre path (.node ty e r ln fs) = typeLine pre ty :: (hpLines h pre path e r ln ++ dumpPFields h pre path 0 fs) := by
  cases e <;> cases ln <;> simp [dumpP, hpLines]

theorem bp_keep_list : ∀ (A L : List Str), (∀ l ∈ A, stripSuffix? constMark l = none) →
    backportAllConstants (A ++ L) = A ++ backportAllConstants L
  | [], _, _ => rfl
  | a :: A, L, h => by
    rw [List.cons_append, bp_keep _ (h a (by simp)), bp_keep_list A L (fun l hl => h l (List.mem_cons_of_mem _ hl))]
    rfl

theorem hpLines_strip (h : Str → Str) (hh : HashNoEq h) {pre path : Str} (e : Bool) (r : Str) (ln : Option Nat)
    (hpre : '=' ∉ pre) (hpath : '=' ∉ path) : ∀ l ∈ hpLines h pre path e r ln, stripSuffix? constMark l = none := by
  intro l hl
  simp only [hpLines, List.mem_append] at hl
  rcases hl with hl | hl
  · cases e with
    | false => simp at hl
    | true =>
      simp at hl; subst hl
      have : hashLine pre (h r) = (pre ++ cs!"/_hash") ++ '=' :: h r := by simp [hashLine]
      rw [this]; exact strip_marker (cs!"/") (cs!"_hash") rfl rfl (by decide) (by decide) hpre (hh r)
  · cases ln with
    | none => simp at hl
    | some n =>
      simp at hl; subst hl
      have : posLine pre n path = (pre ++ cs!"/_pos") ++ '=' :: (dec n ++ ':' :: path.drop 2) := by simp [posLine]
      rw [this]
      refine strip_marker [] (cs!"/_pos") rfl rfl (by decide) (by decide) hpre ?_
      simp only [List.mem_append, List.mem_cons, not_or]
      exact ⟨eq_not_mem_dec n, by decide, fun hm => hpath (List.mem_of_mem_drop hm)⟩

theorem hpLines_ne_nil (h : Str → Str) (pre path : Str) (e : Bool) (r : Str) (ln : Option Nat) :
    ∀ l ∈ hpLines h pre path e r ln, l ≠ [] := by
  intro l hl
  simp only [hpLines, List.mem_append] at hl
  rcases hl with hl | hl
  · cases e with
    | false => simp at hl
    | true => simp at hl; subst hl; simp [hashLine]
  · cases ln with
    | none => simp at hl
    | some n => simp at hl; subst hl; simp [posLine]

/-- What is required of the lines that follow the dump of a value with prefix `pre`: none is empty,
none lies under `pre`. -/
def RCond (pre : Str) (R : List Str) : Prop := ∀ l ∈ R, l ≠ [] ∧ ¬ (pre ++ ['/']) <+: l

theorem constShape_some {ty : Str} {fs : List (Str × Val)} {rv : Str} {k : Kind} {rest : List (Str × Val)}
    (h : constShape ty fs = some (rv, k, rest)) : ty = cs!"Constant" ∧ fs = (cs!"value", .scalar rv k) :: rest := by
  unfold constShape at h
  split at h
  · rename_i hty
    split at h
    · rename_i n rv' k' rest'
      split at h
      · rename_i hn
        simp only [Option.some.injEq, Prod.mk.injEq] at h
        obtain ⟨rfl, rfl, rfl⟩ := h
        exact ⟨beq_iff_eq.mp hty, by rw [beq_iff_eq.mp hn]⟩
      · cases h
    · cases h
  · cases h

theorem length_backportItems : ∀ xs : List Val, (backportItems xs).length = xs.length
  | [] => rfl
  | x :: xs => by simp [backportItems, length_backportItems xs]

mutual
theorem bp_dumpP (h : Str → Str) (hh : HashNoEq h) : ∀ (v : Val) (pre path : Str) (R : List Str),
    '=' ∉ pre → '=' ∉ path → wfBackport pre v = true → RCond pre R →
    backportAllConstants (dumpP h pre path v ++ R) =
      dumpP h pre path (backportTree v) ++ backportAllConstants R
  | .node ty e r ln fs, pre, path, R, hpre, hpath, hwf, hR => by
    simp only [wfBackport, Bool.and_eq_true] at hwf
    obtain ⟨⟨⟨⟨hty0, hnames⟩, hnodup⟩, hconst⟩, hfs⟩ := hwf
    have hty : '=' ∉ ty := by simpa using hty0
    have hnd : (fs.map (·.1)).Nodup := by simpa using hnodup
    cases hc : (ty == cs!"Constant") with
    | false =>
      have hshape : constShape ty fs = none := by simp [constShape, hc]
      have ih := bp_dumpPFields h hh fs pre path 0 R hpre hpath hnames hnd hfs hR
      have hkeep : ∀ l ∈ typeLine pre ty :: hpLines h pre path e r ln, stripSuffix? constMark l = none := by
        intro l hl
        rcases List.mem_cons.mp hl with rfl | hl
        · exact strip_typeLine_ne hpre hty hc
        · exact hpLines_strip h hh e r ln hpre hpath l hl
      simp only [backportTree, hshape]
      rw [dumpP_node_eq, dumpP_node_eq]
      have e1 : typeLine pre ty :: (hpLines h pre path e r ln ++ dumpPFields h pre path 0 fs) ++ R =
          (typeLine pre ty :: hpLines h pre path e r ln) ++ (dumpPFields h pre path 0 fs ++ R) := by simp
      rw [e1, bp_keep_list _ _ hkeep, ih]; simp
    | true =>
      rw [hc] at hconst
      simp only [if_true] at hconst
      cases hs : constShape ty fs with
      | none => rw [hs] at hconst; cases hconst
      | some t =>
        obtain ⟨rv, k, rest⟩ := t
        rw [hs] at hconst
        simp only [Bool.and_eq_true, Bool.not_eq_true', List.isEmpty_eq_false_iff, Bool.or_eq_true] at hconst
        obtain ⟨⟨hrv, hscal⟩, hHP⟩ := hconst
        obtain ⟨rfl, rfl⟩ := constShape_some hs
        have hfs' : wfBackportFields pre rest = true := by
          simp only [wfBackportFields, Bool.and_eq_true] at hfs; exact hfs.2
        -- the lines after the value line
        have hT : ∀ l ∈ dumpPFields h pre path 1 rest ++ R,
            l ≠ [] ∧ startsWithMore (pre ++ cs!"/value=") l = false := by
          intro l hl
          rcases List.mem_append.mp hl with hl | hl
          · obtain ⟨n', hn', hu⟩ := under_dumpPFields h rest pre path 1 l hl
            refine ⟨hu.ne_nil, ?_⟩
            have hne : cs!"value" ≠ n' := by
              intro e'
              simp only [List.map_cons, List.nodup_cons] at hnd
              exact hnd.1 (e' ▸ hn')
            have hok1 : nameOk cs!"value" = true := by decide
            have hok2 : nameOk n' = true := by
              simp only [List.map_cons, List.all_cons, Bool.and_eq_true] at hnames
              exact List.all_eq_true.mp hnames.2 n' hn'
            have := not_prefix_of_under_sibling (c := '=') (Or.inr rfl) hok1 hok2 hne hu
            cases hb : startsWithMore (pre ++ cs!"/value=") l with
            | false => rfl
            | true =>
              simp only [startsWithMore, Bool.and_eq_true, List.isPrefixOf_iff_prefix] at hb
              exact absurd (by simpa [subPre] using hb.1) this
          · refine ⟨(hR l hl).1, ?_⟩
            cases hb : startsWithMore (pre ++ cs!"/value=") l with
            | false => rfl
            | true =>
              simp only [startsWithMore, Bool.and_eq_true, List.isPrefixOf_iff_prefix] at hb
              obtain ⟨t, ht⟩ := hb.1
              exact absurd ⟨cs!"value=" ++ t, by rw [← ht]; simp⟩ (hR l hl).2
        have hbT := bp_scalar_fields h pre R rest path 1 hscal hfs'
        -- own lines: at least one
        have hne : hpLines h pre path e r ln ≠ [] := by
          cases e with
          | true => simp [hpLines]
          | false =>
            cases ln with
            | some n => simp [hpLines]
            | none => simp at hHP
        obtain ⟨a, HP, haHP⟩ : ∃ a HP, hpLines h pre path e r ln = a :: HP := by
          cases hl : hpLines h pre path e r ln with
          | nil => exact absurd hl hne
          | cons a HP => exact ⟨a, HP, rfl⟩
        have hblock := bp_const_block pre rv a HP (dumpPFields h pre path 1 rest ++ R) hpre hrv
          (by rw [← haHP]; exact hpLines_ne_nil h pre path e r ln) hT
        simp only [backportTree, hs]
        rw [dumpP_node_eq, dumpP_node_eq, haHP]
        have e1 : typeLine pre cs!"Constant" :: (a :: HP ++
              dumpPFields h pre path 0 ((cs!"value", Val.scalar rv k) :: rest)) ++ R =
            typeLine pre cs!"Constant" :: ((a :: HP) ++ scalarLine (subPre pre cs!"value") rv ::
              (dumpPFields h pre path 1 rest ++ R)) := by
          simp [dumpPFields, dumpP]
        rw [e1, hblock, hbT]
        cases hk : (constantKindOfRepr rv).2 with
        | none =>
          simp only [List.nil_append]
          rw [dumpPFields_scalars_indep h pre rest hscal path path 0 1]
          simp
        | some f =>
          simp [dumpPFields, dumpP]
  | .list q xs, pre, path, R, hpre, hpath, hwf, hR => by
    simp only [wfBackport] at hwf
    have ih := bp_dumpPItems h hh xs pre path 1 R hpre hpath hwf hR
    have hL : stripSuffix? constMark (lengthLine pre xs.length) = none := by
      have : lengthLine pre xs.length = (pre ++ cs!"/_length") ++ '=' :: dec xs.length := by simp [lengthLine]
      rw [this]
      exact strip_marker (cs!"/_l") (cs!"ength") rfl rfl (by decide) (by decide) hpre (eq_not_mem_dec _)
    have hlen := length_backportItems xs
    cases q with
    | true => simpa [dumpP, backportTree] using ih
    | false =>
      simp only [dumpP, backportTree, Bool.false_eq_true, if_false, List.cons_append, List.nil_append, hlen]
      rw [bp_keep _ hL, ih]
  | .scalar r k, pre, path, R, _, _, hwf, _ => by
    simp only [wfBackport, Bool.not_eq_true'] at hwf
    have hc : stripSuffix? constMark (scalarLine pre r) = none := by
      apply stripSuffix_none
      intro hsuf
      rw [← List.isSuffixOf_iff_suffix] at hsuf
      rw [hsuf] at hwf; cases hwf
    simp only [dumpP, backportTree, List.cons_append, List.nil_append]
    exact bp_keep _ hc
theorem bp_dumpPFields (h : Str → Str) (hh : HashNoEq h) :
    ∀ (fs : List (Str × Val)) (pre path : Str) (i : Nat) (R : List Str),
    '=' ∉ pre → '=' ∉ path → (fs.map (·.1)).all nameOk = true → (fs.map (·.1)).Nodup →
    wfBackportFields pre fs = true → RCond pre R →
    backportAllConstants (dumpPFields h pre path i fs ++ R) =
      dumpPFields h pre path i (backportFields fs) ++ backportAllConstants R
  | [], _, _, _, _, _, _, _, _, _, _ => rfl
  | (n, v) :: rest, pre, path, i, R, hpre, hpath, hnames, hnd, hwf, hR => by
    simp only [wfBackportFields, Bool.and_eq_true] at hwf
    simp only [List.map_cons, List.all_cons, Bool.and_eq_true] at hnames
    simp only [List.map_cons, List.nodup_cons] at hnd
    have hn := nameOk_iff.mp hnames.1
    have ih := bp_dumpPFields h hh rest pre path (i + 1) R hpre hpath hnames.2 hnd.2 hwf.2 hR
    have hR' : RCond (subPre pre n) (dumpPFields h pre path (i + 1) rest ++ R) := by
      intro l hl
      rcases List.mem_append.mp hl with hl | hl
      · obtain ⟨n', hn', hu⟩ := under_dumpPFields h rest pre path (i + 1) l hl
        have hne : n ≠ n' := fun e' => hnd.1 (e' ▸ hn')
        exact ⟨hu.ne_nil, not_prefix_of_under_sibling (c := '/') (Or.inl rfl) hnames.1
          (List.all_eq_true.mp hnames.2 n' hn') hne hu⟩
      · refine ⟨(hR l hl).1, fun hp => (hR l hl).2 ?_⟩
        obtain ⟨t, ht⟩ := hp
        exact ⟨n ++ '/' :: t, by rw [← ht]; simp [subPre]⟩
    have hv := bp_dumpP h hh v (subPre pre n) (subPath path i) _ (eq_not_mem_subPre hpre hn.1)
      (eq_not_mem_subPath i hpath) hwf.1 hR'
    simp only [dumpPFields, backportFields, List.append_assoc]
    rw [hv, ih]
theorem bp_dumpPItems (h : Str → Str) (hh : HashNoEq h) :
    ∀ (xs : List Val) (pre path : Str) (i : Nat) (R : List Str),
    '=' ∉ pre → '=' ∉ path → wfBackportItems pre i xs = true → RCond pre R →
    backportAllConstants (dumpPItems h pre path i xs ++ R) =
      dumpPItems h pre path i (backportItems xs) ++ backportAllConstants R
  | [], _, _, _, _, _, _, _, _ => rfl
  | v :: rest, pre, path, i, R, hpre, hpath, hwf, hR => by
    simp only [wfBackportItems, Bool.and_eq_true] at hwf
    have ih := bp_dumpPItems h hh rest pre path (i + 1) R hpre hpath hwf.2 hR
    have hok : ∀ j, nameOk (dec j) = true := fun j => nameOk_iff.mpr ⟨eq_not_mem_dec j, slash_not_mem_dec j⟩
    have hR' : RCond (subPre pre (dec i)) (dumpPItems h pre path (i + 1) rest ++ R) := by
      intro l hl
      rcases List.mem_append.mp hl with hl | hl
      · obtain ⟨j, hj, hu⟩ := under_dumpPItems h rest pre path (i + 1) l hl
        have hne : dec i ≠ dec j := fun e' => by have := dec_injective e'; omega
        exact ⟨hu.ne_nil, not_prefix_of_under_sibling (c := '/') (Or.inl rfl) (hok i) (hok j) hne hu⟩
      · refine ⟨(hR l hl).1, fun hp => (hR l hl).2 ?_⟩
        obtain ⟨t, ht⟩ := hp
        exact ⟨dec i ++ '/' :: t, by rw [← ht]; simp [subPre]⟩
    have hv := bp_dumpP h hh v (subPre pre (dec i)) (subPath path i) _ (eq_not_mem_subPre hpre (eq_not_mem_dec i))
      (eq_not_mem_subPath i hpath) hwf.1 hR'
    simp only [dumpPItems, backportItems, List.append_assoc]
    rw [hv, ih]
end

end Paroxy.Flat
