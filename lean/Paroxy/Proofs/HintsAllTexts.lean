/-
Helper lemmas for the full C02_hint_spans: for EVERY text, `remove_hints` keeps the number of lines
of the centrifugated text (no newline is swallowed, no end line is stripped), provided the text does
not contain the separators 0x1c–0x1f (white space for `str.strip`, not for the regex `\s`).
-/
import Paroxy.Proofs.HintsSpans
namespace Paroxy.Hints

variable {O : CharOracle}

/-! ### Looking ahead depends on the current line only -/

theorem nl_not_mem_m13 : '\n' ∉ m13 := by cdec

theorem m13_prefix_sep (a R : Str) : m13.isPrefixOf (a ++ '\n' :: R) = m13.isPrefixOf a := by
  rw [Bool.eq_iff_iff, List.isPrefixOf_iff_prefix, List.isPrefixOf_iff_prefix]
  constructor
  · intro hp
    by_cases hlen : 13 ≤ a.length
    · exact List.prefix_of_prefix_length_le hp (List.prefix_append a _) (by simpa [m13] using hlen)
    · exfalso
      obtain ⟨t, ht⟩ := hp
      have h1 := congrArg (fun l => l[a.length]?) ht
      simp only [List.getElem?_append_right (Nat.le_refl _), Nat.sub_self, List.getElem?_cons_zero] at h1
      rw [List.getElem?_append_left (by simp [m13]; omega)] at h1
      exact nl_not_mem_m13 (List.mem_of_getElem? h1)
  · intro hp; exact hp.trans (List.prefix_append a _)

theorem hintAhead_nl (R : Str) : (hintAhead O) ('\n' :: R) = (hintAhead O) R := by
  unfold hintAhead; rw [List.dropWhile_cons_of_pos (by cdec)]

/-- With nothing in sight after the line break, what is in sight from inside a line is decided by
the line alone. -/
theorem hintAhead_local (s R : Str) (hR : (hintAhead O) R = false) : (hintAhead O) (s ++ '\n' :: R) = (hintAhead O) s := by
  by_cases hex : ∃ c ∈ s, (isSpacePy O) c = false
  · unfold hintAhead
    rw [dropWhile_append_of_exists s _ hex, m13_prefix_sep]
  · have hall : ∀ c ∈ s, (isSpacePy O) c = true := by
      intro c hc
      cases h : (isSpacePy O) c with
      | true => rfl
      | false => exact absurd ⟨c, hc, h⟩ hex
    unfold hintAhead at hR ⊢
    rw [List.dropWhile_append_of_pos hall, List.dropWhile_cons_of_pos (by cdec), hR]
    have : s.dropWhile (isSpacePy O) = [] := by
      have := List.dropWhile_append_of_pos (l₂ := []) hall
      simpa using this
    rw [this]; rfl

/-- `sub_hints` works line by line when no line break has a marker in sight. -/
theorem subHints_line (l : Str) (hl : '\n' ∉ l) (R : Str) (hR : (hintAhead O) R = false) :
    ∀ b, (subHints O) b (l ++ '\n' :: R) = (subHints O) b l ++ '\n' :: (subHints O) false R := by
  induction l with
  | nil =>
    intro b
    have : (hintAhead O) ('\n' :: R) = false := by rw [hintAhead_nl]; exact hR
    cases b <;> simp [subHints, this]
  | cons c t ih =>
    intro b
    have hc : c ≠ '\n' := fun e => hl (by simp [e])
    have ht : '\n' ∉ t := fun e => hl (by simp [e])
    cases b with
    | true => simp [subHints, hc, ih ht true]
    | false =>
      have hloc := hintAhead_local (c :: t) R hR
      simp only [List.cons_append] at hloc ⊢
      simp only [subHints, Bool.false_and, Bool.false_eq_true, if_false, hloc]
      split
      · exact ih ht true
      · simp [ih ht false]

theorem hintAhead_joinNL (ls : List Str) (h : ∀ l ∈ ls, (hintAhead O) l = false) : (hintAhead O) (joinNL ls) = false := by
  induction ls with
  | nil => rfl
  | cons l t ih =>
    cases t with
    | nil => exact h l (by simp)
    | cons l2 t2 =>
      rw [joinNL_cons_cons, hintAhead_local _ _ (ih (fun x hx => h x (List.mem_cons_of_mem _ hx)))]
      exact h l (by simp)

theorem subHints_joinNL (ls : List Str) (hnl : ∀ l ∈ ls, '\n' ∉ l) (h : ∀ l ∈ ls, (hintAhead O) l = false) :
    (subHints O) false (joinNL ls) = joinNL (ls.map ((subHints O) false)) := by
  induction ls with
  | nil => rfl
  | cons l t ih =>
    cases t with
    | nil => rfl
    | cons l2 t2 =>
      have ht := hintAhead_joinNL (l2 :: t2) (fun x hx => h x (List.mem_cons_of_mem _ hx))
      rw [joinNL_cons_cons, subHints_line l (hnl l (by simp)) _ ht false,
        ih (fun x hx => hnl x (List.mem_cons_of_mem _ hx)) (fun x hx => h x (List.mem_cons_of_mem _ hx))]
      rfl

theorem subHints_sublist (s : Str) : ∀ b, ((subHints O) b s).Sublist s := by
  induction s with
  | nil => intro b; simp [subHints]
  | cons c t ih =>
    intro b
    simp only [subHints]
    split
    · exact (ih true).trans (List.sublist_cons_self _ _)
    · split
      · exact (ih true).trans (List.sublist_cons_self _ _)
      · exact (ih false).cons_cons c

/-- What is kept of a line that is not blank and is not a hint comment alone is not blank. -/
theorem subHints_keeps_nonblank (l : Str) (h : (hintAhead O) l = false) (hex : ∃ c ∈ l, (isSpacePy O) c = false) :
    ∃ x ∈ (subHints O) false l, x ∈ l ∧ (isSpacePy O) x = false := by
  induction l with
  | nil => simp at hex
  | cons c t ih =>
    simp only [subHints, Bool.false_and, Bool.false_eq_true, if_false, h]
    by_cases hc : (isSpacePy O) c = true
    · have ht : (hintAhead O) t = false := by
        unfold hintAhead at h ⊢
        rwa [List.dropWhile_cons_of_pos hc] at h
      obtain ⟨x, hx, hxs⟩ := hex
      rcases List.mem_cons.mp hx with rfl | hx
      · rw [hc] at hxs; cases hxs
      · obtain ⟨y, hy, hyt, hys⟩ := ih ht ⟨x, hx, hxs⟩
        exact ⟨y, List.mem_cons_of_mem _ hy, List.mem_cons_of_mem _ hyt, hys⟩
    · exact ⟨c, by simp, by simp, by simpa using hc⟩

/-! ### `strip()` keeps the line breaks when the end lines are not blank -/

theorem joinNL_snoc (front : List Str) (last : Str) :
    joinNL (front ++ [last]) = front.flatMap (· ++ ['\n']) ++ last := by
  induction front with
  | nil => simp [joinNL]
  | cons a t ih =>
    cases t with
    | nil => simp [joinNL]
    | cons b t2 =>
      simp only [List.cons_append] at ih ⊢
      rw [joinNL_cons_cons, ih]; simp

theorem count_dropWhile_line (u R : Str) (hu : '\n' ∉ u) (hex : ∃ c ∈ u, (isSpacePy O) c = false) :
    ((u ++ R).dropWhile (isSpacePy O)).count '\n' = (u ++ R).count '\n' := by
  rw [dropWhile_append_of_exists u R hex, List.count_append, List.count_append]
  have h1 : u.count '\n' = 0 := List.count_eq_zero.mpr hu
  have h2 : (u.dropWhile (isSpacePy O)).count '\n' = 0 :=
    List.count_eq_zero.mpr (fun h => hu ((List.dropWhile_sublist _).subset h))
  rw [h1, h2]

theorem dropWhile_keeps_tail (R v : Str) (hv : '\n' ∉ v) (hex : ∃ c ∈ v, (isSpacePy O) c = false) :
    ∃ R' v', (R ++ v).dropWhile (isSpacePy O) = R' ++ v' ∧ '\n' ∉ v' ∧ ∃ c ∈ v', (isSpacePy O) c = false := by
  by_cases hR : ∃ c ∈ R, (isSpacePy O) c = false
  · exact ⟨R.dropWhile (isSpacePy O), v, dropWhile_append_of_exists R v hR, hv, hex⟩
  · have hall : ∀ c ∈ R, (isSpacePy O) c = true := by
      intro c hc
      cases h : (isSpacePy O) c with
      | true => rfl
      | false => exact absurd ⟨c, hc, h⟩ hR
    refine ⟨[], v.dropWhile (isSpacePy O), by rw [List.dropWhile_append_of_pos hall]; simp,
      fun h => hv ((List.dropWhile_sublist _).subset h), ?_⟩
    obtain ⟨c, hc, hcs⟩ := hex
    have hne := dropWhile_ne_nil_of_exists v ⟨c, hc, hcs⟩
    cases hd : v.dropWhile (isSpacePy O) with
    | nil => exact absurd hd hne
    | cons x t =>
      have := List.head?_dropWhile_not (isSpacePy O) v
      rw [hd] at this
      exact ⟨x, by simp, by simpa using this⟩

theorem count_trail (R v : Str) (hv : '\n' ∉ v) (hex : ∃ c ∈ v, (isSpacePy O) c = false) :
    (((R ++ v).reverse.dropWhile (isSpacePy O)).reverse).count '\n' = (R ++ v).count '\n' := by
  rw [List.count_reverse, List.reverse_append,
    count_dropWhile_line v.reverse R.reverse (by simpa using hv) (by simpa using hex),
    ← List.reverse_append, List.count_reverse]

/-- `str.strip()` does not change the number of line breaks of a text whose first and last lines are
not blank. -/
theorem count_stripPy (ks : List Str) (hnl : ∀ k ∈ ks, '\n' ∉ k)
    (hfirst : ∀ k, ks.head? = some k → ∃ c ∈ k, (isSpacePy O) c = false)
    (hlast : ∀ k, ks.getLast? = some k → ∃ c ∈ k, (isSpacePy O) c = false) :
    ((stripPy O) (joinNL ks)).count '\n' = (joinNL ks).count '\n' := by
  cases ks with
  | nil => rfl
  | cons k1 rest =>
    obtain ⟨front, last, hfl⟩ : ∃ front last, k1 :: rest = front ++ [last] :=
      ⟨(k1 :: rest).dropLast, (k1 :: rest).getLast (by simp), (List.dropLast_concat_getLast (by simp)).symm⟩
    have hlastmem : (k1 :: rest).getLast? = some last := by rw [hfl]; simp
    have hk1 := hfirst k1 rfl
    have hkl := hlast last hlastmem
    have hnl1 : '\n' ∉ k1 := hnl k1 (by simp)
    have hnll : '\n' ∉ last := hnl last (List.mem_of_getLast? hlastmem)
    obtain ⟨X, hX⟩ := joinNL_cons_eq k1 rest
    have hlead : ((joinNL (k1 :: rest)).dropWhile (isSpacePy O)).count '\n' = (joinNL (k1 :: rest)).count '\n' := by
      rw [hX]; exact count_dropWhile_line k1 X hnl1 hk1
    have hform : joinNL (k1 :: rest) = front.flatMap (· ++ ['\n']) ++ last := by rw [hfl, joinNL_snoc]
    obtain ⟨R', v', hS, hv', hex'⟩ := dropWhile_keeps_tail (front.flatMap (· ++ ['\n'])) last hnll hkl
    unfold stripPy
    rw [hform, hS, count_trail R' v' hv' hex', ← hS, ← hform, hlead]

/-! ### Lines: the number of lines survives `remove_hints` -/

theorem subHints_keeps_nonblank' (l X : Str) (h : (hintAhead O) (l ++ X) = false)
    (hex : ∃ c ∈ l, (isSpacePy O) c = false) :
    ∃ x ∈ (subHints O) false (l ++ X), x ∈ l ∧ (isSpacePy O) x = false := by
  induction l with
  | nil => simp at hex
  | cons c t ih =>
    simp only [List.cons_append] at h ⊢
    simp only [subHints, Bool.false_and, Bool.false_eq_true, if_false, h]
    by_cases hc : (isSpacePy O) c = true
    · have ht : (hintAhead O) (t ++ X) = false := by
        unfold hintAhead at h ⊢
        rwa [List.dropWhile_cons_of_pos hc] at h
      obtain ⟨x, hx, hxs⟩ := hex
      rcases List.mem_cons.mp hx with rfl | hx
      · rw [hc] at hxs; cases hxs
      · obtain ⟨y, hy, hyt, hys⟩ := ih ht ⟨x, hx, hxs⟩
        exact ⟨y, List.mem_cons_of_mem _ hy, List.mem_cons_of_mem _ hyt, hys⟩
    · exact ⟨c, by simp, by simp, by simpa using hc⟩

theorem count_joinNL (ls : List Str) (hne : ls ≠ []) (hnl : ∀ l ∈ ls, '\n' ∉ l) :
    (joinNL ls).count '\n' + 1 = ls.length := by
  rw [← lineCount_eq, lineCount, splitNL_joinNL ls hne hnl]

/-- A line of the centrifugated text: its core `l` (a kept line of the prepared text) and what
centrifugation appended to it. -/
structure GoodLine (O : CharOracle) (l X : Str) : Prop where
  nonl : '\n' ∉ l ++ X
  ahead : (hintAhead O) (l ++ X) = false

/-- **`remove_hints` keeps the number of lines** of a text made of lines none of which is a hint
comment alone, whose first and last lines are not blank, when white space means the same for
`str.strip` and for the regex engine on those two lines. -/
theorem lineCount_removeHints (ls : List (Str × Str)) (hne : ls ≠ [])
    (hgood : ∀ p ∈ ls, (GoodLine O) p.1 p.2)
    (hfirst : ∀ p, ls.head? = some p → ∃ c ∈ p.1, (isSpacePy O) c = false)
    (hlast : ∀ p, ls.getLast? = some p → ∃ c ∈ p.1, (isSpacePy O) c = false) :
    lineCount ((removeHints O) (joinNL (ls.map fun p => p.1 ++ p.2))) =
      lineCount (joinNL (ls.map fun p => p.1 ++ p.2)) := by
  let txt := ls.map fun p => p.1 ++ p.2
  have hnl : ∀ l ∈ txt, '\n' ∉ l := by
    intro l hl; simp only [txt, List.mem_map] at hl; obtain ⟨p, hp, rfl⟩ := hl; exact (hgood p hp).nonl
  have hah : ∀ l ∈ txt, (hintAhead O) l = false := by
    intro l hl; simp only [txt, List.mem_map] at hl; obtain ⟨p, hp, rfl⟩ := hl; exact (hgood p hp).ahead
  have htne : txt ≠ [] := by simpa [txt] using hne
  have hkeepnl : ∀ k ∈ txt.map ((subHints O) false), '\n' ∉ k := by
    intro k hk; simp only [List.mem_map] at hk; obtain ⟨l, hl, rfl⟩ := hk
    exact fun h => hnl l hl ((subHints_sublist l false).subset h)
  have hend : ∀ p ∈ ls, (∃ c ∈ p.1, (isSpacePy O) c = false) →
      ∃ c ∈ (subHints O) false (p.1 ++ p.2), (isSpacePy O) c = false := by
    intro p hp hex
    obtain ⟨x, hx, hxl, hxs⟩ := subHints_keeps_nonblank' p.1 p.2 (hgood p hp).ahead hex
    exact ⟨x, hx, hxs⟩
  show lineCount ((removeHints O) (joinNL txt)) = lineCount (joinNL txt)
  rw [lineCount_eq, lineCount_eq, removeHints, subHints_joinNL txt hnl hah,
    count_stripPy _ hkeepnl
      (by
        intro k hk
        simp only [txt, List.map_map, List.head?_map, Option.map_eq_some_iff] at hk
        obtain ⟨p, hp, rfl⟩ := hk
        exact hend p (List.mem_of_head? hp) (hfirst p hp))
      (by
        intro k hk
        simp only [txt, List.map_map, List.getLast?_map, Option.map_eq_some_iff] at hk
        obtain ⟨p, hp, rfl⟩ := hk
        exact hend p (List.mem_of_getLast? hp) (hlast p hp))]
  have h1 := count_joinNL (txt.map ((subHints O) false)) (by simpa using htne) hkeepnl
  have h2 := count_joinNL txt htne hnl
  simp only [List.length_map] at h1
  omega

/-! ### What `centrifugate_hints` returns, for any text -/

theorem splitWs'_props (s : Str) :
    (∀ c ∈ ((splitWs' O) s).1, (isSpacePy O) c = false) ∧
      ∀ t ∈ ((splitWs' O) s).2, t ≠ [] ∧ ∀ c ∈ t, (isSpacePy O) c = false := by
  induction s with
  | nil => simp [splitWs']
  | cons c t ih =>
    obtain ⟨h1, h2⟩ := ih
    by_cases hc : (isSpacePy O) c = true
    · simp only [splitWs', hc, if_true]
      refine ⟨by simp, ?_⟩
      split
      · exact h2
      · rename_i hne
        intro x hx
        rcases List.mem_cons.mp hx with rfl | hx
        · exact ⟨hne, h1⟩
        · exact h2 x hx
    · simp only [splitWs', hc, if_false, Bool.false_eq_true]
      refine ⟨?_, h2⟩
      intro x hx
      rcases List.mem_cons.mp hx with rfl | hx
      · simpa using hc
      · exact h1 x hx

theorem splitWs_props (s : Str) : ∀ t ∈ (splitWs O) s, t ≠ [] ∧ ∀ c ∈ t, (isSpacePy O) c = false := by
  obtain ⟨h1, h2⟩ := splitWs'_props s
  intro t ht
  simp only [splitWs] at ht
  split at ht
  · exact h2 t ht
  · rename_i hne
    rcases List.mem_cons.mp ht with rfl | ht
    · exact ⟨hne, h1⟩
    · exact h2 t ht

theorem scan_props (ls : List Str) :
    (∀ l ∈ ((scanIsolated O) ls).1, l ∈ ls ∧ (isolatedRest O) l = none) ∧
      ∀ t ∈ ((scanIsolated O) ls).2, t ≠ [] ∧ ∀ c ∈ t, (isSpacePy O) c = false := by
  induction ls with
  | nil => simp [scanIsolated]
  | cons l t ih =>
    obtain ⟨h1, h2⟩ := ih
    simp only [scanIsolated]
    cases hiso : (isolatedRest O) l with
    | some rest =>
      simp only
      refine ⟨fun x hx => ⟨List.mem_cons_of_mem _ (h1 x hx).1, (h1 x hx).2⟩, fun x hx => ?_⟩
      rcases List.mem_append.mp hx with hx | hx
      · exact splitWs_props rest x hx
      · exact h2 x hx
    | none =>
      simp only
      refine ⟨fun x hx => ?_, h2⟩
      rcases List.mem_cons.mp hx with rfl | hx
      · exact ⟨by simp, hiso⟩
      · exact ⟨List.mem_cons_of_mem _ (h1 x hx).1, (h1 x hx).2⟩

/-- Dropping from both ends the elements that satisfy `p`. -/
theorem trim_both_props {α : Type} (p : α → Bool) (ls : List α) :
    let M := ((ls.dropWhile p).reverse.dropWhile p).reverse
    M.Sublist ls ∧ (∀ x, M.head? = some x → p x = false) ∧ (∀ x, M.getLast? = some x → p x = false) := by
  intro M
  let A := ls.dropWhile p
  have hMA : M.Sublist A := by
    simp only [M]
    exact (List.reverse_sublist.mpr (List.dropWhile_sublist p)).trans (by simp [A])
  have h3 : A = M ++ (A.reverse.takeWhile p).reverse := by
    have h2 : A.reverse = A.reverse.takeWhile p ++ A.reverse.dropWhile p := (List.takeWhile_append_dropWhile).symm
    have := congrArg List.reverse h2
    rw [List.reverse_reverse, List.reverse_append] at this
    exact this
  refine ⟨hMA.trans (List.dropWhile_sublist p), ?_, ?_⟩
  · intro x hx
    have hA : A.head? = some x := by
      rw [h3]
      cases hM : M with
      | nil => rw [hM] at hx; cases hx
      | cons y t => rw [hM] at hx; simpa using hx
    have := List.head?_dropWhile_not p ls
    rw [show ls.dropWhile p = A from rfl, hA] at this
    exact this
  · intro x hx
    have hh : (A.reverse.dropWhile p).head? = some x := by
      have : M.getLast? = (A.reverse.dropWhile p).head? := by simp [M, A]
      rw [← this, hx]
    have := List.head?_dropWhile_not p A.reverse
    rw [hh] at this
    exact this

theorem not_blankPy_exists (l : Str) (h : (blankPy O) l = false) : ∃ c ∈ l, (isSpacePy O) c = false := by
  simp only [blankPy, List.all_eq_false] at h
  obtain ⟨x, hx, hs⟩ := h
  exact ⟨x, hx, by simpa using hs⟩

/-- A line on which every marker in sight from its beginning is followed by a space or by the end
of the line (what the normalisation of the markers guarantees, see `prepare_spaced`). -/
def SpacedLine (O : CharOracle) (l : Str) : Prop := (hintAhead O) l = true → (isolatedRest O) l ≠ none

theorem hintAhead_of_kept (l : Str) (hs : SpacedLine O l) (h : (isolatedRest O) l = none) : (hintAhead O) l = false := by
  cases hh : (hintAhead O) l with
  | false => rfl
  | true => exact absurd h (hs hh)

/-- A kept line stays "not a hint comment alone" when the marker and tokens are appended to it. -/
theorem hintAhead_appended (a X : Str) (ha : a ≠ []) (hm : m13.isPrefixOf a = false)
    (hX : SafeTail X ∨ 13 ≤ a.length) : m13.isPrefixOf (a ++ X) = false := by
  rw [← Bool.not_eq_true, List.isPrefixOf_iff_prefix]
  rw [← Bool.not_eq_true, List.isPrefixOf_iff_prefix] at hm
  intro hp
  by_cases h13 : 13 ≤ a.length
  · exact hm (List.prefix_of_prefix_length_le hp (List.prefix_append a X) (by simpa [m13] using h13))
  · have hpre : a <+: m13 :=
      List.prefix_of_prefix_length_le (List.prefix_append a X) hp (by simp [m13]; omega)
    have ha' : a = m13.take a.length := List.prefix_iff_eq_take.mp hpre
    have hsafe : SafeTail X := by
      rcases hX with h | h
      · exact h
      · omega
    obtain ⟨t, ht⟩ := hp
    have hY' : X = m13.drop a.length ++ t := by
      have h1 : m13.take a.length ++ X = m13.take a.length ++ (m13.drop a.length ++ t) := by
        rw [← List.append_assoc, List.take_append_drop, ← ha', ht]
      exact List.append_cancel_left h1
    have hpos : 0 < a.length := List.length_pos_iff.mpr ha
    have hlt : a.length < 13 := by omega
    generalize a.length = n at hY' hpos hlt
    interval_cases n <;> simp [m13] at hY' <;>
      (rcases hsafe with rfl | ⟨Z, rfl⟩ | ⟨c, Z, rfl, hc⟩ | ⟨Z, rfl⟩ <;> simp at hY' <;>
        (try (rcases hc with rfl | rfl <;> simp at hY')))

theorem dropWhile_length_ge {p : Char → Bool} (u v : Str) (hv : ∀ c, v.head? = some c → p c = false) :
    v.length ≤ ((u ++ v).dropWhile p).length := by
  induction u with
  | nil =>
    cases v with
    | nil => simp
    | cons c t => simp [List.dropWhile_cons, hv c rfl]
  | cons x t ih =>
    simp only [List.cons_append, List.dropWhile_cons]
    split
    · exact ih
    · simp; omega

theorem hintAhead_kept_append (l X1 toks : Str) (hs : SpacedLine O l) (hk : (isolatedRest O) l = none)
    (hex : ∃ c ∈ l, (isSpacePy O) c = false)
    (hX : (hasInfix m13 l = true ∧ X1 = []) ∨ (X1 = ' ' :: m13)) :
    (hintAhead O) (l ++ (X1 ++ toks)) = false := by
  have hah := hintAhead_of_kept l hs hk
  unfold hintAhead at hah ⊢
  rw [dropWhile_append_of_exists l _ hex]
  have hane := dropWhile_ne_nil_of_exists l hex
  apply hintAhead_appended _ _ hane hah
  rcases hX with ⟨hin, rfl⟩ | rfl
  · right
    rw [hasInfix_iff] at hin
    obtain ⟨pre, suf, rfl⟩ := hin
    have := dropWhile_length_ge (p := (isSpacePy O)) pre (m13 ++ suf)
      (by intro c hc; simp [m13] at hc; subst hc; cdec)
    simp only [List.append_assoc, List.cons_append, List.nil_append] at this ⊢
    simp only [List.length_append, m13, List.length_cons, List.length_nil] at this ⊢
    omega
  · left; right; right; left
    exact ⟨'#', m13.tail ++ toks, by simp [m13], Or.inr rfl⟩

theorem splitNL'_noNL (s : Str) : '\n' ∉ (splitNL' s).1 ∧ ∀ l ∈ (splitNL' s).2, '\n' ∉ l := by
  induction s with
  | nil => simp [splitNL']
  | cons c t ih =>
    by_cases hc : c = '\n'
    · simp only [splitNL', hc, if_true]
      refine ⟨by simp, fun l hl => ?_⟩
      rcases List.mem_cons.mp hl with rfl | hl
      · exact ih.1
      · exact ih.2 l hl
    · simp only [splitNL', hc, if_false]
      exact ⟨by simp [hc, ih.1, Ne.symm hc], ih.2⟩

theorem splitNL_noNL (s : Str) : ∀ l ∈ splitNL s, '\n' ∉ l := by
  intro l hl
  rcases List.mem_cons.mp hl with rfl | hl
  · exact (splitNL'_noNL s).1
  · exact (splitNL'_noNL s).2 l hl

theorem mem_splitNL' (s : Str) : (∀ c ∈ (splitNL' s).1, c ∈ s) ∧ ∀ l ∈ (splitNL' s).2, ∀ c ∈ l, c ∈ s := by
  induction s with
  | nil => simp [splitNL']
  | cons x t ih =>
    by_cases hx : x = '\n'
    · simp only [splitNL', hx, if_true]
      refine ⟨by simp, fun l hl c hc => ?_⟩
      rcases List.mem_cons.mp hl with rfl | hl
      · exact List.mem_cons_of_mem _ (ih.1 c hc)
      · exact List.mem_cons_of_mem _ (ih.2 l hl c hc)
    · simp only [splitNL', hx, if_false]
      refine ⟨fun c hc => ?_, fun l hl c hc => List.mem_cons_of_mem _ (ih.2 l hl c hc)⟩
      rcases List.mem_cons.mp hc with rfl | hc
      · simp
      · exact List.mem_cons_of_mem _ (ih.1 c hc)

theorem mem_splitNL (s : Str) : ∀ l ∈ splitNL s, ∀ c ∈ l, c ∈ s := by
  intro l hl
  rcases List.mem_cons.mp hl with rfl | hl
  · exact (mem_splitNL' s).1
  · exact (mem_splitNL' s).2 l hl

theorem addMarker_form (l : Str) :
    (hasInfix m13 l = true ∧ addMarker l = l) ∨ addMarker l = l ++ ' ' :: m13 := by
  unfold addMarker
  by_cases h : hasInfix m13 l = true
  · exact Or.inl ⟨h, by simp [h]⟩
  · exact Or.inr (by simp [h])

theorem toks_noNL (hs : List Str) (f : Str → Str) (hh : ∀ t ∈ hs, ∀ c ∈ t, (isSpacePy O) c = false)
    (hf : ∀ t, ∀ c ∈ f t, c ∈ t ∨ c = ' ' ∨ c = '.') : '\n' ∉ hs.flatMap f := by
  intro hm
  simp only [List.mem_flatMap] at hm
  obtain ⟨t, ht, hc⟩ := hm
  rcases hf t _ hc with h | h | h
  · have := hh t ht _ h; simp [isSpacePy, isSpaceRe] at this
  · cases h
  · cases h

theorem getLast?_cons_snoc {α : Type} (x : α) (t : List α) (y : α) : (x :: (t ++ [y])).getLast? = some y := by
  rw [List.getLast?_cons, List.getLast?_append]; simp

theorem openTok_chars (t : Str) : ∀ c ∈ openTok t, c ∈ t ∨ c = ' ' ∨ c = '.' := by
  intro c hc
  simp only [openTok, dots3, List.mem_cons, List.mem_append, List.not_mem_nil, or_false] at hc
  grind

theorem closeTok_chars (t : Str) : ∀ c ∈ closeTok t, c ∈ t ∨ c = ' ' ∨ c = '.' := by
  intro c hc
  simp only [closeTok, dots3, List.mem_cons, List.mem_append, List.cons_append, List.nil_append] at hc
  grind

/-- The shape of what `centrifugate_hints` returns, whatever the text: either nothing, or lines
`l ++ X` where `l` is a line of the text that is not an isolated hint and `X` what was appended to
it; no line is a hint comment alone; the first and the last are not blank. -/
theorem centrifugate_structure (T c : Str) (hsp : ∀ l ∈ splitNL T, SpacedLine O l) (h : (centrifugate O) T = .ok c) :
    c = [] ∨ ∃ ls : List (Str × Str), ls ≠ [] ∧ c = joinNL (ls.map fun p => p.1 ++ p.2) ∧
      (∀ p ∈ ls, (GoodLine O) p.1 p.2) ∧
      (∀ p, ls.head? = some p → ∃ c ∈ p.1, (isSpacePy O) c = false) ∧
      (∀ p, ls.getLast? = some p → ∃ c ∈ p.1, (isSpacePy O) c = false) ∧
      ∀ p ∈ ls, p.1 ∈ splitNL T := by
  unfold centrifugate at h
  obtain ⟨hk1, hk2⟩ := scan_props (splitNL T)
  obtain ⟨hsub, hhead, hlast⟩ := trim_both_props (blankPy O) ((scanIsolated O) (splitNL T)).1
  simp only at h
  have hkept : ∀ l ∈ (trimBlank O) ((scanIsolated O) (splitNL T)).1,
      l ∈ splitNL T ∧ (isolatedRest O) l = none ∧ '\n' ∉ l := by
    intro l hl
    have := hk1 l (hsub.subset hl)
    exact ⟨this.1, this.2, splitNL_noNL T l this.1⟩
  have hplain : ∀ l ∈ (trimBlank O) ((scanIsolated O) (splitNL T)).1, (GoodLine O) l [] := by
    intro l hl
    obtain ⟨_, hiso, hnl⟩ := hkept l hl
    exact ⟨by simpa using hnl, by simpa using hintAhead_of_kept l (hsp l (hkept l hl).1) hiso⟩
  generalize hK : (trimBlank O) ((scanIsolated O) (splitNL T)).1 = K at h hkept hplain
  have hhead' : ∀ l, K.head? = some l → ∃ c ∈ l, (isSpacePy O) c = false := by
    intro l hl; rw [← hK] at hl; exact not_blankPy_exists l (hhead l hl)
  have hlast' : ∀ l, K.getLast? = some l → ∃ c ∈ l, (isSpacePy O) c = false := by
    intro l hl; rw [← hK] at hl; exact not_blankPy_exists l (hlast l hl)
  by_cases hh : ((scanIsolated O) (splitNL T)).2 = []
  · -- no isolated hint: the kept lines
    simp only [hh, if_true, Except.ok.injEq] at h
    subst h
    cases hKe : K with
    | nil => left; rfl
    | cons l0 t =>
      right
      refine ⟨K.map fun l => (l, []), by simp [hKe], by simp [hKe, List.map_map, Function.comp_def], ?_, ?_, ?_, ?_⟩
      · intro p hp; simp only [List.mem_map] at hp; obtain ⟨l, hl, rfl⟩ := hp; exact hplain l hl
      · intro p hp; simp only [List.head?_map, Option.map_eq_some_iff] at hp
        obtain ⟨l, hl, rfl⟩ := hp; exact hhead' l hl
      · intro p hp; simp only [List.getLast?_map, Option.map_eq_some_iff] at hp
        obtain ⟨l, hl, rfl⟩ := hp; exact hlast' l hl
      · intro p hp; simp only [List.mem_map] at hp; obtain ⟨l, hl, rfl⟩ := hp; exact (hkept l hl).1
  · simp only [hh, if_false] at h
    have hsd : ∀ t ∈ sortDedup ((scanIsolated O) (splitNL T)).2, ∀ c ∈ t, (isSpacePy O) c = false :=
      fun t ht => (hk2 t ((mem_sortDedup t _).mp ht)).2
    generalize sortDedup ((scanIsolated O) (splitNL T)).2 = hs at h hsd
    have hopen := toks_noNL hs openTok hsd openTok_chars
    have hclose := toks_noNL hs closeTok hsd closeTok_chars
    have hboth : '\n' ∉ hs.flatMap fun t => openTok t ++ closeTok t :=
      toks_noNL hs _ hsd (fun t c hc => by
        rcases List.mem_append.mp hc with hc | hc
        · exact openTok_chars t c hc
        · exact closeTok_chars t c hc)
    -- a line to which the marker and tokens are appended
    have happ : ∀ l ∈ K, (∃ c ∈ l, (isSpacePy O) c = false) → ∀ toks, '\n' ∉ toks →
        ∃ X, addMarker l ++ toks = l ++ X ∧ (GoodLine O) l X := by
      intro l hl hex toks htoks
      obtain ⟨_, hiso, hnl⟩ := hkept l hl
      rcases addMarker_form l with ⟨hin, hid⟩ | hadd
      · refine ⟨[] ++ toks, by rw [hid]; simp, ⟨by simp [hnl, htoks], ?_⟩⟩
        exact hintAhead_kept_append l [] toks (hsp l (hkept l hl).1) hiso hex (Or.inl ⟨hin, rfl⟩)
      · refine ⟨(' ' :: m13) ++ toks, by rw [hadd]; simp, ⟨?_, ?_⟩⟩
        · simp only [List.mem_append, not_or]; exact ⟨hnl, by simp [m13], htoks⟩
        · exact hintAhead_kept_append l (' ' :: m13) toks (hsp l (hkept l hl).1) hiso hex (Or.inr rfl)
    cases hKe : K with
    | nil => simp [hKe] at h
    | cons l0 t =>
      right
      simp only [hKe] at h
      cases t with
      | nil =>
        simp only [centLines, Except.ok.injEq] at h
        obtain ⟨X, hX, hg⟩ := happ l0 (by simp [hKe]) (hhead' l0 (by simp [hKe])) _ hboth
        refine ⟨[(l0, X)], by simp, by simp [← h, hX, joinNL], ?_, ?_, ?_, ?_⟩
        · intro p hp; simp at hp; subst hp; exact hg
        · intro p hp; simp at hp; subst hp; exact hhead' l0 (by simp [hKe])
        · intro p hp; simp at hp; subst hp; exact hhead' l0 (by simp [hKe])
        · intro p hp; simp at hp; subst hp; exact (hkept l0 (by simp [hKe])).1
      | cons l2 t2 =>
        obtain ⟨mid, last, hml⟩ := exists_snoc l2 t2
        rw [hml, centLines_snoc] at h
        simp only [Except.ok.injEq] at h
        have hKe' : K = l0 :: (mid ++ [last]) := by rw [hKe, hml]
        have hl0 : l0 ∈ K := by simp [hKe']
        have hll : last ∈ K := by simp [hKe']
        obtain ⟨X0, hX0, hg0⟩ := happ l0 hl0 (hhead' l0 (by simp [hKe'])) _ hopen
        obtain ⟨X1, hX1, hg1⟩ := happ last hll (hlast' last (by rw [hKe']; exact getLast?_cons_snoc _ _ _)) _ hclose
        refine ⟨(l0, X0) :: (mid.map (fun l => (l, [])) ++ [(last, X1)]), by simp, ?_, ?_, ?_, ?_, ?_⟩
        · rw [← h, hX0, hX1]; simp [List.map_map, Function.comp_def]
        · intro p hp
          simp only [List.mem_cons, List.mem_append, List.mem_map, List.not_mem_nil, or_false] at hp
          rcases hp with rfl | ⟨l, hl, rfl⟩ | rfl
          · exact hg0
          · exact hplain l (by simp [hKe', hl])
          · exact hg1
        · intro p hp; simp at hp; subst hp; exact hhead' l0 (by simp [hKe'])
        · intro p hp
          rw [List.getLast?_cons_of_ne_nil (by simp), List.getLast?_append] at hp
          simp at hp; subst hp
          exact hlast' last (by rw [hKe']; exact getLast?_cons_snoc _ _ _)
        · intro p hp
          simp only [List.mem_cons, List.mem_append, List.mem_map, List.not_mem_nil, or_false] at hp
          rcases hp with rfl | ⟨l, hl, rfl⟩ | rfl
          · exact (hkept l0 hl0).1
          · exact (hkept l (by simp [hKe', hl])).1
          · exact (hkept last hll).1

/-! ### The characters of the prepared text -/

theorem mem_normGo (s : Str) : ∀ (st : NState) (pend : Str) (c : Char), c ∈ (normGo O) st pend s →
    c ∈ pend ∨ c ∈ s ∨ c ∈ m14 := by
  induction s with
  | nil => intro st pend c hc; simp only [normGo] at hc; exact Or.inl hc
  | cons x t ih =>
    intro st pend c hc
    simp only [normGo] at hc
    cases hn : (nstep O) st x <;> simp only [hn] at hc
    · rcases ih _ _ c hc with h | h | h
      · rcases List.mem_append.mp h with h | h
        · exact Or.inl h
        · simp at h; subst h; exact Or.inr (Or.inl (by simp))
      · exact Or.inr (Or.inl (List.mem_cons_of_mem _ h))
      · exact Or.inr (Or.inr h)
    · rcases List.mem_append.mp hc with h | h
      · exact Or.inl h
      · rcases List.mem_cons.mp h with rfl | h
        · exact Or.inr (Or.inl (by simp))
        · rcases ih _ _ c h with h | h | h
          · simp at h
          · exact Or.inr (Or.inl (List.mem_cons_of_mem _ h))
          · exact Or.inr (Or.inr h)
    · rcases List.mem_append.mp hc with h | h
      · exact Or.inl h
      · rcases ih _ _ c h with h | h | h
        · simp at h; subst h
          have : x = '#' := by
            unfold nstep at hn
            split at hn
            · assumption
            · cases st <;> simp only at hn <;> (repeat' split at hn) <;> cases hn
          subst this; exact Or.inr (Or.inl (by simp))
        · exact Or.inr (Or.inl (List.mem_cons_of_mem _ h))
        · exact Or.inr (Or.inr h)
    · rcases List.mem_append.mp hc with h | h
      · exact Or.inr (Or.inr h)
      · rcases ih _ _ c h with h | h | h
        · simp at h
        · exact Or.inr (Or.inl (List.mem_cons_of_mem _ h))
        · exact Or.inr (Or.inr h)
    · rcases ih _ _ c hc with h | h | h
      · simp at h
      · exact Or.inr (Or.inl (List.mem_cons_of_mem _ h))
      · exact Or.inr (Or.inr h)

theorem mem_joinNL (ls : List Str) (c : Char) (h : c ∈ joinNL ls) : c = '\n' ∨ ∃ l ∈ ls, c ∈ l := by
  induction ls with
  | nil => simp [joinNL] at h
  | cons l t ih =>
    cases t with
    | nil => exact Or.inr ⟨l, by simp, by simpa [joinNL] using h⟩
    | cons l2 t2 =>
      rw [joinNL_cons_cons] at h
      rcases List.mem_append.mp h with h | h
      · exact Or.inr ⟨l, by simp, h⟩
      · rcases List.mem_cons.mp h with rfl | h
        · exact Or.inl rfl
        · rcases ih h with h | ⟨x, hx, hc⟩
          · exact Or.inl h
          · exact Or.inr ⟨x, List.mem_cons_of_mem _ hx, hc⟩

theorem trimEnds_sublist (s : Str) : ∀ c ∈ (trimEnds O) s, c ∈ s := by
  intro c hc
  unfold trimEnds at hc
  simp only at hc
  have h1 := (List.dropWhile_sublist (isSpaceRe O)
    (l := (keepAfterLastNL (s.takeWhile (isSpaceRe O)) ++ s.dropWhile (isSpaceRe O)).reverse)).subset (List.mem_reverse.mp hc)
  rcases List.mem_append.mp (List.mem_reverse.mp h1) with h | h
  · have : c ∈ s.takeWhile (isSpaceRe O) := by
      unfold keepAfterLastNL at h
      split at h
      · exact List.mem_reverse.mp ((List.takeWhile_sublist _).subset (List.mem_reverse.mp h))
      · exact h
    exact (List.takeWhile_sublist _).subset this
  · exact (List.dropWhile_sublist _).subset h

/-- **Every text**: the stored source has as many lines as the text the hints were numbered on. -/
theorem lineCount_stored (T c : Str) (hsp : ∀ l ∈ splitNL T, SpacedLine O l) (hc : (centrifugate O) T = .ok c) :
    lineCount ((removeHints O) c) = lineCount c := by
  rcases centrifugate_structure _ c hsp hc with rfl | ⟨ls, hne, rfl, hgood, hfirst, hlast, _⟩
  · rfl
  · exact lineCount_removeHints ls hne hgood hfirst hlast

end Paroxy.Hints
