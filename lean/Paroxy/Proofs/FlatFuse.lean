/-
C15 helper lemmas, part 8: the six staged tweaks equal the one-shot specification `tweak`.
-/
import Paroxy.Proofs.FlatNeg
namespace Paroxy.Flat

/-! ## Name path vs path text (for `posonlyargs`) -/

theorem encNames_ne_nil_of_ne {ns : List Str} (h : ns ≠ []) : encNames ns ≠ [] := by
  cases ns with
  | nil => exact absurd rfl h
  | cons n ns => simp [encNames]

theorem encNames_reverse_cons (a : Str) (rn : List Str) :
    encNames (a :: rn).reverse = encNames rn.reverse ++ '/' :: a := by
  simp [encNames_append, encNames]

/-- The text condition of the pass and the name-path condition of `tweak` agree. -/
theorem posonlyPre_eq_posPat (rn : List Str) (hrn : ∀ n ∈ rn, '/' ∉ n) :
    posonlyPre (encNames rn.reverse) = posPat rn := by
  have key : posonlyPre (encNames rn.reverse) = true ↔ posPat rn = true := by
    rw [posonlyPre_iff]
    match rn, hrn with
    | [], _ =>
      simp only [List.reverse_nil, encNames, posPat]
      constructor
      · rintro ⟨a, _, h⟩; have := congrArg List.length h; simp [posonlyKey] at this
      · intro h; cases h
    | [a], hrn =>
      have ha : '/' ∉ a := hrn a (by simp)
      simp only [posPat]
      constructor
      · rintro ⟨X, _, h⟩
        have h' : ([] : Str) ++ '/' :: a = (X ++ cs!"/args") ++ '/' :: cs!"posonlyargs" := by
          simpa [encNames, posonlyKey] using h
        have := (split_last_unique ha (by decide) h').1
        have hl := congrArg List.length this
        simp at hl
      · intro h; cases h
    | a :: b :: rest, hrn =>
      have ha : '/' ∉ a := hrn a (by simp)
      have hb : '/' ∉ b := hrn b (by simp)
      have hp : encNames (a :: b :: rest).reverse = (encNames rest.reverse ++ '/' :: b) ++ '/' :: a := by
        rw [encNames_reverse_cons, encNames_reverse_cons]
      rw [hp]
      constructor
      · rintro ⟨X, hX, h⟩
        have h' : (encNames rest.reverse ++ '/' :: b) ++ '/' :: a = (X ++ cs!"/args") ++ '/' :: cs!"posonlyargs" := by
          rw [h]; simp [posonlyKey]
        obtain ⟨h1, h2⟩ := split_last_unique ha (by decide) h'
        have h1' : encNames rest.reverse ++ '/' :: b = X ++ '/' :: cs!"args" := by rw [h1]
        obtain ⟨h3, h4⟩ := split_last_unique hb (by decide) h1'
        cases rest with
        | nil => simp [encNames] at h3; exact absurd h3 hX
        | cons c rest' => simp [posPat, h2, h4]
      · intro h
        cases rest with
        | nil => simp [posPat] at h
        | cons c rest' =>
          simp only [posPat, Bool.and_eq_true, beq_iff_eq] at h
          obtain ⟨rfl, rfl⟩ := h
          exact ⟨encNames (c :: rest').reverse, encNames_ne_nil_of_ne (by simp), by simp [posonlyKey]⟩
  cases h1 : posonlyPre (encNames rn.reverse) <;> cases h2 : posPat rn <;> simp_all

/-! ## The two halves of the pipeline, on each constructor -/

/-- The first three tweaks (`kind` fields, alias positions, `posonlyargs` lengths). -/
def S3 (b : Bool) (pre : Str) (v : Val) : Val := quietPosonly pre (dropAliasPos b (dropKinds b v))
def S3F (b : Bool) (pre : Str) (fs : List (Str × Val)) : List (Str × Val) :=
  quietPosonlyFields pre (dropAliasPosFields (dropKindsFields b fs))
def S3I (pre : Str) (i : Nat) (xs : List Val) : List Val :=
  quietPosonlyItems pre i (dropAliasPosItems (dropKindsItems xs))
/-- The last three tweaks (constants, negative literals, quotes). -/
def T3 (v : Val) : Val := unquoteTree (foldNeg (backportTree v))
def T3F (fs : List (Str × Val)) : List (Str × Val) := unquoteTreeFields (foldNegFields (backportFields fs))
def T3I (xs : List Val) : List Val := unquoteTreeItems (foldNegItems (backportItems xs))

/-- The six staged tweaks of a value hanging under the reversed name path `rn`. -/
def S (rn : List Str) (v : Val) : Val := T3 (S3 (!rn.isEmpty) (encNames rn.reverse) v)

theorem stage6_eq_S (t : Val) : stage6 t = S [] t := rfl

theorem S3_node (b : Bool) (pre ty : Str) (e : Bool) (r : Str) (ln : Option Nat) (fs : List (Str × Val)) :
    S3 b pre (.node ty e r ln fs) =
      .node ty e r (if b && ty == cs!"alias" && !e then none else ln) (S3F b pre fs) := by
  simp [S3, S3F, dropKinds, dropAliasPos, quietPosonly]

theorem S3_list (b : Bool) (pre : Str) (q : Bool) (xs : List Val) :
    S3 b pre (.list q xs) = .list (q || posonlyPre pre) (S3I pre 1 xs) := by
  simp [S3, S3I, dropKinds, dropAliasPos, quietPosonly]

theorem S3_scalar (b : Bool) (pre r : Str) (k : Kind) : S3 b pre (.scalar r k) = .scalar r k := by
  simp [S3, dropKinds, dropAliasPos, quietPosonly]

theorem S3F_nil (b : Bool) (pre : Str) : S3F b pre [] = [] := by
  simp [S3F, dropKindsFields, dropAliasPosFields, quietPosonlyFields]

theorem S3F_cons_scalar (b : Bool) (pre n r : Str) (k : Kind) (rest : List (Str × Val)) :
    S3F b pre ((n, .scalar r k) :: rest) =
      if b && n == cs!"kind" then S3F b pre rest else (n, .scalar r k) :: S3F b pre rest := by
  by_cases h : (b && n == cs!"kind") = true
  · simp [S3F, dropKindsFields, h]
  · simp [S3F, dropKindsFields, h, dropAliasPosFields, dropAliasPos, quietPosonlyFields, quietPosonly]

theorem S3F_cons_node (b : Bool) (pre n ty : Str) (e : Bool) (r : Str) (ln : Option Nat) (fs rest) :
    S3F b pre ((n, .node ty e r ln fs) :: rest) =
      (n, S3 true (subPre pre n) (.node ty e r ln fs)) :: S3F b pre rest := by
  simp [S3F, S3, dropKindsFields, dropAliasPosFields, quietPosonlyFields]

theorem S3F_cons_list (b : Bool) (pre n : Str) (q : Bool) (xs : List Val) (rest) :
    S3F b pre ((n, .list q xs) :: rest) =
      (n, S3 true (subPre pre n) (.list q xs)) :: S3F b pre rest := by
  simp [S3F, S3, dropKindsFields, dropAliasPosFields, quietPosonlyFields]

theorem S3I_nil (pre : Str) (i : Nat) : S3I pre i [] = [] := by
  simp [S3I, dropKindsItems, dropAliasPosItems, quietPosonlyItems]

theorem S3I_cons (pre : Str) (i : Nat) (v : Val) (rest : List Val) :
    S3I pre i (v :: rest) = S3 true (subPre pre (dec i)) v :: S3I pre (i + 1) rest := by
  simp [S3I, S3, dropKindsItems, dropAliasPosItems, quietPosonlyItems]

theorem T3_scalar (r : Str) (k : Kind) : T3 (.scalar r k) = .scalar (unquoteScalar r k) k := by
  simp [T3, backportTree, foldNeg, unquoteTree]

theorem T3_list (q : Bool) (xs : List Val) : T3 (.list q xs) = .list q (T3I xs) := by
  simp [T3, T3I, backportTree, foldNeg, unquoteTree]

/-- A node that is neither a constant nor a negative literal (after back-porting) goes through the last
three tweaks field by field. -/
theorem T3_node_generic (ty : Str) (e : Bool) (r : Str) (ln : Option Nat) (fs : List (Str × Val))
    (h1 : constShape ty fs = none) (h2 : negShape ty (backportFields fs) = none) :
    T3 (.node ty e r ln fs) = .node ty e r ln (T3F fs) := by
  simp [T3, T3F, backportTree, h1, foldNeg, h2, unquoteTree]

theorem T3F_nil : T3F [] = [] := by simp [T3F, backportFields, foldNegFields, unquoteTreeFields]

theorem T3F_cons (n : Str) (v : Val) (rest : List (Str × Val)) : T3F ((n, v) :: rest) = (n, T3 v) :: T3F rest := by
  simp [T3F, T3, backportFields, foldNegFields, unquoteTreeFields]

theorem T3I_nil : T3I [] = [] := by simp [T3I, backportItems, foldNegItems, unquoteTreeItems]

theorem T3I_cons (v : Val) (rest : List Val) : T3I (v :: rest) = T3 v :: T3I rest := by
  simp [T3I, T3, backportItems, foldNegItems, unquoteTreeItems]

theorem S_child (rn : List Str) (n : Str) (v : Val) :
    T3 (S3 true (subPre (encNames rn.reverse) n) v) = S (n :: rn) v := by
  unfold S
  rw [encNames_reverse_cons]
  simp [subPre]

theorem reprKindAgrees_iff {rv : Str} {k : Kind} (h : reprKindAgrees rv k = true) :
    constantKindOfRepr rv = (kindTypeName k, kindFieldName k) := by
  simp only [reprKindAgrees, Bool.and_eq_true, beq_iff_eq] at h
  exact Prod.ext h.1 h.2

/-! ## Constants -/

theorem fuse_const (rn : List Str) (e : Bool) (r : Str) (ln : Option Nat) (fs : List (Str × Val))
    (h : constOkT fs = true) :
    S rn (.node cs!"Constant" e r ln fs) = tweak rn (.node cs!"Constant" e r ln fs) := by
  match fs, h with
  | [(n1, .scalar rv k)], h =>
    simp only [constOkT, Bool.and_eq_true, beq_iff_eq] at h
    obtain ⟨rfl, hag⟩ := h
    have hk := reprKindAgrees_iff hag
    cases k <;>
      simp_all [S, S3_node, S3F_cons_scalar, S3F_nil, T3, backportTree, constShape, foldNeg, negShape, foldNegFields,
        unquoteTree, unquoteTreeFields, tweak, negLiteral?, constKind?, findField, tweakFields, kindTypeName,
        kindFieldName]
  | [(n1, .scalar rv k), (n2, .scalar rk kk)], h =>
    simp only [constOkT, Bool.and_eq_true, beq_iff_eq] at h
    obtain ⟨⟨rfl, rfl⟩, hag⟩ := h
    have hk := reprKindAgrees_iff hag
    cases rn with
    | nil =>
      cases k <;>
        simp_all [S, S3_node, S3F_cons_scalar, S3F_nil, T3, backportTree, constShape, foldNeg, negShape, foldNegFields,
          unquoteTree, unquoteTreeFields, tweak, negLiteral?, constKind?, findField, tweakFields, kindTypeName,
          kindFieldName]
    | cons a rn' =>
      cases k <;>
        simp_all [S, S3_node, S3F_cons_scalar, S3F_nil, T3, backportTree, constShape, foldNeg, negShape, foldNegFields,
          unquoteTree, unquoteTreeFields, tweak, negLiteral?, constKind?, findField, tweakFields, kindTypeName,
          kindFieldName]

/-! ## Field names through the first four tweaks -/

theorem names_backportFields : ∀ fs : List (Str × Val), (backportFields fs).map (·.1) = fs.map (·.1)
  | [] => rfl
  | (n, v) :: rest => by simp [backportFields, names_backportFields rest]

theorem names_S3F_subset (b : Bool) (pre : Str) : ∀ (fs : List (Str × Val)) (x : Str),
    x ∈ (S3F b pre fs).map (·.1) → x ∈ fs.map (·.1)
  | [], x, h => by simp [S3F_nil] at h
  | (n, .scalar r k) :: rest, x, h => by
    rw [S3F_cons_scalar] at h
    split at h
    · exact List.mem_cons_of_mem _ (names_S3F_subset b pre rest x h)
    · simp only [List.map_cons, List.mem_cons] at h ⊢
      rcases h with h | h
      · exact Or.inl h
      · exact Or.inr (names_S3F_subset b pre rest x h)
  | (n, .node ty e r ln fs') :: rest, x, h => by
    rw [S3F_cons_node] at h
    simp only [List.map_cons, List.mem_cons] at h ⊢
    rcases h with h | h
    · exact Or.inl h
    · exact Or.inr (names_S3F_subset b pre rest x h)
  | (n, .list q xs) :: rest, x, h => by
    rw [S3F_cons_list] at h
    simp only [List.map_cons, List.mem_cons] at h ⊢
    rcases h with h | h
    · exact Or.inl h
    · exact Or.inr (names_S3F_subset b pre rest x h)

/-! ## Bare operator nodes -/

theorem S_bare (rn : List Str) (t1 r1 : Str) :
    T3 (S3 true (encNames rn.reverse) (.node t1 false r1 none [])) = .node t1 false r1 none [] := by
  simp [S3_node, S3F_nil, T3, backportTree, constShape, backportFields, foldNeg, negShape, foldNegFields, unquoteTree,
    unquoteTreeFields]

theorem tweak_bare (rn : List Str) (t1 r1 : Str) :
    tweak rn (.node t1 false r1 none []) = .node t1 false r1 none [] := by
  by_cases h : (t1 == cs!"Constant") = true
  · simp [tweak, negLiteral?, constKind?, h, findField, tweakFields]
  · simp [tweak, negLiteral?, constKind?, h, tweakFields]

/-! ## Unary operators -/

theorem unaryOkT_cases {fs : List (Str × Val)} (h : unaryOkT fs = true) :
    ∃ t1 r1 t2 e2 r2 ln2 fs2,
      fs = [(cs!"op", .node t1 false r1 none []), (cs!"operand", .node t2 e2 r2 ln2 fs2)] ∧
        ((t2 == cs!"Constant") = true ∨ cs!"n" ∉ fs2.map (·.1)) := by
  match fs, h with
  | [(n1, .node t1 e1 r1 ln1 fs1), (n2, .node t2 e2 r2 ln2 fs2)], h =>
    simp only [unaryOkT, Bool.and_eq_true, Bool.or_eq_true, Bool.not_eq_true', beq_iff_eq,
      List.isEmpty_iff, Option.isNone_iff_eq_none] at h
    obtain ⟨⟨⟨⟨⟨⟨hn1, hn2⟩, he1⟩, hl1⟩, hf1⟩, _⟩, hrest⟩ := h
    subst hn1 hn2 he1 hl1 hf1
    refine ⟨t1, r1, t2, e2, r2, ln2, fs2, rfl, ?_⟩
    rcases hrest with h | h
    · exact Or.inl (by simpa using h)
    · exact Or.inr (by simpa using h)

/-- The image of a well-shaped `Constant` after the first four tweaks, below the root. -/
theorem const_image (p : Str) (e2 : Bool) (r2 : Str) (ln2 : Option Nat) (fs2 : List (Str × Val))
    (h : constOkT fs2 = true) :
    ∃ rv k, constKind? (.node cs!"Constant" e2 r2 ln2 fs2) = some (rv, k) ∧
      backportTree (S3 true p (.node cs!"Constant" e2 r2 ln2 fs2)) =
        .node (kindTypeName k) e2 r2 ln2 (match kindFieldName k with
          | some f => [(f, .scalar rv k)]
          | none => []) := by
  match fs2, h with
  | [(n1, .scalar rv k)], h =>
    simp only [constOkT, Bool.and_eq_true, beq_iff_eq] at h
    obtain ⟨rfl, hag⟩ := h
    have hk := reprKindAgrees_iff hag
    refine ⟨rv, k, by simp [constKind?, findField], ?_⟩
    simp [S3_node, S3F_cons_scalar, S3F_nil, backportTree, constShape, hk]
    cases kindFieldName k <;> rfl
  | [(n1, .scalar rv k), (n2, .scalar rk kk)], h =>
    simp only [constOkT, Bool.and_eq_true, beq_iff_eq] at h
    obtain ⟨⟨rfl, rfl⟩, hag⟩ := h
    have hk := reprKindAgrees_iff hag
    refine ⟨rv, k, by simp [constKind?, findField], ?_⟩
    simp [S3_node, S3F_cons_scalar, S3F_nil, backportTree, constShape, hk]
    cases kindFieldName k <;> rfl

/-! ## The fused induction -/

theorem negShape_unary_pair (v1 v2 : Val) :
    negShape cs!"UnaryOp" [(cs!"op", v1), (cs!"operand", v2)] = if isUSubNode v1 then onlyN v2 else none := by
  simp [negShape]

theorem nameOk_slash {n : Str} (h : nameOk n = true) : '/' ∉ n := (nameOk_iff.mp h).2

mutual
theorem fuse_tree : ∀ (v : Val) (rn : List Str), (∀ n ∈ rn, '/' ∉ n) → wfTweak v = true → S rn v = tweak rn v
  | .node ty e r ln fs, rn, hrn, hwf => by
    simp only [wfTweak, Bool.and_eq_true] at hwf
    obtain ⟨⟨hnames, hshape⟩, hfs⟩ := hwf
    have ihF := fuse_fields fs rn hrn hnames hfs
    have generic : constShape ty (S3F (!rn.isEmpty) (encNames rn.reverse) fs) = none →
        negShape ty (backportFields (S3F (!rn.isEmpty) (encNames rn.reverse) fs)) = none →
        negLiteral? ty fs = none → (ty == cs!"Constant") = false →
        S rn (.node ty e r ln fs) = tweak rn (.node ty e r ln fs) := by
      intro h1 h2 h3 h4
      have hck : constKind? (.node ty e r ln fs) = none := by simp [constKind?, h4]
      unfold S
      rw [S3_node, T3_node_generic _ _ _ _ _ h1 h2, ihF]
      simp only [tweak, h3, hck, h4]
      cases rn.isEmpty <;> cases (ty == cs!"alias") <;> cases e <;> simp
    by_cases hC : (ty == cs!"Constant") = true
    · have := beq_iff_eq.mp hC
      subst this
      simp only [beq_self_eq_true, if_true] at hshape
      exact fuse_const rn e r ln fs hshape
    · have hC' : (ty == cs!"Constant") = false := by simpa using hC
      by_cases hU : (ty == cs!"UnaryOp") = true
      · have := beq_iff_eq.mp hU
        subst this
        simp only [hC', Bool.false_eq_true, if_false, beq_self_eq_true, if_true] at hshape
        obtain ⟨t1, r1, t2, e2, r2, ln2, fs2, rfl, hop⟩ := unaryOkT_cases hshape
        have hF3 : S3F (!rn.isEmpty) (encNames rn.reverse)
            [(cs!"op", Val.node t1 false r1 none []), (cs!"operand", Val.node t2 e2 r2 ln2 fs2)] =
            [(cs!"op", Val.node t1 false r1 none []),
             (cs!"operand", S3 true (subPre (encNames rn.reverse) cs!"operand") (Val.node t2 e2 r2 ln2 fs2))] := by
          rw [S3F_cons_node, S3F_cons_node, S3F_nil]
          simp [S3_node, S3F_nil]
        have hB : backportFields [(cs!"op", Val.node t1 false r1 none []),
             (cs!"operand", S3 true (subPre (encNames rn.reverse) cs!"operand") (Val.node t2 e2 r2 ln2 fs2))] =
            [(cs!"op", Val.node t1 false r1 none []),
             (cs!"operand", backportTree (S3 true (subPre (encNames rn.reverse) cs!"operand") (Val.node t2 e2 r2 ln2 fs2)))] := by
          simp [backportFields, backportTree, constShape]
        have h1 : constShape cs!"UnaryOp" (S3F (!rn.isEmpty) (encNames rn.reverse)
            [(cs!"op", Val.node t1 false r1 none []), (cs!"operand", Val.node t2 e2 r2 ln2 fs2)]) = none := by
          simp [constShape]
        by_cases ht1 : (t1 == cs!"USub") = true
        · -- a minus sign
          have hO : wfTweak (Val.node t2 e2 r2 ln2 fs2) = true := by
            simp only [wfTweakFields, Bool.and_eq_true] at hfs; exact hfs.2.1
          by_cases ht2 : (t2 == cs!"Constant") = true
          · have := beq_iff_eq.mp ht2
            subst this
            have hc2 : constOkT fs2 = true := by
              simp only [wfTweak, Bool.and_eq_true, beq_self_eq_true, if_true] at hO; exact hO.1.2
            obtain ⟨rv, k, hck, himg⟩ := const_image (subPre (encNames rn.reverse) cs!"operand") e2 r2 ln2 fs2 hc2
            by_cases hk : k = Kind.num
            · -- folded on both sides
              subst hk
              have hneg : negLiteral? cs!"UnaryOp" [(cs!"op", Val.node t1 false r1 none []),
                  (cs!"operand", Val.node cs!"Constant" e2 r2 ln2 fs2)] = some rv := by
                simp [negLiteral?, ht1, hck]
              unfold S
              rw [S3_node, hF3]
              have hcs : ∀ F, constShape cs!"UnaryOp" F = none := by intro F; simp [constShape]
              simp only [T3, backportTree, hcs, hB, himg]
              simp [foldNeg, negShape_unary_pair, isUSubNode, ht1, onlyN, kindFieldName, unquoteTree,
                unquoteTreeFields, unquoteScalar, tweak, hneg]
            · -- another constant: nothing is folded
              have h2 : negShape cs!"UnaryOp" (backportFields (S3F (!rn.isEmpty) (encNames rn.reverse)
                  [(cs!"op", Val.node t1 false r1 none []), (cs!"operand", Val.node cs!"Constant" e2 r2 ln2 fs2)])) = none := by
                rw [hF3, hB, himg, negShape_unary_pair]
                cases k <;> simp_all [onlyN, kindFieldName, isUSubNode]
              have h3 : negLiteral? cs!"UnaryOp" [(cs!"op", Val.node t1 false r1 none []),
                  (cs!"operand", Val.node cs!"Constant" e2 r2 ln2 fs2)] = none := by
                simp only [negLiteral?, beq_self_eq_true, if_true, ht1, Bool.and_self, hck]
                cases k <;> simp_all
              exact generic h1 h2 h3 hC'
          · -- the operand is not a constant: it has no field `n`
            have ht2' : (t2 == cs!"Constant") = false := by simpa using ht2
            have hnon : cs!"n" ∉ fs2.map (·.1) := by
              rcases hop with h | h
              · rw [h] at ht2'; cases ht2'
              · exact h
            have h2 : negShape cs!"UnaryOp" (backportFields (S3F (!rn.isEmpty) (encNames rn.reverse)
                [(cs!"op", Val.node t1 false r1 none []), (cs!"operand", Val.node t2 e2 r2 ln2 fs2)])) = none := by
              rw [hF3, hB, negShape_unary_pair, S3_node]
              have hcs : constShape t2 (S3F true (subPre (encNames rn.reverse) cs!"operand") fs2) = none := by
                simp [constShape, ht2']
              simp only [backportTree, hcs]
              rw [onlyN_none]
              · simp
              · intro hm
                rw [names_backportFields] at hm
                exact hnon (names_S3F_subset _ _ fs2 _ hm)
            have h3 : negLiteral? cs!"UnaryOp" [(cs!"op", Val.node t1 false r1 none []),
                (cs!"operand", Val.node t2 e2 r2 ln2 fs2)] = none := by
              simp [negLiteral?, constKind?, ht2']
            exact generic h1 h2 h3 hC'
        · -- another operator
          have ht1' : (t1 == cs!"USub") = false := by simpa using ht1
          have h2 : negShape cs!"UnaryOp" (backportFields (S3F (!rn.isEmpty) (encNames rn.reverse)
              [(cs!"op", Val.node t1 false r1 none []), (cs!"operand", Val.node t2 e2 r2 ln2 fs2)])) = none := by
            rw [hF3, hB, negShape_unary_pair]
            simp [isUSubNode, ht1']
          have h3 : negLiteral? cs!"UnaryOp" [(cs!"op", Val.node t1 false r1 none []),
              (cs!"operand", Val.node t2 e2 r2 ln2 fs2)] = none := by
            simp [negLiteral?, ht1']
          exact generic h1 h2 h3 hC'
      · have hU' : (ty == cs!"UnaryOp") = false := by simpa using hU
        exact generic (by simp [constShape, hC']) (by simp [negShape, hU']) (by simp [negLiteral?, hU']) hC'
  | .list q xs, rn, hrn, hwf => by
    simp only [wfTweak] at hwf
    have ih := fuse_items xs rn 1 hrn hwf
    unfold S
    rw [S3_list, T3_list, ih, posonlyPre_eq_posPat rn hrn]
    simp only [tweak, posPat]
    rcases rn with _ | ⟨a, _ | ⟨b, _ | ⟨c, rest⟩⟩⟩ <;> rfl
  | .scalar r k, rn, _, _ => by
    unfold S
    rw [S3_scalar, T3_scalar]
    simp [tweak]
theorem fuse_fields : ∀ (fs : List (Str × Val)) (rn : List Str), (∀ n ∈ rn, '/' ∉ n) →
    (fs.map (·.1)).all nameOk = true → wfTweakFields fs = true →
    T3F (S3F (!rn.isEmpty) (encNames rn.reverse) fs) = tweakFields rn false fs
  | [], rn, _, _, _ => by simp [S3F_nil, T3F_nil, tweakFields]
  | (n, .scalar r k) :: rest, rn, hrn, hnames, hwf => by
    simp only [List.map_cons, List.all_cons, Bool.and_eq_true] at hnames
    simp only [wfTweakFields, Bool.and_eq_true] at hwf
    have ih := fuse_fields rest rn hrn hnames.2 hwf.2
    rw [S3F_cons_scalar]
    by_cases hk : ((!rn.isEmpty) && n == cs!"kind") = true
    · rw [if_pos hk, ih]
      have : (n == cs!"kind" && !rn.isEmpty) = true := by rw [Bool.and_comm]; exact hk
      simp [tweakFields, this]
    · rw [if_neg hk, T3F_cons, T3_scalar, ih]
      have : (n == cs!"kind" && !rn.isEmpty) = false := by rw [Bool.and_comm]; simpa using hk
      simp [tweakFields, this]
  | (n, .node ty e r ln fs') :: rest, rn, hrn, hnames, hwf => by
    simp only [List.map_cons, List.all_cons, Bool.and_eq_true] at hnames
    simp only [wfTweakFields, Bool.and_eq_true] at hwf
    have ih := fuse_fields rest rn hrn hnames.2 hwf.2
    have ihv := fuse_tree (.node ty e r ln fs') (n :: rn)
      (fun x hx => by rcases List.mem_cons.mp hx with rfl | hx; exact nameOk_slash hnames.1; exact hrn x hx) hwf.1
    rw [S3F_cons_node, T3F_cons, S_child, ihv, ih]
    simp [tweakFields]
  | (n, .list q xs) :: rest, rn, hrn, hnames, hwf => by
    simp only [List.map_cons, List.all_cons, Bool.and_eq_true] at hnames
    simp only [wfTweakFields, Bool.and_eq_true] at hwf
    have ih := fuse_fields rest rn hrn hnames.2 hwf.2
    have ihv := fuse_tree (.list q xs) (n :: rn)
      (fun x hx => by rcases List.mem_cons.mp hx with rfl | hx; exact nameOk_slash hnames.1; exact hrn x hx) hwf.1
    rw [S3F_cons_list, T3F_cons, S_child, ihv, ih]
    simp [tweakFields]
theorem fuse_items : ∀ (xs : List Val) (rn : List Str) (i : Nat), (∀ n ∈ rn, '/' ∉ n) →
    wfTweakItems xs = true → T3I (S3I (encNames rn.reverse) i xs) = tweakItems rn i xs
  | [], rn, i, _, _ => by simp [S3I_nil, T3I_nil, tweakItems]
  | v :: rest, rn, i, hrn, hwf => by
    simp only [wfTweakItems, Bool.and_eq_true] at hwf
    have ih := fuse_items rest rn (i + 1) hrn hwf.2
    have ihv := fuse_tree v (dec i :: rn)
      (fun x hx => by rcases List.mem_cons.mp hx with rfl | hx; exact slash_not_mem_dec i; exact hrn x hx) hwf.1
    rw [S3I_cons, T3I_cons, S_child, ihv, ih]
    simp [tweakItems]
end

/-- **The six staged tweaks are the one-shot specification.** -/
theorem stage6_eq_tweak (t : Val) (h : wfTweak t = true) : stage6 t = tweak [] t := by
  rw [stage6_eq_S]; exact fuse_tree t [] (by simp) h

end Paroxy.Flat
