/-
C02 helper lemmas: every position captured by a `node` match of a positioned type is the position text
of a positioned node of the tree (no hypothesis on line numbers).
-/
import Paroxy.Proofs.NodeSpanTree
namespace Paroxy.Flat

/-- Every captured POS is the position text of a positioned entry. -/
def CapturesIn (es : List Entry) (m : Str × List Str) : Prop :=
  ∀ p ∈ m.2, ∃ ty n a, (ty, n) ∈ positionedOfEntries es ∧ p = posText n a

theorem mem_positionedOfEntries_cons {x : Str × Nat} (e : Entry) {es : List Entry}
    (h : x ∈ positionedOfEntries es) : x ∈ positionedOfEntries (e :: es) := by
  obtain ⟨addr, names, item⟩ := e
  cases item with
  | node ty isE r ln => cases ln <;> simp [positionedOfEntries, h]
  | list q k => simpa [positionedOfEntries] using h
  | scalar r => simpa [positionedOfEntries] using h

theorem capturesIn_cons (e : Entry) {es : List Entry} {m : Str × List Str} (h : CapturesIn es m) :
    CapturesIn (e :: es) m := by
  intro p hp
  obtain ⟨ty, n, a, hm, he⟩ := h p hp
  exact ⟨ty, n, a, mem_positionedOfEntries_cons e hm, he⟩

theorem nodeMatches_entries_captures (h : Str → Str) (hh : HashNoEq h) (hn : HashNoNewline h) (P : Str → Bool) :
    ∀ (es : List Entry), (∀ e ∈ es, e.ok2 = true) → (∀ e ∈ es, e.typed P = true) →
    ∀ m ∈ nodeMatches (es.flatMap (Entry.lines h)), P m.1 = true → CapturesIn es m
  | [], _, _, m, hm, _ => by simp [nodeMatches] at hm
  | e :: es, hok, hty, m, hm, hP => by
    have ih0 := nodeMatches_entries_captures h hh hn P es (fun x hx => hok x (List.mem_cons_of_mem _ hx))
      (fun x hx => hty x (List.mem_cons_of_mem _ hx))
    have ih : ∀ m, m ∈ nodeMatches (es.flatMap (Entry.lines h)) → P m.1 = true → CapturesIn (e :: es) m :=
      fun m hm hP => capturesIn_cons e (ih0 m hm hP)
    have hok_e := hok e (by simp)
    have hok1 : e.ok = true := by
      simp only [Entry.ok2, Bool.and_eq_true] at hok_e; exact hok_e.1
    have hpre := Entry.ok_pre hok1
    have hty_e := hty e (by simp)
    rw [List.flatMap_cons] at hm
    -- lines without candidate are skipped
    have hskip : ∀ (tail R' : List Str), (∀ l ∈ tail, typeSplits l = []) →
        nodeMatches (tail ++ R') = nodeMatches R' := by
      intro tail R' ht
      induction tail with
      | nil => rfl
      | cons l tl ihh =>
        rw [List.cons_append, nodeMatches_cons_nosplit _ (ht l (by simp))]
        exact ihh (fun l' hl' => ht l' (List.mem_cons_of_mem _ hl'))
    obtain ⟨addr, names, item⟩ := e
    cases item with
    | node ty isE r ln =>
      have hok' : '=' ∉ ty ∧ ty ≠ [] := by
        unfold Entry.ok at hok1
        simp only [Bool.and_eq_true] at hok1
        exact ⟨by simpa using hok1.2.1, by simpa using hok1.2.2⟩
      have hhash : ∀ l ∈ (if isE then [hashLine (encNames names) (h r)] else []), typeSplits l = [] := by
        intro l hl
        cases isE with
        | false => simp at hl
        | true => simp at hl; rw [hl]; exact typeSplits_hashLine hpre (hh r)
      cases ln with
      | some n =>
        have hmA := nodeMatchAt_positioned' h (encNames names) ty r isE n addr (es.flatMap (Entry.lines h))
          hpre hok'.1 hok'.2
        have hrest : nodeMatches (((if isE then [hashLine (encNames names) (h r)] else []) ++
            [posLine (encNames names) n (encPath addr)]) ++ es.flatMap (Entry.lines h)) =
            nodeMatches (es.flatMap (Entry.lines h)) := by
          apply hskip
          intro l hl
          rcases List.mem_append.mp hl with hl | hl
          · exact hhash l hl
          · simp at hl; rw [hl]; exact typeSplits_posLine n addr hpre
        have hsplit : nodeMatches (Entry.lines h ⟨addr, names, .node ty isE r (some n)⟩ ++ es.flatMap (Entry.lines h)) =
            (ty, posText n addr :: (findLastPos (encNames names) (es.flatMap (Entry.lines h))).toList) ::
              nodeMatches (es.flatMap (Entry.lines h)) := by
          simp only [Entry.lines, List.cons_append]
          rw [nodeMatches]
          have hmA' : nodeMatchAt (typeLine (encNames names) ty ::
              (((if isE then [hashLine (encNames names) (h r)] else []) ++
                [posLine (encNames names) n (encPath addr)]) ++ es.flatMap (Entry.lines h))) = _ := hmA
          rw [hmA', hrest]; rfl
        rw [hsplit] at hm
        rcases List.mem_cons.mp hm with rfl | hm
        · -- the match of this very node
          have hown : (ty, n) ∈ positionedOfEntries (⟨addr, names, .node ty isE r (some n)⟩ :: es) := by
            simp [positionedOfEntries]
          cases hf : findLastPos (encNames names) (es.flatMap (Entry.lines h)) with
          | none =>
            intro p hp
            simp only [Option.toList, List.mem_cons, List.not_mem_nil, or_false] at hp
            exact ⟨ty, n, addr, hown, hp⟩
          | some p2 =>
            obtain ⟨l, L', hl, hp⟩ := findLastPos_some hf
            obtain ⟨e', he', hl'⟩ := List.mem_flatMap.mp hl
            obtain ⟨ty', n', h1, h2⟩ := lastPos_entry_line h hh hn e' (hok e' (List.mem_cons_of_mem _ he')) L' hpre hl' hp
            have hp2 : p2 = posText n' e'.addr := by
              rw [h1] at h2; simpa using h2
            have hmem : (ty', n') ∈ positionedOfEntries es := mem_positionedOfEntries (p := p2) he' h2
            intro p hpm
            simp only [Option.toList, List.mem_cons, List.not_mem_nil, or_false] at hpm
            rcases hpm with rfl | rfl
            · exact ⟨ty, n, addr, hown, rfl⟩
            · exact ⟨ty', n', e'.addr, mem_positionedOfEntries_cons _ hmem, hp2⟩
        · exact ih m hm hP
      | none =>
        have hPty : P ty = false := by simpa [Entry.typed] using hty_e
        have hrest : nodeMatches ((if isE then [hashLine (encNames names) (h r)] else []) ++ es.flatMap (Entry.lines h)) =
            nodeMatches (es.flatMap (Entry.lines h)) := hskip _ _ hhash
        simp only [Entry.lines, List.cons_append, List.append_nil] at hm
        rw [nodeMatches] at hm
        rcases nodeMatchAt_typeLine_suffix (encNames names) ty
            ((if isE then [hashLine (encNames names) (h r)] else []) ++ es.flatMap (Entry.lines h)) hpre hok'.1 hok'.2
          with hnone | ⟨ps, hs⟩
        · rw [hnone, hrest] at hm
          exact ih m (by simpa using hm) hP
        · rw [hs, hrest] at hm
          rcases List.mem_cons.mp (by simpa using hm) with rfl | hm'
          · rw [hPty] at hP; cases hP
          · exact ih m hm' hP
    | list q k =>
      cases q with
      | true => exact ih m (by simpa [Entry.lines] using hm) hP
      | false =>
        simp only [Entry.lines, Bool.false_eq_true, if_false, List.cons_append, List.nil_append] at hm
        rw [nodeMatches_cons_nosplit _ (typeSplits_lengthLine k hpre)] at hm
        exact ih m hm hP
    | scalar r =>
      have hok'' : ¬ tyKey <:+ encNames names ∧ hasInfix tyMark r = false := by
        unfold Entry.ok at hok1
        simp only [Bool.and_eq_true] at hok1
        obtain ⟨_, h2, h3⟩ := hok1
        refine ⟨?_, by simpa using h3⟩
        intro hs
        rw [← List.isSuffixOf_iff_suffix] at hs
        simp only [tyKey] at hs
        rw [hs] at h2
        cases h2
      simp only [Entry.lines, List.cons_append, List.nil_append] at hm
      rw [nodeMatches_cons_nosplit _ (typeSplits_scalarLine hpre hok''.1 hok''.2)] at hm
      exact ih m hm hP


end Paroxy.Flat
