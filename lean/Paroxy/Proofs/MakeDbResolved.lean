/-
Helper lemmas for C11/C14: every direct internal import names a collected path (`resolved_all`, by
construction since fix 0c1b93c), and the string reasoning on the relabelling
`import:M…` ↦ `import_internally:M'…` (M' = M with `/` for `.`) of fix 77a08ea (`relabel_target`: the
target a relabelled label names is the very path whose membership was tested).
-/
import Paroxy.Proofs.MakeDb
namespace Paroxy.DB

/-- "import_internally:" -/
def sInternalPrefix : Name := sImport ++ sInternally ++ [cColon]

theorem dropPrefix?_eq {p s r : Name} (h : dropPrefix? p s = some r) : s = p ++ r := by
  induction p generalizing s with
  | nil => simp only [dropPrefix?, Option.some.injEq] at h; simp [h]
  | cons a t ih =>
    cases s with
    | nil => simp [dropPrefix?] at h
    | cons c cs =>
      unfold dropPrefix? at h
      split at h
      · rename_i hac
        rw [hac, ih h]; rfl
      · cases h

abbrev rep (s : Name) : Name := replaceChar cDot cSlash s

theorem rep_append (a b : Name) : rep (a ++ b) = rep a ++ rep b := by simp [rep, replaceChar]

theorem rep_cons_colon (b : Name) : rep (cColon :: b) = cColon :: rep b := by
  simp [rep, replaceChar, cColon, cDot]

theorem rep_sInternally : rep sInternally = sInternally := by decide

theorem colon_mem_rep {s : Name} : cColon ∈ rep s ↔ cColon ∈ s := by
  induction s with
  | nil => simp [rep, replaceChar]
  | cons c cs ih =>
    have : rep (c :: cs) = (if c = cDot then cSlash else c) :: rep cs := by simp [rep, replaceChar]
    rw [this, List.mem_cons, List.mem_cons, ih]
    by_cases hc : c = cDot
    · simp [hc, cColon, cSlash, cDot]
    · simp [hc]

/-- The replacement never produces a character of a slash-free target out of another one. -/
theorem rep_eq_of_noSlash {s t : Name} (ht : cSlash ∉ t) (h : rep s = t) : s = t := by
  induction s generalizing t with
  | nil => simpa [rep, replaceChar] using h
  | cons c cs ih =>
    cases t with
    | nil => simp [rep, replaceChar] at h
    | cons d ds =>
      have hr : rep (c :: cs) = (if c = cDot then cSlash else c) :: rep cs := by
        simp [rep, replaceChar]
      rw [hr, List.cons.injEq] at h
      have hd : d ≠ cSlash := fun e => ht (e ▸ List.mem_cons_self)
      have hds : cSlash ∉ ds := fun hh => ht (List.mem_cons_of_mem _ hh)
      by_cases hc : c = cDot
      · rw [if_pos hc] at h; exact absurd h.1.symm hd
      · rw [if_neg hc] at h
        rw [h.1, ih hds h.2]

theorem takeNoColon_rep (s : Name) : takeNoColon (rep s) = rep (takeNoColon s) := by
  induction s with
  | nil => rfl
  | cons c cs ih =>
    have hr : rep (c :: cs) = (if c = cDot then cSlash else c) :: rep cs := by
      simp [rep, replaceChar]
    rw [hr]
    by_cases hcol : c = cColon
    · subst hcol
      simp [takeNoColon, cColon, cDot, rep, replaceChar]
    · by_cases hc : c = cDot
      · subst hc
        simp only [if_true, takeNoColon]
        have h1 : ¬ cSlash = cColon := by decide
        have h2 : ¬ cDot = cColon := by decide
        simp only [h1, h2, if_false, ih]
        simp [rep, replaceChar]
      · simp only [hc, if_false, takeNoColon, hcol, ih]
        simp [rep, replaceChar, hc]

/-- Either there is no colon and nothing changes, or the name splits at its first colon, before
which `_internally` is inserted. -/
theorem tweak_split (n : Name) :
    (cColon ∉ n ∧ tweakFirstColon n = n) ∨
    ∃ pre rest, cColon ∉ pre ∧ n = pre ++ cColon :: rest ∧
      tweakFirstColon n = pre ++ sInternally ++ cColon :: rest := by
  induction n with
  | nil => left; simp [tweakFirstColon]
  | cons c cs ih =>
    by_cases hc : c = cColon
    · right
      refine ⟨[], cs, by simp, by simp [hc], ?_⟩
      simp [tweakFirstColon, hc]
    · rcases ih with ⟨h1, h2⟩ | ⟨pre, rest, h1, h2, h3⟩
      · left
        refine ⟨?_, ?_⟩
        · intro h; rcases List.mem_cons.mp h with e | e
          · exact hc e.symm
          · exact h1 e
        · simp [tweakFirstColon, hc, h2]
      · right
        refine ⟨c :: pre, rest, ?_, by simp [h2], ?_⟩
        · intro h; rcases List.mem_cons.mp h with e | e
          · exact hc e.symm
          · exact h1 e
        · simp [tweakFirstColon, hc, h3]

theorem split_unique {c : Nat} {a a' b b' : Name} (ha : c ∉ a) (ha' : c ∉ a')
    (h : a ++ c :: b = a' ++ c :: b') : a = a' ∧ b = b' := by
  induction a generalizing a' with
  | nil =>
    cases a' with
    | nil => simpa using h
    | cons x xs =>
      simp only [List.nil_append, List.cons_append, List.cons.injEq] at h
      exact absurd (h.1 ▸ List.mem_cons_self) ha'
  | cons x xs ih =>
    cases a' with
    | nil =>
      simp only [List.nil_append, List.cons_append, List.cons.injEq] at h
      exact absurd (h.1 ▸ List.mem_cons_self) ha
    | cons y ys =>
      simp only [List.cons_append, List.cons.injEq] at h
      obtain ⟨e1, e2⟩ := ih (fun hh => ha (List.mem_cons_of_mem _ hh))
        (fun hh => ha' (List.mem_cons_of_mem _ hh)) h.2
      exact ⟨by rw [h.1, e1], e2⟩

theorem searchImport?_import (rest : Name) :
    searchImport? (sImport ++ cColon :: rest) = some (takeNoColon rest) := by
  simp [searchImport?, importAt?, dropPrefix?, sImport, sModule, cColon]

/-- **The relabelled target is a tested path.** If a label, after the relabelling loop, names the
importation target `q`, and was not an `import_internally:` label to begin with, then `q` is the very
string whose membership in `internal` was tested, and it is not the bare `".py"`. -/
theorem relabel_target {internal : List Name} {n q : Name}
    (hraw : dropPrefix? sInternalPrefix n = none)
    (h : internalTarget? (relabelName internal n) = some q) :
    q ∈ internal ∧ q ≠ sPy ∧ ∃ rest, n = sImport ++ cColon :: rest ∧ takeNoColon rest ≠ [] ∧
      q = rep (takeNoColon rest) ++ sPy := by
  have hnone : internalTarget? n = none := by
    unfold internalTarget?
    have : dropPrefix? (sImport ++ sInternally ++ [cColon]) n = none := hraw
    rw [this]
  unfold relabelName at h
  cases hs : searchImport? n with
  | none => rw [hs] at h; simp only at h; rw [hnone] at h; cases h
  | some g =>
    rw [hs] at h
    simp only at h
    by_cases hm : rep g ++ sPy ∈ internal
    · rw [if_pos hm] at h
      unfold internalTarget? at h
      cases hd : dropPrefix? (sImport ++ sInternally ++ [cColon]) (rep (tweakFirstColon n)) with
      | none => rw [hd] at h; cases h
      | some rest' =>
        rw [hd] at h
        simp only at h
        have hr := dropPrefix?_eq hd
        rcases tweak_split n with ⟨hnc, ht⟩ | ⟨pre, rest, hpre, hn, ht⟩
        · -- no colon in n, hence none in the relabelled name: impossible
          rw [ht] at hr
          have : cColon ∈ rep n := by rw [hr]; simp
          exact absurd (colon_mem_rep.mp this) hnc
        · rw [ht, rep_append, rep_append, rep_cons_colon, rep_sInternally] at hr
          have hsplit : (rep pre ++ sInternally) ++ cColon :: rep rest =
              (sImport ++ sInternally) ++ cColon :: rest' := by
            simpa [List.append_assoc] using hr
          have hc1 : cColon ∉ rep pre ++ sInternally := by
            intro hh
            rcases List.mem_append.mp hh with e | e
            · exact hpre (colon_mem_rep.mp e)
            · revert e; decide
          have hc2 : cColon ∉ sImport ++ sInternally := by decide
          obtain ⟨e1, e2⟩ := split_unique hc1 hc2 hsplit
          have hpre' : rep pre = sImport := List.append_cancel_right e1
          have hpre'' : pre = sImport := rep_eq_of_noSlash (by decide) hpre'
          rw [hpre''] at hn
          rw [hn, searchImport?_import] at hs
          simp only [Option.some.injEq] at hs
          rw [← e2, takeNoColon_rep, hs] at h
          cases hg : rep g with
          | nil => rw [hg] at h; cases h
          | cons x xs =>
            rw [hg] at h hm
            simp only [Option.some.injEq] at h
            rw [← h]
            refine ⟨hm, fun e => ?_, rest, hn, ?_, by rw [hs, hg]⟩
            · have := congrArg List.length e
              simp [sPy] at this
            · intro he
              rw [hs] at he
              rw [he] at hg
              simp [rep, replaceChar] at hg
    · rw [if_neg hm, hnone] at h; cases h

/-- **Every direct internal import is resolved** — by construction since fix 0c1b93c:
`compute_direct_importations` keeps a target only when it is a collected program. So
`compute_and_collect_exportations` can no longer raise `KeyError`, whatever the labels (hints included). -/
theorem resolved_all (progs : List Prog) : Resolved progs := by
  intro p q hpq
  unfold Imports Direct succs at hpq
  cases hg : get? (directD progs) p with
  | none => rw [hg] at hpq; cases hpq
  | some v =>
    rw [hg] at hpq
    simp only [Option.getD_some] at hpq
    have hmem := get?_mem hg
    simp only [directD, directImportations, List.mem_map, Prod.mk.injEq] at hmem
    obtain ⟨e, -, -, hv⟩ := hmem
    rw [← hv] at hpq
    simp only [directOf, List.mem_filterMap] at hpq
    obtain ⟨l, -, ht⟩ := hpq
    have hkeys : List.map (fun x => x.1) (labelled progs) = pathsOf progs := keys_labelled progs
    rw [hkeys] at ht
    split at ht
    · split at ht
      · rename_i hq
        simp only [Option.some.injEq] at ht
        rw [← ht]; exact hq
      · cases ht
    · cases ht

/-! ## The direct-importation relation, from the raw labels -/

/-- No raw label already has the `import_internally:` form (spec.md has no such feature; only a hint
comment can introduce one). -/
def NoRawInternal (progs : List Prog) : Prop :=
  ∀ p ∈ progs, ∀ l ∈ p.labels, dropPrefix? sInternalPrefix l.name = none

instance (progs : List Prog) : Decidable (NoRawInternal progs) := by
  unfold NoRawInternal; infer_instance

theorem dropPrefix?_append (p r : Name) : dropPrefix? p (p ++ r) = some r := by
  induction p with
  | nil => rfl
  | cons a t ih => simp [dropPrefix?, ih]

theorem tweak_import (rest : Name) :
    tweakFirstColon (sImport ++ cColon :: rest) = sImport ++ sInternally ++ cColon :: rest := by
  simp [tweakFirstColon, sImport, cColon]

theorem rep_sImport : rep sImport = sImport := by decide

theorem rep_eq_nil {s : Name} : rep s = [] ↔ s = [] := by
  simp [rep, replaceChar]

/-- An `import:M` / `import:M:name` label whose module, as a path, is internal is relabelled into a label
naming exactly that path. -/
theorem internalTarget_of_import {internal : List Name} {rest : Name}
    (hne : takeNoColon rest ≠ []) (hin : rep (takeNoColon rest) ++ sPy ∈ internal) :
    internalTarget? (relabelName internal (sImport ++ cColon :: rest)) =
      some (rep (takeNoColon rest) ++ sPy) := by
  unfold relabelName
  rw [searchImport?_import]
  simp only
  rw [if_pos hin, tweak_import]
  show internalTarget? (rep (sImport ++ sInternally ++ cColon :: rest)) = _
  rw [rep_append, rep_append, rep_cons_colon, rep_sInternally, rep_sImport]
  unfold internalTarget?
  have : sImport ++ sInternally ++ cColon :: rep rest = (sImport ++ sInternally ++ [cColon]) ++ rep rest := by
    simp
  rw [this, dropPrefix?_append]
  simp only
  rw [takeNoColon_rep]
  cases hg : rep (takeNoColon rest) with
  | nil => exact absurd (rep_eq_nil.mp hg) hne
  | cons x xs => rfl

end Paroxy.DB
