/-
C15 helper lemmas, part 3: the dump is the pre-order enumeration of the tree — every node, list and
scalar exactly once, under its root-to-node path.
-/
import Paroxy.Proofs.FlatPath
namespace Paroxy.Flat

/-! ## The dump, entry by entry -/

mutual
theorem dumpP_eq_entries (h : Str → Str) (names : List Str) (addr : List Nat) : ∀ v : Val,
    dumpP h (encNames names) (encPath addr) v = (entries names addr v).flatMap (Entry.lines h)
  | .node ty e r ln fs => by
    have ih := dumpPFields_eq_entries h names addr 0 fs
    cases ln <;> cases e <;> simp [dumpP, entries, Entry.lines, ih]
  | .list q xs => by
    have ih := dumpPItems_eq_entries h names addr 1 xs
    simp only [dumpP, entries, List.flatMap_cons, Entry.lines, ih]
  | .scalar r k => by
    simp [dumpP, entries, Entry.lines]
theorem dumpPFields_eq_entries (h : Str → Str) (names : List Str) (addr : List Nat) (i : Nat) :
    ∀ fs : List (Str × Val),
    dumpPFields h (encNames names) (encPath addr) i fs =
      (entriesFields names addr i fs).flatMap (Entry.lines h)
  | [] => by simp [dumpPFields, entriesFields]
  | (n, v) :: rest => by
    have h1 := dumpP_eq_entries h (names ++ [n]) (addr ++ [i]) v
    have h2 := dumpPFields_eq_entries h names addr (i + 1) rest
    simp only [dumpPFields, entriesFields, List.flatMap_append, subPre_encNames, subPath_encPath, h1, h2]
theorem dumpPItems_eq_entries (h : Str → Str) (names : List Str) (addr : List Nat) (i : Nat) :
    ∀ xs : List Val,
    dumpPItems h (encNames names) (encPath addr) i xs =
      (entriesItems names addr i xs).flatMap (Entry.lines h)
  | [] => by simp [dumpPItems, entriesItems]
  | v :: rest => by
    have h1 := dumpP_eq_entries h (names ++ [dec i]) (addr ++ [i]) v
    have h2 := dumpPItems_eq_entries h names addr (i + 1) rest
    simp only [dumpPItems, entriesItems, List.flatMap_append, subPre_encNames, subPath_encPath, h1, h2]
end

/-! ## `At` and the access functions -/

theorem at_iff (v : Val) (q : List Nat) (ns : List Str) (w : Val) :
    At v q ns w ↔ v.at? q = some w ∧ v.namesAt? q = some ns := by
  constructor
  · intro h
    induction h with
    | here v => exact ⟨rfl, rfl⟩
    | field hk _ ih =>
      simp only [Val.at?, Val.namesAt?, Val.child?, Val.childName?, hk, Option.map_some,
        Option.bind_some, ih.1, ih.2, and_self]
    | @item qt xs k c q ns w hk _ ih =>
      have hlen : k < xs.length := (List.getElem?_eq_some_iff.mp hk).1
      have h1 : ¬ (xs.length < k + 1) := by omega
      simp [Val.at?, Val.namesAt?, Val.child?, Val.childName?, hk, h1, ih.1, ih.2]
  · induction q generalizing v ns with
    | nil =>
      rintro ⟨h1, h2⟩
      simp only [Val.at?, Option.some.injEq] at h1
      simp only [Val.namesAt?, Option.some.injEq] at h2
      subst h1 h2
      exact At.here v
    | cons i q ih =>
      rintro ⟨h1, h2⟩
      cases v with
      | scalar r k => simp [Val.at?, Val.child?] at h1
      | node ty e r ln fs =>
        simp only [Val.at?, Val.child?] at h1
        simp only [Val.namesAt?, Val.child?, Val.childName?] at h2
        cases hf : fs[i]? with
        | none => simp [hf] at h1
        | some p =>
          obtain ⟨n, c⟩ := p
          simp only [hf, Option.map_some, Option.bind_some] at h1 h2
          cases hn : c.namesAt? q with
          | none => simp [hn] at h2
          | some ns' =>
            simp only [hn, Option.map_some, Option.some.injEq] at h2
            subst h2
            exact At.field hf (ih c ns' ⟨h1, hn⟩)
      | list qt xs =>
        simp only [Val.at?, Val.child?] at h1
        simp only [Val.namesAt?, Val.child?, Val.childName?] at h2
        cases i with
        | zero => simp at h1
        | succ k =>
          simp only [Nat.succ_ne_zero, if_false, Nat.add_sub_cancel] at h1 h2
          cases hx : xs[k]? with
          | none => simp [hx] at h1
          | some c =>
            have hlen : k < xs.length := (List.getElem?_eq_some_iff.mp hx).1
            have h3 : ¬ (xs.length < k + 1) := by omega
            simp only [hx, Option.bind_some, h3, false_or, if_false] at h1 h2
            cases hn : c.namesAt? q with
            | none => simp [hn] at h2
            | some ns' =>
              simp only [hn, Option.map_some, Option.some.injEq] at h2
              subst h2
              exact At.item hx (ih c ns' ⟨h1, hn⟩)

theorem namesAt?_isSome_of_at? : ∀ (q : List Nat) (v w : Val), v.at? q = some w → ∃ ns, v.namesAt? q = some ns
  | [], v, w, _ => ⟨[], rfl⟩
  | i :: q, v, w, h => by
    cases v with
    | scalar r k => simp [Val.at?, Val.child?] at h
    | node ty e r ln fs =>
      simp only [Val.at?, Val.child?] at h
      cases hf : fs[i]? with
      | none => simp [hf] at h
      | some p =>
        obtain ⟨n, c⟩ := p
        simp only [hf, Option.map_some, Option.bind_some] at h
        obtain ⟨ns, hns⟩ := namesAt?_isSome_of_at? q c w h
        exact ⟨n :: ns, by simp [Val.namesAt?, Val.child?, Val.childName?, hf, hns]⟩
    | list qt xs =>
      simp only [Val.at?, Val.child?] at h
      cases i with
      | zero => simp at h
      | succ k =>
        simp only [Nat.succ_ne_zero, if_false, Nat.add_sub_cancel] at h
        cases hx : xs[k]? with
        | none => simp [hx] at h
        | some c =>
          have hlen : k < xs.length := (List.getElem?_eq_some_iff.mp hx).1
          have h3 : ¬ (xs.length < k + 1) := by omega
          simp only [hx, Option.bind_some] at h
          obtain ⟨ns, hns⟩ := namesAt?_isSome_of_at? q c w h
          exact ⟨dec (k + 1) :: ns, by simp [Val.namesAt?, Val.child?, Val.childName?, hx, hns, h3]⟩

theorem at_exists {v w : Val} {q : List Nat} (h : v.at? q = some w) : ∃ ns, At v q ns w := by
  obtain ⟨ns, hns⟩ := namesAt?_isSome_of_at? q v w h
  exact ⟨ns, (at_iff v q ns w).mpr ⟨h, hns⟩⟩

/-! ## Membership in the enumeration -/

mutual
theorem mem_entries_iff (names : List Str) (addr : List Nat) (e : Entry) : ∀ v : Val,
    e ∈ entries names addr v ↔ ∃ q ns w, At v q ns w ∧ e = ⟨addr ++ q, names ++ ns, w.item⟩
  | .node ty ex r ln fs => by
    have ih := mem_entriesFields_iff names addr 0 e fs
    simp only [entries, List.mem_cons, ih]
    constructor
    · rintro (h | ⟨k, n, c, q, ns, w, hk, hat, he⟩)
      · exact ⟨[], [], _, At.here _, by simpa [Val.item] using h⟩
      · exact ⟨k :: q, n :: ns, w, At.field hk hat, by simpa using he⟩
    · rintro ⟨q, ns, w, hat, he⟩
      cases hat with
      | here => left; simpa [Val.item] using he
      | field hk hat' => right; exact ⟨_, _, _, _, _, _, hk, hat', by simpa using he⟩
  | .list qt xs => by
    have ih := mem_entriesItems_iff names addr 1 e xs
    simp only [entries, List.mem_cons, ih]
    constructor
    · rintro (h | ⟨k, c, q, ns, w, hk, hat, he⟩)
      · exact ⟨[], [], _, At.here _, by simpa [Val.item] using h⟩
      · exact ⟨(k + 1) :: q, dec (k + 1) :: ns, w, At.item hk hat, by
          simpa [Nat.add_comm] using he⟩
    · rintro ⟨q, ns, w, hat, he⟩
      cases hat with
      | here => left; simpa [Val.item] using he
      | item hk hat' => right; exact ⟨_, _, _, _, _, hk, hat', by simpa [Nat.add_comm] using he⟩
  | .scalar r k => by
    simp only [entries, List.mem_singleton]
    constructor
    · intro h; exact ⟨[], [], _, At.here _, by simpa [Val.item] using h⟩
    · rintro ⟨q, ns, w, hat, he⟩
      cases hat with
      | here => simpa [Val.item] using he
theorem mem_entriesFields_iff (names : List Str) (addr : List Nat) (i : Nat) (e : Entry) :
    ∀ fs : List (Str × Val),
    e ∈ entriesFields names addr i fs ↔ ∃ k n c q ns w, fs[k]? = some (n, c) ∧ At c q ns w ∧
      e = ⟨addr ++ (i + k) :: q, names ++ n :: ns, w.item⟩
  | [] => by simp [entriesFields]
  | (n0, v0) :: rest => by
    have h1 := mem_entries_iff (names ++ [n0]) (addr ++ [i]) e v0
    have h2 := mem_entriesFields_iff names addr (i + 1) e rest
    simp only [entriesFields, List.mem_append, h1, h2]
    constructor
    · rintro (⟨q, ns, w, hat, he⟩ | ⟨k, n, c, q, ns, w, hk, hat, he⟩)
      · exact ⟨0, n0, v0, q, ns, w, by simp, hat, by simpa using he⟩
      · exact ⟨k + 1, n, c, q, ns, w, by simpa using hk, hat, by
          rw [he]; simp [Nat.add_assoc, Nat.add_comm 1 k]⟩
    · rintro ⟨k, n, c, q, ns, w, hk, hat, he⟩
      cases k with
      | zero =>
        simp only [List.getElem?_cons_zero, Option.some.injEq, Prod.mk.injEq] at hk
        obtain ⟨rfl, rfl⟩ := hk
        left; exact ⟨q, ns, w, hat, by simpa using he⟩
      | succ k =>
        simp only [List.getElem?_cons_succ] at hk
        right; exact ⟨k, n, c, q, ns, w, hk, hat, by
          rw [he]; simp [Nat.add_assoc, Nat.add_comm 1 k]⟩
theorem mem_entriesItems_iff (names : List Str) (addr : List Nat) (i : Nat) (e : Entry) :
    ∀ xs : List Val,
    e ∈ entriesItems names addr i xs ↔ ∃ k c q ns w, xs[k]? = some c ∧ At c q ns w ∧
      e = ⟨addr ++ (i + k) :: q, names ++ dec (i + k) :: ns, w.item⟩
  | [] => by simp [entriesItems]
  | v0 :: rest => by
    have h1 := mem_entries_iff (names ++ [dec i]) (addr ++ [i]) e v0
    have h2 := mem_entriesItems_iff names addr (i + 1) e rest
    simp only [entriesItems, List.mem_append, h1, h2]
    constructor
    · rintro (⟨q, ns, w, hat, he⟩ | ⟨k, c, q, ns, w, hk, hat, he⟩)
      · exact ⟨0, v0, q, ns, w, by simp, hat, by simpa using he⟩
      · exact ⟨k + 1, c, q, ns, w, by simpa using hk, hat, by
          rw [he]; simp [Nat.add_assoc, Nat.add_comm 1 k]⟩
    · rintro ⟨k, c, q, ns, w, hk, hat, he⟩
      cases k with
      | zero =>
        simp only [List.getElem?_cons_zero, Option.some.injEq] at hk
        subst hk
        left; exact ⟨q, ns, w, hat, by simpa using he⟩
      | succ k =>
        simp only [List.getElem?_cons_succ] at hk
        right; exact ⟨k, c, q, ns, w, hk, hat, by
          rw [he]; simp [Nat.add_assoc, Nat.add_comm 1 k]⟩
end

/-! ## Pre-order: the addresses are strictly increasing in lexicographic order -/

theorem lt_append_cons : ∀ (addr : List Nat) (k : Nat) (q : List Nat), addr < addr ++ k :: q
  | [], k, q => List.nil_lt_cons k q
  | a :: addr, k, q => by
    rw [List.cons_append, List.cons_lt_cons_iff]
    exact Or.inr ⟨rfl, lt_append_cons addr k q⟩

theorem append_cons_lt : ∀ (addr : List Nat) {i j : Nat}, i < j → ∀ (q q' : List Nat),
    addr ++ i :: q < addr ++ j :: q'
  | [], i, j, h, q, q' => by
    rw [List.nil_append, List.nil_append, List.cons_lt_cons_iff]; exact Or.inl h
  | a :: addr, i, j, h, q, q' => by
    rw [List.cons_append, List.cons_append, List.cons_lt_cons_iff]
    exact Or.inr ⟨rfl, append_cons_lt addr h q q'⟩

mutual
theorem entries_sorted (names : List Str) (addr : List Nat) : ∀ v : Val,
    (entries names addr v).Pairwise (fun a b => a.addr < b.addr)
  | .node ty ex r ln fs => by
    simp only [entries, List.pairwise_cons]
    refine ⟨?_, entriesFields_sorted names addr 0 fs⟩
    intro b hb
    obtain ⟨k, n, c, q, ns, w, _, _, he⟩ := (mem_entriesFields_iff names addr 0 b fs).mp hb
    rw [he]; exact lt_append_cons addr _ q
  | .list qt xs => by
    simp only [entries, List.pairwise_cons]
    refine ⟨?_, entriesItems_sorted names addr 1 xs⟩
    intro b hb
    obtain ⟨k, c, q, ns, w, _, _, he⟩ := (mem_entriesItems_iff names addr 1 b xs).mp hb
    rw [he]; exact lt_append_cons addr _ q
  | .scalar r k => by simp [entries]
theorem entriesFields_sorted (names : List Str) (addr : List Nat) (i : Nat) :
    ∀ fs : List (Str × Val), (entriesFields names addr i fs).Pairwise (fun a b => a.addr < b.addr)
  | [] => by simp [entriesFields]
  | (n0, v0) :: rest => by
    simp only [entriesFields, List.pairwise_append]
    refine ⟨entries_sorted _ _ v0, entriesFields_sorted names addr (i + 1) rest, ?_⟩
    intro a ha b hb
    obtain ⟨q, ns, w, _, he⟩ := (mem_entries_iff _ _ a v0).mp ha
    obtain ⟨k, n, c, q', ns', w', _, _, he'⟩ := (mem_entriesFields_iff names addr (i + 1) b rest).mp hb
    rw [he, he', List.append_assoc]
    exact append_cons_lt addr (by omega) _ _
theorem entriesItems_sorted (names : List Str) (addr : List Nat) (i : Nat) :
    ∀ xs : List Val, (entriesItems names addr i xs).Pairwise (fun a b => a.addr < b.addr)
  | [] => by simp [entriesItems]
  | v0 :: rest => by
    simp only [entriesItems, List.pairwise_append]
    refine ⟨entries_sorted _ _ v0, entriesItems_sorted names addr (i + 1) rest, ?_⟩
    intro a ha b hb
    obtain ⟨q, ns, w, _, he⟩ := (mem_entries_iff _ _ a v0).mp ha
    obtain ⟨k, c, q', ns', w', _, _, he'⟩ := (mem_entriesItems_iff names addr (i + 1) b rest).mp hb
    rw [he, he', List.append_assoc]
    exact append_cons_lt addr (by omega) _ _
end

/-- No address occurs twice. -/
theorem entries_addr_nodup (names : List Str) (addr : List Nat) (v : Val) :
    ((entries names addr v).map (·.addr)).Nodup := by
  have h := entries_sorted names addr v
  rw [List.Nodup, List.pairwise_map]
  exact h.imp fun {a b} hab e => by
    rw [e] at hab
    exact List.lt_irrefl _ hab

end Paroxy.Flat
