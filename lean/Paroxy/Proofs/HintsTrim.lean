/-
Helper lemmas for C12: `regex.sub(r"\A(\s*\n)+|\s+\Z", "", text)` on a text whose lines are either
empty or end with a character that is not white space removes exactly the empty lines at both ends.
-/
import Paroxy.Proofs.HintsChars
namespace Paroxy.Hints

variable {O : CharOracle}

/-- The lines without the empty ones that begin and end the list. -/
def coreLines (ls : List Str) : List Str :=
  ((ls.dropWhile (·.isEmpty)).reverse.dropWhile (·.isEmpty)).reverse

/-- A line that is empty or ends with a character that is not white space (hence is not blank). -/
def TightLine (O : CharOracle) (l : Str) : Prop := '\n' ∉ l ∧ ∀ x, l.getLast? = some x → (isSpaceRe O) x = false

theorem joinNL_nil_cons (x : Str) (xs : List Str) : joinNL ([] :: x :: xs) = '\n' :: joinNL (x :: xs) := rfl

theorem joinNL_replicate_append (k : Nat) (x : Str) (xs : List Str) :
    joinNL (List.replicate k [] ++ (x :: xs)) = List.replicate k '\n' ++ joinNL (x :: xs) := by
  induction k with
  | zero => rfl
  | succ k ih =>
    cases k with
    | zero => simp [List.replicate_succ, joinNL_nil_cons]
    | succ k =>
      rw [List.replicate_succ, List.cons_append] at ih ⊢
      rw [List.replicate_succ (n := k), List.cons_append] at ih ⊢
      rw [joinNL_nil_cons, ih]; simp [List.replicate_succ]

theorem joinNL_append (a b : List Str) (ha : a ≠ []) (hb : b ≠ []) :
    joinNL (a ++ b) = joinNL a ++ '\n' :: joinNL b := by
  induction a with
  | nil => exact absurd rfl ha
  | cons x t ih =>
    cases t with
    | nil =>
      cases b with
      | nil => exact absurd rfl hb
      | cons y ys => simp [joinNL]
    | cons x2 t2 =>
      have := ih (by simp)
      simp only [List.cons_append] at this ⊢
      rw [joinNL_cons_cons, this, joinNL_cons_cons]; simp

theorem joinNL_replicate_nil (k : Nat) : joinNL (List.replicate (k + 1) []) = List.replicate k '\n' := by
  induction k with
  | zero => rfl
  | succ k ih =>
    rw [List.replicate_succ, List.replicate_succ, joinNL_nil_cons, ← List.replicate_succ, ih, List.replicate_succ]

theorem joinNL_append_replicate (front : List Str) (k : Nat) (h : front ≠ []) :
    joinNL (front ++ List.replicate k []) = joinNL front ++ List.replicate k '\n' := by
  cases k with
  | zero => simp
  | succ k =>
    rw [joinNL_append front _ h (by simp [List.replicate_succ]), joinNL_replicate_nil, List.replicate_succ]

theorem takeWhile_append_of_exists {p : Char → Bool} (a Y : Str) (h : ∃ c ∈ a, p c = false) :
    (a ++ Y).takeWhile p = a.takeWhile p := by
  induction a with
  | nil => simp at h
  | cons c t ih =>
    by_cases hc : p c = true
    · obtain ⟨x, hx, hpx⟩ := h
      rcases List.mem_cons.mp hx with rfl | hx
      · simp [hc] at hpx
      · simp [List.takeWhile_cons, hc, ih ⟨x, hx, hpx⟩]
    · simp [List.takeWhile_cons, hc]

theorem tight_exists {l : Str} (ht : (TightLine O) l) (hne : l ≠ []) : ∃ c ∈ l, (isSpaceRe O) c = false := by
  obtain ⟨x, hx⟩ : ∃ x, l.getLast? = some x := by
    cases h : l.getLast? with
    | none => simp at h; exact absurd h hne
    | some x => exact ⟨x, rfl⟩
  exact ⟨x, List.mem_of_getLast? hx, ht.2 x hx⟩

theorem joinNL_cons_eq (l : Str) (rest : List Str) : ∃ X, joinNL (l :: rest) = l ++ X := by
  cases rest with
  | nil => exact ⟨[], by simp [joinNL]⟩
  | cons y ys => exact ⟨'\n' :: joinNL (y :: ys), rfl⟩

/-- Leading part of `trimEnds`. -/
theorem lead_trim (k : Nat) (l : Str) (rest : List Str) (ht : (TightLine O) l) (hne : l ≠ []) :
    let T := List.replicate k '\n' ++ joinNL (l :: rest)
    keepAfterLastNL (T.takeWhile (isSpaceRe O)) ++ T.dropWhile (isSpaceRe O) = joinNL (l :: rest) := by
  intro T
  obtain ⟨X, hX⟩ := joinNL_cons_eq l rest
  have hex := tight_exists ht hne
  have hnl : ∀ c ∈ List.replicate k '\n', (isSpaceRe O) c = true := by
    intro c hc; rw [(List.mem_replicate.mp hc).2]; cdec
  have htw : T.takeWhile (isSpaceRe O) = List.replicate k '\n' ++ l.takeWhile (isSpaceRe O) := by
    simp only [T]
    rw [List.takeWhile_append_of_pos hnl, hX, takeWhile_append_of_exists l X hex]
  have hdw : T.dropWhile (isSpaceRe O) = (joinNL (l :: rest)).dropWhile (isSpaceRe O) := by
    simp only [T]
    rw [List.dropWhile_append_of_pos hnl]
  have hW0 : '\n' ∉ l.takeWhile (isSpaceRe O) := fun h => ht.1 ((List.takeWhile_sublist _).subset h)
  have hkeep : keepAfterLastNL (List.replicate k '\n' ++ l.takeWhile (isSpaceRe O)) = l.takeWhile (isSpaceRe O) := by
    unfold keepAfterLastNL
    cases k with
    | zero =>
      have : (l.takeWhile (isSpaceRe O)).contains '\n' = false := by simpa using hW0
      simp only [List.replicate_zero, List.nil_append, this, Bool.false_eq_true, if_false]
    | succ k =>
      have hc : (List.replicate (k + 1) '\n' ++ l.takeWhile (isSpaceRe O)).contains '\n' = true := by
        simp [List.replicate_succ]
      simp only [hc, if_true, List.reverse_append]
      have hall : ∀ c ∈ (l.takeWhile (isSpaceRe O)).reverse, (c != '\n') = true := by
        intro c hc; simp only [List.mem_reverse] at hc
        have : c ≠ '\n' := fun e => hW0 (by rw [← e]; exact hc)
        simpa using this
      rw [List.takeWhile_append_of_pos hall, List.reverse_replicate, List.replicate_succ]
      simp [List.takeWhile_cons]
  rw [htw, hkeep, hdw, ← takeWhile_append_of_exists l X hex, ← hX, List.takeWhile_append_dropWhile]

/-- Trailing part of `trimEnds`. -/
theorem trail_trim (front : List Str) (last : Str) (k : Nat) (hl : front.getLast? = some last)
    (ht : (TightLine O) last) (hne : last ≠ []) :
    ((joinNL front ++ List.replicate k '\n').reverse.dropWhile (isSpaceRe O)).reverse = joinNL front := by
  have hx : ∃ x, (joinNL front).getLast? = some x ∧ (isSpaceRe O) x = false := by
    have h1 : (joinNL front).getLast? = last.getLast? := by
      clear ht
      induction front with
      | nil => simp at hl
      | cons a t ih =>
        cases t with
        | nil => simp at hl; subst hl; rfl
        | cons b t2 =>
          have hl' : (b :: t2).getLast? = some last := by simpa using hl
          rw [joinNL_cons_cons, List.getLast?_append, List.getLast?_cons, ih hl']
          cases hh : last.getLast? with
          | none => simp at hh; exact absurd hh hne
          | some x => rfl
    cases hh : last.getLast? with
    | none => simp at hh; exact absurd hh hne
    | some x => exact ⟨x, by rw [h1, hh], ht.2 x hh⟩
  obtain ⟨x, hx1, hx2⟩ := hx
  rw [List.reverse_append, List.reverse_replicate,
    List.dropWhile_append_of_pos (by intro c hc; rw [(List.mem_replicate.mp hc).2]; cdec)]
  have : (joinNL front).reverse.dropWhile (isSpaceRe O) = (joinNL front).reverse := by
    cases hr : (joinNL front).reverse with
    | nil => rfl
    | cons c t =>
      have : (joinNL front).getLast? = some c := by rw [← List.head?_reverse, hr]; rfl
      rw [hx1] at this; cases this
      simp [hx2]
  rw [this, List.reverse_reverse]

theorem all_empty_eq_replicate (l : List Str) (h : ∀ x ∈ l, x.isEmpty = true) : l = List.replicate l.length [] := by
  induction l with
  | nil => rfl
  | cons x t ih =>
    have hx : x = [] := by simpa using h x (by simp)
    rw [List.length_cons, List.replicate_succ, ← ih (fun y hy => h y (List.mem_cons_of_mem _ hy)), hx]

theorem mem_takeWhile_imp' {α : Type} {p : α → Bool} {l : List α} {x : α} (h : x ∈ l.takeWhile p) : p x = true := by
  have := List.all_takeWhile (p := p) (l := l)
  exact List.all_eq_true.mp this x h

/-- Decomposition of a list of lines around its core. -/
theorem coreLines_decomp (ls : List Str) (hne : coreLines ls ≠ []) :
    ∃ k k' l rest last, ls = List.replicate k [] ++ (coreLines ls ++ List.replicate k' []) ∧
      coreLines ls = l :: rest ∧ l ≠ [] ∧ (coreLines ls).getLast? = some last ∧ last ≠ [] := by
  let A := ls.dropWhile (·.isEmpty)
  have h1 : ls = ls.takeWhile (·.isEmpty) ++ A := (List.takeWhile_append_dropWhile).symm
  have h2 : A.reverse = A.reverse.takeWhile (·.isEmpty) ++ A.reverse.dropWhile (·.isEmpty) :=
    (List.takeWhile_append_dropWhile).symm
  have h3 : A = coreLines ls ++ (A.reverse.takeWhile (·.isEmpty)).reverse := by
    have := congrArg List.reverse h2
    rw [List.reverse_reverse, List.reverse_append] at this
    exact this
  have e1 := all_empty_eq_replicate (ls.takeWhile (·.isEmpty)) (fun x hx => mem_takeWhile_imp' hx)
  have e2 := all_empty_eq_replicate ((A.reverse.takeWhile (·.isEmpty)).reverse)
    (fun x hx => mem_takeWhile_imp' (List.mem_reverse.mp hx))
  obtain ⟨l, rest, hc⟩ := List.exists_cons_of_ne_nil hne
  have hlast : ∃ last, (coreLines ls).getLast? = some last := by
    rw [hc]; exact ⟨_, List.getLast?_eq_some_getLast (by simp)⟩
  obtain ⟨last, hlast⟩ := hlast
  refine ⟨(ls.takeWhile (·.isEmpty)).length, ((A.reverse.takeWhile (·.isEmpty)).reverse).length,
    l, rest, last, ?_, hc, ?_, hlast, ?_⟩
  · conv_lhs => rw [h1, h3, e1, e2]
  · -- the head of the core is the head of `A`, which is not empty
    have hA : A.head? = some l := by rw [h3, hc]; rfl
    intro hl
    have := List.head?_dropWhile_not (·.isEmpty) ls
    rw [show ls.dropWhile (·.isEmpty) = A from rfl, hA] at this
    simp [hl] at this
  · -- the last of the core is the head of the reversed dropWhile
    have hh : (A.reverse.dropWhile (·.isEmpty)).head? = some last := by
      have : (coreLines ls).getLast? = (A.reverse.dropWhile (·.isEmpty)).head? := by
        simp [coreLines, A]
      rw [← this, hlast]
    intro hl
    have := List.head?_dropWhile_not (·.isEmpty) A.reverse
    rw [hh] at this
    simp [hl] at this

/-- **Trimming a text whose non-empty lines are tight** removes exactly the empty lines at both ends. -/
theorem trimEnds_joinNL (ls : List Str) (ht : ∀ l ∈ ls, (TightLine O) l) (hne : coreLines ls ≠ []) :
    (trimEnds O) (joinNL ls) = joinNL (coreLines ls) := by
  obtain ⟨k, k', l, rest, last, hdec, hcore, hl, hlast, hlastne⟩ := coreLines_decomp ls hne
  have hmem : ∀ x ∈ coreLines ls, x ∈ ls := by
    intro x hx; rw [hdec]; simp [hx]
  have htl : (TightLine O) l := ht l (hmem l (by rw [hcore]; simp))
  have htlast : (TightLine O) last := ht last (hmem last (List.mem_of_getLast? hlast))
  have hj : joinNL ls = List.replicate k '\n' ++ joinNL (l :: (rest ++ List.replicate k' [])) := by
    conv_lhs => rw [hdec, hcore]
    rw [List.cons_append, joinNL_replicate_append]
  have hj2 : joinNL (l :: (rest ++ List.replicate k' [])) = joinNL (coreLines ls) ++ List.replicate k' '\n' := by
    rw [← List.cons_append, ← hcore, joinNL_append_replicate _ _ hne]
  unfold trimEnds
  simp only [hj]
  rw [lead_trim k l _ htl hl, hj2, trail_trim _ last k' hlast htlast hlastne]

end Paroxy.Hints
