/-
Lemmas about the text of the report body (Model/ReportText.lean, Spec/ReportText.lean): every line
the model writes is read back by `classify`, and the fold from the end rebuilds the structure.
-/
import Paroxy.Spec.ReportText
import Paroxy.Proofs.ReportCell
namespace Paroxy.ReportText
open Paroxy Paroxy.Report Paroxy.ReportCell

/-- What the theorems need from the rendering of costs: the characters of a float literal, and a
reader that inverts it (hence injectivity). -/
structure CostOK (showCost : Rat → Str) (readCost : Str → Option Rat) : Prop where
  chars : ∀ c, ∀ x ∈ showCost c, costChar x = true
  read : ∀ c, readCost (showCost c) = some c

theorem stripPrefix_append (p x : Str) : stripPrefix p (p ++ x) = some x := by
  induction p with
  | nil => cases x <;> rfl
  | cons a t ih => simp [stripPrefix, ih]

/-- `takeWhile` / `dropWhile` stop at the first character refused. -/
theorem span_stop (p : Char → Bool) (a : Str) (c : Char) (b : Str) (ha : ∀ x ∈ a, p x = true) (hc : p c = false) :
    (a ++ c :: b).takeWhile p = a ∧ (a ++ c :: b).dropWhile p = c :: b := by
  have := dropWhile_all p a ha (c :: b)
  simp [this, List.takeWhile_cons, List.dropWhile_cons, hc]

theorem costChar_ne_space (x : Char) (h : costChar x = true) : (x != ' ') = true := by
  have : x ≠ ' ' := by intro e; subst e; revert h; decide
  simpa using this

theorem nat_digits (n : Nat) : ∀ c ∈ nat n, Char.isDigit c = true :=
  fun _ hc => Nat.isDigit_of_mem_toDigits (by decide) (by decide) hc

theorem chars_toNat (t : Codes) (h : ∀ n ∈ t, n.isValidChar) : (chars t).map Char.toNat = t := by
  induction t with
  | nil => rfl
  | cons a t ih =>
    have ha := h a (by simp)
    have := ih fun n hn => h n (List.mem_cons_of_mem _ hn)
    simp only [chars, List.map_cons, List.map_map] at this ⊢
    rw [this]
    congr 1
    simp [Char.ofNat, ha, Char.ofNatAux, Char.toNat]

/-! ### Buckets and heading lines -/

theorem parsePow_pow (lo : Nat) : parsePow (bucketText (.pow lo)) = some (.pow lo) := by
  unfold parsePow bucketText
  rw [stripPrefix_append]
  have h := span_stop Char.isDigit (nat lo) ',' ([' '] ++ nat (2 * lo) ++ ['[']) (nat_digits lo) (by decide)
  have e : nat lo ++ (commaSp ++ nat (2 * lo) ++ ['[']) = nat lo ++ ',' :: ([' '] ++ nat (2 * lo) ++ ['[']) := by
    simp [commaSp]
  simp only [e, h.1, h.2]
  simp [nat, readNat_digits, commaSp]

theorem parseBucket_text (b : Bucket) : parseBucket (bucketText b) = some b := by
  cases b with
  | pow lo => simp [parseBucket, parsePow_pow]
  | zero => decide
  | q1 => decide
  | q2 => decide
  | q3 => decide
  | noGroup => decide

theorem parseHeading_line (b : Bucket) (n : Nat) :
    parseHeading (nat n ++ ((progTxt ++ plural n ++ ofCost) ++ bucketText b)) = some (.heading b n) := by
  unfold parseHeading
  have h := span_stop Char.isDigit (nat n) ' ' (['p', 'r', 'o', 'g', 'r', 'a', 'm'] ++ plural n ++ ofCost ++ bucketText b)
    (nat_digits n) (by decide)
  have e : nat n ++ ((progTxt ++ plural n ++ ofCost) ++ bucketText b) =
      nat n ++ ' ' :: (['p', 'r', 'o', 'g', 'r', 'a', 'm'] ++ plural n ++ ofCost ++ bucketText b) := by
    simp [progTxt]
  have e2 : ' ' :: (['p', 'r', 'o', 'g', 'r', 'a', 'm'] ++ plural n ++ ofCost ++ bucketText b) =
      (progTxt ++ plural n ++ ofCost) ++ bucketText b := by simp [progTxt]
  simp only [e, h.1, h.2, e2]
  have e3 : readNat (nat n) = some n := readNat_digits n
  simp only [e3, stripPrefix_append, parseBucket_text, Option.map_some]

theorem classify_heading (rc : Str → Option Rat) (b : Bucket) (n : Nat) :
    classify rc (headingLine b n) = some (.heading b n) := by
  unfold classify headingLine
  have h1 : ∀ x, stripPrefix titleOpen (headOpen ++ x) = none := by
    intro x; simp [stripPrefix, titleOpen, headOpen]
  rw [h1, stripPrefix_append]
  exact parseHeading_line b n

/-! ### Title lines -/

theorem titleMid_reverse : titleMid.reverse = titleMidRev := by decide

theorem parseTitle_line (sc : Rat → Str) (rc : Str → Option Rat) (hc : CostOK sc rc) (s : Section)
    (hp : okPath s.path = true) :
    parseTitle rc (chars s.path ++ (titleMid ++ (sc s.cost ++ [')']))) = some (.title s.path s.cost) := by
  unfold parseTitle
  have e : (chars s.path ++ (titleMid ++ (sc s.cost ++ [')']))).reverse =
      ')' :: ((sc s.cost).reverse ++ ' ' :: (titleMidRev.tail ++ (chars s.path).reverse)) := by
    simp [List.reverse_append, titleMid_reverse, titleMidRev]
  rw [e]
  have h := span_stop (· != ' ') (sc s.cost).reverse ' ' (titleMidRev.tail ++ (chars s.path).reverse)
    (fun x hx => costChar_ne_space x (hc.chars _ x (List.mem_reverse.mp hx))) (by decide)
  simp only [if_true]
  rw [h.1, h.2]
  have e2 : ' ' :: (titleMidRev.tail ++ (chars s.path).reverse) = titleMidRev ++ (chars s.path).reverse := by
    simp [titleMidRev]
  rw [e2, stripPrefix_append]
  have hv : ∀ n ∈ s.path, n.isValidChar := by
    intro n hn
    have := List.all_eq_true.mp hp n hn
    simp at this
    exact this.1
  simp [hc.read, chars_toNat _ hv]

theorem classify_title (sc : Rat → Str) (rc : Str → Option Rat) (hc : CostOK sc rc) (s : Section)
    (hp : okPath s.path = true) : classify rc (titleLine sc s) = some (.title s.path s.cost) := by
  unfold classify titleLine
  rw [stripPrefix_append]
  exact parseTitle_line sc rc hc s hp

/-! ### Row lines -/

theorem okRow_spans (r : Row) (h : okRow r = true) : ∀ sp ∈ r.spans, 0 ≤ sp.1 ∧ 0 ≤ sp.2 := by
  intro sp hsp
  simp only [okRow, Bool.and_eq_true, List.all_eq_true, decide_eq_true_eq] at h
  exact h.2 sp hsp

theorem okRow_taxon (r : Row) (h : okRow r = true) :
    (∀ n ∈ r.taxon, n.isValidChar) ∧ ∀ x ∈ chars r.taxon, (x != '`') = true := by
  simp only [okRow, okTaxon, Bool.and_eq_true, List.all_eq_true] at h
  refine ⟨fun n hn => by have := h.1 n hn; simp at this; exact this.1.1, ?_⟩
  intro x hx
  simp only [chars, List.mem_map] at hx
  obtain ⟨n, hn, rfl⟩ := hx
  have := h.1 n hn
  simp only [Bool.and_eq_true, bne_iff_ne, ne_eq, decide_eq_true_eq] at this
  have hv := this.1.1
  have h96 := this.1.2
  have : Char.ofNat n ≠ '`' := by
    intro e
    have := congrArg Char.toNat e
    simp [Char.ofNat, hv, Char.ofNatAux, Char.toNat] at this
    exact h96 this
  simpa using this

theorem parseRow_line (sc : Rat → Str) (rc : Str → Option Rat) (hc : CostOK sc rc) (w : Nat) (hw : 0 < w) (r : Row)
    (hr : okRow r = true) :
    parseRow rc (sc r.cost ++ (sep1 ++ (chars r.taxon ++ (sep2 ++ (renderCell w r.spans ++ rowClose))))) =
      some (.row r) := by
  unfold parseRow
  obtain ⟨hv, hq⟩ := okRow_taxon r hr
  have h := span_stop (· != ' ') (sc r.cost) ' ' (sep1.tail ++ (chars r.taxon ++ (sep2 ++ (renderCell w r.spans ++ rowClose))))
    (fun x hx => costChar_ne_space x (hc.chars _ x hx)) (by decide)
  have e : sc r.cost ++ (sep1 ++ (chars r.taxon ++ (sep2 ++ (renderCell w r.spans ++ rowClose)))) =
      sc r.cost ++ ' ' :: (sep1.tail ++ (chars r.taxon ++ (sep2 ++ (renderCell w r.spans ++ rowClose)))) := by
    simp [sep1]
  rw [e, h.1, h.2]
  have e2 : ' ' :: (sep1.tail ++ (chars r.taxon ++ (sep2 ++ (renderCell w r.spans ++ rowClose)))) =
      sep1 ++ (chars r.taxon ++ (sep2 ++ (renderCell w r.spans ++ rowClose))) := by simp [sep1]
  rw [e2, stripPrefix_append]
  have h2 := span_stop (· != '`') (chars r.taxon) '`' (sep2.tail ++ (renderCell w r.spans ++ rowClose)) hq (by decide)
  have e3 : chars r.taxon ++ (sep2 ++ (renderCell w r.spans ++ rowClose)) =
      chars r.taxon ++ '`' :: (sep2.tail ++ (renderCell w r.spans ++ rowClose)) := by simp [sep2]
  simp only []
  rw [e3, h2.1, h2.2]
  have e4 : '`' :: (sep2.tail ++ (renderCell w r.spans ++ rowClose)) = sep2 ++ (renderCell w r.spans ++ rowClose) := by
    simp [sep2]
  rw [e4, stripPrefix_append]
  have e5 : (renderCell w r.spans ++ rowClose).reverse = '|' :: ' ' :: (renderCell w r.spans).reverse := by
    simp [rowClose]
  simp only [e5]
  have hcell := parse_render w hw (r.spans.map fun sp => (sp.1.toNat, sp.2.toNat))
  rw [toSpan_of_nonneg r.spans (okRow_spans r hr)] at hcell
  simp [hc.read, hcell, chars_toNat _ hv]

theorem rowLine_ne_header (sc : Rat → Str) (rc : Str → Option Rat) (hc : CostOK sc rc) (w : Nat) (r : Row) :
    rowLine sc w r ≠ headerLine := by
  unfold rowLine
  intro h
  cases hs : sc r.cost with
  | nil => rw [hs] at h; simp [rowOpen, sep1, headerLine] at h
  | cons a t =>
    have ha := hc.chars r.cost a (by rw [hs]; simp)
    rw [hs] at h
    simp only [rowOpen, headerLine, List.cons_append, List.nil_append, List.cons.injEq, true_and] at h
    have : a = 'C' := h.1
    subst this
    revert ha; decide

theorem classify_row (sc : Rat → Str) (rc : Str → Option Rat) (hc : CostOK sc rc) (w : Nat) (hw : 0 < w) (r : Row)
    (hr : okRow r = true) : classify rc (rowLine sc w r) = some (.row r) := by
  have hh := rowLine_ne_header sc rc hc w r
  unfold classify
  have h1 : stripPrefix titleOpen (rowLine sc w r) = none := by simp [rowLine, stripPrefix, titleOpen, rowOpen]
  have h2 : stripPrefix headOpen (rowLine sc w r) = none := by simp [rowLine, stripPrefix, headOpen, rowOpen]
  have h3 : rowLine sc w r ≠ [] := by simp [rowLine, rowOpen]
  have h4 : rowLine sc w r ≠ ruleLine := by simp [rowLine, rowOpen, ruleLine]
  have h5 : rowLine sc w r ≠ hrLine := by simp [rowLine, rowOpen, hrLine]
  rw [h1, h2]
  simp only [h3, hh, h4, h5, if_false]
  unfold rowLine
  rw [stripPrefix_append]
  exact parseRow_line sc rc hc w hw r hr

/-! ### The four fixed lines -/

theorem classify_blank (rc : Str → Option Rat) : classify rc [] = some .blank := rfl
theorem classify_header (rc : Str → Option Rat) : classify rc headerLine = some .header := by
  simp [classify, stripPrefix, titleOpen, headOpen, headerLine]
theorem classify_rule (rc : Str → Option Rat) : classify rc ruleLine = some .rule := by
  simp [classify, stripPrefix, titleOpen, headOpen, headerLine, ruleLine]
theorem classify_hr (rc : Str → Option Rat) : classify rc hrLine = some .hr := by
  simp [classify, stripPrefix, titleOpen, headOpen, headerLine, ruleLine, hrLine]

/-! ### The fold -/

theorem fold_rows (sc : Rat → Str) (rc : Str → Option Rat) (hc : CostOK sc rc) (w : Nat) (hw : 0 < w) (s : St) :
    ∀ rows : List Row, (∀ r ∈ rows, okRow r = true) →
      (rows.map (rowLine sc w)).foldr (step rc) (some s) = some { s with rows := rows ++ s.rows }
  | [], _ => rfl
  | r :: t, h => by
    have ih := fold_rows sc rc hc w hw s t fun x hx => h x (List.mem_cons_of_mem _ hx)
    simp only [List.map_cons, List.foldr_cons, ih]
    simp [step, classify_row sc rc hc w hw r (h r (by simp))]

theorem fold_section (sc : Rat → Str) (rc : Str → Option Rat) (hc : CostOK sc rc) (w : Nat) (hw : 0 < w)
    (sec : Section) (hs : okSection sec = true) (s : St) (h0 : s.rows = []) :
    (renderSection sc w sec).foldr (step rc) (some s) = some { s with secs := sec :: s.secs } := by
  simp only [okSection, Bool.and_eq_true, List.all_eq_true] at hs
  unfold renderSection
  simp only [List.foldr_cons, List.foldr_append, List.foldr_nil]
  have e1 : step rc hrLine (some s) = some s := by simp [step, classify_hr]
  have e2 : ∀ x : St, step rc [] (some x) = some x := by intro x; simp [step, classify_blank]
  rw [e1, e2, fold_rows sc rc hc w hw s sec.rows hs.2]
  have e3 : ∀ x : St, step rc ruleLine (some x) = some x := by intro x; simp [step, classify_rule]
  have e4 : ∀ x : St, step rc headerLine (some x) = some x := by intro x; simp [step, classify_header]
  rw [e3, e4, e2]
  have e5 : ∀ x : St, step rc (titleLine sc sec) (some x) =
      some { x with rows := [], secs := ⟨sec.path, sec.cost, x.rows⟩ :: x.secs } := by
    intro x; simp [step, classify_title sc rc hc sec hs.1]
  rw [e5, e2]
  cases s; cases sec; simp_all

theorem fold_sections (sc : Rat → Str) (rc : Str → Option Rat) (hc : CostOK sc rc) (w : Nat) (hw : 0 < w) (s : St)
    (h0 : s.rows = []) :
    ∀ secs : List Section, (∀ x ∈ secs, okSection x = true) →
      (secs.flatMap (renderSection sc w)).foldr (step rc) (some s) = some { s with secs := secs ++ s.secs }
  | [], _ => rfl
  | a :: t, h => by
    have ih := fold_sections sc rc hc w hw s h0 t fun x hx => h x (List.mem_cons_of_mem _ hx)
    simp only [List.flatMap_cons, List.foldr_append, ih]
    rw [fold_section sc rc hc w hw a (h a (by simp)) _ (by simpa using h0)]
    simp

theorem fold_bucket (sc : Rat → Str) (rc : Str → Option Rat) (hc : CostOK sc rc) (w : Nat) (hw : 0 < w)
    (g : Bucket × List Section) (hg : ∀ x ∈ g.2, okSection x = true) (bks : List (Bucket × List Section)) :
    (renderBucket sc w g).foldr (step rc) (some ⟨[], [], bks⟩) = some ⟨[], [], g :: bks⟩ := by
  unfold renderBucket
  simp only [List.foldr_cons]
  rw [fold_sections sc rc hc w hw ⟨[], [], bks⟩ rfl g.2 hg]
  simp [step, classify_heading, classify_blank]

theorem fold_body (sc : Rat → Str) (rc : Str → Option Rat) (hc : CostOK sc rc) (w : Nat) (hw : 0 < w) :
    ∀ b : List (Bucket × List Section), okBody b = true →
      (renderBody sc w b).foldr (step rc) (some ⟨[], [], []⟩) = some ⟨[], [], b⟩
  | [], _ => rfl
  | g :: t, h => by
    simp only [okBody, List.all_cons, Bool.and_eq_true] at h
    have ih := fold_body sc rc hc w hw t (by simpa [okBody] using h.2)
    simp only [renderBody, List.flatMap_cons, List.foldr_append] at ih ⊢
    rw [ih]
    exact fold_bucket sc rc hc w hw g (by simpa [List.all_eq_true] using h.1) t

theorem parse_render_body (sc : Rat → Str) (rc : Str → Option Rat) (hc : CostOK sc rc) (w : Nat) (hw : 0 < w)
    (b : List (Bucket × List Section)) (hb : okBody b = true) : parseBody rc (renderBody sc w b) = some b := by
  simp [parseBody, fold_body sc rc hc w hw b hb]

end Paroxy.ReportText
