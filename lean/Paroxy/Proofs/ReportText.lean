/-
Lemmas about the text of the report body (Model/ReportText.lean, Spec/ReportText.lean): every line
the model writes is read back by `classify`, and the fold from the end rebuilds the structure.
-/
import Paroxy.Spec.ReportText
import Paroxy.Proofs.ReportCell
namespace Paroxy.ReportText
open Paroxy Paroxy.Report Paroxy.ReportCell

theorem costOKb_spec {rc : Str → Option Rat} {txt : Str} {c : Rat} (h : costOKb rc txt c = true) :
    (∀ x ∈ txt, costChar x = true) ∧ rc txt = some c := by
  simp only [costOKb, Bool.and_eq_true, List.all_eq_true, beq_iff_eq] at h
  exact h

theorem stripPrefix_append (p x : Str) : stripPrefix p (p ++ x) = some x := by
  induction p with
  | nil => cases x <;> rfl
  | cons a t ih => simp [stripPrefix, ih]

/-- `takeWhile` / `dropWhile` stop at the first character refused. -/
theorem span_stop (p : Char → Bool) (a : Str) (c : Char) (b : Str) (ha : ∀ x ∈ a, p x = true) (hc : p c = false) :
    (a ++ c :: b).takeWhile p = a ∧ (a ++ c :: b).dropWhile p = c :: b := by
  have := dropWhile_all p a ha (c :: b)
  simp [this, List.takeWhile_cons, List.dropWhile_cons, hc]

theorem costChar_ne_space (x : Char) (h : costChar x = true) : (x != ' ') = true := by
  have : x ≠ ' ' := by intro e; subst e; revert h; decide
  simpa using this

theorem nat_digits (n : Nat) : ∀ c ∈ nat n, Char.isDigit c = true :=
  fun _ hc => Nat.isDigit_of_mem_toDigits (by decide) (by decide) hc

theorem chars_toNat (t : Codes) (h : ∀ n ∈ t, n.isValidChar) : (chars t).map Char.toNat = t := by
  induction t with
  | nil => rfl
  | cons a t ih =>
    have ha := h a (by simp)
    have := ih fun n hn => h n (List.mem_cons_of_mem _ hn)
    simp only [chars, List.map_cons, List.map_map] at this ⊢
    rw [this]
    congr 1
    simp [Char.ofNat, ha, Char.ofNatAux, Char.toNat]

/-! ### Buckets and heading lines -/

theorem parsePow_pow (lo : Nat) : parsePow (bucketText (.pow lo)) = some (.pow lo) := by
  unfold parsePow bucketText
  rw [stripPrefix_append]
  have h := span_stop Char.isDigit (nat lo) ',' ([' '] ++ nat (2 * lo) ++ ['[']) (nat_digits lo) (by decide)
  have e : nat lo ++ (commaSp ++ nat (2 * lo) ++ ['[']) = nat lo ++ ',' :: ([' '] ++ nat (2 * lo) ++ ['[']) := by
    simp [commaSp]
  simp only [e, h.1, h.2]
  simp [nat, readNat_digits, commaSp]

theorem parseBucket_text (b : Bucket) : parseBucket (bucketText b) = some b := by
  cases b with
  | pow lo => simp [parseBucket, parsePow_pow]
  | zero => decide
  | q1 => decide
  | q2 => decide
  | q3 => decide
  | noGroup => decide

theorem parseHeading_line (b : Bucket) (n : Nat) :
    parseHeading (nat n ++ ((progTxt ++ plural n ++ ofCost) ++ bucketText b)) = some (.heading b n) := by
  unfold parseHeading
  have h := span_stop Char.isDigit (nat n) ' ' (['p', 'r', 'o', 'g', 'r', 'a', 'm'] ++ plural n ++ ofCost ++ bucketText b)
    (nat_digits n) (by decide)
  have e : nat n ++ ((progTxt ++ plural n ++ ofCost) ++ bucketText b) =
      nat n ++ ' ' :: (['p', 'r', 'o', 'g', 'r', 'a', 'm'] ++ plural n ++ ofCost ++ bucketText b) := by
    simp [progTxt]
  have e2 : ' ' :: (['p', 'r', 'o', 'g', 'r', 'a', 'm'] ++ plural n ++ ofCost ++ bucketText b) =
      (progTxt ++ plural n ++ ofCost) ++ bucketText b := by simp [progTxt]
  simp only [e, h.1, h.2, e2]
  have e3 : readNat (nat n) = some n := readNat_digits n
  simp only [e3, stripPrefix_append, parseBucket_text, Option.map_some]

theorem classify_heading (rc : Str → Option Rat) (b : Bucket) (n : Nat) :
    classify rc (headingLine b n) = some (.heading b n) := by
  unfold classify headingLine
  have h1 : ∀ x, stripPrefix titleOpen (headOpen ++ x) = none := by
    intro x; simp [stripPrefix, titleOpen, headOpen]
  rw [h1, stripPrefix_append]
  exact parseHeading_line b n

/-! ### Title lines -/

theorem titleMid_reverse : titleMid.reverse = titleMidRev := by decide

theorem parseTitle_line (sc : Rat → Str) (rc : Str → Option Rat) (s : Section)
    (hc : costOKb rc (sc s.cost) s.cost = true) (hp : okPath s.path = true) :
    parseTitle rc (chars s.path ++ (titleMid ++ (sc s.cost ++ [')']))) = some (.title s.path s.cost) := by
  unfold parseTitle
  have e : (chars s.path ++ (titleMid ++ (sc s.cost ++ [')']))).reverse =
      ')' :: ((sc s.cost).reverse ++ ' ' :: (titleMidRev.tail ++ (chars s.path).reverse)) := by
    simp [List.reverse_append, titleMid_reverse, titleMidRev]
  rw [e]
  have h := span_stop (· != ' ') (sc s.cost).reverse ' ' (titleMidRev.tail ++ (chars s.path).reverse)
    (fun x hx => costChar_ne_space x ((costOKb_spec hc).1 x (List.mem_reverse.mp hx))) (by decide)
  simp only [if_true]
  rw [h.1, h.2]
  have e2 : ' ' :: (titleMidRev.tail ++ (chars s.path).reverse) = titleMidRev ++ (chars s.path).reverse := by
    simp [titleMidRev]
  rw [e2, stripPrefix_append]
  have hv : ∀ n ∈ s.path, n.isValidChar := by
    intro n hn
    have := List.all_eq_true.mp hp n hn
    simp at this
    exact this.1
  simp [(costOKb_spec hc).2, chars_toNat _ hv]

theorem classify_title (sc : Rat → Str) (rc : Str → Option Rat) (s : Section)
    (hc : costOKb rc (sc s.cost) s.cost = true)
    (hp : okPath s.path = true) : classify rc (titleLine sc s) = some (.title s.path s.cost) := by
  unfold classify titleLine
  rw [stripPrefix_append]
  exact parseTitle_line sc rc s hc hp

/-! ### Row lines -/

theorem okRow_spans (r : Row) (h : okRow r = true) : ∀ sp ∈ r.spans, 0 ≤ sp.1 ∧ 0 ≤ sp.2 := by
  intro sp hsp
  simp only [okRow, Bool.and_eq_true, List.all_eq_true, decide_eq_true_eq] at h
  exact h.2 sp hsp

theorem okRow_taxon (r : Row) (h : okRow r = true) :
    (∀ n ∈ r.taxon, n.isValidChar) ∧ ∀ x ∈ chars r.taxon, (x != '`') = true := by
  simp only [okRow, okTaxon, Bool.and_eq_true, List.all_eq_true] at h
  refine ⟨fun n hn => by have := h.1 n hn; simp at this; exact this.1.1, ?_⟩
  intro x hx
  simp only [chars, List.mem_map] at hx
  obtain ⟨n, hn, rfl⟩ := hx
  have := h.1 n hn
  simp only [Bool.and_eq_true, bne_iff_ne, ne_eq, decide_eq_true_eq] at this
  have hv := this.1.1
  have h96 := this.1.2
  have : Char.ofNat n ≠ '`' := by
    intro e
    have := congrArg Char.toNat e
    simp [Char.ofNat, hv, Char.ofNatAux, Char.toNat] at this
    exact h96 this
  simpa using this

theorem parseRow_line (src : Codes → Rat → Str) (rc : Str → Option Rat) (w : Nat) (hw : 0 < w) (r : Row)
    (hc : costOKb rc (src r.taxon r.cost) r.cost = true) (hr : okRow r = true) :
    parseRow rc (src r.taxon r.cost ++ (sep1 ++ (chars r.taxon ++ (sep2 ++ (renderCell w r.spans ++ rowClose))))) =
      some (.row r) := by
  unfold parseRow
  obtain ⟨hv, hq⟩ := okRow_taxon r hr
  have h := span_stop (· != ' ') (src r.taxon r.cost) ' ' (sep1.tail ++ (chars r.taxon ++ (sep2 ++ (renderCell w r.spans ++ rowClose))))
    (fun x hx => costChar_ne_space x ((costOKb_spec hc).1 x hx)) (by decide)
  have e : src r.taxon r.cost ++ (sep1 ++ (chars r.taxon ++ (sep2 ++ (renderCell w r.spans ++ rowClose)))) =
      src r.taxon r.cost ++ ' ' :: (sep1.tail ++ (chars r.taxon ++ (sep2 ++ (renderCell w r.spans ++ rowClose)))) := by
    simp [sep1]
  rw [e, h.1, h.2]
  have e2 : ' ' :: (sep1.tail ++ (chars r.taxon ++ (sep2 ++ (renderCell w r.spans ++ rowClose)))) =
      sep1 ++ (chars r.taxon ++ (sep2 ++ (renderCell w r.spans ++ rowClose))) := by simp [sep1]
  rw [e2, stripPrefix_append]
  have h2 := span_stop (· != '`') (chars r.taxon) '`' (sep2.tail ++ (renderCell w r.spans ++ rowClose)) hq (by decide)
  have e3 : chars r.taxon ++ (sep2 ++ (renderCell w r.spans ++ rowClose)) =
      chars r.taxon ++ '`' :: (sep2.tail ++ (renderCell w r.spans ++ rowClose)) := by simp [sep2]
  simp only []
  rw [e3, h2.1, h2.2]
  have e4 : '`' :: (sep2.tail ++ (renderCell w r.spans ++ rowClose)) = sep2 ++ (renderCell w r.spans ++ rowClose) := by
    simp [sep2]
  rw [e4, stripPrefix_append]
  have e5 : (renderCell w r.spans ++ rowClose).reverse = '|' :: ' ' :: (renderCell w r.spans).reverse := by
    simp [rowClose]
  simp only [e5]
  have hcell := parse_render w hw (r.spans.map fun sp => (sp.1.toNat, sp.2.toNat))
  rw [toSpan_of_nonneg r.spans (okRow_spans r hr)] at hcell
  simp [(costOKb_spec hc).2, hcell, chars_toNat _ hv]

theorem rowLine_ne_header (src : Codes → Rat → Str) (rc : Str → Option Rat) (w : Nat) (r : Row)
    (hc : costOKb rc (src r.taxon r.cost) r.cost = true) : rowLine src w r ≠ headerLine := by
  unfold rowLine
  intro h
  cases hs : src r.taxon r.cost with
  | nil => rw [hs] at h; simp [rowOpen, sep1, headerLine] at h
  | cons a t =>
    have ha := (costOKb_spec hc).1 a (by rw [hs]; simp)
    rw [hs] at h
    simp only [rowOpen, headerLine, List.cons_append, List.nil_append, List.cons.injEq, true_and] at h
    have : a = 'C' := h.1
    subst this
    revert ha; decide

theorem classify_row (src : Codes → Rat → Str) (rc : Str → Option Rat) (w : Nat) (hw : 0 < w) (r : Row)
    (hc : costOKb rc (src r.taxon r.cost) r.cost = true)
    (hr : okRow r = true) : classify rc (rowLine src w r) = some (.row r) := by
  have hh := rowLine_ne_header src rc w r hc
  unfold classify
  have h1 : stripPrefix titleOpen (rowLine src w r) = none := by simp [rowLine, stripPrefix, titleOpen, rowOpen]
  have h2 : stripPrefix headOpen (rowLine src w r) = none := by simp [rowLine, stripPrefix, headOpen, rowOpen]
  have h3 : rowLine src w r ≠ [] := by simp [rowLine, rowOpen]
  have h4 : rowLine src w r ≠ ruleLine := by simp [rowLine, rowOpen, ruleLine]
  have h5 : rowLine src w r ≠ hrLine := by simp [rowLine, rowOpen, hrLine]
  rw [h1, h2]
  simp only [h3, hh, h4, h5, if_false]
  unfold rowLine
  rw [stripPrefix_append]
  exact parseRow_line src rc w hw r hc hr

/-! ### The four fixed lines -/

theorem classify_blank (rc : Str → Option Rat) : classify rc [] = some .blank := rfl
theorem classify_header (rc : Str → Option Rat) : classify rc headerLine = some .header := by
  simp [classify, stripPrefix, titleOpen, headOpen, headerLine]
theorem classify_rule (rc : Str → Option Rat) : classify rc ruleLine = some .rule := by
  simp [classify, stripPrefix, titleOpen, headOpen, headerLine, ruleLine]
theorem classify_hr (rc : Str → Option Rat) : classify rc hrLine = some .hr := by
  simp [classify, stripPrefix, titleOpen, headOpen, headerLine, ruleLine, hrLine]

/-! ### The fold -/

/-- The hygiene of one row / one section, names and cost texts together. -/
def RowOK (src : Codes → Rat → Str) (rc : Str → Option Rat) (r : Row) : Prop :=
  okRow r = true ∧ costOKb rc (src r.taxon r.cost) r.cost = true

def SecOK (sc : Rat → Str) (src : Codes → Rat → Str) (rc : Str → Option Rat) (s : Section) : Prop :=
  okPath s.path = true ∧ costOKb rc (sc s.cost) s.cost = true ∧ ∀ r ∈ s.rows, RowOK src rc r

theorem fold_rows (src : Codes → Rat → Str) (rc : Str → Option Rat) (w : Nat) (hw : 0 < w) (s : St) :
    ∀ rows : List Row, (∀ r ∈ rows, RowOK src rc r) →
      (rows.map (rowLine src w)).foldr (step rc) (some s) = some { s with rows := rows ++ s.rows }
  | [], _ => rfl
  | r :: t, h => by
    have ih := fold_rows src rc w hw s t fun x hx => h x (List.mem_cons_of_mem _ hx)
    simp only [List.map_cons, List.foldr_cons, ih]
    have hr := h r (by simp)
    simp [step, classify_row src rc w hw r hr.2 hr.1]

theorem fold_section (sc : Rat → Str) (src : Codes → Rat → Str) (rc : Str → Option Rat) (w : Nat) (hw : 0 < w)
    (sec : Section) (hs : SecOK sc src rc sec) (s : St) (h0 : s.rows = []) :
    (renderSection sc src w sec).foldr (step rc) (some s) = some { s with secs := sec :: s.secs } := by
  unfold renderSection
  simp only [List.foldr_cons, List.foldr_append, List.foldr_nil]
  have e1 : step rc hrLine (some s) = some s := by simp [step, classify_hr]
  have e2 : ∀ x : St, step rc [] (some x) = some x := by intro x; simp [step, classify_blank]
  rw [e1, e2, fold_rows src rc w hw s sec.rows hs.2.2]
  have e3 : ∀ x : St, step rc ruleLine (some x) = some x := by intro x; simp [step, classify_rule]
  have e4 : ∀ x : St, step rc headerLine (some x) = some x := by intro x; simp [step, classify_header]
  rw [e3, e4, e2]
  have e5 : ∀ x : St, step rc (titleLine sc sec) (some x) =
      some { x with rows := [], secs := ⟨sec.path, sec.cost, x.rows⟩ :: x.secs } := by
    intro x; simp [step, classify_title sc rc sec hs.2.1 hs.1]
  rw [e5, e2]
  cases s; cases sec; simp_all

theorem fold_sections (sc : Rat → Str) (src : Codes → Rat → Str) (rc : Str → Option Rat) (w : Nat) (hw : 0 < w) (s : St)
    (h0 : s.rows = []) :
    ∀ secs : List Section, (∀ x ∈ secs, SecOK sc src rc x) →
      (secs.flatMap (renderSection sc src w)).foldr (step rc) (some s) = some { s with secs := secs ++ s.secs }
  | [], _ => rfl
  | a :: t, h => by
    have ih := fold_sections sc src rc w hw s h0 t fun x hx => h x (List.mem_cons_of_mem _ hx)
    simp only [List.flatMap_cons, List.foldr_append, ih]
    rw [fold_section sc src rc w hw a (h a (by simp)) _ (by simpa using h0)]
    simp

theorem fold_bucket (sc : Rat → Str) (src : Codes → Rat → Str) (rc : Str → Option Rat) (w : Nat) (hw : 0 < w)
    (g : Bucket × List Section) (hg : ∀ x ∈ g.2, SecOK sc src rc x) (bks : List (Bucket × List Section)) :
    (renderBucket sc src w g).foldr (step rc) (some ⟨[], [], bks⟩) = some ⟨[], [], g :: bks⟩ := by
  unfold renderBucket
  simp only [List.foldr_cons]
  rw [fold_sections sc src rc w hw ⟨[], [], bks⟩ rfl g.2 hg]
  simp [step, classify_heading, classify_blank]

theorem fold_body (sc : Rat → Str) (src : Codes → Rat → Str) (rc : Str → Option Rat) (w : Nat) (hw : 0 < w) :
    ∀ b : List (Bucket × List Section), (∀ g ∈ b, ∀ x ∈ g.2, SecOK sc src rc x) →
      (renderBody sc src w b).foldr (step rc) (some ⟨[], [], []⟩) = some ⟨[], [], b⟩
  | [], _ => rfl
  | g :: t, h => by
    have ih := fold_body sc src rc w hw t fun g' hg' => h g' (List.mem_cons_of_mem _ hg')
    simp only [renderBody, List.flatMap_cons, List.foldr_append] at ih ⊢
    rw [ih]
    exact fold_bucket sc src rc w hw g (h g (by simp)) t

theorem secOK_of (sc : Rat → Str) (src : Codes → Rat → Str) (rc : Str → Option Rat)
    (b : List (Bucket × List Section)) (hb : okBody b = true) (hc : costsOK sc src rc b = true) :
    ∀ g ∈ b, ∀ x ∈ g.2, SecOK sc src rc x := by
  intro g hg x hx
  simp only [okBody, okSection, costsOK, List.all_eq_true, Bool.and_eq_true] at hb hc
  have h1 := hb g hg x hx
  have h2 := hc g hg x hx
  exact ⟨h1.1, h2.1, fun r hr => ⟨h1.2 r hr, h2.2 r hr⟩⟩

theorem parse_render_body (sc : Rat → Str) (src : Codes → Rat → Str) (rc : Str → Option Rat) (w : Nat) (hw : 0 < w)
    (b : List (Bucket × List Section)) (hb : okBody b = true) (hc : costsOK sc src rc b = true) :
    parseBody rc (renderBody sc src w b) = some b := by
  simp [parseBody, fold_body sc src rc w hw b (secOK_of sc src rc b hb hc)]

/-! ### Soundness of the reader on ARBITRARY lines: the counts -/

theorem fold_counts (rc : Str → Option Rat) (s0 : St) : ∀ (lines : List Str) (s : St),
    lines.foldr (step rc) (some s0) = some s →
    ∀ g ∈ s.bks, g ∈ s0.bks ∨ ∃ l ∈ lines, classify rc l = some (.heading g.1 g.2.length)
  | [], s, h, g, hg => by
    simp only [List.foldr_nil, Option.some.injEq] at h
    subst h
    exact Or.inl hg
  | l :: t, s, h, g, hg => by
    simp only [List.foldr_cons] at h
    cases ht : t.foldr (step rc) (some s0) with
    | none => rw [ht] at h; simp [step] at h
    | some s1 =>
      rw [ht] at h
      have ih := fold_counts rc s0 t s1 ht
      have lift : (g ∈ s1.bks) → g ∈ s0.bks ∨ ∃ l' ∈ l :: t, classify rc l' = some (.heading g.1 g.2.length) := by
        intro hg1
        rcases ih g hg1 with h0 | ⟨l', hl', hc'⟩
        · exact Or.inl h0
        · exact Or.inr ⟨l', List.mem_cons_of_mem _ hl', hc'⟩
      unfold step at h
      simp only at h
      cases hc : classify rc l with
      | none => rw [hc] at h; simp at h
      | some ln =>
        rw [hc] at h
        cases ln with
        | blank | header | rule | hr =>
          simp only [Option.some.injEq] at h; subst h; exact lift hg
        | row r => simp only [Option.some.injEq] at h; subst h; exact lift hg
        | title p c => simp only [Option.some.injEq] at h; subst h; exact lift hg
        | heading bk n =>
          simp only at h
          split at h
          · rename_i hcond
            simp only [Option.some.injEq] at h
            subst h
            simp only [Bool.and_eq_true, beq_iff_eq] at hcond
            simp only [List.mem_cons] at hg
            rcases hg with rfl | hg
            · refine Or.inr ⟨l, by simp, ?_⟩
              rw [hc, hcond.2]
            · exact lift hg
          · simp at h

theorem parseBody_counts (rc : Str → Option Rat) (lines : List Str) (b : List (Bucket × List Section))
    (h : parseBody rc lines = some b) (g : Bucket × List Section) (hg : g ∈ b) :
    ∃ l ∈ lines, classify rc l = some (.heading g.1 g.2.length) := by
  unfold parseBody at h
  cases hf : lines.foldr (step rc) (some ⟨[], [], []⟩) with
  | none => rw [hf] at h; simp at h
  | some s =>
    rw [hf] at h
    obtain ⟨rows, secs, bks⟩ := s
    cases rows <;> cases secs <;> simp at h
    subst h
    rcases fold_counts rc ⟨[], [], []⟩ lines _ hf g hg with h0 | h1
    · simp at h0
    · exact h1

/-! ### Soundness of the reader on ARBITRARY lines: nothing is invented -/

/-- The row / section / group comes from lines of the text that `classify` reads so. -/
def RowFrom (rc : Str → Option Rat) (lines : List Str) (r : Row) : Prop :=
  ∃ l ∈ lines, classify rc l = some (.row r)

def SecFrom (rc : Str → Option Rat) (lines : List Str) (sec : Section) : Prop :=
  (∃ l ∈ lines, classify rc l = some (.title sec.path sec.cost)) ∧ ∀ r ∈ sec.rows, RowFrom rc lines r

def GroupFrom (rc : Str → Option Rat) (lines : List Str) (g : Bucket × List Section) : Prop :=
  (∃ l ∈ lines, classify rc l = some (.heading g.1 g.2.length)) ∧ ∀ sec ∈ g.2, SecFrom rc lines sec

def SoundSt (rc : Str → Option Rat) (lines : List Str) (s : St) : Prop :=
  (∀ r ∈ s.rows, RowFrom rc lines r) ∧ (∀ sec ∈ s.secs, SecFrom rc lines sec) ∧ ∀ g ∈ s.bks, GroupFrom rc lines g

theorem RowFrom.mono {rc : Str → Option Rat} {lines : List Str} {r : Row} (l0 : Str) (h : RowFrom rc lines r) :
    RowFrom rc (l0 :: lines) r := by
  obtain ⟨l, hl, hc⟩ := h
  exact ⟨l, List.mem_cons_of_mem _ hl, hc⟩

theorem SecFrom.mono {rc : Str → Option Rat} {lines : List Str} {sec : Section} (l0 : Str) (h : SecFrom rc lines sec) :
    SecFrom rc (l0 :: lines) sec := by
  obtain ⟨⟨l, hl, hc⟩, hr⟩ := h
  exact ⟨⟨l, List.mem_cons_of_mem _ hl, hc⟩, fun r hr' => (hr r hr').mono l0⟩

theorem GroupFrom.mono {rc : Str → Option Rat} {lines : List Str} {g : Bucket × List Section} (l0 : Str)
    (h : GroupFrom rc lines g) : GroupFrom rc (l0 :: lines) g := by
  obtain ⟨⟨l, hl, hc⟩, hs⟩ := h
  exact ⟨⟨l, List.mem_cons_of_mem _ hl, hc⟩, fun sec hsec => (hs sec hsec).mono l0⟩

theorem SoundSt.mono {rc : Str → Option Rat} {lines : List Str} {s : St} (l0 : Str) (h : SoundSt rc lines s) :
    SoundSt rc (l0 :: lines) s :=
  ⟨fun r hr => (h.1 r hr).mono l0, fun sec hs => (h.2.1 sec hs).mono l0, fun g hg => (h.2.2 g hg).mono l0⟩

theorem fold_sound (rc : Str → Option Rat) : ∀ (lines : List Str) (s : St),
    lines.foldr (step rc) (some ⟨[], [], []⟩) = some s → SoundSt rc lines s
  | [], s, h => by
    simp only [List.foldr_nil, Option.some.injEq] at h
    subst h
    exact ⟨by simp, by simp, by simp⟩
  | l :: t, s, h => by
    simp only [List.foldr_cons] at h
    cases ht : t.foldr (step rc) (some ⟨[], [], []⟩) with
    | none => rw [ht] at h; simp [step] at h
    | some s1 =>
      rw [ht] at h
      have ih := (fold_sound rc t s1 ht).mono l
      unfold step at h
      simp only at h
      cases hc : classify rc l with
      | none => rw [hc] at h; simp at h
      | some ln =>
        rw [hc] at h
        cases ln with
        | blank | header | rule | hr => simp only [Option.some.injEq] at h; subst h; exact ih
        | row r =>
          simp only [Option.some.injEq] at h; subst h
          refine ⟨fun r' hr' => ?_, ih.2.1, ih.2.2⟩
          simp only [List.mem_cons] at hr'
          rcases hr' with rfl | hr'
          · exact ⟨l, by simp, hc⟩
          · exact ih.1 r' hr'
        | title p c =>
          simp only [Option.some.injEq] at h; subst h
          refine ⟨by simp, fun sec hsec => ?_, ih.2.2⟩
          simp only [List.mem_cons] at hsec
          rcases hsec with rfl | hsec
          · exact ⟨⟨l, by simp, hc⟩, ih.1⟩
          · exact ih.2.1 sec hsec
        | heading bk n =>
          simp only at h
          split at h
          · rename_i hcond
            simp only [Option.some.injEq] at h
            subst h
            simp only [Bool.and_eq_true, beq_iff_eq] at hcond
            refine ⟨by simp, by simp, fun g hg => ?_⟩
            simp only [List.mem_cons] at hg
            rcases hg with rfl | hg
            · exact ⟨⟨l, by simp, by rw [hc, hcond.2]⟩, ih.2.1⟩
            · exact ih.2.2 g hg
          · simp at h

theorem parseBody_sound (rc : Str → Option Rat) (lines : List Str) (b : List (Bucket × List Section))
    (h : parseBody rc lines = some b) : ∀ g ∈ b, GroupFrom rc lines g := by
  unfold parseBody at h
  cases hf : lines.foldr (step rc) (some ⟨[], [], []⟩) with
  | none => rw [hf] at h; simp at h
  | some s =>
    rw [hf] at h
    obtain ⟨rows, secs, bks⟩ := s
    cases rows <;> cases secs <;> simp at h
    subst h
    exact (fold_sound rc lines _ hf).2.2

/-! ### The strict reader accepts what the model writes -/

def kindsSection (s : Section) : List Line :=
  .blank :: .title s.path s.cost :: .blank :: .header :: .rule :: (s.rows.map .row ++ [.blank, .hr])

def kindsBucket (g : Bucket × List Section) : List Line :=
  .blank :: .heading g.1 g.2.length :: g.2.flatMap kindsSection

theorem classifyAll_append (rc : Str → Option Rat) : ∀ (a b : List Str) (x y : List Line),
    classifyAll rc a = some x → classifyAll rc b = some y → classifyAll rc (a ++ b) = some (x ++ y)
  | [], b, x, y, ha, hb => by
    simp only [classifyAll, Option.some.injEq] at ha
    subst ha
    simpa using hb
  | l :: t, b, x, y, ha, hb => by
    simp only [classifyAll] at ha
    cases hk : classify rc l with
    | none => simp [hk] at ha
    | some k =>
      cases ht : classifyAll rc t with
      | none => simp [hk, ht] at ha
      | some ks =>
        simp only [hk, ht, Option.some.injEq] at ha
        subst ha
        have := classifyAll_append rc t b ks y ht hb
        simp [classifyAll, hk, this]

theorem classifyAll_flatMap (rc : Str → Option Rat) {α : Type} (f : α → List Str) (g : α → List Line) :
    ∀ xs : List α, (∀ x ∈ xs, classifyAll rc (f x) = some (g x)) →
      classifyAll rc (xs.flatMap f) = some (xs.flatMap g)
  | [], _ => rfl
  | a :: t, h => by
    simp only [List.flatMap_cons]
    exact classifyAll_append rc _ _ _ _ (h a (by simp))
      (classifyAll_flatMap rc f g t fun x hx => h x (List.mem_cons_of_mem _ hx))

theorem classifyAll_rows (src : Codes → Rat → Str) (rc : Str → Option Rat) (w : Nat) (hw : 0 < w) :
    ∀ rows : List Row, (∀ r ∈ rows, RowOK src rc r) →
      classifyAll rc (rows.map (rowLine src w)) = some (rows.map .row)
  | [], _ => rfl
  | r :: t, h => by
    have ih := classifyAll_rows src rc w hw t fun x hx => h x (List.mem_cons_of_mem _ hx)
    have hr := h r (by simp)
    simp [classifyAll, classify_row src rc w hw r hr.2 hr.1, ih]

theorem classifyAll_section (sc : Rat → Str) (src : Codes → Rat → Str) (rc : Str → Option Rat) (w : Nat) (hw : 0 < w)
    (sec : Section) (hs : SecOK sc src rc sec) :
    classifyAll rc (renderSection sc src w sec) = some (kindsSection sec) := by
  have h1 := classifyAll_rows src rc w hw sec.rows hs.2.2
  have h2 : classifyAll rc [[], hrLine] = some [.blank, .hr] := by
    simp [classifyAll, classify_blank, classify_hr]
  have h3 := classifyAll_append rc _ _ _ _ h1 h2
  simp [renderSection, kindsSection, classifyAll, classify_blank, classify_title sc rc sec hs.2.1 hs.1, classify_header,
    classify_rule, h3]

theorem classifyAll_bucket (sc : Rat → Str) (src : Codes → Rat → Str) (rc : Str → Option Rat) (w : Nat) (hw : 0 < w)
    (g : Bucket × List Section) (hg : ∀ x ∈ g.2, SecOK sc src rc x) :
    classifyAll rc (renderBucket sc src w g) = some (kindsBucket g) := by
  have h := classifyAll_flatMap rc (renderSection sc src w) kindsSection g.2
    fun x hx => classifyAll_section sc src rc w hw x (hg x hx)
  simp [renderBucket, kindsBucket, classifyAll, classify_blank, classify_heading, h]

theorem classifyAll_body (sc : Rat → Str) (src : Codes → Rat → Str) (rc : Str → Option Rat) (w : Nat) (hw : 0 < w)
    (b : List (Bucket × List Section)) (hb : ∀ g ∈ b, ∀ x ∈ g.2, SecOK sc src rc x) :
    classifyAll rc (renderBody sc src w b) = some (b.flatMap kindsBucket) :=
  classifyAll_flatMap rc (renderBucket sc src w) kindsBucket b
    fun g hg => classifyAll_bucket sc src rc w hw g (hb g hg)

theorem runPhase_append : ∀ (a b : List Line) (ph : Phase),
    runPhase ph (a ++ b) = (runPhase ph a).bind fun ph' => runPhase ph' b
  | [], b, ph => rfl
  | k :: t, b, ph => by
    simp only [List.cons_append, runPhase]
    cases next ph k with
    | none => rfl
    | some ph' => exact runPhase_append t b ph'

theorem runPhase_rows : ∀ rows : List Row, runPhase .s4 (rows.map Line.row) = some .s4
  | [] => rfl
  | _ :: t => by simp [runPhase, next, runPhase_rows t]

theorem runPhase_section (sec : Section) : runPhase .b (kindsSection sec) = some .b := by
  simp [kindsSection, runPhase, next, runPhase_append, runPhase_rows]

theorem runPhase_sections : ∀ secs : List Section, runPhase .b (secs.flatMap kindsSection) = some .b
  | [] => rfl
  | a :: t => by simp [List.flatMap_cons, runPhase_append, runPhase_section, runPhase_sections t]

theorem runPhase_bucket (g : Bucket × List Section) (ph : Phase) (h : ph = .p0 ∨ ph = .b) :
    runPhase ph (kindsBucket g) = some .b := by
  rcases h with rfl | rfl <;> simp [kindsBucket, runPhase, next, runPhase_sections]

theorem runPhase_body : ∀ (b : List (Bucket × List Section)) (ph : Phase), ph = .p0 ∨ ph = .b →
    ∃ ph', (ph' = .p0 ∨ ph' = .b) ∧ runPhase ph (b.flatMap kindsBucket) = some ph'
  | [], ph, h => ⟨ph, h, rfl⟩
  | g :: t, ph, h => by
    obtain ⟨ph', h', e⟩ := runPhase_body t .b (.inr rfl)
    exact ⟨ph', h', by simp [List.flatMap_cons, runPhase_append, runPhase_bucket g ph h, e]⟩

theorem parse_render_body_strict (sc : Rat → Str) (src : Codes → Rat → Str) (rc : Str → Option Rat) (w : Nat) (hw : 0 < w)
    (b : List (Bucket × List Section)) (hb : okBody b = true) (hc : costsOK sc src rc b = true) :
    parseBodyStrict rc (renderBody sc src w b) = some b := by
  unfold parseBodyStrict
  rw [classifyAll_body sc src rc w hw b (secOK_of sc src rc b hb hc)]
  obtain ⟨ph', h', e⟩ := runPhase_body b .p0 (.inl rfl)
  simp only [e]
  have : accepting ph' = true := by rcases h' with rfl | rfl <;> rfl
  simp [this, parse_render_body sc src rc w hw b hb hc]

theorem parseBodyStrict_le (rc : Str → Option Rat) (lines : List Str) (b : List (Bucket × List Section))
    (h : parseBodyStrict rc lines = some b) : parseBody rc lines = some b := by
  unfold parseBodyStrict at h
  cases hk : classifyAll rc lines with
  | none => simp [hk] at h
  | some ks =>
    simp only [hk] at h
    cases hr : runPhase .p0 ks with
    | none => simp [hr] at h
    | some ph =>
      simp only [hr] at h
      split at h
      · exact h
      · simp at h

/-! ### From the lines to the text: `"\n".join` / `split("\n")`, and no line of the model contains a newline -/

theorem splitLines_noNl : ∀ a : Str, '\n' ∉ a → splitLines a = [a]
  | [], _ => rfl
  | c :: t, h => by
    have hc : c ≠ '\n' := fun e => h (by simp [e])
    have ih := splitLines_noNl t fun e => h (List.mem_cons_of_mem _ e)
    simp [splitLines, hc, ih]

theorem splitLines_append : ∀ (a rest : Str), '\n' ∉ a → splitLines (a ++ '\n' :: rest) = a :: splitLines rest
  | [], rest, _ => by simp [splitLines]
  | c :: t, rest, h => by
    have hc : c ≠ '\n' := fun e => h (by simp [e])
    have ih := splitLines_append t rest fun e => h (List.mem_cons_of_mem _ e)
    simp [splitLines, hc, ih]

theorem splitLines_joinLines : ∀ ls : List Str, ls ≠ [] → (∀ l ∈ ls, '\n' ∉ l) → splitLines (joinLines ls) = ls
  | [], h, _ => absurd rfl h
  | [a], _, h => by simpa [joinLines] using splitLines_noNl a (h a (by simp))
  | a :: b :: t, _, h => by
    have ih := splitLines_joinLines (b :: t) (by simp) fun l hl => h l (List.mem_cons_of_mem _ hl)
    simp only [joinLines]
    rw [splitLines_append a _ (h a (by simp)), ih]

theorem mem_joinWith (sep : Str) : ∀ (ls : List Str) (c : Char), c ∈ joinWith sep ls → c ∈ sep ∨ ∃ l ∈ ls, c ∈ l
  | [], c, h => by simp [joinWith] at h
  | [a], c, h => .inr ⟨a, by simp, by simpa [joinWith] using h⟩
  | a :: b :: t, c, h => by
    simp only [joinWith, List.mem_append] at h
    rcases h with (h | h) | h
    · exact .inr ⟨a, by simp, h⟩
    · exact .inl h
    · rcases mem_joinWith sep (b :: t) c h with h | ⟨l, hl, hc⟩
      · exact .inl h
      · exact .inr ⟨l, List.mem_cons_of_mem _ hl, hc⟩

theorem mem_wrapLines (W : Nat) (hW : 1 ≤ W) (s : Str) (hh : ∀ x t, s = x :: t → x ≠ ' ') (l : Str)
    (hl : l ∈ wrapLines W 3 s) (c : Char) (hc : c ∈ l) : c = ' ' ∨ c ∈ s := by
  have hsp := wrapContents_spdel W 3 hW s hh
  unfold wrapLines at hl
  cases hw : wrapContents W 3 s with
  | nil => rw [hw] at hl; simp at hl
  | cons l0 r =>
    rw [hw] at hl hsp
    simp only [List.mem_cons] at hl
    rcases hl with rfl | hl
    · simp only [List.mem_append, List.mem_replicate] at hc
      rcases hc with ⟨_, rfl⟩ | hc
      · exact .inl rfl
      · exact .inr (hsp.mem c (by simp [hc]))
    · exact .inr (hsp.mem c (List.mem_flatten.mpr ⟨l, List.mem_cons_of_mem _ hl, hc⟩))

theorem enum_no_nl (W : Nat) (hW : 1 ≤ W) (s : Str) (hh : ∀ x t, s = x :: t → x ≠ ' ') (hs : '\n' ∉ s) :
    '\n' ∉ enumerationToTxt W imported s := by
  have hline : ∀ l ∈ wrapLines W 3 s, '\n' ∉ l := fun l hl hcl => by
    rcases mem_wrapLines W hW s hh l hl _ hcl with h | h
    · exact absurd h (by decide)
    · exact hs h
  unfold enumerationToTxt
  split
  · simp [imported_eq]
  · split
    · exact hs
    · intro hc
      simp only [List.mem_append] at hc
      rcases hc with (((h | h) | h) | h) | h
      · simp [tagOpen_eq] at h
      · have h' := List.mem_of_mem_drop h
        cases hl : wrapLines W 3 s with
        | nil => rw [hl] at h'; simp at h'
        | cons a t => rw [hl] at h'; exact hline a (by rw [hl]; simp) (by simpa using h')
      · simp [tagMid_eq] at h
      · rcases mem_joinWith _ _ _ h with h | ⟨l, hl, hc⟩
        · simp [tagBr_eq] at h
        · exact hline l (List.mem_of_mem_tail hl) hc
      · simp [tagClose_eq] at h

theorem renderCell_no_nl (W : Nat) (hW : 1 ≤ W) (spans : List Span) (hn : ∀ sp ∈ spans, 0 ≤ sp.1 ∧ 0 ≤ sp.2) :
    '\n' ∉ renderCell W spans := by
  rw [← toSpan_of_nonneg spans hn]
  unfold renderCell
  refine enum_no_nl W hW _ (fun x t e => (wordCh_ne x (join_head _ x t e)).1) ?_
  intro h
  rcases join_chars _ _ h with h | h | h
  · revert h; decide
  · exact absurd h (by decide)
  · exact absurd h (by decide)

theorem costChar_ne_nl (x : Char) (h : costChar x = true) : x ≠ '\n' := by
  intro e; subst e; revert h; decide

theorem chars_no_nl (t : Codes) (h : ∀ n ∈ t, n.isValidChar ∧ n ≠ 10) : '\n' ∉ chars t := by
  intro hc
  simp only [chars, List.mem_map] at hc
  obtain ⟨n, hn, e⟩ := hc
  have := congrArg Char.toNat e
  simp [Char.ofNat, (h n hn).1, Char.ofNatAux, Char.toNat] at this
  exact (h n hn).2 this

theorem nat_no_nl (n : Nat) : '\n' ∉ nat n := fun h => by
  have := nat_digits n _ h
  revert this; decide

theorem bucketText_no_nl (b : Bucket) : '\n' ∉ bucketText b := by
  cases b with
  | pow lo =>
    simp only [bucketText, List.mem_append, not_or]
    exact ⟨by decide, nat_no_nl lo, ⟨by decide, nat_no_nl _⟩, by decide⟩
  | zero => decide
  | q1 => decide
  | q2 => decide
  | q3 => decide
  | noGroup => decide

theorem headingLine_no_nl (b : Bucket) (n : Nat) : '\n' ∉ headingLine b n := by
  simp only [headingLine, List.mem_append, not_or]
  refine ⟨by decide, nat_no_nl n, ⟨⟨by decide, ?_⟩, by decide⟩, bucketText_no_nl b⟩
  unfold plural; split <;> decide

theorem renderBody_no_nl (sc : Rat → Str) (src : Codes → Rat → Str) (rc : Str → Option Rat) (w : Nat) (hw : 0 < w)
    (b : List (Bucket × List Section)) (hb : okBody b = true) (hc : costsOK sc src rc b = true) :
    ∀ l ∈ renderBody sc src w b, '\n' ∉ l := by
  intro l hl
  simp only [renderBody, List.mem_flatMap] at hl
  obtain ⟨g, hg, hl⟩ := hl
  simp only [renderBucket, List.mem_cons, List.mem_flatMap] at hl
  rcases hl with rfl | rfl | ⟨sec, hsec, hl⟩
  · simp
  · exact headingLine_no_nl _ _
  · obtain ⟨hp, hcost, hrows⟩ := secOK_of sc src rc b hb hc g hg sec hsec
    simp only [renderSection, List.mem_cons, List.mem_append, List.mem_map, List.not_mem_nil, or_false] at hl
    have hpath : ∀ n ∈ sec.path, n.isValidChar ∧ n ≠ 10 := by
      intro n hn
      have := List.all_eq_true.mp hp n hn
      simpa using this
    rcases hl with rfl | rfl | rfl | rfl | rfl | ⟨r, hr, rfl⟩ | rfl | rfl
    · simp
    · simp only [titleLine, List.mem_append, not_or]
      exact ⟨by decide, chars_no_nl _ hpath, by decide, fun h => costChar_ne_nl _ ((costOKb_spec hcost).1 _ h) rfl, by decide⟩
    · simp
    · decide
    · decide
    · obtain ⟨hok, hcr⟩ := hrows r hr
      have htax : ∀ n ∈ r.taxon, n.isValidChar ∧ n ≠ 10 := by
        intro n hn
        simp only [okRow, okTaxon, Bool.and_eq_true, List.all_eq_true] at hok
        have := hok.1 n hn
        simp only [Bool.and_eq_true, bne_iff_ne, ne_eq, decide_eq_true_eq] at this
        exact ⟨this.1.1, this.2⟩
      simp only [rowLine, List.mem_append, not_or]
      exact ⟨by decide, fun h => costChar_ne_nl _ ((costOKb_spec hcr).1 _ h) rfl, by decide, chars_no_nl _ htax, by decide,
        renderCell_no_nl w hw r.spans (okRow_spans r hok), by decide⟩
    · simp
    · decide

theorem parse_render_text (sc : Rat → Str) (src : Codes → Rat → Str) (rc : Str → Option Rat) (w : Nat) (hw : 0 < w)
    (b : List (Bucket × List Section)) (hb : okBody b = true) (hc : costsOK sc src rc b = true) :
    parseBody rc (splitLines (joinLines (renderBody sc src w b))) = some b := by
  cases hne : renderBody sc src w b with
  | nil =>
    cases b with
    | nil => simp [joinLines, splitLines, parseBody, step, classify_blank]
    | cons g t => simp [renderBody, renderBucket] at hne
  | cons l r =>
    rw [← hne, splitLines_joinLines _ (by simp [hne]) (renderBody_no_nl sc src rc w hw b hb hc)]
    exact parse_render_body sc src rc w hw b hb hc

theorem parse_render_text_strict (sc : Rat → Str) (src : Codes → Rat → Str) (rc : Str → Option Rat) (w : Nat)
    (hw : 0 < w) (b : List (Bucket × List Section)) (hb : okBody b = true) (hc : costsOK sc src rc b = true) :
    parseBodyStrict rc (splitLines (joinLines (renderBody sc src w b))) = some b := by
  cases hne : renderBody sc src w b with
  | nil =>
    cases b with
    | nil =>
      simp [joinLines, splitLines, parseBodyStrict, classifyAll, classify_blank, runPhase, next, accepting, parseBody, step]
    | cons g t => simp [renderBody, renderBucket] at hne
  | cons l r =>
    rw [← hne, splitLines_joinLines _ (by simp [hne]) (renderBody_no_nl sc src rc w hw b hb hc)]
    exact parse_render_body_strict sc src rc w hw b hb hc

end Paroxy.ReportText
