import Paroxy.Model.JsonText

/-!
# Proofs about the JSON text layer (Model/JsonText.lean)

* `escStr_printable` / `quote_no_raw_newline`: a string literal written by `dumps2` consists of printable ASCII only.
* `lex_compactF`: the compaction scanner never changes the token sequence of a text that lexes — in particular it
  never matches inside a string literal (there a match needs a raw newline right after `[`, which `lex` rejects).
* `loads_compact`: hence `loads (compact t) = loads t` whenever `loads t` succeeds, for EVERY text `t`.
-/

namespace Paroxy.JsonText

/-! ## strings are written with printable ASCII only -/

theorem hexDigit_range (n : Nat) : 48 ≤ hexDigit n ∧ hexDigit n ≤ 102 := by
  unfold hexDigit; split <;> omega

theorem uEsc_printable (u x : Nat) (hx : x ∈ uEsc u) : 32 ≤ x ∧ x ≤ 126 := by
  have h1 := hexDigit_range (u / 4096)
  have h2 := hexDigit_range (u / 256)
  have h3 := hexDigit_range (u / 16)
  have h4 := hexDigit_range u
  simp only [uEsc, List.mem_cons, List.not_mem_nil, or_false] at hx
  rcases hx with rfl | rfl | rfl | rfl | rfl | rfl <;> omega

theorem escChar_printable (c x : Nat) (hx : x ∈ escChar c) : 32 ≤ x ∧ x ≤ 126 := by
  unfold escChar at hx
  repeat' split at hx
  all_goals first
    | (simp only [List.mem_cons, List.not_mem_nil, or_false] at hx; rcases hx with rfl | rfl <;> omega)
    | (simp only [List.mem_cons, List.not_mem_nil, or_false] at hx; omega)
    | exact uEsc_printable _ _ hx
    | (rcases List.mem_append.1 hx with h | h <;> exact uEsc_printable _ _ h)

theorem escStr_printable (s : Str) (x : Nat) (hx : x ∈ escStr s) : 32 ≤ x ∧ x ≤ 126 := by
  induction s with
  | nil => simp [escStr] at hx
  | cons c s ih =>
    rcases List.mem_append.1 (by simpa [escStr] using hx) with h | h
    · exact escChar_printable _ _ h
    · exact ih h

theorem quote_printable (s : Str) (x : Nat) (hx : x ∈ quote s) : 32 ≤ x ∧ x ≤ 126 := by
  simp only [quote, List.mem_cons, List.mem_append, List.not_mem_nil, or_false] at hx
  rcases hx with rfl | h | rfl
  · omega
  · exact escStr_printable _ _ h
  · omega

/-! ## the lexer through the compaction -/

def pre (T : List Tok) (o : Option (List Tok)) : Option (List Tok) := o.map (T ++ ·)

@[simp] theorem pre_pre (T1 T2 : List Tok) (o) : pre T1 (pre T2 o) = pre (T1 ++ T2) o := by
  cases o <;> simp [pre]
@[simp] theorem pre_nil (o) : pre [] o = o := by cases o <;> simp [pre]
@[simp] theorem pre_some (T r) : pre T (some r) = some (T ++ r) := rfl
@[simp] theorem pre_none (T) : pre T none = none := rfl

theorem pre_eq_some {T o toks} (h : pre T o = some toks) : ∃ r, o = some r ∧ toks = T ++ r := by
  cases o with
  | none => simp at h
  | some r => exact ⟨r, rfl, by simpa using h.symm⟩

theorem lex_cons (st : St) (c : Nat) (t : Str) :
    lex st (c :: t) = match step st c with
      | none => none
      | some (st', em) => pre em (lex st' t) := by
  cases st <;> rfl

theorem isWs_not_digit {c : Nat} (h : isWs c = true) : isDigit c = false := by
  simp only [isWs, wsList, List.contains_eq_mem, List.mem_cons, List.not_mem_nil, or_false, decide_eq_true_eq] at h
  simp only [isDigit, Bool.and_eq_false_iff, decide_eq_false_iff_not]
  omega

theorem stepOut_ws {c : Nat} (h : isWs c = true) : stepOut c = some (.out, []) := by
  simp [stepOut, h]

theorem stepOut_digit {c : Nat} (h : isDigit c = true) : stepOut c = some (.num [c], []) := by
  have hw : isWs c = false := by
    cases hh : isWs c with
    | false => rfl
    | true => rw [isWs_not_digit hh] at h; cases h
  have : 48 ≤ c ∧ c ≤ 57 := by simpa [isDigit] using h
  have h1 : c ≠ 91 := by omega
  have h2 : c ≠ 93 := by omega
  have h3 : c ≠ 123 := by omega
  have h4 : c ≠ 125 := by omega
  have h5 : c ≠ 44 := by omega
  have h6 : c ≠ 58 := by omega
  have h7 : c ≠ 34 := by omega
  simp [stepOut, hw, h, h1, h2, h3, h4, h5, h6, h7]

theorem lex_out_ws {c : Nat} (h : isWs c = true) (t : Str) : lex .out (c :: t) = lex .out t := by
  rw [lex_cons]; simp [step, stepOut_ws h]

theorem lex_out_skipWs (t : Str) : lex .out (skipWs t) = lex .out t := by
  induction t with
  | nil => rfl
  | cons c t ih =>
    unfold skipWs
    split
    · rename_i h; rw [ih, lex_out_ws h]
    · rfl

theorem lex_num_cons (acc : Str) (c : Nat) (t : Str) :
    lex (.num acc) (c :: t) =
      if isDigit c then lex (.num (acc ++ [c])) t else pre [Tok.num acc] (lex .out (c :: t)) := by
  rw [lex_cons, lex_cons]
  by_cases h : isDigit c = true
  · simp [step, h]
  · simp only [step, h]
    cases stepOut c with
    | none => simp
    | some p => cases p; simp

theorem lex_num_span (t : Str) : ∀ acc, lex (.num acc) t =
    pre [Tok.num (acc ++ (spanDigits t).1)] (lex .out (spanDigits t).2) := by
  induction t with
  | nil => intro acc; simp [spanDigits, lex]
  | cons c t ih =>
    intro acc
    rw [lex_num_cons]
    by_cases h : isDigit c = true
    · simp [h, spanDigits, ih]
    · simp [h, spanDigits]

theorem lex_out_span (t : Str) (h : (spanDigits t).1 ≠ []) :
    lex .out t = pre [Tok.num (spanDigits t).1] (lex .out (spanDigits t).2) := by
  cases t with
  | nil => simp [spanDigits] at h
  | cons c t =>
    by_cases hd : isDigit c = true
    · rw [lex_cons]; simp [step, stepOut_digit hd, lex_num_span, spanDigits, hd]
    · simp [spanDigits, hd] at h

theorem spanDigits_fst_digits (t : Str) : ∀ d ∈ (spanDigits t).1, isDigit d = true := by
  induction t with
  | nil => simp [spanDigits]
  | cons c t ih =>
    by_cases hd : isDigit c = true
    · simp [spanDigits, hd]; exact ih
    · simp [spanDigits, hd]

theorem spanDigits_append (ds : Str) (h : ∀ d ∈ ds, isDigit d = true) (c : Nat) (hc : isDigit c = false) (y : Str) :
    spanDigits (ds ++ c :: y) = (ds, c :: y) := by
  induction ds with
  | nil => simp [spanDigits, hc]
  | cons d ds ih =>
    have hd := h d (by simp)
    have := ih (fun e he => h e (by simp [he]))
    simp [spanDigits, hd, this]

/-- lexing a run of digits followed by a non-digit. -/
theorem lex_out_digits (ds : Str) (hne : ds ≠ []) (h : ∀ d ∈ ds, isDigit d = true) (c : Nat) (hc : isDigit c = false)
    (y : Str) : lex .out (ds ++ c :: y) = pre [Tok.num ds] (lex .out (c :: y)) := by
  have hs := spanDigits_append ds h c hc y
  have := lex_out_span (ds ++ c :: y) (by rw [hs]; exact hne)
  rw [this, hs]

theorem lex_out_lb (t : Str) : lex .out (91 :: t) = pre [Tok.lb] (lex .out t) := by
  rw [lex_cons]; rfl
theorem lex_out_rb (t : Str) : lex .out (93 :: t) = pre [Tok.rb] (lex .out t) := by
  rw [lex_cons]; rfl
theorem lex_out_comma (t : Str) : lex .out (44 :: t) = pre [Tok.comma] (lex .out t) := by
  rw [lex_cons]; rfl
theorem lex_out_nl (t : Str) : lex .out (10 :: t) = lex .out t := lex_out_ws (by decide) t


theorem optComma_lex (t : Str) : lex .out t = pre ((optComma t).1.map fun _ => Tok.comma) (lex .out (optComma t).2) := by
  unfold optComma
  split
  · simp [lex_out_comma]
  · simp

theorem optComma_fst (t : Str) : (optComma t).1 = [] ∨ (optComma t).1 = [44] := by
  unfold optComma
  split <;> simp

/-- A match, seen by the lexer in its `out` state: the matched text and its replacement are the same tokens. -/
theorem matchAt_lex {t r rest : Str} (h : matchAt t = some (r, rest)) :
    (∃ y, r = 91 :: y) ∧ ∃ T, lex .out t = pre T (lex .out rest) ∧ ∀ x, lex .out (r ++ x) = pre T (lex .out x) := by
  unfold matchAt at h
  split at h
  next t2 h0 =>
    dsimp only at h
    split at h
    · cases h
    · rename_i hd1
      split at h
      next t5 h1 =>
        split at h
        · cases h
        · rename_i hd2
          split at h
          next t8 h2 =>
            split at h
            next t10 h3 =>
              split at h
              next w t12 h4 =>
                split at h
                · rename_i hw
                  simp only [Option.some.injEq, Prod.mk.injEq] at h
                  obtain ⟨rfl, rfl⟩ := h
                  refine ⟨⟨_, rfl⟩, [Tok.lb, Tok.num (spanDigits (skipWs t2)).1, Tok.comma, Tok.num (spanDigits (skipWs t5)).1, Tok.rb]
                    ++ (optComma t10).1.map (fun _ => Tok.comma), ?_, ?_⟩
                  · rw [← lex_out_skipWs t, h0, lex_out_lb, lex_out_nl, ← lex_out_skipWs t2, lex_out_span _ hd1, h1,
                      lex_out_comma, lex_out_nl, ← lex_out_skipWs t5, lex_out_span _ hd2, h2, lex_out_nl,
                      ← lex_out_skipWs t8, h3, lex_out_rb, optComma_lex t10, h4, lex_out_ws hw, ← lex_out_skipWs t12]
                    simp
                  · intro x
                    have e : (91 :: ((spanDigits (skipWs t2)).1 ++ 44 :: ((spanDigits (skipWs t5)).1 ++ 93 :: (optComma t10).1))) ++ x
                        = 91 :: ((spanDigits (skipWs t2)).1 ++ 44 :: ((spanDigits (skipWs t5)).1 ++ 93 :: ((optComma t10).1 ++ x))) := by
                      simp
                    rw [e, lex_out_lb, lex_out_digits _ hd1 (spanDigits_fst_digits _) 44 (by decide), lex_out_comma,
                      lex_out_digits _ hd2 (spanDigits_fst_digits _) 93 (by decide), lex_out_rb]
                    rcases optComma_fst t10 with hc | hc <;> rw [hc] <;> simp [lex_out_comma]
                · cases h
              · cases h
            · cases h
          · cases h
      · cases h
  · cases h

theorem matchAt_skip {t : Str} {p : Str × Str} (h : matchAt t = some p) : ∃ t2, skipWs t = 91 :: 10 :: t2 := by
  unfold matchAt at h
  split at h
  next t2 h0 => exact ⟨t2, h0⟩
  · cases h

theorem isWs_not_special {c : Nat} (h : isWs c = true) : c ≠ 34 ∧ c ≠ 92 ∧ c ∉ escLetters := by
  simp only [isWs, wsList, List.contains_eq_mem, List.mem_cons, List.not_mem_nil, or_false, decide_eq_true_eq] at h
  refine ⟨by omega, by omega, ?_⟩
  simp only [escLetters, List.mem_cons, List.not_mem_nil, or_false]
  omega

/-- inside a string literal no match can start: the lexer rejects the raw newline that must follow `[`. -/
theorem lex_str_none (t : Str) : ∀ (acc t2 : Str), skipWs t = 91 :: 10 :: t2 → lex (.str acc) t = none := by
  induction t with
  | nil => intro acc t2 h; simp [skipWs] at h
  | cons c t ih =>
    intro acc t2 h
    unfold skipWs at h
    split at h
    · rename_i hw
      obtain ⟨h1, h2, _⟩ := isWs_not_special hw
      rw [lex_cons]
      by_cases h3 : c < 32
      · simp [step, h1, h2, h3]
      · simp [step, h1, h2, h3, ih _ _ h]
    · injection h with hc ht
      subst hc; subst ht
      simp [lex_cons, step]

theorem lex_esc_none (t : Str) (acc t2 : Str) (h : skipWs t = 91 :: t2) : lex (.esc acc) t = none := by
  cases t with
  | nil => simp [skipWs] at h
  | cons c t =>
    unfold skipWs at h
    rw [lex_cons]
    split at h
    · rename_i hw
      simp [step, (isWs_not_special hw).2.2]
    · injection h with hc ht
      subst hc
      simp [step, escLetters]

theorem head_not_digit {c : Nat} {t t2 : Str} (h : skipWs (c :: t) = 91 :: t2) : isDigit c = false := by
  unfold skipWs at h
  split at h
  · rename_i hw; exact isWs_not_digit hw
  · injection h with hc ht; subst hc; decide

/-- The compaction (with any fuel) leaves the token sequence of a text that lexes unchanged, from every lexer state. -/
theorem lex_compactF : ∀ (n : Nat) (t : Str) (st : St) (toks : List Tok),
    lex st t = some toks → lex st (compactF n t) = some toks := by
  intro n
  induction n with
  | zero => intro t st toks h; simpa [compactF] using h
  | succ n ih =>
    intro t st toks h
    cases t with
    | nil => simpa [compactF] using h
    | cons c t =>
      unfold compactF
      split
      next r rest hm =>
        obtain ⟨⟨y, hy⟩, T, hT1, hT2⟩ := matchAt_lex hm
        obtain ⟨t2, hs⟩ := matchAt_skip hm
        cases st with
        | out =>
          rw [hT1] at h
          obtain ⟨q, hq, rfl⟩ := pre_eq_some h
          rw [hT2, ih _ _ _ hq]; rfl
        | num acc =>
          rw [lex_num_cons, head_not_digit hs] at h
          simp only [Bool.false_eq_true, if_false] at h
          rw [hT1, pre_pre] at h
          obtain ⟨q, hq, rfl⟩ := pre_eq_some h
          have hx := hT2 (compactF n rest)
          rw [hy, List.cons_append] at hx ⊢
          rw [lex_num_cons]
          simp only [show isDigit 91 = false by decide, Bool.false_eq_true, if_false]
          rw [hx, ih _ _ _ hq]; simp
        | str acc => rw [lex_str_none _ _ _ hs] at h; cases h
        | esc acc => rw [lex_esc_none _ _ _ hs] at h; cases h
      next hm =>
        rw [lex_cons] at h ⊢
        cases hs : step st c with
        | none => rw [hs] at h; cases h
        | some p =>
          obtain ⟨st', em⟩ := p
          rw [hs] at h
          simp only at h ⊢
          obtain ⟨q, hq, rfl⟩ := pre_eq_some h
          rw [ih _ _ _ hq]; rfl


theorem lex_compact (t : Str) (st : St) (toks : List Tok) (h : lex st t = some toks) :
    lex st (compact t) = some toks := lex_compactF _ _ _ _ h

/-- For EVERY text that parses, the compacted text parses to the same value. -/
theorem loads_compact (t : Str) (v : J) (h : loads t = some v) : loads (compact t) = some v := by
  unfold loads at h ⊢
  cases hl : lex .out t with
  | none => rw [hl] at h; cases h
  | some toks => rw [hl] at h; rw [lex_compact _ _ _ hl]; exact h

/-! ## what the compaction deletes is white space -/

/-- the text without its white space. -/
def noWs (t : Str) : Str := t.filter fun c => !isWs c

theorem noWs_cons_ws {c : Nat} (h : isWs c = true) (t : Str) : noWs (c :: t) = noWs t := by
  simp [noWs, h]
theorem noWs_cons_nws {c : Nat} (h : isWs c = false) (t : Str) : noWs (c :: t) = c :: noWs t := by
  simp [noWs, h]
theorem noWs_append (a b : Str) : noWs (a ++ b) = noWs a ++ noWs b := by simp [noWs]

theorem noWs_skipWs (t : Str) : noWs (skipWs t) = noWs t := by
  induction t with
  | nil => rfl
  | cons c t ih =>
    unfold skipWs
    split
    · rename_i h; rw [ih, noWs_cons_ws h]
    · rfl

theorem spanDigits_split (t : Str) : (spanDigits t).1 ++ (spanDigits t).2 = t := by
  induction t with
  | nil => rfl
  | cons c t ih => by_cases h : isDigit c = true <;> simp [spanDigits, h, ih]

theorem noWs_digits (ds : Str) (h : ∀ d ∈ ds, isDigit d = true) : noWs ds = ds := by
  induction ds with
  | nil => rfl
  | cons d ds ih =>
    have hd : isWs d = false := by
      cases hh : isWs d with
      | false => rfl
      | true => have := isWs_not_digit hh; rw [h d (by simp)] at this; cases this
    rw [noWs_cons_nws hd, ih (fun e he => h e (by simp [he]))]

theorem noWs_span (t : Str) : noWs t = (spanDigits t).1 ++ noWs (spanDigits t).2 := by
  conv => lhs; rw [← spanDigits_split t]
  rw [noWs_append, noWs_digits _ (spanDigits_fst_digits t)]

theorem noWs_optComma (t : Str) : noWs t = (optComma t).1 ++ noWs (optComma t).2 := by
  unfold optComma
  split
  · exact noWs_cons_nws (by decide) _
  · rfl

/-- a match deletes white space only: without white space, the matched text IS the replacement. -/
theorem matchAt_noWs {t r rest : Str} (h : matchAt t = some (r, rest)) :
    noWs t = r ++ noWs rest ∧ noWs r = r := by
  unfold matchAt at h
  split at h
  next t2 h0 =>
    dsimp only at h
    split at h
    · cases h
    · split at h
      next t5 h1 =>
        split at h
        · cases h
        · split at h
          next t8 h2 =>
            split at h
            next t10 h3 =>
              split at h
              next w t12 h4 =>
                split at h
                · rename_i hw
                  simp only [Option.some.injEq, Prod.mk.injEq] at h
                  obtain ⟨rfl, rfl⟩ := h
                  refine ⟨?_, ?_⟩
                  rotate_left
                  · rw [noWs_cons_nws (by decide), noWs_append, noWs_digits _ (spanDigits_fst_digits _),
                      noWs_cons_nws (by decide), noWs_append, noWs_digits _ (spanDigits_fst_digits _),
                      noWs_cons_nws (by decide)]
                    rcases optComma_fst t10 with hc | hc <;> rw [hc] <;> first | rfl | decide
                  rw [← noWs_skipWs t, h0, noWs_cons_nws (by decide), noWs_cons_ws (by decide), ← noWs_skipWs t2,
                    noWs_span (skipWs t2), h1, noWs_cons_nws (by decide), noWs_cons_ws (by decide), ← noWs_skipWs t5,
                    noWs_span (skipWs t5), h2, noWs_cons_ws (by decide), ← noWs_skipWs t8, h3,
                    noWs_cons_nws (by decide), noWs_optComma t10, h4, noWs_cons_ws hw, noWs_skipWs t12]
                  simp
                · cases h
              · cases h
            · cases h
          · cases h
      · cases h
  · cases h

theorem noWs_compactF : ∀ (n : Nat) (t : Str), noWs (compactF n t) = noWs t := by
  intro n
  induction n with
  | zero => intro t; simp [compactF]
  | succ n ih =>
    intro t
    cases t with
    | nil => simp [compactF]
    | cons c t =>
      unfold compactF
      split
      next r rest hm =>
        rw [noWs_append, ih, (matchAt_noWs hm).2, (matchAt_noWs hm).1]
      next hm =>
        by_cases hw : isWs c = true
        · rw [noWs_cons_ws hw, noWs_cons_ws hw, ih]
        · simp only [Bool.not_eq_true] at hw
          rw [noWs_cons_nws hw, noWs_cons_nws hw, ih]



/-! ## the tokens of a laid-out value -/

mutual
def toksV : J → List Tok
  | .num n => [.num (natDigits n)]
  | .str s => [.str (escStr s)]
  | .arr [] => [.lb, .rb]
  | .arr (x :: xs) => .lb :: (toksItems (x :: xs) ++ [.rb])
  | .obj [] => [.lc, .rc]
  | .obj (kv :: kvs) => .lc :: (toksMembers (kv :: kvs) ++ [.rc])
def toksItems : List J → List Tok
  | [] => []
  | [x] => toksV x
  | x :: y :: xs => toksV x ++ .comma :: toksItems (y :: xs)
def toksMembers : List (Str × J) → List Tok
  | [] => []
  | [(k, v)] => .str (escStr k) :: .colon :: toksV v
  | (k, v) :: kv :: kvs => .str (escStr k) :: .colon :: (toksV v ++ .comma :: toksMembers (kv :: kvs))
end

theorem natDigits_ne_nil (n : Nat) : natDigits n ≠ [] := by
  simp [natDigits, Nat.toDigits_ne_nil]

theorem natDigits_digits (n : Nat) : ∀ d ∈ natDigits n, isDigit d = true := by
  intro d hd
  simp only [natDigits, List.mem_map] at hd
  obtain ⟨c, hc, rfl⟩ := hd
  have := Nat.isDigit_of_mem_toDigits (by decide) (by decide) hc
  simp only [Char.isDigit, Bool.and_eq_true, decide_eq_true_eq, ge_iff_le] at this
  obtain ⟨a, b⟩ := this
  have a' := UInt32.le_iff_toNat_le.1 a
  have b' := UInt32.le_iff_toNat_le.1 b
  simp only [isDigit, Bool.and_eq_true, decide_eq_true_eq]
  exact ⟨a', b'⟩

theorem lex_out_nlind (ind : Nat) (x : Str) : lex .out (nl ind ++ x) = lex .out x := by
  unfold nl
  rw [List.cons_append, lex_out_nl]
  induction ind with
  | zero => rfl
  | succ k ih => rw [List.replicate_succ, List.cons_append, lex_out_ws (by decide), ih]

theorem lex_str_plain {c : Nat} (h1 : c ≠ 34) (h2 : c ≠ 92) (h3 : 32 ≤ c) (acc y : Str) :
    lex (.str acc) (c :: y) = lex (.str (acc ++ [c])) y := by
  rw [lex_cons]; simp [step, h1, h2, show ¬ c < 32 by omega]

theorem lex_str_esc {l : Nat} (h : l ∈ escLetters) (acc y : Str) :
    lex (.str acc) (92 :: l :: y) = lex (.str (acc ++ [92, l])) y := by
  rw [lex_cons]; simp only [step]; simp [lex_cons, step, h]

theorem hexDigit_plain (n : Nat) : hexDigit n ≠ 34 ∧ hexDigit n ≠ 92 ∧ 32 ≤ hexDigit n := by
  unfold hexDigit; split <;> omega

theorem lex_str_uEsc (u : Nat) (acc y : Str) : lex (.str acc) (uEsc u ++ y) = lex (.str (acc ++ uEsc u)) y := by
  have h1 := hexDigit_plain (u / 4096)
  have h2 := hexDigit_plain (u / 256)
  have h3 := hexDigit_plain (u / 16)
  have h4 := hexDigit_plain u
  simp only [uEsc, List.cons_append, List.nil_append]
  rw [lex_str_esc (by decide), lex_str_plain (by omega) (by omega) (by omega),
    lex_str_plain (by omega) (by omega) (by omega), lex_str_plain (by omega) (by omega) (by omega),
    lex_str_plain (by omega) (by omega) (by omega)]
  simp

theorem lex_str_escChar (c : Nat) (acc y : Str) : lex (.str acc) (escChar c ++ y) = lex (.str (acc ++ escChar c)) y := by
  unfold escChar
  repeat' split
  all_goals first
    | exact lex_str_esc (by decide) acc y
    | (rename_i h; exact lex_str_plain (by omega) (by omega) (by omega) acc y)
    | exact lex_str_uEsc _ acc y
    | (rw [List.append_assoc, lex_str_uEsc, lex_str_uEsc, List.append_assoc])

theorem lex_str_escStr (s : Str) : ∀ (acc y : Str),
    lex (.str acc) (escStr s ++ 34 :: y) = pre [Tok.str (acc ++ escStr s)] (lex .out y) := by
  induction s with
  | nil => intro acc y; simp [escStr, lex_cons, step]
  | cons c s ih =>
    intro acc y
    simp only [escStr, List.append_assoc]
    rw [lex_str_escChar, ih, List.append_assoc]

theorem lex_out_quote (s y : Str) : lex .out (quote s ++ y) = pre [Tok.str (escStr s)] (lex .out y) := by
  unfold quote
  rw [List.cons_append, lex_cons]
  simp only [step, stepOut]
  simp [isWs, wsList, lex_str_escStr]


theorem lex_out_lc (t : Str) : lex .out (123 :: t) = pre [Tok.lc] (lex .out t) := by
  rw [lex_cons]; rfl
theorem lex_out_rc (t : Str) : lex .out (125 :: t) = pre [Tok.rc] (lex .out t) := by
  rw [lex_cons]; rfl
theorem lex_out_colon (t : Str) : lex .out (58 :: t) = pre [Tok.colon] (lex .out t) := by
  rw [lex_cons]; rfl

theorem nl_append (ind : Nat) (z : Str) : nl ind ++ z = 10 :: (List.replicate ind 32 ++ z) := rfl

mutual
/-- the text of a value, followed by something that does not start with a digit, lexes to the tokens of the value. -/
theorem lex_dumpsV : ∀ (v : J) (ind c : Nat) (y : Str), isDigit c = false →
    lex .out (dumpsV ind v ++ c :: y) = pre (toksV v) (lex .out (c :: y))
  | .num n, ind, c, y, hc => by
    simp only [dumpsV, toksV]
    exact lex_out_digits _ (natDigits_ne_nil n) (natDigits_digits n) c hc y
  | .str s, ind, c, y, hc => by
    simp only [dumpsV, toksV]
    exact lex_out_quote s _
  | .arr [], ind, c, y, hc => by
    simp [dumpsV, toksV, lex_out_lb, lex_out_rb]
  | .arr (x :: xs), ind, c, y, hc => by
    simp only [dumpsV, toksV, List.cons_append, List.append_assoc, List.nil_append]
    rw [lex_out_lb, nl_append, lex_dumpsItems (x :: xs) (ind + 2) 10 _ (by decide), ← nl_append, lex_out_nlind, lex_out_rb]
    simp
  | .obj [], ind, c, y, hc => by
    simp [dumpsV, toksV, lex_out_lc, lex_out_rc]
  | .obj (kv :: kvs), ind, c, y, hc => by
    simp only [dumpsV, toksV, List.cons_append, List.append_assoc, List.nil_append]
    rw [lex_out_lc, nl_append, lex_dumpsMembers (kv :: kvs) (ind + 2) 10 _ (by decide), ← nl_append, lex_out_nlind, lex_out_rc]
    simp
theorem lex_dumpsItems : ∀ (l : List J) (ind c : Nat) (y : Str), isDigit c = false →
    lex .out (dumpsItems ind l ++ c :: y) = pre (toksItems l) (lex .out (c :: y))
  | [], ind, c, y, hc => by simp [dumpsItems, toksItems]
  | [x], ind, c, y, hc => by
    simp only [dumpsItems, toksItems, List.append_assoc]
    rw [lex_out_nlind, lex_dumpsV x ind c y hc]
  | x :: x' :: xs, ind, c, y, hc => by
    simp only [dumpsItems, toksItems, List.append_assoc, List.cons_append]
    rw [lex_out_nlind, lex_dumpsV x ind 44 _ (by decide), lex_out_comma, lex_dumpsItems (x' :: xs) ind c y hc]
    simp
theorem lex_dumpsMembers : ∀ (l : List (Str × J)) (ind c : Nat) (y : Str), isDigit c = false →
    lex .out (dumpsMembers ind l ++ c :: y) = pre (toksMembers l) (lex .out (c :: y))
  | [], ind, c, y, hc => by simp [dumpsMembers, toksMembers]
  | [(k, v)], ind, c, y, hc => by
    simp only [dumpsMembers, toksMembers, List.append_assoc, List.cons_append]
    rw [lex_out_nlind, lex_out_quote, lex_out_colon, lex_out_ws (by decide), lex_dumpsV v ind c y hc]
    simp
  | (k, v) :: kv :: kvs, ind, c, y, hc => by
    simp only [dumpsMembers, toksMembers, List.append_assoc, List.cons_append]
    rw [lex_out_nlind, lex_out_quote, lex_out_colon, lex_out_ws (by decide), lex_dumpsV v ind 44 _ (by decide),
      lex_out_comma, lex_dumpsMembers (kv :: kvs) ind c y hc]
    simp
end

/-- `json.dumps(v, indent=2) + "\n"` lexes to the tokens of `v`. -/
theorem lex_dumps2 (v : J) : lex .out (dumps2 v ++ [10]) = some (toksV v) := by
  rw [dumps2, lex_dumpsV v 0 10 [] (by decide), lex_out_nl]
  simp [lex]

/-- The text returned by `get_json` lexes to the tokens of the data: every string literal is the escaped string
it stands for, character for character; every span list is its two numbers. -/
theorem lex_getJsonText (v : J) : lex .out (getJsonText v) = some (toksV v) :=
  lex_compact _ _ _ (lex_dumps2 v)



/-! ## the token-level parser on the tokens of a value -/

theorem digitsVal_map (l : List Char) : ∀ acc, digitsVal (l.map Char.toNat) acc = Nat.ofDigitChars 10 l acc := by
  induction l with
  | nil => intro acc; rfl
  | cons c l ih =>
    intro acc
    simp only [List.map_cons, digitsVal, ih, Nat.ofDigitChars, List.foldl_cons]
    congr 1
    have : '0'.toNat = 48 := by decide
    rw [this, Nat.mul_comm]

theorem digitChar_ne_zero {k : Nat} (h1 : 0 < k) (h2 : k < 10) : Nat.digitChar k ≠ '0' := by
  have : k = 1 ∨ k = 2 ∨ k = 3 ∨ k = 4 ∨ k = 5 ∨ k = 6 ∨ k = 7 ∨ k = 8 ∨ k = 9 := by omega
  rcases this with rfl | rfl | rfl | rfl | rfl | rfl | rfl | rfl | rfl <;> decide

theorem toDigits_head_ne_zero : ∀ (n : Nat), 0 < n → ∀ c rest, Nat.toDigits 10 n = c :: rest → c ≠ '0' := by
  intro n
  induction n using Nat.strongRecOn with
  | _ n ih =>
    intro hn c rest h
    by_cases hlt : n < 10
    · rw [Nat.toDigits_of_lt_base hlt] at h
      injection h with h _
      rw [← h]; exact digitChar_ne_zero hn hlt
    · have hb : 10 ≤ n := by omega
      rw [Nat.toDigits_of_base_le (by decide) hb] at h
      cases h0 : Nat.toDigits 10 (n / 10) with
      | nil => exact absurd h0 Nat.toDigits_ne_nil
      | cons c0 r0 =>
        rw [h0] at h
        injection h with h _
        rw [← h]
        exact ih (n / 10) (by omega) (by omega) c0 r0 h0

theorem numRoundtrip (n : Nat) : numOf (natDigits n) = some n := by
  have hv : digitsVal (natDigits n) 0 = n := by
    rw [natDigits, digitsVal_map, Nat.ofDigitChars_toDigits (by decide) (by decide)]
  unfold numOf
  split
  · rename_i h; exact absurd h (natDigits_ne_nil n)
  · rename_i x y h
    exfalso
    have hn : 0 < n := by
      cases n with
      | zero => simp [natDigits, Nat.toDigits_zero] at h
      | succ k => omega
    cases h0 : Nat.toDigits 10 n with
    | nil => exact absurd h0 Nat.toDigits_ne_nil
    | cons c r =>
      have hc := toDigits_head_ne_zero n hn c r h0
      simp only [natDigits, h0, List.map_cons, List.cons.injEq] at h
      apply hc
      have : c = Char.ofNat c.toNat := (Char.ofNat_toNat c).symm
      rw [this, h.1]
  · rw [hv]


/-- `\uXXXX`/escape decoding inverts `escStr` on strings without a surrogate pair (proved below: `decodeEsc`). -/
def DecodeEsc : Prop := ∀ s : Str, strOk s = true → decode (escStr s) = some s


theorem toksV_head (v : J) : ∃ h tl, toksV v = h :: tl ∧ h ≠ Tok.rb ∧ h ≠ Tok.rc := by
  cases v with
  | num n => exact ⟨Tok.num (natDigits n), [], by simp [toksV], by simp, by simp⟩
  | str s => exact ⟨Tok.str (escStr s), [], by simp [toksV], by simp, by simp⟩
  | arr l =>
    cases l with
    | nil => exact ⟨Tok.lb, [Tok.rb], by simp [toksV], by simp, by simp⟩
    | cons x xs => exact ⟨Tok.lb, toksItems (x :: xs) ++ [Tok.rb], by simp [toksV], by simp, by simp⟩
  | obj l =>
    cases l with
    | nil => exact ⟨Tok.lc, [Tok.rc], by simp [toksV], by simp, by simp⟩
    | cons x xs => exact ⟨Tok.lc, toksMembers (x :: xs) ++ [Tok.rc], by simp [toksV], by simp, by simp⟩

theorem pVal_lb {h : Tok} (hne : h ≠ Tok.rb) (n : Nat) (r : List Tok) :
    pVal (n + 1) (.lb :: h :: r) = (pItems n (h :: r)).map fun p => (J.arr p.1, p.2) := by
  cases h <;> simp_all [pVal]

theorem toksItems_head (x : J) (xs : List J) : ∃ h tl, toksItems (x :: xs) = h :: tl ∧ h ≠ Tok.rb := by
  obtain ⟨h, tl, e, h1, _⟩ := toksV_head x
  cases xs with
  | nil => exact ⟨h, tl, by simp [toksItems, e], h1⟩
  | cons y ys => exact ⟨h, tl ++ Tok.comma :: toksItems (y :: ys), by simp [toksItems, e], h1⟩

mutual
theorem pVal_toksV (hs : DecodeEsc) : ∀ (v : J) (n : Nat) (rest : List Tok), J.ok v = true →
    (toksV v).length ≤ n → pVal n (toksV v ++ rest) = some (v, rest)
  | v, 0, rest, hok, hlen => by
    obtain ⟨h, tl, e, _⟩ := toksV_head v
    rw [e] at hlen; simp at hlen
  | .num k, n + 1, rest, hok, hlen => by simp [toksV, pVal, numRoundtrip k]
  | .str s, n + 1, rest, hok, hlen => by
    simp only [J.ok] at hok
    simp [toksV, pVal, hs s hok]
  | .arr [], n + 1, rest, hok, hlen => by simp [toksV, pVal]
  | .arr (x :: xs), n + 1, rest, hok, hlen => by
    simp only [J.ok] at hok
    simp only [toksV, List.length_cons, List.length_append, List.length_nil] at hlen
    obtain ⟨h, tl, e, h1⟩ := toksItems_head x xs
    have := pItems_toks hs (x :: xs) n rest (by simp) hok (by omega)
    simp only [toksV, List.cons_append, List.append_assoc, List.nil_append]
    rw [e] at this ⊢
    rw [List.cons_append, pVal_lb h1, ← List.cons_append, this]
    rfl
  | .obj [], n + 1, rest, hok, hlen => by simp [toksV, pVal]
  | .obj ((k, v) :: kvs), n + 1, rest, hok, hlen => by
    simp only [J.ok] at hok
    simp only [toksV, List.length_cons, List.length_append, List.length_nil] at hlen
    have := pMembers_toks hs ((k, v) :: kvs) n rest (by simp) hok (by omega)
    simp only [toksV, List.cons_append, List.append_assoc, List.nil_append]
    cases kvs with
    | nil =>
      simp only [toksMembers, List.cons_append] at this ⊢
      simp only [pVal, this]; rfl
    | cons kv kvs =>
      simp only [toksMembers, List.cons_append] at this ⊢
      simp only [pVal, this]; rfl
theorem pItems_toks (hs : DecodeEsc) : ∀ (l : List J) (n : Nat) (rest : List Tok), l ≠ [] →
    J.okList l = true → (toksItems l).length + 1 ≤ n → pItems n (toksItems l ++ Tok.rb :: rest) = some (l, rest)
  | [], _, _, hne, _, _ => absurd rfl hne
  | _, 0, _, _, _, hlen => by omega
  | [x], n + 1, rest, _, hok, hlen => by
    simp only [J.okList, Bool.and_true] at hok
    simp only [toksItems] at hlen ⊢
    simp [pItems, pVal_toksV hs x n (Tok.rb :: rest) hok (by omega)]
  | x :: y :: xs, n + 1, rest, _, hok, hlen => by
    simp only [J.okList, Bool.and_eq_true] at hok
    simp only [toksItems, List.length_append, List.length_cons] at hlen
    simp only [toksItems, List.append_assoc, List.cons_append]
    have h2 := pItems_toks hs (y :: xs) n rest (by simp) (by simp [J.okList, hok.2]) (by omega)
    simp [pItems, pVal_toksV hs x n _ hok.1 (by omega), h2]
theorem pMembers_toks (hs : DecodeEsc) : ∀ (l : List (Str × J)) (n : Nat) (rest : List Tok), l ≠ [] →
    J.okMembers l = true → (toksMembers l).length + 1 ≤ n →
    pMembers n (toksMembers l ++ Tok.rc :: rest) = some (l, rest)
  | [], _, _, hne, _, _ => absurd rfl hne
  | _, 0, _, _, _, hlen => by omega
  | [(k, v)], n + 1, rest, _, hok, hlen => by
    simp only [J.okMembers, Bool.and_true, Bool.and_eq_true] at hok
    simp only [toksMembers, List.length_cons] at hlen
    simp only [toksMembers, List.cons_append]
    simp [pMembers, hs k hok.1, pVal_toksV hs v n (Tok.rc :: rest) hok.2 (by omega)]
  | (k, v) :: kv :: kvs, n + 1, rest, _, hok, hlen => by
    simp only [J.okMembers, Bool.and_eq_true] at hok
    simp only [toksMembers, List.length_append, List.length_cons] at hlen
    simp only [toksMembers, List.append_assoc, List.cons_append]
    have h2 := pMembers_toks hs (kv :: kvs) n rest (by simp) (by simpa [J.okMembers] using hok.2) (by omega)
    simp [pMembers, hs k hok.1.1, pVal_toksV hs v n _ hok.1.2 (by omega), h2]
end

theorem parseToks_toksV (hs : DecodeEsc) (v : J) (hok : J.ok v = true) :
    parseToks (toksV v) = some v := by
  unfold parseToks
  have := pVal_toksV hs v ((toksV v).length + 1) [] hok (by omega)
  rw [List.append_nil] at this
  rw [this]



/-! ## `decode` inverts `escStr` -/

theorem hexVal_hexDigit (k : Nat) : hexVal (hexDigit k) = some (k % 16) := by
  unfold hexDigit hexVal
  split
  · rw [if_pos (by omega)]; congr 1; omega
  · rw [if_neg (by omega), if_pos (by omega)]; congr 1; omega

theorem hex4_uEsc (u : Nat) (h : u < 65536) :
    hex4 (hexDigit (u / 4096)) (hexDigit (u / 256)) (hexDigit (u / 16)) (hexDigit u) = some u := by
  simp only [hex4, hexVal_hexDigit]
  congr 1; omega

theorem decodeF_plain {c : Nat} (h : c ≠ 92) (n : Nat) (rest : Str) :
    decodeF (n + 1) (c :: rest) = (decodeF n rest).map (c :: ·) := by
  rw [decodeF]
  all_goals simp_all

theorem decodeF_simple {l x : Nat} (hl : l ≠ 117) (h : simpleEsc l = some x) (n : Nat) (rest : Str) :
    decodeF (n + 1) (92 :: l :: rest) = (decodeF n rest).map (x :: ·) := by
  rw [decodeF]
  all_goals simp_all


/-- the text does not start with the escape of a low surrogate (and if it starts with `\u`, four hex digits follow). -/
def NoLowEsc (rest : Str) : Prop :=
  ∀ e f g h r, rest = 92 :: 117 :: e :: f :: g :: h :: r →
    ∃ u2, hex4 e f g h = some u2 ∧ ¬(56320 ≤ u2 ∧ u2 ≤ 57343)

theorem decodeF_uEsc (u : Nat) (hu : u < 65536) (n : Nat) (rest : Str)
    (h : ¬(55296 ≤ u ∧ u ≤ 56319) ∨ NoLowEsc rest) :
    decodeF (n + 1) (uEsc u ++ rest) = (decodeF n rest).map (u :: ·) := by
  simp only [uEsc, List.cons_append, List.nil_append]
  rw [decodeF]
  simp only [hex4_uEsc u hu]
  split
  · rename_i hh
    rcases h with h | h
    · exact absurd hh h
    · split
      · rename_i e f g h' r
        obtain ⟨u2, h2, h3⟩ := h e f g h' r rfl
        simp only [h2]
        rw [if_neg h3]
      · rfl
  · rfl

theorem decodeF_astral (c : Nat) (h1 : 65536 ≤ c) (h2 : c < 1114112) (n : Nat) (rest : Str) :
    decodeF (n + 1) (uEsc (55296 + ((c - 65536) / 1024) % 1024) ++ uEsc (56320 + (c - 65536) % 1024) ++ rest)
      = (decodeF n rest).map (c :: ·) := by
  have e1 : uEsc (55296 + ((c - 65536) / 1024) % 1024) ++ uEsc (56320 + (c - 65536) % 1024) ++ rest
      = uEsc (55296 + ((c - 65536) / 1024) % 1024) ++ (uEsc (56320 + (c - 65536) % 1024) ++ rest) := by simp
  rw [e1]
  generalize hhi : 55296 + ((c - 65536) / 1024) % 1024 = hi
  generalize hlo : 56320 + (c - 65536) % 1024 = lo
  have hhi' : 55296 ≤ hi ∧ hi ≤ 56319 := by omega
  have hlo' : 56320 ≤ lo ∧ lo ≤ 57343 := by omega
  simp only [uEsc, List.cons_append, List.nil_append]
  rw [decodeF]
  simp only [hex4_uEsc hi (by omega), hex4_uEsc lo (by omega)]
  rw [if_pos hhi', if_pos hlo']
  have : 65536 + (hi - 55296) * 1024 + (lo - 56320) = c := by omega
  rw [this]


theorem noLowEsc_escStr (s : Str) (h : ∀ b t, s = b :: t → ¬(56320 ≤ b ∧ b ≤ 57343)) : NoLowEsc (escStr s) := by
  cases s with
  | nil => intro e f g h' r heq; simp [escStr] at heq
  | cons b t =>
    have hb := h b t rfl
    intro e f g h' r heq
    simp only [escStr] at heq
    unfold escChar at heq
    repeat' split at heq
    all_goals try (simp at heq; done)
    · rename_i h1 h2 h3 h4 h5 h6 h7 h8
      simp only [List.cons_append, List.nil_append, List.cons.injEq] at heq
      omega
    · rename_i hlt
      simp only [uEsc, List.cons_append, List.nil_append, List.cons.injEq, true_and] at heq
      obtain ⟨rfl, rfl, rfl, rfl, _⟩ := heq
      exact ⟨b, hex4_uEsc b hlt, hb⟩
    · simp only [uEsc, List.cons_append, List.nil_append, List.cons.injEq, true_and] at heq
      obtain ⟨rfl, rfl, rfl, rfl, _⟩ := heq
      exact ⟨_, hex4_uEsc _ (by omega), by omega⟩

theorem escChar_length_pos (c : Nat) : 0 < (escChar c).length := by
  unfold escChar
  repeat' split
  all_goals simp [uEsc]

theorem decodeF_escChar (c : Nat) (hlt : c < 1114112) (m : Nat) (rest : Str)
    (h : ¬(55296 ≤ c ∧ c ≤ 56319) ∨ NoLowEsc rest) :
    decodeF (m + 1) (escChar c ++ rest) = (decodeF m rest).map (c :: ·) := by
  unfold escChar
  repeat' split
  all_goals first
    | (subst c; exact decodeF_simple (by decide) (by decide) m rest)
    | (rename_i h2 _ _ _ _ _ _; exact decodeF_plain h2 m rest)
    | (rename_i h9; exact decodeF_uEsc c h9 m rest h)
    | exact decodeF_astral c (by omega) hlt m rest

theorem decodeF_escStr : ∀ (s : Str), strOk s = true → ∀ n, (escStr s).length ≤ n → decodeF n (escStr s) = some s := by
  intro s
  induction s with
  | nil => intro _ n _; cases n <;> simp [escStr, decodeF]
  | cons c s ih =>
    intro hok n hlen
    have hfacts : c < 1114112 ∧ strOk s = true ∧
        ((55296 ≤ c ∧ c ≤ 56319) → ∀ b t, s = b :: t → ¬(56320 ≤ b ∧ b ≤ 57343)) := by
      cases s with
      | nil => simp [strOk] at hok ⊢; exact hok
      | cons b t =>
        simp only [strOk, Bool.and_eq_true, Bool.not_eq_true', Bool.and_eq_false_iff, decide_eq_true_eq,
          decide_eq_false_iff_not] at hok
        refine ⟨hok.1.2, hok.2, ?_⟩
        intro hh b' t' e
        injection e with e1 e2
        subst e1
        omega
    obtain ⟨hlt, hs, hpair⟩ := hfacts
    simp only [escStr, List.length_append] at hlen ⊢
    have hpos := escChar_length_pos c
    obtain ⟨m, rfl⟩ : ∃ m, n = m + 1 := ⟨n - 1, by omega⟩
    rw [decodeF_escChar c hlt m _ (by
        by_cases hh : 55296 ≤ c ∧ c ≤ 56319
        · exact Or.inr (noLowEsc_escStr s (hpair hh))
        · exact Or.inl hh), ih hs m (by omega)]
    rfl

theorem decodeEsc : DecodeEsc := fun s hok => decodeF_escStr s hok _ (Nat.le_refl _)



/-! ## the fuel of the scanner -/

theorem skipWs_length (t : Str) : (skipWs t).length ≤ t.length := by
  induction t with
  | nil => simp [skipWs]
  | cons c t ih => unfold skipWs; split <;> simp <;> omega

theorem spanDigits_snd_length (t : Str) : (spanDigits t).2.length ≤ t.length := by
  have := congrArg List.length (spanDigits_split t)
  simp only [List.length_append] at this
  omega

theorem optComma_snd_length (t : Str) : (optComma t).2.length ≤ t.length := by
  unfold optComma; split <;> simp

/-- a match consumes at least one character. -/
theorem matchAt_length {t r rest : Str} (h : matchAt t = some (r, rest)) : rest.length < t.length := by
  unfold matchAt at h
  split at h
  next t2 h0 =>
    dsimp only at h
    split at h
    · cases h
    · split at h
      next t5 h1 =>
        split at h
        · cases h
        · split at h
          next t8 h2 =>
            split at h
            next t10 h3 =>
              split at h
              next w t12 h4 =>
                split at h
                · simp only [Option.some.injEq, Prod.mk.injEq] at h
                  obtain ⟨_, rfl⟩ := h
                  have a0 := skipWs_length t
                  have a1 := skipWs_length t2
                  have a2 := spanDigits_snd_length (skipWs t2)
                  have a3 := skipWs_length t5
                  have a4 := spanDigits_snd_length (skipWs t5)
                  have a5 := skipWs_length t8
                  have a6 := optComma_snd_length t10
                  have a7 := skipWs_length t12
                  rw [h0] at a0; rw [h1] at a2; rw [h2] at a4; rw [h3] at a5; rw [h4] at a6
                  simp only [List.length_cons] at a0 a2 a4 a5 a6
                  omega
                · cases h
              · cases h
            · cases h
          · cases h
      · cases h
  · cases h

/-- the result does not depend on the fuel once it covers the text. -/
theorem compactF_fuel : ∀ (n m : Nat) (t : Str), t.length ≤ n → t.length ≤ m → compactF n t = compactF m t := by
  intro n
  induction n with
  | zero =>
    intro m t h _
    have : t = [] := List.eq_nil_of_length_eq_zero (by omega)
    subst this; cases m <;> simp [compactF]
  | succ n ih =>
    intro m t h1 h2
    cases t with
    | nil => cases m <;> simp [compactF]
    | cons c t =>
      cases m with
      | zero => simp at h2
      | succ m =>
        simp only [List.length_cons] at h1 h2
        unfold compactF
        split
        next r rest hm =>
          have := matchAt_length hm
          simp only [List.length_cons] at this
          rw [ih m rest (by omega) (by omega)]
        next hm => rw [ih m t (by omega) (by omega)]

theorem compactF_eq_compact (n : Nat) (t : Str) (h : t.length ≤ n) : compactF n t = compact t :=
  compactF_fuel n t.length t h (Nat.le_refl _)


end Paroxy.JsonText
