/-
C02 helper lemmas: the `whole_span` matcher on the dump of a tree.
-/
import Paroxy.Proofs.NodeSpanTree
import Paroxy.Model.WholeSpan
namespace Paroxy.Flat

/-! ## Scanning a line that has a single `=` -/

theorem firstWholePosFrom_none_of_no_eq : ∀ (s : Str) (seen : Nat), '=' ∉ s → firstWholePosFrom seen s = none
  | [], _, _ => rfl
  | c :: t, seen, h => by
    have ht : '=' ∉ t := fun e => h (List.mem_cons_of_mem _ e)
    have hp : (cs!"_pos=").isPrefixOf (c :: t) = false := by
      cases hb : (cs!"_pos=").isPrefixOf (c :: t) with
      | false => rfl
      | true =>
        obtain ⟨r, hr⟩ := List.isPrefixOf_iff_prefix.mp hb
        exact absurd (by rw [← hr]; simp) h
    simp [firstWholePosFrom, hp, firstWholePosFrom_none_of_no_eq t (seen + 1) ht]

theorem lastWholePosFrom_none_of_no_eq : ∀ (s : Str) (seen : Nat), '=' ∉ s → lastWholePosFrom seen s = none
  | [], _, _ => rfl
  | c :: t, seen, h => by
    have ht : '=' ∉ t := fun e => h (List.mem_cons_of_mem _ e)
    have hp : (cs!"_pos=").isPrefixOf (c :: t) = false := by
      cases hb : (cs!"_pos=").isPrefixOf (c :: t) with
      | false => rfl
      | true =>
        obtain ⟨r, hr⟩ := List.isPrefixOf_iff_prefix.mp hb
        exact absurd (by rw [← hr]; simp) h
    simp [lastWholePosFrom, hp, lastWholePosFrom_none_of_no_eq t (seen + 1) ht]

/-- `_pos=` starts a `key=value` text (no `=` in the key) exactly when the key is `_pos`. -/
theorem posMark_prefix_keyval {K V : Str} (hK : '=' ∉ K) :
    (cs!"_pos=").isPrefixOf (K ++ '=' :: V) = true ↔ K = posKey := by
  rw [List.isPrefixOf_iff_prefix]
  constructor
  · rintro ⟨r, hr⟩
    have h' : posKey ++ '=' :: r = K ++ '=' :: V := by rw [← hr]; rfl
    exact (split_first_unique (by decide) hK h').1.symm
  · rintro rfl; exact ⟨V, rfl⟩

theorem posKey_suffix_cons {c : Char} {K : Str} (h : c :: K ≠ posKey) : posKey <:+ c :: K ↔ posKey <:+ K := by
  rw [List.suffix_cons_iff]
  constructor
  · rintro (e | e)
    · exact absurd e.symm h
    · exact e
  · exact Or.inr

/-- First-POS scan of a line with a single `=`: only a key ending with `_pos`, met at an index ≥ 1,
can give something — the cut of the value. -/
theorem firstWholePosFrom_keyval : ∀ (K V : Str) (seen : Nat), '=' ∉ K → '=' ∉ V →
    firstWholePosFrom seen (K ++ '=' :: V) =
      if posKey <:+ K ∧ 1 ≤ seen + K.length - 4 then cutLastColon V else none
  | [], V, seen, _, hV => by
    have : ¬ posKey <:+ ([] : Str) := by simp [posKey]
    simp [firstWholePosFrom, List.isPrefixOf, this, firstWholePosFrom_none_of_no_eq V (seen + 1) hV]
  | c :: K, V, seen, hK, hV => by
    have hK' : '=' ∉ K := fun e => hK (List.mem_cons_of_mem _ e)
    have ih := firstWholePosFrom_keyval K V (seen + 1) hK' hV
    by_cases hkey : c :: K = posKey
    · -- the occurrence is here
      have hp : (cs!"_pos=").isPrefixOf (c :: K ++ '=' :: V) = true := (posMark_prefix_keyval hK).mpr hkey
      have hK4 : K = cs!"pos" := by simp [posKey] at hkey; exact hkey.2
      have hnot : ¬ posKey <:+ K := by rw [hK4]; decide
      have hd : (c :: K ++ '=' :: V).drop (cs!"_pos=").length = V := by
        rw [hkey]; rfl
      rw [List.cons_append] at hp hd
      have hrec : firstWholePosFrom (seen + 1) (K ++ '=' :: V) = none := by
        rw [ih, if_neg (fun h => hnot h.1)]
      have hs : posKey <:+ c :: K := by rw [hkey]; exact List.suffix_refl _
      have hlen : (c :: K).length = 4 := by rw [hkey]; rfl
      simp only [List.cons_append, firstWholePosFrom, hp, Bool.and_true, hd, hrec]
      by_cases h1 : 1 ≤ seen
      · have hd1 : decide (seen ≥ 1) = true := by simpa using h1
        rw [hd1, if_pos rfl, if_pos ⟨by simpa using hs, by rw [hlen]; omega⟩]
        cases cutLastColon V <;> rfl
      · have hd1 : decide (seen ≥ 1) = false := by simpa using h1
        rw [hd1, if_neg (by simp), if_neg (fun h => by have h2 := h.2; rw [hlen] at h2; omega)]
    · have hp : (cs!"_pos=").isPrefixOf (c :: K ++ '=' :: V) = false := by
        cases hb : (cs!"_pos=").isPrefixOf (c :: K ++ '=' :: V) with
        | false => rfl
        | true => exact absurd ((posMark_prefix_keyval hK).mp hb) hkey
      rw [List.cons_append] at hp
      simp only [List.cons_append, firstWholePosFrom, hp, Bool.and_false, Bool.false_eq_true, if_false]
      rw [ih]
      have hsuf := posKey_suffix_cons hkey
      have hlen : seen + 1 + K.length - 4 = seen + (c :: K).length - 4 := by simp; omega
      simp only [hsuf, hlen]

/-- Last-POS scan of a line with a single `=`. -/
theorem lastWholePosFrom_keyval : ∀ (K V : Str) (seen : Nat), '=' ∉ K → '=' ∉ V →
    lastWholePosFrom seen (K ++ '=' :: V) =
      if posKey <:+ K ∧ 1 ≤ seen + K.length - 4 then (digitsColon? V).map fun d => (V, d) else none
  | [], V, seen, _, hV => by
    have : ¬ posKey <:+ ([] : Str) := by simp [posKey]
    simp [lastWholePosFrom, List.isPrefixOf, this, lastWholePosFrom_none_of_no_eq V (seen + 1) hV]
  | c :: K, V, seen, hK, hV => by
    have hK' : '=' ∉ K := fun e => hK (List.mem_cons_of_mem _ e)
    have ih := lastWholePosFrom_keyval K V (seen + 1) hK' hV
    by_cases hkey : c :: K = posKey
    · have hp : (cs!"_pos=").isPrefixOf (c :: K ++ '=' :: V) = true := (posMark_prefix_keyval hK).mpr hkey
      have hK4 : K = cs!"pos" := by simp [posKey] at hkey; exact hkey.2
      have hnot : ¬ posKey <:+ K := by rw [hK4]; decide
      have hd : (c :: K ++ '=' :: V).drop (cs!"_pos=").length = V := by
        rw [hkey]; rfl
      rw [List.cons_append] at hp hd
      have hrec : lastWholePosFrom (seen + 1) (K ++ '=' :: V) = none := by
        rw [ih, if_neg (fun h => hnot h.1)]
      have hs : posKey <:+ c :: K := by rw [hkey]; exact List.suffix_refl _
      have hlen : (c :: K).length = 4 := by rw [hkey]; rfl
      simp only [List.cons_append, lastWholePosFrom, hp, Bool.and_true, hd, hrec]
      by_cases h1 : 1 ≤ seen
      · have hd1 : decide (seen ≥ 1) = true := by simpa using h1
        rw [hd1, if_pos rfl, if_pos ⟨by simpa using hs, by rw [hlen]; omega⟩]
      · have hd1 : decide (seen ≥ 1) = false := by simpa using h1
        rw [hd1, if_neg (by simp), if_neg (fun h => by have h2 := h.2; rw [hlen] at h2; omega)]
    · have hp : (cs!"_pos=").isPrefixOf (c :: K ++ '=' :: V) = false := by
        cases hb : (cs!"_pos=").isPrefixOf (c :: K ++ '=' :: V) with
        | false => rfl
        | true => exact absurd ((posMark_prefix_keyval hK).mp hb) hkey
      rw [List.cons_append] at hp
      simp only [List.cons_append, lastWholePosFrom, hp, Bool.and_false, Bool.false_eq_true, if_false]
      rw [ih]
      have hsuf := posKey_suffix_cons hkey
      have hlen : seen + 1 + K.length - 4 = seen + (c :: K).length - 4 := by simp; omega
      simp only [hsuf, hlen]
      split <;> rename_i hc <;> exact hc.symm

/-! ## The value of a position line -/

theorem cutLastColon_posText (n : Nat) (a : List Nat) (hp : posPath a ≠ []) :
    cutLastColon (posText n a) = some (dec n ++ [':']) := by
  have hpc : ':' ∉ posPath a := fun h => colon_not_mem_encPath a (List.mem_of_mem_drop h)
  have hlenP : 0 < (posPath a).length := List.length_pos_iff.mpr hp
  have hlenD : 0 < (dec n).length := List.length_pos_iff.mpr (dec_ne_nil n)
  -- the only admissible index is the length of the numeral
  have hget : ∀ i, (posText n a).getD i ' ' = ':' → i = (dec n).length := by
    intro i hi
    unfold posText at hi
    rw [List.getD_eq_getElem?_getD] at hi
    by_cases h1 : i < (dec n).length
    · rw [List.getElem?_append_left h1] at hi
      have : (dec n)[i]? = some (dec n)[i] := List.getElem?_eq_getElem h1
      rw [this] at hi
      simp only [Option.getD_some] at hi
      exact absurd (hi ▸ List.getElem_mem h1) (colon_not_mem_dec n)
    · by_cases h2 : i = (dec n).length
      · exact h2
      · have h3 : (dec n).length < i := by omega
        rw [List.getElem?_append_right (by omega)] at hi
        have : i - (dec n).length = (i - (dec n).length - 1) + 1 := by omega
        rw [this, List.getElem?_cons_succ] at hi
        cases hq : (posPath a)[i - (dec n).length - 1]? with
        | none => rw [hq] at hi; simp at hi
        | some c =>
          rw [hq] at hi
          simp only [Option.getD_some] at hi
          exact absurd (hi ▸ List.mem_of_getElem? hq) hpc
  have hk : (posText n a).getD (dec n).length ' ' = ':' := by
    unfold posText
    rw [List.getD_eq_getElem?_getD, List.getElem?_append_right (Nat.le_refl _)]
    simp
  have hn : (posText n a).length = (dec n).length + 1 + (posPath a).length := by
    simp [posText]; omega
  unfold cutLastColon
  have hmemk : (dec n).length ∈ (List.range (posText n a).length).filter
      (fun i => (posText n a).getD i ' ' == ':' && decide (1 ≤ i) && decide (i + 1 < (posText n a).length)) := by
    rw [List.mem_filter, List.mem_range]
    refine ⟨by omega, ?_⟩
    simp only [hk, beq_self_eq_true, Bool.true_and, Bool.and_eq_true, decide_eq_true_eq]
    exact ⟨by omega, by omega⟩
  have hall : ∀ x ∈ (List.range (posText n a).length).filter
      (fun i => (posText n a).getD i ' ' == ':' && decide (1 ≤ i) && decide (i + 1 < (posText n a).length)),
      x = (dec n).length := by
    intro x hx
    rw [List.mem_filter] at hx
    simp only [Bool.and_eq_true, beq_iff_eq] at hx
    exact hget x hx.2.1.1
  have hlast : ((List.range (posText n a).length).filter
      (fun i => (posText n a).getD i ' ' == ':' && decide (1 ≤ i) && decide (i + 1 < (posText n a).length))).getLast? =
      some (dec n).length := by
    cases hq : ((List.range (posText n a).length).filter
      (fun i => (posText n a).getD i ' ' == ':' && decide (1 ≤ i) && decide (i + 1 < (posText n a).length))).getLast? with
    | none =>
      rw [List.getLast?_eq_none_iff] at hq
      rw [hq] at hmemk; cases hmemk
    | some x =>
      have := hall x (List.mem_of_getLast? hq)
      rw [this]
  simp only [hlast]
  have : (posText n a).take ((dec n).length + 1) = dec n ++ [':'] := by
    have e : posText n a = (dec n ++ [':']) ++ posPath a := by simp [posText]
    rw [e]; exact List.take_left' (by simp)
  rw [this]

theorem digitsColon_posText (n : Nat) (a : List Nat) (hp : posPath a ≠ []) :
    digitsColon? (posText n a) = some (dec n) := by
  have htw : (posText n a).takeWhile isDigitC = dec n := by
    unfold posText
    have : ∀ (D R : Str), (∀ c ∈ D, isDigitC c = true) → (D ++ ':' :: R).takeWhile isDigitC = D := by
      intro D R hD
      induction D with
      | nil => simp [List.takeWhile, isDigitC]
      | cons d D ih =>
        rw [List.cons_append, List.takeWhile_cons_of_pos (hD d (by simp)), ih (fun c hc => hD c (List.mem_cons_of_mem _ hc))]
    exact this _ _ (fun c hc => isDigitC_of_isDigit (isDigit_of_mem_dec hc))
  unfold digitsColon?
  simp only [htw]
  have hd : (posText n a).drop (dec n).length = ':' :: posPath a := by
    unfold posText; exact List.drop_left
  rw [hd]
  have h1 : (dec n).isEmpty = false := by
    cases hq : dec n with
    | nil => exact absurd hq (dec_ne_nil n)
    | cons _ _ => rfl
  have h2 : (posPath a).isEmpty = false := by
    cases hq : posPath a with
    | nil => exact absurd hq hp
    | cons _ _ => rfl
  simp [h1, h2]

/-! ## The lines of one entry -/

theorem not_posKey_suffix_marker {pre lit : Str} (head tail : Str) (hl : lit = head ++ tail)
    (h4 : tail.length = 4) (hne : tail ≠ posKey) : ¬ posKey <:+ pre ++ lit := by
  intro hs
  have hs' : posKey <:+ (pre ++ head) ++ tail := by rw [List.append_assoc, ← hl]; exact hs
  exact hne (suffix_same_length (by rw [h4]; rfl) hs').symm

/-- What the two scans of `whole_span` find on the lines of an entry: nothing, except on the position
line — the last line — of a positioned node. -/
theorem whole_entry_lines (h : Str → Str) (hh : HashNoEq h) (e : Entry) (hok : e.ok3 = true) :
    match e.posOf with
    | none => ∀ l ∈ e.lines h, l ≠ [] ∧ firstWholePos? l = none ∧ lastWholePos? l = none
    | some (n, a) => ∃ A L, e.lines h = A ++ [L] ∧
        (∀ l ∈ A, l ≠ [] ∧ firstWholePos? l = none ∧ lastWholePos? l = none) ∧ L ≠ [] ∧
        firstWholePos? L = some (dec n ++ [':']) ∧ lastWholePos? L = some (posText n a, dec n) := by
  simp only [Entry.ok3, Bool.and_eq_true] at hok
  obtain ⟨hok2, hitem⟩ := hok
  have hok1 : e.ok = true := by simp only [Entry.ok2, Bool.and_eq_true] at hok2; exact hok2.1
  have hpre := Entry.ok_pre hok1
  obtain ⟨addr, names, item⟩ := e
  have marker : ∀ (lit V head tail : Str), lit = head ++ tail → tail.length = 4 → tail ≠ posKey → '=' ∉ lit →
      '=' ∉ V → firstWholePos? ((encNames names ++ lit) ++ '=' :: V) = none ∧
        lastWholePos? ((encNames names ++ lit) ++ '=' :: V) = none := by
    intro lit V head tail hl h4 hne hlit hV
    have hK := not_mem_append_lit hpre hlit
    have hns := not_posKey_suffix_marker (pre := encNames names) head tail hl h4 hne
    constructor
    · unfold firstWholePos?; rw [firstWholePosFrom_keyval _ _ 0 hK hV, if_neg (fun hc => hns hc.1)]
    · unfold lastWholePos?; rw [lastWholePosFrom_keyval _ _ 0 hK hV, if_neg (fun hc => hns hc.1)]
  cases item with
  | node ty isE r ln =>
    have hty : '=' ∉ ty := by
      unfold Entry.ok at hok1
      simp only [Bool.and_eq_true] at hok1; simpa using hok1.2.1
    have htype := marker cs!"/_type" ty cs!"/_" cs!"type" rfl rfl (by decide) (by decide) hty
    have hhash := marker cs!"/_hash" (h r) cs!"/_" cs!"hash" rfl rfl (by decide) (by decide) (hh r)
    have e1 : typeLine (encNames names) ty = (encNames names ++ cs!"/_type") ++ '=' :: ty := by simp [typeLine]
    have e2 : hashLine (encNames names) (h r) = (encNames names ++ cs!"/_hash") ++ '=' :: h r := by simp [hashLine]
    have hA : ∀ l ∈ typeLine (encNames names) ty :: (if isE then [hashLine (encNames names) (h r)] else []),
        l ≠ [] ∧ firstWholePos? l = none ∧ lastWholePos? l = none := by
      intro l hl
      rcases List.mem_cons.mp hl with rfl | hl
      · exact ⟨by simp [typeLine], by rw [e1]; exact htype.1, by rw [e1]; exact htype.2⟩
      · cases isE with
        | false => simp at hl
        | true =>
          simp at hl; subst hl
          exact ⟨by simp [hashLine], by rw [e2]; exact hhash.1, by rw [e2]; exact hhash.2⟩
    cases ln with
    | none =>
      simp only [Entry.posOf, Entry.lines, List.append_nil]
      exact hA
    | some n =>
      simp only [Entry.posOf]
      have hp : posPath addr ≠ [] := by
        simp only [Bool.not_eq_true', List.isEmpty_eq_false_iff] at hitem; exact hitem
      have e3 : posLine (encNames names) n (encPath addr) =
          (encNames names ++ cs!"/_pos") ++ '=' :: posText n addr := by simp [posLine, posText, posPath]
      have hK := not_mem_append_lit hpre (by decide : '=' ∉ cs!"/_pos")
      have hV : '=' ∉ posText n addr := by
        simp only [posText, posPath, List.mem_append, List.mem_cons, not_or]
        exact ⟨eq_not_mem_dec n, by decide, fun hm => eq_not_mem_encPath addr (List.mem_of_mem_drop hm)⟩
      have hs : posKey <:+ encNames names ++ cs!"/_pos" := ⟨encNames names ++ cs!"/", by simp [posKey]⟩
      have hlen : 1 ≤ 0 + (encNames names ++ cs!"/_pos").length - 4 := by simp
      refine ⟨typeLine (encNames names) ty :: (if isE then [hashLine (encNames names) (h r)] else []),
        posLine (encNames names) n (encPath addr), by simp [Entry.lines], hA, by simp [posLine], ?_, ?_⟩
      · unfold firstWholePos?
        rw [e3, firstWholePosFrom_keyval _ _ 0 hK hV, if_pos ⟨hs, hlen⟩, cutLastColon_posText n addr hp]
      · unfold lastWholePos?
        rw [e3, lastWholePosFrom_keyval _ _ 0 hK hV, if_pos ⟨hs, hlen⟩, digitsColon_posText n addr hp]
        rfl
  | list q k =>
    have hlen := marker cs!"/_length" (dec k) cs!"/_le" cs!"ngth" rfl rfl (by decide) (by decide) (eq_not_mem_dec k)
    have e1 : lengthLine (encNames names) k = (encNames names ++ cs!"/_length") ++ '=' :: dec k := by simp [lengthLine]
    simp only [Entry.posOf]
    cases q with
    | true => simp [Entry.lines]
    | false =>
      intro l hl
      simp [Entry.lines] at hl; subst hl
      exact ⟨by simp [lengthLine], by rw [e1]; exact hlen.1, by rw [e1]; exact hlen.2⟩
  | scalar r =>
    simp only [Bool.and_eq_true, Option.isNone_iff_eq_none] at hitem
    simp only [Entry.posOf]
    intro l hl
    simp [Entry.lines] at hl; subst hl
    exact ⟨by simp [scalarLine], hitem.1, hitem.2⟩

/-! ## The two scans over the lines of a list of entries -/

theorem findFirstWhole_skip : ∀ (A L : List Str), (∀ l ∈ A, l ≠ [] ∧ firstWholePos? l = none) →
    findFirstWhole (A ++ L) = findFirstWhole L
  | [], _, _ => rfl
  | a :: A, L, h => by
    have ha := h a (by simp)
    have he : a.isEmpty = false := by
      cases hq : a with
      | nil => exact absurd hq ha.1
      | cons _ _ => rfl
    simp only [List.cons_append, findFirstWhole, he, Bool.false_eq_true, if_false, ha.2]
    exact findFirstWhole_skip A L (fun l hl => h l (List.mem_cons_of_mem _ hl))

theorem findFirstWhole_hit {l p : Str} (L : List Str) (hne : l ≠ []) (h : firstWholePos? l = some p) :
    findFirstWhole (l :: L) = some (p, L) := by
  have he : l.isEmpty = false := by
    cases hq : l with
    | nil => exact absurd hq hne
    | cons _ _ => rfl
  simp [findFirstWhole, he, h]

/-- The lazy part of `whole_span` stops at the position line of the first positioned entry. -/
theorem findFirstWhole_entries (h : Str → Str) (hh : HashNoEq h) : ∀ (es : List Entry),
    (∀ e ∈ es, e.ok3 = true) →
    findFirstWhole (es.flatMap (Entry.lines h)) =
      (firstPosSplit es).map (fun p => (dec p.1 ++ [':'], p.2.flatMap (Entry.lines h)))
  | [], _ => rfl
  | e :: es, hall => by
    have ih := findFirstWhole_entries h hh es (fun x hx => hall x (List.mem_cons_of_mem _ hx))
    have hw := whole_entry_lines h hh e (hall e (by simp))
    rw [List.flatMap_cons]
    obtain ⟨addr, names, item⟩ := e
    cases item with
    | node ty isE r ln =>
      cases ln with
      | none =>
        simp only [Entry.posOf] at hw
        rw [findFirstWhole_skip _ _ (fun l hl => ⟨(hw l hl).1, (hw l hl).2.1⟩), ih]
        simp [firstPosSplit]
      | some n =>
        simp only [Entry.posOf] at hw
        obtain ⟨A, L, hl, hA, hne, hf, _⟩ := hw
        rw [hl, List.append_assoc, findFirstWhole_skip _ _ (fun l hl' => ⟨(hA l hl').1, (hA l hl').2.1⟩)]
        simp only [List.cons_append, List.nil_append]
        rw [findFirstWhole_hit _ hne hf]
        simp [firstPosSplit]
    | list q k =>
      simp only [Entry.posOf] at hw
      rw [findFirstWhole_skip _ _ (fun l hl => ⟨(hw l hl).1, (hw l hl).2.1⟩), ih]
      simp [firstPosSplit]
    | scalar r =>
      simp only [Entry.posOf] at hw
      rw [findFirstWhole_skip _ _ (fun l hl => ⟨(hw l hl).1, (hw l hl).2.1⟩), ih]
      simp [firstPosSplit]

theorem findLastWhole_cons {l : Str} (L : List Str) (hne : l ≠ []) :
    findLastWhole (l :: L) = (findLastWhole L).orElse (fun _ => lastWholePos? l) := by
  have he : l.isEmpty = false := by
    cases hq : l with
    | nil => exact absurd hq hne
    | cons _ _ => rfl
  simp only [findLastWhole, he, Bool.false_eq_true, if_false]
  cases findLastWhole L <;> rfl

theorem findLastWhole_skip : ∀ (A L : List Str), (∀ l ∈ A, l ≠ [] ∧ lastWholePos? l = none) →
    findLastWhole (A ++ L) = findLastWhole L
  | [], _, _ => rfl
  | a :: A, L, h => by
    rw [List.cons_append, findLastWhole_cons _ (h a (by simp)).1,
      findLastWhole_skip A L (fun l hl => h l (List.mem_cons_of_mem _ hl)), (h a (by simp)).2]
    cases findLastWhole L <;> rfl

theorem findLastWhole_keep {x : Str × Str} : ∀ (A L : List Str), (∀ l ∈ A, l ≠ []) →
    findLastWhole L = some x → findLastWhole (A ++ L) = some x
  | [], _, _, hx => hx
  | a :: A, L, h, hx => by
    rw [List.cons_append, findLastWhole_cons _ (h a (by simp)),
      findLastWhole_keep A L (fun l hl => h l (List.mem_cons_of_mem _ hl)) hx]
    rfl

theorem lastPosOfEntries_cons' (e : Entry) (es : List Entry) :
    lastPosOfEntries (e :: es) = (lastPosOfEntries es).orElse (fun _ => e.posOf) := by
  obtain ⟨addr, names, item⟩ := e
  cases item with
  | node ty isE r ln =>
    cases ln with
    | none => simp [lastPosOfEntries, Entry.posOf]
    | some n =>
      simp only [lastPosOfEntries, List.filterMap_cons, Entry.posOf, List.getLast?_cons]
      cases (List.filterMap _ es).getLast? <;> rfl
  | list q k => simp [lastPosOfEntries, Entry.posOf]
  | scalar r => simp [lastPosOfEntries, Entry.posOf]

/-- The greedy part of `whole_span` stops at the position line of the last positioned entry. -/
theorem findLastWhole_entries (h : Str → Str) (hh : HashNoEq h) : ∀ (es : List Entry),
    (∀ e ∈ es, e.ok3 = true) →
    findLastWhole (es.flatMap (Entry.lines h)) =
      (lastPosOfEntries es).map (fun p => (posText p.1 p.2, dec p.1))
  | [], _ => rfl
  | e :: es, hall => by
    have ih := findLastWhole_entries h hh es (fun x hx => hall x (List.mem_cons_of_mem _ hx))
    have hw := whole_entry_lines h hh e (hall e (by simp))
    rw [List.flatMap_cons, lastPosOfEntries_cons']
    cases hp : e.posOf with
    | none =>
      rw [hp] at hw
      simp only at hw
      rw [findLastWhole_skip _ _ (fun l hl => ⟨(hw l hl).1, (hw l hl).2.2⟩), ih]
      cases lastPosOfEntries es <;> rfl
    | some p =>
      obtain ⟨n, a⟩ := p
      rw [hp] at hw
      simp only at hw
      obtain ⟨A, L, hl, hA, hne, _, hlast⟩ := hw
      rw [hl, List.append_assoc]
      have hL : findLastWhole ([L] ++ es.flatMap (Entry.lines h)) =
          some ((findLastWhole (es.flatMap (Entry.lines h))).getD (posText n a, dec n)) := by
        rw [List.singleton_append, findLastWhole_cons _ hne, hlast]
        cases findLastWhole (es.flatMap (Entry.lines h)) <;> rfl
      rw [findLastWhole_keep A _ (fun l hl' => (hA l hl').1) hL, ih]
      cases lastPosOfEntries es <;> rfl

theorem firstPosSplit_some_of_ne : ∀ {es : List Entry}, positionedOfEntries es ≠ [] →
    ∃ n rest, firstPosSplit es = some (n, rest)
  | [], h => absurd rfl h
  | e :: es, h => by
    obtain ⟨addr, names, item⟩ := e
    cases item with
    | node ty isE r ln =>
      cases ln with
      | some n => exact ⟨n, es, rfl⟩
      | none =>
        have : positionedOfEntries es ≠ [] := by simpa [positionedOfEntries] using h
        obtain ⟨n, rest, hr⟩ := firstPosSplit_some_of_ne this
        exact ⟨n, rest, by simp [firstPosSplit, hr]⟩
    | list q k =>
      have : positionedOfEntries es ≠ [] := by simpa [positionedOfEntries] using h
      obtain ⟨n, rest, hr⟩ := firstPosSplit_some_of_ne this
      exact ⟨n, rest, by simp [firstPosSplit, hr]⟩
    | scalar r =>
      have : positionedOfEntries es ≠ [] := by simpa [positionedOfEntries] using h
      obtain ⟨n, rest, hr⟩ := firstPosSplit_some_of_ne this
      exact ⟨n, rest, by simp [firstPosSplit, hr]⟩

theorem firstPosSplit_subset : ∀ {es : List Entry} {n : Nat} {rest : List Entry},
    firstPosSplit es = some (n, rest) → ∀ e ∈ rest, e ∈ es
  | [], _, _, h => by simp [firstPosSplit] at h
  | x :: es, n, rest, h => by
    obtain ⟨addr, names, item⟩ := x
    intro e he
    cases item with
    | node ty isE r ln =>
      cases ln with
      | some m =>
        simp only [firstPosSplit, Option.some.injEq, Prod.mk.injEq] at h
        rw [← h.2] at he; exact List.mem_cons_of_mem _ he
      | none =>
        simp only [firstPosSplit] at h
        exact List.mem_cons_of_mem _ (firstPosSplit_subset h e he)
    | list q k =>
      simp only [firstPosSplit] at h
      exact List.mem_cons_of_mem _ (firstPosSplit_subset h e he)
    | scalar r =>
      simp only [firstPosSplit] at h
      exact List.mem_cons_of_mem _ (firstPosSplit_subset h e he)

/-- The `whole_span` match on the lines of a `Module` line followed by well-formed entries. -/
theorem wholeSpanMatch_entries (h : Str → Str) (hh : HashNoEq h) (es : List Entry)
    (hall : ∀ e ∈ es, e.ok3 = true) {n1 : Nat} {rest : List Entry} (hs : firstPosSplit es = some (n1, rest)) :
    wholeSpanMatch? (cs!"/_type=Module" :: es.flatMap (Entry.lines h)) =
      some (match lastPosOfEntries rest with
        | some (n2, a2) => ([dec n1 ++ [':'], posText n2 a2], [dec n2])
        | none => ([dec n1 ++ [':']], [])) := by
  have h1 := findFirstWhole_entries h hh es hall
  rw [hs] at h1
  have h2 := findLastWhole_entries h hh rest (fun e he => hall e (firstPosSplit_subset hs e he))
  simp only [wholeSpanMatch?, beq_self_eq_true, if_true, h1, Option.map_some, h2]
  cases lastPosOfEntries rest with
  | none => rfl
  | some p => rfl

theorem posToSpan_single (n : Nat) : posToSpan? [dec n ++ [':']] = some ⟨n, n, []⟩ := by
  have h1 : parsePos? (dec n ++ [':']) = some (n, []) := by
    simp [parsePos?, splitColon_append _ _ (colon_not_mem_dec n), splitColon, parseNat_dec]
  simp [posToSpan?, h1]

/-- Every `whole_span` occurrence (any text) has `start ≤ end`. -/
theorem wholeSpanBindings_ordered {ls : List Str} {bs : List (Str × SpanP)}
    (h : wholeSpanBindings? ls = some bs) : ∀ b ∈ bs, b.2.start ≤ b.2.stop := by
  unfold wholeSpanBindings? at h
  split at h
  · simp only [Option.some.injEq] at h; subst h; intro b hb; cases hb
  all_goals
    simp only [Option.map_eq_some_iff] at h
    obtain ⟨s, hp, hs⟩ := h
    subst hs
    intro b hb
    simp only [List.mem_singleton] at hb
    subst hb
    exact posToSpan_ordered hp

end Paroxy.Flat
