/-
What `Taxonomy.to_taxa` hands to `deduplicated_taxa`: `sorted(acc.items())` is strictly sorted by
name and its bags are dicts with positive counts — the hypotheses of the C10 clause theorems other
than the cleanliness of the names (which is a property of the taxonomy). Also: which keys the
accumulator has.
-/
import Paroxy.Spec.Taxonomy
import Paroxy.Spec.Dedup
import Paroxy.Proofs.Bag
import Paroxy.Proofs.Taxonomy
namespace Paroxy.ToTaxa
open Paroxy Paroxy.Taxo Paroxy.Spec.Taxo Paroxy.TaxoProofs
set_option linter.unusedSectionVars false
set_option linter.unusedSimpArgs false
variable {σ : Type} [DecidableEq σ]

/-! ### dictionaries: keys -/

theorem keys_dset {β : Type} (d : List (Str × β)) (k : Str) (v : β) :
    (dset d k v).map Prod.fst
      = if k ∈ d.map Prod.fst then d.map Prod.fst else d.map Prod.fst ++ [k] := by
  induction d with
  | nil => simp [dset]
  | cons e t ih =>
    obtain ⟨k', w⟩ := e
    by_cases hk : k' = k
    · subst hk; simp [dset]
    · simp only [dset, hk, if_false, List.map_cons, ih, List.mem_cons, Ne.symm hk, false_or]
      split <;> simp

theorem nodup_keys_dset {β : Type} {d : List (Str × β)} (h : (d.map Prod.fst).Nodup) (k : Str) (v : β) :
    ((dset d k v).map Prod.fst).Nodup := by
  rw [keys_dset]
  split
  · exact h
  · rename_i hk
    rw [List.nodup_append]
    refine ⟨h, by simp, ?_⟩
    intro a ha b hb
    simp only [List.mem_singleton] at hb
    subst hb
    intro hab; subst hab; exact hk ha

theorem mem_dset {β : Type} {d : List (Str × β)} {k : Str} {v : β} {e : Str × β}
    (h : e ∈ dset d k v) : e = (k, v) ∨ e ∈ d := by
  induction d with
  | nil => simp [dset] at h; exact Or.inl h
  | cons x t ih =>
    obtain ⟨k', w⟩ := x
    simp only [dset] at h
    split at h
    · rename_i hk
      rcases List.mem_cons.mp h with h | h
      · left; rw [h, hk]
      · right; exact List.mem_cons_of_mem _ h
    · rcases List.mem_cons.mp h with h | h
      · right; rw [h]; exact List.mem_cons_self
      · rcases ih h with h | h
        · exact Or.inl h
        · exact Or.inr (List.mem_cons_of_mem _ h)

theorem dget_mem {β : Type} {d : List (Str × β)} {k : Str} {v : β} (h : dget d k = some v) :
    (k, v) ∈ d := by
  induction d with
  | nil => simp [dget] at h
  | cons x t ih =>
    obtain ⟨k', w⟩ := x
    simp only [dget] at h
    split at h
    · rename_i hk; cases h; subst hk; exact List.mem_cons_self
    · exact List.mem_cons_of_mem _ (ih h)

/-! ### bags built by `Counter.update` -/

def Good (b : Bag σ) : Prop := Bag.WF b ∧ ∀ x ∈ b, 0 < x.2

theorem mem_set {b : Bag σ} {s : σ} {v : Int} {x : σ × Int} (h : x ∈ Bag.set b s v) :
    x = (s, v) ∨ x ∈ b := by
  induction b with
  | nil => simp [Bag.set] at h; exact Or.inl h
  | cons e t ih =>
    obtain ⟨k, w⟩ := e
    simp only [Bag.set] at h
    split at h
    · rename_i hk
      rcases List.mem_cons.mp h with h | h
      · left; rw [h, hk]
      · right; exact List.mem_cons_of_mem _ h
    · rcases List.mem_cons.mp h with h | h
      · right; rw [h]; exact List.mem_cons_self
      · rcases ih h with h | h
        · exact Or.inl h
        · exact Or.inr (List.mem_cons_of_mem _ h)

theorem good_updateList (l : List σ) : ∀ b : Bag σ, Good b → Good (Bag.updateList b l) := by
  unfold Bag.updateList
  induction l with
  | nil => intro b h; exact h
  | cons s t ih =>
    intro b h
    simp only [List.foldl_cons]
    apply ih
    refine ⟨Bag.WF_set h.1 _ _, ?_⟩
    intro x hx
    rcases mem_set hx with rfl | hx
    · have := Bag.count_nonneg_of_pos h.2 s
      simp only; omega
    · exact h.2 x hx

theorem good_nil : Good ([] : Bag σ) := ⟨Bag.WF_nil, by intro x hx; cases hx⟩

/-! ### the accumulator -/

/-- Distinct keys, good bags. -/
def AccOK (acc : List (Str × Bag σ)) : Prop :=
  (acc.map Prod.fst).Nodup ∧ ∀ e ∈ acc, Good e.2

theorem accOK_accUpdate {acc : List (Str × Bag σ)} (h : AccOK acc) (t : Str) (spans : List σ) :
    AccOK (accUpdate acc t spans) := by
  unfold accUpdate
  refine ⟨nodup_keys_dset h.1 _ _, ?_⟩
  intro e he
  rcases mem_dset he with rfl | he
  · apply good_updateList
    cases hd : dget acc t with
    | none => exact good_nil
    | some b => exact h.2 (t, b) (dget_mem hd)
  · exact h.2 e he

theorem accOK_foldl (names : List Str) (spans : List σ) :
    ∀ acc : List (Str × Bag σ), AccOK acc →
      AccOK (names.foldl (fun a t => accUpdate a t spans) acc) := by
  induction names with
  | nil => intro acc h; exact h
  | cons n rest ih => intro acc h; exact ih _ (accOK_accUpdate h n spans)

theorem accOK_accumulate (o : Oracle) (labels : List (Str × List σ)) :
    ∀ (st : State) (acc : List (Str × Bag σ)), AccOK acc → AccOK (accumulate o st acc labels).2 := by
  induction labels with
  | nil => intro st acc h; exact h
  | cons ls rest ih =>
    obtain ⟨L, spans⟩ := ls
    intro st acc h
    simp only [accumulate]
    exact ih _ _ (accOK_foldl _ spans acc h)

/-! ### keys of the accumulator -/

theorem keys_foldl (names : List Str) (spans : List σ) (t : Str) :
    ∀ acc : List (Str × Bag σ),
      t ∈ (names.foldl (fun a t' => accUpdate a t' spans) acc).map Prod.fst
        ↔ t ∈ acc.map Prod.fst ∨ t ∈ names := by
  induction names with
  | nil => intro acc; simp
  | cons n rest ih =>
    intro acc
    simp only [List.foldl_cons]
    rw [ih]
    unfold accUpdate
    rw [keys_dset]
    by_cases hn : n ∈ acc.map Prod.fst
    · simp only [hn, if_true, List.mem_cons]
      constructor
      · rintro (h | h)
        · exact Or.inl h
        · exact Or.inr (Or.inr h)
      · rintro (h | h | h)
        · exact Or.inl h
        · subst h; exact Or.inl hn
        · exact Or.inr h
    · simp only [hn, if_false]
      rw [List.mem_append, List.mem_singleton]
      simp only [List.mem_cons]
      constructor
      · rintro ((h | h) | h)
        · exact Or.inl h
        · exact Or.inr (Or.inl h)
        · exact Or.inr (Or.inr h)
      · rintro (h | h | h)
        · exact Or.inl (Or.inl h)
        · exact Or.inl (Or.inr h)
        · exact Or.inr h

theorem keys_accumulate (o : Oracle) (rows : List Row) (labels : List (Str × List σ)) (t : Str) :
    ∀ (st : State) (acc : List (Str × Bag σ)), MemoOK o rows st →
      (t ∈ (accumulate o st acc labels).2.map Prod.fst
        ↔ t ∈ acc.map Prod.fst ∨ t ∈ rawKeys o rows labels) := by
  induction labels with
  | nil => intro st acc _; simp [accumulate, rawKeys]
  | cons ls rest ih =>
    obtain ⟨L, spans⟩ := ls
    intro st acc h
    obtain ⟨h1, h2⟩ := call_ok o rows st h L
    simp only [accumulate]
    rw [ih _ _ h2, keys_foldl, h1]
    simp only [rawKeys, List.flatMap_cons, List.mem_append]
    constructor
    · rintro ((h | h) | h)
      · exact Or.inl h
      · exact Or.inr (Or.inl h)
      · exact Or.inr (Or.inr h)
    · rintro (h | h | h)
      · exact Or.inl (Or.inl h)
      · exact Or.inl (Or.inr h)
      · exact Or.inr h

/-! ### `sorted(acc.items())` -/

theorem sortTaxa_perm (acc : List (Str × Bag σ)) : (sortTaxa acc).Perm acc :=
  List.mergeSort_perm _ _

theorem strictSorted_sortTaxa {acc : List (Str × Bag σ)} (h : (acc.map Prod.fst).Nodup) :
    Spec.Dedup.StrictSorted ((sortTaxa acc).map Prod.fst) := by
  unfold Spec.Dedup.StrictSorted
  rw [List.pairwise_map]
  have hle : (sortTaxa acc).Pairwise fun a b => decide (a.1 ≤ b.1) = true := by
    apply List.pairwise_mergeSort
    · intro a b c hab hbc
      simp only [decide_eq_true_eq] at *
      exact List.le_trans hab hbc
    · intro a b
      rcases List.le_total a.1 b.1 with h | h <;> simp [h]
  have hne : (sortTaxa acc).Pairwise fun a b => a.1 ≠ b.1 := by
    have : ((sortTaxa acc).map Prod.fst).Nodup := ((sortTaxa_perm acc).map Prod.fst).nodup_iff.mpr h
    rw [List.Nodup, List.pairwise_map] at this
    exact this
  refine List.Pairwise.imp ?_ (hle.and hne)
  intro a b ⟨h1, h2⟩
  simp only [decide_eq_true_eq] at h1
  rcases List.le_iff_lt_or_eq.mp h1 with h | h
  · exact h
  · exact absurd h h2

end Paroxy.ToTaxa
