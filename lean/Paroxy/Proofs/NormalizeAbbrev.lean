/-
Helper lemmas for C16, part 3 (round 10, E3): the ABBREVIATED spellings (`x<y`, `x<y≤y`, `x=y`, …)
under arbitrary decorations.

Plan. The proofs of `Proofs/NormalizePredicate.lean` use only four facts about the text of a formula
spelling: its characters (`fchar`), its first and last non-blank characters (for `strip`), that junk
may be added or trimmed at both ends, and that the salvage pipeline maps it to the key. `Body k X`
packages exactly these facts for an arbitrary lower-case text `X`; every decorated theorem is proved
once for bodies (`body_*`), and an abbreviated rendering is shown to be a body: stages 1-3 of the
salvage pipeline (`<=`→`≤`, `==`→`=`, erase junk) are proved by induction for a chain of comparisons
of ANY length, and the last stage — the expansion step `x` ↦ `x≤x`, `y` ↦ `y≤y`, `x=y` ↦ `x=y≤x=y` of
the code — maps the 60 bare abbreviations to their keys (`expand_abbrev`, a finite table).
-/
import Paroxy.Proofs.NormalizePredicate
namespace Paroxy.NP
open Paroxy Paroxy.Spec Paroxy.Spec.NP

/-! ### Generic list lemmas -/

theorem lstrip_app_of_nonspace {X : Str} (h : ∃ c ∈ X, isSpace c = false) (Z : Str) :
    lstrip (X ++ Z) = lstrip X ++ Z := dropWhile_append_of_any _ _ _ h

theorem rstrip_app_of_nonspace {X : Str} (h : ∃ c ∈ X, isSpace c = false) (Z : Str) :
    rstrip (Z ++ X) = Z ++ rstrip X := by
  unfold rstrip
  rw [List.reverse_append, dropWhile_append_of_any _ _ _
    (by obtain ⟨c, hc, hs⟩ := h; exact ⟨c, List.mem_reverse.mpr hc, hs⟩)]
  simp

/-! ### Bodies -/

/-- `T` is a lower-case text without outer blanks which the salvage pipeline maps to `k`, whatever
junk surrounds it. -/
structure Core (k : Key) (T : Str) : Prop where
  fch : T.all fchar = true
  hd : ∃ c r, T = c :: r ∧ isSpace c = false
  lst : ∃ ys d, T = ys ++ [d] ∧ isSpace d = false
  salv : ∀ a b : Str, a.all junkChar = true → b.all junkChar = true → salvage (a ++ (T ++ b)) = k.codes

/-- A core between two junk strings. -/
def Body (k : Key) (X : Str) : Prop :=
  ∃ a T b, X = a ++ (T ++ b) ∧ a.all junkChar = true ∧ b.all junkChar = true ∧ Core k T

theorem junk_fchar {j : Str} (h : j.all junkChar = true) : j.all fchar = true := by
  rw [List.all_eq_true] at *
  intro c hc; simp [fchar, h c hc]

section body
variable {k : Key}

theorem body_fchar {X : Str} (h : Body k X) : X.all fchar = true := by
  obtain ⟨a, T, b, rfl, ha, hb, hT⟩ := h
  simp only [List.all_append, junk_fchar ha, junk_fchar hb, hT.fch, Bool.and_self]

theorem body_clean {X : Str} (h : Body k X) : X.all clean = true := fchar_clean (body_fchar h)

theorem body_ne_i {X : Str} (h : Body k X) : ∀ c ∈ X, c ≠ 105 :=
  fun c hc => (fchar_ne (List.all_eq_true.mp (body_fchar h) c hc)).2.1

theorem body_nonspace {X : Str} (h : Body k X) : ∃ c ∈ X, isSpace c = false := by
  obtain ⟨a, T, b, rfl, _, _, hT⟩ := h
  obtain ⟨c, r, rfl, hc⟩ := hT.hd
  exact ⟨c, by simp, hc⟩

theorem body_pre {X j : Str} (h : Body k X) (hj : j.all junkChar = true) : Body k (j ++ X) := by
  obtain ⟨a, T, b, rfl, ha, hb, hT⟩ := h
  exact ⟨j ++ a, T, b, by simp, by rw [List.all_append, hj, ha]; rfl, hb, hT⟩

theorem body_post {X j : Str} (h : Body k X) (hj : j.all junkChar = true) : Body k (X ++ j) := by
  obtain ⟨a, T, b, rfl, ha, hb, hT⟩ := h
  exact ⟨a, T, b ++ j, by simp, ha, by rw [List.all_append, hb, hj]; rfl, hT⟩

theorem body_lstrip {X : Str} (h : Body k X) : Body k (lstrip X) := by
  obtain ⟨a, T, b, rfl, ha, hb, hT⟩ := h
  obtain ⟨c, r, hcr, hc⟩ := hT.hd
  refine ⟨lstrip a, T, b, ?_, all_dropWhile _ _ _ ha, hb, hT⟩
  rw [hcr]
  exact lstrip_junk_cons _ _ _ hc

theorem body_rstrip {X : Str} (h : Body k X) : Body k (rstrip X) := by
  obtain ⟨a, T, b, rfl, ha, hb, hT⟩ := h
  obtain ⟨ys, d, hyd, hd⟩ := hT.lst
  refine ⟨a, T, rstrip b, ?_, ha, all_reverse_dropWhile_reverse _ _ hb, hT⟩
  rw [hyd]
  have := rstrip_append (a ++ ys) [d] b (by simp) (by simpa using hd)
  simpa using this

theorem lstrip_body_app {X : Str} (h : Body k X) (Z : Str) : lstrip (X ++ Z) = lstrip X ++ Z :=
  lstrip_app_of_nonspace (body_nonspace h) Z

theorem rstrip_app_body {X : Str} (h : Body k X) (Z : Str) : rstrip (Z ++ X) = Z ++ rstrip X :=
  rstrip_app_of_nonspace (body_nonspace h) Z

theorem body_salvage {X : Str} (h : Body k X) : salvage X = k.codes := by
  obtain ⟨a, T, b, rfl, ha, hb, hT⟩ := h
  exact hT.salv a b ha hb

theorem salvage_key (k' : Key) (hk' : k' ∈ allKeys) : salvage k'.codes = k'.codes := by
  have := salvage_formula k' hk' {} (styleOk_of_junkOk (by decide)) (by decide)
  simpa [renderFormula, renderOperand, renderOp_canonical, Key.codes] using this

/-- The dictionary stage on a body (the proof of `lookup_formula`, for any body). -/
theorem lookup_body (hk : k ∈ allKeys) {X : Str} (h : Body k X) (neg : Bool) :
    lookup names X neg = some (k.codes, neg) := by
  unfold lookup
  have hf := body_fchar h
  have hs := body_salvage h
  split
  · rename_i v hv
    have hm := dictGet?_mem hv
    have sh := List.all_eq_true.mp names_shape _ hm
    simp only [Bool.or_eq_true, Bool.and_eq_true, beq_iff_eq, List.any_eq_true] at sh
    rcases sh with ⟨he, hvo⟩ | ⟨c, hc, hoc⟩
    · obtain ⟨k', hk', hv'⟩ := valueOk_spec hvo
      rw [hv', salvage_key k' hk'] at hs
      rw [← he, hv', hs]
    · have := (fchar_ne (List.all_eq_true.mp hf c hc)).2.2.2
      rw [this] at hoc; cases hoc
  · rw [hs]
    have := beq_iff_eq.mp (List.all_eq_true.mp names_keys k hk)
    rw [this]

/-- Everything `normalize` does after the negation stage, on a body. -/
theorem finish_body (hk : k ∈ allKeys) {X : Str} (h : Body k X) (neg : Bool) :
    finish names X neg = some (k.codes, neg) := by
  rw [finish_eq]
  have h' : Body k (strip X) := body_rstrip (body_lstrip h)
  rw [subIs_id _ (body_ne_i h')]
  exact lookup_body hk h' neg

theorem finish_is_prefix_body (hk : k ∈ allKeys) {X : Str} (h : Body k X) (neg : Bool) {ws : Str}
    (hws : ws.all isSpace = true) :
    finish names (ws ++ 105 :: 115 :: 32 :: X) neg = some (k.codes, neg) := by
  rw [finish_eq]
  have e : strip (ws ++ 105 :: 115 :: 32 :: X) = 105 :: 115 :: 32 :: rstrip X := by
    unfold strip
    rw [lstrip_ws_cons hws _ _ (by rfl)]
    exact rstrip_app_body h [105, 115, 32]
  rw [e, subIs_is_prefix _ (body_ne_i (body_rstrip h))]
  exact lookup_body hk (body_rstrip h) neg

theorem finish_is_suffix_body (hk : k ∈ allKeys) {X : Str} (h : Body k X) (neg : Bool) {ws : Str}
    (hws : ws.all isSpace = true) :
    finish names (X ++ 32 :: 105 :: 115 :: ws) neg = some (k.codes, neg) := by
  rw [finish_eq]
  have e : strip (X ++ 32 :: 105 :: 115 :: ws) = lstrip X ++ [32, 105, 115] := by
    unfold strip
    rw [lstrip_body_app h]
    have := rstrip_snoc_ws (lstrip X ++ [32, 105]) 115 hws (by rfl)
    simpa using this
  rw [e, subIs_is_suffix _ (body_ne_i (body_lstrip h))]
  exact lookup_body hk (body_lstrip h) neg

theorem is_body_clean {X : Str} (h : Body k X) : (105 :: 115 :: 32 :: X).all clean = true := by
  rw [show 105 :: 115 :: 32 :: X = [105, 115, 32] ++ X from rfl, List.all_append, body_clean h]
  rfl

/-! ### Decorated bodies: `R` is any text whose lower-casing is a body for `k` -/

variable (hk : k ∈ allKeys) {R : Str} (hR : Body k (lower R))
include hk hR

theorem body_plain : normalize names R = some (k.codes, false) := by
  unfold normalize
  have h' : Body k (strip (lower R)) := body_rstrip (body_lstrip hR)
  rw [negation_clean _ (body_clean h')]
  exact finish_body hk h' false

theorem body_bang {ws ws2 : Str} (hws : ws.all isSpace = true) (hws2 : ws2.all isSpace = true) :
    normalize names (ws ++ 33 :: ws2 ++ R) = some (k.codes, true) := by
  have e0 : strip (lower (ws ++ 33 :: ws2 ++ R)) = 33 :: (ws2 ++ rstrip (lower R)) := by
    have : lower (ws ++ 33 :: ws2 ++ R) = ws ++ 33 :: (ws2 ++ lower R) := by
      simp [lower_append, lower_cons, lower_ws hws, lower_ws hws2, lowerC]
    unfold strip
    rw [this, lstrip_ws_cons hws _ _ (by rfl)]
    have := rstrip_app_body hR (33 :: ws2)
    simpa using this
  unfold normalize
  rw [e0, negation_bang]
  exact finish_body hk (body_pre (body_rstrip hR) (ws_junk hws2)) true

theorem body_not_prefix {ws wN : Str} (hws : ws.all isSpace = true) (hN : lower wN = sNot) :
    normalize names (ws ++ wN ++ 32 :: R) = some (k.codes, true) := by
  have e0 : strip (lower (ws ++ wN ++ 32 :: R)) = [] ++ sNotSp ++ rstrip (lower R) := by
    rw [lower_append, lower_append, lower_cons, lower_ws hws, hN]
    unfold strip
    have : ws ++ sNot ++ lowerC 32 :: lower R = ws ++ 110 :: ([111, 116, 32] ++ lower R) := by
      simp [sNot, lowerC]
    rw [this, lstrip_ws_cons hws _ _ (by rfl)]
    exact rstrip_app_body hR [110, 111, 116, 32]
  unfold normalize
  rw [e0, negation_not1 _ _ (by rfl) (body_clean (body_rstrip hR))]
  exact finish_body hk (body_rstrip hR) true

theorem body_not_suffix {ws wN : Str} (hws : ws.all isSpace = true) (hN : lower wN = sNot) :
    normalize names (R ++ 32 :: wN ++ ws) = some (k.codes, true) := by
  have e0 : strip (lower (R ++ 32 :: wN ++ ws)) = lstrip (lower R) ++ sSpNot := by
    rw [lower_append, lower_append, lower_cons, lower_ws hws, hN]
    unfold strip
    rw [List.append_assoc, lstrip_body_app hR]
    have := rstrip_snoc_ws (lstrip (lower R) ++ [32, 110, 111]) 116 hws (by rfl)
    simpa [sNot, sSpNot, lowerC] using this
  unfold normalize
  rw [e0, negation_not2 _ (body_clean (body_lstrip hR))]
  exact finish_body hk (body_lstrip hR) true

theorem body_is_prefix {ws wI : Str} (hws : ws.all isSpace = true) (hI : lower wI = sIs) :
    normalize names (ws ++ wI ++ 32 :: R) = some (k.codes, false) := by
  have e0 : strip (lower (ws ++ wI ++ 32 :: R)) = 105 :: 115 :: 32 :: rstrip (lower R) := by
    rw [lower_append, lower_append, lower_cons, lower_ws hws, hI]
    unfold strip
    have : ws ++ sIs ++ lowerC 32 :: lower R = ws ++ 105 :: ([115, 32] ++ lower R) := by simp [sIs, lowerC]
    rw [this, lstrip_ws_cons hws _ _ (by rfl)]
    exact rstrip_app_body hR [105, 115, 32]
  unfold normalize
  rw [e0, negation_clean _ (is_body_clean (body_rstrip hR))]
  exact finish_is_prefix_body hk (body_rstrip hR) false (ws := []) rfl

theorem body_is_suffix {ws wI : Str} (hws : ws.all isSpace = true) (hI : lower wI = sIs) :
    normalize names (R ++ 32 :: wI ++ ws) = some (k.codes, false) := by
  have e0 : strip (lower (R ++ 32 :: wI ++ ws)) = lstrip (lower R) ++ [32, 105, 115] := by
    rw [lower_append, lower_append, lower_cons, lower_ws hws, hI]
    unfold strip
    rw [List.append_assoc, lstrip_body_app hR]
    have := rstrip_snoc_ws (lstrip (lower R) ++ [32, 105]) 115 hws (by rfl)
    simpa [sIs, lowerC] using this
  have hc : (lstrip (lower R) ++ [32, 105, 115]).all clean = true := by
    rw [List.all_append, body_clean (body_lstrip hR)]; rfl
  unfold normalize
  rw [e0, negation_clean _ hc]
  exact finish_is_suffix_body hk (body_lstrip hR) false (ws := []) rfl

theorem body_is_not_prefix {ws ws2 wI wN : Str} (hws : ws.all isSpace = true)
    (hws2 : ws2.all isSpace = true) (hI : lower wI = sIs) (hN : lower wN = sNot) :
    normalize names (ws ++ wI ++ 32 :: ws2 ++ wN ++ 32 :: R) = some (k.codes, true) := by
  have e0 : strip (lower (ws ++ wI ++ 32 :: ws2 ++ wN ++ 32 :: R)) =
      (105 :: 115 :: 32 :: ws2) ++ sNotSp ++ rstrip (lower R) := by
    have : lower (ws ++ wI ++ 32 :: ws2 ++ wN ++ 32 :: R) =
        ws ++ 105 :: ((115 :: 32 :: ws2 ++ [110, 111, 116, 32]) ++ lower R) := by
      simp [lower_append, lower_cons, lower_ws hws, lower_ws hws2, hI, hN, sIs, sNot, lowerC]
    unfold strip
    rw [this, lstrip_ws_cons hws _ _ (by rfl)]
    have := rstrip_app_body hR (105 :: 115 :: 32 :: ws2 ++ [110, 111, 116, 32])
    simpa [sNotSp] using this
  have hP : (105 :: 115 :: 32 :: ws2).all clean = true := by
    rw [show 105 :: 115 :: 32 :: ws2 = [105, 115, 32] ++ ws2 from rfl, List.all_append, ws_clean hws2]; rfl
  unfold normalize
  rw [e0, negation_not1 _ _ hP (body_clean (body_rstrip hR))]
  exact finish_is_prefix_body hk (body_pre (body_rstrip hR) (ws_junk hws2)) true (ws := []) rfl

theorem body_is_prefix_not_suffix {ws ws' wI wN : Str} (hws : ws.all isSpace = true)
    (hws' : ws'.all isSpace = true) (hI : lower wI = sIs) (hN : lower wN = sNot) :
    normalize names (ws ++ wI ++ 32 :: R ++ 32 :: wN ++ ws') = some (k.codes, true) := by
  have e0 : strip (lower (ws ++ wI ++ 32 :: R ++ 32 :: wN ++ ws')) =
      (105 :: 115 :: 32 :: lower R) ++ sSpNot := by
    rw [lower_append, lower_append, lower_append, lower_cons, lower_append, lower_cons,
      lower_ws hws, lower_ws hws', hI, hN]
    unfold strip
    have : ws ++ sIs ++ lowerC 32 :: lower R ++ lowerC 32 :: sNot ++ ws' =
        ws ++ 105 :: ((115 :: 32 :: lower R ++ [32, 110, 111]) ++ 116 :: ws') := by
      simp [sIs, sNot, lowerC]
    rw [this, lstrip_ws_cons hws _ _ (by rfl)]
    have := rstrip_snoc_ws (105 :: (115 :: 32 :: lower R ++ [32, 110, 111])) 116 hws' (by rfl)
    simpa [sSpNot] using this
  unfold normalize
  rw [e0, negation_not2 _ (is_body_clean hR)]
  exact finish_is_prefix_body hk hR true (ws := []) rfl

theorem body_is_not_suffix {ws ws2 wI wN : Str} (hws : ws.all isSpace = true)
    (hws2 : ws2.all isSpace = true) (hI : lower wI = sIs) (hN : lower wN = sNot) :
    normalize names (R ++ 32 :: wI ++ ws2 ++ 32 :: wN ++ ws) = some (k.codes, true) := by
  have e0 : strip (lower (R ++ 32 :: wI ++ ws2 ++ 32 :: wN ++ ws)) =
      (lstrip (lower R) ++ 32 :: 105 :: 115 :: ws2) ++ sSpNot := by
    rw [lower_append, lower_append, lower_append, lower_append, lower_cons, lower_cons,
      lower_ws hws, lower_ws hws2, hI, hN]
    unfold strip
    rw [List.append_assoc, List.append_assoc, List.append_assoc, lstrip_body_app hR]
    have := rstrip_snoc_ws (lstrip (lower R) ++ (32 :: 105 :: 115 :: ws2 ++ [32, 110, 111])) 116 hws (by rfl)
    simpa [sIs, sNot, sSpNot, lowerC] using this
  have hc : (lstrip (lower R) ++ 32 :: 105 :: 115 :: ws2).all clean = true := by
    rw [List.all_append, body_clean (body_lstrip hR),
      show 32 :: 105 :: 115 :: ws2 = [32, 105, 115] ++ ws2 from rfl, List.all_append, ws_clean hws2]; rfl
  unfold normalize
  rw [e0, negation_not2 _ hc]
  exact finish_is_suffix_body hk (body_lstrip hR) true hws2

theorem body_bang_is_prefix {ws ws2 wI : Str} (hws : ws.all isSpace = true)
    (hws2 : ws2.all isSpace = true) (hI : lower wI = sIs) :
    normalize names (ws ++ 33 :: ws2 ++ wI ++ 32 :: R) = some (k.codes, true) := by
  have e0 : strip (lower (ws ++ 33 :: ws2 ++ wI ++ 32 :: R)) =
      33 :: (ws2 ++ 105 :: 115 :: 32 :: rstrip (lower R)) := by
    have : lower (ws ++ 33 :: ws2 ++ wI ++ 32 :: R) = ws ++ 33 :: ((ws2 ++ [105, 115, 32]) ++ lower R) := by
      simp [lower_append, lower_cons, lower_ws hws, lower_ws hws2, hI, sIs, lowerC]
    unfold strip
    rw [this, lstrip_ws_cons hws _ _ (by rfl)]
    have := rstrip_app_body hR (33 :: (ws2 ++ [105, 115, 32]))
    simpa using this
  unfold normalize
  rw [e0, negation_bang]
  exact finish_is_prefix_body hk (body_rstrip hR) true hws2

theorem body_bang_is_suffix {ws ws' wI : Str} (hws : ws.all isSpace = true)
    (hws' : ws'.all isSpace = true) (hI : lower wI = sIs) :
    normalize names (ws ++ 33 :: R ++ 32 :: wI ++ ws') = some (k.codes, true) := by
  have e0 : strip (lower (ws ++ 33 :: R ++ 32 :: wI ++ ws')) = 33 :: (lower R ++ 32 :: 105 :: 115 :: []) := by
    rw [lower_append, lower_append, lower_cons, lower_append, lower_cons, lower_ws hws, lower_ws hws', hI]
    unfold strip
    have : ws ++ lowerC 33 :: lower R ++ lowerC 32 :: sIs ++ ws' =
        ws ++ 33 :: ((lower R ++ [32, 105]) ++ 115 :: ws') := by
      simp [sIs, lowerC]
    rw [this, lstrip_ws_cons hws _ _ (by rfl)]
    have := rstrip_snoc_ws (33 :: (lower R ++ [32, 105])) 115 hws' (by rfl)
    simpa using this
  unfold normalize
  rw [e0, negation_bang]
  exact finish_is_suffix_body hk hR true (ws := []) rfl

theorem body_not_is_prefix {ws ws2 wI wN : Str} (hws : ws.all isSpace = true)
    (hws2 : ws2.all isSpace = true) (hI : lower wI = sIs) (hN : lower wN = sNot) :
    normalize names (ws ++ wN ++ 32 :: ws2 ++ wI ++ 32 :: R) = some (k.codes, true) := by
  have e0 : strip (lower (ws ++ wN ++ 32 :: ws2 ++ wI ++ 32 :: R)) =
      [] ++ sNotSp ++ (ws2 ++ 105 :: 115 :: 32 :: rstrip (lower R)) := by
    have : lower (ws ++ wN ++ 32 :: ws2 ++ wI ++ 32 :: R) =
        ws ++ 110 :: ((111 :: 116 :: 32 :: ws2 ++ [105, 115, 32]) ++ lower R) := by
      simp [lower_append, lower_cons, lower_ws hws, lower_ws hws2, hI, hN, sIs, sNot, lowerC]
    unfold strip
    rw [this, lstrip_ws_cons hws _ _ (by rfl)]
    have := rstrip_app_body hR (110 :: 111 :: 116 :: 32 :: ws2 ++ [105, 115, 32])
    simpa [sNotSp] using this
  have hX : (ws2 ++ 105 :: 115 :: 32 :: rstrip (lower R)).all clean = true := by
    rw [List.all_append, ws_clean hws2, is_body_clean (body_rstrip hR)]; rfl
  unfold normalize
  rw [e0, negation_not1 _ _ (by rfl) hX]
  exact finish_is_prefix_body hk (body_rstrip hR) true hws2

omit hk hR in
/-- Junk may be added on both sides of a text whose lower-casing is a body. -/
theorem body_lower_wrap {R' : Str} (hR' : Body k (lower R')) {j j' : Str} (hj : j.all junkChar = true)
    (hj' : j'.all junkChar = true) : Body k (lower (j ++ R' ++ j')) := by
  rw [lower_append, lower_append, junk_lower _ hj, junk_lower _ hj']
  exact body_post (body_pre hR' hj) hj'

/-- Every decoration of the specification's list around a text whose lower-casing is a body. -/
theorem body_spec_decorated (d : Str × Str × Bool) (hd : d ∈ decorations) :
    normalize names (d.1 ++ R ++ d.2.1) = some (k.codes, d.2.2) := by
  rw [decorations_explicit] at hd
  simp only [decorationsExplicit, List.mem_cons, List.not_mem_nil, or_false] at hd
  have j0 : ([] : Str).all junkChar = true := rfl
  have j1 : ([32] : Str).all junkChar = true := rfl
  have j2 : ([32, 32] : Str).all junkChar = true := rfl
  rcases hd with rfl | rfl | rfl | rfl | rfl | rfl | rfl | rfl | rfl | rfl | rfl | rfl | rfl | rfl | rfl | rfl | rfl | rfl
  · simpa using body_plain hk hR
  · simpa using body_plain hk (body_lower_wrap hR j2 j1)
  · simpa using body_is_prefix hk hR (ws := []) (wI := [105, 115]) rfl rfl
  · simpa using body_is_suffix hk hR (ws := []) (wI := [105, 115]) rfl rfl
  · simpa using body_is_prefix hk (body_lower_wrap hR j0 j2) (ws := [32]) (wI := [73, 83]) rfl rfl
  · simpa using body_bang hk hR (ws := []) (ws2 := []) rfl rfl
  · simpa using body_bang hk hR (ws := []) (ws2 := [32]) rfl rfl
  · simpa using body_bang hk (body_lower_wrap hR j0 j1) (ws := [32]) (ws2 := [32, 32]) rfl rfl
  · simpa using body_bang_is_prefix hk hR (ws := []) (ws2 := []) (wI := [105, 115]) rfl rfl rfl
  · simpa using body_bang_is_prefix hk hR (ws := []) (ws2 := [32]) (wI := [105, 115]) rfl rfl rfl
  · simpa using body_not_prefix hk hR (ws := []) (wN := [110, 111, 116]) rfl rfl
  · simpa using body_not_prefix hk hR (ws := []) (wN := [78, 79, 84]) rfl rfl
  · simpa using body_is_not_prefix hk hR (ws := []) (ws2 := []) (wI := [105, 115]) (wN := [110, 111, 116])
      rfl rfl rfl rfl
  · simpa using body_is_not_prefix hk (body_lower_wrap hR j0 j1) (ws := []) (ws2 := []) (wI := [73, 115])
      (wN := [78, 111, 116]) rfl rfl rfl rfl
  · simpa using body_not_suffix hk hR (ws := []) (wN := [110, 111, 116]) rfl rfl
  · simpa using body_is_not_suffix hk hR (ws := []) (ws2 := []) (wI := [105, 115]) (wN := [110, 111, 116])
      rfl rfl rfl rfl
  · simpa using body_is_prefix_not_suffix hk hR (ws := []) (ws' := []) (wI := [105, 115])
      (wN := [110, 111, 116]) rfl rfl rfl rfl
  · simpa using body_not_suffix hk (body_lower_wrap hR j1 j0) (ws := [32]) (wN := [78, 79, 84]) rfl rfl

end body

/-! ### Chains of comparisons of any length -/

/-- The lower-case text of `operand (junk operator junk operand)*` followed by `t`, right-associated. -/
def chainT (op : KOp → OpStyle → Str) (l : Letter) (s : OperandStyle) : List Link → Str → Str
  | [], t => l.code :: (opdTail s ++ t)
  | k :: r, t => l.code :: (opdTail s ++ (k.ja ++ (op k.o k.p ++ (k.jb ++ chainT op k.l k.s r t))))

def linksOk : List Link → Prop
  | [] => True
  | k :: r => k.ja.all junkChar = true ∧ k.jb.all junkChar = true ∧ (∀ d, k.s.index = some d → d < 10) ∧ linksOk r

def linksLower : List Link → Prop
  | [] => True
  | k :: r => k.s.upper = false ∧ linksLower r

/-- The characters that survive the filter: the bare spelling. -/
def chainCodes (l : Letter) (ls : List Link) : Codes := l.code :: ls.flatMap fun k => [k.o.code, k.l.code]

theorem chainT_head (op : KOp → OpStyle → Str) (l : Letter) (s : OperandStyle) (ls : List Link) (t : Str) :
    ∃ t', chainT op l s ls t = l.code :: t' := by
  cases ls <;> exact ⟨_, rfl⟩

theorem chainT_append (op : KOp → OpStyle → Str) (l : Letter) (s : OperandStyle) (ls : List Link) (t : Str) :
    chainT op l s ls [] ++ t = chainT op l s ls t := by
  induction ls generalizing l s with
  | nil => simp [chainT]
  | cons k r ih => simp [chainT, ih]

theorem renderChain_eq (l : Letter) (s : OperandStyle) (ls : List Link) (hs : s.upper = false)
    (hl : linksLower ls) : renderChain l s ls = chainT renderOp l s ls [] := by
  induction ls generalizing l s with
  | nil => simp [renderChain, chainT, renderOperand_lower _ _ hs]
  | cons k r ih =>
    simp only [renderChain, chainT, renderOperand_lower _ _ hs, ih k.l k.s hl.1 hl.2, List.cons_append]

section stages
local notation "R1" => replaceAll [60, 61] [8804] 0
local notation "R2" => replaceAll [61, 61] [61] 0

theorem chain_stage1 (l : Letter) (s : OperandStyle) (ls : List Link) (t : Str)
    (hs : ∀ d, s.index = some d → d < 10) (hl : linksOk ls) :
    R1 (chainT renderOp l s ls t) = chainT renderOp1 l s ls (R1 t) := by
  induction ls generalizing l s with
  | nil => exact operand_R1 l s t hs
  | cons k r ih =>
    obtain ⟨ha, hb, hi, hr⟩ := hl
    obtain ⟨t', ht'⟩ := chainT_head renderOp k.l k.s r t
    have hne : (k.jb ++ chainT renderOp k.l k.s r t).head? ≠ some 61 := by
      rw [ht']; exact head_ne_61 _ _ _ hb (code_ne _).2.1
    simp only [chainT]
    rw [operand_R1 _ _ _ hs, ra_junk _ _ _ _ _ (fun c hc => (junk_ne ha c hc).1), op_R1 _ _ _ hne,
      ra_junk _ _ _ _ _ (fun c hc => (junk_ne hb c hc).1), ih _ _ hi hr]

theorem chain_stage2 (l : Letter) (s : OperandStyle) (ls : List Link) (t : Str)
    (hs : ∀ d, s.index = some d → d < 10) (hl : linksOk ls) :
    R2 (chainT renderOp1 l s ls t) = chainT opCode l s ls (R2 t) := by
  induction ls generalizing l s with
  | nil => exact operand_R2 l s t hs
  | cons k r ih =>
    obtain ⟨ha, hb, hi, hr⟩ := hl
    obtain ⟨t', ht'⟩ := chainT_head renderOp1 k.l k.s r t
    have hne : (k.jb ++ chainT renderOp1 k.l k.s r t).head? ≠ some 61 := by
      rw [ht']; exact head_ne_61 _ _ _ hb (code_ne _).2.1
    simp only [chainT]
    rw [operand_R2 _ _ _ hs, ra_junk _ _ _ _ _ (fun c hc => (junk_ne ha c hc).2.1), op_R2 _ _ _ hne,
      ra_junk _ _ _ _ _ (fun c hc => (junk_ne hb c hc).2.1), ih _ _ hi hr]
    rfl

end stages

theorem chain_stage3 (l : Letter) (s : OperandStyle) (ls : List Link) (t : Str)
    (hs : ∀ d, s.index = some d → d < 10) (hl : linksOk ls) :
    (chainT opCode l s ls t).filter allowed = chainCodes l ls ++ t.filter allowed := by
  induction ls generalizing l s with
  | nil => simp [chainT, chainCodes, allowed_letter, filter_opdTail _ hs]
  | cons k r ih =>
    obtain ⟨ha, hb, hi, hr⟩ := hl
    have := ih k.l k.s hi hr
    simp only [chainCodes] at this
    simp only [chainT, chainCodes, opCode, List.filter_cons, List.filter_append, allowed_letter, allowed_op,
      if_true, filter_opdTail _ hs, filter_junk ha, filter_junk hb, this, List.nil_append, List.cons_append,
      List.flatMap_cons]

/-- The last stage of the salvage pipeline: the code's expansion step (identity, single `x`, single `y`). -/
def expandStep (p : Str) : Str :=
  expandOne 121 (expandOne 120 (if p = sXeqY || p = sYeqX then sIdentity else p))

/-- The salvage pipeline on a decorated chain = the expansion step on its bare spelling. -/
theorem salvage_chain (l : Letter) (s : OperandStyle) (ls : List Link) (a b : Str)
    (hs : ∀ d, s.index = some d → d < 10) (hl : linksOk ls) (ha : a.all junkChar = true)
    (hb : b.all junkChar = true) :
    salvage (a ++ (chainT renderOp l s ls [] ++ b)) = expandStep (chainCodes l ls) := by
  unfold salvage
  simp only
  rw [chainT_append, ra_junk _ _ _ _ _ (fun c hc => (junk_ne ha c hc).1), chain_stage1 _ _ _ _ hs hl,
    ra_junk' _ _ _ _ (fun c hc => (junk_ne hb c hc).1),
    ra_junk _ _ _ _ _ (fun c hc => (junk_ne ha c hc).2.1), chain_stage2 _ _ _ _ hs hl,
    ra_junk' _ _ _ _ (fun c hc => (junk_ne hb c hc).2.1),
    List.filter_append, filter_junk ha, chain_stage3 _ _ _ _ hs hl, filter_junk hb]
  simp [expandStep]

theorem chain_fchar (l : Letter) (s : OperandStyle) (ls : List Link)
    (hs : ∀ d, s.index = some d → d < 10) (hl : linksOk ls) :
    (chainT renderOp l s ls []).all fchar = true := by
  have ht : ∀ s : OperandStyle, (∀ d, s.index = some d → d < 10) → (opdTail s).all fchar = true := by
    intro s h
    unfold opdTail
    split
    · rename_i d hd
      have := h d hd
      simp only [List.all_cons, List.all_nil, Bool.and_true, fchar, junkChar, Bool.or_eq_true,
        Bool.and_eq_true, Bool.not_eq_true', decide_eq_true_eq, Bool.and_eq_false_iff,
        decide_eq_false_iff_not, bne_iff_ne, beq_iff_eq]
      omega
    · rfl
  have hc : ∀ l : Letter, fchar l.code = true := by intro l; cases l <;> rfl
  have ho : ∀ (o : KOp) (p : OpStyle), (renderOp o p).all fchar = true := by
    intro o p; cases o <;> cases p <;> rfl
  induction ls generalizing l s with
  | nil => simp [chainT, hc, ht s hs]
  | cons k r ih =>
    obtain ⟨ha, hb, hi, hr⟩ := hl
    simp only [chainT, List.all_cons, List.all_append, hc, ht s hs, junk_fchar ha, junk_fchar hb, ho,
      ih _ _ hi hr, Bool.and_self]

theorem chain_last (l : Letter) (s : OperandStyle) (ls : List Link)
    (hs : ∀ d, s.index = some d → d < 10) (hl : linksOk ls) :
    ∃ ys d, chainT renderOp l s ls [] = ys ++ [d] ∧ isSpace d = false := by
  induction ls generalizing l s with
  | nil =>
    simp only [chainT, List.append_nil]
    unfold opdTail
    split
    · rename_i d hd
      refine ⟨[l.code], 48 + d, rfl, ?_⟩
      have := hs d hd
      simp only [isSpace, Bool.or_eq_false_iff, beq_eq_false_iff_ne, Bool.and_eq_false_iff,
        decide_eq_false_iff_not]
      omega
    · exact ⟨[], l.code, rfl, code_not_space l⟩
  | cons k r ih =>
    obtain ⟨_, _, hi, hr⟩ := hl
    obtain ⟨ys, d, hyd, hd⟩ := ih k.l k.s hi hr
    refine ⟨l.code :: (opdTail s ++ (k.ja ++ (renderOp k.o k.p ++ (k.jb ++ ys)))), d, ?_, hd⟩
    simp [chainT, hyd]

/-- A decorated chain whose bare spelling expands to `k` is a core for `k`. -/
theorem core_chain {k : Key} (l : Letter) (s : OperandStyle) (ls : List Link)
    (hs : ∀ d, s.index = some d → d < 10) (hl : linksOk ls) (he : expandStep (chainCodes l ls) = k.codes) :
    Core k (chainT renderOp l s ls []) where
  fch := chain_fchar l s ls hs hl
  hd := by
    obtain ⟨t', ht'⟩ := chainT_head renderOp l s ls []
    exact ⟨_, _, ht', code_not_space l⟩
  lst := chain_last l s ls hs hl
  salv := fun a b ha hb => by rw [salvage_chain l s ls a b hs hl ha hb, he]

/-! ### Abbreviated spellings -/

/-- **The expansion step of the code on the 60 bare abbreviations** (finite table). -/
theorem expand_abbrev (k : Key) (hk : k ∈ allKeys) (a : Abbrev) (ha : a.applies k = true) :
    expandStep (abbrevCodes a k) = k.codes := by
  have h : allKeys.all (fun k => allAbbrevKinds.all fun a =>
      !a.applies k || expandStep (abbrevCodes a k) == k.codes) = true := by decide +kernel
  have h1 := List.all_eq_true.mp (List.all_eq_true.mp h k hk) a (by cases a <;> decide)
  rw [ha] at h1
  simpa using h1

theorem abbrev_chainCodes (a : Abbrev) (k : Key) (st : FormulaStyle) :
    chainCodes (abbrevChain a k st).1 (abbrevChain a k st).2.2 = abbrevCodes a k := by
  cases a <;> rfl

theorem abbrev_linksOk (a : Abbrev) (k : Key) (st : FormulaStyle) (ok : StyleOk st) :
    (∀ d, (abbrevChain a k st).2.1.index = some d → d < 10) ∧ linksOk (abbrevChain a k st).2.2 := by
  cases a <;>
    simp only [abbrevChain, linksOk, and_true, ok.j1, ok.j2, ok.j3, ok.j4, ok.j5, ok.j6, true_and] <;>
    first
      | exact ⟨ok.i1, ok.i3, ok.i4⟩
      | exact ⟨ok.i1, ok.i2, ok.i4⟩
      | exact ⟨ok.i1, ok.i2, ok.i3⟩
      | exact ⟨ok.i1, ok.i3⟩
      | exact ⟨ok.i1, ok.i2⟩

theorem abbrev_lower_eq (a : Abbrev) (k : Key) (st : FormulaStyle) (hl : isLowerStyle st = true) :
    renderAbbrev k a st =
      st.j0 ++ (chainT renderOp (abbrevChain a k st).1 (abbrevChain a k st).2.1 (abbrevChain a k st).2.2 [] ++ st.j7) := by
  simp only [isLowerStyle, Bool.and_eq_true, Bool.not_eq_true'] at hl
  obtain ⟨⟨⟨h1, h2⟩, h3⟩, h4⟩ := hl
  unfold renderAbbrev
  simp only
  rw [renderChain_eq]
  · cases a <;> exact h1
  · cases a <;> simp [abbrevChain, linksLower, h2, h3, h4]

/-- A lower-case abbreviated spelling is a body for its key. -/
theorem body_abbrev (k : Key) (hk : k ∈ allKeys) (a : Abbrev) (ha : a.applies k = true) (st : FormulaStyle)
    (ok : StyleOk st) (hl : isLowerStyle st = true) : Body k (renderAbbrev k a st) := by
  obtain ⟨hs, hlk⟩ := abbrev_linksOk a k st ok
  refine ⟨st.j0, _, st.j7, abbrev_lower_eq a k st hl, ok.j0, ok.j7, core_chain _ _ _ hs hlk ?_⟩
  rw [abbrev_chainCodes, expand_abbrev k hk a ha]

theorem lower_chain (l : Letter) (s : OperandStyle) (ls : List Link)
    (hs : ∀ d, s.index = some d → d < 10) (hl : linksOk ls) :
    lower (renderChain l s ls) = renderChain l { s with upper := false }
      (ls.map fun k => { k with s := { k.s with upper := false } }) := by
  induction ls generalizing l s with
  | nil => exact operand_lower l s hs
  | cons k r ih =>
    obtain ⟨ha, hb, hi, hr⟩ := hl
    simp only [renderChain, List.map_cons, lower_append, operand_lower _ _ hs, junk_lower _ ha, junk_lower _ hb,
      op_lower, ih _ _ hi hr]

theorem lower_abbrev (k : Key) (a : Abbrev) (st : FormulaStyle) (ok : StyleOk st) :
    lower (renderAbbrev k a st) = renderAbbrev k a (lowStyle st) := by
  obtain ⟨hs, hlk⟩ := abbrev_linksOk a k st ok
  unfold renderAbbrev
  simp only
  rw [lower_append, lower_append, junk_lower _ ok.j0, junk_lower _ ok.j7, lower_chain _ _ _ hs hlk]
  cases a <;> rfl

/-- **Every abbreviated spelling, lower-cased, is a body for its key**: this is all the decorated
theorems need. -/
theorem body_lower_abbrev (k : Key) (hk : k ∈ allKeys) (a : Abbrev) (ha : a.applies k = true)
    (st : FormulaStyle) (ok : StyleOk st) : Body k (lower (renderAbbrev k a st)) := by
  rw [lower_abbrev k a st ok]
  exact body_abbrev k hk a ha _ (styleOk_low ok) (isLower_low st)

/-- The link with the existing formula theorems: the code's expansion step maps the abbreviated
spelling to what it maps the FULL spelling with the same decoration to. -/
theorem salvage_abbrev_eq_formula (k : Key) (hk : k ∈ allKeys) (a : Abbrev) (ha : a.applies k = true)
    (st : FormulaStyle) (ok : StyleOk st) (hl : isLowerStyle st = true) :
    salvage (renderAbbrev k a st) = salvage (renderFormula k st) := by
  rw [body_salvage (body_abbrev k hk a ha st ok hl), salvage_formula k hk st ok hl]

/-- The bare spellings are the ones of the finite tables of the specification. -/
theorem abbrev_bare (a : Abbrev) (k : Key) : renderAbbrev k a {} = abbrevCodes a k := by
  cases a <;> simp [renderAbbrev, abbrevChain, renderChain, renderOperand, abbrevCodes, renderOp_canonical]

end Paroxy.NP
