/-
Round 13, X1 (C17): the statement left open by round-10 item E1.
`fill` on an alternating word / single-space chunk list; then: when no chunk is longer than the first
line, the wrapping loop cuts the chunk list at single spaces only, so the lines joined by ONE space are
the text.
-/
import Paroxy.Proofs.ReportCell
namespace Paroxy.ReportCell
open Paroxy

/-- A word: non-empty, without space, at most `n` characters. -/
def Word (n : Nat) (w : Str) : Prop := w ≠ [] ∧ ' ' ∉ w ∧ w.length ≤ n

/-- An alternating chunk list `w₀, " ", w₁, " ", …, w_k` (k ≥ 0), every word at most `n` long. -/
def Alt (n : Nat) : List Str → Prop
  | [] => False
  | [w] => Word n w
  | w :: s :: rest => Word n w ∧ s = [' '] ∧ Alt n rest

theorem Word.not_ws {n : Nat} {w : Str} (h : Word n w) : isWs w = false := by
  obtain ⟨h1, h2, _⟩ := h
  cases w with
  | nil => exact absurd rfl h1
  | cons x u =>
    apply isWs_cons_ne
    intro hx
    apply h2
    simp [hx]

theorem Alt.ne_nil {n : Nat} {cs : List Str} (h : Alt n cs) : cs ≠ [] := by
  intro hc; subst hc; exact h

theorem Alt.head {n : Nat} {c : Str} {t : List Str} (h : Alt n (c :: t)) : Word n c := by
  cases t with
  | nil => exact h
  | cons s r => exact h.1

theorem Alt.flatten_ne_nil {n : Nat} {cs : List Str} (h : Alt n cs) : cs.flatten ≠ [] := by
  cases cs with
  | nil => exact absurd h (by simp [Alt])
  | cons c t =>
    have := h.head.1
    simp [this]

theorem dropLastWs_alt {n : Nat} : ∀ (l : List Str), Alt n l → dropLastWs l = l
  | [], h => rfl
  | [w], h => by
    have : isWs w = false := Word.not_ws h
    simp [dropLastWs, this]
  | w :: s :: rest, h => by
    obtain ⟨_, hs, hr⟩ := h
    subst hs
    cases rest with
    | nil => exact absurd hr (by simp [Alt])
    | cons c t =>
      have ih := dropLastWs_alt (c :: t) hr
      simp only [dropLastWs] at ih ⊢
      rw [ih]

theorem dropLastWs_snoc_ws : ∀ (l : List Str), dropLastWs (l ++ [[' ']]) = l
  | [] => by simp [dropLastWs, isWs]
  | [c] => by simp [dropLastWs, isWs]
  | c :: d :: t => by
    have ih := dropLastWs_snoc_ws (d :: t)
    simp only [List.cons_append] at ih ⊢
    simp only [dropLastWs]
    rw [ih]

/-- What `fill` does on an alternating list: nothing (the first word does not fit), everything, or a cut
just before a space / just after a space. -/
def FillRes (n : Nat) (cs : List Str) (f : List Str × List Str) : Prop :=
  (f.1 = [] ∧ f.2 = cs) ∨ (f.2 = [] ∧ f.1 = cs) ∨
  (∃ r', f.2 = [' '] :: r' ∧ Alt n r' ∧ Alt n f.1) ∨
  (Alt n f.2 ∧ ∃ l0, f.1 = l0 ++ [[' ']] ∧ Alt n l0)

theorem fill_alt (n : Nat) (w : Int) : ∀ (cur : Nat) (cs : List Str), Alt n cs → FillRes n cs (fill w cur cs)
  | cur, [], h => absurd h (by simp [Alt])
  | cur, [c], h => by
    unfold fill
    split
    · right; left; simp [fill]
    · left; simp
  | cur, c :: s :: rest, h => by
    obtain ⟨hc, hs, hr⟩ := h
    subst hs
    unfold fill
    split
    · unfold fill
      split
      · have hl1 : ([' '] : Str).length = 1 := rfl
        simp only [hl1]
        have ih := fill_alt n w (cur + c.length + 1) rest hr
        rcases ih with ⟨h1, h2⟩ | ⟨h1, h2⟩ | ⟨r', h1, h2, h3⟩ | ⟨h1, l0, h2, h3⟩
        · right; right; right
          refine ⟨by simpa [h2] using hr, [c], ?_, hc⟩
          simp [h1]
        · right; left
          simp [h1, h2]
        · right; right; left
          refine ⟨r', by simpa using h1, h2, ?_⟩
          exact ⟨hc, rfl, h3⟩
        · right; right; right
          refine ⟨h1, c :: [' '] :: l0, by simp [h2], ?_⟩
          exact ⟨hc, rfl, h3⟩
      · right; right; left
        exact ⟨rest, rfl, hr, hc⟩
    · left; simp

theorem handleLong_id (w : Int) (l : List Str) (r : Str) (rs : List Str) (h : (r.length : Int) ≤ w) :
    handleLong w (l, r :: rs) = (l, r :: rs) := by
  unfold handleLong
  simp only
  rw [if_neg (by omega)]

/-- One pass on an alternating list whose words fit on the line: an alternating line, and what remains
is nothing, or a space and an alternating list, or an alternating list after a dropped space. -/
theorem step_alt (n W ind : Nat) (first : Bool) (hn : (n : Int) ≤ (W : Int) - (ind : Int))
    (c : Str) (t : List Str) (h : Alt n (c :: t)) :
    Alt n (step W ind first c t).1 ∧
    (((step W ind first c t).2 = [] ∧ (step W ind first c t).1 = c :: t) ∨
     (∃ r', ((step W ind first c t).2 = [' '] :: r' ∨ (step W ind first c t).2 = r') ∧ Alt n r' ∧
        c :: t = (step W ind first c t).1 ++ [' '] :: r')) := by
  have hcw := h.head
  unfold step
  have hws : (!first && isWs c) = false := by simp [hcw.not_ws]
  simp only [hws, Bool.false_eq_true, if_false]
  generalize hwd : ((W : Int) - (if first = true then (ind : Int) else 0)) = w
  have hnw : (n : Int) ≤ w := by
    subst hwd
    split <;> omega
  have hfa := fill_append w 0 (c :: t)
  rcases fill_alt n w 0 (c :: t) h with ⟨h1, h2⟩ | ⟨h1, h2⟩ | ⟨r', h1, h2, h3⟩ | ⟨h1, l0, h2, h3⟩
  · exfalso
    unfold fill at h1
    have := hcw.2.2
    rw [if_pos (by omega)] at h1
    simp at h1
  · have hf : fill w 0 (c :: t) = (c :: t, []) := Prod.ext h2 h1
    rw [hf]
    simp only [handleLong]
    rw [dropLastWs_alt _ h]
    refine ⟨h, Or.inl ?_⟩
    simp
  · have hf : fill w 0 (c :: t) = ((fill w 0 (c :: t)).1, [' '] :: r') := Prod.ext rfl h1
    have h1w : (1 : Int) ≤ w := by
      have := hcw.1
      have : 1 ≤ c.length := by
        cases c with
        | nil => exact absurd rfl hcw.1
        | cons _ _ => simp
      have := hcw.2.2
      omega
    rw [hf, handleLong_id w _ _ _ (by simpa using h1w)]
    simp only
    rw [dropLastWs_alt _ h3]
    refine ⟨h3, Or.inr ⟨r', Or.inl rfl, h2, ?_⟩⟩
    rw [h1] at hfa
    exact hfa.symm
  · have hf : fill w 0 (c :: t) = (l0 ++ [[' ']], (fill w 0 (c :: t)).2) := Prod.ext h2 rfl
    cases hr : (fill w 0 (c :: t)).2 with
    | nil => rw [hr] at h1; exact absurd h1 (by simp [Alt])
    | cons r rs =>
      rw [hr] at h1 hf
      have := h1.head.2.2
      rw [hf, handleLong_id w _ _ _ (by omega)]
      simp only
      rw [dropLastWs_snoc_ws]
      refine ⟨h3, Or.inr ⟨r :: rs, Or.inr rfl, h1, ?_⟩⟩
      rw [h2, hr] at hfa
      rw [← hfa]
      simp

theorem wrapLoop_nil (W ind fuel : Nat) (b : Bool) : wrapLoop W ind fuel b [] = [] := by
  cases fuel <;> simp [wrapLoop]

/-- A space chunk at the start of a later line is dropped before the line is filled. -/
theorem wrapLoop_skip (n W ind fuel : Nat) (cs : List Str) (h : Alt n cs) :
    wrapLoop W ind (fuel + 1) false ([' '] :: cs) = wrapLoop W ind (fuel + 1) false cs := by
  cases cs with
  | nil => exact absurd h (by simp [Alt])
  | cons c t =>
    have hc : isWs c = false := h.head.not_ws
    have : step W ind false [' '] (c :: t) = step W ind false c t := by
      have hsp : isWs [' '] = true := by decide
      simp [step, hsp, hc]
    simp only [wrapLoop, this]

theorem unwrap_cons (a : Str) (L : List Str) (h : L ≠ []) : unwrap (a :: L) = a ++ ' ' :: unwrap L := by
  cases L with
  | nil => exact absurd rfl h
  | cons b t => simp [unwrap, joinWith]

/-- **The wrapping loop on an alternating list whose words fit on the first line**: the lines joined by
one space are the chunks put end to end. -/
theorem wrapLoop_alt (n W ind : Nat) (hn : (n : Int) ≤ (W : Int) - (ind : Int)) :
    ∀ (fuel : Nat) (first : Bool) (cs : List Str), Alt n cs → measure cs < fuel →
      unwrap (wrapLoop W ind fuel first cs) = cs.flatten := by
  intro fuel
  induction fuel with
  | zero => intro _ _ _ h; omega
  | succ fuel ih =>
    intro first cs h hm
    cases cs with
    | nil => exact absurd h (by simp [Alt])
    | cons c t =>
      obtain ⟨hl, hrest⟩ := step_alt n W ind first hn c t h
      unfold wrapLoop
      simp only
      have hne : (step W ind first c t).1.isEmpty = false := by
        cases hs : (step W ind first c t).1 with
        | nil => rw [hs] at hl; exact absurd hl (by simp [Alt])
        | cons _ _ => rfl
      rw [hne]
      simp only [Bool.false_eq_true, if_false]
      rcases hrest with ⟨h2, h1⟩ | ⟨r', h2, hr', heq⟩
      · rw [h2, h1, wrapLoop_nil]
        simp [unwrap, joinWith]
      · have hmr : measure r' + 2 < fuel + 1 := by
          have := congrArg measure heq
          rw [measure_append, measure_cons [' '] r'] at this
          simp only [List.length_cons, List.length_nil] at this
          omega
        have hloop : wrapLoop W ind fuel false (step W ind first c t).2 = wrapLoop W ind fuel false r' := by
          rcases h2 with h2 | h2
          · rw [h2]
            obtain ⟨f', hf'⟩ : ∃ f', fuel = f' + 1 := ⟨fuel - 1, by omega⟩
            rw [hf']
            exact wrapLoop_skip n W ind f' r' hr'
          · rw [h2]
        rw [hloop]
        have ihr := ih false r' hr' (by omega)
        have hLne : wrapLoop W ind fuel false r' ≠ [] := by
          intro hL
          rw [hL] at ihr
          exact hr'.flatten_ne_nil ihr.symm
        rw [unwrap_cons _ _ hLne, ihr]
        conv => rhs; rw [heq]
        simp

/-! ### The chunks of an enumeration rendered from spans -/

theorem splitChunks_word : ∀ (w : Str), w ≠ [] → ' ' ∉ w → ∀ s : Str, (∀ y t, s = y :: t → y = ' ') →
    splitChunks (w ++ s) = w :: splitChunks s
  | [], h, _, _, _ => absurd rfl h
  | [x], _, hx, s, hs => by
    have hx' : x ≠ ' ' := by intro h; apply hx; simp [h]
    cases s with
    | nil => simp [splitChunks]
    | cons y t =>
      have hy := hs y t rfl
      subst hy
      obtain ⟨w', r, hw'⟩ := splitChunks_head ' ' t
      simp only [List.cons_append, List.nil_append]
      rw [splitChunks.eq_2, hw']
      simp [hx']
  | x :: y :: w, _, hx, s, hs => by
    have hx' : x ≠ ' ' := by intro h; apply hx; simp [h]
    have hy' : y ≠ ' ' := by intro h; apply hx; simp [h]
    have ih := splitChunks_word (y :: w) (by simp) (by intro h; apply hx; simp [h]) s hs
    simp only [List.cons_append] at ih ⊢
    rw [splitChunks.eq_2, ih]
    have e1 : (x == ' ') = false := beq_eq_false_iff_ne.2 hx'
    have e2 : (y == ' ') = false := beq_eq_false_iff_ne.2 hy'
    simp [e1, e2]

theorem splitChunks_space (s : Str) (x : Char) (t : Str) (hs : s = x :: t) (hx : x ≠ ' ') :
    splitChunks (' ' :: s) = [' '] :: splitChunks s := by
  subst hs
  obtain ⟨w', r, hw'⟩ := splitChunks_head x t
  rw [splitChunks.eq_2, hw']
  simp [hx]

/-- The chunks of `joinSpans (p :: ps)`. -/
def spanChunks : (Nat × Nat) → List (Nat × Nat) → List Str
  | p, [] => [coupleToString (toSpan p)]
  | p, q :: t => (coupleToString (toSpan p) ++ [',']) :: [' '] :: spanChunks q t

theorem couple_no_space (p : Nat × Nat) : ' ' ∉ coupleToString (toSpan p) := by
  intro h
  exact (wordCh_ne ' ' (couple_word p ' ' h)).1 rfl

theorem splitChunks_join : ∀ (p : Nat × Nat) (ps : List (Nat × Nat)),
    splitChunks (joinSpans ((p :: ps).map toSpan)) = spanChunks p ps
  | p, [] => by
    have := splitChunks_word _ (couple_ne_nil p) (couple_no_space p) [] (by simp)
    simpa [joinSpans, spanChunks, splitChunks] using this
  | p, q :: t => by
    have ih := splitChunks_join q t
    have hne := join_ne_nil q t
    cases hj : joinSpans ((q :: t).map toSpan) with
    | nil => exact absurd hj hne
    | cons x u =>
      have hx : x ≠ ' ' := (wordCh_ne x (join_head (q :: t) x u hj)).1
      have h1 := splitChunks_word (coupleToString (toSpan p) ++ [',']) (by simp)
        (by
          intro h
          rcases List.mem_append.1 h with h | h
          · exact couple_no_space p h
          · simp at h)
        (' ' :: x :: u) (by intro y t' h; injection h with h _; exact h.symm)
      have h2 := splitChunks_space (x :: u) x u rfl hx
      rw [hj] at ih
      simp only [List.map_cons, joinSpans, spanChunks] at hj ⊢
      rw [hj]
      simp only [List.append_assoc, List.cons_append, List.nil_append] at h1
      rw [h1, h2, ih]

theorem spanChunks_alt (n : Nat) : ∀ (p : Nat × Nat) (ps : List (Nat × Nat)),
    (∀ c ∈ spanChunks p ps, c.length ≤ n) → Alt n (spanChunks p ps)
  | p, [], h => by
    refine ⟨couple_ne_nil p, couple_no_space p, h _ (by simp [spanChunks])⟩
  | p, q :: t, h => by
    simp only [spanChunks, List.forall_mem_cons] at h
    refine ⟨⟨by simp, ?_, h.1⟩, rfl, spanChunks_alt n q t h.2.2⟩
    intro hm
    rcases List.mem_append.1 hm with hm | hm
    · exact couple_no_space p hm
    · simp at hm

/-- **Wrapping replaces single spaces by line breaks and does nothing else** when no chunk of the
enumeration is longer than the first line. -/
theorem unwrap_wrapContents (W ind : Nat) (ps : List (Nat × Nat))
    (h : chunksWithin (W - ind) (joinSpans (ps.map toSpan)) = true) :
    unwrap (wrapContents W ind (joinSpans (ps.map toSpan))) = joinSpans (ps.map toSpan) := by
  cases ps with
  | nil => simp [joinSpans, wrapContents, splitChunks, wrapLoop, unwrap, joinWith]
  | cons p t =>
    unfold chunksWithin at h
    rw [splitChunks_join] at h
    have halt : Alt (W - ind) (spanChunks p t) := by
      apply spanChunks_alt
      intro c hc
      have := List.all_eq_true.1 h c hc
      simpa using this
    have h1 : 1 ≤ W - ind := by
      have hw := halt.ne_nil
      cases hsc : spanChunks p t with
      | nil => exact absurd hsc hw
      | cons c r =>
        rw [hsc] at halt
        have hh := halt.head
        have : 1 ≤ c.length := by
          cases c with
          | nil => exact absurd rfl hh.1
          | cons _ _ => simp
        have := hh.2.2
        omega
    have := wrapLoop_alt (W - ind) W ind (by omega) (measure (spanChunks p t) + 1) true (spanChunks p t) halt (by omega)
    unfold wrapContents
    simp only
    rw [splitChunks_join, this, ← splitChunks_join, splitChunks_flatten]

end Paroxy.ReportCell
